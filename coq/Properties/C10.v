(* C10 -- charge only rescales m/z; charge 0 means neutral masses. *)
From Coq Require Import List ZArith NArith Bool Arith String.
From CE Require Import Num OField Mz Peak Poisson Conv Brain ChargeProofs NumQc OFieldQc.
Import ListNotations.

Section C10.
  Context {F : Type} (N : Num F).

  Definition rescale (z : Z) (carrier : F) (p : peak (F:=F)) : peak (F:=F) := mkPeak (charged N (mz p) z carrier) (inten p).

  (* Poisson and convolution: for EVERY numeric interpretation the pattern at charge z is the neutral pattern with
     each m/z converted; same peaks, same intensities (as values of F) *)
  Theorem C10_poisson : forall mass n z lf,
    poisson_approximation_impl N mass n z lf = map (rescale z (PROTON N)) (poisson_approximation_impl N mass n 0 lf).
  Proof. exact (poisson_charge N). Qed.

  Theorem C10_convolution : forall c z carrier thr,
    isotopic_convolution N c z carrier thr = map (rescale z carrier) (isotopic_convolution N c 0 carrier thr).
  Proof. exact (convolution_charge N). Qed.

  (* charge 0 leaves the neutral mass alone *)
  Theorem C10_charge_zero : forall m carrier, charged N m 0 carrier = m.
  Proof. exact (charged_zero N). Qed.

  (* the coarse generator converts before its final stable sort: over an ordered field the conversion is strictly
     increasing in the mass, so it commutes with the sort *)
  Theorem C10_brain : OField N -> forall pv cv o z carrier,
    z <> 0%Z ->
    finish N pv cv o z carrier
    = map (fun mp => (charged N (fst mp) z carrier, snd mp)) (finish N pv cv o 0 carrier).
  Proof. exact (brain_charge N). Qed.

  (* neutral_mass inverts mass_charge_ratio for every non-zero charge of either sign *)
  Theorem C10_inverse : OField N -> forall m z carrier,
    z <> 0%Z -> neutral_mass N (mass_charge_ratio N m z carrier) z carrier = m.
  Proof. exact (neutral_inverts N). Qed.

  Theorem C10_formula : OField N -> forall m z carrier,
    z <> 0%Z -> charged N m z carrier = div N (add N m (mul N (of_Z N z) carrier)) (abs N (of_Z N z)).
  Proof. exact (charged_formula N). Qed.
End C10.

Example C10_nonvacuous :
  OField NumQc /\ neutral_mass NumQc (mass_charge_ratio NumQc (Qc_of_Z 1000) (-3) (PROTON NumQc)) (-3) (PROTON NumQc) = Qc_of_Z 1000.
Proof. exact C10_example. Qed.

Print Assumptions C10_poisson. Print Assumptions C10_convolution. Print Assumptions C10_charge_zero.
Print Assumptions C10_brain. Print Assumptions C10_inverse. Print Assumptions C10_formula. Print Assumptions C10_nonvacuous.
