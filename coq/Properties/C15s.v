(* C15, source level -- the theorems of C15.v transported along proofs/PoissonTie.v and proofs/SrcTie.v: statements
   about the definitions of coq/gen/PoissonGen.v and coq/gen/SrcGen.v (regenerated from isotopic_pattern/poisson.rs and
   mz.rs on every run).  [charged_src] is the `charge != 0` guard around the generated mass_charge_ratio. *)
From Coq Require Import ZArith List Bool.
From CE Require Import Num OField Peak PoissonSpec SrcGen PoissonGen SourcePoisson.
Import ListNotations.

Section C15s.
  Context {F : Type} (N : Num F).

  Theorem C15s_length : forall mass n z lf, length (poisson_approximation_impl_gen N mass n z lf) = n.
  Proof. exact (pois_length_src N). Qed.

  Theorem C15s_ladder : forall mass n z lf i, i < n ->
    mz (nth i (poisson_approximation_impl_gen N mass n z lf) (mkPeak (zero N) (zero N)))
    = charged_src N (add N mass (mul N (of_Z N (Z.of_nat i)) (NEUTRON_SHIFT_gen N))) z (PROTON_gen N).
  Proof. exact (pois_ladder_src N). Qed.

  Theorem C15s_count_range : forall mass lf t max_iter, 1 <= max_iter ->
    1 <= poisson_approximate_n_peaks_of_impl_gen N mass lf t max_iter <= max_iter.
  Proof. exact (pois_n_range_src N). Qed.

  (* the public function: max_iter is 255 *)
  Theorem C15s_count_public_range : forall mass t, 1 <= poisson_approximate_n_peaks_of_gen N mass t <= 255.
  Proof. exact (pois_n_public_range_src N). Qed.

  Theorem C15s_count_least : forall mass lf t max_iter, 1 <= max_iter ->
    let lambda := div N mass lf in
    let target := sub N (one N) t in
    let r := poisson_approximate_n_peaks_of_impl_gen N mass lf t max_iter in
    (forall j, 1 <= j < r -> exits N lambda target j = false)
    /\ (r < max_iter -> exits N lambda target r = true).
  Proof. exact (pois_n_least_src N). Qed.

  Theorem C15s_count_monotone_field : OField N ->
    forall mass lf t t' max_iter, 1 <= max_iter -> leb N t t' = true ->
    poisson_approximate_n_peaks_of_impl_gen N mass lf t max_iter <= poisson_approximate_n_peaks_of_impl_gen N mass lf t' max_iter.
  Proof. exact (pois_n_monotone_src N). Qed.

  Theorem C15s_ratio : OField N -> forall mass lf n z i,
    fle N (zero N) (div N mass lf) -> 1 <= i < n ->
    let ps := poisson_approximation_impl_gen N mass n z lf in
    let d := mkPeak (zero N) (zero N) in
    mul N (inten (nth i ps d)) (of_Z N (Z.of_nat i)) = mul N (inten (nth (i - 1) ps d)) (div N mass lf).
  Proof. exact (pois_ratio_src N). Qed.

  Theorem C15s_nonneg_sum : OField N -> forall mass lf n z,
    fle N (zero N) (div N mass lf) -> 1 <= n ->
    let ps := poisson_approximation_impl_gen N mass n z lf in
    (forall q, In q ps -> fle N (zero N) (inten q)) /\ fsum N (map inten ps) = one N.
  Proof. exact (pois_nonneg_sum_src N). Qed.

  Theorem C15s_spacing : OField N -> forall mass lf n z i, z <> 0%Z -> i + 1 < n ->
    let ps := poisson_approximation_impl_gen N mass n z lf in
    let d := mkPeak (zero N) (zero N) in
    sub N (mz (nth (i + 1) ps d)) (mz (nth i ps d)) = div N (NEUTRON_SHIFT_gen N) (abs N (of_Z N z)).
  Proof. exact (pois_spacing_src N). Qed.

  (* the public function, with the source's lambda factor *)
  Theorem C15s_public : OField N -> forall mass n z,
    fle N (zero N) (div N mass (LAMBDA_FACTOR_gen N)) -> 1 <= n ->
    let ps := poisson_approximation_gen N mass n z in
    length ps = n /\ (forall q, In q ps -> fle N (zero N) (inten q)) /\ fsum N (map inten ps) = one N.
  Proof. exact (pois_public_src N). Qed.
End C15s.

Print Assumptions C15s_length. Print Assumptions C15s_ladder. Print Assumptions C15s_count_range.
Print Assumptions C15s_count_public_range. Print Assumptions C15s_count_least. Print Assumptions C15s_count_monotone_field.
Print Assumptions C15s_ratio. Print Assumptions C15s_nonneg_sum. Print Assumptions C15s_spacing. Print Assumptions C15s_public.
