(* C04 -- composition arithmetic is exact pointwise integer arithmetic. *)
From Coq Require Import List ZArith NArith Bool Arith String Permutation.
From CE Require Import Num Str TableTypes TableModel Comp ESpec CompOps CompSpec CompArith.
Import ListNotations.

(* pointwise laws; absent keys read as 0.  The right operand's keys must be distinct, which the next theorem
   shows every constructor and operation guarantees. *)
Theorem C04_add : forall a b k, nodup_keys b = true -> e_get k (e_add a b) = (e_get k a + e_get k b)%Z.
Proof. exact get_add. Qed.
Theorem C04_sub : forall a b k, nodup_keys b = true -> e_get k (e_sub a b) = (e_get k a - e_get k b)%Z.
Proof. exact get_sub. Qed.
Theorem C04_mul : forall a n k, e_get k (e_mul a n) = (e_get k a * n)%Z.
Proof. exact get_mul. Qed.
Theorem C04_neg : forall a k, e_get k (e_neg a) = (- e_get k a)%Z.
Proof. exact get_neg. Qed.

(* set / inc, the primitives everything is built on *)
Theorem C04_set : forall l k n k', e_get k' (e_set k n l) = if key_eqb k' k then n else e_get k' l.
Proof. exact get_set. Qed.
Theorem C04_inc : forall l k n k', e_get k' (e_inc k n l) = if key_eqb k' k then (e_get k l + n)%Z else e_get k' l.
Proof. exact get_inc. Qed.

(* constructors: every key gets the sum of the counts listed for it *)
Theorem C04_collect : forall l k, e_get k (e_collect l) = listed k l /\ nodup_keys (e_collect l) = true.
Proof. exact get_collect. Qed.

(* distinct keys are an invariant of every primitive, hence of every operation *)
Theorem C04_nodup_invariant : forall a b k n,
  nodup_keys a = true ->
  nodup_keys (e_set k n a) = true /\ nodup_keys (e_inc k n a) = true /\ nodup_keys (e_add a b) = true
  /\ nodup_keys (e_sub a b) = true /\ nodup_keys (e_mul a n) = true /\ nodup_keys (e_neg a) = true
  /\ nodup_keys (e_copy b) = true.
Proof. exact nodup_invariant. Qed.

Section C04_ops.
  Context {F : Type} (N : Num F).
  Variable tbl : list (string * elem).
  Variable shuffle : ents -> ents.
  Hypothesis shuffle_perm : forall l, Permutation (shuffle l) l.

  (* the by-value, by-reference and in-place forms are one and the same function of the operands *)
  Theorem C04_forms_agree : forall f a b q1 q2 q3 q4 n,
    apply N tbl shuffle f (OAddRef q1) a b = apply N tbl shuffle f (OAddVal q2) a b
    /\ apply N tbl shuffle f (OAddRef q1) a b = apply N tbl shuffle f (OAddAssign q3) a b
    /\ apply N tbl shuffle f (OAddRef q1) a b = apply N tbl shuffle f (OAddAssignMut q4) a b
    /\ apply N tbl shuffle f (OSubRef q1) a b = apply N tbl shuffle f (OSubVal q2) a b
    /\ apply N tbl shuffle f (OSubRef q1) a b = apply N tbl shuffle f (OSubAssign q3) a b
    /\ apply N tbl shuffle f (OSubRef q1) a b = apply N tbl shuffle f (OSubAssignMut q4) a b
    /\ apply N tbl shuffle f (OMulRef n) a b = apply N tbl shuffle f (OMulVal n) a b
    /\ apply N tbl shuffle f (OMulRef n) a b = apply N tbl shuffle f (OMulAssign n) a b
    /\ apply N tbl shuffle f (OMulRef n) a b = apply N tbl shuffle f (OMulAssignMut n) a b
    /\ apply N tbl shuffle f ONeg a b = apply N tbl shuffle f ONegRef a b.
  Proof. exact (forms_agree N tbl shuffle). Qed.

  (* an operation changes its target register only: operands are left as they were *)
  Theorem C04_operands_untouched : forall regs r o q,
    q <> r -> nth_error (fst (step N tbl shuffle regs (r, o))) q = nth_error regs q.
  Proof. exact (operands_untouched N tbl shuffle). Qed.

  (* the result of the operators, read through get, in any family and for any iteration order *)
  Theorem C04_apply_pointwise : forall f a b q n k,
    nodup_keys (c_ents a) = true -> nodup_keys (c_ents b) = true ->
    e_get k (c_ents (fst (apply N tbl shuffle f (OAddRef q) a b))) = (e_get k (c_ents a) + e_get k (c_ents b))%Z
    /\ e_get k (c_ents (fst (apply N tbl shuffle f (OSubRef q) a b))) = (e_get k (c_ents a) - e_get k (c_ents b))%Z
    /\ e_get k (c_ents (fst (apply N tbl shuffle f (OMulRef n) a b))) = (e_get k (c_ents a) * n)%Z
    /\ e_get k (c_ents (fst (apply N tbl shuffle f ONeg a b))) = (- e_get k (c_ents a))%Z.
  Proof. exact (apply_pointwise N tbl shuffle shuffle_perm). Qed.

  (* distinct keys on every reachable state *)
  Theorem C04_reachable_nodup : forall f n ops r,
    In r (run_ops N tbl shuffle (init_regs f n) ops) -> nodup_keys (c_ents (r_comp r)) = true.
  Proof. exact (reachable_nodup N tbl shuffle shuffle_perm). Qed.
End C04_ops.

Example C04_nonvacuous :
  let H := (codes "H", 0%N) in let D := (codes "H", 2%N) in let O := (codes "O", 0%N) in
  let a := e_collect [(H, 1%Z); (O, 1%Z); (H, 2%Z)] in
  let b := e_collect [(D, 5%Z); (H, 1%Z)] in
  nodup_keys a = true /\ nodup_keys b = true /\ e_get H a = 3%Z
  /\ e_get H (e_sub a b) = 2%Z /\ e_get D (e_sub a b) = (-5)%Z /\ e_get O (e_mul (e_add a b) (-3)) = (-3)%Z.
Proof. exact C04_example. Qed.

Print Assumptions C04_add. Print Assumptions C04_sub. Print Assumptions C04_mul. Print Assumptions C04_neg.
Print Assumptions C04_set. Print Assumptions C04_inc. Print Assumptions C04_collect. Print Assumptions C04_nodup_invariant.
Print Assumptions C04_forms_agree. Print Assumptions C04_operands_untouched. Print Assumptions C04_apply_pointwise.
Print Assumptions C04_reachable_nodup. Print Assumptions C04_nonvacuous.
