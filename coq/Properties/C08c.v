(* C08 (continued) -- any number of threads, each using its own generator (and the stateless function), under any
   schedule: one atomic step per call, because `&mut self` makes a call exclusive on its generator and nothing else
   that is shared is mutable (the modelling assumption, spelled out at the top of proofs/BrainConcurrent.v). *)
From Coq Require Import List ZArith NArith Bool Arith String.
From CE Require Import Num Str TableTypes TableModel Comp Mz Peak Poisson Brain BrainSpec BrainCache BrainConcurrent.
Import ListNotations.

Section C08c.
  Context {F : Type} (N : Num F).

  (* for every schedule and every thread t: the final state of t's generator, and the outputs delivered to t, are those
     of t running its own calls alone, in the same order, on a fresh generator *)
  Theorem C08_interleaving_projection : forall (sched : schedule (F:=F)) (t : nat),
    snd (sys_run N sys_init sched) t = snd (thread_run N [] (proj t sched))
    /\ proj t (fst (sys_run N sys_init sched)) = fst (thread_run N [] (proj t sched)).
  Proof. exact (interleave_projection N). Qed.

  (* every output of every step of every schedule is what the stateless function returns for that step's request -- as
     values of F, for every numeric interpretation; for IEEE doubles that is bit for bit.  The hypothesis of
     C08_generator_pure is asked per thread, of the requests that thread sends to its own generator; nothing relates
     the requests of different threads *)
  Theorem C08_interleaving_stateless : forall (sched : schedule (F:=F)),
    (forall t : nat, reqs_ok (gen_reqs (proj t sched))) ->
    fst (sys_run N sys_init sched) = map (fun ev => (fst ev, stateless N (call_req (snd ev)))) sched.
  Proof. exact (interleave_outputs_stateless N). Qed.

  (* two schedules with the same per-thread projections give every thread the same outputs and leave every generator
     in the same state (no hypothesis on the requests) *)
  Theorem C08_schedule_irrelevant : forall (s1 s2 : schedule (F:=F)),
    (forall t : nat, proj t s1 = proj t s2) ->
    forall t : nat, proj t (fst (sys_run N sys_init s1)) = proj t (fst (sys_run N sys_init s2))
                    /\ snd (sys_run N sys_init s1) t = snd (sys_run N sys_init s2) t.
  Proof. exact (interleave_schedule_irrelevant N). Qed.
End C08c.

Print Assumptions C08_interleaving_projection. Print Assumptions C08_interleaving_stateless.
Print Assumptions C08_schedule_irrelevant.
