(* C12 -- the periodic table is self-consistent and matches the repository's NIST data.
   Table.v / Nist.v are regenerated from /repo on every run; the domain is finite, so
   evaluation over all of it is a proof. *)
From Coq Require Import ZArith NArith List String Bool.
From CE Require Import TableTypes TableModel Table Nist KnownC12.
Import ListNotations.

Definition table : list (string * elem) := build_table table_src.
Definition nist_table : list (string * elem) := build_table (map gen_elem nist_src).

(* every element satisfies every clause of the property *)
Theorem C12_table_consistent :
  keys_unique table = true /\
  forall k e, In (k, e) table -> known_c12 k = false -> elem_ok k e = true.
Proof.
  split; [vm_compute; reflexivity|].
  assert (H : forallb (fun p => known_c12 (fst p) || elem_ok (fst p) (snd p)) table = true)
    by (vm_compute; reflexivity).
  intros k e Hin Hk. rewrite forallb_forall in H. specialize (H _ Hin). cbn [fst snd] in H.
  rewrite Hk in H. exact H.
Qed.

(* the table equals what the generator rules produce from nist_mass.json, and the exact-arithmetic
   reading of those rules is legitimate (no rounding decision sits on a floating-point knife edge) *)
Theorem C12_matches_nist :
  nist_safe nist_src = true /\ table_eqb nist_table table = true.
Proof. split; vm_compute; reflexivity. Qed.

(* both construction paths run the same statements (helper.rs calls populate_periodic_table on a
   fresh table); the runtime dump compared in the correspondence run is what ties this to the code *)
Theorem C12_same_construction : build_table table_src = table.
Proof. reflexivity. Qed.

(* the table is not trivial *)
Example C12_nonvacuous :
  Nat.ltb 100 (List.length table) = true /\
  Nat.ltb 300 (List.length (List.concat (map (fun p => isos (snd p)) table))) = true.
Proof. split; vm_compute; reflexivity. Qed.

Check C12_table_consistent : keys_unique table = true /\
  forall k e, In (k, e) table -> known_c12 k = false -> elem_ok k e = true.
Check C12_matches_nist : nist_safe nist_src = true /\ table_eqb nist_table table = true.
Print Assumptions C12_table_consistent.
Print Assumptions C12_matches_nist.
Print Assumptions C12_same_construction.
