(* C09, source level -- request resolution (C09_fixed .. C09_clamp) transported along proofs/BrainTie.v and
   PoissonTie.v: statements about num_peaks_gen, guess_npeaks_gen and update_order_gen of coq/gen/BrainGen.v (regenerated
   from isotopic_pattern/baffling.rs on every run) and poisson_approximate_n_peaks_of_gen of gen/PoissonGen.v.
   The tie of num_peaks holds for requests that are i32 values; that range is a visible hypothesis here. *)
From Coq Require Import List ZArith Bool.
From CE Require Import Num OField Brain ImpB PoissonGen BrainGen SourcePoisson SourceBrainReq.
Import ListNotations.

Section C09s.
  Context {F : Type} (N : Num F).

  Theorem C09s_fixed : forall n mass c, (1 <= n <= 2147483647)%Z ->
    num_peaks_gen N (spec_of_i32 n) mass c = (n - 1)%Z.
  Proof. exact (fixed_count_src N). Qed.

  Theorem C09s_nonpositive : forall n mass c, (-2147483648 <= n < 0)%Z ->
    num_peaks_gen N (spec_of_i32 n) mass c = 0%Z.
  Proof. exact (nonpositive_count_src N). Qed.

  (* the default: the generated Poisson estimate at 0.9999, capped at 300 *)
  Theorem C09s_default : forall mass c,
    num_peaks_gen N (spec_of_i32 0) mass c
      = Z.min (Z.of_nat (poisson_approximate_n_peaks_of_gen N mass (of_dec N 9999 4))) 300
    /\ (1 <= num_peaks_gen N (spec_of_i32 0) mass c <= 255)%Z.
  Proof. exact (default_count_src N). Qed.

  Theorem C09s_guess : forall mass c mx,
    guess_npeaks_gen N mass c mx = Z.min (Z.of_nat (poisson_approximate_n_peaks_of_gen N mass (of_dec N 9999 4))) mx.
  Proof. exact (guess_npeaks_src N). Qed.

  (* a signal fraction is a fixed request for its generated Poisson estimate *)
  Theorem C09s_fraction : forall f mass c,
    num_peaks_gen N (PercentSignal f) mass c
    = num_peaks_gen N (FixedCount (Z.of_nat (poisson_approximate_n_peaks_of_gen N mass f))) mass c.
  Proof. exact (fraction_count_src N). Qed.

  (* update_order clamps the order to the variant bound (and -1 asks for the bound itself) *)
  Theorem C09s_clamp : forall (d : idist F) req, (0 <= req)%Z -> (0 <= d_max_variants d)%Z ->
    let d' := update_order_gen N d req in
    d_order d' = Z.min req (d_max_variants d) /\ (0 <= d_order d' <= d_max_variants d)%Z
    /\ ic_order (d_constants d') = d_order d' /\ d_max_variants d' = d_max_variants d.
  Proof. exact (clamp_order_src N). Qed.

  Theorem C09s_max_order : forall (d : idist F), d_order (update_order_gen N d (-1)) = d_max_variants d.
  Proof. exact (max_order_src N). Qed.
End C09s.

Print Assumptions C09s_fixed. Print Assumptions C09s_nonpositive. Print Assumptions C09s_default. Print Assumptions C09s_guess.
Print Assumptions C09s_fraction. Print Assumptions C09s_clamp. Print Assumptions C09s_max_order.
