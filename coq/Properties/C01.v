(* C01 -- a well-formed formula parses to exactly the atoms it denotes. *)
From Coq Require Import List ZArith NArith Bool Arith String.
From CE Require Import Str TableTypes TableModel Comp ESpec Formula FormulaSpec FormulaComplete Table.
Import ListNotations.

(* every strictly well-formed AST (non-empty item lists, symbols the table has, tabulated isotopes, counts that
   parse as i32), nested to any depth, parses; the composition gives every key the denoted count and holds
   no key the formula does not name *)
Theorem C01_parse_complete : forall uni_numeric has_elem has_iso f,
  wf uni_numeric has_elem has_iso false f = true ->
  exists c, parse_formula uni_numeric has_elem has_iso (render f) = FOk c
            /\ (forall k, e_get k c = denote f k)
            /\ (forall k, e_mem k c = true -> named f k = true).
Proof. exact parse_complete. Qed.

Example C01_nonvacuous :
  let T := build_table table_src in
  let f := [El (codes "C") (Some (codes "13")) (Some (codes "2"));
            Gr [El (codes "O") None None; Gr [El (codes "H") None (Some (codes "03"))] (Some (codes "2"))] (Some (codes "4"));
            El (codes "Cl") None None; El (codes "H") None None] in
  wf (fun _ => false) (has_elem T) (has_iso T) false f = true
  /\ render f = codes "C[13]2(O(H03)2)4ClH"
  /\ denote f (codes "H", 0%N) = 25%Z.
Proof. repeat split; vm_compute; reflexivity. Qed.

Print Assumptions C01_parse_complete. Print Assumptions C01_nonvacuous.
