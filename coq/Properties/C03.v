(* C03 -- the coarse pattern is the exact aggregated isotope distribution (the algebraic core).
   Over ANY real field: the probability vector BRAIN computes is, entry for entry, base times the coefficients of
   the product polynomial prod_e (Q_e/q_e0)^(n_e), and the centre masses are H_k / G_k -- where Q_e is the polynomial
   the code extracts from element e.  Whether Q_e is the element's true isotope polynomial is decided per element of
   the regenerated table in the correspondence run (that is where the known findings F12 / F14 live).
   The first formulation of these theorems (without the non-zero constant terms) was REFUTED in Coq
   (brain_prob_false / brain_center_false in alg/BrainAlgebra.v: an element whose lightest isotope has abundance or
   mass 0); the side condition is decided on the regenerated table below. *)
From Coq Require Import String.
From mathcomp Require Import all_ssreflect all_algebra.
From mathcomp Require Import ssrZ.
From CE Require Import Num TableTypes TableModel Brain BrainSpec NumMC BrainAlgSpec BrainAlgebra Table.
Set Implicit Arguments. Unset Strict Implicit. Unset Printing Implicit Defensive.
Import GRing.Theory Num.Theory.
Local Open Scope ring_scope.

Section C03.
  Variable R : realFieldType.
  Notation NR := (NumR R).

  Theorem C03_brain_prob : forall (c : bcomp) (order_req : BinNums.Z) (base : R) o pv cv,
    bcomp_ok c = true -> bcomp_pos c = true ->
    brain_vectors NR c order_req base = Some (o, pv, cv) ->
    forall k, (k <= o)%N -> nth 0 pv k = base * (Geff R c)`_k.
  Proof. exact: (@brain_prob R). Qed.

  Theorem C03_brain_center : forall (c : bcomp) (order_req : BinNums.Z) (base : R) o pv cv,
    bcomp_ok c = true -> bcomp_pos c = true -> base != 0 ->
    brain_vectors NR c order_req base = Some (o, pv, cv) ->
    forall k, (k <= o)%N -> (Geff R c)`_k != 0 -> nth 0 cv k = (Heff R c)`_k / (Geff R c)`_k.
  Proof. exact: (@brain_center R). Qed.

  (* and the vectors exist whenever the composition is in the domain and the resolved order is not negative *)
  Theorem C03_brain_defined : forall (c : bcomp) (order_req : BinNums.Z) (base : R),
    bcomp_ok c = true -> (BinInt.Z.leb BinNums.Z0 (resolve_order order_req (max_variants c))) = true ->
    exists o pv cv, brain_vectors NR c order_req base = Some (o, pv, cv)
                    /\ o = BinInt.Z.to_nat (resolve_order order_req (max_variants c))
                    /\ (o < size pv)%N /\ size cv = o.+1.
  Proof. exact: (@brain_defined R). Qed.

  (* without the side condition the statement is false: machine-checked counterexamples *)
  Theorem C03_brain_prob_unconditional_refuted :
    ~ (forall (c : bcomp) (order_req : BinNums.Z) (base : R) o pv cv,
         bcomp_ok c = true -> brain_vectors NR c order_req base = Some (o, pv, cv) ->
         forall k, (k <= o)%N -> nth 0 pv k = base * (Geff R c)`_k).
  Proof. exact: (@brain_prob_false R). Qed.
End C03.

(* every element of the regenerated table satisfies both side conditions *)
Theorem C03_table_ok :
  List.forallb (fun p => brain_elem_ok (snd p) && elem_tail_pos (snd p)) (build_table table_src) = true.
Proof. vm_compute. reflexivity. Qed.

(* the elements whose polynomial the code does NOT read faithfully are exactly the listed ones: 13 with a gap in the
   nucleon-number ladder (F12) and 40 with an isotope lighter than the most abundant one (F14); for every other
   element Q_e is the true isotope polynomial, so C03_brain_prob/_center speak of the exact distribution *)
Theorem C03_unfaithful_elements :
  List.map fst (List.filter (fun p => negb (faithful (snd p))) (build_table table_src))
  = ("Ag" :: "Ar" :: "B" :: "Ba" :: "Br" :: "Ca" :: "Cd" :: "Ce" :: "Cl" :: "Cr" :: "Cu" :: "Dy" :: "Er" :: "Eu" :: "Fe" :: "Ga"
     :: "Gd" :: "Ge" :: "He" :: "Hf" :: "Hg" :: "In" :: "Ir" :: "Kr" :: "La" :: "Li" :: "Mo" :: "Nd" :: "Ni" :: "Os" :: "Pb" :: "Pd"
     :: "Pt" :: "Rb" :: "Re" :: "Ru" :: "S" :: "Sb" :: "Se" :: "Sm" :: "Sn" :: "Sr" :: "Ta" :: "Te" :: "Ti" :: "Tl" :: "U" :: "V"
     :: "W" :: "Xe" :: "Yb" :: "Zn" :: "Zr" :: nil)%string.
Proof. vm_compute. reflexivity. Qed.

Print Assumptions C03_unfaithful_elements.
Print Assumptions C03_brain_prob. Print Assumptions C03_brain_center. Print Assumptions C03_brain_defined.
Print Assumptions C03_brain_prob_unconditional_refuted. Print Assumptions C03_table_ok.
