(* C03 -- the coarse pattern is the exact aggregated isotope distribution (the algebraic core).
   Over ANY real field: the probability vector BRAIN computes is, entry for entry, base times the coefficients of
   the product polynomial prod_e (Q_e/q_e0)^(n_e), and the centre masses are H_k / G_k -- where Q_e is the polynomial
   the code extracts from element e.  Whether Q_e is the element's true isotope polynomial is decided per element of
   the regenerated table in the correspondence run (that is where the known findings F12 / F14 live). *)
From mathcomp Require Import all_ssreflect all_algebra.
From CE Require Import Num TableTypes TableModel Brain BrainSpec NumMC BrainAlgSpec BrainAlgebra.
Set Implicit Arguments. Unset Strict Implicit. Unset Printing Implicit Defensive.
Import GRing.Theory Num.Theory.
Local Open Scope ring_scope.

Section C03.
  Variable R : realFieldType.
  Notation NR := (NumR R).

  Theorem C03_brain_prob : forall (c : bcomp) (order_req : BinNums.Z) (base : R) o pv cv,
    bcomp_ok c = true ->
    brain_vectors NR c order_req base = Some (o, pv, cv) ->
    forall k, (k <= o)%N -> nth 0 pv k = base * (Geff R c)`_k.
  Proof. exact: (@brain_prob R). Qed.

  Theorem C03_brain_center : forall (c : bcomp) (order_req : BinNums.Z) (base : R) o pv cv,
    bcomp_ok c = true -> base != 0 ->
    brain_vectors NR c order_req base = Some (o, pv, cv) ->
    forall k, (k <= o)%N -> (Geff R c)`_k != 0 -> nth 0 cv k = (Heff R c)`_k / (Geff R c)`_k.
  Proof. exact: (@brain_center R). Qed.

  (* and the vectors exist whenever the composition is in the domain and the resolved order is not negative *)
  Theorem C03_brain_defined : forall (c : bcomp) (order_req : BinNums.Z) (base : R),
    bcomp_ok c = true -> (BinInt.Z.leb 0 (resolve_order order_req (max_variants c))) = true ->
    exists o pv cv, brain_vectors NR c order_req base = Some (o, pv, cv)
                    /\ o = BinInt.Z.to_nat (resolve_order order_req (max_variants c))
                    /\ (o < size pv)%N /\ size cv = o.+1.
  Proof. exact: (@brain_defined R). Qed.
End C03.

Print Assumptions C03_brain_prob. Print Assumptions C03_brain_center. Print Assumptions C03_brain_defined.
