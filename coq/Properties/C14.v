(* C14 -- derived pattern operations agree with their step-wise definitions. *)
From Coq Require Import ZArith List Bool.
From CE Require Import Num OField Peak PeakSpec PeakProofs NumQc OFieldQc.
Import ListNotations.

Section C14.
  Context {F : Type} (N : Num F).
  Notation tip := (tip (F:=F)).

  Theorem C14_drop_last : forall (p : tip),
    clone_drop_last N p = normalize N (mkTip (removelast (peaks p)) (origin p)).
  Proof. exact (drop_last_spec N). Qed.

  Theorem C14_slice : forall (p : tip) a b,
    (a <= b <= length (peaks p) ->
       slice_normalized N p a b = Ok (normalize N (mkTip (firstn (b - a) (skipn a (peaks p))) (origin p))))
    /\ (~ (a <= b <= length (peaks p)) -> slice_normalized N p a b = Panic).
  Proof. exact (slice_spec N). Qed.

  (* the iterator, as a list: the normalised pattern, then each shorter prefix renormalised, while the
     prefix has at least two peaks and still covers more than t of the normalised signal *)
  Theorem C14_incremental : forall (p : tip) t,
    let np := normalize N p in
    let n := length (peaks np) in
    exists m, m <= n /\
      incremental_truncation N p t
        = map (fun k => normalize N (mkTip (firstn k (peaks np)) (origin np))) (down_from n m)
      /\ (forall k, In k (down_from n m) -> 2 <= k /\ gtb N (nth (k - 1) (cums_iter N np) (zero N)) t = true)
      /\ (n - m < 2 \/ gtb N (nth (n - m - 1) (cums_iter N np) (zero N)) t = false).
  Proof. exact (incremental_spec N). Qed.

  (* equality: same number of peaks and every pair within the peak tolerance *)
  Theorem C14_eq : forall (a b : tip),
    tip_eq N a b = true <->
    length (peaks a) = length (peaks b) /\ Forall2 (fun x y => peak_eq N x y = true) (peaks a) (peaks b).
  Proof. exact (tip_eq_spec N). Qed.

  Theorem C14_peak_eq : OField N -> forall (x y : peak (F:=F)),
    peak_eq N x y = true <->
    fle N (abs N (sub N (mz x) (mz y))) (tol N) /\ fle N (abs N (sub N (inten x) (inten y))) (tol N).
  Proof. exact (peak_eq_spec N). Qed.

  (* exact arithmetic, positive intensities: the fused operation returns the peaks of the step-wise one *)
  Theorem C14_fused_stepwise : OField N -> forall (p : tip) t1 t2 sh,
    positive N p -> peaks p <> [] ->
    peaks (fused N p t1 t2 sh) = peaks (shift N (ignore_below N (truncate_after N p t1) t2) sh).
  Proof. exact (fused_stepwise N). Qed.
End C14.

Example C14_nonvacuous :
  OField NumQc /\
  let p := mkTip [mkPeak (Qc_of_Z 100) (Qc_of_Z 3); mkPeak (Qc_of_Z 101) (Qc_of_Z 2); mkPeak (Qc_of_Z 102) (Qc_of_Z 1)] (Qc_of_Z 100) in
  positive NumQc p /\ length (incremental_truncation NumQc p (Qc_of_Z 0)) = 2
  /\ length (peaks (fused NumQc p (Qc_of_Z 4) (Qc_of_Z 0) (Qc_of_Z 1))) = 2.
Proof. exact C14_example. Qed.

Print Assumptions C14_drop_last. Print Assumptions C14_slice. Print Assumptions C14_incremental.
Print Assumptions C14_eq. Print Assumptions C14_peak_eq. Print Assumptions C14_fused_stepwise.
Print Assumptions C14_nonvacuous.
