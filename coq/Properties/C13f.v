(* C13, floating-point level -- normalize in rounded arithmetic: the exact sum of the returned intensities is
   within (1-u)^2/(1+u)^n .. (1+u)^2/(1-u)^n of 1, every intensity is its input times one common factor with one
   rounding, m/z and origin are untouched.  First for every [Num] that satisfies the standard model of rounding
   into an ordered field, then for Coq's primitive binary64 floats -- the very instance [NumF] the correspondence
   runs execute -- read as real numbers (u = 2^-53), whenever no overflow or underflow occurs ([normalize_safe],
   a computable test). *)
From Coq Require Import List ZArith Bool Reals Floats.
From CE Require Import Num OField Peak Rounded NumFloat NumFloat64 Float64Std RoundedProofs FloatStd.
Import ListNotations.

Section Generic.
  Context {F K : Type} (N : Num F) (NK : Num K) (v : F -> K) (u : K) (fin nrm : F -> bool).

  Theorem C13_normalize_rounded :
    OField NK -> StdModel N NK v u fin nrm ->
    forall p : tip (F:=F), peaks p <> [] -> positive NK v p -> normalize_safe N fin nrm p = true ->
    let n := length (peaks p) in
    let s := exact_total NK v (normalize N p) in
    map mz (peaks (normalize N p)) = map mz (peaks p) /\ origin (normalize N p) = origin p
    /\ fle NK (div NK (kpow NK (sub NK (one NK) u) 2) (kpow NK (add NK (one NK) u) n)) s
    /\ fle NK s (div NK (kpow NK (add NK (one NK) u) 2) (kpow NK (sub NK (one NK) u) n))
    /\ exists r, flt NK (zero NK) r
         /\ Forall2 (fun q q' => within NK u (mul NK (v (inten q)) r) (v (inten q'))) (peaks p) (peaks (normalize N p)).
  Proof. exact (normalize_rounded N NK v u fin nrm). Qed.
End Generic.

(* the reals are an ordered field and primitive binary64 arithmetic satisfies the standard model into them *)
Theorem C13_binary64_std : OField NumRR /\ StdModel NumF NumRR v64 u64 fin64 nrm64.
Proof. exact (conj OField_RR binary64_std_model). Qed.

Theorem C13_normalize_binary64 :
  forall p : tip (F:=float), peaks p <> [] ->
  (forall q, In q (peaks p) -> PrimFloat.ltb 0%float (inten q) = true) ->
  normalize_safe NumF fin64 nrm64 p = true ->
  let n := length (peaks p) in
  let s := fold_right Rplus 0%R (map (fun q => v64 (inten q)) (peaks (normalize NumF p))) in
  ((1 - u64) ^ 2 / (1 + u64) ^ n <= s /\ s <= (1 + u64) ^ 2 / (1 - u64) ^ n)%R.
Proof. exact normalize_binary64. Qed.

(* the hypotheses are met by an ordinary pattern, and by one whose float total is not 1 *)
Example C13_float_nonvacuous :
  let p := mkTip [mkPeak 100%float 0.5%float; mkPeak 101%float 0.25%float; mkPeak 102%float 0.125%float] 100%float in
  let q := mkTip [mkPeak 100%float 0.1%float; mkPeak 101%float 0.7%float; mkPeak 102%float 0.3%float] 100%float in
  normalize_safe NumF fin64 nrm64 p = true /\ normalize_safe NumF fin64 nrm64 q = true
  /\ forallb (fun x => PrimFloat.ltb 0%float (inten x)) (peaks p ++ peaks q) = true.
Proof. vm_compute. repeat split. Qed.

Print Assumptions C13_normalize_rounded. Print Assumptions C13_binary64_std.
Print Assumptions C13_normalize_binary64. Print Assumptions C13_float_nonvacuous.
