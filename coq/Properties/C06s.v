(* C06, source level -- the observational identity of the list and map forms (C06.v) transported along proofs/CompTie.v
   and PropsTie.v: statements about the generated methods of coq/gen/CompGen.v (v_: src/composition_list.rs, m_:
   src/composition_map.rs) and the enum's methods of coq/gen/PropsGen.v (a_).  [esim x y] (proofs/CompSim.v): the entries
   x and y denote the same finite map and each has pairwise distinct keys.  [shS] / [shE] are the map form's iteration
   order after a possible rehash, in the source's and the model's vocabulary. *)
From Coq Require Import List ZArith Bool String Permutation.
From CE Require Import Num Str Comp CompOps CompSpec CompSim ImpE ImpC ImpP CompGen CompTie PropsGen PropsTie SourceComp.
Import ListNotations.

Section C06s.
  Context {F : Type} (N : Num F).
  Variable tbl : ptable.
  Variable ua : char -> bool.

  (* the read accessors of the three generated types agree on containers that denote the same map *)
  Theorem C06s_observers : forall shS (cv cm : ccomp F),
    esim (keys_of (composition cv)) (keys_of (composition cm)) ->
    v_len_gen N tbl ua cv = m_len_gen N tbl ua shS cm
    /\ v_is_empty_gen N tbl ua cv = m_is_empty_gen N tbl ua shS cm
    /\ a_len_gen N tbl ua shS (AVec cv) = a_len_gen N tbl ua shS (AMap cm)
    /\ (forall k, coherent (k :: keysL cv) ->
          v_get_gen N tbl ua cv k = m_get_gen N tbl ua shS cm k
          /\ v_index_gen N tbl ua cv k = m_index_gen N tbl ua shS cm k
          /\ a_get_gen N tbl ua shS (AVec cv) k = a_get_gen N tbl ua shS (AMap cm) k).
  Proof. exact (observers_agree_src N tbl ua). Qed.

  (* the text-keyed reads *)
  Theorem C06s_str_observers : table_syms_ok tbl = true -> ImpE.keys_ok tbl ->
    forall shS (cv cm : ccomp F), specs_in tbl (composition cv) ->
    esim (keys_of (composition cv)) (keys_of (composition cm)) -> syms_in_table tbl (keys_of (composition cv)) = true ->
    forall s, v_index_str_gen N tbl ua cv s = m_index_str_gen N tbl ua shS cm s
              /\ v_get_str_gen N tbl ua cv s = m_get_str_gen N tbl ua shS cm s.
  Proof. exact (str_observers_agree_src N tbl ua). Qed.

  (* the same generated mutator on both forms preserves "denote the same map" *)
  Theorem C06s_mutators : table_syms_ok tbl = true ->
    forall shS shE, (forall m, keys_of (shS m) = shE (keys_of m)) -> (forall l, Permutation (shE l) l) ->
    forall (cv cm ov om : ccomp F) k n, coherent (k :: keysL cv) -> coherent (keysL cv ++ keysL ov) ->
    esim (keys_of (composition cv)) (keys_of (composition cm)) -> esim (keys_of (composition ov)) (keys_of (composition om)) ->
    esim (keys_of (composition (fst (v_set_gen N tbl ua cv k n)))) (keys_of (composition (fst (m_set_gen N tbl ua shS cm k n))))
    /\ esim (keys_of (composition (fst (v_inc_gen N tbl ua cv k n)))) (keys_of (composition (fst (m_inc_gen N tbl ua shS cm k n))))
    /\ esim (keys_of (composition (fst (v_mul_by_gen N tbl ua cv n)))) (keys_of (composition (fst (m_mul_by_gen N tbl ua shS cm n))))
    /\ esim (keys_of (composition (fst (v_add_from_gen N tbl ua cv ov))))
            (keys_of (composition (fst (m_add_from_gen N tbl ua (fun m => m) cm om))))
    /\ esim (keys_of (composition (fst (v_sub_from_gen N tbl ua cv ov))))
            (keys_of (composition (fst (m_sub_from_gen N tbl ua (fun m => m) cm om)))).
  Proof. exact (mutators_sim_src N tbl ua). Qed.

  (* set / inc, then get and len, on the list form, the map form and the enum over each *)
  Theorem C06s_forms_agree : table_syms_ok tbl = true ->
    forall shS shE, (forall m, keys_of (shS m) = shE (keys_of m)) -> (forall l, Permutation (shE l) l) ->
    forall (cv cm : ccomp F) k n k', coherent (k' :: k :: keysL cv) ->
    esim (keys_of (composition cv)) (keys_of (composition cm)) ->
    let cv1 := fst (v_set_gen N tbl ua cv k n) in let cm1 := fst (m_set_gen N tbl ua shS cm k n) in
    let cv2 := fst (v_inc_gen N tbl ua cv k n) in let cm2 := fst (m_inc_gen N tbl ua shS cm k n) in
    v_get_gen N tbl ua cv1 k' = m_get_gen N tbl ua shS cm1 k'
    /\ a_get_gen N tbl ua shS (AVec cv1) k' = a_get_gen N tbl ua shS (AMap cm1) k'
    /\ v_len_gen N tbl ua cv1 = m_len_gen N tbl ua shS cm1
    /\ v_get_gen N tbl ua cv2 k' = m_get_gen N tbl ua shS cm2 k'
    /\ a_get_gen N tbl ua shS (AVec cv2) k' = a_get_gen N tbl ua shS (AMap cm2) k'
    /\ v_len_gen N tbl ua cv2 = m_len_gen N tbl ua shS cm2.
  Proof. exact (set_then_read_src N tbl ua). Qed.
End C06s.

Print Assumptions C06s_observers. Print Assumptions C06s_str_observers. Print Assumptions C06s_mutators.
Print Assumptions C06s_forms_agree.
