(* C06 -- list-backed and map-backed compositions are observationally identical. *)
From Coq Require Import List ZArith NArith Bool Arith String Permutation.
From CE Require Import Num OField Str TableTypes TableModel Comp ESpec CompOps Render CompSpec CompArith CompSim Table.
Import ListNotations.

Section C06.
  Context {F : Type} (N : Num F).
  Variable tbl : list (string * elem).
  Hypothesis tbl_ok : table_syms_ok tbl = true.
  Variable uni_alphabetic : char -> bool.                 (* any behaviour of char::is_alphabetic off ASCII *)
  Variables sh1 sh2 : ents -> ents.                       (* any two iteration orders *)
  Hypothesis sh1_perm : forall l, Permutation (sh1 l) l.
  Hypothesis sh2_perm : forall l, Permutation (sh2 l) l.

  (* two register files denote the same finite maps, register by register (families are free) *)
  Definition reg_sim (a b : reg (F:=F)) : Prop :=
    same_map (c_ents (r_comp a)) (c_ents (r_comp b))
    /\ nodup_keys (c_ents (r_comp a)) = true /\ nodup_keys (c_ents (r_comp b)) = true.

  (* every shared operation, applied to both sides in whatever families they are, preserves the relation and has
     the same outcome (done / panicked) *)
  Theorem C06_step_sim : forall regs1 regs2 ro,
    Forall2 reg_sim regs1 regs2 -> not_get_str_mut (snd ro) = true ->
    Forall2 reg_sim (fst (step N tbl sh1 regs1 ro)) (fst (step N tbl sh2 regs2 ro))
    /\ snd (step N tbl sh1 regs1 ro) = snd (step N tbl sh2 regs2 ro).
  Proof. exact (step_sim N tbl tbl_ok sh1 sh2 sh1_perm sh2_perm). Qed.

  (* under the relation every read accessor agrees *)
  Theorem C06_observers : forall a b,
    same_map a b -> nodup_keys a = true -> nodup_keys b = true -> syms_in_table tbl a = true ->
    (forall k, e_get k a = e_get k b)
    /\ List.length a = List.length b /\ Permutation a b
    /\ (forall s, v_index_str tbl uni_alphabetic s a = m_index_str tbl uni_alphabetic s b)
    /\ (forall s, v_find_str s a = m_get_str tbl s b)
    /\ to_formula tbl uni_alphabetic false a = to_formula tbl uni_alphabetic true b.
  Proof. exact (observers tbl tbl_ok uni_alphabetic). Qed.

  Theorem C06_mass_agrees : OField N -> forall a b,
    same_map a b -> nodup_keys a = true -> nodup_keys b = true -> mass_sum N tbl a = mass_sum N tbl b.
  Proof. exact (mass_agrees N tbl). Qed.

  (* a bare table symbol denotes exactly the isotope-free key, for reading and for updating *)
  Theorem C06_plain_symbol : forall s l,
    has_elem tbl s = true ->
    v_index_str tbl uni_alphabetic s l = e_get (s, 0%N) l /\ m_index_str tbl uni_alphabetic s l = e_get (s, 0%N) l
    /\ v_find_str s l = e_get (s, 0%N) l /\ m_get_str tbl s l = e_get (s, 0%N) l.
  Proof. exact (plain_symbol tbl tbl_ok uni_alphabetic). Qed.

  Theorem C06_inc_str_touches_one_key : forall f s n (a b : comp F) k,
    has_elem tbl s = true -> nodup_keys (c_ents a) = true ->
    e_get k (c_ents (fst (apply N tbl sh1 f (OIncStr s n) a b)))
    = if key_eqb k (s, 0%N) then (e_get k (c_ents a) + n)%Z else e_get k (c_ents a).
  Proof. exact (inc_str_one_key N tbl tbl_ok sh1 sh1_perm). Qed.

  (* conversions preserve every entry *)
  Theorem C06_conversions : forall l, nodup_keys l = true -> same_map (e_copy l) l /\ nodup_keys (e_copy l) = true.
  Proof. exact copy_same_map. Qed.

  (* equality holds exactly when both sides have the same keys with the same counts *)
  Theorem C06_eq : forall a b, nodup_keys a = true -> nodup_keys b = true -> (e_eq a b = true <-> same_map a b).
  Proof. exact eq_same_map. Qed.
End C06.

(* the side condition on the table is decided on the regenerated table *)
Theorem C06_table_ok : table_syms_ok (build_table table_src) = true.
Proof. vm_compute. reflexivity. Qed.

Example C06_nonvacuous :
  let C := (codes "C", 0%N) in let C13 := (codes "C", 13%N) in let H := (codes "H", 0%N) in
  let v := e_add (e_collect [(C13, 5%Z); (H, 1%Z)]) (e_collect [(C, 2%Z)]) in
  let m := e_collect [(C, 2%Z); (H, 1%Z); (C13, 5%Z)] in
  same_map v m /\ nodup_keys v = true /\ nodup_keys m = true /\ v <> m
  /\ v_index_str (build_table table_src) (fun _ => false) (codes "C") v = 2%Z
  /\ e_eq v m = true.
Proof. exact C06_example. Qed.

Print Assumptions C06_step_sim. Print Assumptions C06_observers. Print Assumptions C06_mass_agrees.
Print Assumptions C06_plain_symbol. Print Assumptions C06_inc_str_touches_one_key. Print Assumptions C06_conversions.
Print Assumptions C06_eq. Print Assumptions C06_table_ok. Print Assumptions C06_nonvacuous.
