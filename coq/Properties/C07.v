(* C07 -- formula text round-trips and is canonical. *)
From Coq Require Import List ZArith NArith Bool Arith String Permutation Sorted.
From CE Require Import Str TableTypes TableModel Comp ESpec CompSpec Formula FormulaSpec Render RenderProofs Table.
Import ListNotations.

Section C07.
  Variable tbl : list (string * elem).
  Variable uni_alphabetic uni_numeric : char -> bool.

  (* equal compositions render to the identical string, whatever the representation and insertion order *)
  Theorem C07_canonical : forall a b f1 f2,
    same_map a b -> nodup_keys a = true -> nodup_keys b = true -> syms_in_table tbl a = true ->
    to_formula tbl uni_alphabetic f1 a = to_formula tbl uni_alphabetic f2 b.
  Proof. exact (render_canonical tbl uni_alphabetic). Qed.

  (* carbon first, then hydrogen, then every key (plain C and H skipped) in the fixed order: symbol, then isotope *)
  Theorem C07_order : forall l f,
    to_formula tbl uni_alphabetic f l
    = ((if (idx_str tbl uni_alphabetic f C_ l =? 0)%Z then [] else C_ ++ show_Z (idx_str tbl uni_alphabetic f C_ l))
       ++ (if (idx_str tbl uni_alphabetic f H_ l =? 0)%Z then [] else H_ ++ show_Z (idx_str tbl uni_alphabetic f H_ l))
       ++ List.concat (map show_item (sort_ents l)))%list
    /\ Permutation (sort_ents l) l
    /\ StronglySorted (fun x y => key_leb (fst x) (fst y) = true) (sort_ents l).
  Proof. exact (render_order tbl uni_alphabetic). Qed.

  (* the text of a non-empty composition with positive counts parses back to an equal composition
     (the empty composition renders "" which is not a formula: the statement without `l <> []` is false) *)
  Theorem C07_render_parse : table_syms_ok tbl = true -> forall l f,
    l <> [] -> nodup_keys l = true ->
    (forall k n, In (k, n) l ->
       (0 < n <= 2147483647)%Z /\ sym_shape uni_numeric (fst k) = true /\ has_elem tbl (fst k) = true
       /\ (snd k = 0%N \/ has_iso tbl (fst k) (snd k) = true) /\ (snd k < 65536)%N) ->
    exists c, parse_formula uni_numeric (has_elem tbl) (has_iso tbl) (to_formula tbl uni_alphabetic f l) = FOk c
              /\ same_map c l.
  Proof. exact (render_parse_nonempty tbl uni_alphabetic uni_numeric). Qed.
End C07.

(* which table symbols can head a formula item at all: every one except the electron pseudo-element `e*` *)
Theorem C07_table_shapes :
  map fst (filter (fun p => negb (sym_shape (fun _ => false) (codes (fst p)))) (build_table table_src)) = ["e*"%string].
Proof. vm_compute. reflexivity. Qed.

Print Assumptions C07_canonical. Print Assumptions C07_order. Print Assumptions C07_render_parse. Print Assumptions C07_table_shapes.
