(* C10 (frame) -- "charge ONLY rescales m/z": what the charge state can never change.  Consequences of the rescaling
   theorems of C10.v: the intensities (as values of the numeric type, so bit for bit in binary64) and the number of peaks
   of the Poisson, convolution and coarse generators are the same at every charge. *)
From Coq Require Import List ZArith NArith Bool Arith String.
From CE Require Import Num OField Mz Peak Poisson Conv Brain ChargeProofs NumQc OFieldQc C10.
Import ListNotations.

Section C10a.
  Context {F : Type} (N : Num F).

  Theorem C10a_poisson_frame : forall mass n z lf,
    map inten (poisson_approximation_impl N mass n z lf) = map inten (poisson_approximation_impl N mass n 0 lf)
    /\ List.length (poisson_approximation_impl N mass n z lf) = List.length (poisson_approximation_impl N mass n 0 lf).
  Proof.
    intros mass n z lf. rewrite (C10_poisson N mass n z lf). rewrite map_map, map_length. split; reflexivity.
  Qed.

  Theorem C10a_convolution_frame : forall c z carrier thr,
    map inten (isotopic_convolution N c z carrier thr) = map inten (isotopic_convolution N c 0 carrier thr)
    /\ List.length (isotopic_convolution N c z carrier thr) = List.length (isotopic_convolution N c 0 carrier thr).
  Proof.
    intros c z carrier thr. rewrite (C10_convolution N c z carrier thr). rewrite map_map, map_length. split; reflexivity.
  Qed.

  (* two charge states of the same request differ only by the m/z conversion of the same neutral pattern *)
  Theorem C10a_convolution_two_charges : forall c z1 z2 carrier thr,
    map inten (isotopic_convolution N c z1 carrier thr) = map inten (isotopic_convolution N c z2 carrier thr).
  Proof.
    intros c z1 z2 carrier thr.
    rewrite (proj1 (C10a_convolution_frame c z1 carrier thr)), (proj1 (C10a_convolution_frame c z2 carrier thr)). reflexivity.
  Qed.

  Theorem C10a_brain_frame : OField N -> forall pv cv o z carrier,
    map snd (finish N pv cv o z carrier) = map snd (finish N pv cv o 0 carrier)
    /\ List.length (finish N pv cv o z carrier) = List.length (finish N pv cv o 0 carrier).
  Proof.
    intros HF pv cv o z carrier. destruct (Z.eq_dec z 0) as [->|Hz]; [split; reflexivity|].
    rewrite (C10_brain N HF pv cv o z carrier Hz). rewrite map_map, map_length. split; reflexivity.
  Qed.
End C10a.

Print Assumptions C10a_poisson_frame. Print Assumptions C10a_convolution_frame.
Print Assumptions C10a_convolution_two_charges. Print Assumptions C10a_brain_frame.
