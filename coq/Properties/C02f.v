(* C02, floating-point level -- calc_mass is a chain of fused multiply-adds; in rounded arithmetic its result differs
   from the exact sum of count * mass by at most ((1+u)^n - 1) times the sum of the magnitudes |count * mass| (n entries):
   first for any numeric interpretation under the standard model of rounding with fma, then at Coq's primitive
   binary64 floats (u = 2^-53; NumF's fma is Flocq's Bfma), absent overflow/underflow ([fma_chain_safe]).  Masses are
   the floats the table holds (the rounding of the decimal literals is not part of this statement). *)
From Coq Require Import List ZArith Bool Reals Floats String.
From CE Require Import Num OField Str Comp Rounded RoundedExt RoundedFma NumFloat NumFloat64 Float64Std TableModel
                       RoundedProofs FloatStd FloatStdExt MassRounded FloatStdFma.
Import ListNotations.

Section Generic.
  Context {F K : Type} (N : Num F) (NK : Num K) (v : F -> K) (u : K) (fin nrm : F -> bool).

  (* calc_mass is the fma chain over the resolved (mass, count) pairs, for every numeric interpretation *)
  Theorem C02_calc_mass_chain : forall (tbl : list (string * elem)) (l : ents),
    calc_mass N tbl l = match resolve N tbl l with Some mc => Some (fma_chain N mc (zero N)) | None => None end.
  Proof. exact (calc_mass_chain N). Qed.

  Theorem C02_mass_rounded :
    OField NK -> StdModelFma N NK v u fin nrm ->
    forall (l : list (F * Z)), fma_chain_safe N fin nrm l (zero N) = true ->
    let n := List.length l in
    fle NK (abs NK (sub NK (v (fma_chain N l (zero N))) (exact_mass NK v l)))
           (mul NK (sub NK (kpow NK (add NK (one NK) u) n) (one NK)) (exact_abs_mass NK v l)).
  Proof. exact (mass_rounded N NK v u fin nrm). Qed.
End Generic.

Theorem C02_binary64_std_fma : StdModelFma NumF NumRR v64 u64 fin64 nrm64.
Proof. exact binary64_std_model_fma. Qed.

Theorem C02_mass_binary64 :
  forall (l : list (PrimFloat.float * Z)), fma_chain_safe NumF fin64 nrm64 l 0%float = true ->
  let n := List.length l in
  (Rabs (v64 (fma_chain NumF l 0%float) - fold_right Rplus 0 (map (fun mc => v64 (fst mc) * IZR (snd mc)) l))
   <= ((1 + u64) ^ n - 1) * fold_right Rplus 0 (map (fun mc => Rabs (v64 (fst mc) * IZR (snd mc))) l))%R.
Proof. exact mass_binary64. Qed.

(* glucose with the table's floats *)
Example C02_float_nonvacuous :
  fma_chain_safe NumF fin64 nrm64 [(12%float, 6%Z); (1.00782503207%float, 12%Z); (15.99491461956%float, 6%Z)] 0%float = true.
Proof. vm_compute. reflexivity. Qed.

Print Assumptions C02_calc_mass_chain. Print Assumptions C02_mass_rounded. Print Assumptions C02_binary64_std_fma.
Print Assumptions C02_mass_binary64. Print Assumptions C02_float_nonvacuous.
