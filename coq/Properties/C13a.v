(* C13 (frame) -- what truncation, filtering, scaling and shifting leave unchanged.  Every statement is generic in the
   numeric interpretation, so it holds for IEEE doubles as computed: shifting never touches intensities or the peak count,
   scaling and normalising never touch m/z values, the count or the origin; filtering keeps (in order) the m/z values of
   exactly the peaks at or above the threshold and never adds one; truncation keeps a prefix of the m/z values, never
   empties a non-empty pattern, and neither moves the origin. *)
From Coq Require Import ZArith List Bool.
From CE Require Import Num OField Peak PeakSpec PeakFrame NumQc OFieldQc.
Import ListNotations.
Section C13a.
  Context {F : Type} (N : Num F).
  Notation tip := (tip (F:=F)).
  Theorem C13a_shift_frame : forall (p : tip) off,
    ints (shift N p off) = ints p /\ length (peaks (shift N p off)) = length (peaks p).
  Proof. exact (frame_shift N). Qed.
  Theorem C13a_scale_by_frame : forall (p : tip) f,
    map mz (peaks (scale_by N p f)) = map mz (peaks p) /\ length (peaks (scale_by N p f)) = length (peaks p)
    /\ origin (scale_by N p f) = origin p.
  Proof. exact (frame_scale_by N). Qed.
  Theorem C13a_normalize_frame : forall (p : tip),
    map mz (peaks (normalize N p)) = map mz (peaks p) /\ length (peaks (normalize N p)) = length (peaks p)
    /\ origin (normalize N p) = origin p.
  Proof. exact (frame_normalize N). Qed.
  Theorem C13a_ignore_below_frame : forall (p : tip) t,
    map mz (peaks (ignore_below N p t)) = map mz (filter (fun q => geb N (inten q) t) (peaks p))
    /\ length (peaks (ignore_below N p t)) <= length (peaks p)
    /\ origin (ignore_below N p t) = origin p.
  Proof. exact (frame_ignore_below N). Qed.
  Theorem C13a_truncate_after_frame : forall (p : tip) t,
    exists k, map mz (peaks (truncate_after N p t)) = firstn (S k) (map mz (peaks p))
              /\ k <= Nat.pred (length (peaks p))
              /\ length (peaks (truncate_after N p t)) <= length (peaks p)
              /\ (peaks p <> [] -> peaks (truncate_after N p t) <> [])
              /\ origin (truncate_after N p t) = origin p.
  Proof. exact (frame_truncate_after N). Qed.
End C13a.
Example C13a_nonvacuous :
  let p := mkTip [mkPeak (Qc_of_Z 100) (Qc_of_Z 3); mkPeak (Qc_of_Z 101) (Qc_of_Z 2); mkPeak (Qc_of_Z 102) (Qc_of_Z 1)] (Qc_of_Z 100) in
  map mz (peaks (truncate_after NumQc p (Qc_of_Z 4))) = [Qc_of_Z 100; Qc_of_Z 101]
  /\ map mz (peaks (ignore_below NumQc p (Qc_of_Z 2))) = [Qc_of_Z 100; Qc_of_Z 101]
  /\ length (peaks (shift NumQc p (Qc_of_Z 7))) = 3.
Proof. vm_compute. repeat split; reflexivity. Qed.
Print Assumptions C13a_shift_frame. Print Assumptions C13a_scale_by_frame. Print Assumptions C13a_normalize_frame.
Print Assumptions C13a_ignore_below_frame. Print Assumptions C13a_truncate_after_frame. Print Assumptions C13a_nonvacuous.
