(* C09 (continued) -- centre masses lie between the lightest and the heaviest isotopologue, in exact arithmetic:
   H - lo*G and hi*G - H have non-negative coefficients whenever, element by element, the mass-weighted polynomial is
   sandwiched between lo_e and hi_e times the abundance polynomial (products and sums of polynomials with
   non-negative coefficients have non-negative coefficients). *)
From Coq Require Import String.
From mathcomp Require Import all_ssreflect all_algebra.
From mathcomp Require Import ssrZ.
From CE Require Import Num TableTypes TableModel Mz Brain BrainSpec NumMC BrainAlgSpec BrainAlgebra BrainBounds.
Set Implicit Arguments. Unset Strict Implicit. Unset Printing Implicit Defensive.
Import GRing.Theory Num.Theory.
Local Open Scope ring_scope.

Section C09b.
  Variable R : realFieldType.
  Notation NR := (NumR R).

  (* coefficient-wise order on polynomials *)
  Definition coef_le (p q : {poly R}) : Prop := forall k, p`_k <= q`_k.

  Theorem C09_center_bounds : forall (c : bcomp) (lo hi : elem -> R),
    (forall en, List.In en c ->
        coef_le 0 (npoly R en.1 false)
        /\ coef_le (lo en.1 *: npoly R en.1 false) (micro NR (mam en.1) *: npoly R en.1 true)
        /\ coef_le (micro NR (mam en.1) *: npoly R en.1 true) (hi en.1 *: npoly R en.1 false)) ->
    (forall en, List.In en c -> (0 < cnt en)%N) ->
    coef_le ((\sum_(en <- c) (cnt en)%:R * lo en.1) *: Geff R c) (Heff R c)
    /\ coef_le (Heff R c) ((\sum_(en <- c) (cnt en)%:R * hi en.1) *: Geff R c).
  Proof. exact: (@center_bounds R). Qed.

  (* hence every centre mass with a non-zero probability lies between the two sums *)
  Corollary C09_center_between : forall (c : bcomp) (lo hi : elem -> R) k,
    (forall en, List.In en c ->
        coef_le 0 (npoly R en.1 false)
        /\ coef_le (lo en.1 *: npoly R en.1 false) (micro NR (mam en.1) *: npoly R en.1 true)
        /\ coef_le (micro NR (mam en.1) *: npoly R en.1 true) (hi en.1 *: npoly R en.1 false)) ->
    (forall en, List.In en c -> (0 < cnt en)%N) ->
    0 < (Geff R c)`_k ->
    \sum_(en <- c) (cnt en)%:R * lo en.1 <= (Heff R c)`_k / (Geff R c)`_k <= \sum_(en <- c) (cnt en)%:R * hi en.1.
  Proof. exact: (@center_between R). Qed.

  (* the per-element hypothesis holds for an element that BRAIN reads faithfully, with lo / hi the masses of its
     lightest and heaviest isotopes *)
  Theorem C09_element_sandwich : forall e,
    brain_elem_ok e = true -> elem_tail_pos e = true -> elem_mass_sane e = true ->
    coef_le 0 (npoly R e false)
    /\ coef_le (micro NR (elem_min_mass e) *: npoly R e false) (micro NR (mam e) *: npoly R e true)
    /\ coef_le (micro NR (mam e) *: npoly R e true) (micro NR (elem_max_mass e) *: npoly R e false).
  Proof. exact: (@element_sandwich R). Qed.
End C09b.

Print Assumptions C09_center_bounds. Print Assumptions C09_center_between. Print Assumptions C09_element_sandwich.

(* every element of the regenerated table that BRAIN reads faithfully satisfies the side conditions *)
From CE Require Import Table.
Theorem C09_table_sane :
  List.forallb (fun p => negb (faithful (snd p)) || (brain_elem_ok (snd p) && elem_tail_pos (snd p) && elem_mass_sane (snd p)))
               (build_table table_src) = true.
Proof. vm_compute. reflexivity. Qed.
Print Assumptions C09_table_sane.
