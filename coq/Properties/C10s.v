(* C10, source level -- the theorems of C10.v transported along proofs/SrcTie.v, PoissonTie.v and BrainTie.v: statements
   about mass_charge_ratio_gen / neutral_mass_gen (coq/gen/SrcGen.v, from mz.rs), poisson_approximation_impl_gen
   (gen/PoissonGen.v) and dist_isotopic_variants_gen (gen/BrainGen.v, IsotopicDistribution::isotopic_variants).
   [charged_src N m z carrier] is `if z = 0 then m else mass_charge_ratio_gen N m z carrier`: the generators' guard
   around the generated function.  [isotopic_convolution_src] is the (untranslated) driver of the fine-structure generator
   around the generated convolve_pow / convolve_with / normalize / ignore_below (see C11s.v). *)
From Coq Require Import List ZArith Bool.
From CE Require Import Num OField Peak ImpB SrcGen PoissonGen BrainGen BrainTie SourcePoisson SourceBrainReq SourceConv.
Import ListNotations.

Section C10s.
  Context {F : Type} (N : Num F).

  (* neutral_mass inverts mass_charge_ratio for every non-zero charge of either sign *)
  Theorem C10s_inverse : OField N -> forall m z carrier,
    z <> 0%Z -> neutral_mass_gen N (mass_charge_ratio_gen N m z carrier) z carrier = m.
  Proof. exact (neutral_inverts_src N). Qed.

  Theorem C10s_formula : OField N -> forall m z carrier,
    z <> 0%Z -> charged_src N m z carrier = div N (add N m (mul N (of_Z N z) carrier)) (abs N (of_Z N z)).
  Proof. exact (charged_formula_src N). Qed.

  Theorem C10s_charge_zero : forall m carrier, charged_src N m 0 carrier = m.
  Proof. exact (charged_zero_src N). Qed.

  (* every numeric interpretation: the generated Poisson pattern at charge z is the neutral one with each m/z converted *)
  Theorem C10s_poisson : forall mass n z lf,
    poisson_approximation_impl_gen N mass n z lf
    = map (fun p => mkPeak (charged_src N (mz p) z (PROTON_gen N)) (inten p)) (poisson_approximation_impl_gen N mass n 0 lf).
  Proof. exact (poisson_charge_src N). Qed.

  (* the coarse generator, over an ordered field, under the side conditions of its tie (constants keyed by their
     symbols, non-negative order and variant bound): the same, a panic ([None]) at one charge being a panic at the other *)
  Theorem C10s_brain : OField N -> forall (d : idist F) z carrier,
    keyed (ic_constants (d_constants d)) -> (0 <= d_order d)%Z -> (0 <= d_max_variants d)%Z -> z <> 0%Z ->
    dist_isotopic_variants_gen N d z carrier
    = option_map (map (fun p => mkPeak (charged_src N (mz p) z carrier) (inten p))) (dist_isotopic_variants_gen N d 0 carrier).
  Proof. exact (brain_charge_src N). Qed.

  (* the fine-structure generator, every numeric interpretation *)
  Theorem C10s_convolution : forall c z carrier thr,
    isotopic_convolution_src N c z carrier thr
    = map (fun p => mkPeak (charged_src N (mz p) z carrier) (inten p)) (isotopic_convolution_src N c 0 carrier thr).
  Proof. exact (convolution_charge_src N). Qed.
End C10s.

Print Assumptions C10s_inverse. Print Assumptions C10s_formula. Print Assumptions C10s_charge_zero.
Print Assumptions C10s_poisson. Print Assumptions C10s_brain. Print Assumptions C10s_convolution.
