(* C15 -- the Poisson approximation is a normalised Poisson profile on a neutron ladder. *)
From Coq Require Import ZArith List Bool.
From CE Require Import Num OField Mz Peak Poisson PoissonSpec PoissonProofs NumQc OFieldQc.
Import ListNotations.

Section C15.
  Context {F : Type} (N : Num F).

  (* exactly n peaks, for every numeric interpretation *)
  Theorem C15_length : forall mass n z lf, length (poisson_approximation_impl N mass n z lf) = n.
  Proof. exact (pois_length N). Qed.

  (* the m/z ladder: peak i sits at the charged mass of  mass + i * 1.0033548378 *)
  Theorem C15_ladder : forall mass n z lf i, i < n ->
    mz (nth i (poisson_approximation_impl N mass n z lf) (mkPeak (zero N) (zero N)))
    = charged N (add N mass (mul N (of_Z N (Z.of_nat i)) (NEUTRON_SHIFT N))) z (PROTON N).
  Proof. exact (pois_ladder N). Qed.

  (* the returned count lies in 1..=max_iter (255 for the public function) *)
  Theorem C15_count_range : forall mass lf t max_iter, 1 <= max_iter ->
    (1 <= poisson_n_impl N mass lf t max_iter <= Z.of_nat max_iter)%Z.
  Proof. exact (pois_n_range N). Qed.

  (* it is the least iteration at which the exit condition holds, max_iter if there is none *)
  Theorem C15_count_least : forall mass lf t max_iter, 1 <= max_iter ->
    let lambda := div N mass lf in
    let target := sub N (one N) t in
    let r := Z.to_nat (poisson_n_impl N mass lf t max_iter) in
    (forall j, 1 <= j < r -> exits N lambda target j = false)
    /\ (r < max_iter -> exits N lambda target r = true).
  Proof. exact (pois_n_least N). Qed.

  (* monotone in the threshold, under the two order facts the argument needs (they hold in any ordered
     field and for IEEE comparisons of non-NaN values) *)
  Theorem C15_count_monotone :
    (forall t t', leb N t t' = true -> leb N (sub N (one N) t') (sub N (one N) t) = true) ->
    (forall x a b, ltb N x a = true -> leb N a b = true -> ltb N x b = true) ->
    forall mass lf t t' max_iter, 1 <= max_iter -> leb N t t' = true ->
    (poisson_n_impl N mass lf t max_iter <= poisson_n_impl N mass lf t' max_iter)%Z.
  Proof. exact (pois_n_monotone N). Qed.

  Theorem C15_count_monotone_field : OField N ->
    forall mass lf t t' max_iter, 1 <= max_iter -> leb N t t' = true ->
    (poisson_n_impl N mass lf t max_iter <= poisson_n_impl N mass lf t' max_iter)%Z.
  Proof. exact (pois_n_monotone_field N). Qed.

  (* exact arithmetic, lambda >= 0: the ratio law, non-negativity, sum 1 *)
  Theorem C15_ratio : OField N -> forall mass lf n z i,
    fle N (zero N) (div N mass lf) -> 1 <= i < n ->
    let ps := poisson_approximation_impl N mass n z lf in
    let d := mkPeak (zero N) (zero N) in
    mul N (inten (nth i ps d)) (of_Z N (Z.of_nat i)) = mul N (inten (nth (i - 1) ps d)) (div N mass lf).
  Proof. exact (pois_ratio N). Qed.

  Theorem C15_nonneg_sum : OField N -> forall mass lf n z,
    fle N (zero N) (div N mass lf) -> 1 <= n ->
    let ps := poisson_approximation_impl N mass n z lf in
    (forall q, In q ps -> fle N (zero N) (inten q)) /\ fsum N (map inten ps) = one N.
  Proof. exact (pois_nonneg_sum N). Qed.

  (* spacing delta/|z| between neighbours at a non-zero charge *)
  Theorem C15_spacing : OField N -> forall mass lf n z i, z <> 0%Z -> i + 1 < n ->
    let ps := poisson_approximation_impl N mass n z lf in
    let d := mkPeak (zero N) (zero N) in
    sub N (mz (nth (i + 1) ps d)) (mz (nth i ps d)) = div N (NEUTRON_SHIFT N) (abs N (of_Z N z)).
  Proof. exact (pois_spacing N). Qed.
End C15.

Example C15_nonvacuous :
  OField NumQc /\ fle NumQc (zero NumQc) (div NumQc (Qc_of_Z 750) (LAMBDA_FACTOR NumQc))
  /\ poisson_n NumQc (Qc_of_Z 750) (of_dec NumQc 95 2) = 3%Z.
Proof. exact C15_example. Qed.

Print Assumptions C15_length. Print Assumptions C15_ladder. Print Assumptions C15_count_range.
Print Assumptions C15_count_least. Print Assumptions C15_count_monotone. Print Assumptions C15_count_monotone_field.
Print Assumptions C15_ratio. Print Assumptions C15_nonneg_sum. Print Assumptions C15_spacing. Print Assumptions C15_nonvacuous.
