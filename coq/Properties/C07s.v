(* C07s -- C07 at source level: the printer AS TRANSLATED FROM THE CURRENT SOURCE (to_formula of src/formula.rs and the
   Display impls, coq/gen/RenderGen.v) is canonical and ordered, and its text goes back through the TRANSLATED parser
   (coq/gen/FormulaGen.v) to an equal composition.  Transported along proofs/RenderTie.v and proofs/FormulaTie.v.
   The printer takes any `C: Into<ChemicalCompositionRef>` ([into : C -> cref]); [cref_ents] are the entries in iteration
   order, [cref_is_map] the representation.  Side condition of the printer's tie: the keys of the entry list are pairwise
   distinct ([nodup_keys]; RenderTie.to_formula_dup_keys shows it is needed; every composition the API builds has it). *)
From Coq Require Import List ZArith NArith Bool Arith String Permutation Sorted.
From CE Require Import Str TableTypes TableModel Comp ESpec CompSpec Formula FormulaSpec Render ImpS ImpE ImpR ImpT.
From CE Require Import RenderGen FormulaGen SourceRender Table.
Import ListNotations.

Section C07s.
  Variable tbl : ptable.             (* the global PERIODIC_TABLE *)
  Variable uni_alphabetic : char -> bool.

  (* equal compositions render to the identical string, whatever the representation and insertion order *)
  Theorem C07s_canonical : forall (C1 C2 : Type) (into1 : C1 -> cref) (into2 : C2 -> cref) c1 c2,
    same_map (cref_ents (into1 c1)) (cref_ents (into2 c2)) ->
    nodup_keys (cref_ents (into1 c1)) = true -> nodup_keys (cref_ents (into2 c2)) = true ->
    syms_in_table tbl (cref_ents (into1 c1)) = true ->
    to_formula_gen tbl uni_alphabetic into1 c1 = to_formula_gen tbl uni_alphabetic into2 c2.
  Proof. exact (src_render_canonical tbl uni_alphabetic). Qed.

  (* the same for the Display impls of the list, the map and the enum composition *)
  Theorem C07s_display_canonical : forall a b f,
    same_map a b -> nodup_keys a = true -> nodup_keys b = true -> syms_in_table tbl a = true ->
    display_vec_gen tbl uni_alphabetic a f = display_map_gen tbl uni_alphabetic b f
    /\ display_vec_gen tbl uni_alphabetic a f = display_vec_gen tbl uni_alphabetic b f
    /\ display_map_gen tbl uni_alphabetic a f = display_map_gen tbl uni_alphabetic b f
    /\ display_comp_gen tbl uni_alphabetic (CVec a) f = display_comp_gen tbl uni_alphabetic (CMap b) f.
  Proof. exact (src_display_canonical tbl uni_alphabetic). Qed.

  (* carbon first, then hydrogen, then every key (plain C and H skipped) in the fixed order: symbol, then isotope *)
  Theorem C07s_order : forall (C : Type) (into : C -> cref) c,
    let l := cref_ents (into c) in let f := cref_is_map (into c) in
    nodup_keys l = true ->
    to_formula_gen tbl uni_alphabetic into c
    = ((if (idx_str tbl uni_alphabetic f C_ l =? 0)%Z then [] else C_ ++ show_Z (idx_str tbl uni_alphabetic f C_ l))
       ++ (if (idx_str tbl uni_alphabetic f H_ l =? 0)%Z then [] else H_ ++ show_Z (idx_str tbl uni_alphabetic f H_ l))
       ++ List.concat (map show_item (sort_ents l)))%list
    /\ Permutation (sort_ents l) l
    /\ StronglySorted (fun x y => key_leb (fst x) (fst y) = true) (sort_ents l).
  Proof. exact (src_render_order tbl uni_alphabetic). Qed.

  (* without the side condition: on EVERY entry list the same holds with the stable sort the source performs
     (the model's sort run on the reversed list) *)
  Theorem C07s_order_any : forall (C : Type) (into : C -> cref) c,
    let l := cref_ents (into c) in let f := cref_is_map (into c) in
    to_formula_gen tbl uni_alphabetic into c
    = ((if (idx_str tbl uni_alphabetic f C_ l =? 0)%Z then [] else C_ ++ show_Z (idx_str tbl uni_alphabetic f C_ l))
       ++ (if (idx_str tbl uni_alphabetic f H_ l =? 0)%Z then [] else H_ ++ show_Z (idx_str tbl uni_alphabetic f H_ l))
       ++ List.concat (map show_item (sort_ents (rev l))))%list
    /\ Permutation (sort_ents (rev l)) l
    /\ StronglySorted (fun x y => key_leb (fst x) (fst y) = true) (sort_ents (rev l)).
  Proof. exact (src_render_order_any tbl uni_alphabetic). Qed.

  (* BOTH generated functions: the text the generated printer writes for a non-empty composition with positive counts
     is accepted by the generated parser over the same table ([with_table uni tbl]: the Unicode oracles of [uni], the
     table predicates of [tbl]) and gives an equal composition.  The fuel is that of the model's entry point: one more
     than the length of the text for the recursion, the length of the text for parse_formula / FormulaParser::parse. *)
  Theorem C07s_render_parse : table_syms_ok tbl = true -> forall (uni : oracles) (C : Type) (into : C -> cref) c,
    let l := cref_ents (into c) in
    let text := to_formula_gen tbl uni_alphabetic into c in
    l <> [] -> nodup_keys l = true ->
    (forall k n, In (k, n) l ->
       (0 < n <= 2147483647)%Z /\ sym_shape (ImpS.uni_numeric uni) (fst k) = true /\ ESpec.has_elem tbl (fst k) = true
       /\ (snd k = 0%N \/ ESpec.has_iso tbl (fst k) (snd k) = true) /\ (snd k < 65536)%N) ->
    exists c', parse_with_table_gen (with_table uni tbl) (S (List.length text)) text = FOk c'
               /\ FormulaGen.parse_formula_gen (with_table uni tbl) (List.length text) text = FOk c'
               /\ FormulaGen.parse_gen (with_table uni tbl) (List.length text) text = FOk c'
               /\ same_map c' l.
  Proof. exact (src_render_parse tbl uni_alphabetic). Qed.
End C07s.

(* generated printer, then generated parser, on the regenerated table *)
Example C07s_nonvacuous :
  let T := build_table table_src in
  let O := with_table (mkOracles (fun _ => false) (fun _ => false) (fun _ => false) (fun _ => false) (fun _ => false) (fun _ _ => false)) T in
  let l : ents := [((codes "O", 0%N), 2%Z); ((codes "C", 13%N), 1%Z); ((codes "H", 0%N), 6%Z); ((codes "C", 0%N), 1%Z)] in
  let text := to_formula_gen T (fun _ => false) (from_map_gen T (fun _ => false)) l in
  text = codes "C1H6C[13]1O2"
  /\ match FormulaGen.parse_formula_gen O (List.length text) text with
     | FOk c => forallb (fun p => Z.eqb (e_get (fst p) c) (snd p)) l && Nat.eqb (List.length c) 4 = true | _ => False end.
Proof. split; vm_compute; reflexivity. Qed.

Print Assumptions C07s_canonical. Print Assumptions C07s_display_canonical. Print Assumptions C07s_order.
Print Assumptions C07s_order_any. Print Assumptions C07s_render_parse. Print Assumptions C07s_nonvacuous.
