(* C01s -- C01 at source level: every strictly well-formed AST parses, through the functions TRANSLATED FROM THE CURRENT
   src/formula.rs (coq/gen/FormulaGen.v), to exactly the atoms it denotes.  Transported along proofs/FormulaTie.v; the
   only side condition is the recursion fuel (one level per parenthesis nesting; more than the length of the text is
   always enough). *)
From Coq Require Import List ZArith NArith Bool Arith String.
From CE Require Import Str TableTypes TableModel Comp ESpec Formula FormulaSpec ImpS ImpT FormulaGen SourceFormula Table.
Import ListNotations.

(* the recursion `parse_with_table` *)
Theorem C01s_parse_complete : forall (O : oracles) fuel f,
  wf (ImpS.uni_numeric O) (ImpS.has_elem O) (ImpS.has_iso O) false f = true ->
  List.length (render f) < fuel ->
  exists c, parse_with_table_gen O fuel (render f) = FOk c
            /\ (forall k, e_get k c = denote f k)
            /\ (forall k, e_mem k c = true -> named f k = true).
Proof. exact src_parse_with_table_complete. Qed.

(* the entry points FormulaParser::parse, parse_formula, parse_formula_with_table: one and the same composition *)
Theorem C01s_parse_complete_entries : forall (O : oracles) fuel f,
  wf (ImpS.uni_numeric O) (ImpS.has_elem O) (ImpS.has_iso O) false f = true ->
  List.length (render f) <= fuel ->
  exists c, FormulaGen.parse_gen O fuel (render f) = FOk c
            /\ FormulaGen.parse_formula_gen O fuel (render f) = FOk c
            /\ parse_formula_with_table_gen O (S fuel) (render f) = FOk c
            /\ (forall k, e_get k c = denote f k)
            /\ (forall k, e_mem k c = true -> named f k = true).
Proof. exact src_parse_entries_complete. Qed.

(* the AST of C01_nonvacuous, through the generated parser over the regenerated table *)
Example C01s_nonvacuous :
  let T := build_table table_src in
  let O := with_table (mkOracles (fun _ => false) (fun _ => false) (fun _ => false) (fun _ => false) (fun _ => false) (fun _ _ => false)) T in
  let f := [El (codes "C") (Some (codes "13")) (Some (codes "2"));
            Gr [El (codes "O") None None; Gr [El (codes "H") None (Some (codes "03"))] (Some (codes "2"))] (Some (codes "4"));
            El (codes "Cl") None None; El (codes "H") None None] in
  wf (ImpS.uni_numeric O) (ImpS.has_elem O) (ImpS.has_iso O) false f = true
  /\ match FormulaGen.parse_formula_gen O (List.length (render f)) (render f) with
     | FOk c => e_get (codes "H", 0%N) c = 25%Z | _ => False end.
Proof. split; vm_compute; reflexivity. Qed.

Print Assumptions C01s_parse_complete. Print Assumptions C01s_parse_complete_entries. Print Assumptions C01s_nonvacuous.
