(* C11 -- fine-structure convolution enumerates the exact isotopologue distribution. *)
From Coq Require Import List ZArith NArith Bool Arith String Permutation.
From CE Require Import Num OField Mz Peak Conv ConvSpec ConvProofs NumQc OFieldQc.
Import ListNotations.

Section C11.
  Context {F : Type} (N : Num F).

  (* exact arithmetic, threshold 0 (or below): repeated squaring with the remainder recursion yields, up to order,
     exactly the full expansion -- one entry per arrangement, mass = sum of the isotopes' masses, probability =
     product of their abundances.  (A first formulation with "nothing is ever pruned" as hypothesis was vacuous:
     proofs/ConvProofs.v shows that hypothesis unsatisfiable in an ordered field.) *)
  Theorem C11_threshold_zero : OField N -> forall c thr,
    c <> [] -> (forall ec, In ec c -> (0 <= snd ec < 2 ^ 31)%Z) -> abundances_ok N c ->
    leb N thr (zero N) = true -> Permutation (conv_all N c thr) (naive_all N c).
  Proof. exact (all_expansion_nonpos N). Qed.

  (* any threshold: the entries at or above it are, with multiplicities, exactly those of the full expansion *)
  Theorem C11_multiset : OField N -> forall c thr,
    c <> [] -> (forall ec, In ec c -> (0 <= snd ec < 2 ^ 31)%Z) -> abundances_ok N c ->
    Permutation (filter (fun x => leb N thr (snd x)) (conv_all N c thr))
                (filter (fun x => leb N thr (snd x)) (naive_all N c)).
  Proof. exact (all_multiset N). Qed.

  (* with a threshold t: an arrangement whose probability is at least t is never pruned (abundances lie in (0,1], so
     every partial product is at least the full product) *)
  Theorem C11_survivors : OField N -> forall c thr x,
    c <> [] -> (forall ec, In ec c -> (0 <= snd ec < 2 ^ 31)%Z) -> abundances_ok N c ->
    In x (naive_all N c) -> leb N thr (snd x) = true -> In x (conv_all N c thr).
  Proof. exact (survivors N). Qed.

  (* and nothing is invented: whatever is returned is an arrangement *)
  Theorem C11_no_junk : OField N -> forall c thr x,
    c <> [] -> (forall ec, In ec c -> (0 <= snd ec < 2 ^ 31)%Z) -> In x (conv_all N c thr) -> In x (naive_all N c).
  Proof. exact (no_junk N). Qed.

  (* the tail of the public function, for every numeric interpretation: sorted by mass, charge-converted, normalised,
     filtered at the threshold and normalised again; an empty survivor list gives [] (no panic) *)
  Theorem C11_tail : forall c z carrier thr,
    conv_all N c thr = [] -> isotopic_convolution N c z carrier thr = [].
  Proof. exact (empty_result N). Qed.
End C11.

Print Assumptions C11_threshold_zero. Print Assumptions C11_multiset. Print Assumptions C11_survivors.
Print Assumptions C11_no_junk. Print Assumptions C11_tail.
