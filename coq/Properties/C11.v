(* C11 -- fine-structure convolution enumerates the exact isotopologue distribution. *)
From Coq Require Import List ZArith NArith Bool Arith String Permutation.
From CE Require Import Num OField Mz Peak Conv ConvSpec ConvProofs ConvOutput NumQc OFieldQc.
Import ListNotations.

Section C11.
  Context {F : Type} (N : Num F).

  (* exact arithmetic, threshold 0 (or below): repeated squaring with the remainder recursion yields, up to order,
     exactly the full expansion -- one entry per arrangement, mass = sum of the isotopes' masses, probability =
     product of their abundances.  (A first formulation with "nothing is ever pruned" as hypothesis was vacuous:
     proofs/ConvProofs.v shows that hypothesis unsatisfiable in an ordered field.) *)
  Theorem C11_threshold_zero : OField N -> forall c thr,
    c <> [] -> (forall ec, In ec c -> (0 <= snd ec < 2 ^ 31)%Z) -> abundances_ok N c ->
    leb N thr (zero N) = true -> Permutation (conv_all N c thr) (naive_all N c).
  Proof. exact (all_expansion_nonpos N). Qed.

  (* any threshold: the entries at or above it are, with multiplicities, exactly those of the full expansion *)
  Theorem C11_multiset : OField N -> forall c thr,
    c <> [] -> (forall ec, In ec c -> (0 <= snd ec < 2 ^ 31)%Z) -> abundances_ok N c ->
    Permutation (filter (fun x => leb N thr (snd x)) (conv_all N c thr))
                (filter (fun x => leb N thr (snd x)) (naive_all N c)).
  Proof. exact (all_multiset N). Qed.

  (* with a threshold t: an arrangement whose probability is at least t is never pruned (abundances lie in (0,1], so
     every partial product is at least the full product) *)
  Theorem C11_survivors : OField N -> forall c thr x,
    c <> [] -> (forall ec, In ec c -> (0 <= snd ec < 2 ^ 31)%Z) -> abundances_ok N c ->
    In x (naive_all N c) -> leb N thr (snd x) = true -> In x (conv_all N c thr).
  Proof. exact (survivors N). Qed.

  (* and nothing is invented: whatever is returned is an arrangement *)
  Theorem C11_no_junk : OField N -> forall c thr x,
    c <> [] -> (forall ec, In ec c -> (0 <= snd ec < 2 ^ 31)%Z) -> In x (conv_all N c thr) -> In x (naive_all N c).
  Proof. exact (no_junk N). Qed.

  (* the tail of the public function, for every numeric interpretation: sorted by mass, charge-converted, normalised,
     filtered at the threshold and normalised again; an empty survivor list gives [] (no panic) *)
  Theorem C11_tail : forall c z carrier thr,
    conv_all N c thr = [] -> isotopic_convolution N c z carrier thr = [].
  Proof. exact (empty_result N). Qed.
End C11.

Print Assumptions C11_threshold_zero. Print Assumptions C11_multiset. Print Assumptions C11_survivors.
Print Assumptions C11_no_junk. Print Assumptions C11_tail.

(* the whole public function over an ordered field: sorted by m/z, and -- when something survives -- intensities
   summing to 1, none below a non-negative threshold *)
From Coq Require Import Sorted.
Section C11b.
  Context {F : Type} (N : Num F).

  Theorem C11_output_sorted : OField N -> forall c z carrier thr,
    StronglySorted (fun a b => leb N (mz a) (mz b) = true) (isotopic_convolution N c z carrier thr).
  Proof. exact (output_sorted N). Qed.

  Theorem C11_output_sum : OField N -> forall c z carrier thr,
    c <> [] -> (forall ec, In ec c -> (0 <= snd ec < 2 ^ 31)%Z) -> abundances_ok N c ->
    isotopic_convolution N c z carrier thr <> [] ->
    fsum N (map inten (isotopic_convolution N c z carrier thr)) = one N.
  Proof. exact (output_sum N). Qed.

  Theorem C11_output_above : OField N -> forall c z carrier thr p,
    c <> [] -> (forall ec, In ec c -> (0 <= snd ec < 2 ^ 31)%Z) -> abundances_ok N c ->
    In p (isotopic_convolution N c z carrier thr) -> leb N thr (inten p) = true.
  Proof. exact (output_above N). Qed.
End C11b.

Print Assumptions C11_output_sorted. Print Assumptions C11_output_sum. Print Assumptions C11_output_above.

(* non-vacuity: three carbon atoms in exact arithmetic satisfy every hypothesis; 8 arrangements, 4 isotopologue masses *)
From Coq Require Import QArith Qcanon.
Definition c11_C : dist (F:=Qc) := [(Qc_of_Z 12%Z, of_dec NumQc 9893%Z 4%nat); (of_dec NumQc 13003355%Z 6%nat, of_dec NumQc 107%Z 4%nat)].
Example C11_nonvacuous :
  OField NumQc /\ abundances_ok NumQc [(c11_C, 3%Z)]
  /\ List.length (conv_all NumQc [(c11_C, 3%Z)] (Q2Qc 0)) = 8%nat
  /\ List.length (isotopic_convolution NumQc [(c11_C, 3%Z)] 2%Z (PROTON NumQc) (of_dec NumQc 1%Z 3%nat)) = 4%nat.
Proof.
  split; [exact NumQc_OField|]. split; [|split; vm_compute; reflexivity].
  intros ec ma [<-|[]] Hin. cbn [fst] in Hin.
  destruct Hin as [<-|[<-|[]]]; split; vm_compute; reflexivity.
Qed.
Print Assumptions C11_nonvacuous.
