(* C02, source level -- the cache-coherence invariant of C02.v transported along proofs/CompTie.v and PropsTie.v:
   statements about the container methods of coq/gen/CompGen.v (src/composition_list.rs: v_, src/composition_map.rs: m_)
   and the operator impls / enum methods of coq/gen/PropsGen.v (src/props.rs: a_), regenerated on every run.
   The invariant of a container c of the source is [cache_ok N tbl (comp_of c)]: a populated mass_cache holds calc_mass of
   the current entries; C02s_invariant_is_source says that, where the entries' elements are the table's ([specs_in], the
   side condition of the ties of calc_mass / mass / fmass), this is a statement about the GENERATED calc_mass. *)
From Coq Require Import List ZArith Bool String.
From CE Require Import Num OField Str Comp CompOps CompSpec ImpE ImpC ImpP CompGen CompTie PropsGen PropsTie SourceComp.
Import ListNotations.

Section C02s.
  Context {F : Type} (N : Num F).
  Variable tbl : ptable.
  Variable ua : char -> bool.

  Theorem C02s_invariant_is_source : forall c : ccomp F, specs_in tbl (composition c) ->
    (cache_ok N tbl (comp_of c) <-> forall v, mass_cache c = Some v -> v_calc_mass_gen N tbl ua c = POk v).
  Proof. exact (v_cache_inv_source N tbl ua). Qed.

  Theorem C02s_invariant_is_source_map : forall shS (c : ccomp F), specs_in tbl (composition c) ->
    (cache_ok N tbl (comp_of c) <-> forall v, mass_cache c = Some v -> m_calc_mass_gen N tbl ua shS c = POk v).
  Proof. exact (m_cache_inv_source N tbl ua). Qed.

  (* every generated mutator of the list form preserves the invariant -- a write through the place returned by
     index_mut included --, for every numeric interpretation *)
  Theorem C02s_list_mutators : forall (c o : ccomp F) k n,
    coherent (k :: keysL c) -> coherent (keysL c ++ keysL o) -> cache_ok N tbl (comp_of c) -> cache_ok N tbl (comp_of o) ->
    cache_ok N tbl (comp_of (fst (v_set_gen N tbl ua c k n)))
    /\ cache_ok N tbl (comp_of (fst (v_inc_gen N tbl ua c k n)))
    /\ cache_ok N tbl (comp_of (fst (v_mul_by_gen N tbl ua c n)))
    /\ cache_ok N tbl (comp_of (fst (v_add_from_gen N tbl ua c o)))
    /\ cache_ok N tbl (comp_of (fst (v_sub_from_gen N tbl ua c o)))
    /\ cache_ok N tbl (comp_of (fst (v_iter_mut_gen N tbl ua c)))
    /\ (exists p, snd (v_index_mut_gen N tbl ua c k) = POk p
                  /\ forall g, cache_ok N tbl (comp_of (v_place_upd g p (fst (v_index_mut_gen N tbl ua c k))))).
  Proof. exact (v_mutators_inv_src N tbl ua). Qed.

  Theorem C02s_map_mutators : forall shS shE, (forall m, keys_of (shS m) = shE (keys_of m)) -> forall (c o : ccomp F) k n,
    cache_ok N tbl (comp_of c) -> cache_ok N tbl (comp_of o) ->
    cache_ok N tbl (comp_of (fst (m_set_gen N tbl ua shS c k n)))
    /\ cache_ok N tbl (comp_of (fst (m_inc_gen N tbl ua shS c k n)))
    /\ cache_ok N tbl (comp_of (fst (m_mul_by_gen N tbl ua shS c n)))
    /\ cache_ok N tbl (comp_of (fst (m_add_from_gen N tbl ua (fun m => m) c o)))
    /\ cache_ok N tbl (comp_of (fst (m_sub_from_gen N tbl ua (fun m => m) c o)))
    /\ cache_ok N tbl (comp_of (fst (m_iter_mut_gen N tbl ua shS c))).
  Proof. exact (m_mutators_inv_src N tbl ua). Qed.

  (* on an invariant state: generated mass() = generated fmass() = generated calc_mass(), panics included, and fmass
     (which fills the cache) keeps the invariant *)
  Theorem C02s_list_coherent : forall c : ccomp F, specs_in tbl (composition c) -> cache_ok N tbl (comp_of c) ->
    v_mass_gen N tbl ua c = v_calc_mass_gen N tbl ua c
    /\ snd (v_fmass_gen N tbl ua c) = v_calc_mass_gen N tbl ua c
    /\ cache_ok N tbl (comp_of (fst (v_fmass_gen N tbl ua c))).
  Proof. exact (v_mass_coherent_src N tbl ua). Qed.

  Theorem C02s_map_coherent : forall shS (c : ccomp F), specs_in tbl (composition c) -> cache_ok N tbl (comp_of c) ->
    m_mass_gen N tbl ua shS c = m_calc_mass_gen N tbl ua shS c
    /\ snd (m_fmass_gen N tbl ua shS c) = m_calc_mass_gen N tbl ua shS c
    /\ cache_ok N tbl (comp_of (fst (m_fmass_gen N tbl ua shS c))).
  Proof. exact (m_mass_coherent_src N tbl ua). Qed.

  Theorem C02s_enum_coherent : forall shS (a : acomp F), specs_in tbl (composition (a_inner a)) -> cache_ok N tbl (acomp_of a) ->
    a_mass_gen N tbl ua shS a = a_calc_mass_gen N tbl ua shS a
    /\ snd (a_fmass_gen N tbl ua shS a) = a_calc_mass_gen N tbl ua shS a
    /\ cache_ok N tbl (acomp_of (fst (a_fmass_gen N tbl ua shS a))).
  Proof. exact (a_mass_coherent_src N tbl ua). Qed.

  (* operator level, exact arithmetic: `&a + &b` (list form) gives an invariant value whose mass is the sum of the
     operands' masses, and the generated mass() returns it when every key has a tabulated mass *)
  Theorem C02s_add_ref : OField N -> forall shS (c : ccomp F) (o : clike F),
    coherent (keysL c ++ lkeys o) -> cache_ok N tbl (comp_of c) ->
    exists r, v_add_ref_gen N tbl ua shS c o = POk r /\ cache_ok N tbl (comp_of r)
      /\ mass_sum N tbl (keys_of (composition r))
         = add N (mass_sum N tbl (keys_of (composition c))) (mass_sum N tbl (keys_of (lents o)))
      /\ (specs_in tbl (composition r) -> CompSpec.keys_ok N tbl (keys_of (composition r)) = true ->
          v_mass_gen N tbl ua r = POk (mass_sum N tbl (keys_of (composition r)))).
  Proof. exact (v_add_ref_mass_src N tbl ua). Qed.

  (* `a * n` on the enum: linear *)
  Theorem C02s_mul_val : OField N -> forall shS (a : acomp F) n,
    exists r, a_mul_val_gen N tbl ua shS a n = POk r /\ afam r = afam a /\ cache_ok N tbl (acomp_of r)
      /\ mass_sum N tbl (c_ents (acomp_of r)) = mul N (of_Z N n) (mass_sum N tbl (c_ents (acomp_of a)))
      /\ (specs_in tbl (composition (a_inner r)) -> CompSpec.keys_ok N tbl (c_ents (acomp_of r)) = true ->
          a_mass_gen N tbl ua shS r = POk (mass_sum N tbl (c_ents (acomp_of r)))).
  Proof. exact (a_mul_val_mass_src N tbl ua). Qed.
End C02s.

Print Assumptions C02s_invariant_is_source. Print Assumptions C02s_invariant_is_source_map.
Print Assumptions C02s_list_mutators. Print Assumptions C02s_map_mutators.
Print Assumptions C02s_list_coherent. Print Assumptions C02s_map_coherent. Print Assumptions C02s_enum_coherent.
Print Assumptions C02s_add_ref. Print Assumptions C02s_mul_val.
