(* C16s -- C16 at source level: the element-specification parser and its Display AS TRANSLATED FROM THE CURRENT
   src/element_specification.rs (coq/gen/ESpecGen.v) are total, sound and round-trip.  Transported along
   proofs/ESpecTie.v.  The source returns `ElementSpecification { element: &Element, isotope }` ([ImpE.espec]);
   [spec_key] reads the model's key (symbol text, isotope) off it.  Side conditions of the ties, visible below:
   [keys_ok t] (every key of the table is its element's symbol) where a key is read off a RETURNED specification;
   for the round trip, the specification's element is the table's entry for its symbol. *)
From Coq Require Import List ZArith NArith Bool Arith String.
From CE Require Import Str TableTypes TableModel Comp ESpec CompSpec ImpE ESpecGen SourceESpec ESpecCheck Table.
Import ListNotations.

Section C16s.
  Variable tbl : ptable.             (* the global PERIODIC_TABLE *)
  Variable uni_alphabetic : char -> bool.

  (* parse_with (any table t), parse, from_str: a specification or an error value, never a panic -- neither slice of
     parse_with can be out of range or off a character boundary *)
  Theorem C16s_parse_total : forall s t,
    ESpecGen.parse_with_gen tbl uni_alphabetic s t <> EPanic
    /\ ESpecGen.parse_gen tbl uni_alphabetic s <> EPanic
    /\ ESpecGen.from_str_gen tbl uni_alphabetic s <> EPanic.
  Proof. exact (src_espec_parse_total tbl uni_alphabetic). Qed.

  (* success only for a table symbol, optionally followed by exactly one bracketed decimal number that is one of that
     element's isotope numbers; the element returned is the table's entry for that symbol *)
  Theorem C16s_parse_with_sound : forall t, keys_ok t -> forall s sp,
    ESpecGen.parse_with_gen tbl uni_alphabetic s t = EOk sp ->
    let k := spec_key sp in
    tbl_find (fst k) t = Some (sp_element sp) /\
    has_elem t (fst k) = true /\
    ((s = fst k /\ snd k = 0%N /\ split_lb s = None) \/
     (exists ds, s = (fst k ++ [LB] ++ ds ++ [RB])%list /\ ds <> [] /\ forallb is_digit ds = true
                 /\ parse_u16 ds = Some (snd k) /\ has_iso t (fst k) (snd k) = true)).
  Proof. exact (src_espec_parse_with_sound tbl uni_alphabetic). Qed.

  Theorem C16s_parse_sound : keys_ok tbl -> forall s sp,
    ESpecGen.parse_gen tbl uni_alphabetic s = EOk sp \/ ESpecGen.from_str_gen tbl uni_alphabetic s = EOk sp ->
    let k := spec_key sp in
    tbl_find (fst k) tbl = Some (sp_element sp) /\
    has_elem tbl (fst k) = true /\
    ((s = fst k /\ snd k = 0%N /\ split_lb s = None) \/
     (exists ds, s = (fst k ++ [LB] ++ ds ++ [RB])%list /\ ds <> [] /\ forallb is_digit ds = true
                 /\ parse_u16 ds = Some (snd k) /\ has_iso tbl (fst k) (snd k) = true)).
  Proof. exact (src_espec_parse_sound tbl uni_alphabetic). Qed.

  (* the generated Display, then the generated parser / FromStr, gives the specification back *)
  Theorem C16s_roundtrip : table_syms_ok tbl = true -> forall sp,
    tbl_find (codes (sym (sp_element sp))) tbl = Some (sp_element sp) ->
    (sp_isotope sp = 0%N \/ has_iso tbl (codes (sym (sp_element sp))) (sp_isotope sp) = true) ->
    (sp_isotope sp < 65536)%N ->
    ESpecGen.parse_gen tbl uni_alphabetic (ESpecGen.display_gen tbl uni_alphabetic sp []) = EOk sp
    /\ ESpecGen.from_str_gen tbl uni_alphabetic (ESpecGen.display_gen tbl uni_alphabetic sp []) = EOk sp
    /\ ESpecGen.parse_with_gen tbl uni_alphabetic (ESpecGen.display_gen tbl uni_alphabetic sp []) tbl = EOk sp.
  Proof. exact (src_espec_roundtrip tbl uni_alphabetic). Qed.
End C16s.

(* [keys_ok] holds of whatever TableModel.build_table builds: closed for the crate's table *)
Theorem C16s_parse_sound_built : forall src uni_alphabetic s sp,
  let tbl := build_table src in
  ESpecGen.parse_gen tbl uni_alphabetic s = EOk sp \/ ESpecGen.from_str_gen tbl uni_alphabetic s = EOk sp ->
  let k := spec_key sp in
  tbl_find (fst k) tbl = Some (sp_element sp) /\
  has_elem tbl (fst k) = true /\
  ((s = fst k /\ snd k = 0%N /\ split_lb s = None) \/
   (exists ds, s = (fst k ++ [LB] ++ ds ++ [RB])%list /\ ds <> [] /\ forallb is_digit ds = true
               /\ parse_u16 ds = Some (snd k) /\ has_iso tbl (fst k) (snd k) = true)).
Proof. exact src_espec_parse_sound_built. Qed.

(* all (element, isotope) pairs of the regenerated table through the generated Display and parser, by evaluation *)
Theorem C16s_table_roundtrip :
  forallb (fun p => match tbl_find (codes (fst p)) TE with
                    | Some e => match ESpecGen.parse_gen TE (fun _ => false) (ESpecGen.display_gen TE (fun _ => false) (mkSpec e (snd p)) []) with
                                | EOk sp => key_eqb (spec_key sp) (codes (fst p), snd p) | _ => false end
                    | None => false end) table_pairs = true.
Proof. vm_compute. reflexivity. Qed.

Print Assumptions C16s_parse_total. Print Assumptions C16s_parse_with_sound. Print Assumptions C16s_parse_sound.
Print Assumptions C16s_roundtrip. Print Assumptions C16s_parse_sound_built. Print Assumptions C16s_table_roundtrip.
