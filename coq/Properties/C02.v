(* C02 -- reported mass always equals the mass of the current contents. *)
From Coq Require Import List ZArith NArith Bool Arith String Permutation.
From CE Require Import Num OField Str TableTypes TableModel Comp ESpec CompOps CompSpec CompInv NumQc OFieldQc Table.
Import ListNotations.
From Coq Require Qcanon. Notation Qc := Qcanon.Qc (only parsing). Local Close Scope Z_scope.

Section C02.
  Context {F : Type} (N : Num F).
  Variable tbl : list (string * elem).
  Variable shuffle : ents -> ents.     (* any behaviour of the hash map's iteration order *)

  (* one step preserves "every populated cache holds calc_mass of the current entries" -- for every operation of
     the alphabet, every family, every numeric interpretation (so for doubles as computed) *)
  Theorem C02_step_inv : forall regs ro,
    regs_ok N tbl regs -> regs_ok N tbl (fst (step N tbl shuffle regs ro)).
  Proof. exact (step_inv N tbl shuffle). Qed.

  (* hence on every reachable state mass() = fmass() = calc_mass() *)
  Theorem C02_mass_coherent : forall f n ops r,
    In r (run_ops N tbl shuffle (init_regs f n) ops) ->
    c_mass N tbl (r_comp r) = calc_mass N tbl (c_ents (r_comp r))
    /\ snd (c_fmass N tbl (r_comp r)) = calc_mass N tbl (c_ents (r_comp r))
    /\ cache_ok N tbl (fst (c_fmass N tbl (r_comp r))).
  Proof. exact (mass_coherent N tbl shuffle). Qed.

  (* exact arithmetic: calc_mass is the sum over entries of count * mass(key), whatever the iteration order,
     it is additive over + and - and linear over * *)
  Theorem C02_mass_is_sum : OField N -> forall l,
    keys_ok N tbl l = true -> calc_mass N tbl l = Some (mass_sum N tbl l).
  Proof. exact (mass_is_sum N tbl). Qed.

  Theorem C02_mass_perm : OField N -> forall l l',
    Permutation l l' -> mass_sum N tbl l = mass_sum N tbl l'.
  Proof. exact (mass_perm N tbl). Qed.

  Theorem C02_mass_additive : OField N -> forall a b,
    mass_sum N tbl (e_add a b) = add N (mass_sum N tbl a) (mass_sum N tbl b)
    /\ mass_sum N tbl (e_sub a b) = sub N (mass_sum N tbl a) (mass_sum N tbl b).
  Proof. exact (mass_additive N tbl). Qed.

  Theorem C02_mass_linear : OField N -> forall a n,
    mass_sum N tbl (e_mul a n) = mul N (of_Z N n) (mass_sum N tbl a).
  Proof. exact (mass_linear N tbl). Qed.
End C02.

(* non-vacuity: a history that fills the cache, mutates through three different paths and fills it again *)
Example C02_nonvacuous :
  OField NumQc /\
  let T := build_table table_src in
  let H := (codes "H", 0%N) in let O := (codes "O", 0%N) in
  let regs := run_ops NumQc T (fun l => l) (init_regs FMapDirect 2)
                [(0, OSet H 2); (0, OSet O 1); (0, OFmass); (0, OMulAssign 2); (1, OClone 0); (1, OFmass); (1, OAddAssign 0)] in
  regs_ok NumQc T regs /\ List.length regs = 2
  /\ c_mass NumQc T (r_comp (nth 1 regs (mkReg FMapDirect (empty_comp (F:=Qc))))) = Some (mass_sum NumQc T [(H, 8%Z); (O, 4%Z)]).
Proof. exact C02_example. Qed.

Print Assumptions C02_step_inv. Print Assumptions C02_mass_coherent. Print Assumptions C02_mass_is_sum.
Print Assumptions C02_mass_perm. Print Assumptions C02_mass_additive. Print Assumptions C02_mass_linear.
Print Assumptions C02_nonvacuous.
