(* C15, floating-point level -- the Poisson generator in rounded arithmetic: for any numeric interpretation satisfying
   the (extended) standard model of rounding, the exact sum of the returned intensities lies in
   [(1-u)/(1+u)^n, (1+u)/(1-u)^n] (n = number of peaks - 1), every intensity is positive, and consecutive intensities
   are in the ratio lambda/i up to six roundings; then the instance at Coq's primitive binary64 floats (u = 2^-53),
   whenever no overflow/underflow occurs ([poisson_safe], a computable test).  The binary64 theorem rests on the
   standard library's axioms for the reals and for primitive floats (DESIGN.md section 3); the generic ones are
   axiom-free. *)
From Coq Require Import List ZArith Bool Reals Floats.
From CE Require Import Num OField Mz Peak Poisson Rounded RoundedExt NumFloat NumFloat64 Float64Std PoissonRoundedSpec
                       RoundedProofs FloatStd FloatStdExt PoissonRounded.
Import ListNotations.

Section Generic.
  Context {F K : Type} (N : Num F) (NK : Num K) (v : F -> K) (u : K) (fin nrm : F -> bool).


  Theorem C15_sum_rounded :
    OField NK -> StdModelExt N NK v u fin nrm ->
    forall (mass : F) (n : nat) (z : Z) (lf : F),
    flt NK (zero NK) (v mass) -> flt NK (zero NK) (v lf) -> (Z.of_nat n < 2 ^ 53)%Z ->
    poisson_safe N fin nrm mass (S n) lf = true ->
    let out := poisson_approximation_impl N mass (S n) z lf in
    let s := ksum NK (map (fun q => v (inten q)) out) in
    length out = S n
    /\ Forall (fun q => flt NK (zero NK) (v (inten q))) out
    /\ fle NK (div NK (sub NK (one NK) u) (kpow NK (add NK (one NK) u) n)) s
    /\ fle NK s (div NK (add NK (one NK) u) (kpow NK (sub NK (one NK) u) n)).
  Proof. exact (poisson_sum_rounded N NK v u fin nrm). Qed.

  (* consecutive intensities: y_i / y_(i-1) = (lambda / i) * (1+d1)...(1+d6)-ish: within ((1+u)/(1-u))^3 of lambda^/i,
     lambda^ being the rounded quotient mass / lambda_factor the generator itself uses *)
  Theorem C15_ratio_rounded :
    OField NK -> StdModelExt N NK v u fin nrm ->
    forall (mass : F) (n : nat) (z : Z) (lf : F),
    flt NK (zero NK) (v mass) -> flt NK (zero NK) (v lf) -> (Z.of_nat n < 2 ^ 53)%Z ->
    poisson_safe N fin nrm mass (S n) lf = true ->
    let out := map (fun q => v (inten q)) (poisson_approximation_impl N mass (S n) z lf) in
    let L := v (div N mass lf) in
    let lo := div NK (kpow NK (sub NK (one NK) u) 3) (kpow NK (add NK (one NK) u) 3) in
    let hi := div NK (kpow NK (add NK (one NK) u) 3) (kpow NK (sub NK (one NK) u) 3) in
    forall i, (1 <= i <= n)%nat ->
      let r := div NK (nth i out (zero NK)) (nth (i - 1) out (zero NK)) in
      let want := div NK L (of_Z NK (Z.of_nat i)) in
      fle NK (mul NK want lo) r /\ fle NK r (mul NK want hi).
  Proof. exact (poisson_ratio_rounded N NK v u fin nrm). Qed.
End Generic.

Theorem C15_sum_binary64 :
  forall (mass : PrimFloat.float) (n : nat) (z : Z) (lf : PrimFloat.float),
  PrimFloat.ltb 0%float mass = true -> PrimFloat.ltb 0%float lf = true -> (Z.of_nat n < 2 ^ 53)%Z ->
  poisson_safe NumF fin64 nrm64 mass (S n) lf = true ->
  let out := poisson_approximation_impl NumF mass (S n) z lf in
  let s := fold_right Rplus 0%R (map (fun q => v64 (inten q)) out) in
  ((1 - u64) / (1 + u64) ^ n <= s /\ s <= (1 + u64) / (1 - u64) ^ n)%R.
Proof. exact (poisson_sum_binary64_of binary64_std_model_ext). Qed.

Example C15_float_nonvacuous :
  poisson_safe NumF fin64 nrm64 750%float 8 1800%float = true /\ poisson_safe NumF fin64 nrm64 25000%float 40 1800%float = true.
Proof. vm_compute. split; reflexivity. Qed.

Print Assumptions C15_sum_rounded. Print Assumptions C15_ratio_rounded.
Print Assumptions C15_sum_binary64. Print Assumptions C15_float_nonvacuous.
