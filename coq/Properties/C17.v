(* C17 -- the C binding mirrors the Rust API, reports errors by code and keeps its handle table consistent.
   (Memory safety of the unsafe blocks themselves is a property of machine memory: the handle discipline is proved
   here, the AddressSanitizer run of the thorough tier is supporting evidence -- see DESIGN.md.) *)
From Coq Require Import List ZArith NArith Bool Arith String.
From CE Require Import Num Str TableTypes TableModel Comp ESpec Formula FormulaSpec CBind CBindProofs.
Import ListNotations.
Local Open Scope nat_scope.

Section C17.
  Variable tbl : list (string * elem).
  Variable uni_numeric uni_alphabetic : char -> bool.
  Notation step := (cstep tbl uni_numeric uni_alphabetic).

  (* no call can make a panic cross the C ABI: the only panicking paths would be inside the two parsers, and
     those are total (C05, C16) *)
  Theorem C17_no_abort : forall hs c, snd (step hs c) <> RAbort.
  Proof. exact (no_abort tbl uni_numeric uni_alphabetic). Qed.

  (* a non-zero return code leaves the handle table exactly as it was, and an allocating call that fails leaves
     the out-pointer null *)
  Theorem C17_errors_change_nothing : forall hs c,
    (forall code isnull, snd (step hs c) = RAlloc code isnull -> code <> 0%Z -> fst (step hs c) = hs /\ isnull = true)
    /\ (forall code, snd (step hs c) = RCode code -> code <> 0%Z -> fst (step hs c) = hs)
    /\ (forall v, snd (step hs c) = RValue v -> fst (step hs c) = hs)
    /\ (snd (step hs c) = RMass -> fst (step hs c) = hs)
    /\ (snd (step hs c) = RContract -> fst (step hs c) = hs).
  Proof. exact (errors_change_nothing tbl uni_numeric uni_alphabetic). Qed.

  (* success has the effect of the corresponding Rust operation on the addressed composition and touches no other
     handle; error codes are discriminant + 1 *)
  Theorem C17_effects : forall hs h g t n a b,
    live hs h = Some a -> live hs g = Some b ->
    (forall k, espec_parse tbl t = EOk k -> step hs (CSet h t n) = (set_h hs h (Some (e_set k n a)), RCode 0))
    /\ (forall k, espec_parse tbl t = EOk k -> step hs (CInc h t n) = (set_h hs h (Some (e_inc k n a)), RCode 0))
    /\ (espec_parse tbl t = EErr UnclosedIsotope -> step hs (CSet h t n) = (hs, RCode 1))
    /\ (espec_parse tbl t = EErr UnknownElement -> step hs (CSet h t n) = (hs, RCode 2))
    /\ step hs (CAdd h g) = (set_h hs h (Some (e_add a b)), RCode 0)
    /\ step hs (CSub h g) = (set_h hs h (Some (e_sub a b)), RCode 0)
    /\ step hs (CScale h n) = (set_h hs h (Some (e_mul a n)), RCode 0)
    /\ step hs (CGet h t) = (hs, RValue (v_index_str tbl uni_alphabetic t a))
    /\ step hs (CCopy h) = (hs ++ [Some a], RAlloc 0 false)
    /\ (forall q, q <> h -> nth_error (set_h hs h (Some (e_add a b))) q = nth_error hs q).
  Proof. exact (effects tbl uni_numeric uni_alphabetic). Qed.

  (* parse_formula yields a handle exactly when the Rust parser accepts the text *)
  Theorem C17_parse_handle : forall hs t,
    (forall l, parse_formula uni_numeric (has_elem tbl) (has_iso tbl) t = FOk l -> step hs (CParse t) = (hs ++ [Some l], RAlloc 0 false))
    /\ (forall e, parse_formula uni_numeric (has_elem tbl) (has_iso tbl) t = FErr e -> step hs (CParse t) = (hs, RAlloc (ferr_code e) true)
                  /\ (1 <= ferr_code e <= 6)%Z).
  Proof. exact (parse_handle tbl uni_numeric uni_alphabetic). Qed.

  (* handle accounting: live handles = successful allocations - successful frees, so a sequence that follows the
     contract and frees what it allocated ends with no live handle, and a freed handle can never be used or freed again
     without the model flagging it (RContract) *)
  Theorem C17_accounting : forall cs,
    live_count (crun tbl uni_numeric uni_alphabetic cs) + frees tbl uni_numeric uni_alphabetic cs
    = allocs tbl uni_numeric uni_alphabetic cs.
  Proof. exact (accounting tbl uni_numeric uni_alphabetic). Qed.

  Theorem C17_no_use_after_free : forall hs h c,
    live hs h = None -> uses c h = true -> snd (step hs c) = RContract.
  Proof. exact (no_use_after_free tbl uni_numeric uni_alphabetic). Qed.
End C17.

Print Assumptions C17_no_abort. Print Assumptions C17_errors_change_nothing. Print Assumptions C17_effects.
Print Assumptions C17_parse_handle. Print Assumptions C17_accounting. Print Assumptions C17_no_use_after_free.
