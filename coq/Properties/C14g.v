(* C14, floating-point level -- the fused operation truncate_after_ignore_below_shift_normalize in rounded arithmetic:
   the one renormalising operation that does not end in `normalize` of a sub-list.  Its divisor total' is formed by n
   additions (the prefix reaching t1, [fused_prefix]) followed by m subtractions (one per peak below the threshold,
   [fused_dropped]); every kept intensity ([fused_kept]) is then divided by it, one rounding each.  With P, D, S the
   exact sums of the prefix, the dropped and the kept intensities (P = S + D), all intensities of the prefix positive and
   no overflow/underflow on the operations performed ([fused_good]: non-empty, positive, [fused_safe] -- a computable
   test), and E := ((1+u)^(n+m) - 1) (P + D):
     P (1-u)^(n+m) - D (1+u)^m <= v total' <= P (1+u)^(n+m) - D (1-u)^m,   hence   |v total' - S| <= E;
     if E < S, the exact sum of the returned intensities lies in [S (1-u) / (S + E), S (1+u) / (S - E)];
     if nothing is dropped, it lies in normalize's interval [(1-u)^2/(1+u)^n, (1+u)^2/(1-u)^n] ([sum_within]).
   Generic in the numeric interpretation (extended standard model of rounding; axiom-free); then the instance at Coq's
   primitive binary64 floats (standard-library axioms for reals and primitive floats, as C13f / C14f), where E < S
   holds whenever n + m <= 2^32 and at most half of the prefix is dropped, and a concrete pattern meeting every
   hypothesis. *)
From Coq Require Import List ZArith Bool Reals Floats.
From CE Require Import Num OField Peak PeakSpec Rounded RoundedExt NumFloat NumFloat64 Float64Std RoundedProofs FloatStd
  FloatStdExt RenormRounded FusedRounded FusedFloat.
Import ListNotations.

Section Generic.
  Context {F K : Type} (N : Num F) (NK : Num K) (v : F -> K) (u : K) (fin nrm : F -> bool).
  Notation good := (fused_good N NK v fin nrm).
  Notation sum_within := (sum_within NK v u).
  Notation xsum := (xsum NK v).

  (* what comes back: the kept peaks, m/z shifted, intensity divided by the final total (any [Num]) *)
  Theorem C14_fused_shape : forall (p : tip (F:=F)) t1 t2 sh,
    fused N p t1 t2 sh
    = mkTip (map (fun q => mkPeak (add N (mz q) sh) (div N (inten q) (fused_total N p t1 t2))) (fused_kept N p t1 t2))
            (origin p).
  Proof. exact (fused_shape N). Qed.

  Theorem C14_fused_total_interval : OField NK -> StdModelExt N NK v u fin nrm -> forall (p : tip (F:=F)) t1 t2,
    good p t1 t2 ->
    let n := length (fused_prefix N p t1) in
    let m := length (fused_dropped N p t1 t2) in
    let P := xsum (fused_prefix N p t1) in
    let D := xsum (fused_dropped N p t1 t2) in
    let T := v (fused_total N p t1 t2) in
    fle NK (sub NK (mul NK P (kpow NK (sub NK (one NK) u) (n + m))) (mul NK D (kpow NK (add NK (one NK) u) m))) T
    /\ fle NK T (sub NK (mul NK P (kpow NK (add NK (one NK) u) (n + m))) (mul NK D (kpow NK (sub NK (one NK) u) m))).
  Proof. exact (fused_total_interval N NK v u fin nrm). Qed.

  Theorem C14_fused_total_rounded : OField NK -> StdModelExt N NK v u fin nrm -> forall (p : tip (F:=F)) t1 t2,
    good p t1 t2 ->
    let n := length (fused_prefix N p t1) in
    let m := length (fused_dropped N p t1 t2) in
    let P := xsum (fused_prefix N p t1) in
    let D := xsum (fused_dropped N p t1 t2) in
    let S := xsum (fused_kept N p t1 t2) in
    let E := mul NK (sub NK (kpow NK (add NK (one NK) u) (n + m)) (one NK)) (add NK P D) in
    let T := v (fused_total N p t1 t2) in
    P = add NK S D /\ fle NK (sub NK S E) T /\ fle NK T (add NK S E) /\ fle NK (abs NK (sub NK T S)) E.
  Proof. exact (fused_total_rounded N NK v u fin nrm). Qed.

  Theorem C14_fused_sum_rounded : OField NK -> StdModelExt N NK v u fin nrm -> forall (p : tip (F:=F)) t1 t2 sh,
    good p t1 t2 ->
    let n := length (fused_prefix N p t1) in
    let m := length (fused_dropped N p t1 t2) in
    let P := xsum (fused_prefix N p t1) in
    let D := xsum (fused_dropped N p t1 t2) in
    let S := xsum (fused_kept N p t1 t2) in
    let E := mul NK (sub NK (kpow NK (add NK (one NK) u) (n + m)) (one NK)) (add NK P D) in
    flt NK E S ->
    let s := exact_total NK v (fused N p t1 t2 sh) in
    fle NK (div NK (mul NK S (sub NK (one NK) u)) (add NK S E)) s
    /\ fle NK s (div NK (mul NK S (add NK (one NK) u)) (sub NK S E)).
  Proof. exact (fused_sum_rounded N NK v u fin nrm). Qed.

  Theorem C14_fused_sum_sharp : OField NK -> StdModelExt N NK v u fin nrm -> forall (p : tip (F:=F)) t1 t2 sh,
    good p t1 t2 ->
    let n := length (fused_prefix N p t1) in
    let m := length (fused_dropped N p t1 t2) in
    let P := xsum (fused_prefix N p t1) in
    let D := xsum (fused_dropped N p t1 t2) in
    let S := xsum (fused_kept N p t1 t2) in
    let lo := sub NK (mul NK P (kpow NK (sub NK (one NK) u) (n + m))) (mul NK D (kpow NK (add NK (one NK) u) m)) in
    let hi := sub NK (mul NK P (kpow NK (add NK (one NK) u) (n + m))) (mul NK D (kpow NK (sub NK (one NK) u) m)) in
    flt NK (zero NK) lo ->
    let s := exact_total NK v (fused N p t1 t2 sh) in
    fle NK (div NK (mul NK S (sub NK (one NK) u)) hi) s /\ fle NK s (div NK (mul NK S (add NK (one NK) u)) lo).
  Proof. exact (fused_sum_sharp N NK v u fin nrm). Qed.

  Theorem C14_fused_nodrop : OField NK -> StdModelExt N NK v u fin nrm -> forall (p : tip (F:=F)) t1 t2 sh,
    good p t1 t2 -> fused_dropped N p t1 t2 = [] ->
    sum_within (fused N p t1 t2 sh) (length (fused_prefix N p t1)).
  Proof. exact (fused_nodrop N NK v u fin nrm). Qed.

  Theorem C14_fused_S_pos : OField NK -> forall (p : tip (F:=F)) t1 t2,
    good p t1 t2 -> fused_kept N p t1 t2 <> [] -> flt NK (zero NK) (xsum (fused_kept N p t1 t2)).
  Proof. exact (fused_S_pos N NK v fin nrm). Qed.
End Generic.

(* at binary64: the bounds read in R (rsum64 is the real sum of v64 over a list of peaks) *)
Theorem C14_fused_binary64 : forall (p : tip (F:=PrimFloat.float)) t1 t2 sh,
  peaks p <> [] ->
  (forall q, In q (fused_prefix NumF p t1) -> PrimFloat.ltb 0%float (inten q) = true) ->
  fused_safe NumF fin64 nrm64 p t1 t2 = true ->
  let n := length (fused_prefix NumF p t1) in
  let m := length (fused_dropped NumF p t1 t2) in
  let P := rsum64 (fused_prefix NumF p t1) in
  let D := rsum64 (fused_dropped NumF p t1 t2) in
  let S := rsum64 (fused_kept NumF p t1 t2) in
  let E := (((1 + u64) ^ (n + m) - 1) * (P + D))%R in
  let T := v64 (fused_total NumF p t1 t2) in
  let s := rsum64 (peaks (fused NumF p t1 t2 sh)) in
  (P = S + D
   /\ P * (1 - u64) ^ (n + m) - D * (1 + u64) ^ m <= T <= P * (1 + u64) ^ (n + m) - D * (1 - u64) ^ m
   /\ Rabs (T - S) <= E
   /\ (E < S -> S * (1 - u64) / (S + E) <= s <= S * (1 + u64) / (S - E)))%R.
Proof. exact fused_binary64. Qed.

(* E < S at binary64: at most 2^32 operations, at most half of the prefix dropped *)
Theorem C14_fused_err_small_binary64 : forall (k : nat) (P D : R),
  k <= 2 ^ 32 -> (0 < P -> 0 <= D -> 2 * D <= P -> ((1 + u64) ^ k - 1) * (P + D) < P - D)%R.
Proof. exact fused_err_small64. Qed.

(* the hypotheses are met by an ordinary pattern: six positive peaks summing to 1, t1 = 0.95, shift irrelevant;
   with t2 = 0.05 one peak of the five-peak prefix is dropped, with decimal intensities and t2 = 0.01 none is *)
Example C14_fused_float_nonvacuous :
  fused_safe NumF fin64 nrm64 fused_demo 0.95%float 0.05%float = true
  /\ forallb (fun q => PrimFloat.ltb 0%float (inten q)) (fused_prefix NumF fused_demo 0.95%float) = true
  /\ length (fused_prefix NumF fused_demo 0.95%float) = 5
  /\ map inten (fused_dropped NumF fused_demo 0.95%float 0.05%float) = [0.03125%float]
  /\ map inten (fused_kept NumF fused_demo 0.95%float 0.05%float) = [0.5%float; 0.25%float; 0.125%float; 0.0625%float]
  /\ fused_safe NumF fin64 nrm64 fused_demo10 0.95%float 0.01%float = true
  /\ forallb (fun q => PrimFloat.ltb 0%float (inten q)) (fused_prefix NumF fused_demo10 0.95%float) = true
  /\ length (fused_prefix NumF fused_demo10 0.95%float) = 4
  /\ fused_dropped NumF fused_demo10 0.95%float 0.01%float = [].
Proof. exact fused_demo_checks. Qed.

(* ... the real-number hypothesis E < S included *)
Example C14_fused_float_nonvacuous_err :
  let p := fused_demo in let t1 := 0.95%float in let t2 := 0.05%float in
  peaks p <> []
  /\ (forall q, In q (fused_prefix NumF p t1) -> PrimFloat.ltb 0%float (inten q) = true)
  /\ fused_safe NumF fin64 nrm64 p t1 t2 = true
  /\ let n := length (fused_prefix NumF p t1) in
     let m := length (fused_dropped NumF p t1 t2) in
     let P := rsum64 (fused_prefix NumF p t1) in
     let D := rsum64 (fused_dropped NumF p t1 t2) in
     let S := rsum64 (fused_kept NumF p t1 t2) in
     ((((1 + u64) ^ (n + m) - 1) * (P + D))%R < S)%R.
Proof. exact fused_demo_good. Qed.

Print Assumptions C14_fused_shape. Print Assumptions C14_fused_total_interval. Print Assumptions C14_fused_total_rounded.
Print Assumptions C14_fused_sum_rounded. Print Assumptions C14_fused_sum_sharp. Print Assumptions C14_fused_nodrop.
Print Assumptions C14_fused_S_pos.
Print Assumptions C14_fused_binary64. Print Assumptions C14_fused_err_small_binary64.
Print Assumptions C14_fused_float_nonvacuous. Print Assumptions C14_fused_float_nonvacuous_err.
