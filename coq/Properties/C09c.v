(* C09 (continued) -- the centre-mass ladder, in exact arithmetic: the centre mass of variant k lies in
   [M0 + k*lo, M0 + k*hi], where M0 = sum_e n_e * (mass of the lightest isotope of e) is the monoisotopic mass and
   [lo, hi] bounds the mass increment per extra neutron of every isotope of every element of the composition.
   Hence centre masses increase strictly from variant j to variant k whenever j*hi < k*lo.
   ('X * p^`() has coefficient k equal to k * p_k and is a derivation; the per-element hypothesis
    lo * ('X * P^`()) <= M - m0 * P <= hi * ('X * P^`()) says that the isotope d neutrons above the lightest one is
    between lo*d and hi*d heavier than it.) *)
(* ---- the constants: every element of the regenerated table that BRAIN reads faithfully gains between 0.997035 u and
   1.006277 u per extra neutron (the extremes are 15N - 14N and 2H - 1H; neither constant can be tightened by one
   micro-unit).  This part is stated before MathComp is loaded, so that the literals are plain binary integers. ---- *)
From Coq Require Import ZArith List String Bool.
Local Open Scope bool_scope.
From CE Require Import TableTypes TableModel Brain BrainSpec BrainLadderSpec Table.
Definition LO : Z := 997035%Z.
Definition HI : Z := 1006277%Z.
Theorem C09_table_ladder :
  forallb (fun p => negb (faithful (snd p)) || elem_incr_ok (snd p) LO HI) (build_table table_src) = true.
Proof. vm_compute. reflexivity. Qed.
Print Assumptions C09_table_ladder.

(* more generally, every element that satisfies the three side conditions of C09_element_ladder passes the test with the
   same constants, faithfully read or not (e.g. S and Cl, of which BRAIN's walk only finds some isotopes) *)
Theorem C09_table_ladder_read :
  forallb (fun p => negb (brain_elem_ok (snd p) && elem_tail_pos (snd p) && elem_mass_sane (snd p))
                    || elem_incr_ok (snd p) LO HI) (build_table table_src) = true.
Proof. vm_compute. reflexivity. Qed.
Print Assumptions C09_table_ladder_read.

Example C09_table_ladder_tight :
  forallb (fun p => negb (faithful (snd p)) || elem_incr_ok (snd p) (LO + 1)%Z HI) (build_table table_src) = false
  /\ forallb (fun p => negb (faithful (snd p)) || elem_incr_ok (snd p) LO (HI - 1)%Z) (build_table table_src) = false.
Proof. split; vm_compute; reflexivity. Qed.

(* glucose C6 H12 O6 over the regenerated table (used in the non-vacuity example at the end) *)
Definition table_elem (s : string) : elem :=
  match tbl_get s (build_table table_src) with Some e => e | None => elem0 end.
Definition glucose : bcomp := ((table_elem "C", 6%Z) :: (table_elem "H", 12%Z) :: (table_elem "O", 6%Z) :: nil)%list.

(* ---- the theorems ---- *)
From mathcomp Require Import all_ssreflect all_algebra.
From mathcomp Require Import zify ssrZ.
From CE Require Import Num TableTypes TableModel Mz Brain BrainSpec BrainLadderSpec NumMC BrainAlgSpec BrainAlgebra BrainBounds BrainLadder.
Set Implicit Arguments. Unset Strict Implicit. Unset Printing Implicit Defensive.
Import GRing.Theory Num.Theory.
Local Open Scope ring_scope.

Section C09c.
  Variable R : realFieldType.
  Notation NR := (NumR R).

  (* coefficient-wise order on polynomials *)
  Definition coef_le (p q : {poly R}) : Prop := forall k, p`_k <= q`_k.

  (* coefficient k of 'X * p^`() is k * p_k *)
  Theorem C09_coef_XD : forall (p : {poly R}) k, ('X * p^`())`_k = k%:R * p`_k.
  Proof. exact: (@coef_XD R). Qed.

  Theorem C09_center_ladder : forall (c : bcomp) (lo hi : R),
    (forall en, List.In en c ->
        coef_le 0 (npoly R en.1 false)
        /\ coef_le (lo *: ('X * (npoly R en.1 false)^`()))
                   (micro NR (mam en.1) *: npoly R en.1 true - micro NR (mam en.1) *: npoly R en.1 false)
        /\ coef_le (micro NR (mam en.1) *: npoly R en.1 true - micro NR (mam en.1) *: npoly R en.1 false)
                   (hi *: ('X * (npoly R en.1 false)^`()))) ->
    (forall en, List.In en c -> (0 < cnt en)%N) ->
    coef_le ((\sum_(en <- c) (cnt en)%:R * micro NR (mam en.1)) *: Geff R c + lo *: ('X * (Geff R c)^`())) (Heff R c)
    /\ coef_le (Heff R c) ((\sum_(en <- c) (cnt en)%:R * micro NR (mam en.1)) *: Geff R c + hi *: ('X * (Geff R c)^`())).
  Proof. exact: (@center_ladder R). Qed.

  (* hence the centre mass of every variant k with a non-zero probability lies in [M0 + k*lo, M0 + k*hi] *)
  Corollary C09_center_ladder_between : forall (c : bcomp) (lo hi : R) k,
    (forall en, List.In en c ->
        coef_le 0 (npoly R en.1 false)
        /\ coef_le (lo *: ('X * (npoly R en.1 false)^`()))
                   (micro NR (mam en.1) *: npoly R en.1 true - micro NR (mam en.1) *: npoly R en.1 false)
        /\ coef_le (micro NR (mam en.1) *: npoly R en.1 true - micro NR (mam en.1) *: npoly R en.1 false)
                   (hi *: ('X * (npoly R en.1 false)^`()))) ->
    (forall en, List.In en c -> (0 < cnt en)%N) ->
    0 < (Geff R c)`_k ->
    (\sum_(en <- c) (cnt en)%:R * micro NR (mam en.1)) + k%:R * lo
      <= (Heff R c)`_k / (Geff R c)`_k
      <= (\sum_(en <- c) (cnt en)%:R * micro NR (mam en.1)) + k%:R * hi.
  Proof. exact: (@center_ladder_between R). Qed.

  (* and centre masses are strictly ordered between any two variants j, k with j*hi < k*lo *)
  Corollary C09_center_strict : forall (c : bcomp) (lo hi : R) j k,
    (forall en, List.In en c ->
        coef_le 0 (npoly R en.1 false)
        /\ coef_le (lo *: ('X * (npoly R en.1 false)^`()))
                   (micro NR (mam en.1) *: npoly R en.1 true - micro NR (mam en.1) *: npoly R en.1 false)
        /\ coef_le (micro NR (mam en.1) *: npoly R en.1 true - micro NR (mam en.1) *: npoly R en.1 false)
                   (hi *: ('X * (npoly R en.1 false)^`()))) ->
    (forall en, List.In en c -> (0 < cnt en)%N) ->
    j%:R * hi < k%:R * lo ->
    0 < (Geff R c)`_j -> 0 < (Geff R c)`_k ->
    (Heff R c)`_j / (Geff R c)`_j < (Heff R c)`_k / (Geff R c)`_k.
  Proof. exact: (@center_strict R). Qed.

  (* the per-element hypothesis holds, with lo / hi read in micro-units, for an element that BRAIN can read (the side
     conditions of C09_element_sandwich, which every faithfully read element of the table meets: C09_table_sane) and
     whose isotopes pass the integer test elem_incr_ok *)
  Theorem C09_element_ladder : forall e (lo hi : BinNums.Z),
    brain_elem_ok e = true -> elem_tail_pos e = true -> elem_mass_sane e = true -> elem_incr_ok e lo hi = true ->
    coef_le 0 (npoly R e false)
    /\ coef_le (micro NR lo *: ('X * (npoly R e false)^`()))
               (micro NR (mam e) *: npoly R e true - micro NR (mam e) *: npoly R e false)
    /\ coef_le (micro NR (mam e) *: npoly R e true - micro NR (mam e) *: npoly R e false)
               (micro NR hi *: ('X * (npoly R e false)^`())).
  Proof. exact: (@element_ladder R). Qed.

  (* the premise j*hi < k*lo of C09_center_strict, decided in integer micro-units *)
  Theorem C09_ladder_gap : forall (lo hi : BinNums.Z) (j k : nat),
    BinInt.Z.lt (BinInt.Z.mul (BinInt.Z.of_nat j) hi) (BinInt.Z.mul (BinInt.Z.of_nat k) lo) ->
    j%:R * micro NR hi < k%:R * micro NR lo.
  Proof. exact: (@ladder_gap R). Qed.
End C09c.

Print Assumptions C09_coef_XD. Print Assumptions C09_center_ladder. Print Assumptions C09_center_ladder_between.
Print Assumptions C09_center_strict. Print Assumptions C09_element_ladder. Print Assumptions C09_ladder_gap.

(* non-vacuity, 1: with these constants the strict-order premise holds for consecutive variants k-1, k up to k = 108 *)
Example C09_table_gap : forall k : nat, (0 < k <= 108)%N ->
  BinInt.Z.lt (BinInt.Z.mul (BinInt.Z.of_nat k.-1) HI) (BinInt.Z.mul (BinInt.Z.of_nat k) LO).
Proof. move=> k; rewrite /LO /HI; lia. Qed.

(* non-vacuity, 2: glucose C6 H12 O6 over the regenerated table, in any real field: all hypotheses of
   C09_center_strict but the two positivity ones are discharged, so consecutive centre masses increase strictly *)
Example C09_glucose_strict : forall (R : realFieldType) (k : nat), (0 < k <= 108)%N ->
  0 < (Geff R glucose)`_k.-1 -> 0 < (Geff R glucose)`_k ->
  (Heff R glucose)`_k.-1 / (Geff R glucose)`_k.-1 < (Heff R glucose)`_k / (Geff R glucose)`_k.
Proof.
move=> R k Hk; apply: (@C09_center_strict R glucose (micro (NumR R) LO) (micro (NumR R) HI)).
- by move=> en [<-|[<-|[<-|[]]]]; apply: C09_element_ladder; vm_compute.
- by move=> en [<-|[<-|[<-|[]]]]; vm_compute.
- exact/C09_ladder_gap/C09_table_gap.
Qed.
Print Assumptions C09_table_gap. Print Assumptions C09_glucose_strict.
