(* C05s -- C05 at source level: the formula parser AS TRANSLATED FROM THE CURRENT src/formula.rs (coq/gen/FormulaGen.v)
   never panics and returns a composition only for well-formed text.  Transported along proofs/FormulaTie.v.
   [O] packs the oracles (Unicode classes off ASCII, the two table predicates); [fuel] bounds the recursion into
   parenthesised groups, one level per nesting -- the bound [length s < fuel] is the tie's only side condition. *)
From Coq Require Import List ZArith NArith Bool Arith String.
From CE Require Import Str TableTypes TableModel Comp ESpec Formula FormulaSpec ImpS ImpT FormulaGen SourceFormula Table.
Import ListNotations.

(* the recursion `parse_with_table`: for every string and every oracle, no slice out of range or off a character
   boundary, no failed lookup, and the fuel is not exhausted *)
Theorem C05s_no_panic : forall (O : oracles) fuel s, List.length s < fuel ->
  parse_with_table_gen O fuel s <> FPanic.
Proof. exact src_parse_with_table_no_panic. Qed.

(* the entry points FormulaParser::parse, parse_formula, parse_formula_with_table (they add one level themselves) *)
Theorem C05s_no_panic_entries : forall (O : oracles) fuel s, List.length s <= fuel ->
  FormulaGen.parse_gen O fuel s <> FPanic
  /\ FormulaGen.parse_formula_gen O fuel s <> FPanic
  /\ parse_formula_with_table_gen O (S fuel) s <> FPanic.
Proof. exact src_parse_entries_no_panic. Qed.

(* a composition is returned only for the rendering of a well-formed AST (lenient reading, as C05_sound), and it is
   what that AST denotes; for ANY fuel *)
Theorem C05s_sound : forall (O : oracles),
  (forall sy, ImpS.has_elem O sy = true -> forallb (fun x => negb (x =? RP)%N) sy = true) ->
  forall fuel s c, parse_with_table_gen O fuel s = FOk c ->
  exists f, wf (ImpS.uni_numeric O) (ImpS.has_elem O) (ImpS.has_iso O) true f = true /\ render f = s
            /\ (forall k, e_get k c = denote f k).
Proof. exact src_parse_with_table_sound. Qed.

Theorem C05s_sound_entries : forall (O : oracles),
  (forall sy, ImpS.has_elem O sy = true -> forallb (fun x => negb (x =? RP)%N) sy = true) ->
  forall fuel s c,
  FormulaGen.parse_gen O fuel s = FOk c \/ FormulaGen.parse_formula_gen O fuel s = FOk c
  \/ parse_formula_with_table_gen O fuel s = FOk c ->
  exists f, wf (ImpS.uni_numeric O) (ImpS.has_elem O) (ImpS.has_iso O) true f = true /\ render f = s
            /\ (forall k, e_get k c = denote f k).
Proof. exact src_parse_entries_sound. Qed.

(* the fuel bound cannot be dropped: one level short, a group exhausts it *)
Theorem C05s_fuel_needed :
  let O := mkOracles (fun _ => false) (fun _ => false) (fun _ => false) (fun _ => false)
                     (fun s => str_eqb s (codes "H")) (fun _ _ => false) in
  parse_with_table_gen O 1 (codes "(H)") = FPanic /\ parse_with_table_gen O 2 (codes "(H)") = FOk [((codes "H", 0%N), 1%Z)].
Proof. exact src_parse_fuel_needed. Qed.

(* the generated parser over the regenerated table *)
Example C05s_nonvacuous :
  let O := with_table (mkOracles (fun _ => false) (fun _ => false) (fun _ => false) (fun _ => false) (fun _ => false) (fun _ _ => false))
                      (build_table table_src) in
  FormulaGen.parse_formula_gen O 11 (codes "C[13]2(OH)2") = FOk [((codes "C", 13%N), 2%Z); ((codes "O", 0%N), 2%Z); ((codes "H", 0%N), 2%Z)]
  /\ FormulaGen.parse_formula_gen O 6 (codes "C[99]2") = FErr IsotopeCountMalformed
  /\ FormulaGen.parse_formula_gen O 3 (codes "Xx(") = FErr InvalidElement.
Proof. repeat split; vm_compute; reflexivity. Qed.

Print Assumptions C05s_no_panic. Print Assumptions C05s_no_panic_entries. Print Assumptions C05s_sound.
Print Assumptions C05s_sound_entries. Print Assumptions C05s_fuel_needed. Print Assumptions C05s_nonvacuous.
