(* C17s -- C17 at source level: the `extern "C"` functions AS TRANSLATED FROM THE CURRENT bindings/c/src/lib.rs
   (coq/gen/CBindGen.v) never let a panic cross the ABI, change nothing when they report an error, and never return
   normally from a call on a handle that is not live.  Transported along proofs/CBindTie.v (each generated function is
   the handle-table model's [cstep] for its call); the ties have no side condition.

   [src_cstep tbl un ua lossy mass_of hs c] dispatches the call [c : xcall] -- with the arguments the C caller passes:
   raw C strings, handles, a possibly null pointer for free -- to the generated function of that name, on the heap [hs].
   Outcomes ([ImpX.xres]): XOk (heap after, what the caller sees), XUB (undefined behaviour: the model's RContract),
   XAbort (a panic reaching the ABI).  [lossy] is the decoding of C strings (any), [mass_of] the mass function (any). *)
From Coq Require Import List ZArith NArith Bool Arith String.
From CE Require Import Num Str TableTypes TableModel Comp ESpec Formula CBind ImpE ImpX CBindGen SourceCBind Table.
Import ListNotations.
Local Open Scope nat_scope.

Section C17s.
  Variable tbl : ptable.
  Variable uni_numeric uni_alphabetic : char -> bool.
  Variable lossy : list N -> str.
  Context {M : Type} (mass_of : ents -> M).
  Notation step := (src_cstep tbl uni_numeric uni_alphabetic lossy mass_of).

  (* no call can make a panic cross the C ABI *)
  Theorem C17s_no_abort : forall hs c, step hs c <> XAbort.
  Proof. exact (src_cstep_no_abort tbl uni_numeric uni_alphabetic lossy mass_of). Qed.

  (* a non-zero return code leaves the heap exactly as it was, and an allocating call that fails has written null to
     the out-pointer; get and mass never change the heap *)
  Theorem C17s_errors_change_nothing : forall hs c hs',
    (forall out code, step hs c = XOk (hs', OAlloc out code) -> code <> 0%Z -> hs' = hs /\ out = Written None)
    /\ (forall code, step hs c = XOk (hs', OCode code) -> code <> 0%Z -> hs' = hs)
    /\ (forall v, step hs c = XOk (hs', OValue v) -> hs' = hs)
    /\ (forall m, step hs c = XOk (hs', OMass m) -> hs' = hs).
  Proof. exact (src_cstep_errors_change_nothing tbl uni_numeric uni_alphabetic lossy mass_of). Qed.

  (* a call that dereferences a handle that is not live (never allocated, or freed) has no defined outcome: the
     generated function is at its undefined-behaviour exit, it does not return a value or a code *)
  Theorem C17s_no_use_after_free : forall hs h c,
    live hs h = None -> xuses c h = true -> step hs c = XUB.
  Proof. exact (src_cstep_no_use_after_free tbl uni_numeric uni_alphabetic lossy mass_of). Qed.
End C17s.

(* the assembled step function on the regenerated table: allocate, set, a failing set, free, use after free *)
Example C17s_nonvacuous :
  let T := build_table table_src in
  let step := src_cstep T (fun _ => false) (fun _ => false) (fun b => b) (fun l => List.length l) in
  step [] XNew = XOk ([Some []], OAlloc (Written (Some 0)) 0%Z)
  /\ step [Some []] (XSet 0 (codes "C[13]") 2%Z) = XOk ([Some [((codes "C", 13%N), 2%Z)]], OCode 0%Z)
  /\ step [Some []] (XSet 0 (codes "C[13") 2%Z) = XOk ([Some []], OCode 1%Z)
  /\ step [Some []] (XParse (codes "H2(")) = XOk ([Some []], OAlloc (Written None) 5%Z)
  /\ step [Some []] (XFree (Some 0)) = XOk ([None], OCode 0%Z)
  /\ step [None] (XMass 0) = XUB
  /\ step [None] (XFree None) = XUB.
Proof. repeat split; vm_compute; reflexivity. Qed.

Print Assumptions C17s_no_abort. Print Assumptions C17s_errors_change_nothing. Print Assumptions C17s_no_use_after_free.
Print Assumptions C17s_nonvacuous.
