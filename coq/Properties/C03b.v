(* C03 (continued) -- the public coarse-pattern function, end to end over a real field: the returned peaks are the
   charge-converted mean masses H_k/G_k with intensities G_k / sum_(j <= order) G_j, filtered by the 1e-10 rule and
   sorted by m/z. *)
From Coq Require Import String.
From mathcomp Require Import all_ssreflect all_algebra.
From mathcomp Require Import ssrZ.
From CE Require Import Num TableTypes TableModel Mz Brain BrainSpec NumMC BrainAlgSpec BrainAlgebra BrainPattern.
Set Implicit Arguments. Unset Strict Implicit. Unset Printing Implicit Defensive.
Import GRing.Theory Num.Theory.
Local Open Scope ring_scope.

Section C03b.
  Variable R : realFieldType.
  Notation NR := (NumR R).

  Theorem C03_pattern_exact : forall (c : bcomp) (order_req : BinNums.Z) (base : R) (charge : BinNums.Z) (carrier : R),
    bcomp_ok c = true -> bcomp_pos c = true -> base != 0 ->
    BinInt.Z.leb BinNums.Z0 (resolve_order order_req (max_variants c)) = true ->
    let o := BinInt.Z.to_nat (resolve_order order_req (max_variants c)) in
    let G := Geff R c in let H := Heff R c in
    let tot := \sum_(j < o.+1) G`_j in
    brain NR c order_req base charge carrier
    = Some (sort_mz NR (keep_real NR
              [seq (charged NR (if G`_k == 0 then 0 else H`_k / G`_k) charge carrier, G`_k / tot) | k <- iota 0 o.+1]
              false)).
  Proof. exact: (@pattern_exact R). Qed.
End C03b.

Print Assumptions C03_pattern_exact.
