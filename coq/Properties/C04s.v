(* C04, source level -- the pointwise laws of C04.v transported along proofs/PropsTie.v (and CompTie.v): statements about
   the operator impls of coq/gen/PropsGen.v (the `impl_arithmetic!` expansions of src/props.rs, regenerated on every run)
   at the list form (v_), the map form (m_) and the enum (a_).  A container of the source is read through its keys:
   [keys_of (composition c)] are its entries as (symbol text, isotope) |-> count, [lents o] the entries of a generic
   right operand.  Side conditions of the ties, visible below: [coherent] / [acoh] (the list form compares
   ElementSpecifications with `==`), identity iteration-order oracles for the looping operators of the map form.
   The operands are arguments of pure functions here: that they are left untouched (C04_operands_untouched) is
   how the translation reads `&a + &b`; the in-place forms return only the new `self`. *)
From Coq Require Import List ZArith Bool String.
From CE Require Import Num Str Comp CompOps CompSpec ImpE ImpC ImpP CompGen CompTie PropsGen PropsTie SourceComp.
Import ListNotations.

Section C04s.
  Context {F : Type} (N : Num F).
  Variable tbl : ptable.
  Variable ua : char -> bool.

  Theorem C04s_list : forall shS (c : ccomp F) (o : clike F) n,
    coherent (keysL c ++ lkeys o) ->
    nodup_keys (keys_of (composition c)) = true -> nodup_keys (keys_of (lents o)) = true ->
    (exists r, v_add_ref_gen N tbl ua shS c o = POk r
       /\ forall k, e_get k (keys_of (composition r)) = (e_get k (keys_of (composition c)) + e_get k (keys_of (lents o)))%Z)
    /\ (exists r, v_sub_ref_gen N tbl ua shS c o = POk r
       /\ forall k, e_get k (keys_of (composition r)) = (e_get k (keys_of (composition c)) - e_get k (keys_of (lents o)))%Z)
    /\ (exists r, v_mul_ref_gen N tbl ua shS c n = POk r
       /\ forall k, e_get k (keys_of (composition r)) = (e_get k (keys_of (composition c)) * n)%Z)
    /\ (exists r, v_neg_gen N tbl ua shS c = POk r
       /\ forall k, e_get k (keys_of (composition r)) = (- e_get k (keys_of (composition c)))%Z).
  Proof. exact (v_ops_pointwise_src N tbl ua). Qed.

  Theorem C04s_map : forall (c : ccomp F) (o : clike F) n,
    nodup_keys (keys_of (composition c)) = true -> nodup_keys (keys_of (lents o)) = true ->
    (exists r, m_add_ref_gen N tbl ua (fun m => m) c o = POk r
       /\ forall k, e_get k (keys_of (composition r)) = (e_get k (keys_of (composition c)) + e_get k (keys_of (lents o)))%Z)
    /\ (exists r, m_sub_ref_gen N tbl ua (fun m => m) c o = POk r
       /\ forall k, e_get k (keys_of (composition r)) = (e_get k (keys_of (composition c)) - e_get k (keys_of (lents o)))%Z)
    /\ (exists r, m_mul_ref_gen N tbl ua (fun m => m) c n = POk r
       /\ forall k, e_get k (keys_of (composition r)) = (e_get k (keys_of (composition c)) * n)%Z)
    /\ (exists r, m_neg_gen N tbl ua (fun m => m) c = POk r
       /\ forall k, e_get k (keys_of (composition r)) = (- e_get k (keys_of (composition c)))%Z).
  Proof. exact (m_ops_pointwise_src N tbl ua). Qed.

  (* the enum: the same laws, and the representation is kept *)
  Theorem C04s_enum : forall (a : acomp F) (o : clike F) n,
    acoh a (lkeys o) -> nodup_keys (c_ents (acomp_of a)) = true -> nodup_keys (keys_of (lents o)) = true ->
    (exists r, a_add_ref_gen N tbl ua (fun m => m) a o = POk r /\ afam r = afam a
       /\ forall k, e_get k (c_ents (acomp_of r)) = (e_get k (c_ents (acomp_of a)) + e_get k (keys_of (lents o)))%Z)
    /\ (exists r, a_sub_ref_gen N tbl ua (fun m => m) a o = POk r /\ afam r = afam a
       /\ forall k, e_get k (c_ents (acomp_of r)) = (e_get k (c_ents (acomp_of a)) - e_get k (keys_of (lents o)))%Z)
    /\ (exists r, a_mul_ref_gen N tbl ua (fun m => m) a n = POk r /\ afam r = afam a
       /\ forall k, e_get k (c_ents (acomp_of r)) = (e_get k (c_ents (acomp_of a)) * n)%Z)
    /\ (exists r, a_neg_gen N tbl ua (fun m => m) a = POk r /\ afam r = afam a
       /\ forall k, e_get k (c_ents (acomp_of r)) = (- e_get k (c_ents (acomp_of a)))%Z).
  Proof. exact (a_ops_pointwise_src N tbl ua). Qed.

  (* `&a + &b`, `a + &b`, `a += &b` (on T and on &mut T) end with the same entries and cache; none panics *)
  Theorem C04s_forms_agree : forall shS (c : ccomp F) (o : clike F), coherent (keysL c ++ lkeys o) ->
    exists r, v_add_ref_gen N tbl ua shS c o = POk r
      /\ (exists r', v_add_val_gen N tbl ua shS c o = POk r' /\ comp_of r' = comp_of r)
      /\ comp_of (fst (v_add_assign_gen N tbl ua shS c o)) = comp_of r /\ snd (v_add_assign_gen N tbl ua shS c o) <> PPanic
      /\ comp_of (fst (v_add_assign_mut_gen N tbl ua shS c o)) = comp_of r /\ snd (v_add_assign_mut_gen N tbl ua shS c o) <> PPanic.
  Proof. exact (v_add_forms_src N tbl ua). Qed.
End C04s.

Print Assumptions C04s_list. Print Assumptions C04s_map. Print Assumptions C04s_enum. Print Assumptions C04s_forms_agree.
