(* C15 (ladder frame) -- the neutron ladder is a property of the mass and charge alone: requesting fewer peaks yields a
   prefix of the m/z values, and lambda_factor influences intensities only.  Generic in the numeric interpretation. *)
From Coq Require Import ZArith List Bool.
From CE Require Import Num OField Mz Peak Poisson PoissonSpec PoissonProofs PoissonFrame NumQc OFieldQc.
Import ListNotations.

Section C15a.
  Context {F : Type} (N : Num F).
  Theorem C15a_mz_prefix : forall mass n m z lf, n <= m ->
    map mz (poisson_approximation_impl N mass n z lf) = firstn n (map mz (poisson_approximation_impl N mass m z lf)).
  Proof. exact (pois_mz_prefix N). Qed.
  Theorem C15a_mz_lambda_free : forall mass n z lf lf',
    map mz (poisson_approximation_impl N mass n z lf) = map mz (poisson_approximation_impl N mass n z lf').
  Proof. exact (pois_mz_lambda_free N). Qed.
End C15a.
Example C15a_nonvacuous :
  List.length (map mz (poisson_approximation NumQc (Qc_of_Z 750) 3 2)) = 3
  /\ map mz (poisson_approximation NumQc (Qc_of_Z 750) 2 2) = firstn 2 (map mz (poisson_approximation NumQc (Qc_of_Z 750) 3 2)).
Proof. vm_compute. split; reflexivity. Qed.
Print Assumptions C15a_mz_prefix. Print Assumptions C15a_mz_lambda_free. Print Assumptions C15a_nonvacuous.
