(* C08 -- pattern generation is pure: caches never change results. *)
From Coq Require Import List ZArith NArith Bool Arith String.
From CE Require Import Num Str TableTypes TableModel Comp Mz Peak Poisson Brain BrainSpec BrainCache Table.
Import ListNotations.

Section C08.
  Context {F : Type} (N : Num F).

  (* after ANY history of calls on one generator, the next call returns exactly what the stateless function
     returns -- as values of F, for every numeric interpretation; for IEEE doubles that is bit for bit.
     (None = the Rust code panics; it does so in both or in neither.) *)
  Theorem C08_generator_pure : forall (reqs : list (request (F:=F))) r,
    reqs_ok (r :: reqs) ->
    fst (gen_call N (gen_run N reqs) r) = stateless N r.
  Proof. exact (generator_pure N). Qed.

  (* hence the result does not depend on what was requested before, nor on how often *)
  Corollary C08_history_independent : forall (reqs reqs' : list (request (F:=F))) r,
    reqs_ok (r :: reqs) -> reqs_ok (r :: reqs') ->
    fst (gen_call N (gen_run N reqs) r) = fst (gen_call N (gen_run N reqs') r).
  Proof. exact (history_independent N). Qed.
End C08.

(* every element of the regenerated table is readable by BRAIN in the sense the theorem needs *)
Theorem C08_table_ok : forallb (fun p => brain_elem_ok (snd p)) (build_table table_src) = true.
Proof. vm_compute. reflexivity. Qed.

Print Assumptions C08_generator_pure. Print Assumptions C08_history_independent. Print Assumptions C08_table_ok.
