(* C08 -- pattern generation is pure: caches never change results. *)
From Coq Require Import List ZArith NArith Bool Arith String.
From CE Require Import Num Str TableTypes TableModel Comp Mz Peak Poisson Brain BrainSpec BrainCache Table.
Import ListNotations.

Section C08.
  Context {F : Type} (N : Num F).

  (* after ANY history of calls on one generator, the next call returns exactly what the stateless function
     returns -- as values of F, for every numeric interpretation; for IEEE doubles that is bit for bit.
     (None = the Rust code panics; it does so in both or in neither.) *)
  Theorem C08_generator_pure : forall (reqs : list (request (F:=F))) r,
    reqs_ok (r :: reqs) ->
    fst (gen_call N (gen_run N reqs) r) = stateless N r.
  Proof. exact (generator_pure N). Qed.

  (* hence the result does not depend on what was requested before, nor on how often *)
  Corollary C08_history_independent : forall (reqs reqs' : list (request (F:=F))) r,
    reqs_ok (r :: reqs) -> reqs_ok (r :: reqs') ->
    fst (gen_call N (gen_run N reqs) r) = fst (gen_call N (gen_run N reqs') r).
  Proof. exact (history_independent N). Qed.
End C08.

(* every element of the regenerated table is readable by BRAIN in the sense the theorem needs *)
Theorem C08_table_ok : forallb (fun p => brain_elem_ok (snd p)) (build_table table_src) = true.
Proof. vm_compute. reflexivity. Qed.

Print Assumptions C08_generator_pure. Print Assumptions C08_history_independent. Print Assumptions C08_table_ok.

(* non-vacuity: two concrete requests sharing hydrogen, on the regenerated table, in exact arithmetic: the hypotheses
   of C08_generator_pure hold and the call returns a four-peak pattern (the second request needed fewer terms of hydrogen's table
   than the third: the cached constants are extended; exact rationals grow quickly with the order, hence the small one) *)
From Coq Require Import QArith Qcanon.
From CE Require Import NumQc.
Definition c08_el (s : string) : elem := match tbl_get s (build_table table_src) with Some e => e | None => elem0 end.
(* the three elements, read from the regenerated table once *)
Definition c08_C : elem := Eval vm_compute in c08_el "C".
Definition c08_H : elem := Eval vm_compute in c08_el "H".
Definition c08_O : elem := Eval vm_compute in c08_el "O".
Definition c08_r1 : request (F:=Qc) := mkReq [(c08_C, 6%Z); (c08_H, 12%Z)] 3%Z (Q2Qc 1) 1%Z (PROTON NumQc).
Definition c08_r2 : request (F:=Qc) := mkReq [(c08_H, 2%Z); (c08_O, 1%Z)] 2%Z (Q2Qc 1) 0%Z (PROTON NumQc).
Example C08_nonvacuous :
  reqs_ok (c08_r1 :: [c08_r2; c08_r1])
  /\ (match fst (gen_call NumQc (gen_run NumQc [c08_r2; c08_r1]) c08_r1) with Some l => List.length l | None => 0%nat end) = 4%nat.
Proof.
  split; [|vm_compute; reflexivity].
  split.
  - intros r en Hr Hen.
    assert (Hc : In en (rq_comp c08_r1) \/ In en (rq_comp c08_r2)).
    { destruct Hr as [<-|[<-|[<-|[]]]]; auto. }
    destruct Hc as [H|H]; cbn in H; destruct H as [<-|[<-|[]]]; vm_compute; reflexivity.
  - intros r r' en en' Hr Hr' Hen Hen' Hs.
    assert (Hc : In en (rq_comp c08_r1) \/ In en (rq_comp c08_r2)) by (destruct Hr as [<-|[<-|[<-|[]]]]; auto).
    assert (Hc' : In en' (rq_comp c08_r1) \/ In en' (rq_comp c08_r2)) by (destruct Hr' as [<-|[<-|[<-|[]]]]; auto).
    destruct Hc as [H|H]; cbn in H; destruct H as [<-|[<-|[]]];
    destruct Hc' as [H'|H']; cbn in H'; destruct H' as [<-|[<-|[]]];
    first [reflexivity | (exfalso; vm_compute in Hs; discriminate Hs)].
Qed.
Print Assumptions C08_nonvacuous.
