(* C16 -- element-specification text and string-keyed access are total and consistent. *)
From Coq Require Import List ZArith NArith Bool Arith String.
From CE Require Import Str TableTypes TableModel Comp ESpec CompSpec ESpecProofs ESpecCheck Table.
Import ListNotations.

Section C16.
  Variable tbl : list (string * elem).
  Variable uni_alphabetic : char -> bool.

  (* parsing any string returns a key or an error value: the model has no panicking path left (every slice is taken
     at a position found by searching the string itself) *)
  Theorem C16_parse_total : forall s, espec_parse tbl s <> EPanic.
  Proof. exact (parse_total tbl). Qed.

  (* it succeeds only for a table symbol, optionally followed by exactly one bracketed decimal number that is one of
     that element's isotope numbers *)
  Theorem C16_parse_sound : forall s k, espec_parse tbl s = EOk k ->
    has_elem tbl (fst k) = true /\
    ((s = fst k /\ snd k = 0%N /\ split_lb s = None) \/
     (exists ds, s = (fst k ++ [LB] ++ ds ++ [RB])%list /\ ds <> [] /\ forallb is_digit ds = true
                 /\ parse_u16 ds = Some (snd k) /\ has_iso tbl (fst k) (snd k) = true)).
  Proof. exact (parse_sound tbl). Qed.

  (* rendering a valid key and parsing the text back gives the key *)
  Theorem C16_roundtrip : table_syms_ok tbl = true -> forall k,
    has_elem tbl (fst k) = true -> (snd k = 0%N \/ has_iso tbl (fst k) (snd k) = true) -> (snd k < 65536)%N ->
    espec_parse tbl (show_key k) = EOk k.
  Proof. exact (roundtrip tbl). Qed.

  (* reading by any string: the count of the entry the text denotes, 0 otherwise -- in both representations *)
  Theorem C16_index_str : table_syms_ok tbl = true -> forall l s,
    syms_in_table tbl l = true ->
    v_index_str tbl uni_alphabetic s l = match espec_parse tbl s with EOk k => e_get k l | _ => 0%Z end
    /\ m_index_str tbl uni_alphabetic s l = match espec_parse tbl s with EOk k => e_get k l | _ => 0%Z end.
  Proof. exact (index_str_spec tbl uni_alphabetic). Qed.
End C16.

(* all pairs of the regenerated table, by evaluation (finite domain) *)
Theorem C16_table_roundtrip :
  forallb (fun p => match espec_parse TE (show_key (codes (fst p), snd p)) with
                    | EOk k => key_eqb k (codes (fst p), snd p) | _ => false end) table_pairs = true
  /\ table_syms_ok TE = true.
Proof. split; vm_compute; reflexivity. Qed.

Print Assumptions C16_parse_total. Print Assumptions C16_parse_sound. Print Assumptions C16_roundtrip.
Print Assumptions C16_index_str. Print Assumptions C16_table_roundtrip.
