(* C13, source level -- the theorems of C13.v transported along proofs/PeakTie.v: they are statements about the
   definitions of coq/gen/PeakGen.v, regenerated from isotopic_pattern/peak.rs on every run. *)
From Coq Require Import ZArith List Bool.
From CE Require Import Num OField Peak PeakSpec PeakGen SourcePeak.
Import ListNotations.

Section C13s.
  Context {F : Type} (N : Num F).
  Notation tip := (tip (F:=F)).

  Theorem C13s_shift : forall (p : tip) off,
    peaks (shift_gen N p off) = map (fun q => mkPeak (add N (mz q) off) (inten q)) (peaks p)
    /\ origin (shift_gen N p off) = add N (origin p) off
    /\ clone_shifted_gen N p off = shift_gen N p off.
  Proof. exact (shift_src N). Qed.

  Theorem C13s_scale_by : forall (p : tip) f,
    peaks (scale_by_gen N p f) = map (fun q => mkPeak (mz q) (mul N (inten q) f)) (peaks p)
    /\ origin (scale_by_gen N p f) = origin p.
  Proof. exact (scale_by_src N). Qed.

  Theorem C13s_normalize_shape : forall (p : tip),
    map mz (peaks (normalize_gen N p)) = map mz (peaks p) /\ origin (normalize_gen N p) = origin p
    /\ ints (normalize_gen N p) = map (fun x => mul N x (div N (one N) (total_gen N p))) (ints p).
  Proof. exact (normalize_shape_src N). Qed.

  Theorem C13s_truncate_after : forall (p : tip) t,
    (forall k, k < length (peaks p) -> reaches N p t k = true -> (forall j, j < k -> reaches N p t j = false) ->
       truncate_after_gen N p t = normalize_gen N (mkTip (firstn (S k) (peaks p)) (origin p)))
    /\ ((forall j, j < length (peaks p) -> reaches N p t j = false) ->
       truncate_after_gen N p t = normalize_gen N (mkTip (peaks p) (origin p))).
  Proof. exact (truncate_after_src N). Qed.

  Theorem C13s_ignore_below : forall (p : tip) t,
    ignore_below_gen N p t = normalize_gen N (mkTip (filter (fun q => leb N t (inten q)) (peaks p)) (origin p))
    /\ (forall q, In q (filter (fun q => leb N t (inten q)) (peaks p)) <-> In q (peaks p) /\ leb N t (inten q) = true).
  Proof. exact (ignore_below_src N). Qed.

  (* frame laws *)
  Theorem C13s_shift_frame : forall (p : tip) off,
    ints (shift_gen N p off) = ints p /\ length (peaks (shift_gen N p off)) = length (peaks p).
  Proof. exact (frame_shift_src N). Qed.
  Theorem C13s_normalize_frame : forall (p : tip),
    map mz (peaks (normalize_gen N p)) = map mz (peaks p) /\ length (peaks (normalize_gen N p)) = length (peaks p)
    /\ origin (normalize_gen N p) = origin p.
  Proof. exact (frame_normalize_src N). Qed.
  Theorem C13s_ignore_below_frame : forall (p : tip) t,
    map mz (peaks (ignore_below_gen N p t)) = map mz (filter (fun q => geb N (inten q) t) (peaks p))
    /\ length (peaks (ignore_below_gen N p t)) <= length (peaks p)
    /\ origin (ignore_below_gen N p t) = origin p.
  Proof. exact (frame_ignore_below_src N). Qed.
  Theorem C13s_truncate_after_frame : forall (p : tip) t,
    exists k, map mz (peaks (truncate_after_gen N p t)) = firstn (S k) (map mz (peaks p))
              /\ k <= Nat.pred (length (peaks p))
              /\ length (peaks (truncate_after_gen N p t)) <= length (peaks p)
              /\ (peaks p <> [] -> peaks (truncate_after_gen N p t) <> [])
              /\ origin (truncate_after_gen N p t) = origin p.
  Proof. exact (frame_truncate_after_src N). Qed.

  (* exact arithmetic *)
  Theorem C13s_normalize_sum : OField N -> forall (p : tip),
    total_gen N p <> zero N -> total_gen N (normalize_gen N p) = one N.
  Proof. exact (normalize_sum_src N). Qed.

  Theorem C13s_normalize_ratio : OField N -> forall (p : tip) i j,
    total_gen N p <> zero N ->
    mul N (nth i (ints (normalize_gen N p)) (zero N)) (nth j (ints p) (zero N))
    = mul N (nth j (ints (normalize_gen N p)) (zero N)) (nth i (ints p) (zero N)).
  Proof. exact (normalize_ratio_src N). Qed.

  Theorem C13s_truncate_sum : OField N -> forall (p : tip) t,
    positive N p -> peaks p <> [] -> total_gen N (truncate_after_gen N p t) = one N.
  Proof. exact (truncate_sum_src N). Qed.

  Theorem C13s_ignore_sum : OField N -> forall (p : tip) t,
    positive N p -> (exists q, In q (peaks p) /\ leb N t (inten q) = true) -> total_gen N (ignore_below_gen N p t) = one N.
  Proof. exact (ignore_sum_src N). Qed.
End C13s.

Print Assumptions C13s_shift. Print Assumptions C13s_scale_by. Print Assumptions C13s_normalize_shape.
Print Assumptions C13s_truncate_after. Print Assumptions C13s_ignore_below. Print Assumptions C13s_normalize_sum.
Print Assumptions C13s_normalize_ratio. Print Assumptions C13s_truncate_sum. Print Assumptions C13s_ignore_sum.
Print Assumptions C13s_shift_frame. Print Assumptions C13s_normalize_frame. Print Assumptions C13s_ignore_below_frame. Print Assumptions C13s_truncate_after_frame.
