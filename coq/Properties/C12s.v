(* C12s -- C12 at source level: the table that the code TRANSLATED FROM THE CURRENT src/element.rs (coq/gen/ElementGen.v:
   PeriodicTable::new, PeriodicTable::add, Element::index_isotopes) builds from the regenerated literal Table.table_src is
   self-consistent and matches the repository's NIST data.  Transported along proofs/ElementTie.v
   (build_table_new_add, build_elem_index_step).

   [src_build_table NF io uni fuel G pop src] is the fold of the generated `add` over the generated `new`, one element
   per block of table.rs, each element being the literal with its early inserts, the generated index_isotopes() where
   the source calls it, then the late inserts ([src_build_elem]).  NF / uni / fuel / G / pop are the leading parameters
   every definition of ElementGen.v carries; the statements hold for all of them.  [io] is the iteration order of
   HashMap<u16, Isotope>: the tie's side condition is [order_ok io] (it permutes the entries -- all a HashMap
   promises); the `_id` statements discharge it for the insertion order and are closed. *)
From Coq Require Import ZArith NArith List String Bool.
From CE Require Import Num Str TableTypes TableModel Comp ImpS ImpE ImpT ElementGen SourceTable Table Nist KnownC12.
Import ListNotations.

(* the construction above is the model's table, for every admissible iteration order *)
Theorem C12s_same_construction : forall {F} (NF : Num F) io uni fuel G pop, order_ok io ->
  forall src, src_build_table NF io uni fuel G pop src = build_table src.
Proof. exact @src_build_table_model. Qed.

(* ... and it is what the helper's make_periodic_table returns when populate_periodic_table is that fold *)
Theorem C12s_helper_table : forall {F} (NF : Num F) io uni fuel G pop src,
  ce_make_periodic_table_gen NF io uni fuel G (src_populate NF io uni fuel G pop src) = src_build_table NF io uni fuel G pop src.
Proof. exact @src_helper_table. Qed.

(* every element satisfies every clause of the property *)
Theorem C12s_table_consistent : forall {F} (NF : Num F) io uni fuel G pop, order_ok io ->
  keys_unique (src_build_table NF io uni fuel G pop table_src) = true /\
  forall k e, In (k, e) (src_build_table NF io uni fuel G pop table_src) -> known_c12 k = false -> elem_ok k e = true.
Proof. exact @src_table_consistent. Qed.

(* the table equals what the generator rules produce from nist_mass.json *)
Theorem C12s_matches_nist : forall {F} (NF : Num F) io uni fuel G pop, order_ok io ->
  nist_safe nist_src = true
  /\ table_eqb (build_table (map gen_elem nist_src)) (src_build_table NF io uni fuel G pop table_src) = true.
Proof. exact @src_matches_nist. Qed.

(* closed: the insertion order is an admissible iteration order *)
Theorem C12s_table_consistent_id : forall {F} (NF : Num F) uni fuel G pop,
  let T := src_build_table NF (fun l => l) uni fuel G pop table_src in
  keys_unique T = true /\ forall k e, In (k, e) T -> known_c12 k = false -> elem_ok k e = true.
Proof. exact @src_table_consistent_id. Qed.

Theorem C12s_matches_nist_id : forall {F} (NF : Num F) uni fuel G pop,
  nist_safe nist_src = true
  /\ table_eqb (build_table (map gen_elem nist_src)) (src_build_table NF (fun l => l) uni fuel G pop table_src) = true.
Proof. exact @src_matches_nist_id. Qed.

(* two admissible iteration orders build the same table *)
Theorem C12s_order_independent : forall {F} (NF : Num F) io io' uni fuel G pop, order_ok io -> order_ok io' ->
  forall src, src_build_table NF io uni fuel G pop src = src_build_table NF io' uni fuel G pop src.
Proof. exact @src_build_table_order_independent. Qed.

Print Assumptions C12s_same_construction. Print Assumptions C12s_helper_table. Print Assumptions C12s_table_consistent.
Print Assumptions C12s_matches_nist. Print Assumptions C12s_table_consistent_id. Print Assumptions C12s_matches_nist_id.
Print Assumptions C12s_order_independent.
