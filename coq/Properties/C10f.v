(* C10, floating-point level -- neutral_mass undoes mass_charge_ratio up to five roundings: in any numeric
   interpretation satisfying the (extended) standard model of rounding,
        | neutral_mass (mass_charge_ratio m z c) z c  -  m |  <=  ((1+u)^4 - 1) * (|m| + (1+u) * |z * c|),
   and the instance at Coq's primitive binary64 floats (u = 2^-53), whenever no overflow/underflow occurs
   ([mz_safe], a computable test).  The binary64 theorems rest on the standard library's axioms for the reals and
   for primitive floats (see DESIGN.md section 3); the generic theorem is axiom-free. *)
From Coq Require Import List ZArith Bool Reals Floats.
From CE Require Import Num OField Mz Rounded RoundedExt NumFloat NumFloat64 Float64Std MzRoundedSpec RoundedProofs FloatStd MzRounded FloatStdExt.
Import ListNotations.

Section Generic.
  Context {F K : Type} (N : Num F) (NK : Num K) (v : F -> K) (u : K) (fin nrm : F -> bool).

  Theorem C10_inverse_rounded :
    OField NK -> StdModelExt N NK v u fin nrm ->
    forall (m : F) (z : Z) (c : F), z <> 0%Z -> (Z.abs z <= 2 ^ 53)%Z ->
    mz_safe N fin nrm m z c = true ->
    let r := neutral_mass N (mass_charge_ratio N m z c) z c in
    let e1 := sub NK (kpow NK (add NK (one NK) u) 4) (one NK) in
    fle NK (abs NK (sub NK (v r) (v m)))
           (mul NK e1 (add NK (abs NK (v m)) (mul NK (add NK (one NK) u) (abs NK (mul NK (of_Z NK z) (v c)))))).
  Proof. exact (inverse_rounded N NK v u fin nrm). Qed.
End Generic.

Theorem C10_binary64_std_ext : StdModelExt NumF NumRR v64 u64 fin64 nrm64.
Proof. exact binary64_std_model_ext. Qed.

Theorem C10_inverse_binary64 :
  forall (m : PrimFloat.float) (z : Z) (c : PrimFloat.float), z <> 0%Z -> (Z.abs z <= 2 ^ 53)%Z ->
  mz_safe NumF fin64 nrm64 m z c = true ->
  let r := neutral_mass NumF (mass_charge_ratio NumF m z c) z c in
  (Rabs (v64 r - v64 m) <= ((1 + u64) ^ 4 - 1) * (Rabs (v64 m) + (1 + u64) * Rabs (IZR z * v64 c)))%R.
Proof. exact inverse_binary64. Qed.

Example C10_float_nonvacuous :
  mz_safe NumF fin64 nrm64 1000.5%float (-3)%Z 1.007276%float = true
  /\ mz_safe NumF fin64 nrm64 180.0634%float 2%Z 22.989218%float = true.
Proof. vm_compute. split; reflexivity. Qed.

Print Assumptions C10_inverse_rounded. Print Assumptions C10_binary64_std_ext.
Print Assumptions C10_inverse_binary64. Print Assumptions C10_float_nonvacuous.
