(* C13 / C14 / C11, floating-point level -- every operation that ends in `normalize` of a sub-list inherits
   normalize's bound in rounded arithmetic: with n kept peaks, all of positive value and meeting no overflow or
   underflow ([good]), the exact sum of the returned intensities lies in [(1-u)^2/(1+u)^n, (1+u)^2/(1-u)^n]
   ([sum_within]).  Covers truncate_after (both cases), ignore_below, clone_drop_last, slice_normalized and the
   fine-structure convolution's output (which is normalize().ignore_below(thr) of whatever the convolution built).
   Generic in the numeric interpretation (axiom-free); the last theorem is the instance at Coq's primitive binary64
   floats (standard-library axioms for reals and primitive floats, as C13f). *)
From Coq Require Import List ZArith Bool Reals Floats.
From CE Require Import Num OField Mz Peak PeakSpec Conv Rounded NumFloat NumFloat64 Float64Std RoundedProofs FloatStd RenormRounded RenormFloat.
Import ListNotations.

Section Generic.
  Context {F K : Type} (N : Num F) (NK : Num K) (v : F -> K) (u : K) (fin nrm : F -> bool).
  Notation good := (good N NK v fin nrm).
  Notation sum_within := (sum_within NK v u).

  Theorem C13_ignore_below_rounded : OField NK -> StdModel N NK v u fin nrm -> forall (p : tip (F:=F)) t,
    let kept := mkTip (filter (fun q => leb N t (inten q)) (peaks p)) (origin p) in
    good kept -> sum_within (ignore_below N p t) (length (peaks kept)).
  Proof. exact (ignore_below_rounded N NK v u fin nrm). Qed.

  Theorem C13_truncate_after_rounded : OField NK -> StdModel N NK v u fin nrm -> forall (p : tip (F:=F)) t k,
    k < length (peaks p) -> reaches N p t k = true -> (forall j, j < k -> reaches N p t j = false) ->
    let kept := mkTip (firstn (S k) (peaks p)) (origin p) in
    good kept -> sum_within (truncate_after N p t) (length (peaks kept)).
  Proof. exact (truncate_after_rounded N NK v u fin nrm). Qed.

  Theorem C13_truncate_after_all_rounded : OField NK -> StdModel N NK v u fin nrm -> forall (p : tip (F:=F)) t,
    (forall j, j < length (peaks p) -> reaches N p t j = false) ->
    let kept := mkTip (peaks p) (origin p) in
    good kept -> sum_within (truncate_after N p t) (length (peaks kept)).
  Proof. exact (truncate_after_all_rounded N NK v u fin nrm). Qed.

  Theorem C14_drop_last_rounded : OField NK -> StdModel N NK v u fin nrm -> forall (p : tip (F:=F)),
    let kept := mkTip (removelast (peaks p)) (origin p) in
    good kept -> sum_within (clone_drop_last N p) (length (peaks kept)).
  Proof. exact (drop_last_rounded N NK v u fin nrm). Qed.

  Theorem C14_slice_rounded : OField NK -> StdModel N NK v u fin nrm -> forall (p : tip (F:=F)) a b,
    a <= b <= length (peaks p) ->
    let kept := mkTip (firstn (b - a) (skipn a (peaks p))) (origin p) in
    good kept -> exists q, slice_normalized N p a b = Ok q /\ sum_within q (length (peaks kept)).
  Proof. exact (slice_rounded N NK v u fin nrm). Qed.

  Theorem C11_output_sum_rounded : OField NK -> StdModel N NK v u fin nrm ->
    forall (c : list (dist (F:=F) * Z)) charge carrier thr,
    let sorted := sort_mass N (conv_all N c thr) in
    let pk := map (fun mi => mkPeak (charged N (fst mi) charge carrier) (snd mi)) sorted in
    let origin0 := match pk with p :: _ => mz p | [] => zero N end in
    let first := normalize N (mkTip pk origin0) in
    let kept := mkTip (filter (fun q => leb N thr (inten q)) (peaks first)) (origin first) in
    good kept ->
    sum_within (mkTip (isotopic_convolution N c charge carrier thr) (origin first)) (length (peaks kept)).
  Proof. exact (convolution_rounded N NK v u fin nrm). Qed.
End Generic.

(* at binary64: the bounds read in R (fle NumRR is <= on R, kpow NumRR is ^, exact_total is the real sum of v64) *)
Theorem C14_renorm_binary64 : forall (p : tip (F:=PrimFloat.float)) t,
  let kept := mkTip (filter (fun q => PrimFloat.leb t (inten q)) (peaks p)) (origin p) in
  good NumF NumRR v64 fin64 nrm64 kept ->
  let s := fold_right Rplus 0%R (map (fun q => v64 (inten q)) (peaks (ignore_below NumF p t))) in
  let n := length (peaks kept) in
  ((1 - u64) ^ 2 / (1 + u64) ^ n <= s /\ s <= (1 + u64) ^ 2 / (1 - u64) ^ n)%R.
Proof. exact ignore_below_binary64. Qed.

Print Assumptions C13_ignore_below_rounded. Print Assumptions C13_truncate_after_rounded. Print Assumptions C13_truncate_after_all_rounded.
Print Assumptions C14_drop_last_rounded. Print Assumptions C14_slice_rounded. Print Assumptions C11_output_sum_rounded.
Print Assumptions C14_renorm_binary64.
