(* C05 -- formula parsing is total: malformed text yields an error value, never a panic. *)
From Coq Require Import List ZArith NArith Bool Arith String.
From CE Require Import Str TableTypes TableModel Comp ESpec Formula FormulaSpec FormulaSafe Table.
Import ListNotations.

(* for every string, every table and every behaviour of char::is_numeric off ASCII: no slice is ever taken
   out of range or off a character boundary, no lookup fails, and the recursion (one level per parenthesis
   nesting, each on a strictly shorter string) never runs out of its |s|+1 budget *)
Theorem C05_no_panic : forall uni_numeric has_elem has_iso s,
  parse_formula uni_numeric has_elem has_iso s <> FPanic.
Proof. exact parse_formula_no_panic. Qed.

(* a composition is returned only for well-formed text: the string is the rendering of an AST that is
   well-formed (lenient reading: the corner forms `[]` before a count and `[0]` are left as the parser has
   them) and the composition is what that AST denotes *)
Theorem C05_sound : forall uni_numeric has_elem has_iso,
  (forall s, has_elem s = true -> forallb (fun x => negb (x =? RP)%N) s = true) ->
  forall s c, parse_formula uni_numeric has_elem has_iso s = FOk c ->
  exists f, wf uni_numeric has_elem has_iso true f = true /\ render f = s /\ (forall k, e_get k c = denote f k).
Proof. exact parse_formula_sound. Qed.

(* the side condition holds of the regenerated table *)
Theorem C05_table_ok :
  forallb (fun p => forallb (fun x => negb (x =? RP)%N && negb (x =? LP)%N) (codes (fst p))) (build_table table_src) = true.
Proof. vm_compute. reflexivity. Qed.

Example C05_nonvacuous :
  let T := build_table table_src in
  parse_formula (fun _ => false) (has_elem T) (has_iso T) (codes "C[13]2(OH)2") = FOk [((codes "C", 13%N), 2%Z); ((codes "O", 0%N), 2%Z); ((codes "H", 0%N), 2%Z)]
  /\ parse_formula (fun _ => false) (has_elem T) (has_iso T) (codes "C[99]2") = FErr IsotopeCountMalformed
  /\ parse_formula (fun _ => false) (has_elem T) (has_iso T) (codes "Xx(") = FErr InvalidElement.
Proof. repeat split; vm_compute; reflexivity. Qed.

Print Assumptions C05_no_panic. Print Assumptions C05_sound. Print Assumptions C05_table_ok. Print Assumptions C05_nonvacuous.
