(* C14, source level -- the theorems of C14.v transported along proofs/PeakTie.v: statements about the definitions of
   coq/gen/PeakGen.v (regenerated from isotopic_pattern/peak.rs on every run).  The iterator of
   incremental_truncation is not translated, so C14_incremental / C14_eq have no source-level counterpart here. *)
From Coq Require Import ZArith List Bool.
From CE Require Import Num OField Peak PeakSpec PeakGen SourcePeak.
Import ListNotations.

Section C14s.
  Context {F : Type} (N : Num F).
  Notation tip := (tip (F:=F)).

  Theorem C14s_drop_last : forall (p : tip),
    clone_drop_last_gen N p = normalize_gen N (mkTip (removelast (peaks p)) (origin p)).
  Proof. exact (drop_last_src N). Qed.

  Theorem C14s_slice : forall (p : tip) a b,
    (a <= b <= length (peaks p) ->
       slice_normalized_gen N p a b = Ok (normalize_gen N (mkTip (firstn (b - a) (skipn a (peaks p))) (origin p))))
    /\ (~ (a <= b <= length (peaks p)) -> slice_normalized_gen N p a b = Panic).
  Proof. exact (slice_src N). Qed.

  (* Peak::eq: both coordinates within 1e-3 *)
  Theorem C14s_peak_eq : OField N -> forall (x y : peak (F:=F)),
    peak_eq_gen N x y = true <->
    fle N (abs N (sub N (mz x) (mz y))) (of_dec N 1 3) /\ fle N (abs N (sub N (inten x) (inten y))) (of_dec N 1 3).
  Proof. exact (peak_eq_src N). Qed.

  (* exact arithmetic, positive intensities: the generated fused operation returns the peaks of the composition of the
     generated step-wise ones *)
  Theorem C14s_fused_stepwise : OField N -> forall (p : tip) t1 t2 sh,
    positive N p -> peaks p <> [] ->
    peaks (truncate_after_ignore_below_shift_normalize_gen N p t1 t2 sh)
    = peaks (shift_gen N (ignore_below_gen N (truncate_after_gen N p t1) t2) sh).
  Proof. exact (fused_stepwise_src N). Qed.
End C14s.

Print Assumptions C14s_drop_last. Print Assumptions C14s_slice. Print Assumptions C14s_peak_eq.
Print Assumptions C14s_fused_stepwise.
