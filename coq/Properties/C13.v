(* C13 -- pattern truncation, filtering, scaling and shifting do exactly what they say.
   Generic statements hold for every numeric interpretation (so for IEEE doubles as computed);
   the sum-to-one and ratio laws are about exact (ordered-field) arithmetic. *)
From Coq Require Import ZArith List Bool.
From CE Require Import Num OField Peak PeakSpec PeakProofs NumQc OFieldQc.
Import ListNotations.

Section C13.
  Context {F : Type} (N : Num F).
  Notation tip := (tip (F:=F)).

  Theorem C13_shift : forall (p : tip) off,
    peaks (shift N p off) = map (fun q => mkPeak (add N (mz q) off) (inten q)) (peaks p)
    /\ origin (shift N p off) = add N (origin p) off
    /\ clone_shifted N p off = shift N p off.
  Proof. exact (shift_spec N). Qed.

  Theorem C13_scale_by : forall (p : tip) f,
    peaks (scale_by N p f) = map (fun q => mkPeak (mz q) (mul N (inten q) f)) (peaks p)
    /\ origin (scale_by N p f) = origin p.
  Proof. exact (scale_by_spec N). Qed.

  (* normalize only rescales intensities *)
  Theorem C13_normalize_shape : forall (p : tip),
    map mz (peaks (normalize N p)) = map mz (peaks p) /\ origin (normalize N p) = origin p
    /\ ints (normalize N p) = map (fun x => mul N x (div N (one N) (total N p))) (ints p).
  Proof. exact (normalize_shape N). Qed.

  (* truncate_after keeps the shortest prefix whose running sum reaches t -- all peaks if it never does --
     and renormalises it *)
  Theorem C13_truncate_after : forall (p : tip) t,
    (forall k, k < length (peaks p) -> reaches N p t k = true -> (forall j, j < k -> reaches N p t j = false) ->
       truncate_after N p t = normalize N (mkTip (firstn (S k) (peaks p)) (origin p)))
    /\ ((forall j, j < length (peaks p) -> reaches N p t j = false) ->
       truncate_after N p t = normalize N (mkTip (peaks p) (origin p))).
  Proof. exact (truncate_after_spec N). Qed.

  (* ignore_below keeps, in order, exactly the peaks with intensity >= t, renormalised *)
  Theorem C13_ignore_below : forall (p : tip) t,
    ignore_below N p t = normalize N (mkTip (filter (fun q => leb N t (inten q)) (peaks p)) (origin p))
    /\ (forall q, In q (filter (fun q => leb N t (inten q)) (peaks p)) <-> In q (peaks p) /\ leb N t (inten q) = true).
  Proof. exact (ignore_below_spec N). Qed.

  (* exact arithmetic: intensities sum to 1 and keep their ratios *)
  Theorem C13_normalize_sum : OField N -> forall (p : tip),
    total N p <> zero N -> total N (normalize N p) = one N.
  Proof. exact (normalize_sum N). Qed.

  Theorem C13_normalize_ratio : OField N -> forall (p : tip) i j,
    total N p <> zero N ->
    mul N (nth i (ints (normalize N p)) (zero N)) (nth j (ints p) (zero N))
    = mul N (nth j (ints (normalize N p)) (zero N)) (nth i (ints p) (zero N)).
  Proof. exact (normalize_ratio N). Qed.

  Theorem C13_truncate_sum : OField N -> forall (p : tip) t,
    positive N p -> peaks p <> [] -> total N (truncate_after N p t) = one N.
  Proof. exact (truncate_sum N). Qed.

  Theorem C13_ignore_sum : OField N -> forall (p : tip) t,
    positive N p -> (exists q, In q (peaks p) /\ leb N t (inten q) = true) -> total N (ignore_below N p t) = one N.
  Proof. exact (ignore_sum N). Qed.
End C13.

(* the hypotheses are satisfiable: canonical rationals form an OField, and a concrete pattern is positive *)
Example C13_nonvacuous :
  OField NumQc /\
  let p := mkTip [mkPeak (Qc_of_Z 100) (Qc_of_Z 3); mkPeak (Qc_of_Z 101) (Qc_of_Z 2); mkPeak (Qc_of_Z 102) (Qc_of_Z 1)] (Qc_of_Z 100) in
  positive NumQc p /\ length (peaks (truncate_after NumQc p (Qc_of_Z 4))) = 2 /\ total NumQc (truncate_after NumQc p (Qc_of_Z 4)) = one NumQc.
Proof. exact C13_example. Qed.

Check C13_truncate_after.
Print Assumptions C13_shift. Print Assumptions C13_scale_by. Print Assumptions C13_normalize_shape.
Print Assumptions C13_truncate_after. Print Assumptions C13_ignore_below. Print Assumptions C13_normalize_sum.
Print Assumptions C13_normalize_ratio. Print Assumptions C13_truncate_sum. Print Assumptions C13_ignore_sum.
Print Assumptions C13_nonvacuous.
