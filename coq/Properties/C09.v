(* C09 -- coarse patterns are well-shaped and honour the requested peak count. *)
From Coq Require Import List ZArith NArith Bool Arith String Permutation.
From CE Require Import Num OField Mz Peak Poisson Brain BrainSpec ShapeProofs PoissonProofs NumQc OFieldQc.
Import ListNotations.

Section C09.
  Context {F : Type} (N : Num F).

  (* the candidate peaks before the 1e-10 rule and the sort: the first order+1 variants, normalised over them *)
  Definition raw (pv cv : list F) (o : nat) (z : Z) (carrier : F) : list (F * F) :=
    map (fun cp => (charged N (fst cp) z carrier, div N (snd cp) (fsum N pv))) (firstn (o + 1) (combine cv pv)).

  (* for every numeric interpretation: the result is a rearrangement of a sub-list of the first order+1 variants,
     it contains the first variant (so it is never empty when there is one), and every variant whose normalised
     intensity is not below 1e-10 *)
  Theorem C09_shape : forall pv cv o z carrier,
    Permutation (finish N pv cv o z carrier) (keep_real N (raw pv cv o z carrier) false)
    /\ List.length (finish N pv cv o z carrier) <= o + 1
    /\ (forall x, In x (finish N pv cv o z carrier) -> In x (raw pv cv o z carrier))
    /\ (forall x r, raw pv cv o z carrier = x :: r -> In x (finish N pv cv o z carrier))
    /\ (forall x, In x (raw pv cv o z carrier) -> ltb N (snd x) (tiny10 N) = false -> In x (finish N pv cv o z carrier)).
  Proof. exact (finish_shape N). Qed.

  (* request resolution, on integers: no request panics (it is a total function), a fixed request for n >= 1 peaks
     computes variants 0..n-1, the default is the Poisson estimate capped at 300, a signal fraction is a fixed request
     for its Poisson estimate, and the order is clamped to the variant bound *)
  Theorem C09_fixed : forall n mass, (1 <= n)%Z -> num_peaks N (spec_of_i32 n) mass = (n - 1)%Z.
  Proof. exact (fixed_count N). Qed.

  Theorem C09_nonpositive : forall n mass, (n < 0)%Z -> num_peaks N (spec_of_i32 n) mass = 0%Z.
  Proof. exact (nonpositive_count N). Qed.

  Theorem C09_default : forall mass,
    num_peaks N (spec_of_i32 0) mass = Z.min (poisson_n N mass (of_dec N 9999 4)) 300
    /\ (1 <= num_peaks N (spec_of_i32 0) mass <= 255)%Z.
  Proof. exact (default_count N). Qed.

  Theorem C09_fraction : forall f mass,
    num_peaks N (PercentSignal f) mass = num_peaks N (FixedCount (poisson_n N mass f)) mass.
  Proof. exact (fraction_count N). Qed.

  Theorem C09_clamp : forall req mv, (0 <= req)%Z -> (0 <= mv)%Z ->
    resolve_order req mv = Z.min req mv /\ (0 <= resolve_order req mv <= mv)%Z.
  Proof. exact clamp_order. Qed.

  (* exact arithmetic: kept intensities are the shares of the range, non-negative when the probabilities are, and
     they sum to 1 less the share of the omitted variants *)
  Theorem C09_sum : OField N -> forall pv cv o z carrier,
    List.length pv = o + 1 -> List.length cv = o + 1 -> fsum N pv <> zero N ->
    add N (fsum N (map snd (finish N pv cv o z carrier)))
          (fsum N (map snd (filter (fun x => ltb N (snd x) (tiny10 N)) (skip_real N (raw pv cv o z carrier) false))))
    = one N.
  Proof. exact (finish_sum N). Qed.
End C09.

Print Assumptions C09_shape. Print Assumptions C09_fixed. Print Assumptions C09_nonpositive. Print Assumptions C09_default.
Print Assumptions C09_fraction. Print Assumptions C09_clamp. Print Assumptions C09_sum.
