(* C11, source level -- the theorems of C11.v transported along proofs/ConvTie.v: statements about convolve_with_gen and
   convolve_pow_gen of coq/gen/ConvGen.v (regenerated from isotopic_pattern/convolution.rs on every run).
   The driver of the public function (fold over the elements, stable sort by mass, charge conversion) is not translated:
   [conv_all_src] / [isotopic_convolution_src] (proofs/SourceCorollariesB.v) are that driver around the generated
   convolve_pow_gen / convolve_with_gen, mass_charge_ratio_gen (SrcGen.v) and normalize_gen / ignore_below_gen (PeakGen.v).
   convolve_pow_gen is called with an empty `out`, as at every call site of the crate (the side condition of its tie);
   counts are i32 values (n < 2^31): the fuel of the translation is then never what ends its loops (ConvTie.v). *)
From Coq Require Import List ZArith Bool Permutation Sorted.
From CE Require Import Num OField Peak Conv ConvSpec ConvGen SourcePoisson SourceConv.
Import ListNotations.

Section C11s.
  Context {F : Type} (N : Num F).
  Notation dist := (list (F * F)).

  (* exact arithmetic: the generated convolve_with appends the cross product filtered at the threshold *)
  Theorem C11s_convolve_with : OField N -> forall (d e out0 : dist) thr,
    convolve_with_gen N d e out0 thr = out0 ++ filter (fun x => leb N thr (snd x)) (cross_all N d e).
  Proof. exact (convolve_with_filter_src N). Qed.

  (* one element: the generated convolve_pow against the full n-fold expansion *)
  Theorem C11s_pow_threshold_zero : OField N -> forall (d : dist) n thr,
    (0 <= n < 2 ^ 31)%Z -> (forall x, In x d -> flt N (zero N) (snd x) /\ fle N (snd x) (one N)) ->
    leb N thr (zero N) = true ->
    Permutation (convolve_pow_gen N d n [] thr) (naive_pow N d (Z.to_nat n)).
  Proof. exact (pow_threshold_zero_src N). Qed.

  Theorem C11s_pow_multiset : OField N -> forall (d : dist) n thr,
    (0 <= n < 2 ^ 31)%Z -> (forall x, In x d -> flt N (zero N) (snd x) /\ fle N (snd x) (one N)) ->
    Permutation (filter (fun x => leb N thr (snd x)) (convolve_pow_gen N d n [] thr))
                (filter (fun x => leb N thr (snd x)) (naive_pow N d (Z.to_nat n))).
  Proof. exact (pow_multiset_src N). Qed.

  Theorem C11s_pow_no_junk : OField N -> forall (d : dist) n thr x,
    (0 <= n < 2 ^ 31)%Z -> In x (convolve_pow_gen N d n [] thr) -> In x (naive_pow N d (Z.to_nat n)).
  Proof. exact (pow_no_junk_src N). Qed.

  (* the whole composition, through the driver around the generated functions *)
  Theorem C11s_threshold_zero : OField N -> forall c thr,
    c <> [] -> (forall ec, In ec c -> (0 <= snd ec < 2 ^ 31)%Z) -> abundances_ok N c ->
    leb N thr (zero N) = true -> Permutation (conv_all_src N c thr) (naive_all N c).
  Proof. exact (all_threshold_zero_src N). Qed.

  Theorem C11s_multiset : OField N -> forall c thr,
    c <> [] -> (forall ec, In ec c -> (0 <= snd ec < 2 ^ 31)%Z) -> abundances_ok N c ->
    Permutation (filter (fun x => leb N thr (snd x)) (conv_all_src N c thr))
                (filter (fun x => leb N thr (snd x)) (naive_all N c)).
  Proof. exact (all_multiset_src N). Qed.

  Theorem C11s_output_sorted : OField N -> forall c z carrier thr,
    StronglySorted (fun a b => leb N (mz a) (mz b) = true) (isotopic_convolution_src N c z carrier thr).
  Proof. exact (output_sorted_src N). Qed.

  Theorem C11s_output_sum : OField N -> forall c z carrier thr,
    c <> [] -> (forall ec, In ec c -> (0 <= snd ec < 2 ^ 31)%Z) -> abundances_ok N c ->
    isotopic_convolution_src N c z carrier thr <> [] ->
    fsum N (map inten (isotopic_convolution_src N c z carrier thr)) = one N.
  Proof. exact (output_sum_src N). Qed.

  Theorem C11s_output_above : OField N -> forall c z carrier thr p,
    c <> [] -> (forall ec, In ec c -> (0 <= snd ec < 2 ^ 31)%Z) -> abundances_ok N c ->
    In p (isotopic_convolution_src N c z carrier thr) -> leb N thr (inten p) = true.
  Proof. exact (output_above_src N). Qed.

  (* the driver around the generated functions IS the model's public function *)
  Theorem C11s_driver : forall c z carrier thr,
    conv_all_src N c thr = conv_all N c thr
    /\ isotopic_convolution_src N c z carrier thr = isotopic_convolution N c z carrier thr.
  Proof. exact (fun c z carrier thr => conj (conv_all_src_model N c thr) (isotopic_convolution_src_model N c z carrier thr)). Qed.
End C11s.

Print Assumptions C11s_convolve_with. Print Assumptions C11s_pow_threshold_zero. Print Assumptions C11s_pow_multiset.
Print Assumptions C11s_pow_no_junk. Print Assumptions C11s_threshold_zero. Print Assumptions C11s_multiset.
Print Assumptions C11s_output_sorted. Print Assumptions C11s_output_sum. Print Assumptions C11s_output_above.
Print Assumptions C11s_driver.
