(* C04 (algebra) -- because arithmetic is exact and pointwise, compositions observed through get obey the laws of a Z-module:
   no law can fail for any operands, sizes or counts (the model's counts are unbounded integers; i32 overflow is the
   documented boundary of the model, DESIGN section 4). *)
From Coq Require Import List ZArith NArith Bool Arith String.
From CE Require Import Num Str TableTypes TableModel Comp ESpec CompOps CompSpec CompArith CompLaws.
Import ListNotations.
Local Open Scope Z_scope.

Theorem C04a_add_comm : forall a b k, nodup_keys a = true -> nodup_keys b = true ->
  e_get k (e_add a b) = e_get k (e_add b a).
Proof. exact law_add_comm. Qed.
Theorem C04a_add_assoc : forall a b c k, nodup_keys b = true -> nodup_keys c = true ->
  e_get k (e_add (e_add a b) c) = e_get k (e_add a (e_add b c)).
Proof. exact law_add_assoc. Qed.
Theorem C04a_add_sub_cancel : forall a b k, nodup_keys b = true ->
  e_get k (e_sub (e_add a b) b) = e_get k a /\ e_get k (e_add (e_sub a b) b) = e_get k a.
Proof. exact law_add_sub_cancel. Qed.
Theorem C04a_sub_self : forall a k, nodup_keys a = true -> e_get k (e_sub a a) = 0.
Proof. exact law_sub_self. Qed.
Theorem C04a_sub_as_add_neg : forall a b k, nodup_keys b = true ->
  e_get k (e_sub a b) = e_get k (e_add a (e_neg b)).
Proof. exact law_sub_as_add_neg. Qed.
Theorem C04a_neg_involutive : forall a k, e_get k (e_neg (e_neg a)) = e_get k a.
Proof. exact law_neg_involutive. Qed.
Theorem C04a_neg_is_mul : forall a k, e_get k (e_neg a) = e_get k (e_mul a (-1)).
Proof. exact law_neg_is_mul. Qed.
Theorem C04a_mul_one_zero : forall a k, e_get k (e_mul a 1) = e_get k a /\ e_get k (e_mul a 0) = 0.
Proof. exact law_mul_one_zero. Qed.
Theorem C04a_mul_mul : forall a n m k, e_get k (e_mul (e_mul a n) m) = e_get k (e_mul a (n * m)).
Proof. exact law_mul_mul. Qed.
Theorem C04a_mul_distr_add : forall a b n k, nodup_keys a = true -> nodup_keys b = true ->
  e_get k (e_mul (e_add a b) n) = e_get k (e_add (e_mul a n) (e_mul b n)).
Proof. exact law_mul_distr_add. Qed.
Theorem C04a_mul_distr_scalar : forall a n m k, nodup_keys a = true ->
  e_get k (e_mul a (n + m)) = e_get k (e_add (e_mul a n) (e_mul a m)).
Proof. exact law_mul_distr_scalar. Qed.
Theorem C04a_repeated_add : forall a k, nodup_keys a = true ->
  e_get k (e_add (e_add a a) a) = e_get k (e_mul a 3).
Proof. exact law_repeated_add. Qed.

Example C04a_nonvacuous :
  let H := (codes "H", 0%N) in let O := (codes "O", 0%N) in let C := (codes "C", 13%N) in
  let a := e_collect [(H, 2%Z); (O, 1%Z)] in let b := e_collect [(C, 6%Z); (H, 12%Z); (O, 6%Z)] in
  nodup_keys a = true /\ nodup_keys b = true
  /\ e_get H (e_add a b) = 14 /\ e_get H (e_add b a) = 14 /\ e_get C (e_sub (e_add a b) b) = 0
  /\ e_get O (e_mul (e_add a b) (-2)) = -14 /\ e_get O (e_add (e_mul a (-2)) (e_mul b (-2))) = -14.
Proof. exact law_example. Qed.

Print Assumptions C04a_add_comm. Print Assumptions C04a_add_assoc. Print Assumptions C04a_add_sub_cancel.
Print Assumptions C04a_sub_self. Print Assumptions C04a_sub_as_add_neg. Print Assumptions C04a_neg_involutive.
Print Assumptions C04a_neg_is_mul. Print Assumptions C04a_mul_one_zero. Print Assumptions C04a_mul_mul.
Print Assumptions C04a_mul_distr_add. Print Assumptions C04a_mul_distr_scalar. Print Assumptions C04a_repeated_add.
Print Assumptions C04a_nonvacuous.
