(* Polynomial reading of BRAIN's inputs and outputs, over a MathComp realFieldType. No proofs. *)
From mathcomp Require Import all_ssreflect all_algebra.
From CE Require Import Num TableTypes TableModel Brain BrainSpec NumMC.
Set Implicit Arguments. Unset Strict Implicit. Unset Printing Implicit Defensive.
Import GRing.Theory Num.Theory.
Local Open Scope ring_scope.

Section AlgSpec.
  Variable R : realFieldType.
  Notation NR := (NumR R).

  (* the polynomial BRAIN actually extracts from an element: coefficient of 'X^d is (mass-weighted) abundance of
     the isotope d neutrons above the lightest one it found (coeffs is stored heaviest first) *)
  Definition qpoly (e : elem) (wm : bool) : {poly R} :=
    match coeffs NR e wm with Some acc => Poly (rev acc) | None => 0 end.
  (* normalised by its constant term (what vietes does) *)
  Definition npoly (e : elem) (wm : bool) : {poly R} := (qpoly e wm)`_0 ^-1 *: qpoly e wm.

  Definition cnt (en : elem * BinNums.Z) : nat := BinInt.Z.to_nat en.2.

  (* G = prod_e (Q_e / q_e0)^(n_e) *)
  Definition Geff (c : bcomp) : {poly R} := \prod_(en <- c) (npoly en.1 false) ^+ (cnt en).

  (* the factor for element number i with one abundance factor replaced by the mass-weighted one *)
  Definition Geff_mass (c : bcomp) (i : nat) : {poly R} :=
    \prod_(j < size c) (if (j : nat) == i
                        then npoly (nth en0 c j).1 true
                             * (npoly (nth en0 c j).1 false) ^+ (cnt (nth en0 c j)).-1
                        else (npoly (nth en0 c j).1 false) ^+ (cnt (nth en0 c j))).

  (* H = sum_e n_e * mam_e * (mass-weighted factor) : what the centre-mass numerator expands *)
  Definition Heff (c : bcomp) : {poly R} :=
    \sum_(i < size c) ((cnt (nth en0 c i))%:R
                       * micro NR (mam (nth en0 c i).1)) *: Geff_mass c i.
End AlgSpec.
