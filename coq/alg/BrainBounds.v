(* C09 (continued): coefficient-wise bounds on the centre-mass numerator.  Polynomials with non-negative coefficients
   are closed under products and sums; the coefficient-wise order is compatible with multiplication by such a
   polynomial.  Hence  (sum n_e lo_e) G <= H <= (sum n_e hi_e) G  coefficient by coefficient, as soon as every element's
   mass-weighted polynomial is sandwiched between lo_e and hi_e times its abundance polynomial -- which is the case,
   with lo_e / hi_e the lightest / heaviest isotope mass, for every element BRAIN reads faithfully. *)
From mathcomp Require Import all_ssreflect all_algebra.
From mathcomp Require Import ring zify ssrZ.
From CE Require Import Num TableTypes TableModel Brain BrainSpec NumMC BrainAlgSpec BrainAlgebra.
Set Implicit Arguments. Unset Strict Implicit. Unset Printing Implicit Defensive.
Import Order.POrderTheory GRing.Theory Num.Theory.
Local Open Scope ring_scope.

Section Bounds.
Variable R : realFieldType.
Notation NR := (NumR R).
Implicit Types (p q A B : {poly R}).

(* ---------------------------------------------------------------------------------------------- *)
(* coefficient-wise order                                                                           *)
(* ---------------------------------------------------------------------------------------------- *)
Definition cle p q : Prop := forall k, p`_k <= q`_k.
Definition cnn p : Prop := forall k, 0 <= p`_k.

Lemma cle0 p : cle 0 p <-> cnn p.
Proof. by split=> H k; move: (H k); rewrite coef0. Qed.

Lemma cnn1 : cnn 1.
Proof. by move=> k; rewrite coef1 ler0n. Qed.

Lemma cnn_mul p q : cnn p -> cnn q -> cnn (p * q).
Proof. by move=> Hp Hq k; rewrite coefM sumr_ge0 // => j _; rewrite mulr_ge0. Qed.

Lemma cnn_exp p n : cnn p -> cnn (p ^+ n).
Proof. by move=> Hp; elim: n => [|n IH]; rewrite ?expr0 ?exprS; [exact: cnn1 | exact: cnn_mul]. Qed.

Lemma cnn_prod (I : Type) (r : seq I) (P : pred I) (F : I -> {poly R}) :
  (forall i, P i -> cnn (F i)) -> cnn (\prod_(i <- r | P i) F i).
Proof.
move=> H; elim: r => [|i r IH]; first by rewrite big_nil; exact: cnn1.
by rewrite big_cons; case: ifP => // Pi; apply: cnn_mul => //; apply: H.
Qed.

Lemma cle_mulr A p q : cnn A -> cle p q -> cle (p * A) (q * A).
Proof.
move=> HA Hpq k; rewrite !coefM; apply: ler_sum => j _.
by rewrite ler_wpmul2r.
Qed.

Lemma cle_scale_mulr (a b : R) A B p : cnn p -> cle (a *: A) (b *: B) ->
  forall k, a * (A * p)`_k <= b * (B * p)`_k.
Proof. by move=> H1 H2 k; have := cle_mulr H1 H2 k; rewrite -!scalerAl !coefZ. Qed.

(* ---------------------------------------------------------------------------------------------- *)
(* a composition                                                                                    *)
(* ---------------------------------------------------------------------------------------------- *)
Section Comp.
Variable c : bcomp.
Let en i := nth en0 c i.
Let A i : {poly R} := npoly R (en i).1 false.
Let T i : {poly R} := npoly R (en i).1 true.
Let n i := cnt (en i).

Definition rest (i : nat) : {poly R} :=
  A i ^+ (n i).-1 * \prod_(j < size c | (j : nat) != i) A j ^+ n j.

Lemma Geff_rest i : (i < size c)%N -> (0 < n i)%N -> Geff R c = A i * rest i.
Proof.
by move=> il ni; rewrite /Geff (big_seq_ord _ en0) (bigD1 (Ordinal il)) //= /rest mulrA -exprS prednK.
Qed.

Lemma Geff_mass_rest i : (i < size c)%N -> Geff_mass R c i = T i * rest i.
Proof.
move=> il; rewrite /Geff_mass (bigD1 (Ordinal il)) //= eqxx /rest -mulrA; congr (_ * (_ * _)).
rewrite (eq_bigl (fun j : 'I_(size c) => (j : nat) != i)); last by move=> j; rewrite -val_eqE.
by apply: eq_bigr => j /negbTE->.
Qed.

Hypothesis A_nn : forall i, (i < size c)%N -> cnn (A i).

Lemma rest_nn i : (i < size c)%N -> cnn (rest i).
Proof.
move=> il; apply: cnn_mul; first by apply: cnn_exp; apply: A_nn.
by apply: cnn_prod => j _; apply: cnn_exp; apply: A_nn.
Qed.
End Comp.

Lemma center_bounds : forall (c : bcomp) (lo hi : elem -> R),
  (forall en, List.In en c ->
      cle 0 (npoly R en.1 false)
      /\ cle (lo en.1 *: npoly R en.1 false) (micro NR (mam en.1) *: npoly R en.1 true)
      /\ cle (micro NR (mam en.1) *: npoly R en.1 true) (hi en.1 *: npoly R en.1 false)) ->
  (forall en, List.In en c -> (0 < cnt en)%N) ->
  cle ((\sum_(en <- c) (cnt en)%:R * lo en.1) *: Geff R c) (Heff R c)
  /\ cle (Heff R c) ((\sum_(en <- c) (cnt en)%:R * hi en.1) *: Geff R c).
Proof.
move=> c lo hi /In_nth_hyp H /In_nth_hyp Hn.
have A_nn i : (i < size c)%N -> cnn (npoly R (nth en0 c i).1 false).
  by move=> il; apply/cle0; have [] := H i il.
have Hr i : (i < size c)%N -> cnn (rest c i) by apply: rest_nn.
split=> k; rewrite coefZ /Heff coef_sum (big_seq_ord _ en0) mulr_suml; apply: ler_sum => i _.
- have il := ltn_ord i; have [_ [Hlo _]] := H i il.
  rewrite coefZ Geff_mass_rest // (Geff_rest il (Hn i il)) -mulrA -[X in _ <= X]mulrA ler_wpmul2l ?ler0n //.
  exact: cle_scale_mulr (Hr i il) Hlo k.
- have il := ltn_ord i; have [_ [_ Hhi]] := H i il.
  rewrite coefZ Geff_mass_rest // (Geff_rest il (Hn i il)) -mulrA -[X in _ <= X]mulrA ler_wpmul2l ?ler0n //.
  exact: cle_scale_mulr (Hr i il) Hhi k.
Qed.

Lemma center_between : forall (c : bcomp) (lo hi : elem -> R) k,
  (forall en, List.In en c ->
      cle 0 (npoly R en.1 false)
      /\ cle (lo en.1 *: npoly R en.1 false) (micro NR (mam en.1) *: npoly R en.1 true)
      /\ cle (micro NR (mam en.1) *: npoly R en.1 true) (hi en.1 *: npoly R en.1 false)) ->
  (forall en, List.In en c -> (0 < cnt en)%N) ->
  0 < (Geff R c)`_k ->
  \sum_(en <- c) (cnt en)%:R * lo en.1 <= (Heff R c)`_k / (Geff R c)`_k <= \sum_(en <- c) (cnt en)%:R * hi en.1.
Proof.
move=> c lo hi k H Hn G0; have [Hlo Hhi] := center_bounds H Hn.
by rewrite ler_pdivl_mulr // ler_pdivr_mulr // -!coefZ Hlo Hhi.
Qed.

(* ---------------------------------------------------------------------------------------------- *)
(* one element                                                                                      *)
(* ---------------------------------------------------------------------------------------------- *)
Lemma zR1e6_gt0 : 0 < zR R (BinInt.Z.pow 10 (BinInt.Z.of_nat 6)).
Proof. by rewrite /zR ltr0z; lia. Qed.

Lemma micro_le a b : BinInt.Z.le a b -> micro NR a <= micro NR b.
Proof. by move=> ab; rewrite /micro /= ler_pmul2r ?invr_gt0 ?zR1e6_gt0 // /zR ler_int; lia. Qed.

Lemma micro_gt0 a : BinInt.Z.lt BinNums.Z0 a -> 0 < micro NR a.
Proof. by move=> a0; rewrite /micro /= divr_gt0 ?zR1e6_gt0 // /zR ltr0z; lia. Qed.

Lemma fold_min_le l x :
  BinInt.Z.le (List.fold_left BinInt.Z.min l x) x
  /\ forall y, List.In y l -> BinInt.Z.le (List.fold_left BinInt.Z.min l x) y.
Proof.
elim: l x => [|z l IH] x /=; first by split=> //; lia.
have [H1 H2] := IH (BinInt.Z.min x z); split; first lia.
by move=> y [<-|/H2 //]; lia.
Qed.

Lemma fold_max_ge l x :
  BinInt.Z.le x (List.fold_left BinInt.Z.max l x)
  /\ forall y, List.In y l -> BinInt.Z.le y (List.fold_left BinInt.Z.max l x).
Proof.
elim: l x => [|z l IH] x /=; first by split=> //; lia.
have [H1 H2] := IH (BinInt.Z.max x z); split; first lia.
by move=> y [<-|/H2 //]; lia.
Qed.

Lemma elem_min_max e i : List.In i (found_isos e) ->
  BinInt.Z.le (elem_min_mass e) (mass i) /\ BinInt.Z.le (mass i) (elem_max_mass e).
Proof.
move=> /(List.in_map mass); rewrite /elem_min_mass /elem_max_mass.
case: (List.map mass (found_isos e)) => [//|x r] /= H.
have [A1 A2] := fold_min_le r x; have [B1 B2] := fold_max_ge r x.
by case: H => [<-|H] //; split; [apply: A2 | apply: B2].
Qed.

Section Joint.
Variable Q : iso -> Prop.
Definition good (x y : R) : Prop :=
  (x = 0 /\ y = 0) \/ exists i, [/\ Q i, x = tailv R false i & y = tailv R true i].
Definition Inv (a a' : seq R) : Prop := size a = size a' /\ forall j, good a`_j a'`_j.

Lemma Inv_nil : Inv [::] [::].
Proof. by split=> // j; left; rewrite nth_nil. Qed.

Lemma Inv_cat a a' b b' : Inv a a' -> Inv b b' -> Inv (a ++ b) (a' ++ b').
Proof.
move=> [sa Ha] [sb Hb]; split; first by rewrite !size_cat sa sb.
by move=> j; rewrite !nth_cat sa; case: ltnP => _; [exact: Ha | exact: Hb].
Qed.

Lemma Inv_nseq m : Inv (nseq m 0) (nseq m 0).
Proof. by split=> // j; left; rewrite nth_nseq if_same. Qed.

Lemma Inv_1 i : Q i -> Inv [:: tailv R false i] [:: tailv R true i].
Proof.
move=> Qi; split=> // -[|j] /=; first by right; exists i.
by left; rewrite nth_nil.
Qed.

Lemma coeffs_loop_joint e l acc acc' r r' :
  coeffs_loop NR e false l acc = Some r -> coeffs_loop NR e true l acc' = Some r' ->
  (forall i, List.In i (found_loop e l) -> Q i) -> Inv acc acc' -> Inv r r'.
Proof.
elim: l acc acc' => [|i l IH] acc acc' /=; first by move=> [<-] [<-].
case: BinInt.Z.ltb => //; case: assoc_get => [iso|]; last exact: IH.
case: BinInt.Z.ltb => //; rewrite !lengthE => H1 H2 HQ HI.
have sz := HI.1; rewrite -sz in H2; move: H1 H2.
have Qi : Q iso by apply: HQ; left.
have HQ' j : List.In j (found_loop e l) -> Q j by move=> Hj; apply: HQ; right.
case: Nat.compare => // H1 H2; apply: (IH _ _ H1 H2 HQ'); rewrite !stdE.
  by apply: Inv_cat => //; apply: Inv_1.
by apply: Inv_cat => //; apply: Inv_cat; [exact: Inv_nseq | exact: Inv_1].
Qed.

Lemma Inv_rev a a' k : Inv a a' -> good (rev a)`_k (rev a')`_k.
Proof.
move=> [sz H]; case: (ltnP k (size a)) => Hk; first by rewrite !nth_rev -?sz // H.
by left; rewrite !nth_default // size_rev -?sz.
Qed.
End Joint.

Lemma element_sandwich : forall e,
  brain_elem_ok e = true -> elem_tail_pos e = true -> elem_mass_sane e = true ->
  cle 0 (npoly R e false)
  /\ cle (micro NR (elem_min_mass e) *: npoly R e false) (micro NR (mam e) *: npoly R e true)
  /\ cle (micro NR (mam e) *: npoly R e true) (micro NR (elem_max_mass e) *: npoly R e false).
Proof.
move=> e Hok Htp /andP[/List.forallb_forall Hall Hmam].
have [ca [cb [Ha Hb _ _ _]]] := @brain_elem_okP R e Hok.
move: Htp Hmam; rewrite /elem_tail_pos.
case Et : tail_loop => [t|//] /andP[/BinInt.Z.ltb_lt at0 /BinInt.Z.ltb_lt mt0] /BinInt.Z.eqb_eq mtE.
pose Q (i : iso) := [/\ BinInt.Z.lt BinNums.Z0 (ab i), BinInt.Z.lt BinNums.Z0 (mass i),
                       BinInt.Z.le (elem_min_mass e) (mass i) & BinInt.Z.le (mass i) (elem_max_mass e)].
have HQ i : List.In i (found_isos e) -> Q i.
  move=> Hi; have [H1 H2] := elem_min_max Hi.
  by have /andP[/BinInt.Z.ltb_lt ? /BinInt.Z.ltb_lt ?] := Hall i Hi.
have HI : Inv Q ca cb by apply: (coeffs_loop_joint Ha Hb HQ); apply: Inv_nil.
have Hq wm cc : coeffs NR e wm = Some cc -> (qpoly R e wm)`_0 = tailv R wm t.
  move=> Hc; have := @coeffs_loop_tail R e wm _ [::] None cc Hc erefl.
  rewrite Et /qpoly Hc coef_Poly => -[sz <-].
  by rewrite nth_rev // subn1 nth_last.
have Hk k : good Q (qpoly R e false)`_k (qpoly R e true)`_k.
  by rewrite /qpoly Ha Hb !coef_Poly; apply: Inv_rev.
have at_gt0 := micro_gt0 at0; have mt_gt0 := micro_gt0 mt0.
have X k : exists2 w, 0 <= w & (npoly R e false)`_k = w /\
   exists m, [/\ micro NR (elem_min_mass e) * w <= m * w, m * w <= micro NR (elem_max_mass e) * w
                 & micro NR (mam e) * (npoly R e true)`_k = m * w].
  rewrite /npoly !coefZ (Hq _ _ Ha) (Hq _ _ Hb) -mtE /tailv !numE mul1r.
  case: (Hk k) => [[-> ->]|[i [[ai0 mi0 lo hi] -> ->]]].
    by exists 0; rewrite ?mulr0 //; split=> //; exists 0; rewrite !mulr0.
  rewrite /tailv !numE mul1r; have ai_gt0 := micro_gt0 ai0.
  exists ((micro NR (ab t))^-1 * micro NR (ab i)); first by rewrite mulr_ge0 ?invr_ge0 ?ltW.
  split=> //; exists (micro NR (mass i)); split.
  - by rewrite ler_wpmul2r ?micro_le // mulr_ge0 ?invr_ge0 ?ltW.
  - by rewrite ler_wpmul2r ?micro_le // mulr_ge0 ?invr_ge0 ?ltW.
  - move: (micro NR (mass t)) (micro NR (ab t)) (micro NR (mass i)) (micro NR (ab i)) mt_gt0 at_gt0 => a b c d a0 b0.
    by field; rewrite !gt_eqF.
move: (npoly R e false) (npoly R e true) X => P T X.
by split; [|split] => k; have [w w0 [E [m [L1 L2 E2]]]] := X k; rewrite ?coef0 ?coefZ ?E ?E2.
Qed.
End Bounds.
