(* C03 (continued): the public function [brain], end to end over a real field.
   [brain] is [finish] applied to the two vectors of [brain_vectors]; with the closed forms of alg/BrainAlgebra.v the
   normalised, charge-converted list of peaks is the explicit one in terms of Geff / Heff. *)
From mathcomp Require Import all_ssreflect all_algebra.
From mathcomp Require Import ring zify ssrZ.
From CE Require Import Num TableTypes TableModel Mz Brain BrainSpec NumMC BrainAlgSpec BrainAlgebra.
Set Implicit Arguments. Unset Strict Implicit. Unset Printing Implicit Defensive.
Import GRing.Theory Num.Theory.
Local Open Scope ring_scope.

Lemma firstnE (T : Type) n (l : seq T) : List.firstn n l = take n l.
Proof. by elim: n l => [|n IH] [|x l] //=; rewrite IH. Qed.

(* ---- for every numeric interface: brain = finish of the two vectors ---- *)
Section Generic.
Context {F : Type} (N : Num F).

Lemma brain_finish (c : bcomp) order_req (base : F) charge (carrier : F) :
  brain N c order_req base charge carrier
  = option_map (fun t : nat * list F * list F => finish N t.1.2 t.2 t.1.1 charge carrier)
               (brain_vectors N c order_req base).
Proof.
rewrite /brain /brain_vectors /brain_with.
case: constants_fresh => [cs0|] //=.
case: BinInt.Z.ltb => //.
case: prob_vector => [pv|] //=.
by case: center_vector.
Qed.
End Generic.

Section Pattern.
Variable R : realFieldType.
Notation NR := (NumR R).

(* holds unconditionally in t because 0^-1 = 0 *)
Lemma div_scale (b g t : R) : b != 0 -> (b * g) / (b * t) = g / t.
Proof. by move=> b0; rewrite invfM mulrACA divff // mul1r. Qed.

Lemma pattern_exact : forall (c : bcomp) (order_req : BinNums.Z) (base : R) (charge : BinNums.Z) (carrier : R),
  bcomp_ok c = true -> bcomp_pos c = true -> base != 0 ->
  BinInt.Z.leb BinNums.Z0 (resolve_order order_req (max_variants c)) = true ->
  let o := BinInt.Z.to_nat (resolve_order order_req (max_variants c)) in
  let G := Geff R c in let H := Heff R c in
  let tot := \sum_(j < o.+1) G`_j in
  brain NR c order_req base charge carrier
  = Some (sort_mz NR (keep_real NR
            [seq (charged NR (if G`_k == 0 then 0 else H`_k / G`_k) charge carrier, G`_k / tot) | k <- iota 0 o.+1]
            false)).
Proof.
move=> c order_req base charge carrier cok cpos b0 /BinInt.Z.leb_le o0 o G H tot.
have omv := @resolve_order_le order_req (max_variants c).
have Hbv := @brain_vectorsE R c order_req base cok o0.
rewrite brain_finish Hbv [option_map _ _]/= /finish.
set pv := PVv _ _ _ _. set cv := CVv _ _ _ _ _.
have spv : size pv = o.+1 by apply: size_PVv.
have scv : size cv = o.+1 by rewrite /cv /CVv size_map size_iota.
have Hp k : (k <= o)%N -> pv`_k = base * G`_k by apply: (brain_prob cok cpos Hbv).
have Hc k : (k <= o)%N -> cv`_k = if G`_k == 0 then 0 else H`_k / G`_k.
  move=> ko; case: ifPn => [/eqP G0|G0]; last by apply: (brain_center cok cpos b0 Hbv).
  by rewrite /cv /CVv (nth_map 0%N) ?size_iota // nth_iota // add0n Hp // G0 mulr0 eqxx.
have -> : fsum NR pv = base * tot.
  rewrite fsumE (big_nth 0) spv big_mkord mulr_sumr; apply: eq_bigr => j _.
  by rewrite Hp // -ltnS.
congr (Some (sort_mz _ (keep_real _ _ _))).
rewrite !stdE firstnE take_oversize; last by rewrite size_zip spv scv minnn addn1.
rewrite -(mkseq_nth 0 pv) -(mkseq_nth 0 cv) spv scv /mkseq zip_map -map_comp.
apply/eq_in_map => k; rewrite mem_iota add0n ltnS /= => ko.
by rewrite Hc // Hp // div_scale.
Qed.
End Pattern.
