(* The algebraic core of BRAIN over a MathComp realFieldType: Newton-Girard in both directions, read through the
   logarithmic derivative ('X * A^`() + A * a vanishes up to degree N), without roots. *)
From mathcomp Require Import all_ssreflect all_algebra.
From mathcomp Require Import ring zify.
(* ssrZ is re-exported on purpose: the statement of C03_brain_defined in Properties/C03.v writes `BinInt.Z.leb 0 _` under
   ring_scope, and that `0 : Z` only elaborates when ssrZ's canonical ring structure on Z is imported *)
From mathcomp Require Export ssrZ.
From CE Require Import Num TableTypes TableModel Brain BrainSpec NumMC BrainAlgSpec.
Set Implicit Arguments. Unset Strict Implicit. Unset Printing Implicit Defensive.
Import GRing.Theory Num.Theory.
Local Open Scope ring_scope.

(* ---------------------------------------------------------------------------------------------- *)
(* stdlib list functions vs. ssreflect ones                                                         *)
(* ---------------------------------------------------------------------------------------------- *)
Section StdConv.
Variables (T U : Type).
Lemma lengthE (l : seq T) : List.length l = size l. Proof. by elim: l => //= _ l ->. Qed.
Lemma nthE (l : seq T) i d : List.nth i l d = nth d l i.
Proof. by elim: l i => [|x l IH] [|i] //=. Qed.
Lemma appE (l1 l2 : seq T) : List.app l1 l2 = l1 ++ l2. Proof. by elim: l1 => //= x l ->. Qed.
Lemma mapE (f : T -> U) l : List.map f l = map f l. Proof. by elim: l => //= x l ->. Qed.
Lemma repeatE (x : T) n : List.repeat x n = nseq n x. Proof. by elim: n => //= n ->. Qed.
Lemma seqE a n : List.seq a n = iota a n. Proof. by elim: n a => [|n IH] a //=; rewrite IH. Qed.
Lemma fold_leftE (f : U -> T -> U) l z : List.fold_left f l z = foldl f z l.
Proof. by elim: l z => [|x l IH] z //=. Qed.
Lemma combineE (l1 : seq T) (l2 : seq U) : List.combine l1 l2 = zip l1 l2.
Proof. by elim: l1 l2 => [|x l1 IH] [|y l2] //=; rewrite IH. Qed.
Lemma forallbE (p : T -> bool) l : List.forallb p l = all p l.
Proof. by elim: l => //= x l ->. Qed.
End StdConv.

Lemma natsubE a b : Nat.sub a b = (a - b)%N. Proof. by []. Qed.
Lemma nataddE a b : Nat.add a b = (a + b)%N. Proof. by []. Qed.
Lemma ltbE a b : Nat.ltb a b = (a < b)%N.
Proof. by apply/idP/idP => [/PeanoNat.Nat.ltb_lt/ltP|/ltP/PeanoNat.Nat.ltb_lt]. Qed.
Lemma nateqbE a b : Nat.eqb a b = (a == b).
Proof. by apply/idP/idP => [/PeanoNat.Nat.eqb_eq->|/eqP->] //; apply/PeanoNat.Nat.eqb_eq. Qed.
Lemma compare_ltn a b : (a < b)%N -> Nat.compare a b = Lt.
Proof. by move/ltP/PeanoNat.Nat.compare_lt_iff. Qed.

Definition stdE := (lengthE, nthE, appE, mapE, repeatE, seqE, fold_leftE, combineE, forallbE, natsubE, nataddE, ltbE).

(* strings as an eqType (for uniq) *)
Definition string_eqMixin := EqMixin String.eqb_spec.
#[local] Canonical string_eqType := EqType String.string string_eqMixin.

Lemma nodup_size_le (l : seq String.string) : (size (List.nodup String.string_dec l) <= size l)%N.
Proof. by elim: l => //= x l IH; case: List.in_dec => _ //=; apply: leqW. Qed.

Lemma In_mem (x : String.string) l : x \in l -> List.In x l.
Proof.
elim: l => //= y l IH; rewrite inE => /orP[/eqP->|/IH]; first by left.
by right.
Qed.

Lemma nodup_uniq (l : seq String.string) :
  size (List.nodup String.string_dec l) = size l -> uniq l.
Proof.
elim: l => //= x l IH; case: List.in_dec => [_|nin] /=.
  by move=> E; move: (nodup_size_le l); rewrite E ltnn.
by case=> /IH->; rewrite andbT; apply/negP => /In_mem.
Qed.

Lemma find_uniq (T : Type) (key : T -> String.string) (d : T) (l : seq T) i :
  uniq (map key l) -> (i < size l)%N ->
  List.find (fun y => String.eqb (key y) (key (nth d l i))) l = Some (nth d l i).
Proof.
elim: l i => //= x l IH [|i] /andP[nin ul]; first by rewrite String.eqb_refl.
rewrite ltnS => il /=.
have -> : String.eqb (key x) (key (nth d l i)) = false.
  apply/negbTE/negP => /(@eqP string_eqType) E; move: nin; rewrite E.
  by rewrite -(nth_map d (key d)) // mem_nth // size_map.
exact: IH.
Qed.

(* ---------------------------------------------------------------------------------------------- *)
(* the logarithmic-derivative relation                                                              *)
(* ---------------------------------------------------------------------------------------------- *)
Section LD.
Variable F : numFieldType.
Implicit Types (A B a b : {poly F}) (N : nat).

Definition z_upto N (p : {poly F}) := forall k, (k <= N)%N -> p`_k = 0.

Lemma z_upto_mulr N p q : z_upto N p -> z_upto N (p * q).
Proof.
move=> Hp k Hk; rewrite coefM big1 // => j _.
by rewrite Hp ?mul0r // (leq_trans _ Hk) // -ltnS.
Qed.
Lemma z_upto_mull N p q : z_upto N p -> z_upto N (q * p).
Proof. by move=> Hp; rewrite mulrC; apply: z_upto_mulr. Qed.
Lemma z_upto_add N p q : z_upto N p -> z_upto N q -> z_upto N (p + q).
Proof. by move=> Hp Hq k Hk; rewrite coefD Hp // Hq // addr0. Qed.

Definition ld N A a := z_upto N ('X * A^`() + A * a).

Lemma ld_mul N A B a b : ld N A a -> ld N B b -> ld N (A * B) (a + b).
Proof.
move=> HA HB; rewrite /ld.
have -> : 'X * (A * B)^`() + A * B * (a + b) =
          ('X * A^`() + A * a) * B + A * ('X * B^`() + B * b).
  by rewrite derivM !mulrDr !mulrDl !mulrA; ring.
by apply: z_upto_add; [apply: z_upto_mulr | apply: z_upto_mull].
Qed.

Lemma ld_one N : ld N 1 0.
Proof. by move=> k _; rewrite derivC mulr0 mulr0 addr0 coef0. Qed.

Lemma ld_exp N A a n : ld N A a -> ld N (A ^+ n) (a *+ n).
Proof.
move=> HA; elim: n => [|n IH]; first by rewrite expr0 mulr0n; apply: ld_one.
by rewrite exprS mulrS; apply: ld_mul.
Qed.

Lemma ld_bigprod N (I : Type) (r : seq I) (A a : I -> {poly F}) :
  (forall i, ld N (A i) (a i)) -> ld N (\prod_(i <- r) A i) (\sum_(i <- r) a i).
Proof.
move=> H; elim: r => [|i r IH]; first by rewrite !big_nil; apply: ld_one.
by rewrite !big_cons; apply: ld_mul.
Qed.

(* coefficient form of ld *)
Lemma ld_coefE A a k : (0 < k)%N ->
  ('X * A^`() + A * a)`_k = A`_k *+ k + \sum_(j < k.+1) A`_j * a`_(k - j).
Proof.
move=> k0; rewrite coefD coefXM (gtn_eqF k0) coef_deriv prednK // coefM.
by [].
Qed.

Lemma ld_coef0 A a : ('X * A^`() + A * a)`_0 = A`_0 * a`_0.
Proof. by rewrite coefD coefXM eqxx add0r coefM big_ord1 subn0. Qed.

(* only the coefficients of a up to N matter *)
Lemma ld_eqr N A a a' : (forall k, (k <= N)%N -> a`_k = a'`_k) -> ld N A a -> ld N A a'.
Proof.
move=> E H k kN; rewrite -[RHS](H k kN) !coefD; congr (_ + _); rewrite !coefM.
by apply: eq_bigr => j _; rewrite E // (leq_trans (leq_subr _ _)).
Qed.

(* uniqueness *)
Lemma ld_uniq N A B a : ld N A a -> ld N B a -> a`_0 = 0 -> A`_0 = B`_0 ->
  forall k, (k <= N)%N -> A`_k = B`_k.
Proof.
move=> HA HB a0 AB0 k; elim/ltn_ind: k => -[//|k] IH kN.
have HAk := HA _ kN; have HBk := HB _ kN.
rewrite !ld_coefE // in HAk HBk.
have E : \sum_(j < k.+2) A`_j * a`_(k.+1 - j) = \sum_(j < k.+2) B`_j * a`_(k.+1 - j).
  rewrite [LHS]big_ord_recr [RHS]big_ord_recr /= subnn a0 !mulr0 !addr0.
  apply: eq_bigr => j _; rewrite IH //.
  by rewrite (leq_trans _ (ltnW kN)) // -ltnS.
have H : A`_k.+1 *+ k.+1 = B`_k.+1 *+ k.+1.
  by apply: (@addIr _ (\sum_(j < k.+2) B`_j * a`_(k.+1 - j))); rewrite -{1}E HAk HBk.
by move/eqP: H; rewrite -subr_eq0 -mulrnBl mulrn_eq0 /= subr_eq0 => /eqP.
Qed.
End LD.

(* ---------------------------------------------------------------------------------------------- *)
Section Alg.
Variable R : realFieldType.
Notation NR := (NumR R).
Implicit Types (esp ps : seq R).

(* ---- integers ---- *)
Lemma zR_of_nat k : zR R (BinInt.Z.of_nat k) = k%:R.
Proof. by rewrite /zR; have -> : int_of_Z (BinInt.Z.of_nat k) = Posz k by lia. Qed.

Lemma zR_to_nat z : BinInt.Z.le 0 z -> zR R z = (BinInt.Z.to_nat z)%:R.
Proof. by move=> z0; rewrite -zR_of_nat Znat.Z2Nat.id. Qed.

Lemma natr_neq0 k : (0 < k)%N -> (k%:R : R) != 0.
Proof. by move=> k0; rewrite pnatr_eq0 -lt0n. Qed.

(* ---- signs ---- *)
Lemma neg1E : neg1 NR = -1. Proof. by []. Qed.
Lemma addE (a b : R) : add NR a b = a + b. Proof. by []. Qed.
Lemma mulE (a b : R) : mul NR a b = a * b. Proof. by []. Qed.
Lemma divE (a b : R) : div NR a b = a / b. Proof. by []. Qed.
Lemma of_ZE z : of_Z NR z = zR R z. Proof. by []. Qed.
Lemma zeroE : zero NR = 0. Proof. by []. Qed.
Lemma oneE : one NR = 1. Proof. by []. Qed.
Definition numE := (neg1E, addE, mulE, divE, of_ZE, zeroE, oneE).

Lemma sgn_even i : sgn NR (Nat.even i) = (-1) ^+ i.
Proof.
elim/ltn_ind: i => -[|[|i]] IH; rewrite ?expr0 ?expr1 //.
by rewrite [Nat.even _]/= IH // !exprS mulrA mulrNN mul1r mul1r.
Qed.

Lemma sgn_odd i : sgn NR (Nat.odd i) = (-1) ^+ i.+1.
Proof.
rewrite exprS -sgn_even /Nat.odd; case: (Nat.even i) => /=; first by rewrite mulr1.
by rewrite mulrNN mulr1.
Qed.

Lemma nthFE (l : seq R) i : nthF NR l i = l`_i.
Proof. by rewrite /nthF nthE. Qed.

Lemma signMM i (x : R) : (-1) ^+ i * ((-1) ^+ i * x) = x.
Proof. by rewrite mulrA -expr2 sqrr_sign mul1r. Qed.

(* ---- Newton-Girard, esp -> power sums ---- *)
Definition psn_closed esp ps k : R :=
  if k is 0 then 0 else
  \sum_(1 <= j < k) (-1) ^+ j.+1 * esp`_j * ps`_(k - j) + (-1) ^+ k.+1 * esp`_k * k%:R.

Lemma ps_nextE esp ps k : ps_next NR esp ps k = psn_closed esp ps k.
Proof.
case: k => // k; rewrite /ps_next /psn_closed !stdE subn1 [k.+1.-1]/=.
set f := (f in foldl f).
have fE t s a : f (t, s) a = (t + s * -1 * esp`_a * ps`_(k.+1 - a), s * -1).
  by rewrite /f !nthFE.
have H : forall m a (t : R),
   foldl f (t, (-1) ^+ a) (iota a m)
   = (t + \sum_(a <= j < a + m) (-1) ^+ j.+1 * esp`_j * ps`_(k.+1 - j), (-1) ^+ (a + m)).
  elim=> [|m IH] a t.
    by rewrite addn0 /= big_geq // addr0.
  rewrite -[iota a m.+1]/(a :: iota a.+1 m) -[foldl f _ (_ :: _)]/(foldl f (f _ a) _) fE.
  rewrite -exprSr IH addnS addSn.
  rewrite [in RHS]big_ltn; last by rewrite ltnS leq_addr.
  by rewrite addrA.
have -> : (zero NR, neg1 NR) = (0, (-1) ^+ 1) :> R * R by rewrite expr1.
rewrite H add0r add1n !numE nthFE -exprSr.
by rewrite zR_of_nat.
Qed.

Definition PSinv esp ps := forall k, (k < size ps)%N -> ps`_k = psn_closed esp ps k.

Lemma nth_pad (s : seq R) m j : (s ++ nseq m 0)`_j = s`_j.
Proof.
by rewrite nth_cat; case: ltnP => // le; rewrite nth_nseq if_same nth_default.
Qed.

Lemma psn_closed_pad esp m ps k : psn_closed (esp ++ nseq m 0) ps k = psn_closed esp ps k.
Proof.
case: k => // k; rewrite /psn_closed nth_pad; congr (_ + _).
by apply: eq_bigr => j _; rewrite nth_pad.
Qed.

Lemma psn_closed_cat esp ps t k : (k <= size ps)%N -> psn_closed esp (ps ++ t) k = psn_closed esp ps k.
Proof.
case: k => // k kl; rewrite /psn_closed; congr (_ + _).
apply: eq_big_nat => j /andP[j1 jk]; rewrite nth_cat.
by have -> : (k.+1 - j < size ps)%N by lia.
Qed.

Lemma PSinv_pad esp m ps : PSinv esp ps -> PSinv (esp ++ nseq m 0) ps.
Proof. by move=> H k kl; rewrite psn_closed_pad; apply: H. Qed.

Lemma PSinv_nil esp : PSinv esp [::]. Proof. by []. Qed.

Lemma extend_psP fuel esp ps : (size esp - size ps <= fuel)%N -> PSinv esp ps ->
  size (extend_ps NR fuel esp ps) = maxn (size ps) (size esp) /\ PSinv esp (extend_ps NR fuel esp ps).
Proof.
elim: fuel ps => [|fuel IH] ps Hf Hps /=.
  by split=> //; lia.
rewrite !stdE; case: ltnP => Hlt; last by split=> //; lia.
set x := ps_next _ _ _ _.
have [] := IH (ps ++ [:: x]).
- by rewrite size_cat /=; lia.
- move=> k; rewrite size_cat /= addn1 ltnS leq_eqVlt => /orP[/eqP->|kl].
    by rewrite nth_cat ltnn subnn /= psn_closed_cat // /x ps_nextE.
  by rewrite nth_cat kl psn_closed_cat ?Hps // ltnW.
by rewrite size_cat /= => -> H; split=> //; lia.
Qed.

Lemma update_psP esp ps : PSinv esp ps ->
  size (update_ps NR esp ps) = maxn (size ps) (size esp) /\ PSinv esp (update_ps NR esp ps).
Proof. by move=> H; apply: extend_psP => //; rewrite lengthE leq_subr. Qed.

(* the power-sum recurrence is the logarithmic-derivative relation *)
Definition newton_ok (A : {poly R}) ps := forall k, (k < size ps)%N -> ('X * A^`() + A * Poly ps)`_k = 0.

Lemma PSinv_newton_ok (A : {poly R}) esp ps :
  A`_0 = 1 -> (forall j, A`_j = (-1) ^+ j * esp`_j) -> PSinv esp ps -> newton_ok A ps.
Proof.
move=> A0 AE H [|k] kl.
  by rewrite ld_coef0 coef_Poly (H 0%N kl) mulr0.
rewrite ld_coefE // -(big_mkord xpredT (fun j => A`_j * (Poly ps)`_(k.+1 - j))).
rewrite big_ltn // big_nat_recr //= subnn subn0 A0 mul1r !coef_Poly (H 0%N (leq_ltn_trans _ kl)) //.
rewrite mulr0 addr0 (H _ kl) /psn_closed.
rewrite [X in _ + X]addrAC -big_split /= big1_seq ?add0r.
  by rewrite AE [in X in _ + X]exprS mulN1r !mulNr -mulr_natr subrr.
move=> j; rewrite mem_index_iota => /andP[_ /andP[j1 jk]].
by rewrite AE coef_Poly exprS mulN1r !mulNr addNr.
Qed.

(* ---- Newton-Girard, power sums -> esp ---- *)
Definition espn_closed ps esp k : R :=
  if k is 0 then 1 else (\sum_(1 <= j < k.+1) (-1) ^+ j.+1 * ps`_j * esp`_(k - j)) / k%:R.

Lemma fsumE (l : seq R) : fsum NR l = \sum_(x <- l) x.
Proof.
rewrite /fsum fold_leftE.
have H : forall z, foldl (add NR) z l = z + \sum_(x <- l) x.
  elim: l => [|x l IH] z /=; first by rewrite big_nil addr0.
  by rewrite IH big_cons addrA.
by rewrite H /= add0r.
Qed.

Lemma esp_nextE mv ps esp k : BinInt.Z.le (BinInt.Z.of_nat k) mv ->
  esp_next NR mv ps esp k = espn_closed ps esp k.
Proof.
case: k => // k Hk; rewrite /esp_next /espn_closed.
have -> : BinInt.Z.ltb mv (BinInt.Z.of_nat k.+1) = false by lia.
rewrite divE of_ZE zR_of_nat fsumE !stdE big_map; congr (_ / _).
rewrite /index_iota subn1 succnK; apply: eq_bigr => j _.
by rewrite !numE sgn_odd !nthFE stdE.
Qed.

Definition ESinv ps esp := forall k, (k < size esp)%N -> esp`_k = espn_closed ps esp k.

Lemma espn_closed_cat ps esp t k : (k <= size esp)%N -> espn_closed ps (esp ++ t) k = espn_closed ps esp k.
Proof.
case: k => // k kl; rewrite /espn_closed; congr (_ / _).
apply: eq_big_nat => j /andP[j1 jk]; rewrite nth_cat.
by have -> : (k.+1 - j < size esp)%N by lia.
Qed.

Lemma extend_espP fuel mv ps esp : (size ps - size esp <= fuel)%N ->
  BinInt.Z.le (BinInt.Z.of_nat (size ps)) (BinInt.Z.add mv 1) -> ESinv ps esp ->
  size (extend_esp NR fuel mv ps esp) = maxn (size esp) (size ps) /\ ESinv ps (extend_esp NR fuel mv ps esp).
Proof.
move=> + Hmv; elim: fuel esp => [|fuel IH] esp Hf He /=.
  by split=> //; lia.
rewrite !stdE; case: ltnP => Hlt; last by split=> //; lia.
set x := esp_next _ _ _ _ _.
have [] := IH (esp ++ [:: x]).
- by rewrite size_cat /=; lia.
- move=> k; rewrite size_cat /= addn1 ltnS leq_eqVlt => /orP[/eqP->|kl].
    by rewrite nth_cat ltnn subnn /= espn_closed_cat // /x esp_nextE //; lia.
  by rewrite nth_cat kl espn_closed_cat ?He // ltnW.
by rewrite size_cat /= => -> H; split=> //; lia.
Qed.

Lemma update_espP mv ps : BinInt.Z.le (BinInt.Z.of_nat (size ps)) (BinInt.Z.add mv 1) ->
  size (update_esp NR mv ps [::]) = size ps /\ ESinv ps (update_esp NR mv ps [::]).
Proof.
move=> Hmv; have [] := @extend_espP (size ps) mv ps [::] _ Hmv; rewrite ?subn0 //.
by rewrite max0n /update_esp lengthE.
Qed.

Lemma sign_cancel k j (x y : R) : (j <= k)%N ->
  (-1) ^+ k * ((-1) ^+ j.+1 * x * y) + (-1) ^+ (k - j) * y * x = 0.
Proof.
move=> jk; rewrite -{1}(subnK jk) exprD exprS.
set u := (-1) ^+ (k - j); set v := (-1) ^+ j.
have vv : v * v = 1 by rewrite -expr2 sqrr_sign.
have -> : u * v * (-1 * v * x * y) + u * y * x = u * x * y * (1 - v * v) by ring.
by rewrite vv subrr mulr0.
Qed.

Definition Bpoly (E : seq R) : {poly R} := \poly_(k < size E) ((-1) ^+ k * E`_k).

Lemma ESinv_ld ps E : ps`_0 = 0 -> ESinv ps E -> (size E <= size ps)%N ->
  forall N, (N < size E)%N -> ld N (Bpoly E) (Poly ps).
Proof.
move=> ps0 HE sz N NE [|k] kN.
  by rewrite ld_coef0 coef_Poly ps0 mulr0.
have kE : (k.+1 < size E)%N by apply: leq_ltn_trans NE.
rewrite ld_coefE // -(big_mkord xpredT (fun j => (Bpoly E)`_j * (Poly ps)`_(k.+1 - j))).
rewrite big_nat_rev /= add0n big_ltn // subSS subn0 subnn coef_Poly ps0 mulr0 add0r.
rewrite coef_poly kE (HE _ kE) /espn_closed -mulr_natr -mulrA divfK ?natr_neq0 //.
rewrite mulr_sumr -big_split /= big1_seq // => j; rewrite mem_index_iota => /andP[_ /andP[j1 jk]].
rewrite subSS subKn // coef_poly coef_Poly.
have -> : (k.+1 - j < size E)%N by lia.
by rewrite sign_cancel.
Qed.

(* ---- one element ---- *)
Lemma vietes_size c : size (vietes NR c) = size c.
Proof. by rewrite /vietes !stdE size_map size_iota. Qed.

Lemma vietes_nth (c : seq R) i : (vietes NR c)`_i = (-1) ^+ i * ((rev c)`_i / (rev c)`_0).
Proof.
case: (ltnP i (size c)) => Hi; last first.
  by rewrite [LHS]nth_default ?vietes_size // [(rev c)`_i]nth_default ?size_rev // mul0r mulr0.
have c0 : (0 < size c)%N by apply: leq_ltn_trans Hi.
rewrite /vietes !stdE (nth_map 0%N) ?size_iota // nth_iota // add0n.
rewrite !numE sgn_even !nthFE !nth_rev // -mulrA; congr (_ * (c`__ / c`__)).
by rewrite !stdE subn1 subnS.
Qed.

Lemma npoly_coef e wm c j : coeffs NR e wm = Some c -> (npoly R e wm)`_j = (-1) ^+ j * (vietes NR c)`_j.
Proof. by move=> H; rewrite /npoly /qpoly H coefZ !coef_Poly vietes_nth signMM mulrC. Qed.

Lemma npoly_coef0 e wm : (qpoly R e wm)`_0 != 0 -> (npoly R e wm)`_0 = 1.
Proof. by move=> H; rewrite /npoly coefZ mulVf. Qed.

Lemma ps_newton_ok e wm c esp' ps : coeffs NR e wm = Some c -> (forall j, esp'`_j = (vietes NR c)`_j) ->
  PSinv esp' ps -> (qpoly R e wm)`_0 != 0 -> newton_ok (npoly R e wm) ps.
Proof.
move=> Hc He Hps q0; apply: (@PSinv_newton_ok _ esp') => //; first exact: npoly_coef0.
by move=> j; rewrite He; apply: npoly_coef.
Qed.

Lemma coeffs_loop_shape e wm wm' l (acc : seq R) (acc' : seq unit) : size acc = size acc' ->
  match coeffs_loop NR e wm l acc, coeffs_loop NumUnit e wm' l acc' with
  | Some r, Some r' => size r = size r' | None, None => True | _, _ => False end.
Proof.
elim: l acc acc' => [|i l IH] acc acc' Hs //=.
case: BinInt.Z.ltb => //; case: assoc_get => [iso|]; last exact: IH.
case: BinInt.Z.ltb => //; rewrite !lengthE -Hs; case: Nat.compare => //; apply: IH.
  by rewrite !appE !size_cat /= Hs.
by rewrite !stdE !size_cat !size_nseq /= Hs.
Qed.

Lemma brain_elem_okP e : brain_elem_ok e = true -> exists ca cb,
  [/\ coeffs NR e false = Some ca, coeffs NR e true = Some cb,
      (BinInt.Z.to_nat (max_shift e) < size ca)%N, size cb = size ca & BinInt.Z.le 0 (max_shift e)].
Proof.
rewrite /brain_elem_ok.
have := @coeffs_loop_shape e false false (List.seq 0 (BinInt.Z.to_nat (BinInt.Z.add (BinInt.Z.sub (max_shift e) (min_shift e)) 1))) [::] [::] erefl.
have := @coeffs_loop_shape e true true (List.seq 0 (BinInt.Z.to_nat (BinInt.Z.add (BinInt.Z.sub (max_shift e) (min_shift e)) 1))) [::] [::] erefl.
rewrite -!/(coeffs _ _ _).
case: (coeffs NumUnit e true) => [b|]; case: (coeffs NumUnit e false) => [a|] //;
  case: (coeffs NR e true) => [cb|] //; case: (coeffs NR e false) => [ca|] // Hb Ha.
rewrite !stdE nateqbE => /andP[/andP[H1 /eqP H2] H3].
by exists ca, cb; split=> //; [rewrite Ha | rewrite Ha Hb | lia].
Qed.

Lemma newton_lt order esp ps : (size ps < size esp)%N ->
  newton NR order (mkParams esp ps) = mkParams esp (update_ps NR esp ps).
Proof. by move=> H; rewrite /newton /= !lengthE compare_ltn. Qed.

Lemma params_from_elementE e wm c : coeffs NR e wm = Some c -> (0 < size c)%N ->
  params_from_element NR e wm = Some (mkParams (vietes NR c) (update_ps NR (vietes NR c) [::])).
Proof.
by rewrite /params_from_element => ->; case: c.
Qed.

Lemma elem_phi e order : brain_elem_ok e = true -> BinInt.Z.le 0 order ->
  exists p, [/\ phi_from_element NR e = Some p, ph_sym p = sym e &
    let p' := phi_update NR order p in
    [/\ ph_sym p' = sym e, (BinInt.Z.to_nat order < size (p_ps (ph_el p')))%N,
        (BinInt.Z.to_nat order < size (p_ps (ph_mass p')))%N,
        (qpoly R e false)`_0 != 0 -> newton_ok (npoly R e false) (p_ps (ph_el p')) &
        (qpoly R e true)`_0 != 0 -> newton_ok (npoly R e true) (p_ps (ph_mass p'))]].
Proof.
move=> /brain_elem_okP[ca [cb [Ha Hb Hms Hsz ms0]]] o0.
have ca0 : (0 < size ca)%N by lia.
have cb0 : (0 < size cb)%N by lia.
rewrite /phi_from_element (params_from_elementE Ha) // (params_from_elementE Hb) //.
eexists; split; [reflexivity | by [] |].
have [szA psA] := update_psP (@PSinv_nil (vietes NR ca)).
have [szB psB] := update_psP (@PSinv_nil (vietes NR cb)).
rewrite /= max0n vietes_size in szA; rewrite /= max0n vietes_size in szB.
rewrite /phi_update [ph_order _]/=; case: BinInt.Z.ltb_spec => Ho /=.
  split=> //; try lia.
  - exact: (@ps_newton_ok _ _ _ (vietes NR ca) _ Ha (fun=> erefl) psA).
  - exact: (@ps_newton_ok _ _ _ (vietes NR cb) _ Hb (fun=> erefl) psB).
set n := BinInt.Z.to_nat (BinInt.Z.sub _ _).
have nE : BinInt.Z.of_nat n = BinInt.Z.sub (BinInt.Z.add order 1) (max_shift e) by rewrite /n; lia.
have n0 : (0 < n)%N by lia.
rewrite /push_zeros /= !stdE !newton_lt ?size_cat ?size_nseq ?vietes_size ?szA ?szB /=; try lia.
have [szA' psA'] := update_psP (PSinv_pad n psA).
have [szB' psB'] := update_psP (PSinv_pad n psB).
rewrite size_cat size_nseq vietes_size szA in szA'; rewrite size_cat size_nseq vietes_size szB in szB'.
split=> //; try (rewrite ?szA' ?szB'; lia).
- exact: (@ps_newton_ok _ _ _ (vietes NR ca ++ nseq n 0) _ Ha (fun j => nth_pad _ n j) psA').
- exact: (@ps_newton_ok _ _ _ (vietes NR cb ++ nseq n 0) _ Hb (fun j => nth_pad _ n j) psB').
Qed.

(* ---- generic list/option helpers ---- *)
Lemma find_none (T : Type) (key : T -> String.string) (l : seq T) s :
  s \notin map key l -> List.find (fun y => String.eqb (key y) s) l = None.
Proof.
elim: l => //= x l IH; rewrite inE negb_or => /andP[ne /IH->].
by rewrite eq_sym in ne; rewrite -[String.eqb _ _]/(key x == s) (negbTE ne).
Qed.

Lemma find_map_uniq (T U : Type) (g : T -> U) (keyT : T -> String.string) (keyU : U -> String.string)
    (d : T) (l : seq T) i :
  (forall j, (j < size l)%N -> keyU (g (nth d l j)) = keyT (nth d l j)) ->
  uniq (map keyT l) -> (i < size l)%N ->
  List.find (fun y => String.eqb (keyU y) (keyT (nth d l i))) (map g l) = Some (g (nth d l i)).
Proof.
elim: l i => //= x l IH i Hk /andP[nin ul].
have Hx := Hk 0%N isT; rewrite /= in Hx.
have Hl j : (j < size l)%N -> keyU (g (nth d l j)) = keyT (nth d l j) by move=> jl; apply: (Hk j.+1).
case: i => [|i]; first by rewrite /= Hx String.eqb_refl.
rewrite ltnS => il /=; rewrite Hx.
have -> : String.eqb (keyT x) (keyT (nth d l i)) = false.
  apply/negbTE/negP => /(@eqP string_eqType) E; move: nin; rewrite E.
  by rewrite -(nth_map d (keyT d)) // mem_nth // size_map.
exact: IH.
Qed.

Lemma all_some_map (T U : Type) (d : T) (f : T -> option U) (g : T -> U) (l : seq T) :
  (forall i, (i < size l)%N -> f (nth d l i) = Some (g (nth d l i))) ->
  all_some (map f l) = Some (map g l).
Proof.
elim: l => //= x l IH H; rewrite (H 0%N isT) /= IH // => i il; exact: (H i.+1).
Qed.

Lemma fold_opt (T : Type) (d : T) (l : seq T) (f : T -> option R) (g w : T -> R) z :
  (forall i, (i < size l)%N -> f (nth d l i) = Some (g (nth d l i))) ->
  List.fold_left (fun a x => match a, f x with
                             | Some a', Some p => Some (add NR a' (mul NR p (w x)))
                             | _, _ => None end) l (Some z)
  = Some (z + \sum_(x <- l) g x * w x).
Proof.
elim: l z => [|x l IH] z H /=; first by rewrite big_nil addr0.
rewrite (H 0%N isT) /= IH; last by move=> i il; apply: (H i.+1).
by rewrite big_cons addrA.
Qed.

Lemma fold_sum (T : Type) (l : seq T) (F : T -> R) z :
  foldl (fun a x => add NR a (F x)) z l = z + \sum_(x <- l) F x.
Proof.
elim: l z => [|x l IH] z /=; first by rewrite big_nil addr0.
by rewrite IH big_cons addrA.
Qed.

Lemma big_seq_ord (V : Type) (idx : V) (op : Monoid.law idx) (T : Type) (d : T) (l : seq T) (F : T -> V) :
  \big[op/idx]_(x <- l) F x = \big[op/idx]_(i < size l) F (nth d l i).
Proof. by rewrite (big_nth d) big_mkord. Qed.

Lemma coef0_bigprod (I : Type) (r : seq I) (F : I -> {poly R}) :
  (\prod_(i <- r) F i)`_0 = \prod_(i <- r) (F i)`_0.
Proof. by rewrite -horner_coef0 horner_prod; apply: eq_bigr => i _; rewrite horner_coef0. Qed.

Lemma coef0_exp (p : {poly R}) n : (p ^+ n)`_0 = p`_0 ^+ n.
Proof. by rewrite -horner_coef0 horner_exp horner_coef0. Qed.

(* ---- power sums -> the coefficients of the polynomial they belong to ---- *)
Lemma esp_from_ps (G : {poly R}) (PS : seq R) mv o :
  PS`_0 = 0 -> size PS = o.+1 -> BinInt.Z.le (BinInt.Z.of_nat o) mv ->
  G`_0 = 1 -> ld o G (Poly PS) ->
  size (update_esp NR mv PS [::]) = o.+1 /\
  forall k, (k <= o)%N -> (-1) ^+ k * (update_esp NR mv PS [::])`_k = G`_k.
Proof.
move=> PS0 sz Hmv G0 HG.
have [szE HE] : size (update_esp NR mv PS [::]) = size PS /\ ESinv PS (update_esp NR mv PS [::]).
  by apply: update_espP; rewrite sz; lia.
split; first by rewrite szE.
move=> k ko.
have HB : ld o (Bpoly (update_esp NR mv PS [::])) (Poly PS).
  by apply: ESinv_ld => //; rewrite szE ?sz.
rewrite (ld_uniq HG HB _ _ ko) ?coef_Poly //.
  by rewrite coef_poly szE sz ltnS ko.
by rewrite coef_poly szE sz /= expr0 mul1r HE ?szE ?sz.
Qed.

(* ---- a composition ---- *)
Definition dphi : phi (F:=R) :=
  mkPhi BinNums.Z0 String.EmptyString (mkParams [::] [::]) (mkParams [::] [::]).
Definition symf (x : elem * BinNums.Z) := sym x.1.
Definition PH0 (x : elem * BinNums.Z) := odflt dphi (phi_from_element NR x.1).

Lemma constants_fresh_gen l0 (c : bcomp) :
  (forall i, (i < size c)%N -> phi_from_element NR (nth en0 c i).1 = Some (PH0 (nth en0 c i))
                               /\ ph_sym (PH0 (nth en0 c i)) = symf (nth en0 c i)) ->
  uniq (map (@ph_sym R) l0 ++ map symf c) ->
  List.fold_left (fun a x => add_const NR a x.1) c (Some l0) = Some (l0 ++ map PH0 c).
Proof.
elim: c l0 => [|x c IH] l0 H U /=; first by rewrite cats0.
have [H1 H2] := H 0%N isT; rewrite /= in H1 H2.
move: U; rewrite /= -cat_rcons => U.
have nin : symf x \notin map (@ph_sym R) l0.
  by move: U; rewrite cat_uniq rcons_uniq => /andP[/andP[]].
rewrite /get_phi find_none // H1 appE cats1 IH ?cat_rcons //.
  by move=> i il; apply: (H i.+1).
by rewrite map_rcons H2.
Qed.

Section Comp.
Variables (c : bcomp) (order mv : BinNums.Z) (base : R).
Hypothesis c_ok : bcomp_ok c = true.
Hypothesis order0 : BinInt.Z.le 0 order.
Hypothesis order_mv : BinInt.Z.le order mv.
Let o := BinInt.Z.to_nat order.
Let en i := nth en0 c i.
Definition PH x := phi_update NR order (PH0 x).
Definition pe x := p_ps (ph_el (PH x)).
Definition pm x := p_ps (ph_mass (PH x)).
Let cs := map PH c.

Lemma c_elem i : (i < size c)%N -> brain_elem_ok (en i).1 = true /\ BinInt.Z.lt 0 (en i).2.
Proof.
move: c_ok; rewrite /bcomp_ok forallbE => /andP[/(all_nthP en0) H _] il.
by move: (H i il) => /andP[-> H2]; split=> //; rewrite /en; lia.
Qed.

Lemma c_uniq : uniq (map symf c).
Proof.
move: c_ok => /andP[_]; rewrite nateqbE !lengthE mapE => /eqP H.
by apply: nodup_uniq; rewrite size_map -[RHS]H.
Qed.

Lemma PH_P i : (i < size c)%N ->
  [/\ phi_from_element NR (en i).1 = Some (PH0 (en i)), ph_sym (PH0 (en i)) = symf (en i) &
   [/\ ph_sym (PH (en i)) = symf (en i), (o < size (pe (en i)))%N, (o < size (pm (en i)))%N,
       (qpoly R (en i).1 false)`_0 != 0 -> newton_ok (npoly R (en i).1 false) (pe (en i)) &
       (qpoly R (en i).1 true)`_0 != 0 -> newton_ok (npoly R (en i).1 true) (pm (en i))]].
Proof.
move=> il; have [p [H1 H2 H3]] := elem_phi (c_elem il).1 order0.
by rewrite /pe /pm /PH /PH0 H1.
Qed.

Lemma constants_freshE : constants_fresh NR c = Some (map PH0 c).
Proof.
rewrite /constants_fresh (@constants_fresh_gen [::]) //=; last exact: c_uniq.
by move=> i il; have [] := PH_P il.
Qed.

Lemma get_phiE i : (i < size c)%N -> get_phi cs (symf (en i)) = Some (PH (en i)).
Proof.
move=> il; apply: (@find_map_uniq _ _ PH symf (@ph_sym R)) => //; last exact: c_uniq.
by move=> j jl; have [_ _ []] := PH_P jl.
Qed.

Lemma psumE i k : (i < size c)%N -> (k <= o)%N -> psum NR cs (symf (en i)) k = Some (pe (en i))`_k.
Proof.
move=> il ko; rewrite /psum get_phiE // !stdE nthFE.
have [_ _ [_ H _ _ _]] := PH_P il.
by rewrite -/(pe _) (leq_ltn_trans ko H).
Qed.

Lemma psum_massE i k : (i < size c)%N -> (k <= o)%N -> psum_mass NR cs (symf (en i)) k = Some (pm (en i))`_k.
Proof.
move=> il ko; rewrite /psum_mass get_phiE // !stdE nthFE.
have [_ _ [_ _ H _ _]] := PH_P il.
by rewrite -/(pm _) (leq_ltn_trans ko H).
Qed.

Definition phiF k : R := \sum_(x <- c) (pe x)`_k * zR R x.2.

Lemma phi_forE k : (k <= o)%N -> phi_for NR cs c k = Some (phiF k).
Proof.
move=> ko; rewrite /phi_for.
rewrite (@fold_opt _ en0 c (fun x => psum NR cs (sym x.1) k) (fun x => (pe x)`_k) (fun x => zR R x.2)) ?add0r //.
by move=> i il; apply: psumE.
Qed.

Definition coefm (x y : elem * BinNums.Z) : BinNums.Z :=
  if String.eqb (sym y.1) (sym x.1) && BinNat.N.eqb (mai y.1) (mai x.1) then BinInt.Z.sub y.2 1 else y.2.
Definition pmF (x : elem * BinNums.Z) k : R := \sum_(y <- c) (pe y)`_k * zR R (coefm x y) + (pm x)`_k.

Lemma phi_mass_forE i k : (i < size c)%N -> (k <= o)%N ->
  phi_mass_for NR cs c (en i).1 k = Some (pmF (en i) k).
Proof.
move=> il ko; rewrite /phi_mass_for.
rewrite (@fold_opt _ en0 c (fun x => psum NR cs (sym x.1) k) (fun x => (pe x)`_k) (fun y => zR R (coefm (en i) y))) ?add0r.
  by rewrite (@psum_massE i).
by move=> j jl; apply: psumE.
Qed.

Definition PSv := 0 :: [seq phiF k | k <- iota 1 o].
Definition Ev := update_esp NR mv PSv [::].
Definition PVv := [seq x.2 * (base * sgn NR (Nat.even x.1)) | x <- zip (iota 0 (size Ev)) Ev].

Lemma prob_vectorE : prob_vector NR cs c o mv base = Some PVv.
Proof.
rewrite /prob_vector !stdE (@all_some_map _ _ 0%N _ phiF) //.
  by rewrite !stdE.
by move=> i; rewrite size_iota => io; rewrite nth_iota // phi_forE.
Qed.

Lemma size_Ev : size Ev = o.+1.
Proof.
have [] := @update_espP mv PSv; rewrite /= size_map size_iota //.
by rewrite /o; lia.
Qed.

Lemma size_PVv : size PVv = o.+1.
Proof. by rewrite /PVv size_map size_zip size_iota minnn size_Ev. Qed.

Lemma nth_PVv k : (k <= o)%N -> PVv`_k = base * ((-1) ^+ k * Ev`_k).
Proof.
move=> ko; have kE : (k < size Ev)%N by rewrite size_Ev.
rewrite /PVv (nth_map (0%N, 0)) ?size_zip ?size_iota ?minnn // nth_zip ?size_iota //=.
by rewrite nth_iota // add0n sgn_even mulrCA [Ev`_k * _]mulrC.
Qed.

(* entry 0 of the probability vector is always base, whatever the polynomials are *)
Lemma PVv_0 : PVv`_0 = base.
Proof.
rewrite nth_PVv // expr0 mul1r.
have [sz HE] : size Ev = size PSv /\ ESinv PSv Ev.
  by apply: update_espP; rewrite /= size_map size_iota /o; lia.
by rewrite (HE 0%N) ?mulr1 // size_Ev.
Qed.

Definition PSm x := 0 :: [seq pmF x k | k <- iota 1 o].
Definition Em x := update_esp NR mv (PSm x) [::].
Definition centerF k : R :=
  \sum_(x <- c) zR R x.2 * ((-1) ^+ k * (Em x)`_k) * base * micro NR (mam x.1).
Definition CVv (pv : seq R) := [seq (if pv`_k == 0 then 0 else centerF k / pv`_k) | k <- iota 0 o.+1].

Lemma size_Em x : size (Em x) = o.+1.
Proof.
have [] := @update_espP mv (PSm x); rewrite /= size_map size_iota //.
by rewrite /o; lia.
Qed.

Lemma center_vectorE pv : size pv = o.+1 -> center_vector NR cs c o mv base pv = Some (CVv pv).
Proof.
move=> szpv; rewrite /center_vector.
rewrite mapE (@all_some_map _ _ en0 _ (fun x => (symf x, Em x))); last first.
  move=> i il; rewrite !stdE (@all_some_map _ _ 0%N _ (pmF (en i))) //.
  by move=> k; rewrite size_iota => ko; rewrite nth_iota // phi_mass_forE.
have getE j : (j < size c)%N ->
    match List.find (fun sp : String.string * seq R => String.eqb sp.1 (sym (en j).1))
                    [seq (symf x, Em x) | x <- c] with Some sp => sp.2 | None => [::] end = Em (en j).
  move=> jl; rewrite (@find_map_uniq _ _ (fun x => (symf x, Em x)) symf fst en0 c j) //.
  exact: c_uniq.
rewrite !stdE szpv addn1 ltnn.
rewrite (@all_some_map _ _ 0%N _ (fun k => if pv`_k == 0 then 0 else centerF k / pv`_k)) //.
move=> i; rewrite size_iota => io; rewrite nth_iota // add0n !stdE.
set b := all _ c; have -> : b = true.
  by apply/(all_nthP en0) => j jl; rewrite getE // !stdE size_Em.
congr Some; rewrite !numE nthFE -[eqb NR _ _]/(_ == _); case: ifP => // _.
congr (_ / _); rewrite fold_sum add0r /centerF !(big_seq_ord _ en0).
by apply: eq_bigr => j _; rewrite getE // !numE sgn_even nthFE.
Qed.

(* entry 0 of the centre vector is always sum_e n_e * mam_e (for base != 0) *)
Lemma Em_0 x : (Em x)`_0 = 1.
Proof.
have [sz HE] : size (Em x) = size (PSm x) /\ ESinv (PSm x) (Em x).
  by apply: update_espP; rewrite /= size_map size_iota /o; lia.
by rewrite (HE 0%N) // size_Em.
Qed.

Lemma CVv_0 : base != 0 -> (CVv PVv)`_0 = \sum_(x <- c) zR R x.2 * micro NR (mam x.1).
Proof.
move=> b0; rewrite /CVv (nth_map 0%N) ?size_iota // nth_iota // add0n PVv_0 (negbTE b0).
rewrite /centerF; apply: canLR (mulfK b0) _; rewrite mulr_suml.
by apply: eq_bigr => x _; rewrite Em_0 expr0 !mulr1 mulrAC.
Qed.

(* ---- the algebra ---- *)
Lemma newton_ok_ld (A : {poly R}) ps N : (N < size ps)%N -> newton_ok A ps -> ld N A (Poly ps).
Proof. by move=> H1 H2 k kN; apply: H2; apply: leq_ltn_trans H1. Qed.

Lemma newton_ok_0 (A : {poly R}) ps : A`_0 = 1 -> newton_ok A ps -> ps`_0 = 0.
Proof.
move=> A0 H; case: (posnP (size ps)) => [/eqP|/H]; first by rewrite size_eq0 => /eqP->.
by rewrite ld_coef0 A0 mul1r coef_Poly.
Qed.

Lemma coef0_mul (p q : {poly R}) : (p * q)`_0 = p`_0 * q`_0.
Proof. by rewrite coefM big_ord1. Qed.

Lemma zR_cnt i : (i < size c)%N -> zR R (en i).2 = (cnt (en i))%:R.
Proof. by move=> il; have [_ H] := c_elem il; rewrite zR_to_nat //; lia. Qed.

Lemma zR_cnt1 i : (i < size c)%N -> zR R (BinInt.Z.sub (en i).2 1) = (cnt (en i)).-1%:R.
Proof.
move=> il; have [_ H] := c_elem il; rewrite zR_to_nat /cnt; last lia.
by congr (_%:R); lia.
Qed.

Lemma nth_PSv k : (0 < k <= o)%N -> PSv`_k = phiF k.
Proof.
case: k => // k /andP[_ ko]; rewrite /PSv /= (nth_map 0%N) ?size_iota // nth_iota //.
Qed.

Lemma nth_PSm x k : (0 < k <= o)%N -> (PSm x)`_k = pmF x k.
Proof.
case: k => // k /andP[_ ko]; rewrite /PSm /= (nth_map 0%N) ?size_iota // nth_iota //.
Qed.

Hypothesis q0f : forall i, (i < size c)%N -> (qpoly R (en i).1 false)`_0 != 0.

Lemma pe_ld i : (i < size c)%N -> ld o (npoly R (en i).1 false) (Poly (pe (en i))).
Proof. by move=> il; have [_ _ [_ H1 _ H2 _]] := PH_P il; apply: newton_ok_ld (H2 (q0f il)). Qed.

Lemma pe_0 i : (i < size c)%N -> (pe (en i))`_0 = 0.
Proof.
move=> il; have [_ _ [_ _ _ H2 _]] := PH_P il.
by apply: newton_ok_0 (H2 (q0f il)); apply: npoly_coef0; apply: q0f.
Qed.

Lemma ld_Geff : ld o (Geff R c) (Poly PSv).
Proof.
rewrite /Geff (big_seq_ord _ en0).
have H := @ld_bigprod R o 'I_(size c) (index_enum _)
  (fun i => npoly R (en i).1 false ^+ cnt (en i)) (fun i => Poly (pe (en i)) *+ cnt (en i)).
apply: ld_eqr (H _); last by move=> i; apply: ld_exp; apply: pe_ld.
move=> k ko; rewrite coef_sum coef_Poly.
case: k ko => [|k] ko.
  by rewrite big1 // => i _; rewrite coefMn coef_Poly pe_0 ?mul0rn.
rewrite nth_PSv // /phiF (big_seq_ord _ en0); apply: eq_bigr => i _.
by rewrite coefMn coef_Poly zR_cnt // mulr_natr.
Qed.

Lemma Geff_0 : (Geff R c)`_0 = 1.
Proof.
rewrite /Geff (big_seq_ord _ en0) coef0_bigprod big1 // => i _.
by rewrite coef0_exp npoly_coef0 ?expr1n //; apply: q0f.
Qed.

Lemma prob_alg k : (k <= o)%N -> PVv`_k = base * (Geff R c)`_k.
Proof.
move=> ko; rewrite nth_PVv //.
have [] := @esp_from_ps (Geff R c) PSv mv o _ _ _ Geff_0 ld_Geff => //.
- by rewrite /PSv /= size_map size_iota.
- by rewrite /o; lia.
by move=> _ ->.
Qed.

(* the mass-weighted factors *)
Lemma coefm_same i : (i < size c)%N -> coefm (en i) (en i) = BinInt.Z.sub (en i).2 1.
Proof. by rewrite /coefm String.eqb_refl BinNat.N.eqb_refl. Qed.

Lemma coefm_other i j : (i < size c)%N -> (j < size c)%N -> j != i -> coefm (en i) (en j) = (en j).2.
Proof.
move=> il jl ne; rewrite /coefm.
have -> : String.eqb (sym (en j).1) (sym (en i).1) = false; last by [].
rewrite -[String.eqb _ _]/(symf (en j) == symf (en i)).
by rewrite -!(nth_map en0 (symf en0)) // nth_uniq ?size_map ?(negbTE ne) //; apply: c_uniq.
Qed.

Lemma ld_Geff_mass i : (i < size c)%N -> (qpoly R (en i).1 true)`_0 != 0 ->
  ld o (Geff_mass R c i) (Poly (PSm (en i))).
Proof.
move=> il q0t; rewrite /Geff_mass.
have [_ _ [_ _ Hsz _ Hm]] := PH_P il.
have H := @ld_bigprod R o 'I_(size c) (index_enum _)
  (fun j => if (j : nat) == i then npoly R (en j).1 true * npoly R (en j).1 false ^+ (cnt (en j)).-1
            else npoly R (en j).1 false ^+ cnt (en j))
  (fun j => if (j : nat) == i then Poly (pm (en j)) + Poly (pe (en j)) *+ (cnt (en j)).-1
            else Poly (pe (en j)) *+ cnt (en j)).
apply: ld_eqr (H _); last first.
  move=> j; case: eqP => [->|_]; last by apply: ld_exp; apply: pe_ld.
  apply: ld_mul; first exact: newton_ok_ld (Hm q0t).
  by apply: ld_exp; apply: pe_ld.
have pm0 : (pm (en i))`_0 = 0 by apply: newton_ok_0 (Hm q0t); apply: npoly_coef0.
move=> k ko; rewrite coef_sum coef_Poly.
case: k ko => [|k] ko.
  rewrite big1 // => j _; case: eqP => [->|_].
    by rewrite coefD coefMn !coef_Poly pm0 pe_0 // mul0rn addr0.
  by rewrite coefMn coef_Poly pe_0 ?mul0rn.
rewrite nth_PSm // /pmF (big_seq_ord _ en0).
rewrite (bigD1 (Ordinal il)) //= eqxx [in RHS](bigD1 (Ordinal il)) //=.
rewrite coefD coefMn !coef_Poly coefm_same // zR_cnt1 // mulr_natr.
rewrite -/(en i) [RHS]addrC -!addrA; congr (_ + (_ + _)).
apply: eq_bigr => j ne.
have ne' : (j : nat) != i by rewrite -[i]/(val (Ordinal il)) val_eqE.
by rewrite (negbTE ne') coefMn coef_Poly coefm_other // zR_cnt // mulr_natr.
Qed.

Lemma Geff_mass_0 i : (i < size c)%N -> (qpoly R (en i).1 true)`_0 != 0 -> (Geff_mass R c i)`_0 = 1.
Proof.
move=> il q0t; rewrite /Geff_mass coef0_bigprod big1 // => j _.
case: eqP => [->|_].
  by rewrite coef0_mul coef0_exp !npoly_coef0 ?expr1n ?mulr1 //; apply: q0f.
by rewrite coef0_exp npoly_coef0 ?expr1n //; apply: q0f.
Qed.

Lemma Em_alg i k : (i < size c)%N -> (qpoly R (en i).1 true)`_0 != 0 -> (k <= o)%N ->
  (-1) ^+ k * (Em (en i))`_k = (Geff_mass R c i)`_k.
Proof.
move=> il q0t ko.
have [] := @esp_from_ps (Geff_mass R c i) (PSm (en i)) mv o _ _ _ (Geff_mass_0 il q0t) (ld_Geff_mass il q0t) => //.
- by rewrite /PSm /= size_map size_iota.
- by rewrite /o; lia.
by move=> _ ->.
Qed.

Lemma center_alg k : (forall i, (i < size c)%N -> (qpoly R (en i).1 true)`_0 != 0) ->
  base != 0 -> (k <= o)%N -> (Geff R c)`_k != 0 ->
  (CVv PVv)`_k = (Heff R c)`_k / (Geff R c)`_k.
Proof.
move=> q0t b0 ko G0.
rewrite /CVv (nth_map 0%N) ?size_iota // nth_iota // add0n prob_alg //.
rewrite (negbTE (mulf_neq0 b0 G0)).
have -> : centerF k = base * (Heff R c)`_k.
  rewrite /centerF /Heff coef_sum (big_seq_ord _ en0) mulr_sumr; apply: eq_bigr => i _.
  rewrite coefZ Em_alg // ?q0t // zR_cnt //.
  move: (micro _ _) (_%:R) ((Geff_mass _ _ _)`__) => a n g; ring.
by rewrite -mulf_div divff // mul1r.
Qed.
End Comp.

(* ---- the two vectors ---- *)
Lemma resolve_order_le req mv : BinInt.Z.le (resolve_order req mv) mv.
Proof. by rewrite /resolve_order; case: BinInt.Z.eqb; lia. Qed.

Lemma brain_vectorsE c order_req base : bcomp_ok c = true ->
  let mv := max_variants c in let order := resolve_order order_req mv in
  BinInt.Z.le 0 order ->
  brain_vectors NR c order_req base
  = Some (BinInt.Z.to_nat order, PVv c order mv base, CVv c order mv base (PVv c order mv base)).
Proof.
move=> cok mv order o0; have omv : BinInt.Z.le order mv by apply: resolve_order_le.
rewrite /brain_vectors (@constants_freshE c order cok o0) -/mv -/order.
have -> : BinInt.Z.ltb order 0 = false by lia.
have -> : List.map (phi_update NR order) (map PH0 c) = map (PH order) c by rewrite mapE -map_comp.
by rewrite prob_vectorE // center_vectorE // size_PVv.
Qed.

Lemma brain_vectors_neg c order_req base : bcomp_ok c = true ->
  BinInt.Z.lt (resolve_order order_req (max_variants c)) 0 -> brain_vectors NR c order_req base = None.
Proof.
move=> cok Hlt; rewrite /brain_vectors (@constants_freshE c BinNums.Z0 cok (BinInt.Z.le_refl _)).
by have -> : BinInt.Z.ltb (resolve_order order_req (max_variants c)) 0 = true by lia.
Qed.

Lemma brain_defined : forall (c : bcomp) (order_req : BinNums.Z) (base : R),
  bcomp_ok c = true -> (BinInt.Z.leb 0 (resolve_order order_req (max_variants c))) = true ->
  exists o pv cv, brain_vectors NR c order_req base = Some (o, pv, cv)
                  /\ o = BinInt.Z.to_nat (resolve_order order_req (max_variants c))
                  /\ (o < size pv)%N /\ size cv = o.+1.
Proof.
move=> c order_req base cok /BinInt.Z.leb_le o0.
have omv := @resolve_order_le order_req (max_variants c).
do 3![eexists]; split; first exact: brain_vectorsE.
by rewrite size_PVv // /CVv size_map size_iota.
Qed.

Lemma In_nth_hyp (c : bcomp) (P : elem * BinNums.Z -> Prop) :
  (forall x, List.In x c -> P x) -> forall i, (i < size c)%N -> P (nth en0 c i).
Proof. by move=> H i il; apply: H; rewrite -nthE; apply: List.nth_In; rewrite lengthE; apply/ltP. Qed.

(* brain_prob under the extra hypothesis that no element's extracted polynomial has constant term 0 *)
Lemma brain_prob_nz : forall (c : bcomp) (order_req : BinNums.Z) (base : R) o pv cv,
  bcomp_ok c = true ->
  (forall x, List.In x c -> (qpoly R x.1 false)`_0 != 0) ->
  brain_vectors NR c order_req base = Some (o, pv, cv) ->
  forall k, (k <= o)%N -> nth 0 pv k = base * (Geff R c)`_k.
Proof.
move=> c order_req base o pv cv cok /In_nth_hyp q0.
case: (BinInt.Z.ltb_spec (resolve_order order_req (max_variants c)) 0) => [Hlt|o0].
  by rewrite brain_vectors_neg.
rewrite brain_vectorsE // => -[<- <- _] k ko.
by apply: prob_alg => //; apply: resolve_order_le.
Qed.

Lemma brain_center_nz : forall (c : bcomp) (order_req : BinNums.Z) (base : R) o pv cv,
  bcomp_ok c = true -> base != 0 ->
  (forall x, List.In x c -> (qpoly R x.1 false)`_0 != 0) ->
  (forall x, List.In x c -> (qpoly R x.1 true)`_0 != 0) ->
  brain_vectors NR c order_req base = Some (o, pv, cv) ->
  forall k, (k <= o)%N -> (Geff R c)`_k != 0 -> nth 0 cv k = (Heff R c)`_k / (Geff R c)`_k.
Proof.
move=> c order_req base o pv cv cok b0 /In_nth_hyp q0f /In_nth_hyp q0t.
case: (BinInt.Z.ltb_spec (resolve_order order_req (max_variants c)) 0) => [Hlt|o0].
  by rewrite brain_vectors_neg.
rewrite brain_vectorsE // => -[<- _ <-] k ko G0.
by apply: center_alg => //; apply: resolve_order_le.
Qed.

(* ---- brain_prob as stated in Properties/C03.v is FALSE: an element whose lightest listed isotope has abundance 0
        has qpoly`_0 = 0, hence npoly = 0 and Geff = 0, while entry 0 of the vector is base ---- *)
Lemma brain_pv0 c order_req base o pv cv : bcomp_ok c = true ->
  brain_vectors NR c order_req base = Some (o, pv, cv) -> nth 0 pv 0 = base.
Proof.
move=> cok.
case: (BinInt.Z.ltb_spec (resolve_order order_req (max_variants c)) 0) => [Hlt|o0].
  by rewrite brain_vectors_neg.
rewrite brain_vectorsE // => -[_ <- _].
by apply: PVv_0 => //; apply: resolve_order_le.
Qed.

Definition cex_elem : elem :=
  mkE String.EmptyString
      [:: (BinNums.Npos BinNums.xH, mkI (BinNums.Zpos (BinNums.xI (BinNums.xO BinNums.xH))) BinNums.Z0 (BinNums.Npos BinNums.xH) BinNums.Z0)]
      (BinNums.Npos BinNums.xH) (BinNums.Zpos (BinNums.xI (BinNums.xO BinNums.xH))) (BinNums.Npos BinNums.xH) BinNums.Z0 BinNums.Z0.
Definition cex : bcomp := [:: (cex_elem, BinNums.Zpos BinNums.xH)].

Lemma cex_ok : bcomp_ok cex = true. Proof. by vm_compute. Qed.

Lemma cex_Geff0 : (Geff R cex)`_0 = 0.
Proof.
rewrite /Geff big_seq1 /cnt /= expr1 /npoly coefZ.
have -> : (qpoly R cex_elem false)`_0 = 0; last by rewrite mulr0.
rewrite /qpoly.
have -> : coeffs NR cex_elem false = Some [:: 1 * (zR R BinNums.Z0 / zR R (BinInt.Z.pow 10 (BinInt.Z.of_nat 6)))] by [].
by rewrite coef_Poly /= /zR /= mul0r mulr0.
Qed.

Lemma brain_prob_false :
  ~ (forall (c : bcomp) (order_req : BinNums.Z) (base : R) o pv cv,
       bcomp_ok c = true ->
       brain_vectors NR c order_req base = Some (o, pv, cv) ->
       forall k, (k <= o)%N -> nth 0 pv k = base * (Geff R c)`_k).
Proof.
move=> H.
have [|o [pv [cv [Hbv _]]]] := @brain_defined cex (BinNums.Zneg BinNums.xH) 1 cex_ok; first by [].
have := H _ _ _ _ _ _ cex_ok Hbv 0%N (leq0n _).
rewrite (brain_pv0 cex_ok Hbv) cex_Geff0 mulr0 => /eqP.
by rewrite oner_eq0.
Qed.

(* ---- brain_center as stated is FALSE as well: a lightest isotope of mass 0 makes the mass-weighted polynomial's
        constant term 0, so npoly _ true = 0 and Heff loses that element's term ---- *)
Lemma brain_cv0 c order_req base o pv cv : bcomp_ok c = true -> base != 0 ->
  brain_vectors NR c order_req base = Some (o, pv, cv) ->
  nth 0 cv 0 = \sum_(x <- c) zR R x.2 * micro NR (mam x.1).
Proof.
move=> cok b0.
case: (BinInt.Z.ltb_spec (resolve_order order_req (max_variants c)) 0) => [Hlt|o0].
  by rewrite brain_vectors_neg.
rewrite brain_vectorsE // => -[_ _ <-].
by apply: CVv_0 => //; apply: resolve_order_le.
Qed.

Definition Z1e6 : BinNums.Z := BinInt.Z.pow 10 (BinInt.Z.of_nat 6).
Definition cex2_elem : elem :=
  mkE String.EmptyString
      [:: (BinNums.Npos BinNums.xH, mkI BinNums.Z0 Z1e6 (BinNums.Npos BinNums.xH) BinNums.Z0)]
      (BinNums.Npos BinNums.xH) (BinNums.Zpos (BinNums.xI (BinNums.xO BinNums.xH))) (BinNums.Npos BinNums.xH) BinNums.Z0 BinNums.Z0.
Definition cex2 : bcomp := [:: (cex2_elem, BinNums.Zpos BinNums.xH)].

Lemma cex2_ok : bcomp_ok cex2 = true. Proof. by vm_compute. Qed.

Lemma zR1e6_neq0 : zR R Z1e6 != 0.
Proof. by rewrite /zR intr_eq0 /Z1e6; lia. Qed.

Lemma cex2_Geff0 : (Geff R cex2)`_0 = 1.
Proof.
rewrite /Geff big_seq1 /cnt /= expr1; apply: npoly_coef0.
rewrite /qpoly.
have -> : coeffs NR cex2_elem false = Some [:: 1 * (zR R Z1e6 / zR R Z1e6)] by [].
by rewrite coef_Poly /= mul1r divff ?oner_eq0 // zR1e6_neq0.
Qed.

Lemma cex2_Heff0 : (Heff R cex2)`_0 = 0.
Proof.
rewrite /Heff coef_sum [size cex2]/= big_ord1 coefZ /Geff_mass [size cex2]/= big_ord1 /= coef0_mul.
have -> : (npoly R cex2_elem true)`_0 = 0; last by rewrite mul0r mulr0.
rewrite /npoly coefZ.
have -> : (qpoly R cex2_elem true)`_0 = 0; last by rewrite mulr0.
rewrite /qpoly.
have -> : coeffs NR cex2_elem true
          = Some [:: (zR R BinNums.Z0 / zR R Z1e6) * (zR R Z1e6 / zR R Z1e6)] by [].
by rewrite coef_Poly /= /zR /= !mul0r.
Qed.

Lemma brain_center_false :
  ~ (forall (c : bcomp) (order_req : BinNums.Z) (base : R) o pv cv,
       bcomp_ok c = true -> base != 0 ->
       brain_vectors NR c order_req base = Some (o, pv, cv) ->
       forall k, (k <= o)%N -> (Geff R c)`_k != 0 -> nth 0 cv k = (Heff R c)`_k / (Geff R c)`_k).
Proof.
move=> H.
have [|o [pv [cv [Hbv _]]]] := @brain_defined cex2 (BinNums.Zneg BinNums.xH) 1 cex2_ok; first by [].
have := H _ _ _ _ _ _ cex2_ok (oner_neq0 _) Hbv 0%N (leq0n _).
rewrite cex2_Geff0 cex2_Heff0 (brain_cv0 cex2_ok (oner_neq0 _) Hbv) mul0r big_seq1 /= => /(_ (oner_neq0 _)) /eqP.
rewrite !mulf_eq0 invr_eq0 /zR !intr_eq0 -/(BinInt.Z.pow 10 6) /=.
by lia.
Qed.
(* ---- the Z-level side condition of Properties/C03.v implies the non-zero constant terms ---- *)
Definition tailv (wm : bool) (i : iso) : R :=
  mul NR (if wm then micro NR (mass i) else one NR) (micro NR (ab i)).
Definition tail_inv (wm : bool) (acc : seq R) (lst : option iso) : Prop :=
  match lst with None => acc = [::] | Some i => (0 < size acc)%N /\ last 0 acc = tailv wm i end.

Lemma coeffs_loop_tail e wm l acc lst r :
  coeffs_loop NR e wm l acc = Some r -> tail_inv wm acc lst -> tail_inv wm r (tail_loop e l lst).
Proof.
elim: l acc lst => [|i l IH] acc lst /=; first by case=> <-.
case: BinInt.Z.ltb => //; case: assoc_get => [iso|]; last exact: IH.
case: BinInt.Z.ltb => //; case: Nat.compare => // /IH H _; apply: H; rewrite /tail_inv !stdE.
  by rewrite size_cat last_cat /= addn1.
by rewrite !size_cat !last_cat /= addn1 addnS.
Qed.

Lemma zR_pos_neq0 z : BinInt.Z.lt BinNums.Z0 z -> zR R z != 0.
Proof. by move=> z0; rewrite /zR intr_eq0; lia. Qed.

Lemma micro_pos_neq0 z : BinInt.Z.lt BinNums.Z0 z -> micro NR z != 0.
Proof.
by move=> z0; rewrite /micro /= mulf_neq0 ?invr_eq0 ?zR_pos_neq0.
Qed.

Lemma elem_tail_pos_nz e : elem_tail_pos e = true -> brain_elem_ok e = true ->
  (qpoly R e false)`_0 != 0 /\ (qpoly R e true)`_0 != 0.
Proof.
rewrite /elem_tail_pos => Ht /brain_elem_okP[ca [cb [Ha Hb _ _ _]]].
case Et : tail_loop Ht => [i|//] /andP[/BinInt.Z.ltb_lt ab0 /BinInt.Z.ltb_lt ms0].
have Hq wm cc : coeffs NR e wm = Some cc -> (qpoly R e wm)`_0 = tailv wm i.
  move=> Hc; have := @coeffs_loop_tail e wm _ [::] None cc Hc erefl.
  rewrite Et /qpoly Hc coef_Poly => -[sz <-].
  by rewrite nth_rev // subn1 nth_last.
rewrite (Hq _ _ Ha) (Hq _ _ Hb) /tailv !numE mul1r.
by split; [exact: micro_pos_neq0 | apply: mulf_neq0; exact: micro_pos_neq0].
Qed.

Lemma bcomp_pos_nz (c : bcomp) : bcomp_ok c = true -> bcomp_pos c = true ->
  forall x, List.In x c -> (qpoly R x.1 false)`_0 != 0 /\ (qpoly R x.1 true)`_0 != 0.
Proof.
move=> /andP[/List.forallb_forall Hok _] /List.forallb_forall Hpos x Hx.
by apply: elem_tail_pos_nz; [apply: Hpos | have /andP[] := Hok x Hx].
Qed.

Lemma brain_prob : forall (c : bcomp) (order_req : BinNums.Z) (base : R) o pv cv,
  bcomp_ok c = true -> bcomp_pos c = true ->
  brain_vectors NR c order_req base = Some (o, pv, cv) ->
  forall k, (k <= o)%N -> nth 0 pv k = base * (Geff R c)`_k.
Proof.
move=> c order_req base o pv cv cok cpos; apply: brain_prob_nz => // x Hx.
by have [] := bcomp_pos_nz cok cpos Hx.
Qed.

Lemma brain_center : forall (c : bcomp) (order_req : BinNums.Z) (base : R) o pv cv,
  bcomp_ok c = true -> bcomp_pos c = true -> base != 0 ->
  brain_vectors NR c order_req base = Some (o, pv, cv) ->
  forall k, (k <= o)%N -> (Geff R c)`_k != 0 -> nth 0 cv k = (Heff R c)`_k / (Geff R c)`_k.
Proof.
move=> c order_req base o pv cv cok cpos b0; apply: brain_center_nz => // x Hx;
by have [] := bcomp_pos_nz cok cpos Hx.
Qed.
End Alg.
