(* C09 (continued): the centre-mass ladder.  'X * p^`() (coefficient k = k * p_k) is a derivation, so when every
   element's mass-weighted polynomial M_e satisfies, coefficient by coefficient,
       lo * ('X * P_e^`())  <=  M_e - m0_e * P_e  <=  hi * ('X * P_e^`())
   (each isotope d neutrons above the lightest one is between lo*d and hi*d heavier), the product rule gives
       (sum n_e m0_e) * G + lo * ('X * G^`())  <=  H  <=  (sum n_e m0_e) * G + hi * ('X * G^`()),
   i.e. the centre mass of variant k lies in [M0 + k*lo, M0 + k*hi]. *)
From mathcomp Require Import all_ssreflect all_algebra.
From mathcomp Require Import ring zify ssrZ.
From CE Require Import Num TableTypes TableModel Brain BrainSpec BrainLadderSpec NumMC BrainAlgSpec BrainAlgebra BrainBounds.
Set Implicit Arguments. Unset Strict Implicit. Unset Printing Implicit Defensive.
Import Order.POrderTheory GRing.Theory Num.Theory.
Local Open Scope ring_scope.

Section Ladder.
Variable R : realFieldType.
Notation NR := (NumR R).
Implicit Types (p q A B : {poly R}).

(* ---------------------------------------------------------------------------------------------- *)
(* the derivation 'X * p^`()                                                                        *)
(* ---------------------------------------------------------------------------------------------- *)
Lemma coef_XD p k : ('X * p^`())`_k = k%:R * p`_k.
Proof. by case: k => [|k]; rewrite coefXM /= ?mul0r // coef_deriv mulr_natl. Qed.

Lemma deriv_prod_seq (I : eqType) (r : seq I) (F : I -> {poly R}) : uniq r ->
  (\prod_(i <- r) F i)^`() = \sum_(i <- r) (F i)^`() * \prod_(j <- r | j != i) F j.
Proof.
elim: r => [|a r IH] /=; first by rewrite !big_nil -polyC1 derivC.
move=> /andP[nar ur]; rewrite !big_cons derivM IH // eqxx /=; congr (_ + _).
  congr (_ * _); rewrite big_seq_cond [RHS]big_seq_cond; apply: eq_bigl => j.
  by rewrite andbT; case jr: (j \in r) => //=; apply/esym; apply: contraNneq nar => <-.
rewrite big_distrr /= big_seq_cond [RHS]big_seq_cond; apply: eq_bigr => i; rewrite andbT => ir.
have ai : a != i by apply: contraNneq nar => ->.
by rewrite big_cons ai mulrCA.
Qed.

Lemma XD_Geff (c : bcomp) :
  'X * (Geff R c)^`()
  = \sum_(i < size c) (('X * (npoly R (nth en0 c i).1 false)^`()) * rest R c i) *+ cnt (nth en0 c i).
Proof.
rewrite /Geff (big_seq_ord _ en0) deriv_prod_seq ?index_enum_uniq // big_distrr /=; apply: eq_bigr => i _.
rewrite deriv_exp /rest (eq_bigl (fun j : 'I_(size c) => (j : nat) != i)); last by move=> j; rewrite -val_eqE.
by rewrite !mulrnAl mulrnAr !mulrA.
Qed.

(* ---------------------------------------------------------------------------------------------- *)
(* a composition                                                                                    *)
(* ---------------------------------------------------------------------------------------------- *)
Lemma ladder_term (n m0 l a t x : R) : 0 <= n -> l * x <= m0 * t - m0 * a -> n * m0 * a + l * (n * x) <= n * m0 * t.
Proof.
move=> n0 H; rewrite -subr_ge0.
have -> : n * m0 * t - (n * m0 * a + l * (n * x)) = n * (m0 * t - m0 * a - l * x) by ring.
by rewrite mulr_ge0 // subr_ge0.
Qed.

Lemma ladder_term_hi (n m0 h a t x : R) : 0 <= n -> m0 * t - m0 * a <= h * x -> n * m0 * t <= n * m0 * a + h * (n * x).
Proof.
move=> n0 H; rewrite -subr_ge0.
have -> : n * m0 * a + h * (n * x) - n * m0 * t = n * (h * x - (m0 * t - m0 * a)) by ring.
by rewrite mulr_ge0 // subr_ge0.
Qed.

Lemma center_ladder : forall (c : bcomp) (lo hi : R),
  (forall en, List.In en c ->
      cle 0 (npoly R en.1 false)
      /\ cle (lo *: ('X * (npoly R en.1 false)^`()))
             (micro NR (mam en.1) *: npoly R en.1 true - micro NR (mam en.1) *: npoly R en.1 false)
      /\ cle (micro NR (mam en.1) *: npoly R en.1 true - micro NR (mam en.1) *: npoly R en.1 false)
             (hi *: ('X * (npoly R en.1 false)^`()))) ->
  (forall en, List.In en c -> (0 < cnt en)%N) ->
  cle ((\sum_(en <- c) (cnt en)%:R * micro NR (mam en.1)) *: Geff R c + lo *: ('X * (Geff R c)^`())) (Heff R c)
  /\ cle (Heff R c) ((\sum_(en <- c) (cnt en)%:R * micro NR (mam en.1)) *: Geff R c + hi *: ('X * (Geff R c)^`())).
Proof.
move=> c lo hi /In_nth_hyp H /In_nth_hyp Hn.
have A_nn i : (i < size c)%N -> cnn (npoly R (nth en0 c i).1 false).
  by move=> il; apply/cle0; have [] := H i il.
have Hr i : (i < size c)%N -> cnn (rest R c i) by apply: rest_nn.
split=> k; rewrite coefD !coefZ XD_Geff /Heff !coef_sum (big_seq_ord _ en0) mulr_suml mulr_sumr -big_split;
  apply: ler_sum => i _; cbv beta.
- have il := ltn_ord i; have [_ [Hlo _]] := H i il.
  rewrite coefZ coefMn -[_`_k *+ _]mulr_natl (Geff_mass_rest R il) (Geff_rest R il (Hn i il)); apply: ladder_term; first exact: ler0n.
  by have := cle_mulr (Hr i il) Hlo k; rewrite mulrBl coefB -!scalerAl !coefZ.
- have il := ltn_ord i; have [_ [_ Hhi]] := H i il.
  rewrite coefZ coefMn -[_`_k *+ _]mulr_natl (Geff_mass_rest R il) (Geff_rest R il (Hn i il)); apply: ladder_term_hi; first exact: ler0n.
  by have := cle_mulr (Hr i il) Hhi k; rewrite mulrBl coefB -!scalerAl !coefZ.
Qed.

Lemma center_ladder_between : forall (c : bcomp) (lo hi : R) k,
  (forall en, List.In en c ->
      cle 0 (npoly R en.1 false)
      /\ cle (lo *: ('X * (npoly R en.1 false)^`()))
             (micro NR (mam en.1) *: npoly R en.1 true - micro NR (mam en.1) *: npoly R en.1 false)
      /\ cle (micro NR (mam en.1) *: npoly R en.1 true - micro NR (mam en.1) *: npoly R en.1 false)
             (hi *: ('X * (npoly R en.1 false)^`()))) ->
  (forall en, List.In en c -> (0 < cnt en)%N) ->
  0 < (Geff R c)`_k ->
  (\sum_(en <- c) (cnt en)%:R * micro NR (mam en.1)) + k%:R * lo <= (Heff R c)`_k / (Geff R c)`_k
     <= (\sum_(en <- c) (cnt en)%:R * micro NR (mam en.1)) + k%:R * hi.
Proof.
move=> c lo hi k H Hn G0; have [Hlo Hhi] := center_ladder H Hn.
rewrite ler_pdivl_mulr // ler_pdivr_mulr //; move: (Hlo k) (Hhi k); rewrite !coefD !coefZ !coef_XD.
move: (\sum_(en <- c) _) (Geff R c)`_k (Heff R c)`_k => M0 g h {Hlo Hhi G0} L1 L2.
have -> : (M0 + k%:R * lo) * g = M0 * g + lo * (k%:R * g) by ring.
have -> : (M0 + k%:R * hi) * g = M0 * g + hi * (k%:R * g) by ring.
by rewrite L1 L2.
Qed.

Lemma center_strict : forall (c : bcomp) (lo hi : R) j k,
  (forall en, List.In en c ->
      cle 0 (npoly R en.1 false)
      /\ cle (lo *: ('X * (npoly R en.1 false)^`()))
             (micro NR (mam en.1) *: npoly R en.1 true - micro NR (mam en.1) *: npoly R en.1 false)
      /\ cle (micro NR (mam en.1) *: npoly R en.1 true - micro NR (mam en.1) *: npoly R en.1 false)
             (hi *: ('X * (npoly R en.1 false)^`()))) ->
  (forall en, List.In en c -> (0 < cnt en)%N) ->
  j%:R * hi < k%:R * lo ->
  0 < (Geff R c)`_j -> 0 < (Geff R c)`_k ->
  (Heff R c)`_j / (Geff R c)`_j < (Heff R c)`_k / (Geff R c)`_k.
Proof.
move=> c lo hi j k H Hn jk Gj Gk.
have /andP[_ Hj] := center_ladder_between H Hn Gj; have /andP[Hk _] := center_ladder_between H Hn Gk.
by apply: le_lt_trans Hj (lt_le_trans _ Hk); rewrite ltr_add2l.
Qed.

(* ---------------------------------------------------------------------------------------------- *)
(* one element                                                                                      *)
(* ---------------------------------------------------------------------------------------------- *)
Lemma micro_incr_lo (lo a b : BinNums.Z) (k : nat) :
  BinInt.Z.le (BinInt.Z.mul lo (BinInt.Z.of_nat k)) (BinInt.Z.sub a b) -> micro NR lo * k%:R <= micro NR a - micro NR b.
Proof.
move=> H; rewrite /micro /= -mulrBl mulrAC ler_pmul2r ?invr_gt0 ?zR1e6_gt0 //.
by rewrite -zR_of_nat /zR -intrM -mulrzBr ler_int; lia.
Qed.

Lemma micro_incr_hi (hi a b : BinNums.Z) (k : nat) :
  BinInt.Z.le (BinInt.Z.sub a b) (BinInt.Z.mul hi (BinInt.Z.of_nat k)) -> micro NR a - micro NR b <= micro NR hi * k%:R.
Proof.
move=> H; rewrite /micro /= -mulrBl [X in _ <= X]mulrAC ler_pmul2r ?invr_gt0 ?zR1e6_gt0 //.
by rewrite -zR_of_nat /zR -intrM -mulrzBr ler_int; lia.
Qed.

(* BRAIN's coefficient loop puts isotope i at index  max_shift - shift i  of the (heaviest-first) vector *)
Section JointPos.
Variable e : elem.
Variable Q : iso -> Prop.
Definition pos (i : iso) : nat := BinInt.Z.to_nat (BinInt.Z.sub (max_shift e) (shift i)).
Definition goodp (j : nat) (x y : R) : Prop :=
  (x = 0 /\ y = 0)
  \/ exists i, [/\ Q i, BinInt.Z.le BinNums.Z0 (BinInt.Z.sub (max_shift e) (shift i)), pos i = j,
                   x = tailv R false i & y = tailv R true i].
Definition Invp (a a' : seq R) : Prop := size a = size a' /\ forall j, goodp j a`_j a'`_j.

Lemma Invp_nil : Invp [::] [::].
Proof. by split=> // j; left; rewrite nth_nil. Qed.

Lemma Invp_snoc a a' m i : Invp a a' -> Q i ->
  BinInt.Z.le BinNums.Z0 (BinInt.Z.sub (max_shift e) (shift i)) -> pos i = (size a + m)%N ->
  Invp (a ++ nseq m 0 ++ [:: tailv R false i]) (a' ++ nseq m 0 ++ [:: tailv R true i]).
Proof.
move=> [sz H] Qi i0 pi; split; first by rewrite !size_cat sz.
move=> j; rewrite !nth_cat -sz; case: ltnP => [_|Hj]; first exact: H.
rewrite !size_nseq; case: ltnP => [_|Hm]; first by left; rewrite !nth_nseq !if_same.
case E: (j - size a - m)%N => [|n] /=; last by left; rewrite !nth_nil.
by right; exists i; split=> //; rewrite pi; move: (size a) Hj Hm E => n; lia.
Qed.

Lemma coeffs_loop_jointp l acc acc' r r' :
  coeffs_loop NR e false l acc = Some r -> coeffs_loop NR e true l acc' = Some r' ->
  (forall i, List.In i (found_loop e l) -> Q i) -> Invp acc acc' -> Invp r r'.
Proof.
elim: l acc acc' => [|i l IH] acc acc' /=; first by move=> [<-] [<-].
case: BinInt.Z.ltb => //; case: assoc_get => [iso|]; last exact: IH.
case: BinInt.Z.ltb_spec => // c0; rewrite !lengthE => H1 H2 HQ HI.
have sz := HI.1; rewrite -sz in H2; move: H1 H2.
have Qi : Q iso by apply: HQ; left.
have HQ' j : List.In j (found_loop e l) -> Q j by move=> Hj; apply: HQ; right.
case E: Nat.compare => // H1 H2; apply: (IH _ _ H1 H2 HQ'); rewrite !stdE.
  by move/PeanoNat.Nat.compare_eq: E => E; apply: (@Invp_snoc _ _ 0%N) => //; rewrite addn0.
move/PeanoNat.Nat.compare_gt_iff: E => E; apply: Invp_snoc => //.
by rewrite /pos; lia.
Qed.

Definition tailp (acc : seq R) (lst : option iso) : Prop :=
  match lst with
  | None => acc = [::]
  | Some t => size acc = (pos t).+1 /\ BinInt.Z.le BinNums.Z0 (BinInt.Z.sub (max_shift e) (shift t))
  end.

Lemma coeffs_loop_tailp wm l acc lst r :
  coeffs_loop NR e wm l acc = Some r -> tailp acc lst -> tailp r (tail_loop e l lst).
Proof.
elim: l acc lst => [|i l IH] acc lst /=; first by case=> <-.
case: BinInt.Z.ltb => //; case: assoc_get => [iso|]; last exact: IH.
case: BinInt.Z.ltb_spec => // c0; rewrite !lengthE.
case E: Nat.compare => // /IH H _; apply: H; rewrite /tailp !stdE; split=> //.
  by move/PeanoNat.Nat.compare_eq: E => E; rewrite size_cat /= addn1 /pos -E.
move/PeanoNat.Nat.compare_gt_iff: E => E.
by rewrite !size_cat size_nseq /= /pos; lia.
Qed.
End JointPos.

Lemma element_ladder : forall e (lo hi : BinNums.Z),
  brain_elem_ok e = true -> elem_tail_pos e = true -> elem_mass_sane e = true -> elem_incr_ok e lo hi = true ->
  cle 0 (npoly R e false)
  /\ cle (micro NR lo *: ('X * (npoly R e false)^`()))
         (micro NR (mam e) *: npoly R e true - micro NR (mam e) *: npoly R e false)
  /\ cle (micro NR (mam e) *: npoly R e true - micro NR (mam e) *: npoly R e false)
         (micro NR hi *: ('X * (npoly R e false)^`())).
Proof.
move=> e lo hi Hok Htp /andP[/List.forallb_forall Hall Hmam] Hinc.
have [ca [cb [Ha Hb _ _ _]]] := @brain_elem_okP R e Hok.
move: Htp Hmam Hinc; rewrite /elem_tail_pos /elem_incr_ok.
case Et : tail_loop => [t|//] /andP[/BinInt.Z.ltb_lt at0 /BinInt.Z.ltb_lt mt0] /BinInt.Z.eqb_eq mtE
  /List.forallb_forall Hinc.
pose Q (i : iso) :=
  [/\ BinInt.Z.lt BinNums.Z0 (ab i),
      BinInt.Z.le (BinInt.Z.mul lo (BinInt.Z.sub (shift i) (shift t))) (BinInt.Z.sub (mass i) (mass t))
    & BinInt.Z.le (BinInt.Z.sub (mass i) (mass t)) (BinInt.Z.mul hi (BinInt.Z.sub (shift i) (shift t)))].
have HQ i : List.In i (found_isos e) -> Q i.
  move=> Hi; have /andP[/BinInt.Z.ltb_lt ai0 _] := Hall i Hi.
  have /andP[/andP[/BinInt.Z.eqb_eq <- /BinInt.Z.leb_le L1] /BinInt.Z.leb_le L2] := Hinc i Hi.
  by split.
have HI : Invp e Q ca cb by apply: (coeffs_loop_jointp Ha Hb HQ); apply: Invp_nil.
have [szt t0] : tailp e ca (Some t).
  by have := @coeffs_loop_tailp e false _ [::] None ca Ha erefl; rewrite Et.
have Hq wm cc : coeffs NR e wm = Some cc -> (qpoly R e wm)`_0 = tailv R wm t.
  move=> Hc; have := @coeffs_loop_tail R e wm _ [::] None cc Hc erefl.
  rewrite Et /qpoly Hc coef_Poly => -[sz <-].
  by rewrite nth_rev // subn1 nth_last.
have Hk k : ((qpoly R e false)`_k = 0 /\ (qpoly R e true)`_k = 0)
   \/ exists i, [/\ Q i, BinInt.Z.of_nat k = BinInt.Z.sub (shift i) (shift t),
                    (qpoly R e false)`_k = tailv R false i & (qpoly R e true)`_k = tailv R true i].
  rewrite /qpoly Ha Hb !coef_Poly; have [sz Hj] := HI.
  case: (ltnP k (size ca)) => Hlt; last by left; rewrite !nth_default // size_rev -?sz.
  rewrite !nth_rev -?sz //.
  case: (Hj (size ca - k.+1)%N) => [|[i [Qi i0 pi -> ->]]]; first by left.
  by right; exists i; split=> //; move: pi szt Hlt; rewrite /pos; lia.
have at_gt0 := micro_gt0 R at0; have mt_gt0 := micro_gt0 R mt0.
have X k : exists2 w, 0 <= w & (npoly R e false)`_k = w /\
   exists dm, [/\ micro NR lo * k%:R * w <= dm * w, dm * w <= micro NR hi * k%:R * w
                & micro NR (mam e) * (npoly R e true)`_k - micro NR (mam e) * w = dm * w].
  rewrite /npoly !coefZ (Hq _ _ Ha) (Hq _ _ Hb) -mtE /tailv !numE mul1r.
  case: (Hk k) => [[-> ->]|[i [[ai0 L1 L2] kE -> ->]]].
    by exists 0; rewrite ?mulr0 //; split=> //; exists 0; rewrite !mulr0 subrr.
  rewrite /tailv !numE mul1r; have ai_gt0 := micro_gt0 R ai0.
  have w0 : 0 <= (micro NR (ab t))^-1 * micro NR (ab i) by rewrite mulr_ge0 ?invr_ge0 ?ltW.
  exists ((micro NR (ab t))^-1 * micro NR (ab i)) => //.
  split=> //; exists (micro NR (mass i) - micro NR (mass t)); split.
  - by rewrite ler_wpmul2r //; apply: micro_incr_lo; rewrite kE.
  - by rewrite ler_wpmul2r //; apply: micro_incr_hi; rewrite kE.
  - move: (micro NR (mass t)) (micro NR (ab t)) (micro NR (mass i)) (micro NR (ab i)) mt_gt0 at_gt0 => a b c d a0 b0.
    by field; rewrite !gt_eqF.
move: (npoly R e false) (npoly R e true) X => P T X.
by split; [|split] => k; have [w w0 [E [dm [L1 L2 E2]]]] := X k;
  rewrite ?coef0 ?coefB ?coefZ ?coef_XD ?E ?E2 // mulrA.
Qed.
(* the strict-order premise, decided in integers (micro-units) *)
Lemma ladder_gap (lo hi : BinNums.Z) (j k : nat) :
  BinInt.Z.lt (BinInt.Z.mul (BinInt.Z.of_nat j) hi) (BinInt.Z.mul (BinInt.Z.of_nat k) lo) ->
  j%:R * micro NR hi < k%:R * micro NR lo.
Proof.
move=> H; rewrite /micro /= !mulrA ltr_pmul2r ?invr_gt0 ?zR1e6_gt0 //.
by rewrite -!zR_of_nat /zR -!intrM ltr_int; lia.
Qed.
End Ladder.
