(* The MathComp instance of [Num]: any realFieldType (exact arithmetic, Leibniz equality). *)
From mathcomp Require Import all_ssreflect all_algebra.
From mathcomp Require Import ssrZ.
From CE Require Import Num.
Set Implicit Arguments. Unset Strict Implicit. Unset Printing Implicit Defensive.
Import GRing.Theory Num.Theory.
Local Open Scope ring_scope.

Section NumMC.
  Variable R : realFieldType.
  Definition zR (z : BinNums.Z) : R := (int_of_Z z)%:~R.
  Definition NumR : Num R :=
    mkNum R 0 1 0 (fun a b => a + b) (fun a b => a - b) (fun a b => a * b) (fun a b => a / b)
          (fun a => - a) (fun a => `|a|) (fun a b c => a * b + c)
          zR (fun n k => zR n / zR (BinInt.Z.pow 10 (BinInt.Z.of_nat k)))
          (fun a b => a < b) (fun a b => a <= b) (fun a b => a == b) (fun _ => true) (fun _ => false).
End NumMC.
