(* Strings as lists of Unicode code points; UTF-8 byte offsets; the std functions the parsers use.
   char::is_numeric / is_alphabetic on non-ASCII code points are oracles (section variables):
   every theorem holds for any behaviour of them. *)
From Coq Require Import List ZArith NArith Bool Arith String Ascii.
Import ListNotations.

Definition char := N.
Definition str := list char.

Definition width (c : char) : nat :=
  if (c <? 128)%N then 1 else if (c <? 2048)%N then 2 else if (c <? 65536)%N then 3 else 4.
Fixpoint blen (s : str) : nat := match s with [] => 0 | c :: t => width c + blen t end.

(* &s[a..b]: None (= panic) unless a <= b <= len and both are character boundaries *)
Fixpoint drop_bytes (s : str) (a : nat) {struct s} : option str :=
  match a with
  | 0 => Some s
  | _ => match s with
         | [] => None
         | c :: t => if width c <=? a then drop_bytes t (a - width c) else None
         end
  end.
Fixpoint take_bytes (s : str) (a : nat) {struct s} : option str :=
  match a with
  | 0 => Some []
  | _ => match s with
         | [] => None
         | c :: t => if width c <=? a then option_map (cons c) (take_bytes t (a - width c)) else None
         end
  end.
Definition slice (s : str) (a b : nat) : option str :=
  if a <=? b then match drop_bytes s a with Some r => take_bytes r (b - a) | None => None end else None.

(* char_indices *)
Fixpoint indices (s : str) (i : nat) : list (nat * char) :=
  match s with [] => [] | c :: t => (i, c) :: indices t (i + width c) end.

Definition is_upper (c : char) := ((65 <=? c) && (c <=? 90))%N.
Definition is_lower (c : char) := ((97 <=? c) && (c <=? 122))%N.
Definition is_alpha (c : char) := is_upper c || is_lower c.          (* is_ascii_alphabetic *)
Definition is_digit (c : char) := ((48 <=? c) && (c <=? 57))%N.       (* is_ascii_digit *)
Definition LP : char := 40%N. Definition RP : char := 41%N.
Definition LB : char := 91%N. Definition RB : char := 93%N.

Definition str_eqb (a b : str) : bool := if list_eq_dec N.eq_dec a b then true else false.

(* str::parse::<u16/i32> on a digit string: non-empty, ASCII digits only, value within the bound.
   (A leading sign is never offered: every caller passes text made of `is_numeric` characters.) *)
Fixpoint digits_val (s : str) (acc : N) : option N :=
  match s with
  | [] => Some acc
  | c :: t => if is_digit c then digits_val t (acc * 10 + (c - 48))%N else None
  end.
Definition parse_uint (bound : N) (s : str) : option N :=
  match s with
  | [] => None
  | _ => match digits_val s 0 with Some v => if (v <=? bound)%N then Some v else None | None => None end
  end.
Definition parse_i32 := parse_uint 2147483647.
Definition parse_u16 := parse_uint 65535.

(* i32::to_string / u16::to_string for non-negative values, and with a sign *)
Fixpoint digits_of_fuel (fuel : nat) (n : N) (acc : str) : str :=
  match fuel with
  | O => acc
  | S f => let d := (48 + n mod 10)%N in
           if (n <? 10)%N then d :: acc else digits_of_fuel f (n / 10)%N (d :: acc)
  end.
Definition show_N (n : N) : str := digits_of_fuel (S (N.to_nat (N.log2 n))) n [].
Definition show_Z (z : Z) : str := if (z <? 0)%Z then 45%N :: show_N (Z.to_N (- z)) else show_N (Z.to_N z).

(* Coq strings (the table's symbols, ASCII) as code-point lists *)
Fixpoint codes (s : string) : str :=
  match s with EmptyString => [] | String a r => N_of_ascii a :: codes r end.
