(* isotopic_pattern/baffling.rs (BRAIN), transcribed operation by operation over an arbitrary [Num]:
   Viete, Newton-Girard in both directions, the per-element constants, the probability and centre-mass
   vectors, normalisation / 1e-10 rule / charge / stable sort, request resolution, and the generator's
   constants cache.  `None` stands for a Rust panic.  No proofs in this file. *)
From Coq Require Import List ZArith NArith Bool Arith String.
From CE Require Import Num Str TableTypes TableModel Comp Mz Peak Poisson.
Import ListNotations.

Section Brain.
Context {F : Type} (N : Num F).

Definition neg1 : F := opp N (one N).                       (* the literal -1.0 *)
Definition sgn (plus : bool) : F := if plus then one N else neg1.
Definition nthF (l : list F) (i : nat) : F := nth i l (zero N).
Definition micro (z : Z) : F := of_dec N z 6.

(* ---- per-element polynomial coefficients (isotopic_coefficients) ---- *)
(* z runs over min..=max; i = z - min; k = n + element_number - i - 1 (usize arithmetic: underflow panics) *)
Fixpoint coeffs_loop (e : elem) (with_mass : bool) (is_ : list nat) (acc : list F) : option (list F) :=
  match is_ with
  | [] => Some acc
  | i :: rest =>
      let kz := (Z.of_nat (List.length (isos e)) + Z.of_N (number e) - Z.of_nat i - 1)%Z in
      if (kz <? 0)%Z then None else
      match assoc_get (Z.to_N kz) (isos e) with
      | None => coeffs_loop e with_mass rest acc
      | Some iso =>
          let cur := (max_shift e - TableModel.shift iso)%Z in
          if (cur <? 0)%Z then None else
          let cur := Z.to_nat cur in
          let coef := if with_mass then micro (TableModel.mass iso) else one N in
          let v := mul N coef (micro (TableModel.ab iso)) in
          match Nat.compare cur (List.length acc) with
          | Gt => coeffs_loop e with_mass rest (acc ++ repeat (zero N) (cur - List.length acc) ++ [v])
          | Eq => coeffs_loop e with_mass rest (acc ++ [v])
          | Lt => None                                    (* "Unordered isotopes" *)
          end
      end
  end.
Definition coeffs (e : elem) (wm : bool) : option (list F) :=
  coeffs_loop e wm (seq 0 (Z.to_nat (max_shift e - min_shift e + 1))) [].

(* vietes: esp[i] = (sign * c[n-i-1]) / c[n-1] *)
Definition vietes (c : list F) : list F :=
  let n := List.length c in let tail := nthF c (n - 1) in
  map (fun i => div N (mul N (sgn (Nat.even i)) (nthF c (n - i - 1))) tail) (seq 0 n).

(* update_power_sum: one new entry *)
Definition ps_next (esp ps : list F) (k : nat) : F :=
  match k with
  | O => zero N
  | _ =>
      let '(tmp, sign) :=
        fold_left (fun ts j => let '(t, s) := ts in
                     let s' := mul N s neg1 in
                     (add N t (mul N (mul N s' (nthF esp j)) (nthF ps (k - j))), s'))
                  (seq 1 (k - 1)) (zero N, neg1) in
      let sign := mul N sign neg1 in
      add N tmp (mul N (mul N sign (nthF esp k)) (of_Z N (Z.of_nat k)))
  end.
Fixpoint extend_ps (fuel : nat) (esp ps : list F) : list F :=
  match fuel with
  | O => ps
  | S f => if Nat.ltb (List.length ps) (List.length esp)
           then extend_ps f esp (ps ++ [ps_next esp ps (List.length ps)]) else ps
  end.
Definition update_ps (esp ps : list F) : list F := extend_ps (List.length esp) esp ps.

(* update_elementary_symmetric_polynomial(order): one new entry; the inner sum is Iterator::sum *)
Definition esp_next (order : Z) (ps esp : list F) (k : nat) : F :=
  match k with
  | O => one N
  | _ => if (order <? Z.of_nat k)%Z then zero N else
         div N (fsum N (map (fun j => mul N (mul N (sgn (Nat.odd j)) (nthF ps j)) (nthF esp (k - j))) (seq 1 k)))
               (of_Z N (Z.of_nat k))
  end.
Fixpoint extend_esp (fuel : nat) (order : Z) (ps esp : list F) : list F :=
  match fuel with
  | O => esp
  | S f => if Nat.ltb (List.length esp) (List.length ps)
           then extend_esp f order ps (esp ++ [esp_next order ps esp (List.length esp)]) else esp
  end.
Definition update_esp (order : Z) (ps esp : list F) : list F := extend_esp (List.length ps) order ps esp.

Record params := mkParams { p_esp : list F; p_ps : list F }.
Definition newton (order : Z) (p : params) : params :=
  match Nat.compare (List.length (p_ps p)) (List.length (p_esp p)) with
  | Lt => mkParams (p_esp p) (update_ps (p_esp p) (p_ps p))
  | Eq => p
  | Gt => mkParams (update_esp order (p_ps p) (p_esp p)) (p_ps p)
  end.

Definition params_from_element (e : elem) (wm : bool) : option params :=
  match coeffs e wm with
  | None => None
  | Some acc => match acc with
                | [] => None                              (* coefficients[n - 1] with n = 0 *)
                | _ => Some (newton (Z.of_nat (List.length acc) - 1) (mkParams (vietes acc) []))
                end
  end.

(* PhiConstants *)
Record phi := mkPhi { ph_order : Z; ph_sym : string; ph_el : params; ph_mass : params }.
Definition phi_from_element (e : elem) : option phi :=
  match params_from_element e false, params_from_element e true with
  | Some a, Some b => Some (mkPhi (max_shift e) (sym e) a b)
  | _, _ => None
  end.

(* IsotopicConstants::update, for one element *)
Definition push_zeros (n : nat) (p : params) : params := mkParams (p_esp p ++ repeat (zero N) n) (p_ps p).
Definition phi_update (order : Z) (c : phi) : phi :=
  if (order <? ph_order c)%Z then c else
  let n := Z.to_nat (order + 1 - ph_order c) in
  let a := push_zeros n (ph_el c) in
  let b := push_zeros n (ph_mass c) in
  let o := Z.of_nat (List.length (p_esp a)) in
  mkPhi o (ph_sym c) (newton o a) (newton o b).

Definition get_phi (cs : list phi) (s : string) : option phi := find (fun c => String.eqb (ph_sym c) s) cs.
Definition psum (cs : list phi) (s : string) (k : nat) : option F :=
  match get_phi cs s with
  | Some c => if Nat.ltb k (List.length (p_ps (ph_el c))) then Some (nthF (p_ps (ph_el c)) k) else None
  | None => None
  end.
Definition psum_mass (cs : list phi) (s : string) (k : nat) : option F :=
  match get_phi cs s with
  | Some c => if Nat.ltb k (List.length (p_ps (ph_mass c))) then Some (nthF (p_ps (ph_mass c)) k) else None
  | None => None
  end.

(* a composition as BRAIN sees it: (element, count) in iteration order *)
Definition bcomp := list (elem * Z).
Definition max_variants (c : bcomp) : Z := fold_left (fun a en => (a + max_shift (fst en) * snd en)%Z) c 0%Z.

Definition opt_add (a : option F) (b : option F) (f : F -> F -> F) : option F :=
  match a, b with Some x, Some y => Some (f x y) | _, _ => None end.

Definition phi_for (cs : list phi) (c : bcomp) (k : nat) : option F :=
  fold_left (fun a en => match a, psum cs (sym (fst en)) k with
                         | Some x, Some p => Some (add N x (mul N p (of_Z N (snd en))))
                         | _, _ => None end) c (Some (zero N)).
Definition phi_mass_for (cs : list phi) (c : bcomp) (el : elem) (k : nat) : option F :=
  match fold_left (fun a en =>
           let coef := if String.eqb (sym (fst en)) (sym el) && N.eqb (mai (fst en)) (mai el) then (snd en - 1)%Z else snd en in
           match a, psum cs (sym (fst en)) k with
           | Some x, Some p => Some (add N x (mul N p (of_Z N coef)))
           | _, _ => None end) c (Some (zero N)),
        psum_mass cs (sym el) k with
  | Some x, Some m => Some (add N x m)
  | _, _ => None
  end.

Fixpoint all_some {A} (l : list (option A)) : option (list A) :=
  match l with
  | [] => Some []
  | Some x :: r => match all_some r with Some t => Some (x :: t) | None => None end
  | None :: _ => None
  end.

(* probability_vector *)
Definition prob_vector (cs : list phi) (c : bcomp) (order : nat) (mv : Z) (base : F) : option (list F) :=
  match all_some (map (phi_for cs c) (seq 1 order)) with
  | None => None
  | Some phis =>
      let e := update_esp mv (zero N :: phis) [] in
      Some (map (fun ix => mul N (snd ix) (mul N base (sgn (Nat.even (fst ix))))) (combine (seq 0 (List.length e)) e))
  end.

(* build_polynomial_map + center_mass_vector *)
Definition center_vector (cs : list phi) (c : bcomp) (order : nat) (mv : Z) (base : F) (pv : list F) : option (list F) :=
  match all_some (map (fun en =>
           match all_some (map (phi_mass_for cs c (fst en)) (seq 1 order)) with
           | Some pm => Some (sym (fst en), update_esp mv (zero N :: pm) [])
           | None => None end) c) with
  | None => None
  | Some polys =>
      let get s := match find (fun sp => String.eqb (fst sp) s) polys with Some sp => snd sp | None => [] end in
      if Nat.ltb (List.length pv) (order + 1) then None else
      all_some (map (fun i =>
        let center := fold_left (fun a en =>
              let poly := get (sym (fst en)) in
              add N a (mul N (mul N (mul N (of_Z N (snd en)) (mul N (sgn (Nat.even i)) (nthF poly i))) base)
                             (micro (mam (fst en))))) c (zero N) in
        if forallb (fun en => Nat.ltb i (List.length (get (sym (fst en))))) c then
          Some (if eqb N (nthF pv i) (zero N) then zero N else div N center (nthF pv i))
        else None) (seq 0 (order + 1)))
  end.

(* the tail of IsotopicDistribution::isotopic_variants: normalise, the 1e-10 rule, charge, stable sort by m/z *)
Definition tiny10 : F := of_dec N 1 10.
Fixpoint keep_real (l : list (F * F)) (has_real : bool) : list (F * F) :=
  match l with
  | [] => []
  | (m, p) :: r => if ltb N p tiny10
                   then (if has_real then keep_real r has_real else (m, p) :: keep_real r has_real)
                   else (m, p) :: keep_real r true
  end.
Fixpoint ins_mz (x : F * F) (l : list (F * F)) : list (F * F) :=
  match l with
  | [] => [x]
  | y :: r => if ltb N (fst x) (fst y) then x :: y :: r else y :: ins_mz x r
  end.
Definition sort_mz (l : list (F * F)) : list (F * F) := fold_left (fun acc x => ins_mz x acc) l [].

Definition finish (pv cv : list F) (order : nat) (charge : Z) (carrier : F) : list (F * F) :=
  let total := fsum N pv in
  let raw := map (fun cp => (charged N (fst cp) charge carrier, div N (snd cp) total))
                 (firstn (order + 1) (combine cv pv)) in
  sort_mz (keep_real raw false).

(* constants for a composition, from scratch (populate_constants) *)
Definition add_const (cs : option (list phi)) (e : elem) : option (list phi) :=
  match cs with
  | None => None
  | Some l => match get_phi l (sym e) with
              | Some _ => Some l
              | None => match phi_from_element e with Some p => Some (l ++ [p]) | None => None end
              end
  end.
Definition constants_fresh (c : bcomp) : option (list phi) := fold_left (fun a en => add_const a (fst en)) c (Some []).

Definition resolve_order (req : Z) (mv : Z) : Z := if (req =? -1)%Z then mv else Z.min req mv.

(* the distribution for an already resolved order, given the constants *)
Definition brain_with (cs0 : list phi) (c : bcomp) (order_req : Z) (base : F) (charge : Z) (carrier : F)
  : option (list (F * F) * list phi) :=
  let mv := max_variants c in
  let order := resolve_order order_req mv in
  if (order <? 0)%Z then None else
  let cs := map (phi_update order) cs0 in
  let o := Z.to_nat order in
  match prob_vector cs c o mv base with
  | None => None
  | Some pv => match center_vector cs c o mv base pv with
               | None => None
               | Some cv => Some (finish pv cv o charge carrier, cs)
               end
  end.

Definition brain (c : bcomp) (order_req : Z) (base : F) (charge : Z) (carrier : F) : option (list (F * F)) :=
  match constants_fresh c with
  | None => None
  | Some cs0 => option_map fst (brain_with cs0 c order_req base charge carrier)
  end.

(* ---- the generator: a cache of constants keyed by symbol ---- *)
Definition cache := list (string * phi).
Fixpoint cache_remove (s : string) (l : cache) : option phi * cache :=
  match l with
  | [] => (None, [])
  | (k, v) :: r => if String.eqb k s then (Some v, r)
                   else let '(o, r') := cache_remove s r in (o, (k, v) :: r')
  end.
(* receive: keep the stored one only if its order is strictly higher *)
Fixpoint cache_receive (s : string) (p : phi) (l : cache) : cache :=
  match l with
  | [] => [(s, p)]
  | (k, v) :: r => if String.eqb k s then (if (ph_order p <? ph_order v)%Z then (k, v) :: r else (k, p) :: r)
                   else (k, v) :: cache_receive s p r
  end.
(* populate_constants_from_cache *)
Definition checkout_all (c : bcomp) (ch : cache) : option (list phi) * cache :=
  fold_left (fun st en =>
      let '(cs, ch) := st in
      match cs with
      | None => (None, ch)
      | Some l =>
          let '(o, ch') := cache_remove (sym (fst en)) ch in
          match o with
          | Some p => (Some (l ++ [p]), ch')
          | None => (add_const (Some l) (fst en), ch')
          end
      end) c (Some [], ch).

Definition gen_step (ch : cache) (c : bcomp) (order_req : Z) (base : F) (charge : Z) (carrier : F)
  : option (list (F * F)) * cache :=
  let '(cs0, ch') := checkout_all c ch in
  match cs0 with
  | None => (None, ch')
  | Some l => match brain_with l c order_req base charge carrier with
              | None => (None, ch')
              | Some (peaks, cs) => (Some peaks, fold_left (fun a p => cache_receive (ph_sym p) p a) cs ch')
              end
  end.

(* ---- request resolution (NumPeaksSpec) ---- *)
Inductive spec := Guess | FixedCount (n : Z) | PercentSignal (f : F).
Definition spec_of_i32 (n : Z) : spec := if (n =? 0)%Z then Guess else FixedCount n.
Definition i32_max : Z := 2147483647.
Definition i32_min : Z := -2147483648.
Definition sat_sub1 (n : Z) : Z := if (n =? i32_min)%Z then i32_min else (n - 1)%Z.
Definition num_peaks (s : spec) (mass : F) : Z :=
  match s with
  | Guess => Z.min (poisson_n N mass (of_dec N 9999 4)) 300
  | FixedCount n => Z.max (sat_sub1 n) 0
  | PercentSignal f => Z.max (poisson_n N mass f - 1) 0
  end.
End Brain.
