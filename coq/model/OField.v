(* What "exact arithmetic" means for a [Num]: the laws of an ordered field, as a record of
   propositions.  The algebraic theorems take an [OField N] hypothesis; [NumQc] (canonical
   rationals, Leibniz equality, axiom-free) is shown to satisfy it in proofs/OFieldQc.v. *)
From Coq Require Import ZArith List Bool Field_theory Ring_theory.
From CE Require Import Num.

Section OFieldDef.
  Context {F : Type} (N : Num F).

  Definition finv (x : F) : F := div N (one N) x.
  Definition fle (a b : F) : Prop := leb N a b = true.
  Definition flt (a b : F) : Prop := ltb N a b = true.

  Record OField : Prop := mkOField {
    of_field : field_theory (zero N) (one N) (add N) (mul N) (sub N) (opp N) (div N) finv (@eq F);
    of_sum0 : sum0 N = zero N;
    of_fma : forall a b c, fma N a b c = add N (mul N a b) c;
    of_le_refl : forall a, fle a a;
    of_le_antisym : forall a b, fle a b -> fle b a -> a = b;
    of_le_trans : forall a b c, fle a b -> fle b c -> fle a c;
    of_le_total : forall a b, fle a b \/ fle b a;
    of_ltb_def : forall a b, ltb N a b = negb (leb N b a);
    of_eqb_def : forall a b, eqb N a b = true <-> a = b;
    of_add_le : forall a b c, fle a b -> fle (add N a c) (add N b c);
    of_mul_nonneg : forall a b, fle (zero N) a -> fle (zero N) b -> fle (zero N) (mul N a b);
    of_abs_def : forall a, abs N a = if leb N (zero N) a then a else opp N a;
    of_Z_0 : of_Z N 0 = zero N;
    of_Z_1 : of_Z N 1 = one N;
    of_Z_add : forall a b, of_Z N (a + b) = add N (of_Z N a) (of_Z N b);
    of_Z_mul : forall a b, of_Z N (a * b) = mul N (of_Z N a) (of_Z N b);
    of_Z_opp : forall a, of_Z N (- a) = opp N (of_Z N a);
    of_dec_def : forall num k, of_dec N num k = div N (of_Z N num) (of_Z N (Z.pow 10 (Z.of_nat k)));
    of_finite : forall a, is_finite N a = true;
    of_infinite : forall a, is_infinite N a = false }.
End OFieldDef.
