(* formula.rs::to_formula (as repaired: keys of one element ordered by isotope). *)
From Coq Require Import List ZArith NArith Bool Arith String.
From CE Require Import Str TableTypes TableModel Comp ESpec.
Import ListNotations.

(* str::cmp: byte-wise lexicographic; on code points of ASCII symbols this is code-point order
   (UTF-8 preserves code-point order in general) *)
Fixpoint str_leb (a b : str) : bool :=
  match a, b with
  | [], _ => true
  | _ :: _, [] => false
  | x :: r, y :: s => if (x <? y)%N then true else if (y <? x)%N then false else str_leb r s
  end.
Definition key_leb (a b : key) : bool :=
  if str_eqb (fst a) (fst b) then (snd a <=? snd b)%N else str_leb (fst a) (fst b).

(* stable insertion sort by key (slice::sort_by is stable) *)
Fixpoint ins_key (x : key * Z) (l : ents) : ents :=
  match l with
  | [] => [x]
  | y :: r => if key_leb (fst y) (fst x) then y :: ins_key x r else x :: y :: r
  end.
Definition sort_ents (l : ents) : ents := fold_right ins_key [] l.

Section Render.
  Variable tbl : list (string * elem).
  Variable uni_alphabetic : char -> bool.
  Variable is_map : bool.     (* which string-index transcription reads "C" and "H" *)

  Definition idx_str (s : str) (l : ents) : Z :=
    if is_map then m_index_str tbl uni_alphabetic s l else v_index_str tbl uni_alphabetic s l.

  Definition C_ : str := [67%N]. Definition H_ : str := [72%N].

  Definition show_item (kv : key * Z) : str :=
    let '(k, n) := kv in
    if (str_eqb (fst k) C_ || str_eqb (fst k) H_) && (snd k =? 0)%N then []
    else if negb (snd k =? 0)%N then fst k ++ [LB] ++ show_N (snd k) ++ [RB] ++ show_Z n
    else fst k ++ show_Z n.

  Definition to_formula (l : ents) : str :=
    let c := idx_str C_ l in
    let h := idx_str H_ l in
    (if (c =? 0)%Z then [] else C_ ++ show_Z c)
    ++ (if (h =? 0)%Z then [] else H_ ++ show_Z h)
    ++ List.concat (map show_item (sort_ents l)).
End Render.
