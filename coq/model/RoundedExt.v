(* The standard model of rounding, extended to the remaining operations the models use: subtraction (one rounding,
   exact in the subnormal range like addition), exact conversion of small integers, exact absolute value and negation,
   and the link between the interface's own finiteness test and [fin].  No proofs here. *)
From Coq Require Import ZArith List Bool.
From CE Require Import Num OField Rounded.

Section RoundedExt.
  Context {F K : Type} (N : Num F) (NK : Num K) (v : F -> K) (u : K) (fin nrm : F -> bool).

  Record StdModelExt : Prop := mkStdExt {
    sx_base : StdModel N NK v u fin nrm;
    sx_sub : forall a b, fin a = true -> fin b = true -> fin (sub N a b) = true ->
             within NK u (sub NK (v a) (v b)) (v (sub N a b));
    (* `n as f64` is exact for |n| <= 2^53 *)
    sx_of_Z : forall z, (Z.abs z <= 2 ^ 53)%Z -> v (of_Z N z) = of_Z NK z /\ fin (of_Z N z) = true;
    sx_abs : forall a, fin a = true -> v (abs N a) = abs NK (v a) /\ fin (abs N a) = true;
    sx_opp : forall a, fin a = true -> v (opp N a) = opp NK (v a) /\ fin (opp N a) = true;
    sx_is_finite : forall a, is_finite N a = fin a }.
End RoundedExt.
