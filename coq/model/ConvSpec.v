(* Specification-side definitions for C11 (no proofs). *)
From Coq Require Import List ZArith NArith Bool Arith.
From CE Require Import Num OField Mz Peak Conv.
Import ListNotations.

Section ConvSpec.
  Context {F : Type} (N : Num F).

  (* all pairs, nothing pruned: (mass sum, probability product), element-major as convolve_with iterates *)
  Definition cross_all (d element : dist (F:=F)) : dist (F:=F) :=
    flat_map (fun ie => map (fun de => (add N (fst de) (fst ie), mul N (snd de) (snd ie))) d) element.

  (* the n-fold expansion of one element: every arrangement of n atoms over its isotopes *)
  Fixpoint naive_pow (d : dist (F:=F)) (n : nat) : dist (F:=F) :=
    match n with O => [(zero N, one N)] | S k => cross_all (naive_pow d k) d end.

  (* the whole composition *)
  Definition naive_all (c : list (dist (F:=F) * Z)) : dist (F:=F) :=
    fold_left (fun acc ec => cross_all acc (naive_pow (fst ec) (Z.to_nat (snd ec)))) c [(zero N, one N)].

  (* abundances lie in (0, 1] *)
  Definition abundances_ok (c : list (dist (F:=F) * Z)) : Prop :=
    forall ec ma, In ec c -> In ma (fst ec) -> flt N (zero N) (snd ma) /\ fle N (snd ma) (one N).
End ConvSpec.
