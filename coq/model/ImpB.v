(* Combinators for the shallow embedding of src/isotopic_pattern/baffling.rs (tools/gen_brain.py -> gen/BrainGen.v),
   and the general reasoning rules about them.  Companion of Imp.v / ImpW.v / ImpL.v; nothing here knows about any
   particular generated text.

   PANICS.  Unlike the earlier translators this one makes the Rust panics of the subset explicit: an operation that
   can panic yields an [option] ([None] = the panic), and the code after it is sequenced with

       check x <- e ;; k          (= match e with Some x => k | None => None end)

     a - b   (usize)                         ~>  usub a b            None when b > a   (debug: overflow panic;
                                                                      release: wrap-around, which in the subset is
                                                                      always followed by an out-of-bounds index)
     v[i]                                    ~>  idx v i             None when i >= len
     v[i] op= e                              ~>  check t <- idx v i ;; let v := upd v i (op t e)
     opt.unwrap() / unwrap_or_else(|| panic) ~>  check x <- opt
     panic!(..)                              ~>  None
     for i in a..b { body }, body can panic  ~>  for_range_opt a b (fun i s => body) s
     for x in xs   { body }, body can panic  ~>  for_each_opt xs (fun x s => body) s
     it.map(|x| body), body can panic        ~>  map_opt (fun x => body) it
     it.fold(init, |a, x| body), ditto       ~>  fold_opt (fun a x => body) it init
     for x in v.iter_mut() { body }          ~>  map_opt (fun x => body; Some x) v     (or for_mut when it cannot panic)

   A loop, closure or function that contains none of these is translated with the plain combinators of
   Imp.v / ImpL.v.  What is NOT modelled: overflow of i32 / i8 / usize `+` `*` (Z and nat are unbounded: the
   translation is exact in the absence of such overflow), capacity overflow of `with_capacity` / `reserve` (their
   argument is type-checked and dropped), and allocation failure.

   INTEGER CASTS (a 64-bit usize is assumed)
     x as usize  (x: i32 / i8)   ~>  i32_as_usize x      sign extension: a negative x becomes 2^64 + x
     n as i32    (n: usize)      ~>  usize_as_i32 n      truncation to 32 bits, two's complement
     n as u16    (n: usize)      ~>  usize_as_u16 n      truncation to 16 bits
     a.saturating_sub(b) (i32)   ~>  i32_sat_sub a b
     it.sum()    (i32)           ~>  zsum it             (fold from 0) *)
From Coq Require Import ZArith NArith List Bool Arith Lia.
From Coq Require String.
From CE Require Import Num Peak TableModel Brain Imp ImpL.
Import ListNotations.
Local Open Scope list_scope.

(* ---------- the panic monad ---------- *)
Definition obind {A B : Type} (o : option A) (f : A -> option B) : option B :=
  match o with Some a => f a | None => None end.

Notation "'check' x <- e ;; k" := (obind e (fun x => k))
  (at level 200, x binder, e at level 100, k at level 200, format "'[v' 'check'  x  <-  e  ;;  '/' k ']'").

Lemma obind_some {A B : Type} (a : A) (f : A -> option B) : obind (Some a) f = f a.
Proof. reflexivity. Qed.

(* ---------- partial primitive operations ---------- *)
Definition usub (a b : nat) : option nat := if Nat.leb b a then Some (a - b) else None.
Definition idx {A : Type} (l : list A) (i : nat) : option A := nth_error l i.
(* v[i] = x, used only behind a successful [idx v i] *)
Definition upd {A : Type} (l : list A) (i : nat) (x : A) : list A := firstn i l ++ x :: skipn (S i) l.

Lemma usub_some a b : b <= a -> usub a b = Some (a - b).
Proof. intros H. unfold usub. apply Nat.leb_le in H. rewrite H. reflexivity. Qed.

Lemma usub_none a b : a < b -> usub a b = None.
Proof. intros H. unfold usub. apply Nat.leb_gt in H. rewrite H. reflexivity. Qed.

Lemma idx_some {A : Type} (l : list A) i d : i < length l -> idx l i = Some (nth i l d).
Proof. intros H. unfold idx. apply nth_error_nth'. exact H. Qed.

Lemma idx_none {A : Type} (l : list A) i : length l <= i -> idx l i = None.
Proof. intros H. unfold idx. apply nth_error_None. exact H. Qed.

Lemma upd_length {A : Type} (l : list A) i x : i < length l -> length (upd l i x) = length l.
Proof.
  intros H. unfold upd. rewrite app_length, firstn_length. cbn [length]. rewrite skipn_length. lia.
Qed.

(* ---------- integers ---------- *)
Definition i32_as_usize (z : Z) : nat := if (0 <=? z)%Z then Z.to_nat z else Z.to_nat (2 ^ 64 + z).
Definition wrap_i32 (z : Z) : Z := ((z + 2 ^ 31) mod 2 ^ 32 - 2 ^ 31)%Z.
Definition usize_as_i32 (n : nat) : Z := wrap_i32 (Z.of_nat n).
Definition usize_as_u16 (n : nat) : N := (N.of_nat n mod 65536)%N.
Definition i32_sat_sub (a b : Z) : Z := Z.max (-2147483648) (Z.min 2147483647 (a - b)).
Definition zsum (l : list Z) : Z := fold_left Z.add l 0%Z.

Lemma i32_as_usize_nonneg z : (0 <= z)%Z -> i32_as_usize z = Z.to_nat z.
Proof. intros H. unfold i32_as_usize. apply Z.leb_le in H. rewrite H. reflexivity. Qed.

Lemma usize_as_i32_small n : (Z.of_nat n < 2 ^ 31)%Z -> usize_as_i32 n = Z.of_nat n.
Proof.
  intros H. unfold usize_as_i32, wrap_i32. rewrite Z.mod_small by lia. lia.
Qed.

Lemma zsum_map_fold {A : Type} (g : A -> Z) (l : list A) :
  zsum (map g l) = fold_left (fun a x => (a + g x)%Z) l 0%Z.
Proof.
  unfold zsum. generalize 0%Z. induction l as [|x r IH]; intros z; [reflexivity|]. cbn. apply IH.
Qed.

Lemma mod2_even i : Nat.eqb (Nat.modulo i 2) 0 = Nat.even i.
Proof.
  pose proof (Nat.mod_upper_bound i 2 ltac:(lia)) as Hb. pose proof (Nat.div_mod i 2 ltac:(lia)) as Hd.
  rewrite Hd at 2. rewrite Nat.add_comm, Nat.even_add_mul_2.
  destruct (i mod 2) as [|[|k]]; try reflexivity. lia.
Qed.

Lemma mod2_odd i : Nat.eqb (Nat.modulo i 2) 1 = Nat.odd i.
Proof.
  pose proof (Nat.mod_upper_bound i 2 ltac:(lia)) as Hb. pose proof (Nat.div_mod i 2 ltac:(lia)) as Hd.
  rewrite Hd at 2. rewrite Nat.add_comm, Nat.odd_add_mul_2.
  destruct (i mod 2) as [|[|k]]; try reflexivity. lia.
Qed.

(* ---------- ranges ---------- *)
Definition range (a b : nat) : list nat := seq a (b - a).
(* an i32 range a..b *)
Definition zrange (a b : Z) : list Z := map (fun i => (a + Z.of_nat i)%Z) (seq 0 (Z.to_nat (b - a))).

Lemma zrange_length a b : length (zrange a b) = Z.to_nat (b - a).
Proof. unfold zrange. rewrite map_length, seq_length. reflexivity. Qed.

(* ---------- loops whose body can panic ---------- *)
Section Loops.
  Context {A St : Type}.

  Fixpoint for_each_opt (l : list A) (body : A -> St -> option St) (s : St) : option St :=
    match l with
    | [] => Some s
    | x :: r => match body x s with
                | Some s' => for_each_opt r body s'
                | None => None
                end
    end.

  Lemma for_each_opt_cons x r body s :
    for_each_opt (x :: r) body s = match body x s with Some s' => for_each_opt r body s' | None => None end.
  Proof. reflexivity. Qed.

  Lemma for_each_opt_ext l body body' s :
    (forall x s, In x l -> body x s = body' x s) -> for_each_opt l body s = for_each_opt l body' s.
  Proof.
    revert s. induction l as [|x r IH]; intros s H; [reflexivity|].
    cbn [for_each_opt]. rewrite H by (left; reflexivity). destruct (body' x s); [|reflexivity].
    apply IH. intros y s' Hy. apply H. right. exact Hy.
  Qed.

  (* a body that never panics: the loop is the plain fold *)
  Lemma for_each_opt_total l (body : A -> St -> option St) (body' : A -> St -> St) s :
    (forall x s, In x l -> body x s = Some (body' x s)) ->
    for_each_opt l body s = Some (fold_left (fun s x => body' x s) l s).
  Proof.
    revert s. induction l as [|x r IH]; intros s H; [reflexivity|].
    cbn [for_each_opt fold_left]. rewrite H by (left; reflexivity). apply IH.
    intros y s' Hy. apply H. right. exact Hy.
  Qed.

  (* loops against structurally recursive functions (cf. ImpL.for_each_rec) *)
  Lemma for_each_opt_rec {T : Type} (body : A -> St -> option St) (f : list A -> St -> option T) (k : St -> option T) :
    (forall s, f [] s = k s) ->
    (forall x r s, f (x :: r) s = match body x s with Some s' => f r s' | None => None end) ->
    forall l s, f l s = match for_each_opt l body s with Some s' => k s' | None => None end.
  Proof.
    intros H0 HS. induction l as [|x r IH]; intros s; [apply H0|].
    cbn [for_each_opt]. rewrite HS. destruct (body x s); [apply IH | reflexivity].
  Qed.
End Loops.

Definition for_range_opt {St : Type} (a b : nat) (body : nat -> St -> option St) (s : St) : option St :=
  for_each_opt (seq a (b - a)) body s.

Section RangeLoops.
  Context {St : Type}.

  Lemma for_range_opt_empty a b (body : nat -> St -> option St) s : b <= a -> for_range_opt a b body s = Some s.
  Proof. intros H. unfold for_range_opt. replace (b - a) with 0 by lia. reflexivity. Qed.

  Lemma for_range_opt_first a b (body : nat -> St -> option St) s : a < b ->
    for_range_opt a b body s = match body a s with Some s' => for_range_opt (S a) b body s' | None => None end.
  Proof. intros H. unfold for_range_opt. replace (b - a) with (S (b - S a)) by lia. reflexivity. Qed.

  Lemma for_range_opt_ext a b (body body' : nat -> St -> option St) s :
    (forall i s, a <= i < b -> body i s = body' i s) -> for_range_opt a b body s = for_range_opt a b body' s.
  Proof.
    intros H. unfold for_range_opt. apply for_each_opt_ext. intros i s' Hi. apply in_seq in Hi. apply H. lia.
  Qed.

  (* a body that never panics on the range: the loop is [Imp.for_range] *)
  Lemma for_range_opt_total a b (body : nat -> St -> option St) (body' : nat -> St -> St) s :
    (forall i s, a <= i < b -> body i s = Some (body' i s)) ->
    for_range_opt a b body s = Some (for_range a b body' s).
  Proof.
    intros H. unfold for_range_opt, for_range. apply for_each_opt_total.
    intros i s' Hi. apply in_seq in Hi. apply H. lia.
  Qed.

  (* the loop-invariant rule: the body does not panic under the invariant, and keeps it *)
  Lemma for_range_opt_inv (P : nat -> St -> Prop) a b (body : nat -> St -> option St) s :
    a <= b -> P a s ->
    (forall i s, a <= i < b -> P i s -> exists s', body i s = Some s' /\ P (S i) s') ->
    exists s', for_range_opt a b body s = Some s' /\ P b s'.
  Proof.
    intros Hab H0 Hstep. remember (b - a) as m eqn:Hm. revert a s Hab H0 Hstep Hm.
    induction m as [|m IH]; intros a s Hab H0 Hstep Hm.
    - rewrite for_range_opt_empty by lia. replace b with a by lia. eauto.
    - rewrite for_range_opt_first by lia.
      destruct (Hstep a s ltac:(lia) H0) as [s' [E P']]. rewrite E.
      apply IH; try lia; [exact P'|]. intros i s'' Hi. apply Hstep. lia.
  Qed.

  (* against a fuel-recursive function (cf. Imp.for_range_fuel) *)
  Lemma for_range_opt_fuel {T : Type} (body : nat -> St -> option St) (f : nat -> nat -> St -> option T) (k : St -> option T) :
    (forall a s, f 0 a s = k s) ->
    (forall m a s, f (S m) a s = match body a s with Some s' => f m (S a) s' | None => None end) ->
    forall a b s, f (b - a) a s = match for_range_opt a b body s with Some s' => k s' | None => None end.
  Proof.
    intros H0 HS a b. remember (b - a) as m eqn:Hm. revert a Hm.
    induction m as [|m IH]; intros a Hm s.
    - rewrite for_range_opt_empty by lia. apply H0.
    - rewrite for_range_opt_first by lia. rewrite HS. destruct (body a s); [apply IH; lia | reflexivity].
  Qed.
End RangeLoops.

(* for i in a..b { v.push(g i) }  where computing g i can panic but does not on the range *)
Lemma for_range_opt_push {A : Type} (g : nat -> A) a b (body : nat -> list A -> option (list A)) l :
  (forall i l, a <= i < b -> body i l = Some (l ++ [g i])) ->
  for_range_opt a b body l = Some (l ++ map g (seq a (b - a))).
Proof.
  intros H. rewrite (for_range_opt_total a b body (fun i l => l ++ [g i])) by exact H.
  rewrite (for_range_push g) by reflexivity. reflexivity.
Qed.

(* ---------- closures that can panic ---------- *)
Fixpoint map_opt {A B : Type} (f : A -> option B) (l : list A) : option (list B) :=
  match l with
  | [] => Some []
  | x :: r => match f x with
              | Some y => match map_opt f r with Some t => Some (y :: t) | None => None end
              | None => None
              end
  end.

Fixpoint fold_opt {A B : Type} (f : B -> A -> option B) (l : list A) (b : B) : option B :=
  match l with
  | [] => Some b
  | x :: r => match f b x with Some b' => fold_opt f r b' | None => None end
  end.

Lemma map_opt_all_some {A B : Type} (f : A -> option B) l : map_opt f l = all_some (map f l).
Proof.
  induction l as [|x r IH]; [reflexivity|]. cbn [map_opt map all_some]. rewrite IH. reflexivity.
Qed.

Lemma map_opt_ext {A B : Type} (f g : A -> option B) l : (forall x, In x l -> f x = g x) -> map_opt f l = map_opt g l.
Proof.
  induction l as [|x r IH]; intros H; [reflexivity|]. cbn [map_opt].
  rewrite H by (left; reflexivity). rewrite IH by (intros y Hy; apply H; right; exact Hy). reflexivity.
Qed.

Lemma map_opt_total {A B : Type} (f : A -> option B) (g : A -> B) l :
  (forall x, In x l -> f x = Some (g x)) -> map_opt f l = Some (map g l).
Proof.
  induction l as [|x r IH]; intros H; [reflexivity|]. cbn [map_opt map].
  rewrite H by (left; reflexivity). rewrite IH by (intros y Hy; apply H; right; exact Hy). reflexivity.
Qed.

Lemma map_opt_length {A B : Type} (f : A -> option B) l t : map_opt f l = Some t -> length t = length l.
Proof.
  revert t. induction l as [|x r IH]; intros t H; cbn [map_opt] in H.
  - inversion H. reflexivity.
  - destruct (f x); [|discriminate]. destruct (map_opt f r) as [t'|]; [|discriminate].
    inversion H. cbn. f_equal. apply IH. reflexivity.
Qed.

Lemma fold_opt_ext {A B : Type} (f g : B -> A -> option B) l b :
  (forall b x, In x l -> f b x = g b x) -> fold_opt f l b = fold_opt g l b.
Proof.
  revert b. induction l as [|x r IH]; intros b H; [reflexivity|]. cbn [fold_opt].
  rewrite H by (left; reflexivity). destruct (g b x); [|reflexivity]. apply IH. intros b' y Hy. apply H. right. exact Hy.
Qed.

(* for x in v { out.push(g x) } where computing g x can panic *)
Lemma for_each_opt_push {A B : Type} (g : A -> option B) (body : A -> list B -> option (list B)) :
  (forall x l, body x l = match g x with Some y => Some (l ++ [y]) | None => None end) ->
  forall l l0, for_each_opt l body l0 = match map_opt g l with Some t => Some (l0 ++ t) | None => None end.
Proof.
  intros H. induction l as [|x r IH]; intros l0.
  - cbn. rewrite app_nil_r. reflexivity.
  - cbn [for_each_opt map_opt]. rewrite H. destruct (g x) as [y|]; [|reflexivity]. rewrite IH.
    destruct (map_opt g r); [|reflexivity]. rewrite <- app_assoc. reflexivity.
Qed.

Lemma for_range_opt_push_opt {B : Type} (g : nat -> option B) a b (body : nat -> list B -> option (list B)) l0 :
  (forall i l, a <= i < b -> body i l = match g i with Some y => Some (l ++ [y]) | None => None end) ->
  for_range_opt a b body l0 = match map_opt g (seq a (b - a)) with Some t => Some (l0 ++ t) | None => None end.
Proof.
  intros H. unfold for_range_opt.
  rewrite (for_each_opt_ext _ body (fun i l => match g i with Some y => Some (l ++ [y]) | None => None end))
    by (intros i l Hi; apply in_seq in Hi; apply H; lia).
  apply (for_each_opt_push g). reflexivity.
Qed.

(* for i in 0..v.len() { v[i] = h i v[i] }: every element is rewritten in place, none panics *)
Lemma for_range_opt_update {A : Type} (h : nat -> A -> A) (body : nat -> list A -> option (list A)) :
  (forall i l, body i l = match idx l i with Some x => Some (upd l i (h i x)) | None => None end) ->
  forall l, for_range_opt 0 (length l) body l =
            Some (map (fun ix => h (fst ix) (snd ix)) (combine (seq 0 (length l)) l)).
Proof.
  intros H.
  assert (G : forall r done, for_range_opt (length done) (length done + length r) body (done ++ r) =
                              Some (done ++ map (fun ix => h (fst ix) (snd ix)) (combine (seq (length done) (length r)) r))).
  { induction r as [|x r IH]; intros done.
    - rewrite for_range_opt_empty by (cbn; lia). reflexivity.
    - rewrite for_range_opt_first by (cbn [length]; lia). rewrite H.
      unfold idx. rewrite nth_error_app2 by lia. rewrite Nat.sub_diag. cbn [nth_error].
      unfold upd. rewrite firstn_app, Nat.sub_diag, firstn_all. cbn [firstn]. rewrite app_nil_r.
      replace (skipn (S (length done)) (done ++ x :: r)) with r
        by (rewrite skipn_app, skipn_all2 by lia; replace (S (length done) - length done) with 1 by lia; reflexivity).
      specialize (IH (done ++ [h (length done) x])). rewrite app_length in IH. cbn [length] in IH.
      rewrite <- app_assoc in IH. cbn [app] in IH.
      replace (length done + 1) with (S (length done)) in IH by lia.
      replace (length done + length (x :: r)) with (S (length done) + length r) by (cbn [length]; lia).
      rewrite IH. cbn [length seq combine map fst snd]. rewrite <- app_assoc. reflexivity. }
  intros l. apply (G l []).
Qed.

(* ---------- loops that can panic, as folds over an option accumulator (how Brain.v writes them) ---------- *)
Lemma for_each_opt_as_fold {A St : Type} (g : A -> St -> option St) l s :
  for_each_opt l g s = fold_left (fun a x => match a with Some s => g x s | None => None end) l (Some s).
Proof.
  revert s. induction l as [|x r IH]; intros s; [reflexivity|]. cbn [for_each_opt fold_left].
  destruct (g x s) as [s'|]; [apply IH|].
  clear. induction r as [|y r IH]; [reflexivity | exact IH].
Qed.

Lemma fold_opt_as_fold {A B : Type} (g : B -> A -> option B) l b :
  fold_opt g l b = fold_left (fun a x => match a with Some s => g s x | None => None end) l (Some b).
Proof.
  revert b. induction l as [|x r IH]; intros b; [reflexivity|]. cbn [fold_opt fold_left].
  destruct (g b x) as [b'|]; [apply IH|].
  clear. induction r as [|y r IH]; [reflexivity | exact IH].
Qed.

(* the state of a loop embedded in a larger state the body leaves alone *)
Lemma for_each_opt_inj {A S1 S2 : Type} (f : S1 -> S2) (body1 : A -> S1 -> option S1) (body2 : A -> S2 -> option S2) l :
  (forall x s, In x l -> body2 x (f s) = option_map f (body1 x s)) ->
  forall s, for_each_opt l body2 (f s) = option_map f (for_each_opt l body1 s).
Proof.
  induction l as [|x r IH]; intros H s; [reflexivity|]. cbn [for_each_opt].
  rewrite H by (left; reflexivity). destruct (body1 x s) as [s'|]; [|reflexivity]. cbn [option_map].
  apply IH. intros y s0 Hy. apply H. right. exact Hy.
Qed.

Lemma idx_ltb {A : Type} (l : list A) i d : idx l i = if Nat.ltb i (length l) then Some (nth i l d) else None.
Proof.
  destruct (Nat.ltb_spec i (length l)); [apply idx_some | apply idx_none]; assumption.
Qed.

(* a loop over a mapped list *)
Lemma for_each_opt_map {A B St : Type} (f : A -> B) (body : B -> St -> option St) l s :
  for_each_opt (map f l) body s = for_each_opt l (fun x => body (f x)) s.
Proof.
  revert s. induction l as [|x r IH]; intros s; [reflexivity|]. cbn [map for_each_opt].
  destruct (body (f x) s); [apply IH | reflexivity].
Qed.

(* for _ in a..b { v.push(c) } *)
Lemma for_range_push_const {A : Type} (c : A) a b (body : nat -> list A -> list A) l :
  (forall i l, body i l = l ++ [c]) -> for_range a b body l = l ++ repeat c (b - a).
Proof.
  intros H. rewrite (for_range_push (fun _ => c)) by (intros; apply H). f_equal.
  generalize (b - a) as m. intros m. revert a.
  induction m as [|m IH]; intros a0; [reflexivity|]. cbn [seq map repeat]. rewrite IH. reflexivity.
Qed.

Lemma iter_shift {St : Type} (g : St -> St) n s : Nat.iter n g (g s) = g (Nat.iter n g s).
Proof. induction n as [|n IH]; [reflexivity|]. cbn [Nat.iter nat_rect]. unfold Nat.iter in IH. rewrite IH. reflexivity. Qed.

(* a loop whose body ignores the item: the body iterated *)
Lemma for_each_const {A St : Type} (g : St -> St) (body : A -> St -> St) :
  (forall x s, body x s = g s) -> forall l s, ImpL.for_each l body s = Nat.iter (length l) g s.
Proof.
  intros H. induction l as [|x r IH]; intros s; [reflexivity|].
  rewrite ImpL.for_each_cons, H, IH. cbn [length]. apply iter_shift.
Qed.

(* ---------- records the source declares and Brain.v does not ---------- *)
Section Records.
  Context {F : Type}.
  (* struct IsotopicConstants { constants: Vec<(&str, PhiConstants)>, order: i32 } *)
  Record iconst := mkIConst { ic_constants : list (String.string * @Brain.phi F); ic_order : Z }.
  (* struct IsotopicDistribution { composition, constants, order, average_mass, monoisotopic_peak, max_variants };
     of `composition` BRAIN observes mass() and the (element, count) items in iteration order *)
  Record idist := mkDist {
    d_composition_mass : F; d_composition : list (elem * Z);
    d_constants : iconst; d_order : Z; d_average_mass : F; d_mono : @Peak.peak F; d_max_variants : Z }.
  (* struct ElementPolynomialMap { polynomials: Vec<(&str, DVec)> } *)
  Record pmap := mkPMap { pm_polynomials : list (String.string * list F) }.
End Records.
Arguments iconst F : clear implicits.
Arguments idist F : clear implicits.
Arguments pmap F : clear implicits.

(* impl PartialEq for Element: symbol and most_abundant_isotope *)
Definition elem_eqb (a b : elem) : bool := String.eqb (sym a) (sym b) && N.eqb (mai a) (mai b).

(* ---------- v.sort_by(|a, b| key(a).partial_cmp(&key(b)).unwrap()) ----------
   A stable sort by a strict order given as a boolean `<`.  ASSUMPTION of the translation: the keys are not NaN (the
   `unwrap` panics on a NaN comparison) - then `partial_cmp` is a total preorder and the stable sorted permutation
   is unique; it is computed here by stable insertion. *)
Fixpoint ins_by {A : Type} (lt : A -> A -> bool) (x : A) (l : list A) : list A :=
  match l with
  | [] => [x]
  | y :: r => if lt x y then x :: y :: r else y :: ins_by lt x r
  end.
Definition sort_by_lt {A : Type} (lt : A -> A -> bool) (l : list A) : list A :=
  fold_left (fun acc x => ins_by lt x acc) l [].

(* ---------- extensionality with a changed start state / scrutinee ----------
   Used by the field-mode leaf tactic of the source ties (proofs/BrainTie.v): two loops over the same items are equal
   when their start states are equal and their bodies agree on every item.  (Function extensionality is not assumed
   anywhere, so a comparison of two closures always goes through one of these.) *)
Lemma obind_ext {A B : Type} (o o' : option A) (f g : A -> option B) :
  o = o' -> (forall x, o' = Some x -> f x = g x) -> obind o f = obind o' g.
Proof. intros -> H. destruct o' as [x|]; [apply H; reflexivity | reflexivity]. Qed.

Lemma fold_left_ext_st {A B : Type} (f g : A -> B -> A) l a a' :
  a = a' -> (forall a x, In x l -> f a x = g a x) -> fold_left f l a = fold_left g l a'.
Proof.
  intros -> H. revert a'. induction l as [|x r IH]; intros a; [reflexivity|]. cbn [fold_left].
  rewrite H by (left; reflexivity). apply IH. intros a' y Hy. apply H. right. exact Hy.
Qed.

Lemma for_range_ext_st {St : Type} a b (body body' : nat -> St -> St) s s' :
  s = s' -> (forall i s, a <= i < b -> body i s = body' i s) -> for_range a b body s = for_range a b body' s'.
Proof. intros -> H. apply for_range_ext. exact H. Qed.

Lemma for_each_ext_st {A St : Type} l (body body' : A -> St -> St) s s' :
  s = s' -> (forall x s, In x l -> body x s = body' x s) -> ImpL.for_each l body s = ImpL.for_each l body' s'.
Proof. intros -> H. unfold ImpL.for_each. apply fold_left_ext_st; [reflexivity|]. intros a x Hx. apply H. exact Hx. Qed.

Lemma for_each_opt_ext_st {A St : Type} l (body body' : A -> St -> option St) s s' :
  s = s' -> (forall x s, In x l -> body x s = body' x s) -> for_each_opt l body s = for_each_opt l body' s'.
Proof. intros -> H. apply for_each_opt_ext. exact H. Qed.

Lemma for_range_opt_ext_st {St : Type} a b (body body' : nat -> St -> option St) s s' :
  s = s' -> (forall i s, a <= i < b -> body i s = body' i s) -> for_range_opt a b body s = for_range_opt a b body' s'.
Proof. intros -> H. apply for_range_opt_ext. exact H. Qed.

Lemma fold_opt_ext_st {A B : Type} (f g : B -> A -> option B) l b b' :
  b = b' -> (forall b x, In x l -> f b x = g b x) -> fold_opt f l b = fold_opt g l b'.
Proof. intros -> H. apply fold_opt_ext. exact H. Qed.

Lemma fsum_ext {F : Type} (N : Num F) (l l' : list F) : l = l' -> fsum N l = fsum N l'.
Proof. intros ->. reflexivity. Qed.
