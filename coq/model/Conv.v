(* isotopic_pattern/convolution.rs, transcribed over an arbitrary [Num].  No proofs here. *)
From Coq Require Import List ZArith NArith Bool Arith.
From CE Require Import Num Mz Peak.
Import ListNotations.

Section Conv.
  Context {F : Type} (N : Num F).
  Definition dist := list (F * F).      (* (mass, abundance) *)

  (* for each isotope of `element` (outer), for each entry of `d` (inner): prune, else push *)
  Definition convolve_with (d element : dist) (thr : F) : dist :=
    flat_map (fun ie => flat_map (fun de =>
        let ab := mul N (snd de) (snd ie) in
        if ltb N ab thr then [] else [(add N (fst de) (fst ie), ab)]) d) element.

  (* the doubling loop: while power <= n { buffer = buffer x buffer; power doubles } *)
  Fixpoint doubling (fuel : nat) (buffer : dist) (power n : Z) (thr : F) : dist * Z :=
    match fuel with
    | O => (buffer, power)
    | S f => if (power <=? n)%Z then doubling f (convolve_with buffer buffer thr) (power * 2)%Z n thr
             else (buffer, power)
    end.

  Fixpoint convolve_pow (fuel : nat) (d : dist) (n : Z) (thr : F) : dist :=
    match fuel with
    | O => []
    | S f =>
        if (n =? 0)%Z then [(zero N, one N)]
        else if (n =? 1)%Z then d
        else
          let '(buffer, power) := doubling 64 d 2 n thr in
          if (power / 2 <? n)%Z
          then convolve_with buffer (convolve_pow f d (n - power / 2)%Z thr) thr
          else buffer
    end.

  (* stable sort by mass (total_cmp on finite non-negative masses is the numeric order) *)
  Fixpoint ins_mass (x : F * F) (l : dist) : dist :=
    match l with
    | [] => [x]
    | y :: r => if ltb N (fst x) (fst y) then x :: y :: r else y :: ins_mass x r
    end.
  Definition sort_mass (l : dist) : dist := fold_left (fun acc x => ins_mass x acc) l [].

  (* the per-element driver: elements in composition order, each with its isotopes in map order *)
  Definition conv_all (c : list (dist * Z)) (thr : F) : dist :=
    snd (fold_left (fun st ec =>
           let '(first, out) := st in
           let tmp := convolve_pow 64 (fst ec) (snd ec) thr in
           if (first : bool) then (false, tmp) else (false, convolve_with tmp out thr))
         c (true, [])).

  Definition isotopic_convolution (c : list (dist * Z)) (charge : Z) (carrier thr : F) : list (peak (F:=F)) :=
    let sorted := sort_mass (conv_all c thr) in
    let pk := map (fun mi => mkPeak (charged N (fst mi) charge carrier) (snd mi)) sorted in
    let origin := match pk with p :: _ => mz p | [] => zero N end in
    peaks (ignore_below N (normalize N (mkTip pk origin)) thr).
End Conv.
