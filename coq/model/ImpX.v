(* Vocabulary for the shallow embedding of the C bindings, bindings/c/src/lib.rs (tools/gen_cbind.py -> gen/CBindGen.v), and
   the general facts about it.  Companion of Imp.v / ImpW.v / ImpL.v / ImpS.v / ImpE.v / ImpR.v; nothing here knows about
   any particular generated text.

   Raw pointers cannot be translated literally.  They are read the way the hand-written model coq/model/CBind.v reads them:
   the heap of `Box<CChemicalComposition>` allocations is the model's handle table, a `*mut CChemicalComposition` is null or
   an index into it, and dereferencing / freeing an index that is not live is undefined behaviour ([XUB], the model's
   RContract).  What the translation ties is the CONTROL STRUCTURE of every exported function: what is written to the
   out-pointer and when, which parser is called on which text, which arm returns which code (with its `+ 1`), what is
   stored in which handle and what is freed.

     the process state                              ~>  heap : CBind.handles  (threaded through every function)
     *mut CChemicalComposition                      ~>  ptr = option nat              (None: null)
     ptr::null_mut()                                ~>  None
     out : *mut *mut CChemicalComposition           ~>  a cell: Unwritten on entry (the caller's variable is indeterminate),
     *out = p;                                          Written p after an assignment; the cell is part of the result
     Box::into_raw(Box::new(v))                     ~>  box_alloc heap v = (heap ++ [Some v], Some (length heap))
     drop(Box::from_raw(p))                         ~>  box_free heap p   (None = UB: p null or not live)
     &self / &mut self / other: &CChemicalComposition (a pointer handed over by C)
                                                    ~>  a handle h : nat, read by [live heap h] on entry (None = UB); a
                                                        `&mut self` method stores self.0 back with [set_h] at every exit
     CChemicalComposition(c) / x.0                  ~>  c / the entries (the enum composition in its Vec variant, as CBind.v)
     *mut c_char + CStr::from_ptr                   ~>  cstring = list N (the bytes before the NUL); cstr_from_ptr = id
     to_string_lossy / String::from_utf8_lossy      ~>  lossy : list N -> str, a PARAMETER of every generated definition
                                                        (every tie holds for any decoding)
     ChemicalComposition::parse(&s)                 ~>  comp_parse tbl un s        (the model's Formula.parse_formula)
     s.parse::<ElementSpecification>()              ~>  ESpec.espec_parse tbl s
     c.get_str(&s)                                  ~>  comp_get_str tbl ua c s    (the model's v_index_str)
     c.set(k, n) / c.inc(k, n) / c += &d / c -= &d / c *= n / c.clone() / ChemicalComposition::default()
                                                    ~>  e_set k n c / e_inc k n c / e_add c d / e_sub c d / e_mul c n / c / []
     c.mass()                                       ~>  mass_of c, a PARAMETER (the model's RMass carries no value)
     e as u32  (e an error enum)                    ~>  the generated <enum>_discr_gen e   (variant order of the CURRENT source)
     a panic in an `extern "C"` function            ~>  XAbort                     (the model's RAbort) *)
From Coq Require Import List ZArith NArith Bool Arith String Lia.
From CE Require Import Num Str TableTypes TableModel Comp ESpec Formula CBind ImpE.
Import ListNotations.
Local Open Scope nat_scope.

Inductive xres (A : Type) := XOk (a : A) | XUB | XAbort.
Arguments XOk {A}. Arguments XUB {A}. Arguments XAbort {A}.

Definition ptr := option nat.
Inductive cell := Unwritten | Written (p : ptr).
Definition cstring := list N.
Definition cstr_from_ptr (p : cstring) : list N := p.

Definition box_alloc (hs : handles) (v : ents) : handles * ptr := ((hs ++ [Some v])%list, Some (List.length hs)).
Definition box_free (hs : handles) (p : ptr) : option handles :=
  match p with
  | Some h => match live hs h with Some _ => Some (set_h hs h None) | None => None end
  | None => None
  end.

Definition comp_default : ents := [].
Definition comp_parse (tbl : ptable) (un : char -> bool) (s : str) : fres ents :=
  parse_formula un (has_elem tbl) (has_iso tbl) s.
Definition comp_get_str (tbl : ptable) (ua : char -> bool) (c : ents) (s : str) : Z := v_index_str tbl ua s c.

(* ---------- the outcome of a generated function against the model's step ---------- *)
(* new / parse_formula / copy: the model reports the return code and whether *out is null; a handle is the index of the
   allocation that produced it, so a non-null *out after a step from hs is [length hs] *)
Definition of_alloc (hs : handles) (r : handles * cresult) : xres (handles * cell * Z) :=
  match r with
  | (hs', RAlloc code isnull) => XOk (hs', Written (if isnull then None else Some (List.length hs)), code)
  | (_, RAbort) => XAbort
  | (_, _) => XUB
  end.
Definition of_code (r : handles * cresult) : xres (handles * Z) :=
  match r with (hs', RCode code) => XOk (hs', code) | (_, RAbort) => XAbort | (_, _) => XUB end.
Definition of_value (r : handles * cresult) : xres (handles * Z) :=
  match r with (hs', RValue v) => XOk (hs', v) | (_, RAbort) => XAbort | (_, _) => XUB end.
Definition of_mass {M} (m : option M) (r : handles * cresult) : xres (handles * M) :=
  match r, m with (hs', RMass), Some v => XOk (hs', v) | (_, RAbort), _ => XAbort | (_, _), _ => XUB end.

(* ---------- handle-table facts ---------- *)
Lemma set_h_same : forall (hs : handles) h l, live hs h = Some l -> set_h hs h (Some l) = hs.
Proof.
  induction hs as [|o hs IH]; intros h l H.
  - destruct h; reflexivity.
  - destruct h as [|h].
    + unfold live in H. cbn in H. destruct o as [x|]; [|discriminate H]. inversion H. reflexivity.
    + cbn [set_h]. f_equal. apply IH. exact H.
Qed.

Lemma set_h_set_h : forall (hs : handles) h a b, set_h (set_h hs h a) h b = set_h hs h b.
Proof.
  induction hs as [|o hs IH]; intros h a b.
  - destruct h; reflexivity.
  - destruct h as [|h]; cbn [set_h]; [reflexivity|]. f_equal. apply IH.
Qed.
