(* Source-level shapes of the periodic table, as the translator emits them.
   Masses and abundances are exact integers in units of 1e-6. *)
From Coq Require Import ZArith NArith List String.
Import ListNotations.

Record iso_src := mkIso {
  i_key : N;        (* key passed to isotopes.insert *)
  i_mass : Z;       (* 1e-6 u *)
  i_ab : Z;         (* 1e-6 *)
  i_neutrons : N;   (* the `neutrons` field, i.e. the nucleon number *)
  i_shift : Z }.    (* the `neutron_shift` field *)

Record elem_src := mkElem {
  s_sym : string;
  s_mai : N;        (* most_abundant_isotope *)
  s_mam : Z;        (* most_abundant_mass, 1e-6 u *)
  s_number : N;     (* element_number (0 when the source omits it) *)
  s_min0 : Z;       (* min_neutron_shift given in the literal (0 when omitted) *)
  s_max0 : Z;       (* max_neutron_shift given in the literal (0 when omitted) *)
  s_indexed : bool; (* index_isotopes() is called before table.add *)
  s_isos : list iso_src;    (* insert statements before index_isotopes(), in source order *)
  s_late : list iso_src }.  (* insert statements after it (they do not take part in the min/max shifts) *)

(* data/nist_mass.json: value = num / 10^k, exact *)
Record nist_iso := mkNistIso {
  n_key : N; n_mass_num : Z; n_mass_k : nat; n_ab_num : Z; n_ab_k : nat }.
Record nist_elem := mkNistElem { n_sym : string; n_isos : list nist_iso }.
