(* The side condition of the floating-point level C10 theorem: no operation of
   neutral_mass (mass_charge_ratio m z c) z c overflows, and the product z*c, the quotient and the product back are of
   normal magnitude.  Computable; no proofs here. *)
From Coq Require Import ZArith List Bool.
From CE Require Import Num Mz.

Section MzSafe.
  Context {F : Type} (N : Num F) (fin nrm : F -> bool).
  Definition mz_safe (m : F) (z : Z) (c : F) : bool :=
    let zf := of_Z N z in
    let t := mul N zf c in
    let a := add N m t in
    let q := div N a (abs N zf) in
    let b := mul N q (abs N zf) in
    fin m && fin c && nrm t && fin a && nrm q && nrm b && fin (sub N b t).
End MzSafe.
