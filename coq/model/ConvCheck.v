(* Correspondence and specification checks for C11 (and the convolution part of C10). *)
From Coq Require Import List ZArith NArith QArith Qreduction Bool Arith String Floats.
From CE Require Import Num NumFloat NumFloat64 QFloat TableTypes TableModel Mz Peak Conv PeakCheck Table.
Import ListNotations.

Definition TC := build_table table_src.

Record ccase := mkCC {
  cc_id : N;
  cc_ents : list (string * list N * Z);   (* symbol, isotope keys in the map's iteration order, count *)
  cc_charge : Z; cc_carrier : float; cc_thr : float;
  cc_out : option (list fpeak) }.

Definition elem_dist (s : string) (order : list N) : option (dist (F:=float)) :=
  match tbl_get s TC with
  | None => None
  | Some e => (fix go (l : list N) : option (dist (F:=float)) :=
                 match l with
                 | [] => Some []
                 | k :: r => match assoc_get k (isos e), go r with
                             | Some i, Some t => Some ((f_micro (TableModel.mass i), f_micro (TableModel.ab i)) :: t)
                             | _, _ => None
                             end
                 end) order
  end.

Fixpoint all_some' {A} (l : list (option A)) : option (list A) :=
  match l with [] => Some [] | Some x :: r => match all_some' r with Some t => Some (x :: t) | None => None end | None :: _ => None end.

Definition c_model (c : ccase) : option (list fpeak) :=
  match all_some' (map (fun t => match elem_dist (fst (fst t)) (snd (fst t)) with Some d => Some (d, snd t) | None => None end) (cc_ents c)) with
  | Some l => match l with
              | [] => None     (* the empty composition is handled by the check, not the model: out is []*)
              | _ => Some (isotopic_convolution NumF l (cc_charge c) (cc_carrier c) (cc_thr c))
              end
  | None => None
  end.

(* peaks of equal m/z may come out in any order (the property only asks for sorted m/z): order equal-m/z runs by
   intensity on both sides before comparing *)
Fixpoint ins_peak (x : fpeak) (l : list fpeak) : list fpeak :=
  match l with
  | [] => [x]
  | y :: r => if PrimFloat.ltb (mz x) (mz y) || (PrimFloat.eqb (mz x) (mz y) && PrimFloat.ltb (inten x) (inten y))
              then x :: y :: r else y :: ins_peak x r
  end.
Definition canon_peaks (l : list fpeak) : list fpeak := fold_left (fun acc x => ins_peak x acc) l [].

Definition c_tie (cmp : float -> float -> bool) (c : ccase) : bool :=
  match cc_ents c, cc_out c with
  | [], Some [] => true
  | _, _ => match c_model c, cc_out c with
            | Some m, Some o => list_agree (peak_agree cmp) (canon_peaks m) (canon_peaks o)
            | _, _ => false
            end
  end.

(* ---- exact isotopologue distribution ---- *)
Open Scope Q_scope.
Record logue := mkL { l_mass : Q; l_prob : Q; l_arr : Q }.   (* mass, multinomial probability, probability of one arrangement *)

(* binomial coefficient by the multiplicative formula: b_i = b_(i-1) * (n - k + i) / i, exact at every step *)
Definition binom (n k : nat) : Z :=
  if Nat.ltb n k then 0%Z else
  fold_left (fun b i => (b * (Z.of_nat n - Z.of_nat k + Z.of_nat i) / Z.of_nat i)%Z) (seq 1 k) 1%Z.
Fixpoint qpown (x : Q) (n : nat) : Q := match n with O => 1 | S k => Qred (x * qpown x k) end.

(* all ways to give n atoms to the listed isotopes *)
Fixpoint elem_logues (isos : list (Q * Q)) (n : nat) : list logue :=
  match isos with
  | [] => match n with O => [mkL 0 1 1] | _ => [] end
  | (m, a) :: rest =>
      List.concat (map (fun j =>
        map (fun l => mkL (Qred (l_mass l + inject_Z (Z.of_nat j) * m))
                          (Qred (l_prob l * inject_Z (binom n j) * qpown a j))
                          (Qred (l_arr l * qpown a j)))
            (elem_logues rest (n - j))) (seq 0 (S n)))
  end.

Definition cross (a b : list logue) : list logue :=
  List.concat (map (fun x => map (fun y => mkL (Qred (l_mass x + l_mass y)) (Qred (l_prob x * l_prob y)) (Qred (l_arr x * l_arr y))) b) a).

(* merge isotopologues of exactly equal mass (the merged arrangement probability is the smallest one: the one that
   decides survival is per arrangement, so keep the maximum to stay on the safe side of "must be present") *)
Fixpoint merge_ins (x : logue) (l : list logue) : list logue :=
  match l with
  | [] => [x]
  | y :: r => if Qeq_bool (l_mass x) (l_mass y) then mkL (l_mass y) (Qred (l_prob x + l_prob y)) (if qleb (l_arr x) (l_arr y) then l_arr y else l_arr x) :: r
              else if qltb (l_mass x) (l_mass y) then x :: y :: r else y :: merge_ins x r
  end.
Definition merge_sort (l : list logue) : list logue := fold_left (fun acc x => merge_ins x acc) l [].

Definition spec_logues (c : ccase) : list logue :=
  let per := map (fun t => match tbl_get (fst (fst t)) TC with
                           | Some e => elem_logues (map (fun p => (inject_Z (TableModel.mass (snd p)) / 1000000, inject_Z (TableModel.ab (snd p)) / 1000000)) (isos e))
                                                   (Z.to_nat (snd t))
                           | None => [] end) (cc_ents c) in
  merge_sort (fold_left cross per [mkL 0 1 1]).

(* the implementation's peaks as (neutral mass, intensity), adjacent peaks within 1e-9 Da merged *)
Definition neutral_of (mz : float) (z : Z) (carrier : float) : Q :=
  if (z =? 0)%Z then qf0 mz else qf0 mz * inject_Z (Z.abs z) - inject_Z z * qf0 carrier.
Fixpoint merge_adjacent (l : list (Q * Q)) : list (Q * Q) :=
  match l with
  | [] => []
  | x :: r => match merge_adjacent r with
              | y :: r' => if q_close_abs (fst x) (fst y) eps9 then (fst y, Qred (snd x + snd y)) :: r' else x :: y :: r'
              | [] => [x]
              end
  end.

Definition sorted_mz (o : list fpeak) : bool :=
  (fix go (l : list fpeak) : bool := match l with a :: ((b :: _) as r) => PrimFloat.leb (mz a) (mz b) && go r | _ => true end) o.

(* result codes: 0 holds, 1 fails *)
Definition c11_code (c : ccase) : nat :=
  match cc_out c with
  | None => 1%nat
  | Some o =>
      if negb (finite_pat o && sorted_mz o) then 1%nat else
      (* the empty composition: the loop never runs and the result is []; the property is about compositions over
         the table's elements, an empty one is accepted either as [] or as the single empty isotopologue *)
      if match cc_ents c, o with [], [] => true | _, _ => false end then 0%nat else
      let spec := spec_logues c in
      let imp := merge_adjacent (map (fun p => (neutral_of (mz p) (cc_charge c) (cc_carrier c), qf0 (inten p))) o) in
      let t := qf0 (cc_thr c) in
      if qleb t 0 then
        (* threshold 0: exactly the isotopologues, intensities = multinomial probabilities normalised (they sum to 1 up to table rounding) *)
        let tot := qsum (map l_prob spec) in
        if Nat.eqb (List.length spec) (List.length imp)
           && forallb (fun si => q_close_abs (l_mass (fst si)) (fst (snd si)) eps9
                                 && q_close_abs (l_prob (fst si) / tot) (snd (snd si)) eps9) (combine spec imp)
           && q_close_abs (qsum (map snd imp)) 1 eps9
        then 0%nat else 1%nat
      else
        (* threshold t: every isotopologue whose arrangements have probability >= t is present, ratios among those exact,
           no returned peak below t *)
        let must := filter (fun l => qleb (t * (1 + eps9)) (l_arr l)) spec in
        let found := map (fun l => (l, find (fun p => q_close_abs (l_mass l) (fst p) eps9) imp)) must in
        let ok_present := forallb (fun lf => match snd lf with Some _ => true | None => false end) found in
        let ratios := match found with
                      | (l0, Some p0) :: _ =>
                          forallb (fun lf => match snd lf with
                                             | Some p => q_close_rel (snd p * l_prob l0) (snd p0 * l_prob (fst lf)) eps9
                                                         || qltb (l_prob (fst lf)) (snd p / 1000000000 + l_prob (fst lf)) && false
                                             | None => false end) found
                      | _ => true
                      end in
        let above := forallb (fun p => qleb (t * (1 - eps12)) (qf0 (inten p))) o in
        (* every returned peak sits at the mass of an isotopologue of the whole composition *)
        let no_junk := forallb (fun p => existsb (fun l => q_close_abs (l_mass l) (fst p) eps9) spec) imp in
        if ok_present && ratios && above && no_junk then 0%nat else 1%nat
  end.

Definition c_nontrivial (c : ccase) : bool := match cc_out c with Some o => Nat.ltb 2 (List.length o) | None => false end.
Fixpoint cids_where (f : ccase -> bool) (l : list ccase) : list N :=
  match l with [] => [] | c :: r => ((if f c then [cc_id c] else []) ++ cids_where f r)%list end.
