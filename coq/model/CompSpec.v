(* Specification-side definitions for C02 / C04 / C06 (no proofs). *)
From Coq Require Import List ZArith NArith Bool Arith String Permutation.
From CE Require Import Num OField Str TableTypes TableModel Comp ESpec CompOps Render.
Import ListNotations.

(* keys are pairwise distinct (an invariant of every constructor and operation) *)
Fixpoint nodup_keys (l : ents) : bool :=
  match l with [] => true | (k, _) :: r => negb (e_mem k r) && nodup_keys r end.

(* the sum of all counts listed for k (what a constructor must give k) *)
Definition listed (k : key) (l : ents) : Z :=
  fold_left Z.add (map snd (filter (fun kv => key_eqb k (fst kv)) l)) 0%Z.

(* two entry stores denote the same finite map *)
Definition same_map (a b : ents) : Prop :=
  forall k, e_get k a = e_get k b /\ e_mem k a = e_mem k b.

Section Spec.
  Context {F : Type} (N : Num F).
  Variable tbl : list (string * elem).

  (* every key names a tabulated element, and a tabulated isotope when one is fixed: its mass is defined *)
  Definition key_ok (k : key) : bool := match key_mass N tbl k with Some _ => true | None => false end.
  Definition keys_ok (l : ents) : bool := forallb (fun kv => key_ok (fst kv)) l.

  (* the mass the property speaks of: sum over entries of count * mass(key), in exact arithmetic *)
  Definition km (k : key) : F := match key_mass N tbl k with Some m => m | None => zero N end.
  Fixpoint mass_sum (l : ents) : F :=
    match l with [] => zero N | (k, c) :: r => add N (mul N (km k) (of_Z N c)) (mass_sum r) end.

  (* the cache, when populated, holds the mass of the current contents (as calc_mass computes it) *)
  Definition cache_ok (c : comp F) : Prop :=
    match c_cache c with None => True | Some v => calc_mass N tbl (c_ents c) = Some v end.
  Definition regs_ok (regs : list (reg (F:=F))) : Prop := forall r, In r regs -> cache_ok (r_comp r).

  Variable shuffle : ents -> ents.
  Definition run_ops (regs : list (reg (F:=F))) (ops : list (nat * cop)) : list (reg (F:=F)) :=
    fold_left (fun s ro => fst (step N tbl shuffle s ro)) ops regs.
End Spec.

(* table side conditions used by the string-keyed theorems: symbols are ASCII, 1..3 bytes, start with a
   letter and contain no bracket; decided on the regenerated table by vm_compute *)
Definition sym_ok (s : str) : bool :=
  match s with
  | [] => false
  | c :: _ => is_alpha c && forallb (fun x => (x <? 128)%N && negb (x =? LB)%N && negb (x =? RB)%N) s
              && Nat.leb (List.length s) 3
  end.
Definition table_syms_ok (tbl : list (string * elem)) : bool := forallb (fun p => sym_ok (codes (fst p))) tbl.

(* every key's symbol is a table symbol *)
Definition syms_in_table (tbl : list (string * elem)) (l : ents) : bool :=
  forallb (fun kv => has_elem tbl (fst (fst kv))) l.
Definition no_bracket (s : str) : bool := forallb (fun x => negb (x =? LB)%N && negb (x =? RB)%N) s.
Definition not_get_str_mut (o : cop) : bool := match o with OGetStrMutSet _ _ => false | _ => true end.
