(* Correspondence and specification checks for C17. *)
From Coq Require Import List ZArith NArith Bool Arith String Floats.
From CE Require Import Num NumFloat NumFloat64 Str TableTypes TableModel Comp ESpec Formula FormulaSpec FormulaCheck CBind Table.
Import ListNotations.

Definition ua17 (c : char) : bool := (c =? 233)%N.
(* what the driver observes after each call: the call's own result and, per handle, None (freed) or mass + reads *)
Record snap := mkSnap { s_mass : float; s_gets : list Z }.
Record cobs := mkCO { o_res : cresult; o_val_mass : option float; o_snap : list (option snap) }.
Record cseq := mkCS { cs_id : N; cs_calls : list ccall; cs_obs : list cobs; cs_died : bool; cs_exit0 : bool }.

Definition msnap (probes : list str) (hs : handles) : list (option snap) :=
  map (fun o => match o with
                | Some l => Some (mkSnap (match calc_mass NumF TF l with Some m => m | None => nan end)
                                         (map (fun s => v_index_str TF ua17 s l) probes))
                | None => None end) hs.

Definition ftol17 (a b : float) : bool := f_same a b || f_close_rel a b 1 1000000000000 || f_close_abs a b 1 1000000000.
Definition zl17 (a b : list Z) : bool := if list_eq_dec Z.eq_dec a b then true else false.
Definition snap_agree (a b : option snap) : bool :=
  match a, b with
  | Some x, Some y => ftol17 (s_mass x) (s_mass y) && zl17 (s_gets x) (s_gets y)
  | None, None => true
  | _, _ => false
  end.
Fixpoint snaps_agree (a b : list (option snap)) : bool :=
  match a, b with [], [] => true | x :: r, y :: s => snap_agree x y && snaps_agree r s | _, _ => false end.
Definition res_agree (a b : cresult) : bool :=
  match a, b with
  | RAlloc c1 n1, RAlloc c2 n2 => (c1 =? c2)%Z && Bool.eqb n1 n2
  | RCode c1, RCode c2 => (c1 =? c2)%Z
  | RValue v1, RValue v2 => (v1 =? v2)%Z
  | RMass, RMass => true
  | _, _ => false
  end.

Fixpoint run_tie (probes : list str) (hs : handles) (cs : list ccall) (os : list cobs) : bool :=
  match cs, os with
  | [], [] => true
  | c :: cr, o :: or_ =>
      let '(hs', r) := cstep TF uni_num ua17 hs c in
      res_agree r (o_res o) && snaps_agree (msnap probes hs') (o_snap o) && run_tie probes hs' cr or_
  | _, _ => false
  end.
Definition cb_tie (probes : list str) (s : cseq) : bool :=
  negb (cs_died s) && run_tie probes [] (cs_calls s) (cs_obs s).

(* the property on the driver's own observations *)
Definition code_of (r : cresult) : option Z := match r with RAlloc c _ => Some c | RCode c => Some c | _ => None end.
Fixpoint steps_ok (prev : list (option snap)) (cs : list ccall) (os : list cobs) : bool :=
  match cs, os with
  | [], [] => true
  | c :: cr, o :: or_ =>
      (match o_res o with
       | RAlloc code isnull =>
           (* success yields exactly one new handle, failure a null out-pointer and an untouched handle set *)
           if (code =? 0)%Z then negb isnull && Nat.eqb (List.length (o_snap o)) (S (List.length prev))
           else isnull && snaps_agree prev (o_snap o)
       | RCode code => if (code =? 0)%Z then true else snaps_agree prev (o_snap o)
       | RValue _ | RMass => snaps_agree prev (o_snap o)
       | _ => false
       end)
      && (* parse_formula yields a handle exactly when the text is a well-formed formula *)
         (match c, o_res o with
          | CParse t, RAlloc code _ =>
              Bool.eqb (code =? 0)%Z (match reference uni_num he hi t with Some _ => true | None => false end)
          | CMass h, _ => match nth_error (o_snap o) h, o_val_mass o with
                          | Some (Some sn), Some m => f_same m (s_mass sn) | _, _ => false end
          | _, _ => true
          end)
      && steps_ok (o_snap o) cr or_
  | _, _ => false
  end.
Definition cb_holds (s : cseq) : bool :=
  negb (cs_died s) && cs_exit0 s && steps_ok [] (cs_calls s) (cs_obs s)
  && match rev (cs_obs s) with o :: _ => forallb (fun x => match x with None => true | Some _ => false end) (o_snap o) | [] => true end.

Definition cb_nontrivial (s : cseq) : bool := Nat.ltb 4 (List.length (cs_calls s)).
Fixpoint csids_where (f : cseq -> bool) (l : list cseq) : list N :=
  match l with [] => [] | c :: r => ((if f c then [cs_id c] else []) ++ csids_where f r)%list end.
