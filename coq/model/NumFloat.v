(* binary64 helpers used by the correspondence runs (never by a proof). *)
From Coq Require Import ZArith NArith List Floats Uint63 Bool.
Import ListNotations.

Definition f_of_Z (z : Z) : float :=
  if (z <? 0)%Z then PrimFloat.opp (PrimFloat.of_uint63 (Uint63.of_Z (- z)))
  else PrimFloat.of_uint63 (Uint63.of_Z z).

(* the value rustc gives the decimal literal z * 1e-6 (|z| < 2^53): both operands are exact and
   IEEE division is correctly rounded, so this is the double nearest to the exact decimal *)
Definition f_micro (z : Z) : float := PrimFloat.div (f_of_Z z) (f_of_Z 1000000).

(* bit-level equality except that all NaNs are identified and +0 = -0 is NOT assumed *)
Definition f_same (a b : float) : bool :=
  match Prim2SF a, Prim2SF b with
  | S754_zero s1, S754_zero s2 => Bool.eqb s1 s2
  | S754_infinity s1, S754_infinity s2 => Bool.eqb s1 s2
  | S754_nan, S754_nan => true
  | S754_finite s1 m1 e1, S754_finite s2 m2 e2 => Bool.eqb s1 s2 && Pos.eqb m1 m2 && Z.eqb e1 e2
  | _, _ => false
  end.

Definition f_is_finite (a : float) : bool :=
  match Prim2SF a with S754_zero _ | S754_finite _ _ _ => true | _ => false end.

(* exact value of a finite double as num / 2^k  (k >= 0) *)
Definition f_exact (a : float) : option (Z * Z) :=
  match Prim2SF a with
  | S754_zero _ => Some (0, 1)%Z
  | S754_finite s m e =>
      let mz := if s then Z.neg m else Z.pos m in
      if (0 <=? e)%Z then Some (mz * 2 ^ e, 1)%Z else Some (mz, 2 ^ (- e))%Z
  | _ => None
  end.

(* |a - b| <= tol, evaluated exactly on the doubles' values; tol = tn/td *)
Definition f_close_abs (a b : float) (tn td : Z) : bool :=
  match f_exact a, f_exact b with
  | Some (an, ad), Some (bn, bd) =>
      (* |an/ad - bn/bd| <= tn/td *)
      (Z.abs (an * bd - bn * ad) * td <=? tn * ad * bd)%Z
  | _, _ => f_same a b
  end.

(* |a - b| <= tol * max(|a|,|b|) *)
Definition f_close_rel (a b : float) (tn td : Z) : bool :=
  match f_exact a, f_exact b with
  | Some (an, ad), Some (bn, bd) =>
      (Z.abs (an * bd - bn * ad) * td <=? tn * Z.max (Z.abs an * bd) (Z.abs bn * ad))%Z
  | _, _ => f_same a b
  end.
