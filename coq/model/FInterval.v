(* Rigorous enclosures of non-negative real quantities in binary64 (correspondence runs only):
   every operation rounds to nearest and then steps one ulp outwards, so [lo, hi] always contains
   the exact result of the operation on any points of the operand intervals. *)
From Coq Require Import ZArith List Bool Floats.
From CE Require Import NumFloat.
Import ListNotations.
Open Scope float_scope.

Record fi := mkFi { flo : float; fhi : float }.

Definition dn (x : float) : float := if PrimFloat.leb x 0 then 0 else next_down x.
Definition up (x : float) : float := next_up x.
Definition is0 (x : float) : bool := PrimFloat.eqb x 0.

Definition fi_pt (x : float) : fi := mkFi x x.
Definition fi_zero : fi := mkFi 0 0.
Definition fi_one : fi := mkFi 1 1.
(* an upper bound that is exactly 0 means the quantity is exactly 0; otherwise a result that rounds to 0
   (underflow) must still be stepped up *)
Definition fi_add (a b : fi) : fi :=
  mkFi (dn (flo a + flo b)) (if is0 (fhi a) && is0 (fhi b) then 0 else up (fhi a + fhi b)).
Definition fi_mul (a b : fi) : fi :=
  mkFi (dn (flo a * flo b)) (if is0 (fhi a) || is0 (fhi b) then 0 else up (fhi a * fhi b)).
(* a / b with b > 0 *)
Definition fi_div (a b : fi) : fi := mkFi (dn (flo a / fhi b)) (if is0 (fhi a) then 0 else up (fhi a / flo b)).
(* the exact value z * 1e-6 of a table literal *)
Definition fi_micro (z : Z) : fi := let x := f_micro z in mkFi (dn x) (up x).
Definition fi_of_Z (z : Z) : fi := fi_pt (f_of_Z z).   (* exact for |z| < 2^53 *)
Definition fi_ok (a : fi) : bool := f_is_finite (flo a) && f_is_finite (fhi a) && PrimFloat.leb (flo a) (fhi a).

(* polynomials with interval coefficients, truncated at degree d (lists of length <= d+1) *)
Definition ipoly := list fi.
Fixpoint ip_add (a b : ipoly) : ipoly :=
  match a, b with
  | [], _ => b
  | _, [] => a
  | x :: r, y :: s => fi_add x y :: ip_add r s
  end.
Definition ip_scale (c : fi) (a : ipoly) : ipoly := map (fi_mul c) a.
Fixpoint ip_mul (d : nat) (a b : ipoly) : ipoly :=
  match a with
  | [] => []
  | x :: r => firstn (S d) (ip_add (ip_scale x b) (fi_zero :: ip_mul (Nat.pred d) r b))
  end.
(* a^n by repeated squaring, truncated at degree d *)
Fixpoint ip_pow_pos (d : nat) (a : ipoly) (n : positive) : ipoly :=
  match n with
  | xH => firstn (S d) a
  | xO p => let h := ip_pow_pos d a p in ip_mul d h h
  | xI p => let h := ip_pow_pos d a p in ip_mul d (ip_mul d h h) a
  end.
Definition ip_pow (d : nat) (a : ipoly) (n : Z) : ipoly :=
  match n with Zpos p => ip_pow_pos d a p | _ => [fi_one] end.
Definition ip_nth (a : ipoly) (k : nat) : fi := nth k a fi_zero.
