(* element_specification.rs: the key parser (as repaired), Display, quick_check_str. *)
From Coq Require Import List ZArith NArith Bool Arith String.
From CE Require Import Str TableTypes TableModel Comp.
Import ListNotations.

Inductive espec_err := UnclosedIsotope | UnknownElement.
Inductive eres (A : Type) := EOk (a : A) | EErr (e : espec_err) | EPanic.
Arguments EOk {A}. Arguments EErr {A}. Arguments EPanic {A}.

Inductive like := LikeYes | LikeNo | LikeMaybe.

Section ESpec.
  Variable tbl : list (string * elem).
  Variable uni_alphabetic : char -> bool.      (* char::is_alphabetic on non-ASCII code points *)

  Definition has_elem (s : str) : bool := match tbl_find s tbl with Some _ => true | None => false end.
  Definition has_iso (s : str) (n : N) : bool :=
    match tbl_find s tbl with
    | Some e => match assoc_get n (isos e) with Some _ => true | None => false end
    | None => false
    end.

  (* string.find('[') : text before and after the first '[' *)
  Fixpoint split_lb (s : str) : option (str * str) :=
    match s with
    | [] => None
    | c :: t => if (c =? LB)%N then Some ([], t)
                else match split_lb t with Some (a, b) => Some (c :: a, b) | None => None end
    end.

  (* strip_suffix(']') *)
  Definition strip_rb (s : str) : option str :=
    match rev s with c :: r => if (c =? RB)%N then Some (rev r) else None | [] => None end.

  Definition espec_parse (s : str) : eres key :=
    match split_lb s with
    | None => if has_elem s then EOk (s, 0%N) else EErr UnknownElement
    | Some (sym, rest) =>
        match strip_rb rest with
        | None => EErr UnclosedIsotope
        | Some ds =>
            if negb (forallb is_digit ds) then EErr UnclosedIsotope else
            match parse_u16 ds with
            | None => EErr UnclosedIsotope
            | Some n => if has_elem sym then (if has_iso sym n then EOk (sym, n) else EErr UnknownElement)
                        else EErr UnknownElement
            end
        end
    end.

  (* Display *)
  Definition show_key (k : key) : str :=
    if (snd k =? 0)%N then fst k else fst k ++ [LB] ++ show_N (snd k) ++ [RB].

  Definition is_alphabetic (c : char) : bool := if (c <? 128)%N then is_alpha c else uni_alphabetic c.

  Definition quick_check (s : str) : like :=
    let n := blen s in
    match s with
    | [] => LikeNo
    | first :: _ =>
        let last := match rev s with l :: _ :: _ => l | _ => first end in
        let yn (b : bool) := if b then LikeYes else LikeNo in
        if Nat.eqb n 1 then yn (is_alphabetic first)
        else if Nat.ltb n 3 then yn (negb (last =? LB)%N && negb (last =? RB)%N && is_alphabetic first)
        else if Nat.eqb n 4 then (if is_alphabetic first then (if (last =? RB)%N then LikeMaybe else LikeNo) else LikeNo)
        else LikeMaybe
    end.

  (* ---- string-keyed reads, one transcription per representation ---- *)
  (* list form: find_str compares symbol text and requires isotope 0 *)
  Definition v_find_str (s : str) (l : ents) : Z := e_get (s, 0%N) l.
  Definition v_index_str (s : str) (l : ents) : Z :=
    match quick_check s with
    | LikeYes => v_find_str s l
    | LikeNo => 0%Z
    | LikeMaybe => match espec_parse s with EOk k => e_get k l | _ => 0%Z end
    end.
  (* map form: the symbol is resolved through the table to the isotope-free key *)
  Definition plain_key (s : str) : option key := if has_elem s then Some (s, 0%N) else None.
  Definition m_get_str (s : str) (l : ents) : Z := match plain_key s with Some k => e_get k l | None => 0%Z end.
  Definition m_index_str (s : str) (l : ents) : Z :=
    match quick_check s with
    | LikeYes => m_get_str s l
    | LikeNo => 0%Z
    | LikeMaybe => match espec_parse s with EOk k => e_get k l | _ => 0%Z end
    end.
End ESpec.
