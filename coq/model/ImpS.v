(* Combinators for the shallow embedding of the string-driven, fallible, state-passing Rust of src/formula.rs
   (tools/gen_formula.py -> gen/FormulaGen.v), and the general reasoning rules about them.  Companion of Imp.v /
   ImpW.v / ImpL.v; nothing here knows about any particular generated text.  The vocabulary for strings, slices,
   integer parsing, the parser record [cfg] with its setters, the result type [fres] with [bind] and the composition
   primitives are those of the hand-written model (Str.v, Comp.v, Formula.v): the generated text CALLS them, so what a
   source tie compares is the control structure and the bookkeeping, not the primitives.

     a function returning Result<T, FormulaParserError>          ~>  fres T         (Ok ~ FOk, Err e ~ FErr e)
     a slice &s[a..b] off a boundary / out of range (a panic)     ~>  FPanic         (through Formula.sl)
     e?                                                            ~>  x <- e ;; ...  (Formula.bind)
     a `&mut self` method                                          ~>  takes self : cfg, yields (value, self)
     for (i, c) in s.char_indices() { body }                       ~>  for_chars (char_indices s) (fun '(i, c) st => body) st
                                                                      (`return Err(e)` in the body ends the loop: FErr e)
     periodic_table.get(sym)                                       ~>  tbl_get O sym  (an element is represented by its symbol)
     elt.isotopes.contains_key(&n)                                 ~>  has_iso O elt n
     char::is_numeric / is_alphabetic / is_uppercase / is_lowercase~>  ASCII part computed, the rest an oracle of [O]

   [oracles] packs the parameters of the model (Unicode classes off ASCII, the two table predicates). *)
From Coq Require Import List ZArith NArith Bool Arith Lia.
From CE Require Import Str Comp Formula.
Import ListNotations.

Record oracles := mkOracles {
  uni_numeric : char -> bool;
  uni_alphabetic : char -> bool;
  uni_uppercase : char -> bool;
  uni_lowercase : char -> bool;
  has_elem : str -> bool;
  has_iso : str -> N -> bool }.

(* char::is_alphabetic / is_uppercase / is_lowercase: on ASCII they are the is_ascii_* tests *)
Definition char_is_alphabetic (O : oracles) (c : char) : bool := if (c <? 128)%N then is_alpha c else uni_alphabetic O c.
Definition char_is_uppercase (O : oracles) (c : char) : bool := if (c <? 128)%N then is_upper c else uni_uppercase O c.
Definition char_is_lowercase (O : oracles) (c : char) : bool := if (c <? 128)%N then is_lower c else uni_lowercase O c.

(* PeriodicTable::get : the element is its symbol *)
Definition tbl_get (O : oracles) (sym : str) : option str := if has_elem O sym then Some sym else None.

Definition char_indices (s : str) : list (nat * char) := indices s 0.

Definition fres_map {A B} (f : A -> B) (r : fres A) : fres B := bind r (fun a => FOk (f a)).

Section Loops.
  Context {A St : Type}.

  (* a loop whose body can fail (error / panic): the failure is the result of the loop *)
  Fixpoint for_chars (l : list A) (body : A -> St -> fres St) (s : St) : fres St :=
    match l with
    | [] => FOk s
    | x :: r => bind (body x s) (fun s' => for_chars r body s')
    end.

  Lemma for_chars_nil body s : for_chars [] body s = FOk s.
  Proof. reflexivity. Qed.

  Lemma for_chars_cons x r body s : for_chars (x :: r) body s = bind (body x s) (fun s' => for_chars r body s').
  Proof. reflexivity. Qed.

  Lemma for_chars_ext l body body' s :
    (forall x s, body x s = body' x s) -> for_chars l body s = for_chars l body' s.
  Proof.
    intros H. revert s. induction l as [|x r IH]; intros s; [reflexivity|].
    rewrite !for_chars_cons, H. destruct (body' x s); [apply IH | reflexivity | reflexivity].
  Qed.

  (* the loop followed by [k], against a structurally recursive function that performs one body step per element *)
  Lemma for_chars_rec {T : Type} (body : A -> St -> fres St) (f : list A -> St -> fres T) (k : St -> fres T) :
    (forall s, f [] s = k s) ->
    (forall x r s, f (x :: r) s = bind (body x s) (f r)) ->
    forall l s, bind (for_chars l body s) k = f l s.
  Proof.
    intros Hnil Hcons. induction l as [|x r IH]; intros s.
    - rewrite Hnil. reflexivity.
    - rewrite for_chars_cons, Hcons. destruct (body x s) as [s'| |]; [apply IH | reflexivity | reflexivity].
  Qed.
End Loops.

Lemma bind_FOk {A} (r : fres A) : bind r (fun a => FOk a) = r.
Proof. destruct r; reflexivity. Qed.

Lemma bind_assoc {A B C} (r : fres A) (f : A -> fres B) (g : B -> fres C) :
  bind (bind r f) g = bind r (fun a => bind (f a) g).
Proof. destruct r; reflexivity. Qed.

Lemma bind_ext {A B} (r : fres A) (f g : A -> fres B) : (forall a, f a = g a) -> bind r f = bind r g.
Proof. intros H. destruct r; [apply H | reflexivity | reflexivity]. Qed.

(* ---------- ASCII facts the source ties use ---------- *)
Lemma is_alpha_ascii c : is_alpha c = true -> (c <? 128)%N = true.
Proof.
  unfold is_alpha, is_upper, is_lower. intros H. apply N.ltb_lt.
  apply orb_true_iff in H. destruct H as [H|H]; apply andb_true_iff in H; destruct H as [_ H]; apply N.leb_le in H; lia.
Qed.

Lemma is_upper_alpha c : is_upper c = true -> is_alpha c = true.
Proof. unfold is_alpha. intros ->. reflexivity. Qed.

Lemma alpha_and_upper c : is_alpha c && is_upper c = is_upper c.
Proof. unfold is_alpha. destruct (is_upper c), (is_lower c); reflexivity. Qed.

(* under is_ascii_alphabetic, is_uppercase is is_ascii_uppercase (and so on) *)
Lemma char_is_uppercase_alpha O c : is_alpha c = true -> char_is_uppercase O c = is_upper c.
Proof. intros H. unfold char_is_uppercase. rewrite (is_alpha_ascii c H). reflexivity. Qed.

Lemma char_is_lowercase_alpha O c : is_alpha c = true -> char_is_lowercase O c = is_lower c.
Proof. intros H. unfold char_is_lowercase. rewrite (is_alpha_ascii c H). reflexivity. Qed.
