(* The two ways a source tie (coq/proofs/{Src,Poisson,Conv,Peak,Comp}Tie.v) compares a piece of generated text - an
   expression, one loop-body step - with the model's: every such comparison in those files is closed by [leaf], and

     strict mode  (the repository text)   Ltac leaf := leaf_strict.     for every [Num F]: bit-for-bit on binary64
     field mode   (tools/tie_modes.py)    Ltac leaf := leaf_field.      with [OF : OField N] in the section context

   [leaf_strict]: computation only - beta/iota/zeta, case analysis on the scrutinees of the goal's `if`/`match`, then
   [reflexivity] (the two sides are the same term).

   [leaf_field]: [leaf_strict], else the two sides may differ by the LAWS OF AN ORDERED FIELD, used only through
     - of_fma     fma a b c = a*b + c
     - Fdiv_def   a / b = a * (1/b)        (unconditional; the reciprocal 1/b is kept as the opaque atom [frecip N b])
     - of_Z_0, of_Z_1, of_sum0            of_Z 0 = 0, of_Z 1 = 1, sum0 = 0
     - [ring] over (of_field N OF)        commutative-ring laws of + * - opp 0 1
   and by nothing else: no hypothesis of the goal is ever rewritten with, no order law, no `<> 0` side condition is
   needed or assumed, no [field].  The kernel checks the resulting proof of `forall args, gen = model` under the
   single extra hypothesis [OF : OField N].

   How: normalise (rewrite the laws above wherever the term is not under a binder), then repeat
     reflexivity | ring (F-valued goals) | make ring-equal arguments of the atoms the ring normaliser cannot look into
     (leb ltb eqb is_finite is_infinite abs frecip) syntactically equal on both sides | case analysis on a closed
     scrutinee | go under the binder of map / filter / fold_left (and what [leaf_ext] adds) | f_equal. *)
From Coq Require Import ZArith List Bool Ring Field.
From CE Require Import Num OField.
Import ListNotations.

(* ---------- the laws, in the form the tactic rewrites with ---------- *)
Section Laws.
  Context {F : Type} (N : Num F).

  (* 1/y, never unfolded by the tactic: [Fdiv_def] states div by means of (finv y) = div one y, which is itself a div *)
  Definition frecip (y : F) : F := div N (one N) y.

  Context (OF : OField N).

  Lemma div_frecip x y : div N x y = mul N x (frecip y).
  Proof. exact (Fdiv_def (of_field N OF) x y). Qed.
End Laws.

(* ---------- going under binders: extensionality of the list functionals, with both sides' lists free ---------- *)
Lemma map_ext_eq {A B : Type} (f g : A -> B) l l' : l = l' -> (forall x, f x = g x) -> map f l = map g l'.
Proof. intros <- H. apply map_ext, H. Qed.

Lemma filter_ext_eq {A : Type} (f g : A -> bool) l l' : l = l' -> (forall x, f x = g x) -> filter f l = filter g l'.
Proof. intros <- H. apply filter_ext, H. Qed.

Lemma fold_left_ext_eq {A B : Type} (f g : A -> B -> A) l l' a a' :
  l = l' -> a = a' -> (forall x y, f x y = g x y) -> fold_left f l a = fold_left g l' a'.
Proof.
  intros <- <- H. revert a. induction l as [|y r IH]; intros a; [reflexivity|]. cbn [fold_left]. rewrite H. apply IH.
Qed.

(* ---------- computation ---------- *)

(* case analysis on one closed scrutinee of the goal, an innermost one (`let '(a, b) := if c then .. else .. in ..`: on c) *)
Ltac leaf_innermost x :=
  match x with
  | context [match ?y with _ => _ end] => leaf_innermost y
  | negb ?y => leaf_innermost y
  | andb ?y _ => leaf_innermost y
  | orb ?y _ => leaf_innermost y
  | _ => x
  end.

Ltac leaf_case :=
  once (match goal with
        | |- context [match ?x with _ => _ end] => let y := leaf_innermost x in destruct y
        end).

Ltac leaf_compute := cbv beta iota zeta delta [negb andb orb].

Ltac leaf_strict :=
  intros; cbv beta iota zeta;
  first [ reflexivity
        | repeat (leaf_case; leaf_compute); first [ reflexivity | rewrite ?app_nil_r; reflexivity ] ].

(* ---------- the field laws ---------- *)

(* extension point: a tie file adds the extensionality lemmas of its own loop combinators,
   e.g.  Ltac leaf_ext ::= first [ apply for_each_ext_eq; [| |intros] | ... ].   Each must leave goals of the form
   `x = y` / `forall .., body .. = body' ..`. *)
Ltac leaf_ext := fail.

Ltac leaf_norm N OF :=
  rewrite ?(of_fma N OF), ?(div_frecip N OF), ?(of_Z_0 N OF), ?(of_Z_1 N OF), ?(of_sum0 N OF).

(* t2 := t1 throughout the goal, when [t2 = t1] follows from equal heads and ring-equal arguments *)
Ltac leaf_merge t1 t2 :=
  tryif constr_eq t1 t2 then fail else
  (let H := fresh "Hmerge" in
   assert (H : t2 = t1) by (f_equal; ring);
   rewrite H; clear H).

Ltac leaf_merge_atoms N :=
  repeat (once (match goal with
    | |- context [frecip N ?a] => match goal with |- context [frecip N ?b] => leaf_merge (frecip N a) (frecip N b) end
    | |- context [abs N ?a] => match goal with |- context [abs N ?b] => leaf_merge (abs N a) (abs N b) end
    | |- context [leb N ?a ?c] => match goal with |- context [leb N ?b ?d] => leaf_merge (leb N a c) (leb N b d) end
    | |- context [ltb N ?a ?c] => match goal with |- context [ltb N ?b ?d] => leaf_merge (ltb N a c) (ltb N b d) end
    | |- context [eqb N ?a ?c] => match goal with |- context [eqb N ?b ?d] => leaf_merge (eqb N a c) (eqb N b d) end
    | |- context [is_finite N ?a] =>
        match goal with |- context [is_finite N ?b] => leaf_merge (is_finite N a) (is_finite N b) end
    | |- context [is_infinite N ?a] =>
        match goal with |- context [is_infinite N ?b] => leaf_merge (is_infinite N a) (is_infinite N b) end
    end)).

(* [fuel] bounds the depth of the descent (one unit per case analysis / binder / f_equal) *)
Ltac leaf_go N OF fuel :=
  lazymatch fuel with
  | O => fail "leaf_field: out of fuel"
  | S ?fuel' =>
    intros; leaf_compute; unfold geb, gtb; leaf_norm N OF; leaf_merge_atoms N;
    first
    [ reflexivity
    | ring
    | tryif leaf_case then leaf_go N OF fuel'
      else first
        [ rewrite ?app_nil_r; reflexivity
        | apply map_ext_eq; leaf_go N OF fuel'
        | apply filter_ext_eq; leaf_go N OF fuel'
        | apply fold_left_ext_eq; leaf_go N OF fuel'
        | leaf_ext; leaf_go N OF fuel'
          (* [f_equal] on two different heads hands the goal back under new premises: refused *)
        | progress f_equal; lazymatch goal with |- _ = _ => idtac end; leaf_go N OF fuel' ] ]
  end.

Ltac leaf_field :=
  first [ leaf_strict
        | lazymatch goal with
          | OF : OField ?N |- _ => solve [leaf_go N OF 40]
          end ].
