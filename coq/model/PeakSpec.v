(* Specification-side definitions for C13 / C14 (no proofs). *)
From Coq Require Import ZArith List Bool.
From CE Require Import Num OField Peak.
Import ListNotations.

Section PeakSpec.
  Context {F : Type} (N : Num F).

  (* running sums exactly as truncate_after's loop forms them: c_0 = 0 + x_0, c_(i+1) = c_i + x_(i+1) *)
  Fixpoint run_sums (l : list F) (acc : F) : list F :=
    match l with [] => [] | x :: r => let a := add N acc x in a :: run_sums r a end.
  Definition cums (p : tip (F:=F)) : list F := run_sums (map inten (peaks p)) (zero N).

  (* cumulative sums as IncrementalTruncationIter::new forms them (first entry is x_0 itself) *)
  Definition cums_iter (p : tip (F:=F)) : list F := cumul N (peaks p) None.

  Definition reaches (p : tip (F:=F)) (t : F) (k : nat) : bool := geb N (nth k (cums p) (zero N)) t.

  Definition ints (p : tip (F:=F)) : list F := map inten (peaks p).
  Definition positive (p : tip (F:=F)) : Prop := forall q, In q (peaks p) -> flt N (zero N) (inten q).

  (* the descending list n, n-1, ..., n-m+1 *)
  Fixpoint down_from (n m : nat) : list nat :=
    match m with O => [] | S m' => n :: down_from (Nat.pred n) m' end.
End PeakSpec.
