(* Comparison of the model's runtime table with a dump of the real one (correspondence run). *)
From Coq Require Import ZArith NArith List String Bool Floats.
From CE Require Import TableTypes TableModel NumFloat.
Import ListNotations.

Record rt_iso := mkRtI { r_key : N; r_mass : float; r_ab : float; r_neutrons : N; r_shift : Z }.
Record rt_elem := mkRtE { r_mapkey : string; r_sym : string; r_mai : N; r_mam : float; r_number : N;
                          r_min : Z; r_max : Z; r_isos : list rt_iso }.

Definition rt_iso_ok (e : elem) (r : rt_iso) : bool :=
  match assoc_get (r_key r) (isos e) with
  | None => false
  | Some i => f_same (f_micro (mass i)) (r_mass r) && f_same (f_micro (ab i)) (r_ab r)
              && N.eqb (neutrons i) (r_neutrons r) && Z.eqb (shift i) (r_shift r)
  end.

Definition rt_elem_ok (t : list (string * elem)) (r : rt_elem) : bool :=
  match tbl_get (r_mapkey r) t with
  | None => false
  | Some e => String.eqb (sym e) (r_sym r) && N.eqb (mai e) (r_mai r) && f_same (f_micro (mam e)) (r_mam r)
              && N.eqb (number e) (r_number r) && Z.eqb (min_shift e) (r_min r) && Z.eqb (max_shift e) (r_max r)
              && Nat.eqb (List.length (isos e)) (List.length (r_isos r))
              && forallb (rt_iso_ok e) (r_isos r)
  end.

Fixpoint idx_where {A} (f : A -> bool) (n : N) (l : list A) : list N :=
  match l with [] => [] | x :: r => (if f x then [n] else []) ++ idx_where f (n + 1)%N r end.

(* indices of dumped elements that disagree with the model, then 100000 + index of model elements
   the dump does not have *)
Definition rt_bad (t : list (string * elem)) (rt : list rt_elem) : list N :=
  idx_where (fun r => negb (rt_elem_ok t r)) 0%N rt
  ++ idx_where (fun p => negb (existsb (fun r => String.eqb (r_mapkey r) (fst p)) rt)) 100000%N t.

(* encoded diagnosis lists for the check driver: element index * 100 + clause number *)
Definition failures_enc (t : list (string * elem)) (known : string -> bool) : list N :=
  List.concat (map (fun ip => let '(i, p) := ip in
      if known (fst p) then [] else
      map (fun c => (i * 100 + N.of_nat c)%N) (failing_idx 1 (elem_clauses (fst p) (snd p))))
    (combine (map N.of_nat (seq 0 (List.length t))) t)).

Definition diff_enc (a b : list (string * elem)) : list N :=
  idx_where (fun p => match tbl_get (fst p) a with Some e => negb (elem_eqb e (snd p)) | None => true end) 0%N b
  ++ idx_where (fun p => match tbl_get (fst p) b with Some _ => false | None => true end) 100000%N a.

(* the Z-level binary64 division agrees with the primitive one on every table value *)
Definition micro_vals (t : list (string * elem)) : list Z :=
  List.concat (map (fun p => mam (snd p) :: List.concat (map (fun q => [mass (snd q); ab (snd q)]) (isos (snd p)))) t).
Definition frac_same (fr : Z * Z) (f : float) : bool :=
  match f_exact f with Some (n, d) => Z.eqb (fst fr * d) (n * snd fr) | None => false end.
Definition z64_bad (t : list (string * elem)) : list N :=
  idx_where (fun z => negb (frac_same (dbl_of_dec z 6) (f_micro z))) 0%N (micro_vals t).
