(* Vocabulary for the shallow embedding of the formula PRINTER: `to_formula` of src/formula.rs, the `Display` impls that
   call it and the `From<&_> for ChemicalCompositionRef` impls through which they reach it (tools/gen_render.py ->
   gen/RenderGen.v), and the general facts about that vocabulary.  Companion of Imp.v / ImpW.v / ImpL.v / ImpS.v / ImpE.v;
   nothing here knows about any particular generated text.  Strings, integer printing and the string-keyed reads are
   those of the hand-written model (Str.v: show_Z / show_N / str_eqb, ESpec.v: v_index_str / m_index_str); this file adds

     ChemicalComposition (the enum)                 ~>  ccomp = CVec l | CMap l      (l: the entries in iteration order)
     ChemicalCompositionVec / ChemicalCompositionMap~>  ents                         (the entries in iteration order)
     ChemicalCompositionRef                         ~>  cref = RVec l | RMap l
     c[s]  (Index<&str> for ChemicalCompositionRef) ~>  cref_index_str tbl ua c s    (dispatches to the model's v_/m_index_str)
     c.iter()  /  c.len()                           ~>  cref_iter c / cref_len c
     key.element.symbol / key.isotope               ~>  spec_symbol key / spec_isotope key   (key = (symbol text, isotope))
     String::with_capacity(n) / String::new()       ~>  string_with_capacity n = [] / []
     s.push(c) / s.push_str(t)                      ~>  s ++ [c] / s ++ t
     a.cmp(&b) on String / &str                     ~>  str_cmp a b : comparison      (code-point order = UTF-8 byte order)
     a.cmp(&b) on u16 / i32                         ~>  N.compare / Z.compare
     o1.then(o2)                                    ~>  ord_then o1 o2
     v.sort_by(|a, b| e)                            ~>  sort_by (fun a b => e) v      (STABLE insertion sort: slice::sort_by
                                                                                      is stable; see [sort_by_stable])
     v.sort_by_key(|a| e)                           ~>  sort_by_key <cmp of the key type> (fun a => e) v
     for x in v { body }                            ~>  for_each v (fun st x => body) st     (st: the locals body assigns;
                                                                                      `continue` yields st as it is) *)
From Coq Require Import List ZArith NArith Bool Arith String Permutation Sorted Lia.
From CE Require Import Str TableTypes TableModel Comp ESpec ImpE.
Import ListNotations.
Local Open Scope nat_scope.
Local Open Scope list_scope.

(* ---------- the composition types, as far as the printer looks at them ---------- *)
Inductive ccomp := CVec (l : ents) | CMap (l : ents).
Inductive cref := RVec (l : ents) | RMap (l : ents).
Definition cref_ents (c : cref) : ents := match c with RVec l => l | RMap l => l end.
Definition cref_is_map (c : cref) : bool := match c with RVec _ => false | RMap _ => true end.
Definition ccomp_ents (c : ccomp) : ents := match c with CVec l => l | CMap l => l end.
Definition ccomp_is_map (c : ccomp) : bool := match c with CVec _ => false | CMap _ => true end.

Definition cref_index_str (tbl : ptable) (ua : char -> bool) (c : cref) (s : str) : Z :=
  match c with RVec l => v_index_str tbl ua s l | RMap l => m_index_str tbl ua s l end.
Definition cref_iter (c : cref) : list (key * Z) := cref_ents c.
Definition cref_len (c : cref) : nat := List.length (cref_ents c).

Definition spec_symbol (k : key) : str := fst k.
Definition spec_isotope (k : key) : N := snd k.

Definition string_with_capacity (n : nat) : str := [].

(* ---------- Ordering ---------- *)
Definition ord_then (a b : comparison) : comparison := match a with Eq => b | _ => a end.
Definition ord_reverse (a : comparison) : comparison := CompOpp a.

(* str::cmp is the lexicographic order of the UTF-8 bytes, which is the lexicographic order of the code points *)
Fixpoint str_cmp (a b : str) : comparison :=
  match a, b with
  | [], [] => Eq
  | [], _ :: _ => Lt
  | _ :: _, [] => Gt
  | x :: r, y :: s => match (x ?= y)%N with Eq => str_cmp r s | o => o end
  end.

Definition pair_cmp {A B} (ca : A -> A -> comparison) (cb : B -> B -> comparison) (x y : A * B) : comparison :=
  ord_then (ca (fst x) (fst y)) (cb (snd x) (snd y)).

(* ---------- slice::sort_by: a stable sort.  The classic insertion sort: the elements are taken first to last and each
   is moved left past the STRICTLY greater elements of the already sorted prefix (this is also what the std
   implementation does on short slices) ---------- *)
Section Sort.
  Context {A : Type}.
  Variable cmp : A -> A -> comparison.

  Fixpoint ins_by (x : A) (l : list A) : list A :=
    match l with
    | [] => [x]
    | y :: r => match cmp y x with Gt => x :: y :: r | _ => y :: ins_by x r end
    end.
  Definition sort_by (l : list A) : list A := fold_left (fun acc x => ins_by x acc) l [].

  Lemma sort_by_fold_right : forall l, sort_by l = fold_right ins_by [] (rev l).
  Proof. intros l. unfold sort_by. rewrite fold_left_rev_right. reflexivity. Qed.

  Lemma ins_by_perm : forall x l, Permutation (ins_by x l) (x :: l).
  Proof.
    intros x l. induction l as [|y r IH]; [apply Permutation_refl|]. cbn [ins_by].
    destruct (cmp y x); try apply Permutation_refl;
      (apply (perm_trans (l' := y :: x :: r)); [apply perm_skip; exact IH | apply perm_swap]).
  Qed.

  Lemma sort_by_perm : forall l, Permutation (sort_by l) l.
  Proof.
    intros l. rewrite sort_by_fold_right. apply (perm_trans (l' := rev l)); [|apply Permutation_sym, Permutation_rev].
    induction (rev l) as [|x r IH]; [apply Permutation_refl|]. cbn [fold_right].
    apply (perm_trans (ins_by_perm _ _)). apply perm_skip. exact IH.
  Qed.

  (* it sorts, for a comparison that is a total preorder *)
  Definition le_by (x y : A) : Prop := cmp x y <> Gt.
  Hypothesis cmp_antisym : forall x y, cmp y x = CompOpp (cmp x y).
  Hypothesis cmp_trans : forall x y z, cmp x y <> Gt -> cmp y z <> Gt -> cmp x z <> Gt.

  Lemma le_by_refl : forall x, le_by x x.
  Proof. intros x H. pose proof (cmp_antisym x x) as S. rewrite H in S. discriminate S. Qed.

  Lemma gt_le_by : forall x y, cmp x y = Gt -> le_by y x.
  Proof. intros x y H. unfold le_by. rewrite cmp_antisym, H. discriminate. Qed.

  Lemma eq_le_by : forall x y, cmp x y = Eq -> le_by x y /\ le_by y x.
  Proof. intros x y H. unfold le_by. rewrite (cmp_antisym x y), H. split; discriminate. Qed.

  Lemma ins_by_In : forall x l y, In y (ins_by x l) <-> y = x \/ In y l.
  Proof.
    intros x l y. split; intros H.
    - apply (Permutation_in _ (ins_by_perm x l)) in H. destruct H as [H|H]; [left; symmetry; exact H | right; exact H].
    - apply (Permutation_in _ (Permutation_sym (ins_by_perm x l))). destruct H as [H|H]; [left; symmetry; exact H | right; exact H].
  Qed.

  Lemma ins_by_sorted : forall x l, StronglySorted le_by l -> StronglySorted le_by (ins_by x l).
  Proof.
    intros x l. induction l as [|y r IH]; intros H.
    - constructor; constructor.
    - inversion H as [|? ? Hr Hy]; subst. cbn [ins_by]. destruct (cmp y x) eqn:E.
      + constructor; [apply IH, Hr|]. apply Forall_forall. intros z Hz. apply ins_by_In in Hz.
        destruct Hz as [Hz|Hz]; [subst z; unfold le_by; rewrite E; discriminate | exact (proj1 (Forall_forall _ _) Hy z Hz)].
      + constructor; [apply IH, Hr|]. apply Forall_forall. intros z Hz. apply ins_by_In in Hz.
        destruct Hz as [Hz|Hz]; [subst z; unfold le_by; rewrite E; discriminate | exact (proj1 (Forall_forall _ _) Hy z Hz)].
      + constructor; [exact H|]. constructor; [exact (gt_le_by _ _ E)|].
        apply Forall_forall. intros z Hz. apply (cmp_trans x y z); [exact (gt_le_by _ _ E)|].
        exact (proj1 (Forall_forall _ _) Hy z Hz).
  Qed.

  Lemma sort_by_sorted : forall l, StronglySorted le_by (sort_by l).
  Proof.
    intros l. rewrite sort_by_fold_right. induction (rev l) as [|x r IH]; [constructor|].
    cbn [fold_right]. apply ins_by_sorted, IH.
  Qed.

  (* it is stable: the elements that compare Eq to a given z keep their relative order *)
  Definition same_class (z x : A) : bool := match cmp z x with Eq => true | _ => false end.

  Lemma ins_by_stable : forall z x l, StronglySorted le_by l ->
    filter (same_class z) (ins_by x l) = filter (same_class z) l ++ filter (same_class z) [x].
  Proof.
    intros z x l. induction l as [|y r IH]; intros H; [reflexivity|].
    inversion H as [|? ? Hr Hy]; subst. cbn [ins_by]. destruct (cmp y x) eqn:E.
    - cbn [filter]. rewrite (IH Hr). destruct (same_class z y); reflexivity.
    - cbn [filter]. rewrite (IH Hr). destruct (same_class z y); reflexivity.
    - (* x goes before y > x: when x is in the class of z, nothing from y on is *)
      cbn [filter]. destruct (same_class z x) eqn:Ezx; [|cbn [app]; rewrite app_nil_r; reflexivity].
      assert (Hf : filter (same_class z) (y :: r) = []).
      { assert (Hnone : forall w, In w (y :: r) -> same_class z w = false).
        { intros w Hw. destruct (same_class z w) eqn:Ezw; [exfalso|reflexivity].
          unfold same_class in Ezx, Ezw.
          destruct (cmp z x) eqn:E1; try discriminate Ezx. destruct (cmp z w) eqn:E2; try discriminate Ezw.
          assert (Hyw : le_by y w).
          { destruct Hw as [Hw|Hw]; [subst w; apply le_by_refl | exact (proj1 (Forall_forall _ _) Hy w Hw)]. }
          assert (Hyx : le_by y x).
          { apply (cmp_trans y w x); [exact Hyw|]. apply (cmp_trans w z x); [apply (eq_le_by z w E2) | apply (eq_le_by z x E1)]. }
          apply Hyx. exact E. }
        clear - Hnone. induction (y :: r) as [|w t IHt]; [reflexivity|]. cbn [filter].
        rewrite (Hnone w (or_introl eq_refl)). apply IHt. intros v Hv. apply Hnone. right. exact Hv. }
      cbn [filter] in Hf. rewrite Hf. reflexivity.
  Qed.

  Theorem sort_by_stable : forall z l, filter (same_class z) (sort_by l) = filter (same_class z) l.
  Proof.
    intros z l. unfold sort_by.
    assert (G : forall l acc, StronglySorted le_by acc ->
                filter (same_class z) (fold_left (fun acc x => ins_by x acc) l acc)
                = filter (same_class z) acc ++ filter (same_class z) l).
    { clear l. induction l as [|x r IH]; intros acc Hs; [cbn [fold_left filter]; rewrite app_nil_r; reflexivity|].
      cbn [fold_left]. rewrite (IH _ (ins_by_sorted x acc Hs)), (ins_by_stable z x acc Hs).
      rewrite <- app_assoc. f_equal. cbn [filter]. destruct (same_class z x); reflexivity. }
    rewrite (G l [] (SSorted_nil _)). reflexivity.
  Qed.
End Sort.

Definition sort_by_key {A K} (kcmp : K -> K -> comparison) (f : A -> K) (l : list A) : list A :=
  sort_by (fun a b => kcmp (f a) (f b)) l.

(* an insertion that places x after the elements [leb y x] holds for, as a hand-written model would write it, is
   [ins_by] for every comparison that is Gt exactly where leb fails *)
Lemma ins_by_leb {A} (cmp : A -> A -> comparison) (leb : A -> A -> bool)
  (ins : A -> list A -> list A) :
  (forall x, ins x [] = [x]) ->
  (forall x y r, ins x (y :: r) = if leb y x then y :: ins x r else x :: y :: r) ->
  (forall x y, cmp y x = Gt <-> leb y x = false) ->
  forall x l, ins_by cmp x l = ins x l.
Proof.
  intros Hn Hc H x l. induction l as [|y r IH]; [symmetry; apply Hn|]. cbn [ins_by]. rewrite Hc.
  destruct (cmp y x) eqn:E; destruct (leb y x) eqn:L; rewrite ?IH; try reflexivity.
  - exfalso. apply H in L. rewrite L in E. discriminate E.
  - exfalso. apply H in L. rewrite L in E. discriminate E.
  - exfalso. apply H in E. rewrite E in L. discriminate L.
Qed.

(* ---------- for loops over a Vec ---------- *)
Definition for_each {A St : Type} (l : list A) (body : St -> A -> St) (s : St) : St := fold_left body l s.

Lemma for_each_append {A B} (l : list A) (body : list B -> A -> list B) (g : A -> list B) (s : list B) :
  (forall s x, body s x = s ++ g x) -> for_each l body s = s ++ List.concat (map g l).
Proof.
  intros H. unfold for_each. revert s. induction l as [|x r IH]; intros s.
  - cbn. rewrite app_nil_r. reflexivity.
  - cbn [fold_left map List.concat]. rewrite IH, H, app_assoc. reflexivity.
Qed.

(* ---------- facts about the string order ---------- *)
Lemma str_cmp_refl : forall a, str_cmp a a = Eq.
Proof. induction a as [|x r IH]; [reflexivity|]. cbn [str_cmp]. rewrite N.compare_refl. exact IH. Qed.

Lemma str_cmp_eq : forall a b, str_cmp a b = Eq <-> a = b.
Proof.
  induction a as [|x r IH]; destruct b as [|y s]; cbn [str_cmp]; split; intros H; try reflexivity; try discriminate H.
  - destruct (x ?= y)%N eqn:E; try discriminate H. apply N.compare_eq in E. apply IH in H. subst. reflexivity.
  - inversion H. subst. rewrite N.compare_refl. apply IH. reflexivity.
Qed.
