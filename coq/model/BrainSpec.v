(* Specification-side definitions for C08 / C09 / C03 (no proofs). *)
From Coq Require Import List ZArith NArith Bool Arith String.
From CE Require Import Num Str TableTypes TableModel Comp Mz Peak Poisson Brain.
Import ListNotations.

(* the shape of an element's coefficient vector does not depend on the numeric interpretation:
   it is read off the one-point interpretation *)
Definition NumUnit : Num unit :=
  mkNum unit tt tt tt (fun _ _ => tt) (fun _ _ => tt) (fun _ _ => tt) (fun _ _ => tt) (fun _ => tt) (fun _ => tt)
        (fun _ _ _ => tt) (fun _ => tt) (fun _ _ => tt) (fun _ _ => false) (fun _ _ => true) (fun _ _ => true)
        (fun _ => true) (fun _ => false).

(* BRAIN can read the element: both coefficient extractions succeed, with equal lengths that exceed the
   element's maximum neutron shift (so every power sum a request of order <= max shift reads exists) *)
Definition brain_elem_ok (e : elem) : bool :=
  match coeffs NumUnit e false, coeffs NumUnit e true with
  | Some a, Some b => Nat.ltb (Z.to_nat (max_shift e)) (List.length a) && Nat.eqb (List.length a) (List.length b)
                      && (0 <=? max_shift e)%Z
  | _, _ => false
  end.

Section Requests.
  Context {F : Type} (N : Num F).
  Record request := mkReq { rq_comp : bcomp; rq_order : Z; rq_base : F; rq_charge : Z; rq_carrier : F }.

  Definition gen_call (ch : cache (F:=F)) (r : request) : option (list (F * F)) * cache (F:=F) :=
    gen_step N ch (rq_comp r) (rq_order r) (rq_base r) (rq_charge r) (rq_carrier r).
  Definition stateless (r : request) : option (list (F * F)) :=
    brain N (rq_comp r) (rq_order r) (rq_base r) (rq_charge r) (rq_carrier r).
  (* the cache after a history of calls on a fresh generator *)
  Definition gen_run (reqs : list request) : cache (F:=F) := fold_left (fun ch r => snd (gen_call ch r)) reqs [].

  (* requests only mention elements BRAIN can read, and a symbol names one element *)
  Definition reqs_ok (reqs : list request) : Prop :=
    (forall r en, In r reqs -> In en (rq_comp r) -> brain_elem_ok (fst en) = true)
    /\ (forall r r' en en', In r reqs -> In r' reqs -> In en (rq_comp r) -> In en' (rq_comp r') ->
          sym (fst en) = sym (fst en') -> fst en = fst en').
End Requests.

(* the two vectors BRAIN computes before normalisation (brain = finish of these) *)
Section Vectors.
  Context {F : Type} (N : Num F).
  Definition brain_vectors (c : bcomp) (order_req : Z) (base : F) : option (nat * list F * list F) :=
    match constants_fresh N c with
    | None => None
    | Some cs0 =>
        let mv := max_variants c in
        let order := resolve_order order_req mv in
        if (order <? 0)%Z then None else
        let cs := map (phi_update N order) cs0 in
        let o := Z.to_nat order in
        match prob_vector N cs c o mv base with
        | None => None
        | Some pv => match center_vector N cs c o mv base pv with
                     | None => None
                     | Some cv => Some (o, pv, cv)
                     end
        end
    end.
End Vectors.

(* compositions in the domain of the algebraic theorem: distinct elements BRAIN can read, positive counts *)
Definition bcomp_ok (c : bcomp) : bool :=
  forallb (fun en => brain_elem_ok (fst en) && (0 <? snd en)%Z) c
  && Nat.eqb (List.length (nodup string_dec (map (fun en => sym (fst en)) c))) (List.length c).

Definition elem0 : elem := mkE EmptyString [] 0%N 0%Z 0%N 0%Z 0%Z.
Definition en0 : elem * Z := (elem0, 0%Z).

(* the lightest isotope BRAIN finds for an element (the last one its coefficient loop visits); its abundance and
   mass must be non-zero for the normalisation by the constant term to mean anything *)
Fixpoint tail_loop (e : elem) (is_ : list nat) (last : option iso) : option iso :=
  match is_ with
  | [] => last
  | i :: rest =>
      let kz := (Z.of_nat (List.length (isos e)) + Z.of_N (number e) - Z.of_nat i - 1)%Z in
      if (kz <? 0)%Z then last else
      match assoc_get (Z.to_N kz) (isos e) with
      | None => tail_loop e rest last
      | Some iso => tail_loop e rest (Some iso)
      end
  end.
Definition elem_tail_pos (e : elem) : bool :=
  match tail_loop e (seq 0 (Z.to_nat (max_shift e - min_shift e + 1))) None with
  | Some i => (0 <? TableModel.ab i)%Z && (0 <? TableModel.mass i)%Z
  | None => false
  end.
Definition bcomp_pos (c : bcomp) : bool := forallb (fun en => elem_tail_pos (fst en)) c.

(* the complement of keep_real: the variants the 1e-10 rule drops *)
Section SkipReal.
  Context {F : Type} (N : Num F).
  Fixpoint skip_real (l : list (F * F)) (has_real : bool) : list (F * F) :=
    match l with
    | [] => []
    | (m, p) :: r => if ltb N p (tiny10 N)
                     then (if has_real then (m, p) :: skip_real r has_real else skip_real r has_real)
                     else skip_real r true
    end.
End SkipReal.

(* ---- which elements BRAIN reads faithfully (decided on the table, in integers) ---- *)
(* coefficient extraction at the integer interpretation: abundances in micro-units, `one` = 1 *)
Definition NumZmicro : Num Z :=
  mkNum Z 0%Z 1%Z 0%Z Z.add Z.sub Z.mul Z.div Z.opp Z.abs (fun a b c => (a * b + c)%Z)
        (fun z => z) (fun num _ => num) Z.ltb Z.leb Z.eqb (fun _ => true) (fun _ => false).

(* the element's true abundance polynomial: coefficient d = abundance (micro) of the isotope d neutrons above the
   lightest one, 0 where the ladder has a gap *)
Definition true_poly (e : elem) : list Z :=
  map (fun d => match find (fun p => (TableModel.shift (snd p) =? min_shift e + Z.of_nat d)%Z) (isos e) with
                | Some p => TableModel.ab (snd p) | None => 0%Z end)
      (seq 0 (Z.to_nat (max_shift e - min_shift e + 1))).

(* faithful: the polynomial the code extracts is the true one, and it is based on the lightest isotope *)
Definition faithful (e : elem) : bool :=
  match coeffs NumZmicro e false with
  | Some acc => (if list_eq_dec Z.eq_dec (rev acc) (true_poly e) then true else false) && (min_shift e =? 0)%Z
  | None => false
  end.

(* ---- mass bounds (for C09b) ---- *)
(* the isotopes BRAIN's coefficient loop finds, in the order it finds them *)
Fixpoint found_loop (e : elem) (is_ : list nat) : list iso :=
  match is_ with
  | [] => []
  | i :: rest =>
      let kz := (Z.of_nat (List.length (isos e)) + Z.of_N (number e) - Z.of_nat i - 1)%Z in
      if (kz <? 0)%Z then found_loop e rest else
      match assoc_get (Z.to_N kz) (isos e) with
      | None => found_loop e rest
      | Some iso => iso :: found_loop e rest
      end
  end.
Definition found_isos (e : elem) : list iso := found_loop e (seq 0 (Z.to_nat (max_shift e - min_shift e + 1))).
Definition elem_min_mass (e : elem) : Z :=
  match map TableModel.mass (found_isos e) with [] => 0%Z | x :: r => fold_left Z.min r x end.
Definition elem_max_mass (e : elem) : Z :=
  match map TableModel.mass (found_isos e) with [] => 0%Z | x :: r => fold_left Z.max r x end.
(* all found isotopes have positive abundance and mass, and the recorded monoisotopic mass is the mass of the lightest
   isotope found (the one the polynomials are normalised by) *)
Definition elem_mass_sane (e : elem) : bool :=
  forallb (fun i => (0 <? TableModel.ab i)%Z && (0 <? TableModel.mass i)%Z) (found_isos e)
  && match tail_loop e (seq 0 (Z.to_nat (max_shift e - min_shift e + 1))) None with
     | Some t => (TableModel.mass t =? mam e)%Z
     | None => false
     end.
