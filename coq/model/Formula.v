(* formula.rs: the character-driven parser (as repaired by the fix: commits), transcribed with its
   byte-offset bookkeeping.  `FPanic` is the outcome of an out-of-range / non-boundary slice.
   The accumulator is the list form of Comp.v (ChemicalComposition::default() is the Vec variant).
   No proofs in this file. *)
From Coq Require Import List ZArith NArith Bool Arith String.
From CE Require Import Str TableTypes TableModel Comp ESpec.
Import ListNotations.

Inductive st := New | Element | Isotope | IsotopeToCount | Count | Group | GroupToGroupCount | GroupCount.
Inductive err := InvalidStart | ElementCountMalformed | IsotopeCountMalformed | GroupCountMalformed | IncompleteFormula | InvalidElement.
Inductive fres (A : Type) := FOk (a : A) | FErr (e : err) | FPanic.
Arguments FOk {A}. Arguments FErr {A}. Arguments FPanic {A}.
Definition bind {A B} (r : fres A) (f : A -> fres B) : fres B := match r with FOk a => f a | FErr e => FErr e | FPanic => FPanic end.
Notation "x <- r ;; k" := (bind r (fun x => k)) (at level 61, r at next level, right associativity).

Section Parser.
(* char::is_numeric on non-ASCII code points: an oracle *)
Variable uni_numeric : char -> bool.
Definition is_numeric (c : char) := if (c <? 128)%N then is_digit c else uni_numeric c.

(* the periodic table, through two predicates *)
Variable has_elem : str -> bool.
Variable has_iso : str -> N -> bool.

Record cfg := { es : nat; ee : nat; is_ : nat; ie : nat; cs : nat; ce : nat; pstack : Z;
                gs : nat; ge : nat; gcs : nat; gce : nat; fstate : st }.
Definition cfg0 := {| es := 0; ee := 0; is_ := 0; ie := 0; cs := 0; ce := 0; pstack := 0; gs := 0; ge := 0; gcs := 0; gce := 0; fstate := New |}.

Definition sl (s : str) a b : fres str := match slice s a b with Some x => FOk x | None => FPanic end.
Definition of_opt {A} (e : err) (o : option A) : fres A := match o with Some a => FOk a | None => FErr e end.

(* parse_element_from_string (fixed: fallible lookup) ; resets es/ee *)
Definition get_elem (s : str) (c : cfg) : fres (str * cfg) :=
  sym <- sl s (es c) (ee c) ;;
  if has_elem sym then FOk (sym, {| es := 0; ee := 0; is_ := is_ c; ie := ie c; cs := cs c; ce := ce c; pstack := pstack c;
                                   gs := gs c; ge := ge c; gcs := gcs c; gce := gce c; fstate := fstate c |})
  else FErr InvalidElement.
Definition check_iso (sym : str) (iso : N) : fres N :=
  if (iso =? 0)%N || has_iso sym iso then FOk iso else FErr IsotopeCountMalformed.

Definition set_es c v := {| es := v; ee := ee c; is_ := is_ c; ie := ie c; cs := cs c; ce := ce c; pstack := pstack c; gs := gs c; ge := ge c; gcs := gcs c; gce := gce c; fstate := fstate c |}.
Definition set_ee c v := {| es := es c; ee := v; is_ := is_ c; ie := ie c; cs := cs c; ce := ce c; pstack := pstack c; gs := gs c; ge := ge c; gcs := gcs c; gce := gce c; fstate := fstate c |}.
Definition set_is c v := {| es := es c; ee := ee c; is_ := v; ie := ie c; cs := cs c; ce := ce c; pstack := pstack c; gs := gs c; ge := ge c; gcs := gcs c; gce := gce c; fstate := fstate c |}.
Definition set_ie c v := {| es := es c; ee := ee c; is_ := is_ c; ie := v; cs := cs c; ce := ce c; pstack := pstack c; gs := gs c; ge := ge c; gcs := gcs c; gce := gce c; fstate := fstate c |}.
Definition set_cs c v := {| es := es c; ee := ee c; is_ := is_ c; ie := ie c; cs := v; ce := ce c; pstack := pstack c; gs := gs c; ge := ge c; gcs := gcs c; gce := gce c; fstate := fstate c |}.
Definition set_ce c v := {| es := es c; ee := ee c; is_ := is_ c; ie := ie c; cs := cs c; ce := v; pstack := pstack c; gs := gs c; ge := ge c; gcs := gcs c; gce := gce c; fstate := fstate c |}.
Definition set_ps c v := {| es := es c; ee := ee c; is_ := is_ c; ie := ie c; cs := cs c; ce := ce c; pstack := v; gs := gs c; ge := ge c; gcs := gcs c; gce := gce c; fstate := fstate c |}.
Definition set_gs c v := {| es := es c; ee := ee c; is_ := is_ c; ie := ie c; cs := cs c; ce := ce c; pstack := pstack c; gs := v; ge := ge c; gcs := gcs c; gce := gce c; fstate := fstate c |}.
Definition set_ge c v := {| es := es c; ee := ee c; is_ := is_ c; ie := ie c; cs := cs c; ce := ce c; pstack := pstack c; gs := gs c; ge := v; gcs := gcs c; gce := gce c; fstate := fstate c |}.
Definition set_gcs c v := {| es := es c; ee := ee c; is_ := is_ c; ie := ie c; cs := cs c; ce := ce c; pstack := pstack c; gs := gs c; ge := ge c; gcs := v; gce := gce c; fstate := fstate c |}.
Definition set_gce c v := {| es := es c; ee := ee c; is_ := is_ c; ie := ie c; cs := cs c; ce := ce c; pstack := pstack c; gs := gs c; ge := ge c; gcs := gcs c; gce := v; fstate := fstate c |}.
Definition set_st c v := {| es := es c; ee := ee c; is_ := is_ c; ie := ie c; cs := cs c; ce := ce c; pstack := pstack c; gs := gs c; ge := ge c; gcs := gcs c; gce := gce c; fstate := v |}.

(* start of a new item on delimiter character ch at offset i; e is the error for a non-delimiter *)
Definition start_item (paren_assign : bool) (e : err) (c : cfg) (i : nat) (ch : char) : fres cfg :=
  if (ch =? LP)%N then FOk (set_st (set_gs (set_ps c (if paren_assign then 1 else pstack c + 1)%Z) (i + 1)) Group)
  else if is_upper ch then FOk (set_st (set_es c i) Element)
  else FErr e.

Definition parse_isotope_slice (s : str) (c : cfg) : fres N :=
  t <- sl s (is_ c) (ie c) ;; of_opt IsotopeCountMalformed (parse_u16 t).

Section Step.
Variable parse_rec : str -> fres ents.   (* recursive call on a group body *)

Definition take_count (s : str) (c : cfg) : fres (option N * cfg) :=
  t <- sl s (cs c) (ce c) ;; FOk (parse_i32 t, set_ce (set_cs c 0) 0).
Definition take_gcount (s : str) (c : cfg) : fres (option N * cfg) :=
  t <- sl s (gcs c) (gce c) ;; FOk (parse_i32 t, set_gce (set_gcs c 0) 0).
Definition take_group (s : str) (c : cfg) : fres (ents * cfg) :=
  t <- sl s (gs c) (ge c) ;; g <- parse_rec t ;; FOk (g, c).

Definition step (s : str) (acc : ents) (c : cfg) (i : nat) (ch : char) : fres (ents * cfg) :=
  match fstate c with
  | New =>
      if is_upper ch then FOk (acc, set_st (set_es c i) Element)
      else if (ch =? LP)%N then FOk (acc, set_st (set_gs (set_ps c (pstack c + 1)%Z) (i + 1)) Group)
      else FErr InvalidStart
  | Group =>
      if (ch =? RP)%N then
        let c := set_ps c (pstack c - 1)%Z in
        if (pstack c =? 0)%Z then FOk (acc, set_st (set_ge c i) GroupToGroupCount) else FOk (acc, c)
      else if (ch =? LP)%N then FOk (acc, set_ps c (pstack c + 1)%Z)
      else FOk (acc, c)
  | Element =>
      if is_alpha ch then
        if is_upper ch then
          r <- get_elem s (set_ee c i) ;;
          let '(sym, c) := r in
          FOk (e_inc (sym, 0%N) 1 acc, set_ee (set_es (set_st c Element) i) 0)
        else FOk (acc, c)
      else if is_numeric ch then FOk (acc, set_st (set_cs (set_ee c i) i) Count)
      else if (ch =? LB)%N then FOk (acc, set_st (set_is (set_ee c i) (i + 1)) Isotope)
      else if (ch =? LP)%N then
        r <- get_elem s (set_ee c i) ;;
        let '(sym, c) := r in
        FOk (e_inc (sym, 0%N) 1 acc, set_st (set_gs (set_ps c (pstack c + 1)%Z) (i + 1)) Group)
      else FOk (acc, c)
  | Isotope =>
      if (ch =? RB)%N then FOk (acc, set_st (set_ie c i) IsotopeToCount)
      else if negb (is_numeric ch) then FErr IsotopeCountMalformed
      else FOk (acc, c)
  | Count =>
      if negb (is_numeric ch) then
        r <- take_count s (set_ce c i) ;;
        let '(cnt, c) := r in
        cnt <- of_opt ElementCountMalformed cnt ;;
        iso <- (if Nat.eqb (ie c) (is_ c) then FOk 0%N else parse_isotope_slice s c) ;;
        r <- get_elem s c ;;
        let '(sym, c) := r in
        iso <- check_iso sym iso ;;
        let acc := e_inc (sym, iso) (Z.of_N cnt) acc in
        let c := set_ie (set_is c 0) 0 in
        c <- start_item true InvalidElement c i ch ;; FOk (acc, c)
      else FOk (acc, c)
  | IsotopeToCount =>
      if is_numeric ch then FOk (acc, set_st (set_cs c i) Count)
      else
        r <- get_elem s c ;;
        let '(sym, c) := r in
        iso <- parse_isotope_slice s c ;;
        iso <- check_iso sym iso ;;
        let acc := e_inc (sym, iso) 1 acc in
        let c := set_ie (set_is c 0) 0 in
        c <- start_item false IsotopeCountMalformed c i ch ;; FOk (acc, c)
  | GroupToGroupCount =>
      if negb (is_numeric ch) then
        r <- take_group s c ;;
        let '(g, c) := r in
        let c := set_ge (set_gs c 0) 0 in
        let acc := e_add acc g in
        c <- start_item true InvalidElement c i ch ;; FOk (acc, c)
      else FOk (acc, set_st (set_gcs c i) GroupCount)
  | GroupCount =>
      if negb (is_numeric ch) then
        let c := set_gce c i in
        r <- take_group s c ;;
        let '(g, c) := r in
        let c := set_ge (set_gs c 0) 0 in
        r <- take_gcount s c ;;
        let '(cnt, c) := r in
        cnt <- of_opt ElementCountMalformed cnt ;;
        let acc := e_add acc (e_mul g (Z.of_N cnt)) in
        c <- start_item true InvalidElement c i ch ;; FOk (acc, c)
      else FOk (acc, c)
  end.

Definition finish (s : str) (acc : ents) (c : cfg) : fres ents :=
  let n := blen s in
  match fstate c with
  | Element =>
      r <- get_elem s (set_ee c n) ;; let '(sym, _) := r in FOk (e_inc (sym, 0%N) 1 acc)
  | Count =>
      r <- take_count s (set_ce c n) ;;
      let '(cnt, c) := r in
      cnt <- of_opt ElementCountMalformed cnt ;;
      iso <- (if Nat.eqb (ie c) (is_ c) then FOk 0%N else parse_isotope_slice s c) ;;
      r <- get_elem s c ;;
      let '(sym, c) := r in
      iso <- check_iso sym iso ;;
      FOk (e_inc (sym, iso) (Z.of_N cnt) acc)
  | IsotopeToCount =>
      r <- get_elem s c ;;
      let '(sym, c) := r in
      iso <- parse_isotope_slice s c ;;
      iso <- check_iso sym iso ;;
      FOk (e_inc (sym, iso) 1 acc)
  | GroupToGroupCount =>
      r <- take_group s c ;; let '(g, _) := r in FOk (e_add acc g)
  | GroupCount =>
      let c := set_gce c n in
      r <- take_group s c ;;
      let '(g, c) := r in
      r <- take_gcount s c ;;
      let '(cnt, c) := r in
      cnt <- of_opt GroupCountMalformed cnt ;;
      FOk (e_add acc (e_mul g (Z.of_N cnt)))
  | _ => FErr IncompleteFormula
  end.

Fixpoint run (s : str) (acc : ents) (c : cfg) (l : list (nat * char)) : fres ents :=
  match l with
  | [] => finish s acc c
  | (i, ch) :: t => r <- step s acc c i ch ;; let '(acc, c) := r in run s acc c t
  end.
End Step.

Fixpoint parse (fuel : nat) (s : str) : fres ents :=
  match fuel with
  | O => FPanic
  | S f => run (parse f) s [] cfg0 (indices s 0)
  end.
Definition parse_formula (s : str) := parse (S (List.length s)) s.
End Parser.

Arguments FOk {A}. Arguments FErr {A}. Arguments FPanic {A}.
