(* Correspondence and specification checks for C02 / C06 (lock-step histories). *)
From Coq Require Import List ZArith NArith QArith Bool Arith String Floats.
From CE Require Import Num NumFloat NumFloat64 QFloat Str TableTypes TableModel Comp ESpec CompOps Render Table.
Import ListNotations.

Definition T := build_table table_src.
(* char::is_alphabetic on the non-ASCII code points the harness uses *)
Definition uni_alpha (c : char) : bool := (c =? 233)%N.   (* e-acute; the other probes (digits, symbols) are not alphabetic *)

Definition fcomp := comp float.
Definition freg := reg (F:=float).

Definition sstep := step NumF T (fun l => l).

(* what one register looks like through the public read API *)
Record obs := mkObs {
  o_panic : bool;
  o_ints : list Z;      (* len, is_empty, then per pool key: get, index, present; per probe: get_str, index_str; eq with each register *)
  o_disp : str;
  o_cached : bool;
  o_mass : float; o_calc : float }.

Definition form_is_map (f : fam) : bool := is_map f.

Definition get_str_of (f : fam) (s : str) (l : ents) : Z :=
  match f with
  | FVecDirect => v_find_str s l
  | FMapDirect => m_get_str T s l
  | FEnumVec => v_index_str T uni_alpha s l
  | FEnumMap => m_index_str T uni_alpha s l
  end.
Definition index_str_of (f : fam) (s : str) (l : ents) : Z :=
  if form_is_map f then m_index_str T uni_alpha s l else v_index_str T uni_alpha s l.

Definition b2z (b : bool) : Z := if b then 1%Z else 0%Z.

Definition observe (pool : list key) (probes : list str) (regs : list freg) (r : nat) (out : outcome) : obs :=
  let rg := nth r regs (mkReg FVecDirect (empty_comp (F:=float))) in
  let f := r_fam rg in
  let c := r_comp rg in
  let l := c_ents c in
  let m := match c_mass NumF T c with Some v => v | None => nan end in
  let cm := match calc_mass NumF T l with Some v => v | None => nan end in
  mkObs (match out with Panicked => true | Done => false end)
        ([Z.of_nat (List.length l); b2z (Nat.eqb (List.length l) 0)]
         ++ List.concat (map (fun k => [e_get k l; e_get k l; b2z (e_mem k l)]) pool)
         ++ List.concat (map (fun s => [get_str_of f s l; index_str_of f s l]) probes)
         ++ map (fun q => b2z (e_eq l (c_ents (r_comp q)))) regs)
        (to_formula T uni_alpha (form_is_map f) l)
        (match c_cache c with Some _ => true | None => false end) m cm.

Definition zlist_eqb (a b : list Z) : bool := if list_eq_dec Z.eq_dec a b then true else false.

Definition obs_agree (ftol : float -> float -> bool) (a b : obs) : bool :=
  Bool.eqb (o_panic a) (o_panic b) && zlist_eqb (o_ints a) (o_ints b) && str_eqb (o_disp a) (o_disp b)
  && Bool.eqb (o_cached a) (o_cached b) && ftol (o_mass a) (o_mass b) && ftol (o_calc a) (o_calc b).

Definition ftol12 (a b : float) : bool := f_same a b || f_close_rel a b 1 1000000000000 || f_close_abs a b 1 1000000000.

(* a history: initial family, ops, and the implementation's observation of the target register after each op *)
Record hist := mkHist { h_id : N; h_fam : fam; h_ops : list (nat * cop); h_obs : list obs }.

Fixpoint run_hist (pool : list key) (probes : list str) (regs : list freg) (ops : list (nat * cop)) : list obs :=
  match ops with
  | [] => []
  | ro :: rest => let '(regs', out) := sstep regs ro in
                  observe pool probes regs' (fst ro) out :: run_hist pool probes regs' rest
  end.

Fixpoint all2 {A} (f : A -> A -> bool) (l1 l2 : list A) : bool :=
  match l1, l2 with [], [] => true | a :: r1, b :: r2 => f a b && all2 f r1 r2 | _, _ => false end.

Definition hist_tie (pool : list key) (probes : list str) (h : hist) : bool :=
  all2 (obs_agree ftol12) (run_hist pool probes (init_regs (F:=float) (h_fam h) 3) (h_ops h)) (h_obs h).

(* C02 on the implementation's own numbers: mass = calc_mass, and calc_mass = sum count * mass(key) *)
Open Scope Q_scope.
Definition key_mass_q (k : key) : Q :=
  match tbl_find (fst k) T with
  | None => 0
  | Some e => if (snd k =? 0)%N then inject_Z (mam e) / 1000000
              else match assoc_get (snd k) (isos e) with Some i => inject_Z (mass i) / 1000000 | None => 0 end
  end.
Definition exact_mass (l : ents) : Q := qsum (map (fun kv => inject_Z (snd kv) * key_mass_q (fst kv)) l).
Definition abs_mass (l : ents) : Q := qsum (map (fun kv => inject_Z (Z.abs (snd kv)) * key_mass_q (fst kv)) l).

(* the entries are recovered from the observation through the pool (every key the generator uses is in the pool) *)
Fixpoint pool_ents (pool : list key) (ints : list Z) : ents :=
  match pool with
  | [] => []
  | k :: ks => match ints with
               | g :: _ :: p :: rest => ((if (p =? 1)%Z then [(k, g)] else []) ++ pool_ents ks rest)%list
               | _ => []
               end
  end.

Definition c02_holds_obs (pool : list key) (o : obs) : bool :=
  let l := pool_ents pool (skipn 2 (o_ints o)) in
  ftol12 (o_mass o) (o_calc o)
  && f_is_finite (o_calc o)
  && q_close_abs (qf0 (o_calc o)) (exact_mass l) (eps9 * abs_mass l + eps9).
Definition c02_holds (pool : list key) (h : hist) : bool := forallb (c02_holds_obs pool) (h_obs h).

(* C06: the four families, driven by the same operations, are indistinguishable (the cache flag is not an
   observation).  `get_str` is documented on the two concrete types as "does not support fixed isotopes"
   while the enum's get_str does: on bracketed probe strings it is compared only between the two concrete
   types and between the two enum forms, on bracket-free strings across all four. *)
Definition has_bracket (s : str) : bool := existsb (fun c => (c =? LB)%N || (c =? RB)%N) s.
Fixpoint mask_probes (probes : list str) (ints : list Z) : list Z :=
  match probes with
  | [] => ints
  | s :: ps => match ints with
               | g :: i :: rest => (if has_bracket s then 0%Z else g) :: i :: mask_probes ps rest
               | _ => ints
               end
  end.
Definition mask_obs (npool : nat) (probes : list str) (o : obs) : list Z :=
  (firstn (2 + 3 * npool) (o_ints o) ++ mask_probes probes (skipn (2 + 3 * npool) (o_ints o)))%list.
Definition obs_same_public (a b : obs) : bool :=
  Bool.eqb (o_panic a) (o_panic b) && zlist_eqb (o_ints a) (o_ints b) && str_eqb (o_disp a) (o_disp b)
  && ftol12 (o_mass a) (o_mass b).
Definition obs_same_masked (npool : nat) (probes : list str) (a b : obs) : bool :=
  Bool.eqb (o_panic a) (o_panic b) && zlist_eqb (mask_obs npool probes a) (mask_obs npool probes b)
  && str_eqb (o_disp a) (o_disp b) && ftol12 (o_mass a) (o_mass b).
Definition c06_holds (pool : list key) (probes : list str) (h1 h2 h3 h4 : hist) : bool :=
  all2 obs_same_public (h_obs h1) (h_obs h2) && all2 obs_same_public (h_obs h3) (h_obs h4)
  && all2 (obs_same_masked (List.length pool) probes) (h_obs h1) (h_obs h3).

(* the reads themselves: an absent key reads 0, a bare symbol never reads a fixed isotope's entry, and every
   read path returns the count of the entry the text denotes *)
Definition reads_ok (pool : list key) (probes : list str) (o : obs) : bool :=
  let ints := o_ints o in
  let l := pool_ents pool (skipn 2 ints) in
  let pr := skipn (2 + 3 * List.length pool) ints in
  (* per pool key: get = index, and 0 when absent *)
  (fix go (ks : list key) (xs : list Z) : bool :=
     match ks with
     | [] => true
     | _ :: ks' => match xs with
                   | g :: i :: p :: rest => (g =? i)%Z && ((p =? 1)%Z || (g =? 0)%Z) && go ks' rest
                   | _ => false
                   end
     end) pool (skipn 2 ints)
  && (fix go (ps : list str) (xs : list Z) : bool :=
        match ps with
        | [] => true
        | s :: ps' => match xs with
                      | g :: i :: rest =>
                          let want := match espec_parse T s with EOk k => e_get k l | _ => 0%Z end in
                          (i =? want)%Z && (if has_bracket s then true else (g =? want)%Z) && go ps' rest
                      | _ => false
                      end
        end) probes pr
  && (Z.of_nat (List.length l) =? nth 0 ints 0%Z)%Z.
Definition c06_reads (pool : list key) (probes : list str) (h : hist) : bool := forallb (reads_ok pool probes) (h_obs h).

(* a string key never reads a fixed isotope's entry; absent reads as 0 (checked on the observation itself) *)
Definition hist_nontrivial (h : hist) : bool := Nat.ltb 2 (List.length (h_ops h)).
