(* isotopic_pattern/poisson.rs *)
From Coq Require Import ZArith NArith List Bool.
From CE Require Import Num Mz Peak.
Import ListNotations.

Section Poisson.
  Context {F : Type} (N : Num F).

  Definition NEUTRON_SHIFT : F := of_dec N 10033548378 10.
  Definition LAMBDA_FACTOR : F := of_Z N 1800.

  (* the loop `for i in 1..n_peaks`: state (p_i, factorial_acc, total); emits intensities 1..n-1 *)
  Fixpoint pois_terms (lambda : F) (i : Z) (fuel : nat) (p fact tot : F) : list F * F :=
    match fuel with
    | O => ([], tot)
    | S fuel' =>
        let p' := mul N p lambda in
        let fact' := mul N fact (of_Z N i) in
        let cur := div N p' fact' in
        if is_finite N cur
        then let '(r, t) := pois_terms lambda (i + 1) fuel' p' fact' (add N tot cur) in (cur :: r, t)
        else let '(r, t) := pois_terms lambda (i + 1) fuel' p' fact' tot in (zero N :: r, t)
    end.

  Definition poisson_approximation_impl (mass : F) (n_peaks : nat) (charge : Z) (lambda_factor : F) : list (peak (F:=F)) :=
    match n_peaks with
    | O => []
    | S m =>
        let lambda := div N mass lambda_factor in
        let '(tl, total) := pois_terms lambda 1 m (one N) (one N) (one N) in
        let ints := one N :: tl in
        map (fun ix => let '(i, x) := ix in
               let neutral := add N mass (mul N (of_Z N (Z.of_nat i)) NEUTRON_SHIFT) in
               mkPeak (charged N neutral charge (PROTON N)) (div N x total))
            (combine (seq 0 n_peaks) ints)
    end.

  Definition poisson_approximation (mass : F) (n : nat) (z : Z) := poisson_approximation_impl mass n z LAMBDA_FACTOR.

  (* `for i in 1..max_iter`: returns i at the first exit, max_iter otherwise *)
  Fixpoint npeaks_loop (lambda target : F) (i : Z) (fuel : nat) (p fact acc : F) (max_iter : Z) : Z :=
    match fuel with
    | O => max_iter
    | S fuel' =>
        let p' := mul N p lambda in
        let fact' := mul N fact (of_Z N i) in
        let cur := div N p' fact' in
        if is_infinite N cur then i else
        let acc' := add N acc cur in
        if ltb N (div N cur acc') target then i
        else npeaks_loop lambda target (i + 1) fuel' p' fact' acc' max_iter
    end.

  Definition poisson_n_impl (mass lambda_factor threshold : F) (max_iter : nat) : Z :=
    let lambda := div N mass lambda_factor in
    let target := sub N (one N) threshold in
    npeaks_loop lambda target 1 (Nat.pred max_iter) (one N) (one N) (one N) (Z.of_nat max_iter).

  Definition poisson_n (mass threshold : F) : Z := poisson_n_impl mass LAMBDA_FACTOR threshold 255.
End Poisson.
