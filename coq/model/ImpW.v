(* More loop combinators for the shallow embedding of imperative Rust (tools/gen_conv.py -> gen/ConvGen.v), and the
   general reasoning rules about them.  Nothing here knows about any particular generated text.  (Imp.v: loops over
   usize ranges.)

     for p in xs.iter().copied() { body }                  ~>  for_each xs (fun p s => body) s       (s: the mutable places)
     the same with `break` (of THIS loop) in the body      ~>  for_each_brk xs (fun p s => inl s' | inr s') s
                                                               inl: go on with the next item (normal end, `continue`);
                                                               inr: `break`
     while cond { body }                                   ~>  while_fuel fuel (fun s => cond) (fun s => body) s

   [while_fuel] runs AT MOST [fuel] iterations.  It is the Rust loop exactly when the loop condition is false in the
   state it returns ([while_fuel_exits], [while_fuel_stable]: more fuel then changes nothing; [while_fuel_run]: the
   result is the big-step semantics [while_run] of the unbounded loop).  Whoever uses a generated [while_fuel] has to
   prove that exit condition for the fuel in question. *)
From Coq Require Import Arith List Lia.
Import ListNotations.

Section ImpW.
  Context {St : Type}.

  Definition for_each {A : Type} (l : list A) (body : A -> St -> St) (s : St) : St :=
    fold_left (fun s x => body x s) l s.

  Fixpoint for_each_brk {A : Type} (l : list A) (body : A -> St -> St + St) (s : St) : St :=
    match l with
    | [] => s
    | x :: r => match body x s with
                | inl s' => for_each_brk r body s'
                | inr s' => s'
                end
    end.

  Fixpoint while_fuel (fuel : nat) (cond : St -> bool) (body : St -> St) (s : St) : St :=
    match fuel with
    | O => s
    | S f => if cond s then while_fuel f cond body (body s) else s
    end.

  (* ---------- for_each: unfolding, extensionality, invariant ---------- *)

  Lemma for_each_nil {A} (body : A -> St -> St) s : for_each [] body s = s.
  Proof. reflexivity. Qed.

  Lemma for_each_cons {A} x (l : list A) body s : for_each (x :: l) body s = for_each l body (body x s).
  Proof. reflexivity. Qed.

  Lemma for_each_app {A} (l1 l2 : list A) body s : for_each (l1 ++ l2) body s = for_each l2 body (for_each l1 body s).
  Proof. unfold for_each. apply fold_left_app. Qed.

  Lemma for_each_ext {A} (l : list A) body body' s :
    (forall x s, In x l -> body x s = body' x s) -> for_each l body s = for_each l body' s.
  Proof.
    revert s. induction l as [|x l IH]; intros s H; [reflexivity|].
    rewrite !for_each_cons, (H x s) by (left; reflexivity). apply IH. intros y s' Hy. apply H. right. exact Hy.
  Qed.

  (* P done s: the state after the items [done] (in order) have been processed *)
  Lemma for_each_inv {A} (P : list A -> St -> Prop) (l : list A) body s :
    P [] s ->
    (forall done x s, P done s -> P (done ++ [x]) (body x s)) ->
    P l (for_each l body s).
  Proof.
    intros H0 Hstep.
    assert (G : forall rest done s, P done s -> P (done ++ rest) (for_each rest body s)).
    { induction rest as [|x rest IH]; intros done s' H.
      - rewrite app_nil_r. exact H.
      - rewrite for_each_cons. replace (done ++ x :: rest) with ((done ++ [x]) ++ rest) by (rewrite <- app_assoc; reflexivity).
        apply IH, Hstep, H. }
    apply (G l [] s H0).
  Qed.

  (* a loop body that never breaks is a plain for_each *)
  Lemma for_each_brk_no_break {A} (l : list A) (body : A -> St -> St + St) (body' : A -> St -> St) s :
    (forall x s, In x l -> body x s = inl (body' x s)) -> for_each_brk l body s = for_each l body' s.
  Proof.
    revert s. induction l as [|x l IH]; intros s H; [reflexivity|].
    cbn [for_each_brk]. rewrite (H x s) by (left; reflexivity). rewrite for_each_cons. apply IH.
    intros y s' Hy. apply H. right. exact Hy.
  Qed.

  (* ---------- while_fuel: unfolding, extensionality, invariant ---------- *)

  Lemma while_fuel_0 cond body s : while_fuel 0 cond body s = s.
  Proof. reflexivity. Qed.

  Lemma while_fuel_S f cond body s :
    while_fuel (S f) cond body s = if cond s then while_fuel f cond body (body s) else s.
  Proof. reflexivity. Qed.

  Lemma while_fuel_false fuel cond body s : cond s = false -> while_fuel fuel cond body s = s.
  Proof. intros H. destruct fuel; [reflexivity|]. cbn. rewrite H. reflexivity. Qed.

  Lemma while_fuel_ext fuel cond cond' body body' s :
    (forall s, cond s = cond' s) -> (forall s, cond s = true -> body s = body' s) ->
    while_fuel fuel cond body s = while_fuel fuel cond' body' s.
  Proof.
    intros Hc Hb. revert s. induction fuel as [|f IH]; intros s; [reflexivity|].
    cbn. rewrite <- Hc. destruct (cond s) eqn:E; [|reflexivity]. rewrite <- (Hb s E). apply IH.
  Qed.

  Lemma while_fuel_inv (P : St -> Prop) fuel cond body s :
    P s -> (forall s, P s -> cond s = true -> P (body s)) -> P (while_fuel fuel cond body s).
  Proof.
    intros H0 Hstep. revert s H0. induction fuel as [|f IH]; intros s H0; [exact H0|].
    cbn. destruct (cond s) eqn:E; [|exact H0]. apply IH, Hstep; assumption.
  Qed.

  (* ---------- while loops against fuel-recursive functions (cf. Imp.for_range_fuel) ---------- *)

  Lemma while_fuel_fuel {T : Type} (cond : St -> bool) (body : St -> St) (f : nat -> St -> T) (k : St -> T) :
    (forall s, f 0 s = k s) ->
    (forall m s, f (S m) s = if cond s then f m (body s) else k s) ->
    forall fuel s, f fuel s = k (while_fuel fuel cond body s).
  Proof.
    intros H0 HS. induction fuel as [|m IH]; intros s; [apply H0|].
    rewrite HS. cbn. destruct (cond s); [apply IH | reflexivity].
  Qed.

  (* ---------- when is the fuel-bounded loop the real loop? ---------- *)

  (* big-step semantics of the unbounded `while cond { body }` *)
  Inductive while_run (cond : St -> bool) (body : St -> St) : St -> St -> Prop :=
  | while_run_stop s : cond s = false -> while_run cond body s s
  | while_run_step s s' : cond s = true -> while_run cond body (body s) s' -> while_run cond body s s'.

  Definition while_fuel_exits fuel cond body s : Prop := cond (while_fuel fuel cond body s) = false.

  Lemma while_fuel_run fuel cond body s :
    while_fuel_exits fuel cond body s -> while_run cond body s (while_fuel fuel cond body s).
  Proof.
    unfold while_fuel_exits. revert s. induction fuel as [|f IH]; intros s H.
    - apply while_run_stop. exact H.
    - cbn in *. destruct (cond s) eqn:E.
      + apply while_run_step; [exact E | apply IH, H].
      + apply while_run_stop. exact E.
  Qed.

  Lemma while_run_fun cond body s s1 s2 : while_run cond body s s1 -> while_run cond body s s2 -> s1 = s2.
  Proof.
    intros H1. revert s2. induction H1 as [s E|s s' E _ IH]; intros s2 H2; inversion H2; subst; try congruence.
    apply IH. assumption.
  Qed.

  (* once the loop has exited by its condition, more fuel changes nothing *)
  Lemma while_fuel_stable fuel k cond body s :
    while_fuel_exits fuel cond body s -> while_fuel (fuel + k) cond body s = while_fuel fuel cond body s.
  Proof.
    unfold while_fuel_exits. revert s. induction fuel as [|f IH]; intros s H.
    - cbn in *. apply while_fuel_false. exact H.
    - cbn in *. destruct (cond s); [apply IH, H | reflexivity].
  Qed.

  Lemma while_fuel_exits_more fuel k cond body s :
    while_fuel_exits fuel cond body s -> while_fuel_exits (fuel + k) cond body s.
  Proof. intros H. unfold while_fuel_exits. rewrite while_fuel_stable by exact H. exact H. Qed.

  (* a variant (measure) that bounds the number of iterations: if every iteration decreases [mu] and the loop
     condition is false once [mu] is 0, then [mu s] iterations suffice *)
  Lemma while_fuel_exits_measure (mu : St -> nat) fuel cond body s :
    (forall s, cond s = true -> mu (body s) < mu s) ->
    mu s <= fuel -> while_fuel_exits fuel cond body s.
  Proof.
    intros Hdec. unfold while_fuel_exits. revert s. induction fuel as [|f IH]; intros s Hle.
    - cbn. destruct (cond s) eqn:E; [|reflexivity]. specialize (Hdec s E). lia.
    - cbn. destruct (cond s) eqn:E; [|exact E]. apply IH. specialize (Hdec s E). lia.
  Qed.
End ImpW.

(* ---------- two while loops on different state spaces that step together ---------- *)

Lemma while_fuel_sim {S1 S2 : Type} (R : S1 -> S2 -> Prop) cond1 body1 cond2 body2 :
  (forall s1 s2, R s1 s2 -> cond1 s1 = cond2 s2) ->
  (forall s1 s2, R s1 s2 -> cond1 s1 = true -> R (body1 s1) (body2 s2)) ->
  forall fuel s1 s2, R s1 s2 -> R (while_fuel fuel cond1 body1 s1) (while_fuel fuel cond2 body2 s2).
Proof.
  intros Hc Hb. induction fuel as [|f IH]; intros s1 s2 H; [exact H|].
  cbn. rewrite <- (Hc s1 s2 H). destruct (cond1 s1) eqn:E; [|exact H]. apply IH, Hb; assumption.
Qed.

(* ---------- loops that only push ---------- *)

(* for x in xs { out.extend(g x) }   (each item appends a list that does not depend on what `out` holds) *)
Lemma for_each_push_flat {A B : Type} (g : A -> list B) (xs : list A) (body : A -> list B -> list B) (l : list B) :
  (forall x l, body x l = l ++ g x) -> for_each xs body l = l ++ flat_map g xs.
Proof.
  intros H. revert l. induction xs as [|x xs IH]; intros l.
  - cbn. symmetry. apply app_nil_r.
  - rewrite for_each_cons, H, IH. cbn [flat_map]. rewrite <- app_assoc. reflexivity.
Qed.

Lemma for_each_push_map {A B : Type} (g : A -> B) (xs : list A) (body : A -> list B -> list B) (l : list B) :
  (forall x l, body x l = l ++ [g x]) -> for_each xs body l = l ++ map g xs.
Proof.
  intros H. rewrite (for_each_push_flat (fun x => [g x])) by exact H. apply f_equal.
  induction xs as [|x xs IH]; [reflexivity|]. cbn. rewrite IH. reflexivity.
Qed.
