(* Vocabulary for the shallow embedding of src/element.rs and src/helper.rs (tools/gen_element.py -> gen/ElementGen.v),
   and the general facts about it.  Companion of ImpE.v / ImpC.v; nothing here knows about any particular generated
   text.  The runtime shapes are those of the hand-written model (TableModel.v: iso, elem, assoc_insert, assoc_get;
   ImpE.v: ptable, espec; ImpC.v: pres); this file adds what the model does not name because it wrote the EFFECT
   directly:

     HashMap<u16, V> / HashMap<String, V>   ~>  the association list of TableModel.v (keys unique, first insertion first)
     m.values() / m.keys() / m.iter()       ~>  hm_values / hm_keys / hm_iter ORDER m: the entries in the order the
                                                oracle ORDER puts them ([order_ok]: it is a permutation, nothing else
                                                is known about a HashMap's iteration order)
     it.min() / it.max() on integers        ~>  iter_min / iter_max: std's reduce (first minimum, last maximum)
     m.insert(k, v) (String keys)           ~>  sm_insert k v m: the value is replaced, the OLD key is kept
     m.get(s) / m[s] (String keys, s: &str) ~>  sm_get s m (m[s]: None = the panic)
     x as u16 / i16 / ...                   ~>  wrap_u bits / wrap_s bits: two's complement truncation, EXPLICITLY
     a + b, a - b at an integer type        ~>  chk_s bits (a + b) / chk_u bits (a + b): None = the overflow panic of a
                                                debug build (a release build wraps: wrap_s / wrap_u of the same sum)
     self.f = e (Element fields)            ~>  set_<field> self e
     a.partial_cmp(&b) on f64               ~>  f_partial_cmp (std: from <= and >=)
     ChemicalElements { .. }                ~>  mkCE ..; a ChemicalComposition is its entry list (Comp.ents)
     a formula parser over a given table    ~>  with_table uni T: the oracles of ImpS.v whose two table predicates are
                                                ESpec.has_elem T / ESpec.has_iso T *)
From Coq Require Import List ZArith NArith Bool Arith String Lia Permutation.
From CE Require Import Num Str TableTypes TableModel Comp ESpec Formula ImpS ImpE ImpC.
Import ListNotations.
Local Open Scope Z_scope.

(* ---------- integer casts and checked arithmetic ---------- *)
Definition wrap_u (bits : Z) (z : Z) : N := Z.to_N (z mod 2 ^ bits).
Definition wrap_s (bits : Z) (z : Z) : Z :=
  let m := z mod 2 ^ bits in if m <? 2 ^ (bits - 1) then m else m - 2 ^ bits.
Definition chk_s (bits : Z) (z : Z) : option Z :=
  if (- 2 ^ (bits - 1) <=? z) && (z <? 2 ^ (bits - 1)) then Some z else None.
Definition chk_u (bits : Z) (z : Z) : option N :=
  if (0 <=? z) && (z <? 2 ^ bits) then Some (Z.to_N z) else None.

(* ---------- HashMap iteration ---------- *)
Definition order_ok {A} (order : list A -> list A) : Prop := forall l, Permutation (order l) l.
Definition hm_iter {K V} (order : list (K * V) -> list (K * V)) (m : list (K * V)) : list (K * V) := order m.
Definition hm_values {K V} (order : list (K * V) -> list (K * V)) (m : list (K * V)) : list V := map snd (order m).
Definition hm_keys {K V} (order : list (K * V) -> list (K * V)) (m : list (K * V)) : list K := map fst (order m).

(* Iterator::min / max over integers: reduce(|x, y| if y < x { y } else { x }) / (|x, y| if y < x { x } else { y }) *)
Definition iter_min (l : list Z) : option Z :=
  match l with [] => None | x :: r => Some (fold_left (fun a b => if b <? a then b else a) r x) end.
Definition iter_max (l : list Z) : option Z :=
  match l with [] => None | x :: r => Some (fold_left (fun a b => if b <? a then a else b) r x) end.

(* ---------- HashMap<String, V> ---------- *)
Fixpoint sm_insert {V} (k : string) (v : V) (m : list (string * V)) : list (string * V) :=
  match m with
  | [] => [(k, v)]
  | (k', v') :: r => if String.eqb k' k then (k', v) :: r else (k', v') :: sm_insert k v r
  end.
Fixpoint sm_get {V} (k : str) (m : list (string * V)) : option V :=
  match m with
  | [] => None
  | (k', v) :: r => if str_eqb (codes k') k then Some v else sm_get k r
  end.

(* ---------- field stores ---------- *)
Definition set_sym (e : elem) (v : string) : elem := mkE v (isos e) (mai e) (mam e) (number e) (min_shift e) (max_shift e).
Definition set_isos (e : elem) (v : list (N * iso)) : elem := mkE (sym e) v (mai e) (mam e) (number e) (min_shift e) (max_shift e).
Definition set_mai (e : elem) (v : N) : elem := mkE (sym e) (isos e) v (mam e) (number e) (min_shift e) (max_shift e).
Definition set_number (e : elem) (v : N) : elem := mkE (sym e) (isos e) (mai e) (mam e) v (min_shift e) (max_shift e).
Definition set_min_shift (e : elem) (v : Z) : elem := mkE (sym e) (isos e) (mai e) (mam e) (number e) v (max_shift e).
Definition set_max_shift (e : elem) (v : Z) : elem := mkE (sym e) (isos e) (mai e) (mam e) (number e) (min_shift e) v.

(* ---------- f64 ---------- *)
Definition f_partial_cmp {F} (NF : Num F) (a b : F) : option comparison :=
  match leb NF a b, leb NF b a with
  | false, false => None
  | false, true => Some Gt
  | true, false => Some Lt
  | true, true => Some Eq
  end.

(* ---------- src/helper.rs ---------- *)
Record chem_elements := mkCE {
  ce_periodic_table : ptable;
  ce_C : espec; ce_H : espec; ce_O : espec; ce_N : espec; ce_S : espec;
  ce_H2O : ents; ce_OH : ents; ce_NH2 : ents }.

(* the formula parser's view of a table: the Unicode oracles of [uni], the table predicates of [T] *)
Definition with_table (uni : oracles) (T : ptable) : oracles :=
  mkOracles (uni_numeric uni) (ImpS.uni_alphabetic uni) (uni_uppercase uni) (uni_lowercase uni)
            (ESpec.has_elem T) (ESpec.has_iso T).

(* ---------- general facts ---------- *)
Lemma iter_min_zmin : forall l, iter_min l = zmin_list l.
Proof.
  intros [|x r]; [reflexivity|]. simpl. f_equal. revert x.
  induction r as [|y r IH]; intros x; [reflexivity|]. simpl. rewrite <- IH. f_equal.
  destruct (Z.ltb_spec y x); lia.
Qed.

Lemma iter_max_zmax : forall l, iter_max l = zmax_list l.
Proof.
  intros [|x r]; [reflexivity|]. simpl. f_equal. revert x.
  induction r as [|y r IH]; intros x; [reflexivity|]. simpl. rewrite <- IH. f_equal.
  destruct (Z.ltb_spec y x); lia.
Qed.

(* min / max do not depend on the order of the entries *)
Lemma fold_min_le : forall r x y, x <= y -> fold_left Z.min r x <= fold_left Z.min r y.
Proof. induction r as [|a r IH]; intros x y H; simpl; [exact H|]. apply IH. lia. Qed.

Lemma fold_min_swap : forall r x y, fold_left Z.min r (Z.min x y) = Z.min x (fold_left Z.min r y).
Proof. induction r as [|a r IH]; intros x y; simpl; [reflexivity|]. rewrite <- IH. f_equal. lia. Qed.

Lemma fold_max_swap : forall r x y, fold_left Z.max r (Z.max x y) = Z.max x (fold_left Z.max r y).
Proof. induction r as [|a r IH]; intros x y; simpl; [reflexivity|]. rewrite <- IH. f_equal. lia. Qed.

Lemma zmin_list_cons : forall x l, zmin_list (x :: l) = Some (match zmin_list l with Some m => Z.min x m | None => x end).
Proof.
  intros x [|y r]; [reflexivity|]. simpl. f_equal. apply fold_min_swap.
Qed.

Lemma zmax_list_cons : forall x l, zmax_list (x :: l) = Some (match zmax_list l with Some m => Z.max x m | None => x end).
Proof.
  intros x [|y r]; [reflexivity|]. simpl. f_equal. apply fold_max_swap.
Qed.

Lemma zmin_list_perm : forall l l', Permutation l l' -> zmin_list l = zmin_list l'.
Proof.
  intros l l' P. induction P as [|x l l' P IH|x y l|l l' l'' P1 IH1 P2 IH2].
  - reflexivity.
  - rewrite !zmin_list_cons, IH. reflexivity.
  - rewrite !zmin_list_cons. f_equal. destruct (zmin_list l); lia.
  - congruence.
Qed.

Lemma zmax_list_perm : forall l l', Permutation l l' -> zmax_list l = zmax_list l'.
Proof.
  intros l l' P. induction P as [|x l l' P IH|x y l|l l' l'' P1 IH1 P2 IH2].
  - reflexivity.
  - rewrite !zmax_list_cons, IH. reflexivity.
  - rewrite !zmax_list_cons. f_equal. destruct (zmax_list l); lia.
  - congruence.
Qed.

Lemma hm_values_perm : forall {K V} (order : list (K * V) -> list (K * V)) (f : V -> Z) m,
  order_ok order -> Permutation (map f (hm_values order m)) (map (fun p => f (snd p)) m).
Proof.
  intros K V order f m H. unfold hm_values. rewrite map_map. apply Permutation_map, H.
Qed.

(* casts *)
Lemma wrap_s_small : forall bits z, 0 < bits -> - 2 ^ (bits - 1) <= z < 2 ^ (bits - 1) -> wrap_s bits z = z.
Proof.
  intros bits z Hb Hz. unfold wrap_s.
  assert (E : 2 ^ bits = 2 * 2 ^ (bits - 1)).
  { replace bits with (1 + (bits - 1)) at 1 by lia. rewrite Z.pow_add_r by lia. reflexivity. }
  assert (P : 0 < 2 ^ (bits - 1)) by (apply Z.pow_pos_nonneg; lia).
  destruct (Z_lt_le_dec z 0) as [Hn|Hn].
  - replace (z mod 2 ^ bits) with (z + 2 ^ bits).
    + destruct (Z.ltb_spec (z + 2 ^ bits) (2 ^ (bits - 1))); lia.
    + apply Z.mod_unique with (q := -1); lia.
  - rewrite Z.mod_small by lia. destruct (Z.ltb_spec z (2 ^ (bits - 1))); lia.
Qed.

Lemma chk_s_in : forall bits z, - 2 ^ (bits - 1) <= z < 2 ^ (bits - 1) -> chk_s bits z = Some z.
Proof.
  intros bits z H. unfold chk_s.
  destruct (Z.leb_spec (- 2 ^ (bits - 1)) z); [|lia]. destruct (Z.ltb_spec z (2 ^ (bits - 1))); [|lia]. reflexivity.
Qed.

Lemma chk_s_out : forall bits z, z < - 2 ^ (bits - 1) \/ 2 ^ (bits - 1) <= z -> chk_s bits z = None.
Proof.
  intros bits z H. unfold chk_s.
  destruct (Z.leb_spec (- 2 ^ (bits - 1)) z); [|reflexivity]. destruct (Z.ltb_spec z (2 ^ (bits - 1))); [lia|reflexivity].
Qed.

Lemma chk_s_some : forall bits z n, chk_s bits z = Some n -> n = z.
Proof. intros bits z n. unfold chk_s. destruct (_ && _); congruence. Qed.

(* the two casts of `(x as i16 + d) as u16` cancel: the key is the sum modulo 2^16 *)
Lemma wrap_s_mod : forall bits z, 0 < bits -> (wrap_s bits z) mod 2 ^ bits = z mod 2 ^ bits.
Proof.
  intros bits z Hb. unfold wrap_s.
  assert (P : 0 < 2 ^ bits) by (apply Z.pow_pos_nonneg; lia).
  destruct (z mod 2 ^ bits <? 2 ^ (bits - 1)).
  - apply Z.mod_mod. lia.
  - rewrite <- (Z.mod_mod z (2 ^ bits)) at 2 by lia.
    replace (z mod 2 ^ bits - 2 ^ bits) with (z mod 2 ^ bits + (-1) * 2 ^ bits) by lia.
    apply Z.mod_add. lia.
Qed.

Lemma wrap_u_wrap_s_add : forall z sh, wrap_u 16 (wrap_s 16 z + sh) = Z.to_N ((z + sh) mod 65536).
Proof.
  intros z sh. unfold wrap_u. f_equal. change (2 ^ 16) with 65536.
  rewrite Z.add_mod by lia. pose proof (wrap_s_mod 16 z ltac:(lia)) as H. change (2 ^ 16) with 65536 in H.
  rewrite H. rewrite <- Z.add_mod by lia. reflexivity.
Qed.

Lemma wrap_u_nonneg : forall bits z, 0 <= z < 2 ^ bits -> wrap_u bits z = Z.to_N z.
Proof. intros bits z H. unfold wrap_u. rewrite Z.mod_small by lia. reflexivity. Qed.

Lemma wrap_u_neg : forall bits z, - 2 ^ bits <= z < 0 -> wrap_u bits z = Z.to_N (2 ^ bits + z).
Proof.
  intros bits z H. unfold wrap_u. f_equal. symmetry. apply Z.mod_unique with (q := -1); lia.
Qed.

(* sm_insert / sm_get against the table operations of the model *)
Lemma sm_insert_tbl_insert : forall (e : elem) t, sm_insert (sym e) e t = tbl_insert e t.
Proof. induction t as [|[k v] r IH]; simpl; [reflexivity|]. rewrite IH. reflexivity. Qed.

Lemma sm_get_tbl_find : forall s (t : ptable), sm_get s t = tbl_find s t.
Proof. induction t as [|[k v] r IH]; simpl; [reflexivity|]. rewrite IH. reflexivity. Qed.

Lemma tbl_find_codes : forall k (t : ptable), tbl_find (codes k) t = TableModel.tbl_get k t.
Proof.
  induction t as [|[k' v] r IH]; simpl; [reflexivity|]. rewrite IH.
  unfold str_eqb. destruct (list_eq_dec N.eq_dec (codes k') (codes k)) as [E|E].
  - apply codes_inj in E. subst. rewrite String.eqb_refl. reflexivity.
  - destruct (String.eqb_spec k k') as [->|_]; [contradiction E; reflexivity|reflexivity].
Qed.

(* the association lists the model builds are HashMaps: no key twice *)
Lemma assoc_insert_keys : forall {A} k (v : A) l,
  map fst (assoc_insert k v l) = if existsb (N.eqb k) (map fst l) then map fst l else map fst l ++ [k].
Proof.
  induction l as [|[k' v'] r IH]; simpl; [reflexivity|].
  destruct (N.eqb_spec k k') as [->|Hne]; simpl; [reflexivity|].
  rewrite IH. destruct (existsb (N.eqb k) (map fst r)); reflexivity.
Qed.

Lemma assoc_insert_in : forall {A} k (v : A) l x,
  In x (map fst (assoc_insert k v l)) -> x = k \/ In x (map fst l).
Proof.
  intros A k v l x. rewrite assoc_insert_keys.
  destruct (existsb (N.eqb k) (map fst l)); [auto|].
  rewrite in_app_iff. simpl. intuition.
Qed.

Lemma assoc_insert_nodup : forall {A} k (v : A) l, NoDup (map fst l) -> NoDup (map fst (assoc_insert k v l)).
Proof.
  induction l as [|[k' v'] r IH]; simpl; intros H.
  - constructor; [intros []|constructor].
  - destruct (N.eqb_spec k k') as [->|Hne]; simpl; [exact H|].
    inversion H as [|? ? Hnin Hr]; subst. constructor; [|exact (IH Hr)].
    intros Hin. apply assoc_insert_in in Hin. destruct Hin as [->|Hin]; [apply Hne; reflexivity|exact (Hnin Hin)].
Qed.

Lemma build_isos_nodup : forall l, NoDup (map fst (build_isos l)).
Proof.
  intros l. unfold build_isos.
  assert (G : forall acc : list (N * iso), NoDup (map fst acc) ->
              NoDup (map fst (fold_left (fun acc i => assoc_insert (i_key i) (mkI (i_mass i) (i_ab i) (i_neutrons i) (i_shift i)) acc) l acc))).
  { induction l as [|i l IH]; intros acc H; simpl; [exact H|]. apply IH, assoc_insert_nodup, H. }
  apply G. constructor.
Qed.
