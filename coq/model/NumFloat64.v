(* The binary64 instance of [Num] (Coq primitive floats; Flocq's Bfma for mul_add). *)
From Coq Require Import ZArith NArith List Bool Floats Uint63.
From Flocq Require Import Core.FLX IEEE754.Binary IEEE754.PrimFloat IEEE754.BinarySingleNaN.
From CE Require Import Num NumFloat.
Import ListNotations.

Definition prec_ok : FLX.Prec_gt_0 prec := eq_refl _.
Definition emax_ok : Prec_lt_emax prec emax := eq_refl _.
Definition f_fma (a b c : float) : float :=
  B2Prim (@BinarySingleNaN.Bfma prec emax prec_ok emax_ok BinarySingleNaN.mode_NE (Prim2B a) (Prim2B b) (Prim2B c)).

Definition f_of_dec (num : Z) (k : nat) : float := PrimFloat.div (f_of_Z num) (f_of_Z (Z.pow 10 (Z.of_nat k))).

Definition f_is_infinite (a : float) : bool :=
  match Prim2SF a with S754_infinity _ => true | _ => false end.

Definition NumF : Num float :=
  mkNum float 0%float 1%float (-0)%float
        PrimFloat.add PrimFloat.sub PrimFloat.mul PrimFloat.div PrimFloat.opp PrimFloat.abs
        f_fma f_of_Z f_of_dec
        PrimFloat.ltb PrimFloat.leb PrimFloat.eqb f_is_finite f_is_infinite.
