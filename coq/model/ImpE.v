(* Vocabulary for the shallow embedding of src/element_specification.rs (tools/gen_espec.py -> gen/ESpecGen.v), and the
   general facts about it.  Companion of Imp.v / ImpW.v / ImpL.v; nothing here knows about any particular generated
   text.  Strings, slices, table lookups and integer parsing are those of the hand-written model (Str.v, Comp.v,
   TableModel.v, ESpec.v); this file only adds the std operations the model does not name because it wrote their
   EFFECT as a recursive function ([split_lb] for find + two slices, [strip_rb], a match on [rev s] for next_back):

     s.find(c)                     ~>  str_find c s : option nat          (byte offset of the first occurrence)
     &s[a..b]  &s[a..]  &s[..b]    ~>  slice s a b / slice s a (blen s) / slice s 0 b   (Str.slice; None = the panic)
     s.strip_suffix(c)             ~>  strip_suffix_char c s              ([strip_rb] is its instance at ']')
     s.bytes()                     ~>  str_bytes s                        (the UTF-8 encoding)
     it = s.chars(); it.next(); it.next_back()
                                   ~>  the iterator is the list of remaining characters;
                                       chars_next / chars_next_back : str -> option char * str
     o.unwrap_or(d)                ~>  unwrap_or o d
     map.contains_key(&k)          ~>  assoc_mem k l                      (HashMap<u16, _> = TableModel assoc list)
     x.hash(state)                 ~>  hash_str / hash_u16 : the hasher is the sequence of values fed to it
     ElementSpecification { element, isotope }
                                   ~>  mkSpec element isotope;  [spec_key] is the model's key (symbol text, isotope) *)
From Coq Require Import List ZArith NArith Bool Arith String Ascii Lia.
From CE Require Import Str TableTypes TableModel Comp ESpec.
Import ListNotations.
Local Open Scope nat_scope.

Definition ptable := list (String.string * elem).

(* ---------- the key type of the source: a reference to an Element plus an isotope number ---------- *)
Record espec := mkSpec { sp_element : elem; sp_isotope : N }.
Definition spec_key (sp : espec) : key := (codes (sym (sp_element sp)), sp_isotope sp).

Definition eres_map {A B} (f : A -> B) (r : eres A) : eres B :=
  match r with EOk a => EOk (f a) | EErr e => EErr e | EPanic => EPanic end.

(* an [eres key] of the model, with the element looked up again: what the source returns *)
Definition resolve (tbl : ptable) (r : eres key) : eres espec :=
  match r with
  | EOk k => match tbl_find (fst k) tbl with Some e => EOk (mkSpec e (snd k)) | None => EPanic end
  | EErr e => EErr e
  | EPanic => EPanic
  end.

(* PeriodicTable::add inserts under element.symbol: every key of the map is its element's symbol *)
Definition keys_ok (tbl : ptable) : Prop := forall k e, In (k, e) tbl -> k = sym e.

(* ---------- std operations on strings ---------- *)
Definition str_find (c : char) (s : str) : option nat :=
  match find (fun p => (snd p =? c)%N) (indices s 0) with Some p => Some (fst p) | None => None end.

Definition strip_suffix_char (c : char) (s : str) : option str :=
  match rev s with c' :: r => if (c' =? c)%N then Some (rev r) else None | [] => None end.

Definition utf8 (c : char) : list N :=
  (if c <? 128 then [c]
   else if c <? 2048 then [192 + c / 64; 128 + c mod 64]
   else if c <? 65536 then [224 + c / 4096; 128 + (c / 64) mod 64; 128 + c mod 64]
   else [240 + c / 262144; 128 + (c / 4096) mod 64; 128 + (c / 64) mod 64; 128 + c mod 64])%N.
Definition str_bytes (s : str) : list N := flat_map utf8 s.

Definition chars_next (s : str) : option char * str :=
  match s with [] => (None, []) | c :: t => (Some c, t) end.
Definition chars_next_back (s : str) : option char * str :=
  match rev s with [] => (None, []) | c :: r => (Some c, rev r) end.

Definition unwrap_or {A} (o : option A) (d : A) : A := match o with Some a => a | None => d end.

Definition assoc_mem {A} (k : N) (l : list (N * A)) : bool :=
  match assoc_get k l with Some _ => true | None => false end.

Inductive hitem := HStr (s : str) | HU16 (n : N).
Definition hasher := list hitem.
Definition hash_str (s : str) (h : hasher) : hasher := (h ++ [HStr s])%list.
Definition hash_u16 (n : N) (h : hasher) : hasher := (h ++ [HU16 n])%list.

(* ---------- general facts ---------- *)
Lemma strip_rb_is_strip_suffix : forall s, strip_suffix_char RB s = strip_rb s.
Proof. reflexivity. Qed.

Lemma width_pos : forall c, 0 < width c.
Proof. intros c. unfold width. destruct (c <? 128)%N, (c <? 2048)%N, (c <? 65536)%N; lia. Qed.

Lemma utf8_length : forall c, List.length (utf8 c) = width c.
Proof. intros c. unfold utf8, width. destruct (c <? 128)%N, (c <? 2048)%N, (c <? 65536)%N; reflexivity. Qed.

Lemma str_bytes_length : forall s, List.length (str_bytes s) = blen s.
Proof.
  induction s as [|c t IH]; [reflexivity|]. cbn [str_bytes flat_map blen]. rewrite app_length, utf8_length.
  f_equal. exact IH.
Qed.

Lemma high_not_digit : forall a x : N, (128 <= a)%N -> is_digit (a + x)%N = false.
Proof. intros a x H. unfold is_digit. apply andb_false_iff. right. apply N.leb_gt. lia. Qed.

(* `s.bytes().all(|b| b.is_ascii_digit())` sees exactly what the model's test on the code points sees *)
Lemma utf8_all_digit : forall c, forallb is_digit (utf8 c) = is_digit c.
Proof.
  intros c. unfold utf8. destruct (c <? 128)%N eqn:E1.
  - cbn [forallb]. apply andb_true_r.
  - apply N.ltb_ge in E1.
    assert (Hc : is_digit c = false).
    { unfold is_digit. apply andb_false_iff. right. apply N.leb_gt. lia. }
    rewrite Hc. destruct (c <? 2048)%N; [|destruct (c <? 65536)%N]; cbn [forallb];
      rewrite high_not_digit by lia; reflexivity.
Qed.

Lemma bytes_all_digit : forall s, forallb is_digit (str_bytes s) = forallb is_digit s.
Proof.
  induction s as [|c t IH]; [reflexivity|]. cbn [str_bytes flat_map]. rewrite forallb_app, utf8_all_digit.
  cbn [forallb]. f_equal. exact IH.
Qed.

Lemma blen_app : forall a b, blen (a ++ b) = blen a + blen b.
Proof. induction a as [|c a IH]; intros b; [reflexivity|]. cbn [app blen]. rewrite IH. lia. Qed.

Lemma drop_bytes_0 : forall s, drop_bytes s 0 = Some s.
Proof. destruct s; reflexivity. Qed.

Lemma take_bytes_0 : forall s, take_bytes s 0 = Some [].
Proof. destruct s; reflexivity. Qed.

Lemma drop_bytes_app : forall a r, drop_bytes (a ++ r) (blen a) = Some r.
Proof.
  induction a as [|c a IH]; intros r.
  - apply drop_bytes_0.
  - cbn [app blen]. pose proof (width_pos c) as Hw.
    destruct (width c + blen a) as [|n] eqn:E; [lia|]. cbn [drop_bytes].
    replace (width c <=? S n) with true by (symmetry; apply Nat.leb_le; lia).
    replace (S n - width c) with (blen a) by lia. apply IH.
Qed.

Lemma take_bytes_app : forall a r, take_bytes (a ++ r) (blen a) = Some a.
Proof.
  induction a as [|c a IH]; intros r.
  - apply take_bytes_0.
  - cbn [app blen]. pose proof (width_pos c) as Hw.
    destruct (width c + blen a) as [|n] eqn:E; [lia|]. cbn [take_bytes].
    replace (width c <=? S n) with true by (symmetry; apply Nat.leb_le; lia).
    replace (S n - width c) with (blen a) by lia. rewrite IH. reflexivity.
Qed.

Lemma take_bytes_all : forall s, take_bytes s (blen s) = Some s.
Proof. intros s. rewrite <- (app_nil_r s) at 1. apply take_bytes_app. Qed.

(* the three slices of `a ++ c :: b` at the offset of c, for a one-byte c *)
Lemma slice_prefix : forall a r, slice (a ++ r) 0 (blen a) = Some a.
Proof.
  intros a r. unfold slice. cbn [Nat.leb]. rewrite drop_bytes_0, Nat.sub_0_r. apply take_bytes_app.
Qed.

Lemma slice_suffix : forall a r, slice (a ++ r) (blen a) (blen (a ++ r)) = Some r.
Proof.
  intros a r. unfold slice. rewrite blen_app.
  replace (blen a <=? blen a + blen r) with true by (symmetry; apply Nat.leb_le; lia).
  rewrite drop_bytes_app. replace (blen a + blen r - blen a) with (blen r) by lia. apply take_bytes_all.
Qed.

(* find, on the characters with their offsets *)
Lemma find_indices_app : forall c a b i, (forallb (fun x => negb (x =? c)%N) a = true) ->
  find (fun p => (snd p =? c)%N) (indices (a ++ c :: b) i) = Some (i + blen a, c).
Proof.
  intros c. induction a as [|x a IH]; intros b i H.
  - cbn [app indices find snd blen]. rewrite N.eqb_refl, Nat.add_0_r. reflexivity.
  - cbn [forallb] in H. apply andb_true_iff in H. destruct H as [H1 H2]. apply negb_true_iff in H1.
    cbn [app indices find snd blen]. rewrite H1, IH by exact H2. f_equal. f_equal. lia.
Qed.

Lemma find_indices_none : forall c s i, (forallb (fun x => negb (x =? c)%N) s = true) ->
  find (fun p => (snd p =? c)%N) (indices s i) = None.
Proof.
  intros c. induction s as [|x s IH]; intros i H; [reflexivity|].
  cbn [forallb] in H. apply andb_true_iff in H. destruct H as [H1 H2]. apply negb_true_iff in H1.
  cbn [indices find snd]. rewrite H1. apply IH, H2.
Qed.

Lemma str_find_app : forall c a b, forallb (fun x => negb (x =? c)%N) a = true -> str_find c (a ++ c :: b) = Some (blen a).
Proof. intros c a b H. unfold str_find. rewrite find_indices_app by exact H. reflexivity. Qed.

Lemma str_find_none : forall c s, forallb (fun x => negb (x =? c)%N) s = true -> str_find c s = None.
Proof. intros c s H. unfold str_find. rewrite find_indices_none by exact H. reflexivity. Qed.

(* the model's [split_lb] is find('[') followed by the two slices around the offset it returns *)
Lemma split_lb_shape : forall s,
  match split_lb s with
  | None => forallb (fun x => negb (x =? LB)%N) s = true
  | Some (a, b) => s = (a ++ LB :: b)%list /\ forallb (fun x => negb (x =? LB)%N) a = true
  end.
Proof.
  induction s as [|c t IH]; [reflexivity|]. cbn [split_lb]. destruct (c =? LB)%N eqn:E.
  - apply N.eqb_eq in E. subst c. split; reflexivity.
  - destruct (split_lb t) as [[a b]|].
    + destruct IH as [IH1 IH2]. split; [cbn [app]; f_equal; exact IH1|]. cbn [forallb]. rewrite E, IH2. reflexivity.
    + cbn [forallb]. rewrite E, IH. reflexivity.
Qed.

Lemma split_lb_find : forall s,
  match split_lb s with
  | None => str_find LB s = None
  | Some (a, b) => str_find LB s = Some (blen a) /\ slice s 0 (blen a) = Some a
                   /\ slice s (blen a + 1) (blen s) = Some b
  end.
Proof.
  intros s. pose proof (split_lb_shape s) as H. destruct (split_lb s) as [[a b]|].
  - destruct H as [Hs Ha]. subst s. split; [apply str_find_app, Ha|]. split; [apply slice_prefix|].
    change (a ++ LB :: b)%list with (a ++ [LB] ++ b)%list. rewrite app_assoc.
    replace (blen a + 1) with (blen (a ++ [LB])) by (rewrite blen_app; reflexivity). apply slice_suffix.
  - apply str_find_none, H.
Qed.

(* next_back after next: the model's `match rev s with l :: _ :: _ => l | _ => first end` *)
Lemma last_after_first : forall (first : char) (t : str),
  unwrap_or (fst (chars_next_back t)) first = match rev (first :: t) with l :: _ :: _ => l | _ => first end.
Proof.
  intros first t. unfold chars_next_back. cbn [rev]. destruct (rev t) as [|l r]; [reflexivity|].
  cbn [fst unwrap_or app]. destruct r; reflexivity.
Qed.

(* symbols as code-point lists: [codes] is injective, so comparing texts is comparing symbols *)
Lemma N_of_ascii_inj : forall a b, N_of_ascii a = N_of_ascii b -> a = b.
Proof. intros a b H. rewrite <- (ascii_N_embedding a), <- (ascii_N_embedding b), H. reflexivity. Qed.

Lemma codes_inj : forall a b, codes a = codes b -> a = b.
Proof.
  induction a as [|x a IH]; destruct b as [|y b]; cbn [codes]; intros H; try discriminate H; [reflexivity|].
  inversion H as [[H1 H2]]. apply N_of_ascii_inj in H1. apply IH in H2. subst. reflexivity.
Qed.

Lemma str_eqb_refl : forall s, str_eqb s s = true.
Proof. intros s. unfold str_eqb. destruct (list_eq_dec N.eq_dec s s) as [_|C]; [reflexivity|exfalso; apply C; reflexivity]. Qed.

Lemma str_eqb_eq : forall a b, str_eqb a b = true <-> a = b.
Proof. intros a b. unfold str_eqb. destruct (list_eq_dec N.eq_dec a b) as [E|E]; split; intros H; try assumption; try reflexivity; try discriminate H. exfalso; exact (E H). Qed.

Lemma str_eqb_sym : forall a b, str_eqb a b = str_eqb b a.
Proof.
  intros a b. unfold str_eqb. destruct (list_eq_dec N.eq_dec a b) as [E|E], (list_eq_dec N.eq_dec b a) as [E'|E'];
    try reflexivity; exfalso; [apply E'|apply E]; symmetry; assumption.
Qed.

(* lookups in a table whose keys are its elements' symbols *)
Lemma tbl_find_in : forall s tbl e, tbl_find s tbl = Some e -> exists k, In (k, e) tbl /\ codes k = s.
Proof.
  intros s. induction tbl as [|[k v] r IH]; intros e H; [discriminate H|]. cbn [tbl_find] in H.
  destruct (str_eqb (codes k) s) eqn:E.
  - inversion H. subst v. exists k. split; [left; reflexivity|]. apply str_eqb_eq, E.
  - destruct (IH e H) as [k' [H1 H2]]. exists k'. split; [right; exact H1|exact H2].
Qed.

Lemma tbl_find_sym : forall tbl, keys_ok tbl -> forall s e, tbl_find s tbl = Some e -> codes (sym e) = s.
Proof.
  intros tbl Hk s e H. destruct (tbl_find_in s tbl e H) as [k [H1 H2]]. rewrite <- (Hk k e H1). exact H2.
Qed.

Lemma tbl_insert_keys_ok : forall e tbl, keys_ok tbl -> keys_ok (tbl_insert e tbl).
Proof.
  intros e. induction tbl as [|[k v] r IH]; intros H k' e' Hin.
  - cbn [tbl_insert] in Hin. destruct Hin as [Hin|[]]. inversion Hin. reflexivity.
  - cbn [tbl_insert] in Hin. destruct (String.eqb k (sym e)) eqn:E.
    + destruct Hin as [Hin|Hin].
      * inversion Hin. subst. apply String.eqb_eq, E.
      * apply H. right. exact Hin.
    + destruct Hin as [Hin|Hin].
      * inversion Hin. subst. apply H. left. reflexivity.
      * apply IH; [|exact Hin]. intros k0 e0 H0. apply H. right. exact H0.
Qed.

(* what populate_periodic_table builds (TableModel.build_table) is such a table, whatever the source lists *)
Lemma build_table_keys_ok : forall src, keys_ok (build_table src).
Proof.
  intros src. unfold build_table.
  assert (G : forall l t, keys_ok t -> keys_ok (fold_left (fun t s => tbl_insert (build_elem s) t) l t)).
  { induction l as [|s l IH]; intros t Ht; [exact Ht|]. cbn [fold_left]. apply IH, tbl_insert_keys_ok, Ht. }
  apply G. intros k e [].
Qed.
