(* isotopic_pattern/peak.rs: Peak, TheoreticalIsotopicPattern and its transformations.
   Transcribed operation by operation over an arbitrary [Num].  No proofs here. *)
From Coq Require Import ZArith NArith List Bool.
From CE Require Import Num.
Import ListNotations.

Section Peak.
  Context {F : Type} (N : Num F).

  Record peak := mkPeak { mz : F; inten : F }.
  Record tip := mkTip { peaks : list peak; origin : F }.

  Inductive res (A : Type) := Ok (a : A) | Panic.
  Arguments Ok {A}. Arguments Panic {A}.

  Definition total (p : tip) : F := fsum N (map inten (peaks p)).

  Definition scale_by (p : tip) (f : F) : tip :=
    mkTip (map (fun q => mkPeak (mz q) (mul N (inten q) f)) (peaks p)) (origin p).

  Definition normalize (p : tip) : tip := scale_by p (div N (one N) (total p)).

  Definition shift (p : tip) (off : F) : tip :=
    mkTip (map (fun q => mkPeak (add N (mz q) off) (inten q)) (peaks p)) (add N (origin p) off).

  Definition clone_shifted := shift.

  (* the loop shared by truncate_after and the fused operation: returns (stop_index, total at exit) *)
  Fixpoint trunc_scan (t : F) (l : list peak) (i : nat) (tot : F) (dflt : nat) : nat * F :=
    match l with
    | [] => (dflt, tot)
    | q :: r => let tot' := add N tot (inten q) in
                if geb N tot' t then (i, tot') else trunc_scan t r (S i) tot' dflt
    end.

  Definition truncate_after (p : tip) (t : F) : tip :=
    let '(stop, _) := trunc_scan t (peaks p) 0 (zero N) (Nat.pred (length (peaks p))) in
    normalize (mkTip (firstn (S stop) (peaks p)) (origin p)).

  Definition ignore_below (p : tip) (t : F) : tip :=
    normalize (mkTip (filter (fun q => geb N (inten q) t) (peaks p)) (origin p)).

  (* truncate_after_ignore_below_shift_normalize *)
  Fixpoint fused_filter (thr sh : F) (l : list peak) (tot : F) : list peak * F :=
    match l with
    | [] => ([], tot)
    | q :: r => if geb N (inten q) thr
                then let '(acc, tot') := fused_filter thr sh r tot in (mkPeak (add N (mz q) sh) (inten q) :: acc, tot')
                else fused_filter thr sh r (sub N tot (inten q))
    end.

  Definition fused (p : tip) (t1 t2 sh : F) : tip :=
    let '(stop, tot) := trunc_scan t1 (peaks p) 0 (zero N) (Nat.pred (length (peaks p))) in
    let kept := firstn (S stop) (peaks p) in
    let thr := mul N t2 tot in
    let '(acc, tot') := fused_filter thr sh kept tot in
    mkTip (map (fun q => mkPeak (mz q) (div N (inten q) tot')) acc) (origin p).

  Definition clone_drop_last (p : tip) : tip :=
    normalize (mkTip (removelast (peaks p)) (origin p)).

  (* &self.peaks[a..b] panics unless a <= b <= len *)
  Definition slice_normalized (p : tip) (a b : nat) : res tip :=
    if Nat.leb a b && Nat.leb b (length (peaks p))
    then Ok (normalize (mkTip (firstn (b - a) (skipn a (peaks p))) (origin p)))
    else Panic.

  (* IncrementalTruncationIter: cumulative sums of the normalised template (first = p0, then last + p) *)
  Fixpoint cumul (l : list peak) (last : option F) : list F :=
    match l with
    | [] => []
    | q :: r => let c := match last with None => inten q | Some s => add N s (inten q) end in
                c :: cumul r (Some c)
    end.

  (* next(): if index > 0 && cumulative[index] > threshold then yield slice 0..index+1, index -= 1 *)
  Fixpoint incr_iter (tmpl : tip) (cum : list F) (thr : F) (index : nat) : list tip :=
    match index with
    | O => []
    | S i' => if gtb N (nth index cum (zero N)) thr
              then normalize (mkTip (firstn (S index) (peaks tmpl)) (origin tmpl)) :: incr_iter tmpl cum thr i'
              else []
    end.

  Definition incremental_truncation (p : tip) (thr : F) : list tip :=
    let tmpl := normalize p in
    incr_iter tmpl (cumul (peaks tmpl) None) thr (Nat.pred (length (peaks tmpl))).

  (* Peak::eq: false iff |dmz| > 1e-3 or |dint| > 1e-3 *)
  Definition tol : F := of_dec N 1 3.
  Definition peak_eq (a b : peak) : bool :=
    negb (gtb N (abs N (sub N (mz a) (mz b))) tol || gtb N (abs N (sub N (inten a) (inten b))) tol).

  Fixpoint zip_all (l1 l2 : list peak) : bool :=
    match l1, l2 with
    | a :: r1, b :: r2 => peak_eq a b && zip_all r1 r2
    | _, _ => true
    end.
  Definition tip_eq (a b : tip) : bool :=
    Nat.eqb (length (peaks a)) (length (peaks b)) && zip_all (peaks a) (peaks b).
End Peak.

Arguments Ok {A}. Arguments Panic {A}.
Arguments mkPeak {F}. Arguments mz {F}. Arguments inten {F}.
Arguments mkTip {F}. Arguments peaks {F}. Arguments origin {F}.
