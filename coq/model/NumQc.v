(* The canonical-rational instance of [Num] (exact arithmetic, Leibniz equality). *)
From Coq Require Import ZArith QArith Qcanon List Bool.
From CE Require Import Num.

Definition Qc_leb (a b : Qc) : bool := Qle_bool a b.
Definition Qc_of_Z (z : Z) : Qc := Q2Qc (inject_Z z).

Definition NumQc : Num Qc :=
  mkNum Qc (Q2Qc 0) (Q2Qc 1) (Q2Qc 0)
        Qcplus Qcminus Qcmult Qcdiv Qcopp (fun a => if Qc_leb (Q2Qc 0) a then a else Qcopp a)
        (fun a b c => Qcplus (Qcmult a b) c)
        Qc_of_Z (fun num k => Qcdiv (Qc_of_Z num) (Qc_of_Z (Z.pow 10 (Z.of_nat k))))
        (fun a b => negb (Qc_leb b a)) Qc_leb (fun a b => Qc_eq_bool a b)
        (fun _ => true) (fun _ => false).
