(* The standard model of rounding for the fused multiply-add (a.mul_add(b, c): a*b + c with one rounding), and the side
   condition of the floating-point level C02 theorem.  No proofs here. *)
From Coq Require Import ZArith List Bool String.
From CE Require Import Num OField Str Comp Rounded RoundedExt TableModel.
Import ListNotations.

Section RoundedFma.
  Context {F K : Type} (N : Num F) (NK : Num K) (v : F -> K) (u : K) (fin nrm : F -> bool).

  Record StdModelFma : Prop := mkStdFma {
    sf_ext : StdModelExt N NK v u fin nrm;
    (* the start value of the chain is a finite number (as [sm_fin_sum0], [sm_fin_one] say for sum0 and one) *)
    sf_fin_zero : fin (zero N) = true;
    sf_fma : forall a b c, fin a = true -> fin b = true -> fin c = true -> nrm (fma N a b c) = true ->
             within NK u (add NK (mul NK (v a) (v b)) (v c)) (v (fma N a b c)) }.

  (* calc_mass over a list of (mass, count) pairs, as Comp.calc_mass_from computes it once the keys are resolved *)
  Fixpoint fma_chain (l : list (F * Z)) (tot : F) : F :=
    match l with [] => tot | (m, c) :: r => fma_chain r (fma N m (of_Z N c) tot) end.

  (* every mass is finite, every count is exactly representable, every running total is of normal magnitude *)
  Fixpoint fma_chain_safe (l : list (F * Z)) (tot : F) : bool :=
    match l with
    | [] => true
    | (m, c) :: r => fin m && (Z.abs c <=? 2 ^ 53)%Z && nrm (fma N m (of_Z N c) tot) && fma_chain_safe r (fma N m (of_Z N c) tot)
    end.

  (* exact value of the sum, and of the sum of magnitudes *)
  Definition exact_mass (l : list (F * Z)) : K := ksum NK (map (fun mc => mul NK (v (fst mc)) (of_Z NK (snd mc))) l).
  Definition exact_abs_mass (l : list (F * Z)) : K := ksum NK (map (fun mc => abs NK (mul NK (v (fst mc)) (of_Z NK (snd mc)))) l).
End RoundedFma.

(* the (mass, count) pairs of a composition whose keys all resolve in the table *)
Section Resolve.
  Context {F : Type} (N : Num F).
  Variable tbl : list (string * elem).
  Fixpoint resolve (l : ents) : option (list (F * Z)) :=
    match l with
    | [] => Some []
    | (k, c) :: r => match key_mass N tbl k, resolve r with Some m, Some t => Some ((m, c) :: t) | _, _ => None end
    end.
End Resolve.
