(* Correspondence and specification checks for C16 (and the key round trip of C07). *)
From Coq Require Import List ZArith NArith Bool Arith String.
From CE Require Import Str TableTypes TableModel Comp ESpec Table.
Import ListNotations.

Definition TE := build_table table_src.
Definition ua (c : char) : bool := (c =? 233)%N.     (* e-acute is alphabetic; the 4-byte digit and the others are not *)

Inductive eout := EO (sym : str) (iso : N) | EE (k : nat) | EP.
Record ecase := mkEC { ec_id : N; ec_s : str; ec_parse : list eout; ec_reads : list Z }.

Definition model_parse (s : str) : eout :=
  match espec_parse TE s with
  | EOk k => EO (fst k) (snd k)
  | EErr UnclosedIsotope => EE 0
  | EErr UnknownElement => EE 1
  | EPanic => EP
  end.
Definition eout_agree (a b : eout) : bool :=
  match a, b with
  | EO s i, EO t j => str_eqb s t && (i =? j)%N
  | EE _, EE _ => true
  | EP, EP => true
  | _, _ => false
  end.
Definition eout_kind (a b : eout) : bool := match a, b with EE x, EE y => Nat.eqb x y | _, _ => true end.

Definition model_reads (l : ents) (s : str) : list Z :=
  [v_index_str TE ua s l; v_find_str s l; m_index_str TE ua s l; m_get_str TE s l;
   v_index_str TE ua s l; v_index_str TE ua s l; m_index_str TE ua s l; m_index_str TE ua s l].
Definition zl_eq (a b : list Z) : bool := if list_eq_dec Z.eq_dec a b then true else false.

Definition e_tie (l : ents) (c : ecase) : bool :=
  forallb (eout_agree (model_parse (ec_s c))) (ec_parse c) && zl_eq (model_reads l (ec_s c)) (ec_reads c).
Definition e_kind (c : ecase) : bool := forallb (eout_kind (model_parse (ec_s c))) (ec_parse c).

(* an independent reference: run over the table's symbols and see whether the text is that symbol, optionally
   followed by one bracketed decimal number that is one of the element's isotope numbers *)
Fixpoint strip_prefix (p s : str) : option str :=
  match p, s with
  | [], _ => Some s
  | a :: p', b :: s' => if (a =? b)%N then strip_prefix p' s' else None
  | _, [] => None
  end.
Definition bracket_number (r : str) : option N :=
  match r with
  | c :: body => if (c =? LB)%N then
                   match rev body with
                   | d :: revds => if (d =? RB)%N then
                                     let ds := rev revds in
                                     if negb (Nat.eqb (List.length ds) 0) && forallb is_digit ds then
                                       match digits_val ds 0 with Some n => if (n <=? 65535)%N then Some n else None | None => None end
                                     else None
                                   else None
                   | [] => None
                   end
                 else None
  | [] => None
  end.
Definition espec_ref (s : str) : option key :=
  fold_left (fun acc p =>
      match acc with
      | Some k => Some k
      | None => let sy := codes (fst p) in
                match strip_prefix sy s with
                | Some [] => Some (sy, 0%N)
                | Some r => match bracket_number r with
                            | Some n => match assoc_get n (isos (snd p)) with Some _ => Some (sy, n) | None => None end
                            | None => None
                            end
                | None => None
                end
      end) TE None.

Definition has_br (s : str) : bool := existsb (fun c => (c =? LB)%N || (c =? RB)%N) s.

Definition e_holds (l : ents) (c : ecase) : bool :=
  let s := ec_s c in
  let r := espec_ref s in
  forallb (fun o => match o, r with
                    | EP, _ => false
                    | EO sy i, Some k => key_eqb (sy, i) k
                    | EO _ _, None => false
                    | EE _, Some _ => false
                    | EE _, None => true
                    end) (ec_parse c)
  && forallb (fun z => negb (z =? -999999)%Z) (ec_reads c)
  && let want := match r with Some k => e_get k l | None => 0%Z end in
     match ec_reads c with
     | [vi; vg; mi; mg; evi; evg; emi; emg] =>
         (* indexing by any text = the denoted entry's count (0 when it denotes nothing present) *)
         (vi =? want)%Z && (mi =? want)%Z && (evi =? want)%Z && (emi =? want)%Z
         (* get_str: the same for bracket-free text; for bracketed text the concrete types document 0 *)
         && (if has_br s then ((vg =? 0)%Z || (vg =? want)%Z) && ((mg =? 0)%Z || (mg =? want)%Z) && ((evg =? 0)%Z || (evg =? want)%Z) && ((emg =? 0)%Z || (emg =? want)%Z)
             else (vg =? want)%Z && (mg =? want)%Z && (evg =? want)%Z && (emg =? want)%Z)
     | _ => false
     end.

(* table pairs: rendering and parsing back *)
Record pcase := mkPCs { pp_id : N; pp_sym : string; pp_iso : N; pp_text : str; pp_back : eout; pp_json : str; pp_de : eout }.
Definition p_tie (c : pcase) : bool :=
  str_eqb (show_key (codes (pp_sym c), pp_iso c)) (pp_text c) && eout_agree (model_parse (pp_text c)) (pp_back c).
Definition p_holds (c : pcase) : bool :=
  eout_agree (EO (codes (pp_sym c)) (pp_iso c)) (pp_back c) && eout_agree (EO (codes (pp_sym c)) (pp_iso c)) (pp_de c)
  && str_eqb (pp_json c) ([34%N] ++ pp_text c ++ [34%N])%list.
(* every (element, isotope-or-none) pair of the table, as the model enumerates them *)
Definition table_pairs : list (string * N) :=
  List.concat (map (fun p => (fst p, 0%N) :: map (fun q => (fst p, fst q)) (filter (fun q => negb (fst q =? 0)%N) (isos (snd p)))) TE).

Definition e_nontrivial (c : ecase) : bool := match ec_parse c with EO _ _ :: _ => true | _ => Nat.ltb 2 (List.length (ec_s c)) end.
Fixpoint eids_where (f : ecase -> bool) (l : list ecase) : list N :=
  match l with [] => [] | c :: r => ((if f c then [ec_id c] else []) ++ eids_where f r)%list end.
Fixpoint pids_where (f : pcase -> bool) (l : list pcase) : list N :=
  match l with [] => [] | c :: r => ((if f c then [pp_id c] else []) ++ pids_where f r)%list end.
