(* Exact rational reading of doubles, used to evaluate the properties' specifications on the
   implementation's own outputs (correspondence runs only). *)
From Coq Require Import ZArith QArith Qreduction List Bool Floats.
From CE Require Import NumFloat.
Import ListNotations.
Open Scope Q_scope.

Definition qf (f : float) : option Q :=
  match f_exact f with
  | Some (n, d) => match d with Zpos p => Some (n # p) | _ => None end
  | None => None
  end.

Definition qf0 (f : float) : Q := match qf f with Some q => q | None => 0 end.

Definition all_finite (l : list float) : bool := forallb f_is_finite l.

Definition qsum (l : list Q) : Q := fold_left (fun a b => Qred (a + b)) l 0.

Definition qabs (q : Q) : Q := if Qle_bool 0 q then q else - q.
Definition qleb := Qle_bool.
Definition qltb (a b : Q) : bool := negb (Qle_bool b a).

(* |a - b| <= eps * max(|a|,|b|) *)
Definition q_close_rel (a b eps : Q) : bool :=
  qleb (qabs (a - b)) (eps * (if qleb (qabs a) (qabs b) then qabs b else qabs a)).
Definition q_close_abs (a b eps : Q) : bool := qleb (qabs (a - b)) eps.

Definition eps12 : Q := 1 # 1000000000000.
Definition eps9 : Q := 1 # 1000000000.
Definition eps6 : Q := 1 # 1000000.
Definition eps14 : Q := 1 # 100000000000000.
Definition eps15 : Q := 1 # 1000000000000000.
