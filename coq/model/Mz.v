(* mz.rs *)
From Coq Require Import ZArith List.
From CE Require Import Num.

Section Mz.
  Context {F : Type} (N : Num F).
  Definition PROTON : F := of_dec N 1007276 6.

  (* (neutral_mass + z * carrier) / |z| *)
  Definition mass_charge_ratio (m : F) (z : Z) (carrier : F) : F :=
    let zf := of_Z N z in div N (add N m (mul N zf carrier)) (abs N zf).

  (* mz * |z| - z * carrier *)
  Definition neutral_mass (mz : F) (z : Z) (carrier : F) : F :=
    let zf := of_Z N z in sub N (mul N mz (abs N zf)) (mul N zf carrier).

  (* the guard the three generators share: charge 0 means "leave the neutral mass" *)
  Definition charged (m : F) (z : Z) (carrier : F) : F :=
    if Z.eqb z 0 then m else mass_charge_ratio m z carrier.
End Mz.
