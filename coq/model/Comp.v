(* composition_list.rs / composition_map.rs / abstract_composition.rs / props.rs:
   the entry store and its operations, generic in the numeric interface (for the mass cache).
   Both representations are association lists over keys (symbol, isotope); the map form's
   iteration order is an arbitrary permutation, modelled by a `shuffle` oracle applied whenever
   the table may be rehashed.  No proofs in this file. *)
From Coq Require Import List ZArith NArith Bool Arith String.
From CE Require Import Num Str TableTypes TableModel.
Import ListNotations.

Definition key := (str * N)%type.
Definition key_eqb (a b : key) : bool := str_eqb (fst a) (fst b) && (snd a =? snd b)%N.
Definition ents := list (key * Z).

(* ---- list form (Vec<(key, i32)>): first match wins, new keys are pushed at the end ---- *)
Fixpoint e_get (k : key) (l : ents) : Z :=
  match l with [] => 0%Z | (k', v) :: r => if key_eqb k k' then v else e_get k r end.
Fixpoint e_mem (k : key) (l : ents) : bool :=
  match l with [] => false | (k', _) :: r => key_eqb k k' || e_mem k r end.
Fixpoint e_set (k : key) (n : Z) (l : ents) : ents :=
  match l with
  | [] => [(k, n)]
  | (k', v) :: r => if key_eqb k k' then (k', n) :: r else (k', v) :: e_set k n r
  end.
Definition e_inc (k : key) (n : Z) (l : ents) : ents := e_set k (e_get k l + n)%Z l.
(* `for (k, v) in other { self.inc(k, v) }` / with -v *)
Definition e_add (a b : ents) : ents := fold_left (fun acc kv => e_inc (fst kv) (snd kv) acc) b a.
Definition e_sub (a b : ents) : ents := fold_left (fun acc kv => e_inc (fst kv) (- snd kv)%Z acc) b a.
Definition e_mul (a : ents) (n : Z) : ents := map (fun kv => (fst kv, (snd kv * n)%Z)) a.
Definition e_neg (a : ents) : ents := e_mul a (-1).
(* FromIterator / From<Vec<..>> : accumulate with inc from empty *)
Definition e_collect (l : ents) : ents := e_add [] l.
(* impl_from!: copy with set *)
Definition e_copy (l : ents) : ents := fold_left (fun acc kv => e_set (fst kv) (snd kv) acc) l [].
Definition e_keys (l : ents) : list key := map fst l.

(* same entries: equal length and every entry of a is an entry of b (PartialEq after the fix) *)
Definition e_has (k : key) (v : Z) (l : ents) : bool := existsb (fun kv => key_eqb (fst kv) k && (snd kv =? v)%Z) l.
Definition e_eq (a b : ents) : bool := Nat.eqb (List.length a) (List.length b) && forallb (fun kv => e_has (fst kv) (snd kv) b) a.

(* ---- the mass ---- *)
Section Mass.
  Context {F : Type} (N : Num F).
  Variable tbl : list (string * elem).

  Fixpoint tbl_find (s : str) (t : list (string * elem)) : option elem :=
    match t with [] => None | (k, e) :: r => if str_eqb (codes k) s then Some e else tbl_find s r end.

  (* element.most_abundant_mass, or element.isotopes[&iso].mass (None = the index panics) *)
  Definition key_mass (k : key) : option F :=
    match tbl_find (fst k) tbl with
    | None => None
    | Some e => if (snd k =? 0)%N then Some (of_dec N (mam e) 6)
                else match assoc_get (snd k) (isos e) with Some i => Some (of_dec N (mass i) 6) | None => None end
    end.

  (* total = mass.mul_add(count as f64, total), in iteration order *)
  Fixpoint calc_mass_from (l : ents) (tot : F) : option F :=
    match l with
    | [] => Some tot
    | (k, c) :: r => match key_mass k with
                     | Some m => calc_mass_from r (fma N m (of_Z N c) tot)
                     | None => None
                     end
    end.
  Definition calc_mass (l : ents) : option F := calc_mass_from l (zero N).
End Mass.

(* ---- a composition: entries plus the mass cache ---- *)
Record comp (F : Type) := mkComp { c_ents : ents; c_cache : option F }.
Arguments mkComp {F}. Arguments c_ents {F}. Arguments c_cache {F}.
