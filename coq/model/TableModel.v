(* Runtime model of element.rs / table.rs: what `populate_periodic_table` builds from the
   statements in Table.v, and the generator rules of data/build.rs.  No proofs in this file. *)
From Coq Require Import ZArith NArith List String Bool Ascii.
From CE Require Import TableTypes.
Import ListNotations.
Local Open Scope Z_scope.

(* ---------- runtime shapes ---------- *)
Record iso := mkI { mass : Z; ab : Z; neutrons : N; shift : Z }.   (* 1e-6 units *)

Record elem := mkE {
  sym : string;
  isos : list (N * iso);      (* HashMap<u16, Isotope>: assoc list, keys unique, order = first insertion *)
  mai : N; mam : Z; number : N;
  min_shift : Z; max_shift : Z }.

Fixpoint assoc_insert {A} (k : N) (v : A) (l : list (N * A)) : list (N * A) :=
  match l with
  | [] => [(k, v)]
  | (k', v') :: r => if N.eqb k k' then (k, v) :: r else (k', v') :: assoc_insert k v r
  end.

Fixpoint assoc_get {A} (k : N) (l : list (N * A)) : option A :=
  match l with
  | [] => None
  | (k', v) :: r => if N.eqb k k' then Some v else assoc_get k r
  end.

Definition zmax_list (l : list Z) : option Z :=
  match l with [] => None | x :: r => Some (fold_left Z.max r x) end.
Definition zmin_list (l : list Z) : option Z :=
  match l with [] => None | x :: r => Some (fold_left Z.min r x) end.

(* element.rs:84-116.  index_isotopes zeroes both fields first, so the "non-zero means
   already set" shortcut of calc_{min,max}_neutron_shift never fires there. *)
Definition calc_max (cur : Z) (is : list (N * iso)) : Z :=
  if negb (cur =? 0) then cur
  else match zmax_list (map (fun p => shift (snd p)) is) with Some m => m | None => 0 end.
Definition calc_min (cur : Z) (is : list (N * iso)) : Z :=
  if negb (cur =? 0) then cur
  else match zmin_list (map (fun p => shift (snd p)) is) with Some m => m | None => 0 end.

Definition build_isos (l : list iso_src) : list (N * iso) :=
  fold_left (fun acc i => assoc_insert (i_key i) (mkI (i_mass i) (i_ab i) (i_neutrons i) (i_shift i)) acc) l [].

Definition build_elem (s : elem_src) : elem :=
  let early := build_isos (s_isos s) in
  let is := fold_left (fun acc i => assoc_insert (i_key i) (mkI (i_mass i) (i_ab i) (i_neutrons i) (i_shift i)) acc) (s_late s) early in
  if s_indexed s then
    (* index_isotopes sees only what has been inserted so far *)
    let mx := calc_max 0 early in
    let mn := calc_min 0 early in
    mkE (s_sym s) is (s_mai s) (s_mam s) (s_number s) mn mx
  else mkE (s_sym s) is (s_mai s) (s_mam s) (s_number s) (s_min0 s) (s_max0 s).

(* PeriodicTable: HashMap<String, Element>; `add` inserts under element.symbol *)
Fixpoint tbl_insert (e : elem) (t : list (string * elem)) : list (string * elem) :=
  match t with
  | [] => [(sym e, e)]
  | (k, v) :: r => if String.eqb k (sym e) then (k, e) :: r else (k, v) :: tbl_insert e r
  end.

Definition build_table (src : list elem_src) : list (string * elem) :=
  fold_left (fun t s => tbl_insert (build_elem s) t) src [].

Fixpoint tbl_get (k : string) (t : list (string * elem)) : option elem :=
  match t with
  | [] => None
  | (k', v) :: r => if String.eqb k k' then Some v else tbl_get k r
  end.

(* ---------- C12: per-element consistency (boolean, clause by clause) ---------- *)

Definition sumZ (l : list Z) : Z := fold_left Z.add l 0.

Definition is_placeholder (e : elem) : bool :=
  match isos e with
  | [(0%N, i)] => true
  | _ => false
  end.

(* clause 1: stored under its own symbol *)
Definition c_own_symbol (k : string) (e : elem) : bool := String.eqb k (sym e).

(* clause 2: each isotope stored under its nucleon number; an element without natural isotopes
   carries exactly one entry, numbered 0, with abundance 1 *)
Definition c_keys (e : elem) : bool :=
  forallb (fun p => N.eqb (fst p) (neutrons (snd p))) (isos e)
  && negb (Nat.eqb (List.length (isos e)) 0)
  && (if existsb (fun p => N.eqb (fst p) 0) (isos e)
      then match isos e with [(_, i)] => (ab i =? 1000000) | _ => false end
      else true).

(* clause 3: neutron shift = nucleon number - most abundant isotope's *)
Definition c_shift (e : elem) : bool :=
  forallb (fun p => shift (snd p) =? Z.of_N (neutrons (snd p)) - Z.of_N (mai e)) (isos e).

(* clause 4: abundances in (0,1], summing to 1 within 1e-3 *)
Definition c_abund (e : elem) : bool :=
  forallb (fun p => (0 <? ab (snd p)) && (ab (snd p) <=? 1000000)) (isos e)
  && (Z.abs (sumZ (map (fun p => ab (snd p)) (isos e)) - 1000000) <=? 1000).

(* clause 5: the recorded most abundant isotope has maximal abundance and its mass is recorded *)
Definition c_most_abundant (e : elem) : bool :=
  match assoc_get (mai e) (isos e) with
  | None => false
  | Some m => forallb (fun p => ab (snd p) <=? ab m) (isos e) && (mam e =? mass m)
  end.

(* clause 6: recorded min / max shift are those of the isotopes *)
Definition c_minmax (e : elem) : bool :=
  match zmin_list (map (fun p => shift (snd p)) (isos e)), zmax_list (map (fun p => shift (snd p)) (isos e)) with
  | Some mn, Some mx => (min_shift e =? mn) && (max_shift e =? mx)
  | _, _ => false
  end.

(* clause 7: masses strictly increase with nucleon number and lie within 0.15 u of it *)
Definition c_masses (e : elem) : bool :=
  if is_placeholder e then true else
  forallb (fun p => forallb (fun q =>
     if N.ltb (neutrons (snd p)) (neutrons (snd q)) then mass (snd p) <? mass (snd q) else true) (isos e)) (isos e)
  && forallb (fun p => Z.abs (mass (snd p) - Z.of_N (neutrons (snd p)) * 1000000) <=? 150000) (isos e).

Definition elem_clauses (k : string) (e : elem) : list bool :=
  [c_own_symbol k e; c_keys e; c_shift e; c_abund e; c_most_abundant e; c_minmax e; c_masses e].

Definition elem_ok (k : string) (e : elem) : bool := forallb (fun b => b) (elem_clauses k e).

Definition keys_unique (t : list (string * elem)) : bool :=
  forallb (fun p => match tbl_get (fst p) t with Some e => String.eqb (sym e) (sym (snd p)) | None => false end) t
  && Nat.eqb (List.length (nodup string_dec (map fst t))) (List.length t).

Definition table_consistent (t : list (string * elem)) : bool :=
  keys_unique t && forallb (fun p => elem_ok (fst p) (snd p)) t.

(* failing (symbol, clause index) pairs: what the check prints as the replay *)
Fixpoint failing_idx (n : nat) (l : list bool) : list nat :=
  match l with [] => [] | b :: r => (if b then [] else [n]) ++ failing_idx (S n) r end.
Definition table_failures (t : list (string * elem)) : list (string * list nat) :=
  filter (fun p => negb (Nat.eqb (List.length (snd p)) 0))
         (map (fun p => (fst p, failing_idx 1 (elem_clauses (fst p) (snd p)))) t).

(* ---------- data/build.rs generator rules ---------- *)

(* ---- binary64 arithmetic on positive rationals, in Z only (no primitive float in any proof) ---- *)

(* nearest-even rounding of num/den > 0 to a 53-bit significand: (m, e) with value m * 2^e and
   2^52 <= m < 2^53.  Valid in the normal range, which `dbl_safe` checks. *)
Definition rnd53 (num den : Z) : Z * Z :=
  let e1 := Z.log2 num - Z.log2 den - 52 in
  let scale e := if 0 <=? e then (num, den * 2 ^ e) else (num * 2 ^ (- e), den) in
  let e := let '(n1, d1) := scale e1 in if 2 ^ 52 <=? n1 / d1 then e1 else e1 - 1 in
  let '(n, d) := scale e in
  let m0 := n / d in
  let r := n mod d in
  let m := if (d <? 2 * r) || ((d =? 2 * r) && Z.odd m0) then m0 + 1 else m0 in
  if m =? 2 ^ 53 then (2 ^ 52, e + 1) else (m, e).

(* the exact value of m * 2^e as a fraction *)
Definition dbl_frac (p : Z * Z) : Z * Z :=
  let '(m, e) := p in if 0 <=? e then (m * 2 ^ e, 1) else (m, 2 ^ (- e)).

(* the double nearest to num / 10^k, as an exact fraction (0 stays 0) *)
Definition dbl_of_dec (num : Z) (k : nat) : Z * Z :=
  if num =? 0 then (0, 1) else dbl_frac (rnd53 num (Z.pow 10 (Z.of_nat k))).

(* binary64 product of a double (as a fraction) with an integer constant *)
Definition dbl_mul_int (x : Z * Z) (c : Z) : Z * Z :=
  let '(n, d) := x in if n =? 0 then (0, 1) else dbl_frac (rnd53 (n * c) d).

(* f64::round: half away from zero, x >= 0 *)
Definition round_half_away (x : Z * Z) : Z := let '(n, d) := x in (2 * n + d) / (2 * d).

(* `{:.6}`: the exact binary value rounded half-to-even at six decimals, in units of 1e-6 *)
Definition fmt6 (x : Z * Z) : Z :=
  let '(n, d) := x in
  let n6 := n * 1000000 in
  let q := n6 / d in let r := n6 mod d in
  if (d <? 2 * r) || ((d =? 2 * r) && Z.odd q) then q + 1 else q.

Record gen_iso := mkG { g_num : N; g_mass6 : Z; g_ab6 : Z; g_key : Z (* (ab * 100.0).round() *) }.

Definition to_gen (i : nist_iso) : gen_iso :=
  let m := dbl_of_dec (n_mass_num i) (n_mass_k i) in
  let a := dbl_of_dec (n_ab_num i) (n_ab_k i) in
  mkG (n_key i) (fmt6 m) (fmt6 a) (round_half_away (dbl_mul_int a 100)).

(* stable insertion sort by key, ascending: what slice::sort_by_key guarantees *)
Fixpoint ins_sorted (x : gen_iso) (l : list gen_iso) : list gen_iso :=
  match l with
  | [] => [x]
  | y :: r => if g_key x <? g_key y then x :: y :: r else y :: ins_sorted x r
  end.
Definition stable_sort (l : list gen_iso) : list gen_iso := fold_left (fun acc x => ins_sorted x acc) l [].

Definition last_opt {A} (l : list A) : option A := match rev l with [] => None | x :: _ => Some x end.

Definition gen_elem (e : nist_elem) : elem_src :=
  let live := filter (fun i => negb (n_ab_num i =? 0)) (n_isos e) in
  let refs := filter (fun i => N.eqb (n_key i) 0) live in
  let rest := stable_sort (map to_gen (filter (fun i => negb (N.eqb (n_key i) 0)) live)) in
  match last_opt rest with
  | Some top =>
      let shift_of g := Z.of_N (g_num g) - Z.of_N (g_num top) in
      let number := fold_left (fun acc g => if shift_of g =? 0 then g_num g else acc) rest 0%N in
      mkElem (n_sym e) (g_num top) (g_mass6 top) number 0 0 true
             (map (fun g => mkIso (g_num g) (g_mass6 g) (g_ab6 g) (g_num g) (shift_of g)) rest) []
  | None =>
      match last_opt refs with
      | Some r => let g := to_gen r in
                  mkElem (n_sym e) 0 (g_mass6 g) 0 0 0 true [mkIso (g_num g) (g_mass6 g) (g_ab6 g) (g_num g) 0] []
      | None => (* Isotope::default(): all zero *)
                  mkElem (n_sym e) 0 0 0 0 0 true [mkIso 0 0 0 0 0] []
      end
  end.

(* side conditions under which the Z-level binary64 model above is the f64 computation of build.rs:
   decimal numerators and powers of ten exactly representable (so serde_json's conversion is one
   correctly rounded division), values in the normal range, shifts within i8, numbers within u16 *)
Definition nist_iso_safe (i : nist_iso) : bool :=
  (0 <=? n_ab_num i) && (0 <=? n_mass_num i)
  && (n_mass_num i <? 2 ^ 53) && (n_ab_num i <? 2 ^ 53)
  && Nat.leb (n_mass_k i) 15 && Nat.leb (n_ab_k i) 15
  && ((n_mass_num i =? 0) || (Z.pow 10 (Z.of_nat (n_mass_k i)) <? n_mass_num i * 2 ^ 100))
  && (n_key i <? 65536)%N.
Definition nist_safe (n : list nist_elem) : bool :=
  forallb (fun e => forallb nist_iso_safe (filter (fun i => negb (n_ab_num i =? 0)) (n_isos e))
                    && forallb (fun i => forallb (fun j =>
                          Z.abs (Z.of_N (n_key i) - Z.of_N (n_key j)) <? 128)
                          (filter (fun i => negb (n_ab_num i =? 0) && negb (N.eqb (n_key i) 0)) (n_isos e)))
                          (filter (fun i => negb (n_ab_num i =? 0) && negb (N.eqb (n_key i) 0)) (n_isos e))) n.

(* comparison "value for value": same symbols, and per symbol the same runtime element *)
Definition iso_eqb (a b : iso) : bool :=
  (mass a =? mass b) && (ab a =? ab b) && N.eqb (neutrons a) (neutrons b) && (shift a =? shift b).
Definition isos_sub (a b : list (N * iso)) : bool :=
  forallb (fun p => match assoc_get (fst p) b with Some i => iso_eqb (snd p) i | None => false end) a.
Definition elem_eqb (a b : elem) : bool :=
  String.eqb (sym a) (sym b) && isos_sub (isos a) (isos b) && isos_sub (isos b) (isos a)
  && N.eqb (mai a) (mai b) && (mam a =? mam b) && N.eqb (number a) (number b)
  && (min_shift a =? min_shift b) && (max_shift a =? max_shift b).
Definition table_sub (a b : list (string * elem)) : bool :=
  forallb (fun p => match tbl_get (fst p) b with Some e => elem_eqb (snd p) e | None => false end) a.
Definition table_eqb (a b : list (string * elem)) : bool := table_sub a b && table_sub b a.

Definition table_diff (a b : list (string * elem)) : list string :=
  map fst (filter (fun p => match tbl_get (fst p) b with Some e => negb (elem_eqb (snd p) e) | None => true end) a)
  ++ map fst (filter (fun p => match tbl_get (fst p) a with Some _ => false | None => true end) b).
