(* Correspondence and specification checks for C01 / C05 (evaluated by coqc / the extracted driver). *)
From Coq Require Import List ZArith NArith Bool Arith String.
From CE Require Import Str TableTypes TableModel Comp ESpec Formula FormulaSpec Render Table.
Import ListNotations.

Definition TF := build_table table_src.
(* char::is_numeric on the non-ASCII code points the harness uses (ARABIC-INDIC THREE, SUPERSCRIPT TWO,
   MATHEMATICAL DOUBLE-STRUCK TWO); e-acute and the rest are not numeric *)
Definition uni_num (c : char) : bool := (c =? 1635)%N || (c =? 178)%N || (c =? 120794)%N.

Definition he := has_elem TF.
Definition hi := has_iso TF.

Inductive fout := ROk (l : list (str * N * Z)) | RErr (k : nat) | RPanic.

Definition err_idx (e : err) : nat :=
  match e with InvalidStart => 0 | ElementCountMalformed => 1 | IsotopeCountMalformed => 2
             | GroupCountMalformed => 3 | IncompleteFormula => 4 | InvalidElement => 5 end.

Definition flat (l : ents) : list (str * N * Z) := map (fun kv => (fst (fst kv), snd (fst kv), snd kv)) (sort_ents l).

Definition model_parse (s : str) : fout :=
  match parse_formula uni_num he hi s with
  | FOk c => ROk (flat c)
  | FErr e => RErr (err_idx e)
  | FPanic => RPanic
  end.

Definition trip_eqb (a b : str * N * Z) : bool :=
  str_eqb (fst (fst a)) (fst (fst b)) && (snd (fst a) =? snd (fst b))%N && (snd a =? snd b)%Z.
Fixpoint trips_eqb (a b : list (str * N * Z)) : bool :=
  match a, b with [], [] => true | x :: r, y :: s => trip_eqb x y && trips_eqb r s | _, _ => false end.

(* class + entries (the error kind is reported separately) *)
Definition fout_agree (a b : fout) : bool :=
  match a, b with
  | ROk x, ROk y => trips_eqb x y
  | RErr _, RErr _ => true
  | RPanic, RPanic => true
  | _, _ => false
  end.
Definition fout_same_kind (a b : fout) : bool :=
  match a, b with RErr x, RErr y => Nat.eqb x y | _, _ => true end.

Record fcase := mkFC { fc_id : N; fc_s : str; fc_outs : list fout; fc_ast : option (list item) }.

Definition f_tie (c : fcase) : bool := forallb (fout_agree (model_parse (fc_s c))) (fc_outs c).
Definition f_kind (c : fcase) : bool := forallb (fout_same_kind (model_parse (fc_s c))) (fc_outs c).

(* does an entry list equal the denotation of an AST: every listed entry has the denoted count and is named,
   and every named key is listed *)
Fixpoint item_keys (it : item) : list key :=
  match it with
  | El s i _ => [(s, iso_val i)]
  | Gr b _ => (fix go (l : list item) : list key := match l with [] => [] | x :: r => (item_keys x ++ go r)%list end) b
  end.
Definition ast_keys (f : list item) : list key := List.concat (map item_keys f).

Fixpoint dedup_keys (l : list key) (seen : list key) : list key :=
  match l with
  | [] => []
  | k :: r => if existsb (key_eqb k) seen then dedup_keys r seen else k :: dedup_keys r (k :: seen)
  end.

Definition denotes (f : list item) (l : list (str * N * Z)) : bool :=
  forallb (fun t => let k := (fst (fst t), snd (fst t)) in (denote f k =? snd t)%Z && named f k) l
  && forallb (fun k => existsb (fun t => key_eqb k (fst (fst t), snd (fst t))) l) (ast_keys f)
  && Nat.eqb (List.length l) (List.length (dedup_keys (ast_keys f) [])).

(* C05 on the implementation's outcomes: never a panic; Ok exactly when the reference reader accepts the text
   as a well-formed formula, and then with the denoted composition *)
Definition c05_holds_out (s : str) (o : fout) : bool :=
  match o, reference uni_num he hi s with
  | RPanic, _ => false
  | ROk l, Some f => denotes f l
  | ROk _, None => false
  | RErr _, Some _ => false
  | RErr _, None => true
  end.
Definition c05_holds (c : fcase) : bool := forallb (c05_holds_out (fc_s c)) (fc_outs c).

(* C01 on grammar-generated formulas: the text is the rendering of a strictly well-formed AST, every entry point
   returns Ok with exactly the denoted atoms *)
Definition c01_holds (c : fcase) : bool :=
  match fc_ast c with
  | None => true
  | Some f => str_eqb (render f) (fc_s c) && wf uni_num he hi false f
              && forallb (fun o => match o with ROk l => denotes f l | _ => false end) (fc_outs c)
  end.

Definition f_nontrivial (c : fcase) : bool :=
  match fc_outs c with ROk l :: _ => Nat.ltb 1 (List.length l) | _ => Nat.ltb 3 (List.length (fc_s c)) end.

Fixpoint fids_where (f : fcase -> bool) (l : list fcase) : list N :=
  match l with [] => [] | c :: r => ((if f c then [fc_id c] else []) ++ fids_where f r)%list end.
