(* Loop combinators for the shallow embedding of imperative Rust (tools/gen_poisson.py -> gen/PoissonGen.v),
   and the general reasoning rules about them.  Nothing here knows about any particular generated text.

     for i in a..b { body }                 ~>  for_range a b (fun i s => body) s          (s: the mutable locals)
     for i in a..b { ... return r; ... }    ~>  for_range_ret a b (fun i s => inl s' | inr r) s
     (a..b).for_each(|i| { body })          ~>  for_range a b ...

   A usize range a..b is the list [seq a (b - a)] (empty when b <= a, exactly as in Rust). *)
From Coq Require Import Arith List Lia.
Import ListNotations.

Section Imp.
  Context {St : Type}.

  Definition for_range (a b : nat) (body : nat -> St -> St) (s : St) : St :=
    fold_left (fun s i => body i s) (seq a (b - a)) s.

  (* a body step either continues with a new state (inl) or leaves the enclosing function with a value (inr) *)
  Fixpoint for_list_ret {R : Type} (l : list nat) (body : nat -> St -> St + R) (s : St) : St + R :=
    match l with
    | [] => inl s
    | i :: r => match body i s with
                | inl s' => for_list_ret r body s'
                | inr x => inr x
                end
    end.

  Definition for_range_ret {R : Type} (a b : nat) (body : nat -> St -> St + R) (s : St) : St + R :=
    for_list_ret (seq a (b - a)) body s.

  (* ---------- unfolding ---------- *)

  Lemma for_range_empty a b body s : b <= a -> for_range a b body s = s.
  Proof. intros H. unfold for_range. replace (b - a) with 0 by lia. reflexivity. Qed.

  Lemma for_range_first a b body s : a < b -> for_range a b body s = for_range (S a) b body (body a s).
  Proof.
    intros H. unfold for_range. replace (b - a) with (S (b - S a)) by lia. reflexivity.
  Qed.

  Lemma for_range_last a b body s : a <= b -> for_range a (S b) body s = body b (for_range a b body s).
  Proof.
    intros H. unfold for_range. replace (S b - a) with (S (b - a)) by lia.
    rewrite seq_S, fold_left_app. cbn. replace (a + (b - a)) with b by lia. reflexivity.
  Qed.

  Lemma for_range_ret_empty {R} a b (body : nat -> St -> St + R) s : b <= a -> for_range_ret a b body s = inl s.
  Proof. intros H. unfold for_range_ret. replace (b - a) with 0 by lia. reflexivity. Qed.

  Lemma for_range_ret_first {R} a b (body : nat -> St -> St + R) s : a < b ->
    for_range_ret a b body s =
    match body a s with inl s' => for_range_ret (S a) b body s' | inr x => inr x end.
  Proof.
    intros H. unfold for_range_ret. replace (b - a) with (S (b - S a)) by lia. reflexivity.
  Qed.

  (* ---------- extensionality (only the indices of the range matter) ---------- *)

  Lemma for_range_ext a b body body' s :
    (forall i s, a <= i < b -> body i s = body' i s) -> for_range a b body s = for_range a b body' s.
  Proof.
    intros H. remember (b - a) as m eqn:Hm. revert a s H Hm.
    induction m as [|m IH]; intros a s H Hm.
    - rewrite !for_range_empty by lia. reflexivity.
    - rewrite (for_range_first a b body), (for_range_first a b body') by lia.
      rewrite H by lia. apply IH; [intros; apply H|]; lia.
  Qed.

  Lemma for_range_ret_ext {R} a b (body body' : nat -> St -> St + R) s :
    (forall i s, a <= i < b -> body i s = body' i s) -> for_range_ret a b body s = for_range_ret a b body' s.
  Proof.
    intros H. remember (b - a) as m eqn:Hm. revert a s H Hm.
    induction m as [|m IH]; intros a s H Hm.
    - rewrite !for_range_ret_empty by lia. reflexivity.
    - rewrite (for_range_ret_first a b body), (for_range_ret_first a b body') by lia. rewrite H by lia.
      destruct (body' a s); [|reflexivity]. apply IH; [intros; apply H|]; lia.
  Qed.

  (* ---------- the loop-invariant rule ---------- *)

  Lemma for_range_inv (P : nat -> St -> Prop) a b body s :
    a <= b -> P a s ->
    (forall i s, a <= i < b -> P i s -> P (S i) (body i s)) ->
    P b (for_range a b body s).
  Proof.
    intros Hab H0 Hstep. remember (b - a) as m eqn:Hm. revert a s Hab H0 Hstep Hm.
    induction m as [|m IH]; intros a s Hab H0 Hstep Hm.
    - rewrite for_range_empty by lia. replace b with a by lia. exact H0.
    - rewrite for_range_first by lia. apply IH; try lia.
      + apply Hstep; [lia | exact H0].
      + intros i s' Hi. apply Hstep. lia.
  Qed.

  (* ---------- loops against fuel-recursive functions ----------
     A structurally recursive model of a loop is a function [f fuel i s] that performs one body step per unit of
     fuel.  If [f] obeys the two unfolding equations below, it computes what the loop computes (observed through
     [k]), for every range.  This is the only induction over the range the source ties need. *)

  Lemma for_range_fuel {T : Type} (body : nat -> St -> St) (f : nat -> nat -> St -> T) (k : St -> T) :
    (forall a s, f 0 a s = k s) ->
    (forall m a s, f (S m) a s = f m (S a) (body a s)) ->
    forall a b s, f (b - a) a s = k (for_range a b body s).
  Proof.
    intros H0 HS a b. remember (b - a) as m eqn:Hm. revert a Hm.
    induction m as [|m IH]; intros a Hm s.
    - rewrite for_range_empty by lia. apply H0.
    - rewrite for_range_first by lia. rewrite HS. apply IH. lia.
  Qed.

  Lemma for_range_ret_fuel {R T : Type} (body : nat -> St -> St + R) (f : nat -> nat -> St -> T)
        (kl : St -> T) (kr : R -> T) :
    (forall a s, f 0 a s = kl s) ->
    (forall m a s, f (S m) a s = match body a s with inl s' => f m (S a) s' | inr r => kr r end) ->
    forall a b s, f (b - a) a s = match for_range_ret a b body s with inl s' => kl s' | inr r => kr r end.
  Proof.
    intros H0 HS a b. remember (b - a) as m eqn:Hm. revert a Hm.
    induction m as [|m IH]; intros a Hm s.
    - rewrite for_range_ret_empty by lia. apply H0.
    - rewrite for_range_ret_first by lia. rewrite HS.
      destruct (body a s) as [s'|r]; [|reflexivity]. apply IH. lia.
  Qed.
End Imp.

(* ---------- a loop that only pushes:  for i in a..b { v.push(g i) }  ---------- *)

Lemma for_range_push {A : Type} (g : nat -> A) a b (body : nat -> list A -> list A) l :
  (forall i l, a <= i < b -> body i l = l ++ [g i]) ->
  for_range a b body l = l ++ map g (seq a (b - a)).
Proof.
  intros H. rewrite (for_range_ext a b body (fun i l => l ++ [g i])) by exact H.
  unfold for_range. generalize (seq a (b - a)) as is. intros is. revert l.
  induction is as [|i is IH]; intros l; cbn.
  - rewrite app_nil_r. reflexivity.
  - rewrite IH, <- app_assoc. reflexivity.
Qed.

(* reading a vector by index over its whole length is zipping it with its indices *)
Lemma map_nth_seq_combine {A B : Type} (h : nat -> A -> B) (d : A) :
  forall (l : list A) s,
  map (fun i => h i (nth (i - s) l d)) (seq s (length l)) = map (fun ix => h (fst ix) (snd ix)) (combine (seq s (length l)) l).
Proof.
  induction l as [|x l IH]; intros s; [reflexivity|].
  cbn [length seq combine map fst snd]. rewrite Nat.sub_diag. cbn [nth]. f_equal.
  rewrite <- IH. apply map_ext_in. intros i Hi. apply in_seq in Hi.
  replace (i - s) with (S (i - S s)) by lia. reflexivity.
Qed.
