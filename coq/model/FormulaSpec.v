(* Specification side of C01 / C05 / C07: formula ASTs, their text, what they denote, well-formedness,
   and an independent direct-style reader used as reference recogniser in the correspondence runs.
   No proofs in this file. *)
From Coq Require Import List ZArith NArith Bool Arith String.
From CE Require Import Str Comp.
Import ListNotations.

(* counts and isotope numbers are kept as the digit text that was written *)
Inductive item :=
| El (sym : str) (iso : option str) (cnt : option str)
| Gr (body : list item) (cnt : option str).

Definition opt_text (o : option str) : str := match o with Some d => d | None => [] end.

Fixpoint render_item (it : item) : str :=
  match it with
  | El s i c => s ++ (match i with Some d => [LB] ++ d ++ [RB] | None => [] end) ++ opt_text c
  | Gr b c => [LP] ++ (fix go (l : list item) : str := match l with [] => [] | x :: r => render_item x ++ go r end) b
              ++ [RP] ++ opt_text c
  end.
Definition render (f : list item) : str := List.concat (map render_item f).

Definition cnt_val (c : option str) : Z :=
  match c with None => 1%Z | Some d => match digits_val d 0 with Some n => Z.of_N n | None => 0%Z end end.
Definition iso_val (i : option str) : N :=
  match i with None => 0%N | Some d => match digits_val d 0 with Some n => n | None => 0%N end end.

(* the number of atoms of key k denoted: term count times the counts of all enclosing groups *)
Fixpoint denote_item (it : item) (k : key) : Z :=
  match it with
  | El s i c => if key_eqb k (s, iso_val i) then cnt_val c else 0%Z
  | Gr b c => (cnt_val c * (fix go (l : list item) : Z := match l with [] => 0%Z | x :: r => (denote_item x k + go r)%Z end) b)%Z
  end.
Definition denote (f : list item) (k : key) : Z := fold_right (fun it acc => (denote_item it k + acc)%Z) 0%Z f.

Fixpoint named_item (it : item) (k : key) : bool :=
  match it with
  | El s i _ => key_eqb k (s, iso_val i)
  | Gr b _ => (fix go (l : list item) : bool := match l with [] => false | x :: r => named_item x k || go r end) b
  end.
Definition named (f : list item) (k : key) : bool := existsb (fun it => named_item it k) f.

Section WF.
  Variable uni_numeric : char -> bool.
  Variable has_elem : str -> bool.
  Variable has_iso : str -> N -> bool.
  Definition is_num (c : char) : bool := if (c <? 128)%N then is_digit c else uni_numeric c.

  (* characters that end a symbol *)
  Definition sym_stop (c : char) : bool := is_upper c || is_num c || (c =? LB)%N || (c =? LP)%N.
  (* a symbol: an upper-case letter, then anything that neither ends a symbol nor closes a group *)
  Definition sym_shape (s : str) : bool :=
    match s with c :: r => is_upper c && forallb (fun x => negb (sym_stop x) && negb (x =? RP)%N) r | [] => false end.

  Definition digits_ok (d : str) : bool := negb (Nat.eqb (List.length d) 0) && forallb is_digit d.
  Definition cnt_ok (c : option str) : bool :=
    match c with None => true | Some d => digits_ok d && match parse_i32 d with Some _ => true | None => false end end.

  (* strict: what the documented grammar allows *)
  Definition iso_ok (s : str) (i : option str) : bool :=
    match i with
    | None => true
    | Some d => digits_ok d && match parse_u16 d with Some n => has_iso s n | None => false end
    end.
  (* lenient: additionally the two corner forms the property leaves unspecified:
     `[]` directly before a count, and a bracketed 0 *)
  Definition iso_ok_lenient (s : str) (i : option str) (c : option str) : bool :=
    match i with
    | None => true
    | Some [] => match c with Some _ => true | None => false end
    | Some d => digits_ok d && match parse_u16 d with Some n => (n =? 0)%N || has_iso s n | None => false end
    end.

  Fixpoint wf_item (lenient : bool) (it : item) : bool :=
    match it with
    | El s i c => sym_shape s && has_elem s && cnt_ok c && (if lenient then iso_ok_lenient s i c else iso_ok s i)
    | Gr b c => cnt_ok c && negb (Nat.eqb (List.length b) 0)
                && (fix go (l : list item) : bool := match l with [] => true | x :: r => wf_item lenient x && go r end) b
    end.
  Definition wf (lenient : bool) (f : list item) : bool := negb (Nat.eqb (List.length f) 0) && forallb (wf_item lenient) f.

  (* ---- an independent reader: direct recursive descent, no remembered offsets ---- *)
  Fixpoint take_while (p : char -> bool) (s : str) : str * str :=
    match s with
    | c :: r => if p c then let '(a, b) := take_while p r in (c :: a, b) else ([], s)
    | [] => ([], [])
    end.

  (* split "body) rest" at the parenthesis matching an already consumed '(' *)
  Fixpoint match_paren (s : str) (depth : nat) : option (str * str) :=
    match s with
    | [] => None
    | c :: r =>
        if (c =? RP)%N then
          match depth with
          | O => Some ([], r)
          | S d => match match_paren r d with Some (a, b) => Some (c :: a, b) | None => None end
          end
        else if (c =? LP)%N then match match_paren r (S depth) with Some (a, b) => Some (c :: a, b) | None => None end
        else match match_paren r depth with Some (a, b) => Some (c :: a, b) | None => None end
    end.

  Definition read_count (s : str) : option str * str :=
    let '(d, r) := take_while is_num s in match d with [] => (None, r) | _ => (Some d, r) end.

  Fixpoint read_items (fuel : nat) (s : str) : option (list item) :=
    match fuel with
    | O => None
    | S f =>
        match s with
        | [] => Some []
        | c :: r =>
            if (c =? LP)%N then
              match match_paren r 0 with
              | None => None
              | Some (body, rest) =>
                  match read_items f body with
                  | None => None
                  | Some b => let '(cnt, rest') := read_count rest in
                              match read_items f rest' with Some tl => Some (Gr b cnt :: tl) | None => None end
                  end
              end
            else if is_upper c then
              let '(tail, rest) := take_while (fun x => negb (sym_stop x)) r in
              let sym := c :: tail in
              match rest with
              | b :: rest1 =>
                  if (b =? LB)%N then
                    let '(d, rest2) := take_while (fun x => negb (x =? RB)%N) rest1 in
                    match rest2 with
                    | _ :: rest3 =>   (* the ']' *)
                        let '(cnt, rest4) := read_count rest3 in
                        match read_items f rest4 with Some tl => Some (El sym (Some d) cnt :: tl) | None => None end
                    | [] => None
                    end
                  else
                    let '(cnt, rest2) := read_count rest in
                    match read_items f rest2 with Some tl => Some (El sym None cnt :: tl) | None => None end
              | [] => Some [El sym None None]
              end
            else None
        end
    end.
  Definition read_formula (s : str) : option (list item) := read_items (S (List.length s)) s.

  (* the reference verdict: Some f when s is a well-formed formula (lenient reading), with its AST *)
  Definition reference (s : str) : option (list item) :=
    match read_formula s with
    | Some f => if wf true f && str_eqb (render f) s then Some f else None
    | None => None
    end.
End WF.
