(* The side condition of the floating-point level C15 theorem: the Poisson generator meets no overflow and no
   underflow for this (mass, peak count): lambda, every power, factorial and term are of normal magnitude, every
   running total is finite and every final quotient is normal.  Computable; no proofs here. *)
From Coq Require Import ZArith List Bool.
From CE Require Import Num Mz Peak Poisson.
Import ListNotations.

Section PoissonSafe.
  Context {F : Type} (N : Num F) (fin nrm : F -> bool).

  Fixpoint pois_safe (lambda : F) (i : Z) (fuel : nat) (p fact tot : F) : bool :=
    match fuel with
    | O => true
    | S fuel' =>
        let p' := mul N p lambda in
        let fact' := mul N fact (of_Z N i) in
        let cur := div N p' fact' in
        nrm p' && nrm fact' && nrm cur && fin (add N tot cur)
        && pois_safe lambda (i + 1) fuel' p' fact' (add N tot cur)
    end.

  Definition poisson_safe (mass : F) (n_peaks : nat) (lambda_factor : F) : bool :=
    match n_peaks with
    | O => true
    | S m =>
        let lambda := div N mass lambda_factor in
        fin mass && fin lambda_factor && nrm lambda
        && pois_safe lambda 1 m (one N) (one N) (one N)
        && let '(tl, total) := pois_terms N lambda 1 m (one N) (one N) (one N) in
           forallb (fun x => nrm (div N x total)) (one N :: tl)
    end.
End PoissonSafe.
