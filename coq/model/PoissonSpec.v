(* Specification-side definitions for C15 (no proofs). *)
From Coq Require Import ZArith List Bool.
From CE Require Import Num OField Mz Peak Poisson.
Import ListNotations.

Section PoissonSpec.
  Context {F : Type} (N : Num F).

  (* the loop's quantities after i iterations: p_i = lambda^i (left-associated products), f_i = i!,
     cur_i = p_i / f_i, acc_i = 1 + cur_1 + ... + cur_i  -- each formed exactly as the loop forms it *)
  Fixpoint pw (lambda : F) (i : nat) : F := match i with O => one N | S j => mul N (pw lambda j) lambda end.
  Fixpoint fact (i : nat) : F := match i with O => one N | S j => mul N (fact j) (of_Z N (Z.of_nat i)) end.
  Definition term (lambda : F) (i : nat) : F := div N (pw lambda i) (fact i).
  Fixpoint accum (lambda : F) (i : nat) : F :=
    match i with O => one N | S j => add N (accum lambda j) (term lambda i) end.

  (* exit condition of poisson_approximate_n_peaks_of at iteration i *)
  Definition exits (lambda target : F) (i : nat) : bool :=
    is_infinite N (term lambda i) || ltb N (div N (term lambda i) (accum lambda i)) target.
End PoissonSpec.
