(* Correspondence and specification checks for C04 (evaluated by coqc on generated cases). *)
From Coq Require Import List ZArith NArith Bool Arith.
From CE Require Import Str Comp CompSpec.
Import ListNotations.

Inductive acase :=
| AArith (id : N) (a b : ents) (n : Z) (kind form : nat) (out : option (list Z * option (list Z) * list Z))
| ACtor (id : N) (a : ents) (out : option (list Z * nat)).

Definition ac_id (c : acase) : N := match c with AArith i _ _ _ _ _ _ => i | ACtor i _ _ => i end.
Definition zl_eqb (a b : list Z) : bool := if list_eq_dec Z.eq_dec a b then true else false.

Definition model_result (a b : ents) (n : Z) (kind : nat) : ents :=
  let ea := e_collect a in let eb := e_collect b in
  match kind with 0 => e_add ea eb | 1 => e_sub ea eb | 2 => e_mul ea n | _ => e_neg ea end.

Definition a_tie (pool : list key) (c : acase) : bool :=
  match c with
  | AArith _ a b n kind _ (Some (r, a2, b2)) =>
      zl_eqb (map (fun k => e_get k (model_result a b n kind)) pool) r
      && match a2 with Some x => zl_eqb (map (fun k => e_get k (e_collect a)) pool) x | None => true end
      && zl_eqb (map (fun k => e_get k (e_collect b)) pool) b2
  | ACtor _ a (Some (r, len)) =>
      zl_eqb (map (fun k => e_get k (e_collect a)) pool) r && Nat.eqb (length (e_collect a)) len
  | _ => false
  end.

(* number of distinct keys listed (a constructor's len) *)
Fixpoint distinct_keys (l : ents) (seen : list key) : nat :=
  match l with
  | [] => 0
  | (k, _) :: r => if existsb (key_eqb k) seen then distinct_keys r seen else S (distinct_keys r (k :: seen))
  end.

(* the property itself, stated on the listed pairs: pointwise integer arithmetic, operands untouched,
   constructors sum the counts listed for each key *)
Definition a_holds (pool : list key) (c : acase) : bool :=
  match c with
  | AArith _ a b n kind _ (Some (r, a2, b2)) =>
      zl_eqb r (map (fun k => match kind with
                              | 0 => (listed k a + listed k b)%Z
                              | 1 => (listed k a - listed k b)%Z
                              | 2 => (listed k a * n)%Z
                              | _ => (- listed k a)%Z end) pool)
      && match a2 with Some x => zl_eqb x (map (fun k => listed k a) pool) | None => true end
      && zl_eqb b2 (map (fun k => listed k b) pool)
  | ACtor _ a (Some (r, len)) =>
      zl_eqb r (map (fun k => listed k a) pool) && Nat.eqb len (distinct_keys a [])
  | _ => false
  end.

Definition a_nontrivial (c : acase) : bool :=
  match c with
  | AArith _ a b _ _ _ _ => negb (Nat.eqb (length a) 0) && negb (Nat.eqb (length b) 0)
  | ACtor _ a _ => Nat.ltb 1 (length a)
  end.

Fixpoint aids_where (f : acase -> bool) (l : list acase) : list N :=
  match l with [] => [] | c :: r => (if f c then [ac_id c] else []) ++ aids_where f r end.
