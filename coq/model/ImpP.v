(* Vocabulary for the shallow embedding of src/props.rs and src/abstract_composition.rs (tools/gen_props.py ->
   gen/PropsGen.v), on top of ImpC.v.  Nothing here knows about any particular generated text.

     enum ChemicalComposition { Vec(ChemicalCompositionVec), Map(ChemicalCompositionMap) }   ~>  acomp F = AVec c | AMap c
     enum ChemicalCompositionRef { Vec(&..Vec), Map(&..Map) }                                 ~>  acomp F too (shared
                                                                                                references are erased)
     a value of a generic `C: ChemicalCompositionLike`                                        ~>  clike F = LVec c | LMap c |
                                                                                                LEnum a: one constructor per
                                                                                                `impl ChemicalCompositionLike for`
     enum Iter { Vec(slice::Iter), Map(hash_map::Iter) }  (the `AbstractIter` of props.rs)    ~>  the list of the entries in
                                                                                                iteration order (both arms)
     enum IterMut { Vec(..), Map(..) }                                                        ~>  unit (all entries of the
                                                                                                container it was taken from)
     it.all(|x| body)  (body calls functions: it may panic)                                   ~>  all_p (fun x => body : pres bool) it
     `&mut i32` into an enum value                                                            ~>  aplace = PVec i | PMap k
     `match self { E::Vec(x) => .., E::Map(x) => .. }` on a `&mut self`: x aliases the payload; after every change of x
     the enum value is rebuilt (`let self := AVec x in`). *)
From Coq Require Import List ZArith NArith Bool Arith String Lia.
From CE Require Import Num Str TableTypes TableModel Comp ESpec CompOps ImpL ImpE ImpC.
Import ListNotations.
Local Open Scope nat_scope.

Inductive acomp (F : Type) := AVec (c : ccomp F) | AMap (c : ccomp F).
Arguments AVec {F}. Arguments AMap {F}.
Inductive clike (F : Type) := LVec (c : ccomp F) | LMap (c : ccomp F) | LEnum (a : acomp F).
Arguments LVec {F}. Arguments LMap {F}. Arguments LEnum {F}.
Inductive aplace := PVec (i : nat) | PMap (k : espec).

Definition a_inner {F} (a : acomp F) : ccomp F := match a with AVec c => c | AMap c => c end.
Definition afam {F} (a : acomp F) : fam := match a with AVec _ => FEnumVec | AMap _ => FEnumMap end.
Definition acomp_of {F} (a : acomp F) : comp F := comp_of (a_inner a).
Definition a_is_map {F} (a : acomp F) : bool := match a with AVec _ => false | AMap _ => true end.
Definition a_with {F} (a : acomp F) (c : ccomp F) : acomp F := match a with AVec _ => AVec c | AMap _ => AMap c end.

Definition l_inner {F} (o : clike F) : ccomp F := match o with LVec c => c | LMap c => c | LEnum a => a_inner a end.
Definition lents {F} (o : clike F) : sents := composition (l_inner o).
Definition lcomp {F} (o : clike F) : comp F := comp_of (l_inner o).

Definition a_place_upd {F} (f : Z -> Z) (p : aplace) (a : acomp F) : acomp F :=
  match p, a with
  | PVec i, AVec c => AVec (v_place_upd f i c)
  | PMap k, AMap c => AMap (m_place_upd f k c)
  | _, _ => a
  end.

(* results: a value, or a container together with a value *)
Definition pres_map {A B} (f : A -> B) (r : pres A) : pres B := match r with POk a => POk (f a) | PPanic => PPanic end.
Definition lift_fst {A B R} (f : A -> B) (r : A * R) : B * R := (f (fst r), snd r).
Definition sum_map {A B} (f : A -> B) (s : A + A) : B + B := match s with inl a => inl (f a) | inr a => inr (f a) end.

(* `it.all(|x| body)` where the body may panic: evaluation stops at the first false (or panic) *)
Fixpoint all_p {A} (p : A -> pres bool) (l : list A) : pres bool :=
  match l with
  | [] => POk true
  | x :: r => match p x with PPanic => PPanic | POk true => all_p p r | POk false => POk false end
  end.

Lemma all_p_no_panic {A} (p : A -> pres bool) (q : A -> bool) l :
  (forall x, In x l -> p x = POk (q x)) -> all_p p l = POk (forallb q l).
Proof.
  induction l as [|x r IH]; intros H; [reflexivity|]. cbn [all_p forallb]. rewrite H by (left; reflexivity).
  destruct (q x); cbn [andb]; [apply IH; intros y Hy; apply H; right; exact Hy|reflexivity].
Qed.

Lemma forallb_ext_in {A} (f g : A -> bool) l : (forall x, In x l -> f x = g x) -> forallb f l = forallb g l.
Proof.
  induction l as [|x r IH]; intros H; [reflexivity|]. cbn [forallb]. rewrite H by (left; reflexivity).
  rewrite IH by (intros y Hy; apply H; right; exact Hy). reflexivity.
Qed.

Lemma existsb_ext_in {A} (f g : A -> bool) l : (forall x, In x l -> f x = g x) -> existsb f l = existsb g l.
Proof.
  induction l as [|x r IH]; intros H; [reflexivity|]. cbn [existsb]. rewrite H by (left; reflexivity).
  rewrite IH by (intros y Hy; apply H; right; exact Hy). reflexivity.
Qed.

Lemma forallb_map {A B} (f : B -> bool) (g : A -> B) l : forallb f (map g l) = forallb (fun x => f (g x)) l.
Proof. induction l as [|x r IH]; [reflexivity|]. cbn [map forallb]. rewrite IH. reflexivity. Qed.

Lemma existsb_map {A B} (f : B -> bool) (g : A -> B) l : existsb f (map g l) = existsb (fun x => f (g x)) l.
Proof. induction l as [|x r IH]; [reflexivity|]. cbn [map existsb]. rewrite IH. reflexivity. Qed.

(* a loop over a wrapped state is the loop over the state, wrapped *)
Lemma for_each_p_sim {X A B} (f : A -> B) (l : list X) (bodyA : X -> A -> A + A) (bodyB : X -> B -> B + B) :
  (forall x a, In x l -> bodyB x (f a) = sum_map f (bodyA x a)) ->
  forall a, for_each_p l bodyB (f a) = sum_map f (for_each_p l bodyA a).
Proof.
  induction l as [|x r IH]; intros H a; [reflexivity|]. cbn [for_each_p].
  rewrite H by (left; reflexivity). destruct (bodyA x a) as [a'|a']; cbn [sum_map]; [|reflexivity].
  apply IH. intros y b Hy. apply H. right. exact Hy.
Qed.

Lemma comp_of_eta {F} (c : ccomp F) : mkComp (keys_of (composition c)) (mass_cache c) = comp_of c.
Proof. reflexivity. Qed.

(* the model's copy-with-set from the empty list, as a left fold from any start *)
Lemma keys_of_nil : keys_of [] = [].
Proof. reflexivity. Qed.
