(* The reading of Coq's primitive binary64 floats ([NumF], what the correspondence runs execute) as real numbers:
   valuation, unit roundoff, finiteness / normality tests, and the ordered field of reals as a [Num].
   No proofs here (proofs/FloatStd.v). *)
From Coq Require Import ZArith List Bool Reals Floats.
From Flocq Require Import Core.Core IEEE754.BinarySingleNaN IEEE754.PrimFloat.
From CE Require Import Num NumFloat NumFloat64.

(* the real number a finite float denotes (0 for infinities and NaN) *)
Definition v64 (x : PrimFloat.float) : R := @BinarySingleNaN.B2R prec emax (Prim2B x).
(* unit roundoff of binary64, round to nearest *)
Definition u64 : R := bpow radix2 (-53).

Definition fin64 (x : PrimFloat.float) : bool := f_is_finite x.
(* finite and of magnitude strictly above 2^-1022.  Neither a zero result nor a result of exactly 2^-1022 shows that
   a product or quotient stayed out of the subnormal range: 0x1p-600 * 0x1p-600 = 0, and
   (441650591 * 2^-500) * (20394401 * 2^-575) = (2^53 - 1) * 2^-1075 exactly, which rounds (tie to even) to 2^-1022 with
   relative error 2^-53 / (1 - 2^-53) > 2^-53. *)
Definition nrm64 (x : PrimFloat.float) : bool :=
  f_is_finite x && PrimFloat.ltb 0x1p-1022%float (PrimFloat.abs x).

Definition Rleb (a b : R) : bool := if Rle_dec a b then true else false.
Definition Rltb (a b : R) : bool := if Rlt_dec a b then true else false.
Definition Reqb (a b : R) : bool := if Req_EM_T a b then true else false.

Definition NumRR : Num R :=
  mkNum R 0%R 1%R 0%R Rplus Rminus Rmult Rdiv Ropp Rabs
        (fun a b c => (a * b + c)%R) IZR (fun num k => (IZR num / IZR (Z.pow 10 (Z.of_nat k)))%R)
        Rltb Rleb Reqb (fun _ => true) (fun _ => false).
