(* Loop combinators over LISTS for the shallow embedding of imperative Rust (tools/gen_peak.py -> gen/PeakGen.v), and
   the general reasoning rules about them.  Companion of Imp.v (loops over usize ranges); nothing here knows about
   any particular generated text.

     for x in v.iter() / v.drain(..) / v.into_iter() { body }     ~>  for_each v (fun x s => body) s
     the same with `break`                                          ~>  for_each_brk v (fun x s => inl s' | inr s') s
                                                                        (inl: next iteration, inr: leave the loop;
                                                                         either way the loop yields the state)
     for x in v.iter_mut() { x.f op= e; }                           ~>  v := for_mut (fun x => body; x) v
                                                                        (the body changes only the element)
     it.enumerate()  with pattern (i, x)                            ~>  enumerate v   (pairs (index, element))
     &v[a..b]                                                       ~>  slice_range v a b   (None: the Rust panic)

   s is the tuple of the mutable locals the body assigns. *)
From Coq Require Import Arith List Bool Lia.
Import ListNotations.

Section Loops.
  Context {A St : Type}.

  Definition for_each (l : list A) (body : A -> St -> St) (s : St) : St :=
    fold_left (fun s x => body x s) l s.

  Fixpoint for_each_brk (l : list A) (body : A -> St -> St + St) (s : St) : St :=
    match l with
    | [] => s
    | x :: r => match body x s with
                | inl s' => for_each_brk r body s'
                | inr s' => s'
                end
    end.

  (* ---------- unfolding ---------- *)

  Lemma for_each_nil body s : for_each [] body s = s.
  Proof. reflexivity. Qed.

  Lemma for_each_cons x r body s : for_each (x :: r) body s = for_each r body (body x s).
  Proof. reflexivity. Qed.

  Lemma for_each_app l1 l2 body s : for_each (l1 ++ l2) body s = for_each l2 body (for_each l1 body s).
  Proof. unfold for_each. apply fold_left_app. Qed.

  (* ---------- extensionality ---------- *)

  Lemma for_each_ext l body body' s :
    (forall x s, body x s = body' x s) -> for_each l body s = for_each l body' s.
  Proof.
    intros H. revert s. induction l as [|x r IH]; intros s; [reflexivity|].
    rewrite !for_each_cons, H. apply IH.
  Qed.

  Lemma for_each_brk_ext l body body' s :
    (forall x s, body x s = body' x s) -> for_each_brk l body s = for_each_brk l body' s.
  Proof.
    intros H. revert s. induction l as [|x r IH]; intros s; [reflexivity|].
    cbn [for_each_brk]. rewrite H. destruct (body' x s); [apply IH | reflexivity].
  Qed.

  (* a loop that never breaks *)
  Lemma for_each_brk_no_break l (body : A -> St -> St) s :
    for_each_brk l (fun x s => inl (body x s)) s = for_each l body s.
  Proof. revert s. induction l as [|x r IH]; intros s; [reflexivity|]. cbn [for_each_brk]. apply IH. Qed.

  (* ---------- the loop-invariant rule ---------- *)

  Lemma for_each_inv (P : list A -> St -> Prop) body :
    (forall x r s, P (x :: r) s -> P r (body x s)) ->
    forall l s, P l s -> P [] (for_each l body s).
  Proof.
    intros Hstep. induction l as [|x r IH]; intros s H; [exact H|].
    rewrite for_each_cons. apply IH, Hstep, H.
  Qed.

  (* ---------- loops against structurally recursive functions ----------
     A recursive model of a loop is a function [f rest s] that performs one body step per element.  If [f] obeys
     the unfolding equations below it computes what the loop computes (observed through [k]).  These are the only
     inductions over the iterated list the source ties need. *)

  Lemma for_each_rec {T : Type} (body : A -> St -> St) (f : list A -> St -> T) (k : St -> T) :
    (forall s, f [] s = k s) ->
    (forall x r s, f (x :: r) s = f r (body x s)) ->
    forall l s, f l s = k (for_each l body s).
  Proof.
    intros H0 HS. induction l as [|x r IH]; intros s; [apply H0|].
    rewrite for_each_cons, HS. apply IH.
  Qed.

  Lemma for_each_brk_rec {T : Type} (body : A -> St -> St + St) (f : list A -> St -> T) (k : St -> T) :
    (forall s, f [] s = k s) ->
    (forall x r s, f (x :: r) s = match body x s with inl s' => f r s' | inr s' => k s' end) ->
    forall l s, f l s = k (for_each_brk l body s).
  Proof.
    intros H0 HS. induction l as [|x r IH]; intros s; [apply H0|].
    cbn [for_each_brk]. rewrite HS. destruct (body x s); [apply IH | reflexivity].
  Qed.
End Loops.

(* ---------- iter_mut: the body rewrites the element in place ---------- *)

Definition for_mut {A : Type} (body : A -> A) (l : list A) : list A := map body l.

Lemma for_mut_map {A : Type} (body g : A -> A) l : (forall x, body x = g x) -> for_mut body l = map g l.
Proof. intros H. apply map_ext. exact H. Qed.

(* ---------- enumerate ---------- *)

Definition enumerate_from {A : Type} (i : nat) (l : list A) : list (nat * A) := combine (seq i (length l)) l.
Definition enumerate {A : Type} (l : list A) : list (nat * A) := enumerate_from 0 l.

Lemma enumerate_from_nil {A : Type} i : enumerate_from i (@nil A) = [].
Proof. reflexivity. Qed.

Lemma enumerate_from_cons {A : Type} i (x : A) r : enumerate_from i (x :: r) = (i, x) :: enumerate_from (S i) r.
Proof. reflexivity. Qed.

(* ---------- &v[a..b]: panics unless a <= b <= len ---------- *)

Definition slice_range {A : Type} (l : list A) (a b : nat) : option (list A) :=
  if Nat.leb a b && Nat.leb b (length l) then Some (firstn (b - a) (skipn a l)) else None.

(* ---------- loops that only push ---------- *)

(* for x in v { out.push(g x) } *)
Lemma for_each_push_map {A B : Type} (g : A -> B) (body : A -> list B -> list B) :
  (forall x l, body x l = l ++ [g x]) ->
  forall l l0, for_each l body l0 = l0 ++ map g l.
Proof.
  intros H. induction l as [|x r IH]; intros l0.
  - cbn. rewrite app_nil_r. reflexivity.
  - rewrite for_each_cons, H, IH, <- app_assoc. reflexivity.
Qed.

(* for x in v { if c x { out.push(x) } } *)
Lemma for_each_push_filter {A : Type} (c : A -> bool) (body : A -> list A -> list A) :
  (forall x l, body x l = if c x then l ++ [x] else l) ->
  forall l l0, for_each l body l0 = l0 ++ filter c l.
Proof.
  intros H. induction l as [|x r IH]; intros l0.
  - cbn. rewrite app_nil_r. reflexivity.
  - rewrite for_each_cons, H, IH. cbn [filter]. destruct (c x); [rewrite <- app_assoc|]; reflexivity.
Qed.

(* for (i, x) in v.iter().enumerate() { if i + 1 == n { break; } out.push(x) }   with n = v.len() *)
Lemma for_each_brk_drop_last {A : Type} (n : nat) (body : nat * A -> list A -> list A + list A) :
  (forall i x l, body (i, x) l = if Nat.eqb (i + 1) n then inr l else inl (l ++ [x])) ->
  forall l i l0, n = i + length l -> for_each_brk (enumerate_from i l) body l0 = l0 ++ removelast l.
Proof.
  intros H. induction l as [|x r IH]; intros i l0 Hn.
  - cbn. rewrite app_nil_r. reflexivity.
  - rewrite enumerate_from_cons. cbn [for_each_brk]. rewrite H.
    destruct r as [|y r'].
    + cbn [length] in Hn. replace (Nat.eqb (i + 1) n) with true by (symmetry; apply Nat.eqb_eq; lia).
      cbn. rewrite app_nil_r. reflexivity.
    + replace (Nat.eqb (i + 1) n) with false by (symmetry; apply Nat.eqb_neq; cbn [length] in Hn; lia).
      rewrite IH by (cbn [length] in *; lia).
      change (removelast (x :: y :: r')) with (x :: removelast (y :: r')).
      rewrite <- app_assoc. reflexivity.
Qed.
