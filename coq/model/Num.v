(* The numeric interface every f64 computation is modelled against.  Models transcribe the Rust
   expression trees operation by operation over an arbitrary [Num]; they are then read at
   - [NumFloat64] (primitive binary64: what the code computes; used only in correspondence runs),
   - any ordered field satisfying [OField] (what the algebraic theorems are about; Qc is an instance),
   and structural theorems hold for every [Num] whatsoever. *)
From Coq Require Import ZArith NArith List Bool.
Import ListNotations.

Record Num (F : Type) := mkNum {
  zero : F; one : F;
  sum0 : F;                       (* start value of Iterator::sum::<f64>() (-0.0 in current std) *)
  add : F -> F -> F; sub : F -> F -> F; mul : F -> F -> F; div : F -> F -> F;
  opp : F -> F; abs : F -> F;
  fma : F -> F -> F -> F;         (* a.mul_add(b, c) = a*b + c, one rounding *)
  of_Z : Z -> F;                  (* `n as f64` for |n| < 2^53 *)
  of_dec : Z -> nat -> F;         (* the decimal literal num / 10^k *)
  ltb : F -> F -> bool; leb : F -> F -> bool; eqb : F -> F -> bool;   (* <, <=, == (false on NaN) *)
  is_finite : F -> bool; is_infinite : F -> bool }.

Arguments zero {F}. Arguments one {F}. Arguments sum0 {F}. Arguments add {F}. Arguments sub {F}.
Arguments mul {F}. Arguments div {F}. Arguments opp {F}. Arguments abs {F}. Arguments fma {F}.
Arguments of_Z {F}. Arguments of_dec {F}. Arguments ltb {F}. Arguments leb {F}. Arguments eqb {F}.
Arguments is_finite {F}. Arguments is_infinite {F}.

Section Generic.
  Context {F : Type} (N : Num F).

  (* Iterator::sum over f64 *)
  Definition fsum (l : list F) : F := fold_left (add N) l (sum0 N).

  (* a >= b  is  b <= a ;  a > b  is  b < a *)
  Definition geb (a b : F) : bool := leb N b a.
  Definition gtb (a b : F) : bool := ltb N b a.
End Generic.
