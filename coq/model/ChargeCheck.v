(* C10 on the implementation's outputs: the pattern at charge z against the neutral pattern. *)
From Coq Require Import List ZArith NArith QArith Bool Arith Floats.
From CE Require Import NumFloat QFloat.
Import ListNotations.
Open Scope Q_scope.

Definition fpk := (float * float)%type.
Record zcase := mkZC { zc_id : N; zc_z : Z; zc_carrier : float; zc_out : option (list fpk); zc_neutral : option (list fpk) }.

(* same number of peaks, same intensities, each m/z = (m + z * carrier) / |z| of the corresponding neutral mass *)
Definition charge_rel (c : zcase) : bool :=
  match zc_out c, zc_neutral c with
  | Some o, Some n =>
      Nat.eqb (length o) (length n)
      && forallb (fun pq => let '(p, q) := pq in
           (f_same (snd p) (snd q) || f_close_rel (snd p) (snd q) 1 1000000000000)
           && f_is_finite (fst p)
           && let want := (qf0 (fst q) + inject_Z (zc_z c) * qf0 (zc_carrier c)) / inject_Z (Z.abs (zc_z c)) in
              (q_close_abs (qf0 (fst p)) want eps9 || q_close_rel (qf0 (fst p)) want eps12)) (combine o n)
  | _, _ => false
  end.
Fixpoint zids_where (f : zcase -> bool) (l : list zcase) : list N :=
  match l with [] => [] | c :: r => ((if f c then [zc_id c] else []) ++ zids_where f r)%list end.

(* ---- mz.rs called directly ---- *)
From CE Require Import Num NumFloat64 Mz.
Record mzcase := mkMZ { mz_id : N; mz_m : float; mz_z : Z; mz_carrier : float; mz_mcr : float; mz_inv : float; mz_nm : float }.
(* correspondence: the two conversions, bit for bit *)
Definition mz_tie (c : mzcase) : bool :=
  f_same (mass_charge_ratio NumF (mz_m c) (mz_z c) (mz_carrier c)) (mz_mcr c)
  && f_same (neutral_mass NumF (mz_mcr c) (mz_z c) (mz_carrier c)) (mz_inv c)
  && f_same (neutral_mass NumF (mz_m c) (mz_z c) (mz_carrier c)) (mz_nm c).
(* the property, on the implementation's numbers: mass_charge_ratio is (m + z*carrier)/|z|, neutral_mass is mz*|z| - z*carrier,
   and the second undoes the first (1e-12 relative to the magnitudes involved) *)
Definition mz_holds (c : mzcase) : bool :=
  let m := qf0 (mz_m c) in let z := inject_Z (mz_z c) in let az := inject_Z (Z.abs (mz_z c)) in let cr := qf0 (mz_carrier c) in
  let scale := qabs m + qabs (z * cr) + 1 in
  negb (Z.eqb (mz_z c) 0)
  && q_close_abs (qf0 (mz_mcr c)) ((m + z * cr) / az) (eps12 * scale)
  && q_close_abs (qf0 (mz_nm c)) (m * az - z * cr) (eps12 * scale * az)
  && q_close_abs (qf0 (mz_inv c)) m (eps12 * scale).
Fixpoint mzids_where (f : mzcase -> bool) (l : list mzcase) : list N :=
  match l with [] => [] | c :: r => ((if f c then [mz_id c] else []) ++ mzids_where f r)%list end.
