(* C10 on the implementation's outputs: the pattern at charge z against the neutral pattern. *)
From Coq Require Import List ZArith NArith QArith Bool Arith Floats.
From CE Require Import NumFloat QFloat.
Import ListNotations.
Open Scope Q_scope.

Definition fpk := (float * float)%type.
Record zcase := mkZC { zc_id : N; zc_z : Z; zc_carrier : float; zc_out : option (list fpk); zc_neutral : option (list fpk) }.

(* same number of peaks, same intensities, each m/z = (m + z * carrier) / |z| of the corresponding neutral mass *)
Definition charge_rel (c : zcase) : bool :=
  match zc_out c, zc_neutral c with
  | Some o, Some n =>
      Nat.eqb (length o) (length n)
      && forallb (fun pq => let '(p, q) := pq in
           (f_same (snd p) (snd q) || f_close_rel (snd p) (snd q) 1 1000000000000)
           && f_is_finite (fst p)
           && let want := (qf0 (fst q) + inject_Z (zc_z c) * qf0 (zc_carrier c)) / inject_Z (Z.abs (zc_z c)) in
              (q_close_abs (qf0 (fst p)) want eps9 || q_close_rel (qf0 (fst p)) want eps12)) (combine o n)
  | _, _ => false
  end.
Fixpoint zids_where (f : zcase -> bool) (l : list zcase) : list N :=
  match l with [] => [] | c :: r => ((if f c then [zc_id c] else []) ++ zids_where f r)%list end.
