(* Correspondence and specification checks for C13 / C14 (evaluated by coqc on generated cases). *)
From Coq Require Import ZArith NArith QArith Qreduction List Bool Floats.
From CE Require Import Num NumFloat NumFloat64 QFloat Peak.
Import ListNotations.

Definition fpeak := peak (F:=float).
Definition ftip := tip (F:=float).

Inductive pop :=
| OpNormalize | OpTotal | OpScale (f : float) | OpShift (off : float) | OpCloneShifted (off : float)
| OpTrunc (t : float) | OpIgnore (t : float) | OpFused (t1 t2 sh : float) | OpDropLast
| OpSlice (a b : nat) | OpIncr (t : float) | OpEq (b : list fpeak).

Inductive pout :=
| OutTip (t : ftip) | OutTips (l : list ftip) | OutPanic | OutF (f : float)
| OutBools (ab ba sl : option bool).

Record pcase := mkPC { pc_id : N; pc_exact : bool; pc_pat : ftip; pc_op : pop; pc_out : pout; pc_step : pout }.

Definition of_res (r : res ftip) : pout := match r with Ok t => OutTip t | Panic => OutPanic end.

Definition model_out (c : pcase) : pout :=
  let p := pc_pat c in
  match pc_op c with
  | OpNormalize => OutTip (normalize NumF p)
  | OpTotal => OutF (total NumF p)
  | OpScale f => OutTip (scale_by NumF p f)
  | OpShift o => OutTip (shift NumF p o)
  | OpCloneShifted o => OutTip (clone_shifted NumF p o)
  | OpTrunc t => OutTip (truncate_after NumF p t)
  | OpIgnore t => OutTip (ignore_below NumF p t)
  | OpFused a b s => OutTip (fused NumF p a b s)
  | OpDropLast => OutTip (clone_drop_last NumF p)
  | OpSlice a b => of_res (slice_normalized NumF p a b)
  | OpIncr t => OutTips (incremental_truncation NumF p t)
  | OpEq b => let tb := mkTip b (origin p) in
              OutBools (Some (tip_eq NumF p tb)) (Some (tip_eq NumF tb p)) (Some (tip_eq NumF p tb))
  end.

(* ---- agreement between two outputs ---- *)
Definition f_tol (a b : float) : bool := f_same a b || f_close_rel a b 1 1000000000000.

Definition peak_agree (cmp : float -> float -> bool) (a b : fpeak) : bool := cmp (mz a) (mz b) && cmp (inten a) (inten b).
Fixpoint list_agree {A} (f : A -> A -> bool) (l1 l2 : list A) : bool :=
  match l1, l2 with
  | [], [] => true
  | a :: r1, b :: r2 => f a b && list_agree f r1 r2
  | _, _ => false
  end.
Definition tip_agree cmp (a b : ftip) : bool := list_agree (peak_agree cmp) (peaks a) (peaks b) && cmp (origin a) (origin b).
Definition obool_eq (a b : option bool) : bool :=
  match a, b with Some x, Some y => Bool.eqb x y | None, None => true | _, _ => false end.
Definition out_agree cmp (a b : pout) : bool :=
  match a, b with
  | OutTip x, OutTip y => tip_agree cmp x y
  | OutTips x, OutTips y => list_agree (tip_agree cmp) x y
  | OutPanic, OutPanic => true
  | OutF x, OutF y => cmp x y
  | OutBools a1 a2 a3, OutBools b1 b2 b3 => obool_eq a1 b1 && obool_eq a2 b2 && obool_eq a3 b3
  | _, _ => false
  end.

Definition tie_bits (c : pcase) : bool := out_agree f_same (model_out c) (pc_out c).

(* A threshold that sits exactly on a computed cumulative sum or intensity is a knife edge: a rewrite that changes
   the last bit of that sum (multiply by the reciprocal vs divide, fused multiply-add vs two roundings) may decide
   it the other way while every property still holds.  The tie therefore also accepts the model's answer at the
   threshold moved by one part in 10^12 either way. *)
Definition nudge (t : float) (k : Z) : float :=
  match k with
  | 0%Z => t
  | Zpos _ => (t + PrimFloat.abs t * 0x1p-40 + 0x1p-1000)%float
  | Zneg _ => (t - PrimFloat.abs t * 0x1p-40 - 0x1p-1000)%float
  end.
Definition nudged_ops (o : pop) : list pop :=
  match o with
  | OpTrunc t => [OpTrunc (nudge t 1); OpTrunc (nudge t (-1))]
  | OpIgnore t => [OpIgnore (nudge t 1); OpIgnore (nudge t (-1))]
  | OpIncr t => [OpIncr (nudge t 1); OpIncr (nudge t (-1))]
  | OpFused a b s => [OpFused (nudge a 1) b s; OpFused (nudge a (-1)) b s; OpFused a (nudge b 1) s; OpFused a (nudge b (-1)) s;
                      OpFused (nudge a 1) (nudge b 1) s; OpFused (nudge a 1) (nudge b (-1)) s;
                      OpFused (nudge a (-1)) (nudge b 1) s; OpFused (nudge a (-1)) (nudge b (-1)) s]
  | _ => []
  end.
Definition with_op (c : pcase) (o : pop) : pcase := mkPC (pc_id c) (pc_exact c) (pc_pat c) o (pc_out c) (pc_step c).
(* The iterator yields shorter and shorter prefixes while they still cover the threshold: when several cumulative sums
   sit inside the nudge window (tiny peaks), the implementation may stop anywhere between the model's stop at the threshold
   nudged up and its stop at the threshold nudged down; what it yields must be the corresponding prefix of the longer list. *)
Definition incr_between (c : pcase) : bool :=
  match pc_op c, pc_out c with
  | OpIncr t, OutTips got =>
      match model_out (with_op c (OpIncr (nudge t 1))), model_out (with_op c (OpIncr (nudge t (-1)))) with
      | OutTips short, OutTips long =>
          Nat.leb (length short) (length got) && Nat.leb (length got) (length long)
          && list_agree (tip_agree f_tol) (firstn (length got) long) got
      | _, _ => false
      end
  | _, _ => false
  end.
Definition tie_tol (c : pcase) : bool :=
  out_agree f_tol (model_out c) (pc_out c)
  || existsb (fun o => out_agree f_tol (model_out (with_op c o)) (pc_out c)) (nudged_ops (pc_op c))
  || incr_between c.

(* ---- the properties' specifications, evaluated exactly on the implementation's output ---- *)
Open Scope Q_scope.

Definition qints (l : list fpeak) : list Q := map (fun p => qf0 (inten p)) l.
Definition finite_pat (l : list fpeak) : bool := forallb (fun p => f_is_finite (mz p) && f_is_finite (inten p)) l.

Definition mz_same (a b : list fpeak) : bool := list_agree (fun x y => f_same (mz x) (mz y)) a b.

(* out intensities = in intensities / T (relative 1e-12), same length *)
Definition renorm_ok (inp out : list fpeak) (T : Q) : bool :=
  list_agree (fun x y => if Qeq_bool T 0 then true else q_close_rel (qf0 (inten y)) (qf0 (inten x) / T) eps12) inp out.

Definition sum1 (out : list fpeak) : bool :=
  match out with [] => true | _ => q_close_abs (qsum (qints out)) 1 eps9 end.

Fixpoint prefix_sums (l : list Q) (acc : Q) : list Q :=
  match l with [] => [] | x :: r => let a := Qred (acc + x) in a :: prefix_sums r a end.

Definition slack (exact : bool) (t : Q) : Q := if exact then 0 else eps12 * qabs t.

(* shortest prefix whose cumulative intensity reaches t; all peaks if never reached *)
Definition trunc_spec (exact : bool) (inp out : list fpeak) (t : Q) : bool :=
  let n := length inp in let k := length out in
  match n with
  | O => Nat.eqb k 0
  | _ =>
    let cs := prefix_sums (qints inp) 0 in
    let ck := nth (k - 1) cs 0 in
    Nat.leb 1 k && Nat.leb k n
    && (Nat.eqb k n || qleb (t - slack exact t) ck)
    && (Nat.eqb k 1 || qltb (nth (k - 2) cs 0) (t + slack exact t))
    && mz_same (firstn k inp) out && renorm_ok (firstn k inp) out ck && sum1 out
  end.

Definition ignore_spec (inp out : list fpeak) (t : float) : bool :=
  let kept := filter (fun p => PrimFloat.leb t (inten p)) inp in
  mz_same kept out && renorm_ok kept out (qsum (qints kept)) && (Qeq_bool (qsum (qints kept)) 0 || sum1 out).

Definition fused_knife (inp : list fpeak) (t1 t2 : Q) : bool :=
  let cs := prefix_sums (qints inp) 0 in
  existsb (fun c => q_close_rel c t1 (1 # 100000000000)) cs
  || existsb (fun c => negb (Qeq_bool c 0) &&
                       existsb (fun x => q_close_rel (x / c) t2 (1 # 100000000000)) (qints inp)) cs.

Fixpoint incr_spec (exact : bool) (inp : list fpeak) (cs : list Q) (T t : Q) (k : nat) (outs : list ftip) : bool :=
  (* k = number of peaks of the next prefix *)
  match outs with
  | [] => Nat.ltb k 2 || qleb (nth (k - 1) cs 0 / T) (t + slack exact t)
  | o :: r => Nat.leb 2 k && qltb (t - slack exact t) (nth (k - 1) cs 0 / T)
              && mz_same (firstn k inp) (peaks o) && renorm_ok (firstn k inp) (peaks o) (nth (k - 1) cs 0)
              && incr_spec exact inp cs T t (k - 1) r
  end.

Definition eq_spec (a b : list fpeak) : option bool :=
  (* None when some difference sits within 1e-9 of the 1e-3 tolerance (float subtraction could decide either way) *)
  if negb (Nat.eqb (length a) (length b)) then Some false else
  let d := List.concat (map (fun xy => [qabs (qf0 (mz (fst xy)) - qf0 (mz (snd xy)));
                                         qabs (qf0 (inten (fst xy)) - qf0 (inten (snd xy)))]) (combine a b)) in
  if existsb (fun x => q_close_abs x (1 # 1000) eps9) d then None
  else Some (forallb (fun x => qleb x (1 # 1000)) d).

Definition holds_on (c : pcase) : bool :=
  let p := pc_pat c in let inp := peaks p in
  if negb (finite_pat inp) then true else
  match pc_op c, pc_out c with
  | OpNormalize, OutTip o =>
      mz_same inp (peaks o) && renorm_ok inp (peaks o) (qsum (qints inp)) && sum1 (peaks o) && f_same (origin p) (origin o)
  | OpTotal, OutF f => q_close_rel (qf0 f) (qsum (qints inp)) eps12
  | OpScale f, OutTip o =>
      mz_same inp (peaks o) && f_same (origin p) (origin o)
      (* one rounding: 1e-14 relative, or -- when the product falls into the subnormal range -- half a subnormal spacing *)
      && list_agree (fun x y => q_close_rel (qf0 (inten y)) (qf0 (inten x) * qf0 f) eps14
                                || q_close_abs (qf0 (inten y)) (qf0 (inten x) * qf0 f) (1 # (Pos.pow 2 1074))) inp (peaks o)
  | OpShift off, OutTip o | OpCloneShifted off, OutTip o =>
      (* a correctly rounded sum is within 2^-53 (relative) of the exact one; 1e-15 leaves room for a different but honest addition *)
      list_agree (fun x y => f_same (inten x) (inten y) && q_close_rel (qf0 (mz y)) (qf0 (mz x) + qf0 off) eps15) inp (peaks o)
      && q_close_rel (qf0 (origin o)) (qf0 (origin p) + qf0 off) eps15
  | OpTrunc t, OutTip o => trunc_spec (pc_exact c) inp (peaks o) (qf0 t) && f_same (origin p) (origin o)
  | OpIgnore t, OutTip o => ignore_spec inp (peaks o) t && f_same (origin p) (origin o)
  | OpFused t1 t2 sh, OutTip o =>
      match pc_step c with
      | OutTip s => list_agree (fun x y => q_close_abs (qf0 (mz x)) (qf0 (mz y)) eps9
                                           && q_close_rel (qf0 (inten x)) (qf0 (inten y)) eps9) (peaks o) (peaks s)
                    || fused_knife inp (qf0 t1) (qf0 t2)
      | _ => false
      end
  | OpDropLast, OutTip o =>
      let kept := removelast inp in
      mz_same kept (peaks o) && renorm_ok kept (peaks o) (qsum (qints kept)) && f_same (origin p) (origin o)
  | OpSlice a b, OutTip o =>
      Nat.leb a b && Nat.leb b (length inp) &&
      let kept := firstn (b - a) (skipn a inp) in
      mz_same kept (peaks o) && renorm_ok kept (peaks o) (qsum (qints kept))
  | OpSlice a b, OutPanic => negb (Nat.leb a b && Nat.leb b (length inp))
  | OpIncr t, OutTips l =>
      let cs := prefix_sums (qints inp) 0 in
      let T := qsum (qints inp) in
      if Qeq_bool T 0 then true else incr_spec (pc_exact c) inp cs T (qf0 t) (length inp) l
  | OpEq b, OutBools r1 r2 r3 =>
      if negb (finite_pat b) then true else
      match eq_spec inp b with
      | None => true
      | Some e => obool_eq r1 (Some e) && obool_eq r2 (Some e) && obool_eq r3 (Some e)
      end
  | _, _ => false
  end.

(* a case is non-trivial when the operation had a decision to make *)
Definition nontrivial (c : pcase) : bool :=
  Nat.ltb 1 (length (peaks (pc_pat c))).

Fixpoint ids_where (f : pcase -> bool) (l : list pcase) : list N :=
  match l with [] => [] | c :: r => (if f c then [pc_id c] else []) ++ ids_where f r end.
