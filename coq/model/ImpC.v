(* Vocabulary for the shallow embedding of src/composition_list.rs and src/composition_map.rs (tools/gen_comp.py ->
   gen/CompGen.v), and the general facts about it.  Companion of Imp.v / ImpW.v / ImpL.v / ImpS.v / ImpE.v; nothing here
   knows about any particular generated text.

   Both containers hold `(ElementSpecification, i32)` entries plus `mass_cache: Option<f64>`; the source's keys are
   [ImpE.espec] (a reference to an Element and an isotope number), the model's keys are [Comp.key] (symbol text, isotope):
   [keys_of] maps the entries of the source to the entries of the model, [comp_of] a whole container.

     a method `fn m(&self, ..) -> T`            ~>  .. -> pres T                 (POk v | PPanic: a Rust panic is a value)
     a method `fn m(&mut self, ..) -> T`        ~>  .. -> ccomp F * pres T       (the container as the call leaves it,
                                                                                  also when it panics)
     a returned `&mut i32`                      ~>  a PLACE: the index of the entry (list form: nat), the key of the
                                                    entry (map form: espec); writing through it is [v_place_upd] /
                                                    [m_place_upd] (the cache is NOT touched by such a write)
     for x in IT { body }  (body may panic)     ~>  for_each_p IT (fun x st => inl st' | inr st') st
                                                    (inl: next iteration / normal end, inr: panicked in state st')
   Vec<(K, i32)>:
     v.iter().position(p)                       ~>  position p v
     v.iter().find(p) / .enumerate().find(p)    ~>  List.find p v / List.find p (ImpL.enumerate v)
     v[i].1 = n   (panics when i >= len)        ~>  vec_upd i (fun p => (fst p, n)) v : option     (None = the panic)
     v.get(i) / v.get_mut(i)                    ~>  nth_error v i / vec_get_mut i v  (the entry's key and the PLACE i)
     v.push(x)                                  ~>  v ++ [x]
   HashMap<K, i32> (NOT tied: these ARE the model's association-list operations, read through [spec_key]; the list is
   the map in iteration order, and [shuffle] is the permutation oracle applied where an insertion may rehash):
     m.get(&k)                                  ~>  hm_get k m                  (e_mem / e_get)
     m.contains_key(&k)                         ~>  hm_contains_key k m         (e_mem)
     m.insert(k, n)                             ~>  hm_insert shuffle k n m     (shuffle after e_set: the OLD key object stays)
     m.entry(k).or_insert(d)                    ~>  hm_or_insert shuffle k d m  (the map, shuffled only if k was inserted,
                                                                                  and the PLACE k)
     m.get_mut(&k)                              ~>  hm_get_mut k m              (Some PLACE when present; no rehash)
     m.len() / m.iter() / for .. in &m          ~>  length m / m                 (iteration order = list order) *)
From Coq Require Import List ZArith NArith Bool Arith String Lia.
From CE Require Import Num Str TableTypes TableModel Comp ESpec CompOps ImpL ImpE.
Import ListNotations.
Local Open Scope nat_scope.

(* ---------- results with panics ---------- *)
Inductive pres (A : Type) := POk (a : A) | PPanic.
Arguments POk {A}. Arguments PPanic {A}.

(* ---------- the containers ---------- *)
Definition sents := list (espec * Z).
Definition kv_key (kv : espec * Z) : key * Z := (spec_key (fst kv), snd kv).
Definition keys_of (l : sents) : ents := map kv_key l.

Record ccomp (F : Type) := mkCC { composition : sents; mass_cache : option F }.
Arguments mkCC {F}. Arguments composition {F}. Arguments mass_cache {F}.
Definition comp_of {F} (c : ccomp F) : comp F := mkComp (keys_of (composition c)) (mass_cache c).

(* the outcome of the model's register machine for a panic value *)
Definition outcome_of {A} (r : pres A) : outcome := match r with POk _ => Done | PPanic => Panicked end.

(* Two ElementSpecifications are compared by the source through `Element::eq` (symbol and most_abundant_isotope) and
   the isotope; the model compares keys.  They agree on specifications whose elements are [coherent]: equal symbols
   mean equal most_abundant_isotope - e.g. all taken from one table. *)
Definition coherent (ks : list espec) : Prop :=
  forall a b, In a ks -> In b ks -> sym (sp_element a) = sym (sp_element b) -> mai (sp_element a) = mai (sp_element b).
(* the element of a specification is the table's element of that symbol *)
Definition spec_in (t : ptable) (sp : espec) : Prop := tbl_find (codes (sym (sp_element sp))) t = Some (sp_element sp).
Definition specs_in (t : ptable) (l : sents) : Prop := forall kv, In kv l -> spec_in t (fst kv).

(* ---------- loops whose body can panic ---------- *)
Section LoopP.
  Context {A St : Type}.
  Fixpoint for_each_p (l : list A) (body : A -> St -> St + St) (s : St) : St + St :=
    match l with
    | [] => inl s
    | x :: r => match body x s with inl s' => for_each_p r body s' | inr s' => inr s' end
    end.

  Lemma for_each_p_ext l body body' s :
    (forall x s, In x l -> body x s = body' x s) -> for_each_p l body s = for_each_p l body' s.
  Proof.
    revert s. induction l as [|x r IH]; intros s H; [reflexivity|]. cbn [for_each_p].
    rewrite H by (left; reflexivity). destruct (body' x s); [|reflexivity]. apply IH. intros y s' Hy. apply H. right. exact Hy.
  Qed.

  (* a loop that never panics is ImpL.for_each *)
  Lemma for_each_p_no_panic l (body : A -> St -> St) s :
    for_each_p l (fun x s => inl (body x s)) s = inl (for_each l body s).
  Proof. revert s. induction l as [|x r IH]; intros s; [reflexivity|]. cbn [for_each_p]. apply IH. Qed.

  (* the loop against a structurally recursive function that performs one body step per element *)
  Lemma for_each_p_rec {T : Type} (body : A -> St -> St + St) (f : list A -> St -> T) (kl kr : St -> T) :
    (forall s, f [] s = kl s) ->
    (forall x r s, f (x :: r) s = match body x s with inl s' => f r s' | inr s' => kr s' end) ->
    forall l s, f l s = match for_each_p l body s with inl s' => kl s' | inr s' => kr s' end.
  Proof.
    intros H0 HS. induction l as [|x r IH]; intros s; [apply H0|].
    cbn [for_each_p]. rewrite HS. destruct (body x s); [apply IH | reflexivity].
  Qed.
End LoopP.

(* ---------- Vec ---------- *)
Fixpoint position {A} (p : A -> bool) (l : list A) : option nat :=
  match l with [] => None | x :: r => if p x then Some 0 else option_map S (position p r) end.

Fixpoint upd_nth {A} (i : nat) (f : A -> A) (l : list A) : list A :=
  match l, i with
  | [], _ => []
  | x :: r, O => f x :: r
  | x :: r, S j => x :: upd_nth j f r
  end.
Definition vec_upd {A} (i : nat) (f : A -> A) (l : list A) : option (list A) :=
  match nth_error l i with Some _ => Some (upd_nth i f l) | None => None end.
Definition vec_get_mut {A B} (i : nat) (l : list (A * B)) : option (A * nat) :=
  match nth_error l i with Some (a, _) => Some (a, i) | None => None end.

Definition v_place_upd {F} (f : Z -> Z) (i : nat) (c : ccomp F) : ccomp F :=
  mkCC (upd_nth i (fun kv => (fst kv, f (snd kv))) (composition c)) (mass_cache c).

(* ---------- HashMap, through the model's association lists ---------- *)
Definition sk_eqb (a b : espec) : bool := key_eqb (spec_key a) (spec_key b).
Fixpoint s_set (k : espec) (n : Z) (m : sents) : sents :=
  match m with
  | [] => [(k, n)]
  | (k', v) :: r => if sk_eqb k k' then (k', n) :: r else (k', v) :: s_set k n r
  end.
Fixpoint s_upd (k : espec) (f : Z -> Z) (m : sents) : sents :=
  match m with
  | [] => []
  | (k', v) :: r => if sk_eqb k k' then (k', f v) :: r else (k', v) :: s_upd k f r
  end.
Definition hm_contains_key (k : espec) (m : sents) : bool := e_mem (spec_key k) (keys_of m).
Definition hm_get (k : espec) (m : sents) : option Z :=
  if e_mem (spec_key k) (keys_of m) then Some (e_get (spec_key k) (keys_of m)) else None.
Definition hm_insert (shuffle : sents -> sents) (k : espec) (n : Z) (m : sents) : sents := shuffle (s_set k n m).
Definition hm_or_insert (shuffle : sents -> sents) (k : espec) (d : Z) (m : sents) : sents * espec :=
  (if e_mem (spec_key k) (keys_of m) then m else shuffle (s_set k d m), k).
Definition hm_get_mut (k : espec) (m : sents) : option espec :=
  if e_mem (spec_key k) (keys_of m) then Some k else None.

Definition m_place_upd {F} (f : Z -> Z) (k : espec) (c : ccomp F) : ccomp F :=
  mkCC (s_upd k f (composition c)) (mass_cache c).

(* index of the first entry with key k (what `find` of the list form computes) *)
Fixpoint e_pos (k : key) (l : ents) : option nat :=
  match l with [] => None | (k', _) :: r => if key_eqb k k' then Some 0 else option_map S (e_pos k r) end.

(* ====================== general facts ====================== *)

Lemma keys_of_app a b : keys_of (a ++ b) = (keys_of a ++ keys_of b)%list.
Proof. apply map_app. Qed.

Lemma keys_of_length l : List.length (keys_of l) = List.length l.
Proof. apply map_length. Qed.

(* ---------- the model's association lists ---------- *)
Lemma e_pos_none k l : e_pos k l = None <-> e_mem k l = false.
Proof.
  induction l as [|[k' v] r IH]; cbn [e_pos e_mem]; [split; reflexivity|].
  destruct (key_eqb k k'); cbn [orb]; [split; discriminate|].
  rewrite <- IH. destruct (e_pos k r); cbn [option_map]; split; congruence.
Qed.

Lemma e_pos_some k l i : e_pos k l = Some i ->
  e_mem k l = true /\ exists k', nth_error l i = Some (k', e_get k l) /\ key_eqb k k' = true.
Proof.
  revert i. induction l as [|[k' v] r IH]; intros i H; cbn [e_pos e_mem e_get] in *; [discriminate H|].
  destruct (key_eqb k k') eqn:E; cbn [orb].
  - inversion H. subst i. split; [reflexivity|]. exists k'. split; [reflexivity|exact E].
  - destruct (e_pos k r) as [j|]; cbn [option_map] in H; [|discriminate H]. inversion H. subst i.
    destruct (IH j eq_refl) as [Hm [k'' [Hn Hk]]]. split; [exact Hm|]. exists k''. split; [exact Hn|exact Hk].
Qed.

Lemma e_get_absent k l : e_mem k l = false -> e_get k l = 0%Z.
Proof.
  induction l as [|[k' v] r IH]; cbn [e_mem e_get]; [reflexivity|]. destruct (key_eqb k k'); cbn [orb]; [discriminate|exact IH].
Qed.

Lemma e_set_absent k n l : e_mem k l = false -> e_set k n l = (l ++ [(k, n)])%list.
Proof.
  induction l as [|[k' v] r IH]; cbn [e_mem e_set app]; [reflexivity|]. destruct (key_eqb k k'); cbn [orb]; [discriminate|].
  intros H. rewrite IH by exact H. reflexivity.
Qed.

Lemma e_set_pos k n l i : e_pos k l = Some i -> e_set k n l = upd_nth i (fun kv => (fst kv, n)) l.
Proof.
  revert i. induction l as [|[k' v] r IH]; intros i H; cbn [e_pos e_set] in *; [discriminate H|].
  destruct (key_eqb k k'); [inversion H; reflexivity|].
  destruct (e_pos k r) as [j|]; cbn [option_map] in H; [|discriminate H]. inversion H. subst i.
  cbn [upd_nth]. rewrite (IH j eq_refl). reflexivity.
Qed.

Lemma e_mem_set k n l : e_mem k (e_set k n l) = true.
Proof.
  assert (R : key_eqb k k = true).
  { unfold key_eqb. rewrite str_eqb_refl, N.eqb_refl. reflexivity. }
  induction l as [|[k' v] r IH]; cbn [e_set e_mem]; [rewrite R; reflexivity|].
  destruct (key_eqb k k') eqn:E; cbn [e_mem]; rewrite ?E; cbn [orb]; [reflexivity|exact IH].
Qed.

(* ---------- lists ---------- *)
Lemma upd_nth_map {A B} (g : A -> A) (h : B -> B) (f : A -> B) i l :
  (forall x, f (g x) = h (f x)) -> map f (upd_nth i g l) = upd_nth i h (map f l).
Proof.
  intros H. revert i. induction l as [|x r IH]; intros i; [destruct i; reflexivity|].
  destruct i; cbn [upd_nth map]; [rewrite H; reflexivity|rewrite IH; reflexivity].
Qed.

Lemma upd_nth_ext {A} (g h : A -> A) i l : (forall x, g x = h x) -> upd_nth i g l = upd_nth i h l.
Proof.
  intros H. revert i. induction l as [|x r IH]; intros i; [destruct i; reflexivity|].
  destruct i; cbn [upd_nth]; [rewrite H; reflexivity|rewrite IH; reflexivity].
Qed.

Lemma nth_error_keys_of l i : nth_error (keys_of l) i = option_map kv_key (nth_error l i).
Proof. unfold keys_of. revert i. induction l as [|x r IH]; intros [|i]; cbn; try reflexivity. apply IH. Qed.

Lemma vec_upd_some {A} i (g : A -> A) l x : nth_error l i = Some x -> vec_upd i g l = Some (upd_nth i g l).
Proof. intros H. unfold vec_upd. rewrite H. reflexivity. Qed.

Lemma upd_nth_last {A} (g : A -> A) l x : upd_nth (List.length l) g (l ++ [x]) = (l ++ [g x])%list.
Proof. induction l as [|y r IH]; cbn [List.length app upd_nth]; [reflexivity|rewrite IH; reflexivity]. Qed.

Lemma nth_error_last {A} (l : list A) x : nth_error (l ++ [x]) (List.length l) = Some x.
Proof. induction l as [|y r IH]; cbn; [reflexivity|exact IH]. Qed.

(* `find` / `position` with a predicate that agrees, on the entries, with the model's key test *)
Lemma find_keys (p : espec * Z -> bool) k l :
  (forall kv, In kv l -> p kv = key_eqb k (spec_key (fst kv))) ->
  option_map snd (find p l) = if e_mem k (keys_of l) then Some (e_get k (keys_of l)) else None.
Proof.
  induction l as [|[sp v] r IH]; intros H; [reflexivity|].
  cbn [find keys_of map kv_key e_mem e_get fst snd]. rewrite (H (sp, v)) by (left; reflexivity). cbn [fst].
  destruct (key_eqb k (spec_key sp)); cbn [orb option_map snd]; [reflexivity|].
  apply IH. intros kv Hin. apply H. right. exact Hin.
Qed.

Lemma position_keys (p : espec * Z -> bool) k l :
  (forall kv, In kv l -> p kv = key_eqb k (spec_key (fst kv))) -> position p l = e_pos k (keys_of l).
Proof.
  induction l as [|[sp v] r IH]; intros H; [reflexivity|].
  cbn [position keys_of map kv_key e_pos fst snd]. rewrite (H (sp, v)) by (left; reflexivity). cbn [fst].
  destruct (key_eqb k (spec_key sp)); [reflexivity|]. fold (keys_of r). rewrite IH; [reflexivity|].
  intros kv Hin. apply H. right. exact Hin.
Qed.

Lemma find_enumerate_from {A} (q : nat * A -> bool) (p : A -> bool) l s :
  (forall i x, In x l -> q (i, x) = p x) ->
  option_map fst (find q (enumerate_from s l)) = option_map (Nat.add s) (position p l).
Proof.
  revert s. induction l as [|x r IH]; intros s H; [reflexivity|].
  rewrite enumerate_from_cons. cbn [find position]. rewrite H by (left; reflexivity).
  destruct (p x); cbn [option_map fst]; [f_equal; lia|].
  rewrite IH by (intros i y Hy; apply H; right; exact Hy).
  destruct (position p r); cbn [option_map]; [f_equal; lia|reflexivity].
Qed.

Lemma find_enumerate {A} (q : nat * A -> bool) (p : A -> bool) l :
  (forall i x, In x l -> q (i, x) = p x) -> option_map fst (find q (enumerate l)) = position p l.
Proof.
  intros H. unfold enumerate. rewrite (find_enumerate_from q p l 0 H). destruct (position p l); reflexivity.
Qed.

(* ---------- the map vocabulary against the model's ---------- *)
Lemma keys_of_s_set k n m : keys_of (s_set k n m) = e_set (spec_key k) n (keys_of m).
Proof.
  induction m as [|[k' v] r IH]; [reflexivity|]. cbn [s_set keys_of map kv_key e_set fst snd]. unfold sk_eqb.
  destruct (key_eqb (spec_key k) (spec_key k')); [reflexivity|]. cbn [map kv_key fst snd]. f_equal. exact IH.
Qed.

Lemma keys_of_s_upd k f m : e_mem (spec_key k) (keys_of m) = true ->
  keys_of (s_upd k f m) = e_set (spec_key k) (f (e_get (spec_key k) (keys_of m))) (keys_of m).
Proof.
  induction m as [|[k' v] r IH]; [discriminate|]. cbn [s_upd keys_of map kv_key e_set e_get e_mem fst snd]. unfold sk_eqb.
  destruct (key_eqb (spec_key k) (spec_key k')); cbn [orb]; [reflexivity|]. intros H. cbn [map kv_key fst snd]. f_equal. apply IH, H.
Qed.

Lemma s_upd_absent k f m : e_mem (spec_key k) (keys_of m) = false -> s_upd k f m = m.
Proof.
  induction m as [|[k' v] r IH]; [reflexivity|]. cbn [s_upd keys_of map kv_key e_mem fst snd]. unfold sk_eqb.
  destruct (key_eqb (spec_key k) (spec_key k')); cbn [orb]; [discriminate|]. intros H. f_equal. apply IH, H.
Qed.

Lemma hm_get_unwrap k m : unwrap_or (hm_get k m) 0%Z = e_get (spec_key k) (keys_of m).
Proof.
  unfold hm_get. destruct (e_mem (spec_key k) (keys_of m)) eqn:E; cbn [unwrap_or]; [reflexivity|].
  symmetry. apply e_get_absent, E.
Qed.

(* ---------- specifications taken from one table ---------- *)
Lemma specs_coherent t (l : list espec) : (forall sp, In sp l -> spec_in t sp) -> coherent l.
Proof.
  intros H a b Ha Hb E. pose proof (H a Ha) as Ea. pose proof (H b Hb) as Eb. unfold spec_in in *.
  rewrite E in Ea. rewrite Ea in Eb. inversion Eb as [E']. rewrite E'. reflexivity.
Qed.

Lemma coherent_incl (l l' : list espec) : incl l l' -> coherent l' -> coherent l.
Proof. intros Hi H a b Ha Hb. apply H; apply Hi; assumption. Qed.

Lemma find_ext {A} (p q : A -> bool) l : (forall x, p x = q x) -> find p l = find q l.
Proof. intros H. induction l as [|x r IH]; [reflexivity|]. cbn [find]. rewrite H, IH. reflexivity. Qed.

Lemma position_ext {A} (p q : A -> bool) l : (forall x, p x = q x) -> position p l = position q l.
Proof. intros H. induction l as [|x r IH]; [reflexivity|]. cbn [position]. rewrite H, IH. reflexivity. Qed.

(* the count of the first entry with key k, 0 when there is none: the model's [e_get] *)
Lemma find_get (p : espec * Z -> bool) k l :
  (forall kv, In kv l -> p kv = key_eqb k (spec_key (fst kv))) ->
  match find p l with Some kv => snd kv | None => 0%Z end = e_get k (keys_of l).
Proof.
  intros H. pose proof (find_keys p k l H) as E. destruct (find p l) as [kv|]; cbn [option_map] in E.
  - destruct (e_mem k (keys_of l)); [inversion E; reflexivity|discriminate E].
  - destruct (e_mem k (keys_of l)) eqn:M; [discriminate E|]. symmetry. apply e_get_absent, M.
Qed.

(* a write through the place of the first entry with key k *)
Lemma e_set_pos_upd k (g : Z -> Z) l i : e_pos k l = Some i ->
  e_set k (g (e_get k l)) l = upd_nth i (fun kv => (fst kv, g (snd kv))) l.
Proof.
  revert i. induction l as [|[k' v] r IH]; intros i H; cbn [e_pos e_set e_get] in *; [discriminate H|].
  destruct (key_eqb k k'); [inversion H; reflexivity|].
  destruct (e_pos k r) as [j|]; cbn [option_map] in H; [|discriminate H]. inversion H. subst i.
  cbn [upd_nth]. rewrite (IH j eq_refl). reflexivity.
Qed.

Lemma vec_get_mut_some {A B} i (l : list (A * B)) a b : nth_error l i = Some (a, b) -> vec_get_mut i l = Some (a, i).
Proof. intros H. unfold vec_get_mut. rewrite H. reflexivity. Qed.

(* [s_set] is the list form's overwrite-or-push *)
Lemma s_set_pos k n l i : e_pos (spec_key k) (keys_of l) = Some i -> s_set k n l = upd_nth i (fun kv => (fst kv, n)) l.
Proof.
  revert i. induction l as [|[k' v] r IH]; intros i H; cbn [keys_of map kv_key e_pos s_set fst snd] in *; [discriminate H|].
  unfold sk_eqb. destruct (key_eqb (spec_key k) (spec_key k')); [inversion H; reflexivity|].
  fold (keys_of r) in H. destruct (e_pos (spec_key k) (keys_of r)) as [j|]; cbn [option_map] in H; [|discriminate H].
  inversion H. subst i. cbn [upd_nth]. rewrite (IH j eq_refl). reflexivity.
Qed.

Lemma s_set_absent k n l : e_mem (spec_key k) (keys_of l) = false -> s_set k n l = (l ++ [(k, n)])%list.
Proof.
  induction l as [|[k' v] r IH]; cbn [keys_of map kv_key e_mem s_set app fst snd]; [reflexivity|]. unfold sk_eqb.
  destruct (key_eqb (spec_key k) (spec_key k')); cbn [orb]; [discriminate|]. intros H. rewrite IH by exact H. reflexivity.
Qed.

Lemma s_set_incl k n l : incl (map fst (s_set k n l)) (k :: map fst l).
Proof.
  induction l as [|[k' v] r IH]; cbn [s_set map fst]; [intros x Hx; exact Hx|].
  destruct (sk_eqb k k'); cbn [map fst]; intros x [Hx|Hx].
  - right. left. exact Hx.
  - right. right. exact Hx.
  - right. left. exact Hx.
  - destruct (IH x Hx) as [H|H]; [left; exact H|right; right; exact H].
Qed.

Lemma key_eqb_refl k : key_eqb k k = true.
Proof. unfold key_eqb. rewrite str_eqb_refl, N.eqb_refl. reflexivity. Qed.

Lemma e_get_set_same k n l : e_get k (e_set k n l) = n.
Proof.
  induction l as [|[k' v] r IH]; cbn [e_set e_get]; [rewrite key_eqb_refl; reflexivity|].
  destruct (key_eqb k k') eqn:E; cbn [e_get]; rewrite E; [reflexivity|exact IH].
Qed.

Lemma e_set_set k m n l : e_set k m (e_set k n l) = e_set k m l.
Proof.
  induction l as [|[k' v] r IH]; cbn [e_set]; [rewrite key_eqb_refl; reflexivity|].
  destruct (key_eqb k k') eqn:E; cbn [e_set]; rewrite E; [reflexivity|rewrite IH; reflexivity].
Qed.

(* a write through the place of a present key of the map: no rehash, the cache is not touched *)
Lemma m_place_write {F} (g : Z -> Z) p (c : ccomp F) : e_mem (spec_key p) (keys_of (composition c)) = true ->
  comp_of (m_place_upd g p c) =
  mkComp (e_set (spec_key p) (g (e_get (spec_key p) (keys_of (composition c)))) (keys_of (composition c))) (mass_cache c).
Proof. intros E. unfold comp_of, m_place_upd. cbn [composition mass_cache]. rewrite (keys_of_s_upd _ g _ E). reflexivity. Qed.
