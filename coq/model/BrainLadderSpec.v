(* Specification-side definition for C09c (the centre-mass ladder).  No proofs. *)
From Coq Require Import List ZArith NArith Bool.
From CE Require Import TableTypes TableModel BrainSpec.
Import ListNotations.

(* the mass increment per extra neutron, over the isotopes BRAIN's ladder walk finds, lies in [lo, hi] (micro-units):
   with t the lightest isotope found (the one the polynomials are normalised by) and d the number of neutrons an
   isotope i has in excess of t,   lo * d <= mass i - mass t <= hi * d.
   BRAIN places isotope i at degree  shift i - shift t  of the element's polynomial (it never looks at `neutrons`),
   so the test also checks that this degree is the neutron excess d. *)
Definition elem_incr_ok (e : elem) (lo hi : Z) : bool :=
  match tail_loop e (seq 0 (Z.to_nat (max_shift e - min_shift e + 1))) None with
  | Some t =>
      forallb (fun i =>
                 let d := (Z.of_N (neutrons i) - Z.of_N (neutrons t))%Z in
                 (TableModel.shift i - TableModel.shift t =? d)%Z
                 && (lo * d <=? TableModel.mass i - TableModel.mass t)%Z
                 && (TableModel.mass i - TableModel.mass t <=? hi * d)%Z)
              (found_isos e)
  | None => false
  end.
