(* Correspondence and specification checks for C15 (evaluated by coqc on generated cases). *)
From Coq Require Import ZArith NArith QArith Qreduction List Bool Floats.
From CE Require Import Num NumFloat NumFloat64 QFloat Dyadic Mz Peak Poisson PeakCheck.
Import ListNotations.

Inductive qcase :=
| QApprox (id : N) (mass : float) (n : nat) (z : Z) (out : option (list fpeak))
| QNpeaks (id : N) (mass t t2 : float) (out out2 : option Z).

Definition qc_id (c : qcase) : N := match c with QApprox i _ _ _ _ => i | QNpeaks i _ _ _ _ _ => i end.

Definition q_tie (cmp : float -> float -> bool) (c : qcase) : bool :=
  match c with
  | QApprox _ m n z (Some o) => list_agree (peak_agree cmp) (poisson_approximation NumF m n z) o
  | QNpeaks _ m t t2 (Some a) (Some b) => Z.eqb (poisson_n NumF m t) a && Z.eqb (poisson_n NumF m t2) b
  | _ => false
  end.

Open Scope Q_scope.
Definition delta : Q := 10033548378 # 10000000000.
Definition proton : Q := 1007276 # 1000000.

(* magnitude gate: |x|^n stays well inside the double range (bits of x times n below 900) *)
Definition qbits (x : Q) : Z := Z.log2 (Z.abs (Qnum x)) - Z.log2 (Zpos (Qden x)).
Definition pow_representable (x : Q) (n : nat) : bool :=
  Qeq_bool x 0 || (Z.abs ((qbits x + (if (0 <=? qbits x)%Z then 1 else -1)) * Z.of_nat n) <? 900)%Z.
(* differences below 2^-1000 are underflow noise: a normalised intensity that small is a denormal or zero *)
Definition tiny : Q := 1 # (2 ^ 1000).
Definition fact_representable (n : nat) : bool := Nat.leb n 160.

Definition approx_spec (m : float) (n : nat) (z : Z) (o : list fpeak) : bool :=
  let qm := qf0 m in
  let lambda := Qred (qm / 1800) in
  Nat.eqb (length o) n
  && finite_pat o
  && forallb (fun p => qleb 0 (qf0 (inten p))) o
  && (Nat.eqb n 0 || q_close_abs (qsum (qints o)) 1 eps9)
  && forallb (fun ip => let '(i, p) := ip in
        let neutral := qm + inject_Z (Z.of_nat i) * delta in
        let want := if Z.eqb z 0 then neutral else (neutral + inject_Z z * proton) / inject_Z (Z.abs z) in
        q_close_rel (qf0 (mz p)) want eps12 || q_close_abs (qf0 (mz p)) want eps9) (combine (seq 0 n) o)
  && (* ratio law p[i] * i = p[i-1] * lambda, as long as lambda^n (and n!) are representable *)
     (if negb (fact_representable n && pow_representable lambda n) then true else
      forallb (fun i =>
         let a := qf0 (inten (nth i o (mkPeak 0%float 0%float))) in
         let b := qf0 (inten (nth (i - 1) o (mkPeak 0%float 0%float))) in
         q_close_rel (a * inject_Z (Z.of_nat i)) (b * lambda) eps9
         || q_close_abs (a * inject_Z (Z.of_nat i)) (b * lambda) tiny) (seq 1 (n - 1))).

(* the search, in enclosing dyadic intervals: first i >= 1 with term_i / acc_i < target, i.e.
   term_i < target * acc_i.  Some (i, true): certainly exits first at i; Some (i, false): the test at i
   is too close to call (knife edge); None: no exit within the fuel *)
Fixpoint iv_exit (lam : iv) (lden : Z) (target : iv) (i : nat) (fuel : nat) (cur acc : iv) : option (nat * bool) :=
  match fuel with
  | O => None
  | S f => let cur' := iv_divZ (iv_divZ (iv_mul cur lam) lden) (Z.of_nat i) in
           let acc' := iv_add acc cur' in
           match iv_lt cur' (iv_mul target acc') with
           | Some true => Some (i, true)
           | None => Some (i, false)
           | Some false => iv_exit lam lden target (S i) f cur' acc'
           end
  end.

Definition dy_of_float (f : float) : dy :=
  match f_exact f with Some (n, d) => dy_of_frac n d | None => dy_zero end.

(* the count returned for (m, t) is the first exit of the exact search (when the enclosures can tell) *)
Definition npeaks_exact (m t : float) (a : Z) : bool :=
  let lambda := Qred (qf0 m / 1800) in
  if negb (PrimFloat.leb 0 t && PrimFloat.leb t 1 && PrimFloat.leb 0 m && qleb (qf0 m) (inject_Z 100000)) then true else
  (* all of the signal is never reached: for masses up to 1e5 no term is ever infinite (lambda^i / i! stays finite or becomes 0 or NaN),
     so the answer is 255 *)
  if PrimFloat.eqb t 1 then Z.eqb a 255 else
  (* 1 - t is exact in binary64 for t in [0.5,1]; in general one rounding: enclose it *)
  let one_t := 1 - qf0 t in
  let tgt := mkIv (dy_of_frac (Qnum one_t) (Zpos (Qden one_t))) (dy_of_frac (Qnum one_t) (Zpos (Qden one_t))) in
  let tgt := mkIv (dy_mul false (lo tgt) (mkDy (2 ^ 40 - 1) (-40))) (dy_mul true (hi tgt) (mkDy (2 ^ 40 + 1) (-40))) in
  let lam := iv_pt (dy_of_float m) in
  match iv_exit lam 1800 tgt 1 254 (iv_pt (dy_of_Z 1)) (iv_pt (dy_of_Z 1)) with
  | Some (r, certain) =>
      if negb (pow_representable lambda r && fact_representable r) then true
      else if certain then Z.eqb a (Z.of_nat r) else (Z.of_nat r <=? a)%Z
  | None => true
  end.

(* both calls of a record (same mass, thresholds t and t2, made one after the other) *)
Definition npeaks_spec (m t t2 : float) (a b : Z) : bool :=
  (1 <=? a)%Z && (a <=? 255)%Z && (1 <=? b)%Z && (b <=? 255)%Z
  && (if PrimFloat.leb t t2 then (a <=? b)%Z else true)
  && npeaks_exact m t a && npeaks_exact m t2 b.

Definition q_holds (c : qcase) : bool :=
  match c with
  | QApprox _ m n z (Some o) => if f_is_finite m then approx_spec m n z o else true
  | QNpeaks _ m t t2 (Some a) (Some b) => npeaks_spec m t t2 a b
  | _ => false   (* a panic *)
  end.

Definition q_nontrivial (c : qcase) : bool :=
  match c with QApprox _ _ n _ _ => Nat.ltb 1 n | QNpeaks _ _ _ _ (Some a) _ => (1 <? a)%Z | _ => false end.

Fixpoint qids_where (f : qcase -> bool) (l : list qcase) : list N :=
  match l with [] => [] | c :: r => (if f c then [qc_id c] else []) ++ qids_where f r end.
