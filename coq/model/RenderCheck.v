(* Correspondence and specification checks for C07. *)
From Coq Require Import List ZArith NArith Bool Arith String.
From CE Require Import Str TableTypes TableModel Comp ESpec Formula FormulaSpec Render FormulaCheck.
Import ListNotations.

Definition ua7 (c : char) : bool := (c =? 233)%N.
Record rcase := mkRC { rc_id : N; rc_ents : list (str * N * Z); rc_texts : list str; rc_back : list fout;
                       rc_json : list str; rc_de : list fout }.

Definition to_ents (l : list (str * N * Z)) : ents := map (fun t => ((fst (fst t), snd (fst t)), snd t)) l.

Definition r_tie (c : rcase) : bool :=
  match rc_texts c with
  | t :: _ => str_eqb (to_formula TF ua7 false (to_ents (rc_ents c))) t
              && str_eqb (to_formula TF ua7 true (to_ents (rc_ents c))) t
              && forallb (fout_agree (model_parse t)) (rc_back c)
  | [] => false
  end.

Definition is_ok_with (l : list (str * N * Z)) (o : fout) : bool :=
  match o with ROk x => trips_eqb x (flat (to_ents l)) | _ => false end.

(* the order the property states, read off the text itself by the independent reference reader: plain carbon first,
   then plain hydrogen, then the remaining keys strictly increasing by (symbol, isotope) *)
Fixpoint lex_ltb (a b : str) : bool :=
  match a, b with
  | [], [] => false
  | [], _ :: _ => true
  | _ :: _, [] => false
  | x :: r, y :: s => if (x <? y)%N then true else if (y <? x)%N then false else lex_ltb r s
  end.
Definition key_ltb7 (a b : str * N) : bool := if str_eqb (fst a) (fst b) then (snd a <? snd b)%N else lex_ltb (fst a) (fst b).
Definition is_plain7 (c : N) (k : str * N) : bool := str_eqb (fst k) [c] && (snd k =? 0)%N.
Definition strip1 (c : N) (ks : list (str * N)) : list (str * N) :=
  match ks with k :: r => if is_plain7 c k then r else ks | [] => [] end.
Fixpoint increasing7 (ks : list (str * N)) : bool :=
  match ks with a :: ((b :: _) as r) => key_ltb7 a b && increasing7 r | _ => true end.
Definition canonical_order (ks : list (str * N)) : bool :=
  let r := strip1 72 (strip1 67 ks) in
  forallb (fun k => negb (is_plain7 67 k) && negb (is_plain7 72 k)) r && increasing7 r.
Definition text_order_ok (t : str) : bool :=
  match reference uni_num he hi t with
  | Some f => canonical_order (map (fun it => match it with El sy i _ => (sy, iso_val i) | Gr _ _ => ([], 0%N) end) f)
  | None => false
  end.

(* one text whatever the insertion order and representation; it parses back to the same entries through all three
   FromStr impls; the serde forms are that text, quoted, and deserialize to the same entries *)
Definition r_holds (c : rcase) : bool :=
  match rc_ents c with
  | [] => Nat.eqb (List.length (rc_texts c)) 1      (* the empty composition has no text to round-trip *)
  | _ =>
    match rc_texts c with
    | [t] => text_order_ok t
             && forallb (is_ok_with (rc_ents c)) (rc_back c)
             && forallb (is_ok_with (rc_ents c)) (rc_de c)
             && forallb (fun j => str_eqb j ([34%N] ++ t ++ [34%N])%list) (rc_json c)
    | _ => false
    end
  end.
Definition r_nontrivial (c : rcase) : bool := Nat.ltb 1 (List.length (rc_ents c)).
Fixpoint rids_where (f : rcase -> bool) (l : list rcase) : list N :=
  match l with [] => [] | c :: r => ((if f c then [rc_id c] else []) ++ rids_where f r)%list end.
