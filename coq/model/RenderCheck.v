(* Correspondence and specification checks for C07. *)
From Coq Require Import List ZArith NArith Bool Arith String.
From CE Require Import Str TableTypes TableModel Comp ESpec Formula FormulaSpec Render FormulaCheck.
Import ListNotations.

Definition ua7 (c : char) : bool := (c =? 233)%N.
Record rcase := mkRC { rc_id : N; rc_ents : list (str * N * Z); rc_texts : list str; rc_back : list fout;
                       rc_json : list str; rc_de : list fout }.

Definition to_ents (l : list (str * N * Z)) : ents := map (fun t => ((fst (fst t), snd (fst t)), snd t)) l.

Definition r_tie (c : rcase) : bool :=
  match rc_texts c with
  | t :: _ => str_eqb (to_formula TF ua7 false (to_ents (rc_ents c))) t
              && str_eqb (to_formula TF ua7 true (to_ents (rc_ents c))) t
              && forallb (fout_agree (model_parse t)) (rc_back c)
  | [] => false
  end.

Definition is_ok_with (l : list (str * N * Z)) (o : fout) : bool :=
  match o with ROk x => trips_eqb x (flat (to_ents l)) | _ => false end.

(* one text whatever the insertion order and representation; it parses back to the same entries through all three
   FromStr impls; the serde forms are that text, quoted, and deserialize to the same entries *)
Definition r_holds (c : rcase) : bool :=
  match rc_ents c with
  | [] => Nat.eqb (List.length (rc_texts c)) 1      (* the empty composition has no text to round-trip *)
  | _ =>
    match rc_texts c with
    | [t] => forallb (is_ok_with (rc_ents c)) (rc_back c)
             && forallb (is_ok_with (rc_ents c)) (rc_de c)
             && forallb (fun j => str_eqb j ([34%N] ++ t ++ [34%N])%list) (rc_json c)
    | _ => false
    end
  end.
Definition r_nontrivial (c : rcase) : bool := Nat.ltb 1 (List.length (rc_ents c)).
Fixpoint rids_where (f : rcase -> bool) (l : list rcase) : list N :=
  match l with [] => [] | c :: r => ((if f c then [rc_id c] else []) ++ rids_where f r)%list end.
