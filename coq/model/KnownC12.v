(* Known findings for C12 (none: F24, iron's missing Fe-54, was repaired by a fix: commit). *)
From Coq Require Import String.
Definition known_c12 (k : string) : bool := false.
