(* Bounded-precision dyadic arithmetic with directed rounding, on non-negative values.
   Used only by the correspondence runs to evaluate specifications rigorously without
   letting integers grow: every operation comes in a round-down and a round-up flavour,
   so a pair (lo, hi) computed with them encloses the exact value. *)
From Coq Require Import ZArith List Bool.
Open Scope Z_scope.

Record dy := mkDy { dm : Z; de : Z }.   (* value dm * 2^de, dm >= 0 *)

Definition PREC : Z := 220.

Definition dy_zero : dy := mkDy 0 0.
Definition dy_of_Z (z : Z) : dy := mkDy z 0.

Definition norm (up : bool) (d : dy) : dy :=
  if dm d <=? 0 then dy_zero else
  let b := Z.log2 (dm d) in
  if b <=? PREC then d else
  let s := b - PREC in
  let q := Z.shiftr (dm d) s in
  mkDy (if up then (if Z.eqb (Z.shiftl q s) (dm d) then q else q + 1) else q) (de d + s).

Definition dy_mul (up : bool) (a b : dy) : dy := norm up (mkDy (dm a * dm b) (de a + de b)).

(* a / i for a positive integer i *)
Definition dy_divZ (up : bool) (a : dy) (i : Z) : dy :=
  let n := dm a * 2 ^ 80 in
  let q := n / i in
  norm up (mkDy (if up then (if Z.eqb (q * i) n then q else q + 1) else q) (de a - 80)).

(* a + b: the operand with the smaller exponent is shifted onto the other's grid *)
Definition shift_to (up : bool) (a : dy) (e : Z) : Z :=
  (* dm a * 2^(de a - e), rounded; e >= de a - small or anything *)
  if e <=? de a then dm a * 2 ^ (de a - e)
  else let s := e - de a in
       let q := Z.shiftr (dm a) s in
       if up then (if Z.eqb (Z.shiftl q s) (dm a) then q else q + 1) else q.

Definition dy_add (up : bool) (a b : dy) : dy :=
  if dm a =? 0 then b else if dm b =? 0 then a else
  (* grid: keep PREC+8 bits below the top of the larger operand *)
  let ta := Z.log2 (dm a) + de a in
  let tb := Z.log2 (dm b) + de b in
  let e := Z.max (Z.min (de a) (de b)) (Z.max ta tb - PREC - 8) in
  norm up (mkDy (shift_to up a e + shift_to up b e) e).

(* a - b assuming a >= b; round-down uses lower a / upper b is the caller's business *)
Definition dy_sub (up : bool) (a b : dy) : dy :=
  if dm b =? 0 then a else if dm a =? 0 then dy_zero else
  let ta := Z.log2 (dm a) + de a in
  let e := Z.max (Z.min (de a) (de b)) (ta - PREC - 8) in
  let v := shift_to up a e - shift_to (negb up) b e in
  norm up (mkDy (Z.max 0 v) e).

(* exact comparison a < b *)
Definition dy_ltb (a b : dy) : bool :=
  if dm b <=? 0 then false else if dm a <=? 0 then true else
  let ta := Z.log2 (dm a) + de a in
  let tb := Z.log2 (dm b) + de b in
  if ta + 1 <? tb then true else if tb + 1 <? ta then false else
  let e := Z.min (de a) (de b) in
  dm a * 2 ^ (de a - e) <? dm b * 2 ^ (de b - e).
Definition dy_leb (a b : dy) : bool := negb (dy_ltb b a).

(* a finite non-negative double given as exact num / 2^k (from NumFloat.f_exact) *)
Definition dy_of_frac (n d : Z) : dy := if d =? 1 then mkDy n 0 else mkDy n (- Z.log2 d).

(* intervals *)
Record iv := mkIv { lo : dy; hi : dy }.
Definition iv_pt (d : dy) : iv := mkIv d d.
Definition iv_mul (a b : iv) : iv := mkIv (dy_mul false (lo a) (lo b)) (dy_mul true (hi a) (hi b)).
Definition iv_divZ (a : iv) (i : Z) : iv := mkIv (dy_divZ false (lo a) i) (dy_divZ true (hi a) i).
Definition iv_add (a b : iv) : iv := mkIv (dy_add false (lo a) (lo b)) (dy_add true (hi a) (hi b)).
(* a < b certainly / certainly not / undecided *)
Definition iv_lt (a b : iv) : option bool :=
  if dy_ltb (hi a) (lo b) then Some true else if dy_leb (hi b) (lo a) then Some false else None.
