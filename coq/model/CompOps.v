(* The public mutation / arithmetic API of the composition types as a register machine:
   a history is a list of (target register, operation); binary operators take their right-hand
   operand from another register.  One transcription per operator form of props.rs.
   `fam` records which concrete type a register file is made of (the four are meant to be
   observationally identical: C06).  No proofs in this file. *)
From Coq Require Import List ZArith NArith Bool Arith String.
From CE Require Import Num Str TableTypes TableModel Comp ESpec.
Import ListNotations.

Inductive fam := FVecDirect | FMapDirect | FEnumVec | FEnumMap.

Inductive cop :=
| OSet (k : key) (n : Z)            (* c.set(k, n) *)
| OInc (k : key) (n : Z)            (* c.inc(k, n) *)
| OIdxSet (k : key) (n : Z)         (* c[&k] = n *)
| OIdxAdd (k : key) (n : Z)         (* c[&k] += n *)
| OIdxStrSet (s : str) (n : Z)      (* c[s] = n   (parses s; panics if it does not parse) *)
| OIncStr (s : str) (n : Z)         (* inc_str(s, n) / *index_mut(s) += n *)
| OGetStrMutSet (s : str) (n : Z)   (* map form only: if let Some(x) = get_str_mut(s) { *x = n } *)
| OAddRef (q : nat) | OAddVal (q : nat) | OAddAssign (q : nat) | OAddAssignMut (q : nat)
| OSubRef (q : nat) | OSubVal (q : nat) | OSubAssign (q : nat) | OSubAssignMut (q : nat)
| OMulRef (n : Z) | OMulVal (n : Z) | OMulAssign (n : Z) | OMulAssignMut (n : Z)
| ONeg | ONegRef
| OIterMut (a b : Z)                (* for (_, v) in c.iter_mut() { *v = *v * a + b } *)
| OClone (q : nat)                  (* r = q.clone() *)
| OIntoMap | OIntoVec               (* enum: into_map()/into_vec(); direct types: round trip through From *)
| OFromPairs (l : ents)             (* r = l.into_iter().collect() *)
| OFmass                            (* r.fmass() *)
| ONop.

Section Ops.
  Context {F : Type} (N : Num F).
  Variable tbl : list (string * elem).
  Variable uni_alphabetic : char -> bool.
  (* iteration order of the map form after a possible rehash; any permutation (identity when executed) *)
  Variable shuffle : ents -> ents.

  Notation comp := (comp F).

  Definition is_map (f : fam) : bool := match f with FMapDirect | FEnumMap => true | _ => false end.
  Definition sh (f : fam) (l : ents) : ents := if is_map f then shuffle l else l.

  Definition c_mass (c : comp) : option F :=
    match c_cache c with Some v => Some v | None => calc_mass N tbl (c_ents c) end.
  Definition c_fmass (c : comp) : comp * option F :=
    match c_cache c with
    | Some v => (c, Some v)
    | None => match calc_mass N tbl (c_ents c) with
              | Some v => (mkComp (c_ents c) (Some v), Some v)
              | None => (c, None)
              end
    end.

  Definition dirty (f : fam) (l : ents) : comp := mkComp (sh f l) None.

  (* `a op &b` in its four forms: every form ends with the same entries; the cache is the clone's
     (kept only when b is empty, because every inc clears it) *)
  Definition bin (f : fam) (g : ents -> ents -> ents) (a b : comp) : comp :=
    match c_ents b with
    | [] => a
    | _ => dirty f (g (c_ents a) (c_ents b))
    end.

  Inductive outcome := Done | Panicked.

  (* one operation on the register `a` (the right operand `b` is a copy of register q) *)
  Definition apply (f : fam) (o : cop) (a b : comp) : comp * outcome :=
    match o with
    | OSet k n => (dirty f (e_set k n (c_ents a)), Done)
    | OInc k n => (dirty f (e_inc k n (c_ents a)), Done)
    | OIdxSet k n => (dirty f (e_set k n (c_ents a)), Done)
    | OIdxAdd k n => (dirty f (e_inc k n (c_ents a)), Done)
    | OIdxStrSet s n =>
        match espec_parse tbl s with
        | EOk k => (dirty f (e_set k n (c_ents a)), Done)
        | _ => (mkComp (c_ents a) None, Panicked)       (* the cache is cleared before the unwrap *)
        end
    | OIncStr s n =>
        match f with
        | FVecDirect | FEnumVec =>
            match espec_parse tbl s with
            | EOk k => (dirty f (e_inc k n (c_ents a)), Done)
            | _ => (mkComp (c_ents a) None, Panicked)
            end
        | _ =>
            (* get_str_mut through the isotope-free key, else parse and inc *)
            match plain_key tbl s with
            | Some k => if e_mem k (c_ents a) then (dirty f (e_inc k n (c_ents a)), Done)
                        else match espec_parse tbl s with
                             | EOk k' => (dirty f (e_inc k' n (c_ents a)), Done)
                             | _ => (mkComp (c_ents a) None, Panicked)
                             end
            | None => match espec_parse tbl s with
                      | EOk k' => (dirty f (e_inc k' n (c_ents a)), Done)
                      | _ => (mkComp (c_ents a) None, Panicked)
                      end
            end
        end
    | OGetStrMutSet s n =>
        match f with
        | FMapDirect =>
            match plain_key tbl s with
            | Some k => if e_mem k (c_ents a) then (mkComp (e_set k n (c_ents a)) None, Done)
                        else (mkComp (c_ents a) None, Done)
            | None => (mkComp (c_ents a) None, Done)
            end
        | _ => (a, Done)
        end
    | OAddRef _ | OAddVal _ | OAddAssign _ | OAddAssignMut _ => (bin f e_add a b, Done)
    | OSubRef _ | OSubVal _ | OSubAssign _ | OSubAssignMut _ => (bin f e_sub a b, Done)
    | OMulRef n | OMulVal n | OMulAssign n | OMulAssignMut n => (mkComp (e_mul (c_ents a) n) None, Done)
    | ONeg | ONegRef => (mkComp (e_neg (c_ents a)) None, Done)
    | OIterMut x y => (mkComp (map (fun kv => (fst kv, (snd kv * x + y)%Z)) (c_ents a)) None, Done)
    | OClone _ => (b, Done)
    | OIntoMap =>
        match f with
        | FEnumMap => (a, Done)                       (* already a map: returned as is *)
        | FEnumVec => (dirty FEnumMap (e_copy (c_ents a)), Done)
        | _ => (dirty f (e_copy (e_copy (c_ents a))), Done)   (* direct types: there and back *)
        end
    | OIntoVec =>
        match f with
        | FEnumVec => (a, Done)
        | FEnumMap => (mkComp (e_copy (c_ents a)) None, Done)
        | _ => (dirty f (e_copy (e_copy (c_ents a))), Done)
        end
    | OFromPairs l => (dirty f (e_collect l), Done)
    | OFmass => (fst (c_fmass a), Done)
    | ONop => (a, Done)
    end.

  Definition operand (o : cop) : option nat :=
    match o with
    | OAddRef q | OAddVal q | OAddAssign q | OAddAssignMut q
    | OSubRef q | OSubVal q | OSubAssign q | OSubAssignMut q | OClone q => Some q
    | _ => None
    end.

  Definition empty_comp : comp := mkComp [] None.

  Fixpoint set_nth {A} (n : nat) (x : A) (l : list A) : list A :=
    match n, l with
    | _, [] => []
    | O, _ :: r => x :: r
    | S n', y :: r => y :: set_nth n' x r
    end.

  (* the enum families change representation with into_map / into_vec; the register keeps its own tag *)
  Record reg := mkReg { r_fam : fam; r_comp : comp }.

  Definition fam_after (f : fam) (o : cop) : fam :=
    match o, f with
    | OIntoMap, FEnumVec => FEnumMap
    | OIntoVec, FEnumMap => FEnumVec
    | _, _ => f
    end.

  Definition step (regs : list reg) (ro : nat * cop) : list reg * outcome :=
    let '(r, o) := ro in
    let a := nth r regs (mkReg FVecDirect empty_comp) in
    let b := match operand o with Some q => r_comp (nth q regs (mkReg FVecDirect empty_comp)) | None => empty_comp end in
    let b := match o, operand o with
             | OClone _, Some q => b
             | _, _ => b end in
    let '(c, out) := apply (r_fam a) o (r_comp a) b in
    (* a clone of an enum register carries the source's representation *)
    let f' := match o, operand o with
              | OClone _, Some q => r_fam (nth q regs (mkReg FVecDirect empty_comp))
              | _, _ => fam_after (r_fam a) o end in
    (set_nth r (mkReg f' c) regs, out).

  Definition init_regs (f : fam) (n : nat) : list reg := repeat (mkReg f empty_comp) n.
End Ops.
