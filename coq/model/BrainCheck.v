(* Correspondence and specification checks for C03 / C08 / C09 / C10 (coarse patterns). *)
From Coq Require Import List ZArith NArith QArith Bool Arith String Floats.
From CE Require Import Num NumFloat NumFloat64 QFloat FInterval Str TableTypes TableModel Comp Mz Peak Poisson Brain Table.
Import ListNotations.

Definition TB := build_table table_src.

(* ---- the exact aggregated isotope distribution, in rigorous binary64 enclosures ---- *)
(* true element polynomial: coefficient of x^d is the abundance of the isotope with d neutrons in excess of the
   lightest one (0 where the ladder has a gap), divided by the lightest isotope's abundance; same with mass weights *)
Definition by_excess (e : elem) (f : iso -> Z) : list Z :=
  map (fun d => match find (fun p => (TableModel.shift (snd p) =? min_shift e + Z.of_nat d)%Z) (isos e) with
                | Some p => f (snd p) | None => 0%Z end)
      (seq 0 (Z.to_nat (max_shift e - min_shift e + 1))).
Definition ab_poly (e : elem) : ipoly :=
  let l := by_excess e TableModel.ab in
  match l with a0 :: _ => map (fun a => fi_div (fi_of_Z a) (fi_of_Z a0)) l | [] => [] end.
(* mass-weighted: (m_d * a_d) / a_0, masses in u *)
Definition mass_poly (e : elem) : ipoly :=
  let la := by_excess e TableModel.ab in
  let lm := by_excess e TableModel.mass in
  match la with
  | a0 :: _ => map (fun am => fi_div (fi_mul (fi_of_Z (fst am)) (fi_micro (snd am))) (fi_of_Z a0)) (combine la lm)
  | [] => []
  end.

Definition prod_except (d : nat) (qs : list ipoly) (skip : nat) : ipoly :=
  fold_left (fun acc iq => if Nat.eqb (fst iq) skip then acc else ip_mul d acc (snd iq))
            (combine (seq 0 (List.length qs)) qs) [fi_one].

(* (G, H) truncated at degree d: G = prod P_e^n_e ; H = sum_e n_e * M_e * P_e^(n_e-1) * prod_(e' <> e) P_e'^n_e' *)
Definition spec_polys (c : bcomp) (d : nat) : ipoly * ipoly :=
  let c := filter (fun en => (0 <? snd en)%Z) c in
  let qs := map (fun en => ip_pow d (ab_poly (fst en)) (snd en)) c in
  let g := fold_left (ip_mul d) qs [fi_one] in
  let h := fold_left (fun acc ien =>
              let '(i, en) := ien in
              let r := ip_scale (fi_of_Z (snd en)) (ip_mul d (mass_poly (fst en)) (ip_pow d (ab_poly (fst en)) (snd en - 1))) in
              ip_add acc (ip_mul d r (prod_except d qs i)))
            (combine (seq 0 (List.length c)) c) [] in
  (g, h).

(* exact mass bounds: lightest and heaviest isotopologue *)
Open Scope Q_scope.
Definition qmicro (z : Z) : Q := inject_Z z / 1000000.
Definition iso_masses (e : elem) : list Z := map (fun p => TableModel.mass (snd p)) (isos e).
Definition zmin (l : list Z) : Z := match l with [] => 0%Z | x :: r => fold_left Z.min r x end.
Definition zmax (l : list Z) : Z := match l with [] => 0%Z | x :: r => fold_left Z.max r x end.
Definition lightest (c : bcomp) : Q := qsum (map (fun en => inject_Z (snd en) * qmicro (zmin (iso_masses (fst en)))) c).
Definition heaviest (c : bcomp) : Q := qsum (map (fun en => inject_Z (snd en) * qmicro (zmax (iso_masses (fst en)))) c).

(* ---- cases ---- *)
Inductive req := RI32 (n : Z) | RUsize (n : Z) | ROpt (o : option Z) | RF32 (f : float).
Definition spec_of_req (r : req) : spec (F:=float) :=
  match r with
  | RI32 n => spec_of_i32 n
  | RUsize n => if (n =? 0)%Z then Guess else FixedCount n
  | ROpt None => Guess
  | ROpt (Some n) => spec_of_i32 n
  | RF32 f => PercentSignal f
  end.

Definition fpeaks := list (float * float).
Record bcase := mkBC {
  bc_id : N;
  bc_ents : list (string * N * Z);      (* entries in iteration order: symbol, isotope, count *)
  bc_req : req; bc_charge : Z; bc_carrier : float;
  bc_base : float;                       (* dist.monoisotopic_peak.intensity = exp(sum ln a): libm, passed in *)
  bc_mass : float;                       (* composition.mass() *)
  bc_out : option fpeaks }.

Definition to_bcomp (l : list (string * N * Z)) : option bcomp :=
  all_some (map (fun t => match tbl_get (fst (fst t)) TB with Some e => Some (e, snd t) | None => None end) l).

Definition model_mass (l : list (string * N * Z)) : option float :=
  calc_mass NumF TB (map (fun t => ((codes (fst (fst t)), snd (fst t)), snd t)) l).

Definition model_order (c : bcase) : Z := num_peaks NumF (spec_of_req (bc_req c)) (bc_mass c).

Definition model_out (c : bcase) : option fpeaks :=
  match to_bcomp (bc_ents c) with
  | None => None
  | Some b => brain NumF b (model_order c) (bc_base c) (bc_charge c) (bc_carrier c)
  end.

Definition f_tol12 (a b : float) : bool := f_same a b || f_close_rel a b 1 1000000000000.
Fixpoint peaks_agree (cmp : float -> float -> bool) (a b : fpeaks) : bool :=
  match a, b with
  | [], [] => true
  | x :: r, y :: s => cmp (fst x) (fst y) && cmp (snd x) (snd y) && peaks_agree cmp r s
  | _, _ => false
  end.
Definition out_agree (cmp : float -> float -> bool) (a b : option fpeaks) : bool :=
  match a, b with Some x, Some y => peaks_agree cmp x y | None, None => true | _, _ => false end.

Definition b_tie (cmp : float -> float -> bool) (c : bcase) : bool :=
  out_agree cmp (model_out c) (bc_out c)
  && match model_mass (bc_ents c) with Some m => f_tol12 m (bc_mass c) | None => false end.

(* ---- the specification on the implementation's output ---- *)
Definition neutral_q (mz : float) (z : Z) (carrier : float) : Q :=
  if (z =? 0)%Z then qf0 mz else qf0 mz * inject_Z (Z.abs z) - inject_Z z * qf0 carrier.

Definition fi_q_lo (a : fi) : Q := qf0 (flo a).
Definition fi_q_hi (a : fi) : Q := qf0 (fhi a).

(* per computed variant k <= order: enclosure of the mean mass and of the share of the range *)
Record vspec := mkVS { vs_mlo : Q; vs_mhi : Q; vs_slo : Q; vs_shi : Q; vs_ok : bool }.
Definition variant_specs (b : bcomp) (order : nat) : list vspec :=
  let '(g, h) := spec_polys b order in
  let tot := fold_left fi_add (firstn (S order) g) fi_zero in
  map (fun k =>
         let gk := ip_nth g k in let hk := ip_nth h k in
         if is0 (fhi gk) then mkVS 0 0 0 0 (fi_ok tot)      (* this neutron excess cannot be reached *)
         else
         let m := fi_div hk gk in let s := fi_div gk tot in
         mkVS (fi_q_lo m) (fi_q_hi m) (fi_q_lo s) (fi_q_hi s)
              (fi_ok gk && fi_ok hk && fi_ok tot && fi_ok m && fi_ok s && negb (is0 (flo gk)) && negb (is0 (flo tot))))
      (seq 0 (S order)).

Definition mtol : Q := 1 # 1000000.
Definition itol : Q := 1 # 1000000000.

(* match the returned peaks, in order, to strictly increasing variant indices; returns the matched indices *)
Fixpoint match_peaks (vs : list (nat * vspec)) (ps : list (Q * Q)) (min_int : Q) : option (list nat) :=
  match ps with
  | [] => Some []
  | (m, i) :: rest =>
      if qltb i min_int then
        (* below the significance bound: it only has to sit at some not-yet-used variant or be ignorable *)
        match_peaks vs rest min_int
      else
      (fix find (l : list (nat * vspec)) : option (list nat) :=
         match l with
         | [] => None
         | (k, v) :: l' =>
             if vs_ok v && qleb (vs_mlo v - mtol) m && qleb m (vs_mhi v + mtol)
             then (if qleb (vs_slo v - itol) i && qleb i (vs_shi v + itol)
                   then match match_peaks l' rest min_int with Some t => Some (k :: t) | None => None end
                   else None)
             else find l'
         end) vs
  end.

Definition all_ok (vs : list vspec) : bool := forallb vs_ok vs.

(* result codes: 0 holds, 1 fails, 2 the enclosures could not decide (overflow / too wide) *)
Definition resolved_order (c : bcase) (b : bcomp) : nat := Z.to_nat (resolve_order (model_order c) (max_variants b)).

Definition natural (c : bcase) : bool := forallb (fun t => (snd (fst t) =? 0)%N && (0 <=? snd t)%Z) (bc_ents c).

Definition c03_code (c : bcase) : nat :=
  match to_bcomp (bc_ents c), bc_out c with
  | Some b, Some out =>
      if negb (natural c) then 0%nat else
      let order := resolved_order c b in
      let vs := variant_specs b order in
      if negb (all_ok vs) then 2%nat else
      let ps := map (fun p => (neutral_q (fst p) (bc_charge c) (bc_carrier c), qf0 (snd p))) out in
      match match_peaks (combine (seq 0 (S order)) vs) ps itol with
      | Some _ => 0%nat
      | None => 1%nat
      end
  | _, _ => 1%nat
  end.

(* single atom: exactly one peak per tabulated isotope *)
Definition c03_single_code (c : bcase) : nat :=
  match to_bcomp (bc_ents c), bc_out c with
  | Some [(e, 1%Z)], Some out =>
      if Nat.eqb (List.length out) (List.length (isos e)) then c03_code c else 1%nat
  | _, _ => 0%nat
  end.

(* C09: shape and request resolution *)
Definition strictly_increasing (l : list Q) : bool :=
  (fix go (l : list Q) : bool := match l with a :: ((b :: _) as r) => qltb a b && go r | _ => true end) l.

Definition c09_code (c : bcase) : nat :=
  match to_bcomp (bc_ents c), bc_out c with
  | Some b, Some out =>
      if negb (natural c) then 0%nat else
      if forallb (fun en => (snd en =? 0)%Z) b then 0%nat else    (* empty composition: out of the property's scope *)
      let order := resolved_order c b in
      let vs := variant_specs b order in
      let ps := map (fun p => (neutral_q (fst p) (bc_charge c) (bc_carrier c), qf0 (snd p))) out in
      let mzs := map (fun p => qf0 (fst p)) out in
      let shape :=
        negb (Nat.eqb (List.length out) 0)
        && forallb (fun p => f_is_finite (fst p) && f_is_finite (snd p) && PrimFloat.leb 0 (snd p)) out
        && (if (0 <=? bc_charge c)%Z || true then strictly_increasing mzs else true)
        && forallb (fun p => qleb (lightest b - mtol) (fst p) && qleb (fst p) (heaviest b + mtol)) ps
        && Nat.leb (List.length out) (S order) in
      if negb shape then 1%nat else
      if negb (all_ok vs) then 2%nat else
      match match_peaks (combine (seq 0 (S order)) vs) ps 0 with
      | None => 1%nat
      | Some ks =>
          (* every variant of the range whose exact share is at least 2e-10 is present; the returned intensities
             sum to 1 less the share of the omitted ones *)
          let omitted := filter (fun kv => negb (existsb (Nat.eqb (fst kv)) ks)) (combine (seq 0 (S order)) vs) in
          if forallb (fun kv => qltb (vs_slo (snd kv)) (2 # 10000000000)) omitted
             && q_close_abs (qsum (map snd ps) + qsum (map (fun kv => vs_slo (snd kv)) omitted)) 1 (1 # 100000000)
          then 0%nat else 1%nat
      end
  | _, _ => 1%nat
  end.

Definition b_nontrivial (c : bcase) : bool :=
  match bc_out c with Some o => Nat.ltb 1 (List.length o) | None => false end.

Fixpoint bids_where (f : bcase -> bool) (l : list bcase) : list N :=
  match l with [] => [] | c :: r => ((if f c then [bc_id c] else []) ++ bids_where f r)%list end.

(* ---- C08: call histories on one generator ---- *)
From CE Require Import BrainSpec.
Definition dummy_case : bcase := mkBC 0 [] (RI32 1) 0 0%float 1%float 0%float None.
Definition req_of_case (c : bcase) : option (request (F:=float)) :=
  match to_bcomp (bc_ents c) with
  | Some b => Some (mkReq b (model_order c) (bc_base c) (bc_charge c) (bc_carrier c))
  | None => None
  end.
Fixpoint run_model_hist (pool : list bcase) (ch : cache (F:=float)) (h : list nat) : list (option fpeaks) :=
  match h with
  | [] => []
  | i :: r => match req_of_case (nth i pool dummy_case) with
              | Some q => let '(o, ch') := gen_call NumF ch q in o :: run_model_hist pool ch' r
              | None => None :: run_model_hist pool ch r
              end
  end.
Fixpoint all2o (f : option fpeaks -> option fpeaks -> bool) (a b : list (option fpeaks)) : bool :=
  match a, b with [], [] => true | x :: r, y :: s => f x y && all2o f r s | _, _ => false end.

Record ghist := mkGH { gh_id : N; gh_h : list nat; gh_outs : list (option fpeaks) }.
(* the model's generator reproduces the implementation's generator along the history *)
Definition gh_tie (cmp : float -> float -> bool) (pool : list bcase) (g : ghist) : bool :=
  all2o (out_agree cmp) (run_model_hist pool [] (gh_h g)) (gh_outs g).
(* the property: every call returns what the stateless function returns for that request (same length, 1e-12) *)
Definition gh_pure (cmp : float -> float -> bool) (pool : list bcase) (g : ghist) : bool :=
  all2o (out_agree cmp) (map (fun i => bc_out (nth i pool dummy_case)) (gh_h g)) (gh_outs g).
Fixpoint ghids_where (f : ghist -> bool) (l : list ghist) : list N :=
  match l with [] => [] | c :: r => ((if f c then [gh_id c] else []) ++ ghids_where f r)%list end.
