(* Rounded arithmetic: what a [Num] instance computes, related to exact arithmetic in an ordered field.

   The "standard model" of floating point: each operation returns the exact result times (1 + d) with
   |d| <= u, provided the result neither overflows nor (for products and quotients) falls into the
   subnormal range.  [StdModel] states it for an arbitrary [Num F] read through a valuation [v : F -> K]
   into a [Num K] that satisfies [OField]; proofs/FloatStd.v shows that Coq's primitive binary64 floats
   (the instance [NumF] that the correspondence runs execute) satisfy it with K = R, v = B2R o Prim2B and
   u = 2^-53.  No proofs here. *)
From Coq Require Import ZArith List Bool.
From CE Require Import Num OField Peak.
Import ListNotations.

Section Rounded.
  Context {F K : Type} (N : Num F) (NK : Num K) (v : F -> K) (u : K).
  (* fin x: x is a finite number;  nrm x: x is finite and of normal magnitude (strictly above the smallest normal) *)
  Context (fin nrm : F -> bool).

  (* got = exact * (1 + d) for some |d| <= u *)
  Definition within (exact got : K) : Prop :=
    exists d, fle NK (opp NK u) d /\ fle NK d u /\ got = mul NK exact (add NK (one NK) d).

  Record StdModel : Prop := mkStd {
    sm_u_nonneg : fle NK (zero NK) u;
    sm_u_small : flt NK u (one NK);
    sm_sum0 : v (sum0 N) = zero NK;
    sm_zero : v (zero N) = zero NK;
    sm_one : v (one N) = one NK;
    sm_fin_sum0 : fin (sum0 N) = true;
    sm_fin_one : fin (one N) = true;
    sm_nrm_fin : forall a, nrm a = true -> fin a = true;
    sm_add : forall a b, fin a = true -> fin b = true -> fin (add N a b) = true ->
             within (add NK (v a) (v b)) (v (add N a b));
    sm_mul : forall a b, fin a = true -> fin b = true -> nrm (mul N a b) = true ->
             within (mul NK (v a) (v b)) (v (mul N a b));
    sm_div : forall a b, fin a = true -> fin b = true -> v b <> zero NK -> nrm (div N a b) = true ->
             within (div NK (v a) (v b)) (v (div N a b)) }.

  (* x^n in K *)
  Fixpoint kpow (x : K) (n : nat) : K := match n with O => one NK | S m => mul NK x (kpow x m) end.
  (* exact sum in K *)
  Definition ksum (l : list K) : K := fold_right (add NK) (zero NK) l.

  (* the running sums Iterator::sum goes through *)
  Fixpoint partials (l : list F) (acc : F) : list F :=
    match l with [] => [] | x :: r => let a := add N acc x in a :: partials r a end.

  (* normalize meets no overflow and no underflow on this pattern: every intensity and every running sum is finite,
     the reciprocal of the total and every product with it are normal (or zero) *)
  Definition normalize_safe (p : tip (F:=F)) : bool :=
    let xs := map inten (peaks p) in
    let r := div N (one N) (total N p) in
    forallb fin xs && forallb fin (partials xs (sum0 N)) && nrm r && forallb (fun x => nrm (mul N x r)) xs.

  Definition positive (p : tip (F:=F)) : Prop :=
    forall q, In q (peaks p) -> flt NK (zero NK) (v (inten q)).

  (* the exact sum of the intensities of a pattern *)
  Definition exact_total (p : tip (F:=F)) : K := ksum (map (fun q => v (inten q)) (peaks p)).
End Rounded.
