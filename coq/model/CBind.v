(* bindings/c/src/lib.rs: the C-ABI functions over a table of heap handles.  A handle is the index of the
   allocation that produced it; freed handles become None.  Every function is the corresponding Rust
   operation on the enum composition (Vec variant), error codes are discriminant + 1.  No proofs here. *)
From Coq Require Import List ZArith NArith Bool Arith String.
From CE Require Import Num Str TableTypes TableModel Comp ESpec Formula.
Import ListNotations.

Inductive ccall :=
| CNew | CParse (text : str) | CCopy (h : nat) | CGet (h : nat) (text : str)
| CSet (h : nat) (text : str) (n : Z) | CInc (h : nat) (text : str) (n : Z)
| CAdd (h g : nat) | CSub (h g : nat) | CScale (h : nat) (n : Z) | CMass (h : nat) | CFree (h : nat).

Inductive cresult :=
| RAlloc (code : Z) (is_null : bool)          (* new / parse_formula / copy: return code and whether *out is null *)
| RCode (code : Z)                            (* set / increment / add / subtract / scale / free *)
| RValue (v : Z)                              (* get *)
| RMass                                       (* mass: the value is in the snapshot *)
| RContract                                   (* the call names a handle that is not live: outside the contract *)
| RAbort.                                     (* a panic would cross the C ABI: the process aborts *)

Section CBind.
  Context {F : Type} (N : Num F).
  Variable tbl : list (string * elem).
  Variable uni_numeric uni_alphabetic : char -> bool.

  Definition handles := list (option ents).
  Definition live (hs : handles) (h : nat) : option ents := match nth_error hs h with Some (Some l) => Some l | _ => None end.
  Fixpoint set_h (hs : handles) (h : nat) (v : option ents) : handles :=
    match hs, h with
    | [], _ => []
    | _ :: r, O => v :: r
    | x :: r, S k => x :: set_h r k v
    end.

  Definition ferr_code (e : err) : Z :=
    match e with InvalidStart => 1 | ElementCountMalformed => 2 | IsotopeCountMalformed => 3
               | GroupCountMalformed => 4 | IncompleteFormula => 5 | InvalidElement => 6 end%Z.
  Definition eerr_code (e : espec_err) : Z := match e with UnclosedIsotope => 1 | UnknownElement => 2 end%Z.

  Definition cstep (hs : handles) (c : ccall) : handles * cresult :=
    match c with
    | CNew => (hs ++ [Some []], RAlloc 0 false)
    | CParse t =>
        match parse_formula uni_numeric (has_elem tbl) (has_iso tbl) t with
        | FOk l => (hs ++ [Some l], RAlloc 0 false)
        | FErr e => (hs, RAlloc (ferr_code e) true)
        | FPanic => (hs, RAbort)
        end
    | CCopy h => match live hs h with Some l => (hs ++ [Some l], RAlloc 0 false) | None => (hs, RContract) end
    | CGet h t => match live hs h with Some l => (hs, RValue (v_index_str tbl uni_alphabetic t l)) | None => (hs, RContract) end
    | CSet h t n =>
        match live hs h with
        | None => (hs, RContract)
        | Some l => match espec_parse tbl t with
                    | EOk k => (set_h hs h (Some (e_set k n l)), RCode 0)
                    | EErr e => (hs, RCode (eerr_code e))
                    | EPanic => (hs, RAbort)
                    end
        end
    | CInc h t n =>
        match live hs h with
        | None => (hs, RContract)
        | Some l => match espec_parse tbl t with
                    | EOk k => (set_h hs h (Some (e_inc k n l)), RCode 0)
                    | EErr e => (hs, RCode (eerr_code e))
                    | EPanic => (hs, RAbort)
                    end
        end
    | CAdd h g => match live hs h, live hs g with
                  | Some a, Some b => (set_h hs h (Some (e_add a b)), RCode 0) | _, _ => (hs, RContract) end
    | CSub h g => match live hs h, live hs g with
                  | Some a, Some b => (set_h hs h (Some (e_sub a b)), RCode 0) | _, _ => (hs, RContract) end
    | CScale h n => match live hs h with Some a => (set_h hs h (Some (e_mul a n)), RCode 0) | None => (hs, RContract) end
    | CMass h => match live hs h with Some _ => (hs, RMass) | None => (hs, RContract) end
    | CFree h => match live hs h with Some _ => (set_h hs h None, RCode 0) | None => (hs, RContract) end
    end.

  Definition crun (cs : list ccall) : handles := fold_left (fun hs c => fst (cstep hs c)) cs [].
  Definition live_count (hs : handles) : nat := List.length (filter (fun o => match o with Some _ => true | None => false end) hs).
End CBind.

(* counting successful allocations and frees along a call sequence (for the accounting theorem) *)
Section Counting.
  Variable tbl : list (string * elem).
  Variable uni_numeric uni_alphabetic : char -> bool.
  Definition is_alloc_ok (r : cresult) : bool := match r with RAlloc 0%Z false => true | _ => false end.
  Definition count_run (f : ccall -> cresult -> bool) (cs : list ccall) : nat :=
    snd (fold_left (fun st c => let '(hs, n) := st in
                                let '(hs', r) := cstep tbl uni_numeric uni_alphabetic hs c in
                                (hs', if f c r then S n else n)) cs ([], 0%nat)).
  Definition allocs (cs : list ccall) : nat := count_run (fun _ r => is_alloc_ok r) cs.
  Definition frees (cs : list ccall) : nat :=
    count_run (fun c r => match c, r with CFree _, RCode 0%Z => true | _, _ => false end) cs.
End Counting.

(* does the call name handle h *)
Definition uses (c : ccall) (h : nat) : bool :=
  match c with
  | CCopy x | CGet x _ | CSet x _ _ | CInc x _ _ | CScale x _ | CMass x | CFree x => Nat.eqb x h
  | CAdd x y | CSub x y => Nat.eqb x h || Nat.eqb y h
  | CNew | CParse _ => false
  end.
