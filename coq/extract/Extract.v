(* Extraction of the two string evaluators, for volume only: the same `verdict`s the generated case files evaluate
   with vm_compute, as OCaml.  ExtrOcamlBasic only (bool, option, unit, list, prod, sumbool, sumor -> OCaml's own;
   andb/orb inlined); N, Z, positive, nat, ascii, string stay the extracted inductive types.  No theorem depends on
   this file; checks/c05.py and checks/c16.py cross-check the extracted evaluators against vm_compute on every short
   string on every run. *)
From Coq Require Import Extraction ExtrOcamlBasic.
From Coq Require Import List ZArith NArith Bool.
From CE Require Import Str Comp Formula FormulaSpec FormulaCheck ESpec ESpecCheck.

(* C05: correspondence, specification, error-kind agreement of the outcomes of one string *)
Definition verdict (s : str) (outs : list fout) : bool * (bool * bool) :=
  (forallb (fout_agree (FormulaCheck.model_parse s)) outs,
   (forallb (c05_holds_out s) outs, forallb (fout_same_kind (FormulaCheck.model_parse s)) outs)).

(* C16: correspondence and specification of the parse outcomes and the eight reads of one string *)
Definition everdict (comp : ents) (s : str) (parses : list eout) (reads : list Z) : bool * bool :=
  let c := mkEC 0 s parses reads in (e_tie comp c, e_holds comp c).

Extraction "extract/formula_model.ml" verdict everdict.
