(* Line driver for the extracted evaluators.
   formula mode (default): one case per line   <cp>,<cp>,...|<out>|<out>...
       <out> =  P  |  E<k>  |  O<sym cps '.'-separated>:<iso>:<count>;...
   espec mode (argv[1] = "espec"): first line  COMP <sym cps>:<iso>:<count>;...   then one case per line
       <cp>,<cp>,...|<eout>;<eout>...|<read>,<read>,...      <eout> =  P | E<k> | O<sym cps>:<iso>
   Prints the lines whose tie / holds verdict is false (prefixed TIE / HOLDS), then
   DONE <lines> <bad tie> <bad holds> <error-kind differences>. *)
open Formula_model

let rec pos_of_int n = if n = 1 then XH else if n land 1 = 1 then XI (pos_of_int (n lsr 1)) else XO (pos_of_int (n lsr 1))
let n_of_int n = if n = 0 then N0 else Npos (pos_of_int n)
let z_of_int n = if n = 0 then Z0 else if n > 0 then Zpos (pos_of_int n) else Zneg (pos_of_int (-n))
let rec nat_of_int n = if n = 0 then O else S (nat_of_int (n - 1))

let split c s = if s = "" then [] else String.split_on_char c s
let cps s = List.map (fun x -> n_of_int (int_of_string x)) (split '.' s)
let str_of s = List.map (fun x -> n_of_int (int_of_string x)) (split ',' s)
let tail s = String.sub s 1 (String.length s - 1)

let parse_out s =
  if s = "P" then RPanic
  else if s.[0] = 'E' then RErr (nat_of_int (int_of_string (tail s)))
  else
    ROk (List.map (fun t -> match String.split_on_char ':' t with
        | [sym; iso; cnt] -> ((cps sym, n_of_int (int_of_string iso)), z_of_int (int_of_string cnt))
        | _ -> failwith ("bad entry " ^ t)) (split ';' (tail s)))

let parse_eout s =
  if s = "P" then EP
  else if s.[0] = 'E' then EE (nat_of_int (int_of_string (tail s)))
  else match String.split_on_char ':' (tail s) with
    | [sym; iso] -> EO (cps sym, n_of_int (int_of_string iso))
    | _ -> failwith ("bad eout " ^ s)

let () =
  let espec = Array.length Sys.argv > 1 && Sys.argv.(1) = "espec" in
  let bad_tie = ref [] and bad_holds = ref [] and bad_kind = ref 0 and n = ref 0 in
  let comp = ref [] in
  (try
    while true do
      let line = input_line stdin in
      if espec && String.length line >= 5 && String.sub line 0 5 = "COMP " then
        comp := List.map (fun t -> match String.split_on_char ':' t with
            | [sym; iso; cnt] -> ((cps sym, n_of_int (int_of_string iso)), z_of_int (int_of_string cnt))
            | _ -> failwith ("bad comp entry " ^ t)) (split ';' (String.sub line 5 (String.length line - 5)))
      else begin
        (if espec then
           (match String.split_on_char '|' line with
            | [s; ps; rs] ->
                let (tie, holds) = everdict !comp (str_of s) (List.map parse_eout (split ';' ps))
                    (List.map (fun x -> z_of_int (int_of_string x)) (split ',' rs)) in
                if not tie then bad_tie := line :: !bad_tie;
                if not holds then bad_holds := line :: !bad_holds
            | _ -> failwith ("bad line " ^ line))
         else
           (match String.split_on_char '|' line with
            | s :: outs ->
                let (tie, (holds, kind)) = verdict (str_of s) (List.map parse_out outs) in
                if not tie then bad_tie := line :: !bad_tie;
                if not holds then bad_holds := line :: !bad_holds;
                if not kind then incr bad_kind
            | [] -> ()));
        incr n
      end
    done
  with End_of_file -> ());
  List.iter (fun i -> Printf.printf "TIE %s\n" i) (List.rev !bad_tie);
  List.iter (fun i -> Printf.printf "HOLDS %s\n" i) (List.rev !bad_holds);
  Printf.printf "DONE %d %d %d %d\n" !n (List.length !bad_tie) (List.length !bad_holds) !bad_kind
