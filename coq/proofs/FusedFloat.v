(* The binary64 reading of the fused operation's rounded bound (proofs/FusedRounded.v): real-number statement through
   v64 / u64, a closed sufficient condition for the hypothesis E < S, and a concrete pattern meeting every hypothesis. *)
From Coq Require Import List ZArith Bool Reals Floats Lra Lia.
From Flocq Require Import Core.Core IEEE754.BinarySingleNaN IEEE754.PrimFloat.
From CE Require Import Num OField Peak PeakSpec Rounded RoundedExt NumFloat NumFloat64 Float64Std RoundedProofs FloatStd
  FloatStdExt RenormRounded FusedRounded.
Import ListNotations.

Local Open Scope R_scope.

(* the real sum of the intensities of a list of binary64 peaks *)
Definition rsum64 (l : list (peak (F:=PrimFloat.float))) : R := fold_right Rplus 0 (map (fun q => v64 (inten q)) l).

Lemma xsum_RR : forall l, xsum NumRR v64 l = rsum64 l.
Proof. intros l. unfold xsum, rsum64. apply ksum_RR. Qed.

Lemma fused_safe_fin : forall {F} (N : Num F) (fin nrm : F -> bool) (p : tip (F:=F)) t1 t2,
  fused_safe N fin nrm p t1 t2 = true -> forall q, In q (fused_prefix N p t1) -> fin (inten q) = true.
Proof.
  intros F N fin nrm p t1 t2 H q Hq. unfold fused_safe in H. cbv zeta in H.
  apply andb_true_iff in H. destruct H as (H & _).
  apply andb_true_iff in H. destruct H as (H & _).
  apply andb_true_iff in H. destruct H as (H & _).
  apply andb_true_iff in H. destruct H as (_ & H).
  rewrite forallb_forall in H. apply H. now apply in_map.
Qed.

Lemma fused_good_binary64 : forall (p : tip (F:=PrimFloat.float)) t1 t2,
  peaks p <> [] ->
  (forall q, In q (fused_prefix NumF p t1) -> PrimFloat.ltb 0%float (inten q) = true) ->
  fused_safe NumF fin64 nrm64 p t1 t2 = true ->
  fused_good NumF NumRR v64 fin64 nrm64 p t1 t2.
Proof.
  intros p t1 t2 Hne Hpos Hs. split; [exact Hne|]. split; [|exact Hs].
  intros q Hq. apply flt_RR. simpl.
  apply ltb64_pos; [exact (fused_safe_fin _ _ _ _ _ _ Hs q Hq) | now apply Hpos].
Qed.

Lemma fused_binary64 : forall (p : tip (F:=PrimFloat.float)) t1 t2 sh,
  peaks p <> [] ->
  (forall q, In q (fused_prefix NumF p t1) -> PrimFloat.ltb 0%float (inten q) = true) ->
  fused_safe NumF fin64 nrm64 p t1 t2 = true ->
  let n := length (fused_prefix NumF p t1) in
  let m := length (fused_dropped NumF p t1 t2) in
  let P := rsum64 (fused_prefix NumF p t1) in
  let D := rsum64 (fused_dropped NumF p t1 t2) in
  let S := rsum64 (fused_kept NumF p t1 t2) in
  let E := ((1 + u64) ^ (n + m) - 1) * (P + D) in
  let T := v64 (fused_total NumF p t1 t2) in
  let s := rsum64 (peaks (fused NumF p t1 t2 sh)) in
  P = S + D
  /\ P * (1 - u64) ^ (n + m) - D * (1 + u64) ^ m <= T <= P * (1 + u64) ^ (n + m) - D * (1 - u64) ^ m
  /\ Rabs (T - S) <= E
  /\ (E < S -> S * (1 - u64) / (S + E) <= s <= S * (1 + u64) / (S - E)).
Proof.
  intros p t1 t2 sh Hne Hpos Hs n m P D S E T s.
  pose proof (fused_good_binary64 p t1 t2 Hne Hpos Hs) as G.
  pose proof (fused_total_rounded NumF NumRR v64 u64 fin64 nrm64 OField_RR binary64_std_model_ext p t1 t2 G)
    as (HP & _ & _ & Habs).
  pose proof (fused_total_interval NumF NumRR v64 u64 fin64 nrm64 OField_RR binary64_std_model_ext p t1 t2 G)
    as (I1 & I2).
  pose proof (fused_sum_rounded NumF NumRR v64 u64 fin64 nrm64 OField_RR binary64_std_model_ext p t1 t2 sh G) as Hsum.
  cbv zeta in HP, Habs, I1, I2, Hsum.
  unfold fused_err, fused_P, fused_D, fused_S in *. rewrite !xsum_RR in *. rewrite ?kpow_RR in *.
  apply fle_RR in Habs, I1, I2. simpl in HP, Habs, I1, I2.
  fold n m P D S in HP, Habs, I1, I2, Hsum. fold T in Habs, I1, I2.
  split; [exact HP|]. split; [split; [exact I1|exact I2]|]. split; [exact Habs|].
  intros HES. destruct Hsum as [H1 H2].
  - apply flt_RR. exact HES.
  - apply fle_RR in H1, H2. rewrite exact_total_RR in H1, H2. split; [exact H1|exact H2].
Qed.

(* ---------- a closed sufficient condition for E < S ---------- *)

Lemma pow_1pu_le : forall (u : R) (k : nat), 0 <= u -> 2 * INR k * u <= 1 -> (1 + u) ^ k <= 1 + 2 * INR k * u.
Proof.
  intros u k Hu. induction k as [|k IH]; intros H.
  - simpl. lra.
  - rewrite S_INR in *. assert (Hk : 0 <= INR k) by apply pos_INR.
    assert (H' : 2 * INR k * u <= 1) by nra.
    specialize (IH H'). simpl pow.
    apply (Rle_trans _ ((1 + u) * (1 + 2 * INR k * u))); [apply Rmult_le_compat_l; lra|]. nra.
Qed.

Lemma u64_tiny : u64 <= / 2 ^ 53.
Proof.
  assert (E : 2 ^ 53 = IZR (Z.pow_pos radix2 53)) by (rewrite pow_IZR; reflexivity).
  rewrite E. unfold u64, bpow. apply Rle_refl.
Qed.

(* at most 2^32 operations and at most half of the prefix dropped (2 D <= P): E < S *)
Lemma fused_err_small64 : forall (k : nat) (P D : R),
  (k <= 2 ^ 32)%nat -> 0 < P -> 0 <= D -> 2 * D <= P ->
  ((1 + u64) ^ k - 1) * (P + D) < P - D.
Proof.
  intros k P D Hk HP HD HDP.
  assert (Hu := u64_pos). assert (Hu' := u64_tiny).
  assert (HK : INR k <= 2 ^ 32).
  { apply le_INR in Hk. rewrite pow_INR in Hk. exact Hk. }
  assert (Hk0 : 0 <= INR k) by apply pos_INR.
  assert (E53 : (2 ^ 53 = 2 ^ 32 * 2 ^ 21)) by (rewrite <- pow_add; reflexivity).
  assert (H21 : 0 < 2 ^ 21) by (apply pow_lt; lra).
  assert (H32 : 0 < 2 ^ 32) by (apply pow_lt; lra).
  assert (Hku : INR k * u64 <= / 2 ^ 21).
  { apply (Rle_trans _ (2 ^ 32 * / 2 ^ 53)).
    - apply Rmult_le_compat; lra.
    - rewrite E53. apply Req_le. field; try split; lra. }
  assert (H21' : / 2 ^ 21 <= / 8).
  { apply Rinv_le_contravar; [lra|]. change 21%nat with (3 + 18)%nat. rewrite pow_add.
    assert (1 <= 2 ^ 18) by (apply pow_R1_Rle; lra). simpl pow at 1. nra. }
  assert (Hpw : (1 + u64) ^ k <= 1 + 2 * INR k * u64) by (apply pow_1pu_le; lra).
  assert (Hb : (1 + u64) ^ k - 1 <= / 4) by lra.
  assert (Hge : 0 <= (1 + u64) ^ k - 1).
  { assert (1 <= (1 + u64) ^ k) by (apply pow_R1_Rle; lra). lra. }
  apply (Rle_lt_trans _ (/ 4 * (P + D))); [apply Rmult_le_compat_r; lra|]. lra.
Qed.

(* ---------- a concrete ordinary pattern ---------- *)

(* six positive peaks summing to 1; t1 = 0.95 keeps the first five (running sum 0.96875), t2 = 0.05 puts the threshold at
   0.0484375 and drops the fifth (0.03125): n = 5, m = 1, kept 4 *)
Definition fused_demo : tip (F:=PrimFloat.float) :=
  mkTip [mkPeak 100%float 0.5%float; mkPeak 101%float 0.25%float; mkPeak 102%float 0.125%float;
         mkPeak 103%float 0.0625%float; mkPeak 104%float 0.03125%float; mkPeak 105%float 0.03125%float] 100%float.
(* the same six peaks with decimal (non-dyadic) intensities, t2 = 0.01: nothing dropped *)
Definition fused_demo10 : tip (F:=PrimFloat.float) :=
  mkTip [mkPeak 100%float 0.5%float; mkPeak 101%float 0.3%float; mkPeak 102%float 0.12%float;
         mkPeak 103%float 0.05%float; mkPeak 104%float 0.02%float; mkPeak 105%float 0.01%float] 100%float.

Lemma fused_demo_checks :
  fused_safe NumF fin64 nrm64 fused_demo 0.95%float 0.05%float = true
  /\ forallb (fun q => PrimFloat.ltb 0%float (inten q)) (fused_prefix NumF fused_demo 0.95%float) = true
  /\ length (fused_prefix NumF fused_demo 0.95%float) = 5%nat
  /\ map inten (fused_dropped NumF fused_demo 0.95%float 0.05%float) = [0.03125%float]
  /\ map inten (fused_kept NumF fused_demo 0.95%float 0.05%float) = [0.5%float; 0.25%float; 0.125%float; 0.0625%float]
  /\ fused_safe NumF fin64 nrm64 fused_demo10 0.95%float 0.01%float = true
  /\ forallb (fun q => PrimFloat.ltb 0%float (inten q)) (fused_prefix NumF fused_demo10 0.95%float) = true
  /\ length (fused_prefix NumF fused_demo10 0.95%float) = 4%nat
  /\ fused_dropped NumF fused_demo10 0.95%float 0.01%float = [].
Proof. vm_compute. repeat split. Qed.

Lemma v64_pow2 : v64 0.5%float = / 2 /\ v64 0.25%float = / 4 /\ v64 0.125%float = / 8
  /\ v64 0.0625%float = / 16 /\ v64 0.03125%float = / 32.
Proof.
  rewrite !v64_SF2R.
  change (Prim2SF 0.5%float) with (S754_finite false 4503599627370496 (-53)).
  change (Prim2SF 0.25%float) with (S754_finite false 4503599627370496 (-54)).
  change (Prim2SF 0.125%float) with (S754_finite false 4503599627370496 (-55)).
  change (Prim2SF 0.0625%float) with (S754_finite false 4503599627370496 (-56)).
  change (Prim2SF 0.03125%float) with (S754_finite false 4503599627370496 (-57)).
  unfold SF2R, F2R; simpl. repeat split; lra.
Qed.

(* the demo pattern meets EVERY hypothesis of the binary64 theorem, E < S included *)
Lemma fused_demo_good :
  let p := fused_demo in let t1 := 0.95%float in let t2 := 0.05%float in
  peaks p <> []
  /\ (forall q, In q (fused_prefix NumF p t1) -> PrimFloat.ltb 0%float (inten q) = true)
  /\ fused_safe NumF fin64 nrm64 p t1 t2 = true
  /\ let n := length (fused_prefix NumF p t1) in
     let m := length (fused_dropped NumF p t1 t2) in
     let P := rsum64 (fused_prefix NumF p t1) in
     let D := rsum64 (fused_dropped NumF p t1 t2) in
     let S := rsum64 (fused_kept NumF p t1 t2) in
     ((1 + u64) ^ (n + m) - 1) * (P + D) < S.
Proof.
  cbv zeta. destruct fused_demo_checks as (Hs & Hp & _). split; [discriminate|]. split; [|split; [exact Hs|]].
  - rewrite forallb_forall in Hp. exact Hp.
  - destruct v64_pow2 as (E1 & E2 & E3 & E4 & E5).
    change (fused_prefix NumF fused_demo 0.95%float)
      with [mkPeak 100%float 0.5%float; mkPeak 101%float 0.25%float; mkPeak 102%float 0.125%float;
            mkPeak 103%float 0.0625%float; mkPeak 104%float 0.03125%float].
    change (fused_dropped NumF fused_demo 0.95%float 0.05%float) with [mkPeak 104%float 0.03125%float].
    change (fused_kept NumF fused_demo 0.95%float 0.05%float)
      with [mkPeak 100%float 0.5%float; mkPeak 101%float 0.25%float; mkPeak 102%float 0.125%float;
            mkPeak 103%float 0.0625%float].
    unfold rsum64. cbn [map fold_right inten length]. rewrite E1, E2, E3, E4, E5.
    replace (/ 2 + (/ 4 + (/ 8 + (/ 16 + 0)))) with ((/ 2 + (/ 4 + (/ 8 + (/ 16 + (/ 32 + 0))))) - (/ 32 + 0)) by lra.
    apply fused_err_small64; [|lra|lra|lra].
    change (5 + 1)%nat with 6%nat. apply (Nat.le_trans _ 32); [repeat constructor|].
    apply Nat.lt_le_incl. apply Nat.pow_gt_lin_r. repeat constructor.
Qed.

Print Assumptions fused_binary64.
Print Assumptions fused_demo_checks.
Print Assumptions fused_demo_good.
