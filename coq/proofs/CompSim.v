(* Proofs for C06: list-backed and map-backed compositions are observationally identical. *)
From Coq Require Import List ZArith NArith Bool Arith String Permutation Lia Field Ring Field_theory Ring_theory.
From CE Require Import Num OField Str TableTypes TableModel Comp ESpec CompOps Render CompSpec CompArith Table.
Import ListNotations.
Local Open Scope nat_scope.

(* ------------------------------------------------------------------------------------------ *)
(* same_map is an equivalence; with distinct keys it is "same set of entries" *)
Lemma same_map_refl : forall a, same_map a a.
Proof. intros a k. split; reflexivity. Qed.

Lemma same_map_sym : forall a b, same_map a b -> same_map b a.
Proof. intros a b H k. destruct (H k) as [H1 H2]. split; symmetry; assumption. Qed.

Lemma same_map_trans : forall a b c, same_map a b -> same_map b c -> same_map a c.
Proof.
  intros a b c H1 H2 k. destruct (H1 k) as [A1 A2]. destruct (H2 k) as [B1 B2].
  split; [rewrite A1; exact B1 | rewrite A2; exact B2].
Qed.

Lemma nodup_NoDup : forall l, nodup_keys l = true -> NoDup l.
Proof.
  intros l H. apply nodup_keys_NoDup in H. apply (NoDup_map_inv fst). exact H.
Qed.

Lemma same_map_In : forall a b, same_map a b -> nodup_keys a = true -> nodup_keys b = true ->
  forall kv, In kv a -> In kv b.
Proof.
  intros a b H Ha Hb [k v] Hin. destruct (H k) as [H1 H2].
  assert (Hm : e_mem k a = true) by (apply mem_In; exists v; exact Hin).
  rewrite H2 in Hm. apply In_get in Hm.
  rewrite <- H1, (get_In k v a Ha Hin) in Hm. exact Hm.
Qed.

Lemma same_map_perm : forall a b, same_map a b -> nodup_keys a = true -> nodup_keys b = true ->
  Permutation a b.
Proof.
  intros a b H Ha Hb. apply NoDup_Permutation.
  - apply nodup_NoDup. exact Ha.
  - apply nodup_NoDup. exact Hb.
  - intros kv. split.
    + apply same_map_In; assumption.
    + apply same_map_In; [apply same_map_sym|..]; assumption.
Qed.

Lemma perm_same_map : forall a b, Permutation a b -> nodup_keys a = true -> same_map a b.
Proof.
  intros a b P Ha k. split.
  - apply get_perm; assumption.
  - apply mem_perm. exact P.
Qed.

(* ------------------------------------------------------------------------------------------ *)
(* conversions *)
Lemma get_copy_from : forall l acc k, nodup_keys l = true ->
  e_get k (fold_left (fun acc kv => e_set (fst kv) (snd kv) acc) l acc)
  = if e_mem k l then e_get k l else e_get k acc.
Proof.
  intros l. induction l as [|[k0 v] r IH]; intros acc k H.
  - reflexivity.
  - cbn [nodup_keys] in H. apply andb_true_iff in H. destruct H as [H1 H2].
    apply negb_true_iff in H1.
    cbn [fold_left fst snd]. rewrite (IH _ k H2), get_set. cbn [e_mem e_get].
    destruct (key_eqb k k0) eqn:E.
    + apply key_eqb_eq in E. subst k0. rewrite H1. reflexivity.
    + reflexivity.
Qed.

Lemma mem_copy_from : forall l acc k,
  e_mem k (fold_left (fun acc kv => e_set (fst kv) (snd kv) acc) l acc) = e_mem k l || e_mem k acc.
Proof.
  intros l. induction l as [|[k0 v] r IH]; intros acc k.
  - reflexivity.
  - cbn [fold_left fst snd]. rewrite IH, mem_set. cbn [e_mem].
    destruct (key_eqb k k0), (e_mem k r); reflexivity.
Qed.

Lemma copy_same_map : forall l, nodup_keys l = true -> same_map (e_copy l) l /\ nodup_keys (e_copy l) = true.
Proof.
  intros l H. split.
  - intros k. unfold e_copy. split.
    + rewrite (get_copy_from l [] k H). destruct (e_mem k l) eqn:E; [reflexivity|].
      rewrite (get_notmem _ _ E). reflexivity.
    + rewrite mem_copy_from. cbn [e_mem]. apply orb_false_r.
  - apply nodup_copy.
Qed.

(* ------------------------------------------------------------------------------------------ *)
(* equality *)
Lemma has_In : forall k v l, e_has k v l = true <-> In (k, v) l.
Proof.
  intros k v l. unfold e_has. rewrite existsb_exists. split.
  - intros [[k1 v1] [Hin H]]. cbn [fst snd] in H. apply andb_true_iff in H. destruct H as [H1 H2].
    apply key_eqb_eq in H1. apply Z.eqb_eq in H2. subst. exact Hin.
  - intros Hin. exists (k, v). split; [exact Hin|]. cbn [fst snd].
    rewrite key_eqb_refl, Z.eqb_refl. reflexivity.
Qed.

Lemma e_eq_spec : forall a b, e_eq a b = true <-> List.length a = List.length b /\ incl a b.
Proof.
  intros a b. unfold e_eq. rewrite andb_true_iff, Nat.eqb_eq, forallb_forall. split.
  - intros [H1 H2]. split; [exact H1|]. intros [k v] Hin. apply has_In. apply (H2 (k, v)). exact Hin.
  - intros [H1 H2]. split; [exact H1|]. intros [k v] Hin. cbn [fst snd]. apply has_In. apply H2. exact Hin.
Qed.

Lemma eq_same_map : forall a b, nodup_keys a = true -> nodup_keys b = true -> (e_eq a b = true <-> same_map a b).
Proof.
  intros a b Ha Hb. rewrite e_eq_spec. split.
  - intros [Hl Hi]. apply perm_same_map; [|exact Ha].
    apply NoDup_Permutation.
    + apply nodup_NoDup. exact Ha.
    + apply nodup_NoDup. exact Hb.
    + intros kv. split; [apply Hi|].
      apply (NoDup_length_incl (nodup_NoDup a Ha)); [lia | exact Hi].
  - intros H. pose proof (same_map_perm a b H Ha Hb) as P. split.
    + apply Permutation_length. exact P.
    + intros kv Hin. apply (Permutation_in _ P). exact Hin.
Qed.

(* ------------------------------------------------------------------------------------------ *)
(* table symbols *)
Lemma tbl_find_In : forall s (t : list (string * elem)) e,
  tbl_find s t = Some e -> exists k, In (k, e) t /\ codes k = s.
Proof.
  intros s t. induction t as [|[k0 e0] r IH]; intros e H.
  - discriminate H.
  - cbn [tbl_find] in H. destruct (str_eqb (codes k0) s) eqn:E.
    + inversion H. subst. apply str_eqb_eq in E. exists k0. split; [left; reflexivity | exact E].
    + destruct (IH e H) as [k [Hin Hk]]. exists k. split; [right; exact Hin | exact Hk].
Qed.

Lemma has_elem_sym_ok : forall tbl s, table_syms_ok tbl = true -> has_elem tbl s = true -> sym_ok s = true.
Proof.
  intros tbl s Ht Hs. unfold has_elem in Hs. destruct (tbl_find s tbl) as [e|] eqn:E; [|discriminate Hs].
  apply tbl_find_In in E. destruct E as [k [Hin Hk]].
  unfold table_syms_ok in Ht. rewrite forallb_forall in Ht. specialize (Ht _ Hin). cbn [fst] in Ht.
  rewrite Hk in Ht. exact Ht.
Qed.

Definition plain_char (x : N) : bool := (x <? 128)%N && negb (x =? LB)%N && negb (x =? RB)%N.

Lemma sym_ok_inv : forall s, sym_ok s = true ->
  exists c r, s = c :: r /\ is_alpha c = true /\ forallb plain_char s = true /\ (List.length s <= 3)%nat.
Proof.
  intros s H. unfold sym_ok in H. destruct s as [|c r]; [discriminate H|].
  apply andb_true_iff in H. destruct H as [H H3]. apply andb_true_iff in H. destruct H as [H1 H2].
  exists c, r. split; [reflexivity|]. split; [exact H1|]. split; [exact H2|].
  apply Nat.leb_le. exact H3.
Qed.

Lemma plain_split_lb : forall s, forallb plain_char s = true -> split_lb s = None.
Proof.
  intros s. induction s as [|c r IH]; intros H.
  - reflexivity.
  - cbn [forallb] in H. apply andb_true_iff in H. destruct H as [H1 H2].
    unfold plain_char in H1. apply andb_true_iff in H1. destruct H1 as [H1 _].
    apply andb_true_iff in H1. destruct H1 as [_ H1]. apply negb_true_iff in H1.
    cbn [split_lb]. rewrite H1, (IH H2). reflexivity.
Qed.

Lemma espec_parse_plain : forall tbl s, table_syms_ok tbl = true -> has_elem tbl s = true ->
  espec_parse tbl s = EOk (s, 0%N).
Proof.
  intros tbl s Ht Hs. pose proof (has_elem_sym_ok tbl s Ht Hs) as Hok.
  apply sym_ok_inv in Hok. destruct Hok as [c [r [_ [_ [Hp _]]]]].
  unfold espec_parse. rewrite (plain_split_lb s Hp), Hs. reflexivity.
Qed.

Lemma plain_char_inv : forall c, plain_char c = true ->
  (c <? 128)%N = true /\ (c =? LB)%N = false /\ (c =? RB)%N = false.
Proof.
  intros c H. unfold plain_char in H. apply andb_true_iff in H. destruct H as [H H3].
  apply andb_true_iff in H. destruct H as [H1 H2].
  apply negb_true_iff in H2. apply negb_true_iff in H3. auto.
Qed.

Lemma width_ascii : forall c, (c <? 128)%N = true -> width c = 1.
Proof. intros c H. unfold width. rewrite H. reflexivity. Qed.

Lemma quick_check_sym : forall u s, sym_ok s = true ->
  quick_check u s = LikeYes \/ (quick_check u s = LikeMaybe).
Proof.
  intros u s H. apply sym_ok_inv in H. destruct H as [c [r [E [Ha [Hp Hl]]]]]. subst s.
  assert (Hal : is_alphabetic u c = true).
  { cbn [forallb] in Hp. apply andb_true_iff in Hp. destruct Hp as [Hc _].
    apply plain_char_inv in Hc. destruct Hc as [Hc _]. unfold is_alphabetic. rewrite Hc. exact Ha. }
  destruct r as [|c2 [|c3 [|c4 r]]].
  - left. cbn [forallb] in Hp. apply andb_true_iff in Hp. destruct Hp as [Hc _].
    apply plain_char_inv in Hc. destruct Hc as [Hc _].
    unfold quick_check. cbn [blen]. rewrite (width_ascii c Hc). cbn [Nat.add Nat.eqb]. rewrite Hal. reflexivity.
  - left. cbn [forallb] in Hp. apply andb_true_iff in Hp. destruct Hp as [Hc Hp].
    apply andb_true_iff in Hp. destruct Hp as [Hc2 _].
    apply plain_char_inv in Hc. destruct Hc as [Hc _].
    apply plain_char_inv in Hc2. destruct Hc2 as [Hc2 [Hlb Hrb]].
    unfold quick_check. cbn [blen rev app]. rewrite (width_ascii c Hc), (width_ascii c2 Hc2).
    cbn [Nat.add Nat.eqb Nat.ltb Nat.leb]. rewrite Hlb, Hrb, Hal. reflexivity.
  - right. cbn [forallb] in Hp. apply andb_true_iff in Hp. destruct Hp as [Hc Hp].
    apply andb_true_iff in Hp. destruct Hp as [Hc2 Hp]. apply andb_true_iff in Hp. destruct Hp as [Hc3 _].
    apply plain_char_inv in Hc. destruct Hc as [Hc _].
    apply plain_char_inv in Hc2. destruct Hc2 as [Hc2 _].
    apply plain_char_inv in Hc3. destruct Hc3 as [Hc3 _].
    unfold quick_check. cbn [blen rev app]. rewrite (width_ascii c Hc), (width_ascii c2 Hc2), (width_ascii c3 Hc3).
    cbn [Nat.add Nat.eqb Nat.ltb Nat.leb]. reflexivity.
  - cbn [List.length] in Hl. lia.
Qed.

Lemma plain_symbol (tbl : list (string * elem)) (tbl_ok : table_syms_ok tbl = true) (uni_alphabetic : char -> bool) :
  forall s l,
    has_elem tbl s = true ->
    v_index_str tbl uni_alphabetic s l = e_get (s, 0%N) l /\ m_index_str tbl uni_alphabetic s l = e_get (s, 0%N) l
    /\ v_find_str s l = e_get (s, 0%N) l /\ m_get_str tbl s l = e_get (s, 0%N) l.
Proof.
  intros s l Hs.
  assert (Hm : m_get_str tbl s l = e_get (s, 0%N) l).
  { unfold m_get_str, plain_key. rewrite Hs. reflexivity. }
  pose proof (espec_parse_plain tbl s tbl_ok Hs) as Hp.
  pose proof (quick_check_sym uni_alphabetic s (has_elem_sym_ok tbl s tbl_ok Hs)) as Hq.
  unfold v_index_str, m_index_str. rewrite Hp.
  destruct Hq as [Hq | Hq]; rewrite Hq; repeat split; try reflexivity; exact Hm.
Qed.

Lemma inc_str_one_key {F : Type} (N : Num F) (tbl : list (string * elem)) (tbl_ok : table_syms_ok tbl = true)
  (sh1 : ents -> ents) (sh1_perm : forall l, Permutation (sh1 l) l) :
  forall f s n (a b : comp F) k,
    has_elem tbl s = true -> nodup_keys (c_ents a) = true ->
    e_get k (c_ents (fst (apply N tbl sh1 f (OIncStr s n) a b)))
    = if key_eqb k (s, 0%N) then (e_get k (c_ents a) + n)%Z else e_get k (c_ents a).
Proof.
  intros f s n a b k Hs Ha.
  pose proof (espec_parse_plain tbl s tbl_ok Hs) as Hp.
  assert (E : fst (apply N tbl sh1 f (OIncStr s n) a b) = dirty sh1 f (e_inc (s, 0%N) n (c_ents a))).
  { cbn [apply]. unfold plain_key. rewrite Hp, Hs.
    destruct f; try reflexivity; destruct (e_mem (s, 0%N) (c_ents a)); reflexivity. }
  rewrite E. unfold dirty. cbn [c_ents].
  rewrite (get_sh sh1 sh1_perm) by (apply nodup_inc; exact Ha).
  rewrite get_inc. destruct (key_eqb k (s, 0%N)) eqn:Ek; [|reflexivity].
  apply key_eqb_eq in Ek. subst k. reflexivity.
Qed.

(* ------------------------------------------------------------------------------------------ *)
(* the mass *)
Section MassPerm.
  Context {F : Type} (N : Num F).
  Variable tbl : list (string * elem).
  Hypothesis OF : OField N.
  Add Field Ffm : (of_field N OF).

  Lemma mass_sum_perm : forall a b, Permutation a b -> mass_sum N tbl a = mass_sum N tbl b.
  Proof.
    intros a b P. induction P as [| [k c] l l' P IH | [k1 c1] [k2 c2] l | l l' l'' P1 IH1 P2 IH2].
    - reflexivity.
    - cbn [mass_sum]. rewrite IH. reflexivity.
    - cbn [mass_sum]. ring.
    - rewrite IH1. exact IH2.
  Qed.

  Lemma mass_agrees : forall a b,
    same_map a b -> nodup_keys a = true -> nodup_keys b = true -> mass_sum N tbl a = mass_sum N tbl b.
  Proof. intros a b H Ha Hb. apply mass_sum_perm. apply same_map_perm; assumption. Qed.
End MassPerm.

(* ------------------------------------------------------------------------------------------ *)
(* the order used by to_formula *)
Lemma str_leb_total : forall a b, str_leb a b = true \/ str_leb b a = true.
Proof.
  intros a. induction a as [|x r IH]; intros b.
  - left. reflexivity.
  - destruct b as [|y s]; [right; reflexivity|]. cbn [str_leb].
    destruct (N.ltb_spec x y); [left; reflexivity|].
    destruct (N.ltb_spec y x); [right; reflexivity|]. apply IH.
Qed.

Lemma str_leb_antisym : forall a b, str_leb a b = true -> str_leb b a = true -> a = b.
Proof.
  intros a. induction a as [|x r IH]; intros b H1 H2.
  - destruct b; [reflexivity | discriminate H2].
  - destruct b as [|y s]; [discriminate H1|]. cbn [str_leb] in H1, H2.
    destruct (N.ltb_spec x y); destruct (N.ltb_spec y x); try discriminate; try lia.
    assert (x = y) by lia. subst y. f_equal. apply IH; assumption.
Qed.

Lemma str_leb_trans : forall a b c, str_leb a b = true -> str_leb b c = true -> str_leb a c = true.
Proof.
  intros a. induction a as [|x r IH]; intros b c H1 H2.
  - reflexivity.
  - destruct b as [|y s]; [discriminate H1|]. destruct c as [|z t]; [discriminate H2|].
    cbn [str_leb] in *.
    destruct (N.ltb_spec x y); destruct (N.ltb_spec y x); destruct (N.ltb_spec y z);
      destruct (N.ltb_spec z y); destruct (N.ltb_spec x z); destruct (N.ltb_spec z x);
      try discriminate; try lia; try reflexivity.
    apply (IH s t); assumption.
Qed.

Lemma key_leb_total : forall a b, key_leb a b = true \/ key_leb b a = true.
Proof.
  intros [a1 a2] [b1 b2]. unfold key_leb. cbn [fst snd].
  destruct (str_eqb a1 b1) eqn:E.
  - apply str_eqb_eq in E. subst b1.
    assert (E : str_eqb a1 a1 = true) by (apply str_eqb_eq; reflexivity). rewrite E.
    destruct (N.leb_spec a2 b2); [left; reflexivity|]. right. apply N.leb_le. lia.
  - destruct (str_eqb b1 a1) eqn:E'.
    + apply str_eqb_eq in E'. subst b1.
      assert (E2 : str_eqb a1 a1 = true) by (apply str_eqb_eq; reflexivity). rewrite E2 in E. discriminate E.
    + apply str_leb_total.
Qed.

Lemma key_leb_antisym : forall a b, key_leb a b = true -> key_leb b a = true -> a = b.
Proof.
  intros [a1 a2] [b1 b2]. unfold key_leb. cbn [fst snd]. intros H1 H2.
  destruct (str_eqb a1 b1) eqn:E.
  - apply str_eqb_eq in E. subst b1.
    assert (E : str_eqb a1 a1 = true) by (apply str_eqb_eq; reflexivity). rewrite E in H2.
    apply N.leb_le in H1. apply N.leb_le in H2. f_equal. lia.
  - destruct (str_eqb b1 a1) eqn:E'.
    + apply str_eqb_eq in E'. subst b1.
      assert (E2 : str_eqb a1 a1 = true) by (apply str_eqb_eq; reflexivity). rewrite E2 in E. discriminate E.
    + assert (a1 = b1) by (apply str_leb_antisym; assumption). subst b1.
      assert (E2 : str_eqb a1 a1 = true) by (apply str_eqb_eq; reflexivity). rewrite E2 in E. discriminate E.
Qed.

Lemma str_eqb_refl : forall a, str_eqb a a = true.
Proof. intros a. apply str_eqb_eq. reflexivity. Qed.

Lemma str_eqb_false : forall a b, a <> b -> str_eqb a b = false.
Proof.
  intros a b H. destruct (str_eqb a b) eqn:E; [|reflexivity]. apply str_eqb_eq in E. contradiction.
Qed.

Lemma key_leb_trans : forall a b c, key_leb a b = true -> key_leb b c = true -> key_leb a c = true.
Proof.
  intros [a1 a2] [b1 b2] [c1 c2]. unfold key_leb. cbn [fst snd]. intros H1 H2.
  destruct (list_eq_dec N.eq_dec a1 b1) as [Eab | Nab].
  - subst b1. rewrite str_eqb_refl in H1.
    destruct (list_eq_dec N.eq_dec a1 c1) as [Eac | Nac].
    + subst c1. rewrite str_eqb_refl in *. apply N.leb_le in H1. apply N.leb_le in H2. apply N.leb_le. lia.
    + rewrite (str_eqb_false _ _ Nac) in *. exact H2.
  - rewrite (str_eqb_false _ _ Nab) in H1.
    destruct (list_eq_dec N.eq_dec b1 c1) as [Ebc | Nbc].
    + subst c1. rewrite (str_eqb_false _ _ Nab). exact H1.
    + rewrite (str_eqb_false _ _ Nbc) in H2.
      destruct (list_eq_dec N.eq_dec a1 c1) as [Eac | Nac].
      * subst c1. exfalso. apply Nab. apply str_leb_antisym; assumption.
      * rewrite (str_eqb_false _ _ Nac). apply (str_leb_trans a1 b1 c1); assumption.
Qed.

Fixpoint ssorted (l : ents) : Prop :=
  match l with
  | [] => True
  | x :: r => (forall y, In y r -> key_leb (fst x) (fst y) = true) /\ ssorted r
  end.

Lemma ins_key_In : forall x l y, In y (ins_key x l) <-> y = x \/ In y l.
Proof.
  intros x l y. induction l as [|z r IH].
  - cbn [ins_key In]. split; intros [H|H]; auto.
  - cbn [ins_key]. destruct (key_leb (fst z) (fst x)).
    + cbn [In]. rewrite IH. split; intros H; tauto.
    + cbn [In]. split; intros H; intuition.
Qed.

Lemma ins_key_perm : forall x l, Permutation (ins_key x l) (x :: l).
Proof.
  intros x l. induction l as [|z r IH].
  - apply Permutation_refl.
  - cbn [ins_key]. destruct (key_leb (fst z) (fst x)).
    + apply (perm_trans (l' := z :: x :: r)); [apply perm_skip; exact IH | apply perm_swap].
    + apply Permutation_refl.
Qed.

Lemma ins_key_sorted : forall x l, ssorted l -> ssorted (ins_key x l).
Proof.
  intros x l. induction l as [|z r IH]; intros H.
  - cbn. split; [intros y []| exact I].
  - cbn [ins_key]. destruct H as [H1 H2]. destruct (key_leb (fst z) (fst x)) eqn:E.
    + cbn [ssorted]. split; [|apply IH; exact H2].
      intros y Hy. apply ins_key_In in Hy. destruct Hy as [Hy | Hy]; [subst y; exact E | apply H1; exact Hy].
    + assert (Hxz : key_leb (fst x) (fst z) = true).
      { destruct (key_leb_total (fst x) (fst z)) as [T | T]; [exact T | rewrite T in E; discriminate E]. }
      cbn [ssorted]. split; [|split; assumption].
      intros y [Hy | Hy]; [subst y; exact Hxz|].
      apply (key_leb_trans _ (fst z)); [exact Hxz | apply H1; exact Hy].
Qed.

Lemma sort_sorted : forall l, ssorted (sort_ents l).
Proof.
  intros l. induction l as [|x r IH]; [exact I|].
  unfold sort_ents in *. cbn [fold_right]. apply ins_key_sorted. exact IH.
Qed.

Lemma sort_perm : forall l, Permutation (sort_ents l) l.
Proof.
  intros l. induction l as [|x r IH]; [apply Permutation_refl|].
  unfold sort_ents in *. cbn [fold_right].
  apply (perm_trans (ins_key_perm _ _)). apply perm_skip. exact IH.
Qed.

Lemma sorted_unique : forall l1 l2, ssorted l1 -> ssorted l2 -> NoDup (map fst l1) -> Permutation l1 l2 -> l1 = l2.
Proof.
  intros l1. induction l1 as [|x r1 IH]; intros l2 S1 S2 ND P.
  - apply Permutation_nil in P. symmetry. exact P.
  - destruct l2 as [|y r2].
    + apply Permutation_sym, Permutation_nil in P. discriminate P.
    + assert (Exy : x = y).
      { assert (Hx : In x (y :: r2)) by (apply (Permutation_in _ P); left; reflexivity).
        assert (Hy : In y (x :: r1)) by (apply (Permutation_in _ (Permutation_sym P)); left; reflexivity).
        destruct Hx as [Hx | Hx]; [symmetry; exact Hx|].
        destruct Hy as [Hy | Hy]; [exact Hy|].
        exfalso. destruct S1 as [S1 _]. destruct S2 as [S2 _].
        assert (Ek : fst x = fst y).
        { apply key_leb_antisym; [apply S1; exact Hy | apply S2; exact Hx]. }
        cbn [map] in ND. inversion ND as [|k ks Hn _]. subst. apply Hn. rewrite Ek.
        apply in_map. exact Hy. }
      subst y. f_equal. apply IH.
      * destruct S1; assumption.
      * destruct S2; assumption.
      * cbn [map] in ND. inversion ND; assumption.
      * apply (Permutation_cons_inv P).
Qed.

Lemma sort_perm_eq : forall a b, nodup_keys a = true -> Permutation a b -> sort_ents a = sort_ents b.
Proof.
  intros a b Ha P. apply sorted_unique.
  - apply sort_sorted.
  - apply sort_sorted.
  - apply nodup_keys_NoDup. apply (nodup_perm a); [apply Permutation_sym, sort_perm | exact Ha].
  - apply (perm_trans (sort_perm a)). apply (perm_trans P). apply Permutation_sym, sort_perm.
Qed.

(* ------------------------------------------------------------------------------------------ *)
(* observers *)
Lemma syms_absent : forall tbl a s n, syms_in_table tbl a = true -> has_elem tbl s = false -> e_get (s, n) a = 0%Z.
Proof.
  intros tbl a s n Ht Hs. apply get_notmem. destruct (e_mem (s, n) a) eqn:E; [|reflexivity].
  apply mem_In in E. destruct E as [v Hv]. unfold syms_in_table in Ht. rewrite forallb_forall in Ht.
  specialize (Ht _ Hv). cbn [fst] in Ht. rewrite Ht in Hs. discriminate Hs.
Qed.

Lemma observers (tbl : list (string * elem)) (tbl_ok : table_syms_ok tbl = true) (uni_alphabetic : char -> bool) :
  forall a b,
    same_map a b -> nodup_keys a = true -> nodup_keys b = true -> syms_in_table tbl a = true ->
    (forall k, e_get k a = e_get k b)
    /\ List.length a = List.length b /\ Permutation a b
    /\ (forall s, v_index_str tbl uni_alphabetic s a = m_index_str tbl uni_alphabetic s b)
    /\ (forall s, v_find_str s a = m_get_str tbl s b)
    /\ to_formula tbl uni_alphabetic false a = to_formula tbl uni_alphabetic true b.
Proof.
  intros a b H Ha Hb Ht.
  pose proof (same_map_perm a b H Ha Hb) as P.
  assert (Hg : forall k, e_get k a = e_get k b) by (intros k; apply (H k)).
  assert (Hf : forall s, v_find_str s a = m_get_str tbl s b).
  { intros s. unfold v_find_str, m_get_str, plain_key. destruct (has_elem tbl s) eqn:E.
    - apply Hg.
    - apply (syms_absent tbl); assumption. }
  assert (Hi : forall s, v_index_str tbl uni_alphabetic s a = m_index_str tbl uni_alphabetic s b).
  { intros s. unfold v_index_str, m_index_str. destruct (quick_check uni_alphabetic s).
    - apply Hf.
    - reflexivity.
    - destruct (espec_parse tbl s); [apply Hg | reflexivity | reflexivity]. }
  split; [exact Hg|]. split; [apply Permutation_length; exact P|]. split; [exact P|].
  split; [exact Hi|]. split; [exact Hf|].
  unfold to_formula, idx_str. rewrite !Hi. rewrite (sort_perm_eq a b Ha P). reflexivity.
Qed.

(* ------------------------------------------------------------------------------------------ *)
(* simulation *)
Definition esim (x y : ents) : Prop := same_map x y /\ nodup_keys x = true /\ nodup_keys y = true.

Lemma esim_refl : forall x, nodup_keys x = true -> esim x x.
Proof. intros x H. split; [apply same_map_refl | split; exact H]. Qed.

Lemma esim_sym : forall x y, esim x y -> esim y x.
Proof. intros x y [H [Hx Hy]]. split; [apply same_map_sym; exact H | split; assumption]. Qed.

Lemma esim_trans : forall x y z, esim x y -> esim y z -> esim x z.
Proof.
  intros x y z [H1 [Hx Hy]] [H2 [_ Hz]]. split; [apply (same_map_trans x y z); assumption | split; assumption].
Qed.

Lemma esim_set : forall k n x y, esim x y -> esim (e_set k n x) (e_set k n y).
Proof.
  intros k n x y [H [Hx Hy]]. split; [|split; apply nodup_set; assumption].
  intros k'. destruct (H k') as [H1 H2]. rewrite !get_set, !mem_set, H1, H2. split; reflexivity.
Qed.

Lemma esim_inc : forall k n x y, esim x y -> esim (e_inc k n x) (e_inc k n y).
Proof.
  intros k n x y [H [Hx Hy]]. split; [|split; apply nodup_inc; assumption].
  intros k'. destruct (H k') as [H1 H2]. destruct (H k) as [H3 _].
  rewrite !get_inc, !mem_inc, H1, H2, H3. split; reflexivity.
Qed.

Lemma esim_add : forall a1 a2 b1 b2, esim a1 a2 -> esim b1 b2 -> esim (e_add a1 b1) (e_add a2 b2).
Proof.
  intros a1 a2 b1 b2 [Ha [Ha1 Ha2]] [Hb [Hb1 Hb2]]. split; [|split; apply nodup_add; assumption].
  intros k. destruct (Ha k) as [A1 A2]. destruct (Hb k) as [B1 B2].
  rewrite !get_add, !mem_add, A1, A2, B1, B2 by assumption. split; reflexivity.
Qed.

Lemma esim_sub : forall a1 a2 b1 b2, esim a1 a2 -> esim b1 b2 -> esim (e_sub a1 b1) (e_sub a2 b2).
Proof.
  intros a1 a2 b1 b2 [Ha [Ha1 Ha2]] [Hb [Hb1 Hb2]]. split; [|split; apply nodup_sub; assumption].
  intros k. destruct (Ha k) as [A1 A2]. destruct (Hb k) as [B1 B2].
  rewrite !get_sub, !mem_sub, A1, A2, B1, B2 by assumption. split; reflexivity.
Qed.

Lemma esim_mapv : forall (g : Z -> Z) x y, esim x y ->
  esim (map (fun kv => (fst kv, g (snd kv))) x) (map (fun kv => (fst kv, g (snd kv))) y).
Proof.
  intros g x y [H [Hx Hy]]. split; [|split; rewrite nodup_mapv; assumption].
  intros k. destruct (H k) as [H1 H2]. rewrite !get_mapv, !mem_mapv, H1, H2. split; reflexivity.
Qed.

Lemma esim_copy : forall x, nodup_keys x = true -> esim (e_copy x) x.
Proof.
  intros x H. destruct (copy_same_map x H) as [H1 H2]. split; [exact H1 | split; assumption].
Qed.

Section Sim.
  Context {F : Type} (N : Num F).
  Variable tbl : list (string * elem).
  Hypothesis tbl_ok : table_syms_ok tbl = true.

  (* the family-free meaning of an operation on the entries *)
  Definition norm (o : cop) (a b : ents) : ents :=
    match o with
    | OSet k n | OIdxSet k n => e_set k n a
    | OInc k n | OIdxAdd k n => e_inc k n a
    | OIdxStrSet s n => match espec_parse tbl s with EOk k => e_set k n a | _ => a end
    | OIncStr s n => match espec_parse tbl s with EOk k => e_inc k n a | _ => a end
    | OGetStrMutSet _ _ => a
    | OAddRef _ | OAddVal _ | OAddAssign _ | OAddAssignMut _ => e_add a b
    | OSubRef _ | OSubVal _ | OSubAssign _ | OSubAssignMut _ => e_sub a b
    | OMulRef n | OMulVal n | OMulAssign n | OMulAssignMut n => e_mul a n
    | ONeg | ONegRef => e_neg a
    | OIterMut x y => map (fun kv => (fst kv, (snd kv * x + y)%Z)) a
    | OClone _ => b
    | OIntoMap | OIntoVec => a
    | OFromPairs l => e_collect l
    | OFmass | ONop => a
    end.

  Definition norm_out (o : cop) : outcome :=
    match o with
    | OIdxStrSet s _ | OIncStr s _ => match espec_parse tbl s with EOk _ => Done | _ => Panicked end
    | _ => Done
    end.

  Lemma norm_esim : forall o a1 a2 b1 b2, esim a1 a2 -> esim b1 b2 -> esim (norm o a1 b1) (norm o a2 b2).
  Proof.
    intros o a1 a2 b1 b2 Ha Hb. destruct o; cbn [norm];
      try (apply esim_set; exact Ha); try (apply esim_inc; exact Ha);
      try (apply esim_add; assumption); try (apply esim_sub; assumption);
      try (unfold e_neg, e_mul; apply (esim_mapv (fun v => (v * _)%Z)); exact Ha);
      try exact Ha; try exact Hb.
    - destruct (espec_parse tbl s); [apply esim_set|..]; exact Ha.
    - destruct (espec_parse tbl s); [apply esim_inc|..]; exact Ha.
    - apply (esim_mapv (fun v => (v * a + b)%Z)). exact Ha.
    - apply esim_refl. apply nodup_collect.
  Qed.

  Section OneSide.
    Variable shuf : ents -> ents.
    Hypothesis shuf_perm : forall l, Permutation (shuf l) l.

    Lemma sh_esim : forall f x, nodup_keys x = true -> esim (sh shuf f x) x.
    Proof.
      intros f x H. split; [|split; [apply (nodup_sh shuf shuf_perm); exact H | exact H]].
      intros k. split; [apply (get_sh shuf shuf_perm); exact H | apply (mem_sh shuf shuf_perm)].
    Qed.

    Lemma dirty_esim : forall f x, nodup_keys x = true -> esim (c_ents (dirty (F:=F) shuf f x)) x.
    Proof. intros f x H. unfold dirty. cbn [c_ents]. apply sh_esim. exact H. Qed.

    Lemma bin_esim : forall f g (a b : comp F),
      (forall x, g x [] = x) -> (forall x y, nodup_keys x = true -> nodup_keys (g x y) = true) ->
      nodup_keys (c_ents a) = true ->
      esim (c_ents (bin shuf f g a b)) (g (c_ents a) (c_ents b)).
    Proof.
      intros f g a b Hnil Hg Ha. unfold bin. destruct (c_ents b) as [|x r].
      - rewrite Hnil. apply esim_refl. exact Ha.
      - apply dirty_esim. apply Hg. exact Ha.
    Qed.

    Lemma apply_inc_str : forall f s n (a b : comp F),
      apply N tbl shuf f (OIncStr s n) a b
      = match espec_parse tbl s with
        | EOk k => (dirty shuf f (e_inc k n (c_ents a)), Done)
        | _ => (mkComp (c_ents a) None, Panicked)
        end.
    Proof.
      intros f s n a b. cbn [apply]. unfold plain_key. destruct (has_elem tbl s) eqn:Hs.
      - rewrite (espec_parse_plain tbl s tbl_ok Hs).
        destruct f; try reflexivity; destruct (e_mem (s, 0%N) (c_ents a)); reflexivity.
      - destruct f; reflexivity.
    Qed.

    Lemma apply_norm : forall f o (a b : comp F),
      not_get_str_mut o = true -> nodup_keys (c_ents a) = true -> nodup_keys (c_ents b) = true ->
      esim (c_ents (fst (apply N tbl shuf f o a b))) (norm o (c_ents a) (c_ents b))
      /\ snd (apply N tbl shuf f o a b) = norm_out o.
    Proof.
      intros f o a b Ho Ha Hb.
      assert (Hset : forall k n, esim (c_ents (dirty (F:=F) shuf f (e_set k n (c_ents a)))) (e_set k n (c_ents a))).
      { intros. apply dirty_esim, nodup_set, Ha. }
      assert (Hinc : forall k n, esim (c_ents (dirty (F:=F) shuf f (e_inc k n (c_ents a)))) (e_inc k n (c_ents a))).
      { intros. apply dirty_esim, nodup_inc, Ha. }
      assert (Hadd : esim (c_ents (bin shuf f e_add a b)) (e_add (c_ents a) (c_ents b))).
      { apply bin_esim; [reflexivity | intros; apply nodup_add; assumption | exact Ha]. }
      assert (Hsub : esim (c_ents (bin shuf f e_sub a b)) (e_sub (c_ents a) (c_ents b))).
      { apply bin_esim; [reflexivity | intros; apply nodup_sub; assumption | exact Ha]. }
      assert (Hmul : forall n, esim (e_mul (c_ents a) n) (e_mul (c_ents a) n)).
      { intros. apply esim_refl. rewrite nodup_mul. exact Ha. }
      assert (Hrefl : esim (c_ents a) (c_ents a)) by (apply esim_refl; exact Ha).
      destruct o; try (split; [cbn [apply fst norm c_ents]; solve [apply Hset | apply Hinc | exact Hadd | exact Hsub
                                     | apply Hmul | exact Hrefl] | reflexivity]).
      - (* OIdxStrSet *) cbn [apply norm norm_out].
        destruct (espec_parse tbl s); cbn [fst snd c_ents]; (split; [|reflexivity]); [apply Hset | exact Hrefl | exact Hrefl].
      - (* OIncStr *) rewrite apply_inc_str. cbn [norm norm_out].
        destruct (espec_parse tbl s); cbn [fst snd c_ents]; (split; [|reflexivity]); [apply Hinc | exact Hrefl | exact Hrefl].
      - discriminate Ho.
      - (* OIterMut *) split; [|reflexivity]. cbn [apply fst norm c_ents].
        apply esim_refl. rewrite (nodup_mapv (fun v => (v * a0 + b0)%Z)). exact Ha.
      - (* OClone *) split; [|reflexivity]. cbn [apply fst norm]. apply esim_refl. exact Hb.
      - (* OIntoMap *) split; [|destruct f; reflexivity]. cbn [norm].
        destruct f; cbn [apply fst]; try exact Hrefl.
        + apply (esim_trans _ (e_copy (e_copy (c_ents a)))); [apply dirty_esim, nodup_copy|].
          apply (esim_trans _ (e_copy (c_ents a))); apply esim_copy; [apply nodup_copy | exact Ha].
        + apply (esim_trans _ (e_copy (e_copy (c_ents a)))); [apply dirty_esim, nodup_copy|].
          apply (esim_trans _ (e_copy (c_ents a))); apply esim_copy; [apply nodup_copy | exact Ha].
        + apply (esim_trans _ (e_copy (c_ents a))); [apply dirty_esim, nodup_copy | apply esim_copy; exact Ha].
      - (* OIntoVec *) split; [|destruct f; reflexivity]. cbn [norm].
        destruct f; cbn [apply fst c_ents]; try exact Hrefl.
        + apply (esim_trans _ (e_copy (e_copy (c_ents a)))); [apply dirty_esim, nodup_copy|].
          apply (esim_trans _ (e_copy (c_ents a))); apply esim_copy; [apply nodup_copy | exact Ha].
        + apply (esim_trans _ (e_copy (e_copy (c_ents a)))); [apply dirty_esim, nodup_copy|].
          apply (esim_trans _ (e_copy (c_ents a))); apply esim_copy; [apply nodup_copy | exact Ha].
        + apply esim_copy. exact Ha.
      - (* OFromPairs *) split; [|reflexivity]. cbn [apply fst norm]. apply dirty_esim, nodup_collect.
      - (* OFmass *) split; [|reflexivity]. cbn [apply fst norm]. unfold c_fmass.
        destruct (c_cache a); [exact Hrefl|]. destruct (calc_mass N tbl (c_ents a)); exact Hrefl.
    Qed.
  End OneSide.
End Sim.

Definition rsim {F : Type} (a b : reg (F:=F)) : Prop := esim (c_ents (r_comp a)) (c_ents (r_comp b)).

Lemma Forall2_nth_R : forall {A} (R : A -> A -> Prop) l1 l2 i d1 d2,
  Forall2 R l1 l2 -> R d1 d2 -> R (nth i l1 d1) (nth i l2 d2).
Proof.
  intros A R l1 l2 i d1 d2 H Hd. revert i. induction H as [|x y r1 r2 Hxy H IH]; intros i.
  - destruct i; exact Hd.
  - destruct i as [|i']; [exact Hxy | apply IH].
Qed.

Lemma Forall2_set_nth : forall {A} (R : A -> A -> Prop) l1 l2 i x y,
  Forall2 R l1 l2 -> R x y -> Forall2 R (set_nth i x l1) (set_nth i y l2).
Proof.
  intros A R l1 l2 i x y H Hxy. revert i. induction H as [|u v r1 r2 Huv H IH]; intros i.
  - destruct i; constructor.
  - destruct i as [|i']; cbn [set_nth]; constructor; auto.
Qed.

Section StepSim.
  Context {F : Type} (N : Num F).
  Variable tbl : list (string * elem).
  Hypothesis tbl_ok : table_syms_ok tbl = true.

  Definition dreg : reg (F:=F) := mkReg FVecDirect empty_comp.
  Definition opnd (regs : list (reg (F:=F))) (o : cop) : comp F :=
    match operand o with Some q => r_comp (nth q regs dreg) | None => empty_comp end.

  Lemma step_unfold : forall shuf regs r o, exists f',
    step N tbl shuf regs (r, o)
    = (set_nth r (mkReg f' (fst (apply N tbl shuf (r_fam (nth r regs dreg)) o (r_comp (nth r regs dreg)) (opnd regs o)))) regs,
       snd (apply N tbl shuf (r_fam (nth r regs dreg)) o (r_comp (nth r regs dreg)) (opnd regs o))).
  Proof.
    intros shuf regs r o. unfold step, opnd, dreg. cbv zeta.
    set (a := nth r regs (mkReg FVecDirect empty_comp)).
    set (b := match operand o with
              | Some q => r_comp (nth q regs (mkReg FVecDirect empty_comp))
              | None => empty_comp end).
    match goal with |- context [let '(c, out) := apply N tbl shuf (r_fam a) o (r_comp a) ?bb in _] =>
      replace bb with b by (destruct o; reflexivity) end.
    destruct (apply N tbl shuf (r_fam a) o (r_comp a) b) as [c out].
    eexists. cbn [fst snd]. reflexivity.
  Qed.

  Variables sh1 sh2 : ents -> ents.
  Hypothesis sh1_perm : forall l, Permutation (sh1 l) l.
  Hypothesis sh2_perm : forall l, Permutation (sh2 l) l.

  Lemma apply_sim : forall f1 f2 o (a1 a2 b1 b2 : comp F),
    not_get_str_mut o = true ->
    esim (c_ents a1) (c_ents a2) -> esim (c_ents b1) (c_ents b2) ->
    esim (c_ents (fst (apply N tbl sh1 f1 o a1 b1))) (c_ents (fst (apply N tbl sh2 f2 o a2 b2)))
    /\ snd (apply N tbl sh1 f1 o a1 b1) = snd (apply N tbl sh2 f2 o a2 b2).
  Proof.
    intros f1 f2 o a1 a2 b1 b2 Ho Ha Hb.
    destruct Ha as [Ha [Ha1 Ha2]]. destruct Hb as [Hb [Hb1 Hb2]].
    destruct (apply_norm N tbl tbl_ok sh1 sh1_perm f1 o a1 b1 Ho Ha1 Hb1) as [E1 O1].
    destruct (apply_norm N tbl tbl_ok sh2 sh2_perm f2 o a2 b2 Ho Ha2 Hb2) as [E2 O2].
    split; [|rewrite O1, O2; reflexivity].
    apply (esim_trans _ _ _ E1). apply (esim_trans _ (norm tbl o (c_ents a2) (c_ents b2))).
    - apply norm_esim; split; auto.
    - apply esim_sym. exact E2.
  Qed.

  Lemma step_sim : forall regs1 regs2 ro,
    Forall2 (fun a b : reg (F:=F) =>
               same_map (c_ents (r_comp a)) (c_ents (r_comp b))
               /\ nodup_keys (c_ents (r_comp a)) = true /\ nodup_keys (c_ents (r_comp b)) = true) regs1 regs2 ->
    not_get_str_mut (snd ro) = true ->
    Forall2 (fun a b : reg (F:=F) =>
               same_map (c_ents (r_comp a)) (c_ents (r_comp b))
               /\ nodup_keys (c_ents (r_comp a)) = true /\ nodup_keys (c_ents (r_comp b)) = true)
            (fst (step N tbl sh1 regs1 ro)) (fst (step N tbl sh2 regs2 ro))
    /\ snd (step N tbl sh1 regs1 ro) = snd (step N tbl sh2 regs2 ro).
  Proof.
    intros regs1 regs2 [r o] H Ho. cbn [snd] in Ho. change (Forall2 rsim regs1 regs2) in H.
    destruct (step_unfold sh1 regs1 r o) as [f1' E1]. destruct (step_unfold sh2 regs2 r o) as [f2' E2].
    rewrite E1, E2. cbn [fst snd].
    assert (Hd : rsim dreg dreg) by (apply esim_refl; reflexivity).
    assert (Ha : rsim (nth r regs1 dreg) (nth r regs2 dreg)) by (apply Forall2_nth_R; assumption).
    assert (Hb : esim (c_ents (opnd regs1 o)) (c_ents (opnd regs2 o))).
    { unfold opnd. destruct (operand o) as [q|].
      - apply (Forall2_nth_R rsim); assumption.
      - apply esim_refl. reflexivity. }
    destruct (apply_sim (r_fam (nth r regs1 dreg)) (r_fam (nth r regs2 dreg)) o _ _ _ _ Ho Ha Hb) as [S1 S2].
    split; [|exact S2].
    change (Forall2 rsim
      (set_nth r (mkReg f1' (fst (apply N tbl sh1 (r_fam (nth r regs1 dreg)) o (r_comp (nth r regs1 dreg)) (opnd regs1 o)))) regs1)
      (set_nth r (mkReg f2' (fst (apply N tbl sh2 (r_fam (nth r regs2 dreg)) o (r_comp (nth r regs2 dreg)) (opnd regs2 o)))) regs2)).
    apply Forall2_set_nth; [exact H|]. unfold rsim. cbn [r_comp]. exact S1.
  Qed.
End StepSim.

Lemma C06_example :
  let C := (codes "C", 0%N) in let C13 := (codes "C", 13%N) in let H := (codes "H", 0%N) in
  let v := e_add (e_collect [(C13, 5%Z); (H, 1%Z)]) (e_collect [(C, 2%Z)]) in
  let m := e_collect [(C, 2%Z); (H, 1%Z); (C13, 5%Z)] in
  same_map v m /\ nodup_keys v = true /\ nodup_keys m = true /\ v <> m
  /\ v_index_str (build_table table_src) (fun _ => false) (codes "C") v = 2%Z
  /\ e_eq v m = true.
Proof.
  intros C C13 H v m.
  assert (Hv : nodup_keys v = true) by (vm_compute; reflexivity).
  assert (Hm : nodup_keys m = true) by (vm_compute; reflexivity).
  assert (He : e_eq v m = true) by (vm_compute; reflexivity).
  split; [apply (eq_same_map v m Hv Hm); exact He|].
  split; [exact Hv|]. split; [exact Hm|]. split.
  - vm_compute. intros E. discriminate E.
  - split; [vm_compute; reflexivity | exact He].
Qed.
