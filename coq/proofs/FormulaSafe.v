From Coq Require Import List ZArith NArith Bool Arith Lia.
From CE Require Import Str Comp Formula FormulaSpec.
Import ListNotations.


(* boundary: byte offset k is the end of some prefix of s *)
Definition bnd (s : str) (k : nat) : Prop := exists p q, s = p ++ q /\ blen p = k.

Lemma width_pos c : 1 <= width c.
Proof. unfold width; repeat destruct (_ <? _)%N; lia. Qed.

Lemma blen_app p q : blen (p ++ q) = blen p + blen q.
Proof. induction p; simpl; lia. Qed.

Lemma drop_bytes_app p q : drop_bytes (p ++ q) (blen p) = Some q.
Proof.
  induction p as [|c p IH]; simpl.
  - destruct q; reflexivity.
  - pose proof (width_pos c). destruct (width c + blen p) eqn:E; [lia|].
    rewrite <- E. replace (width c <=? width c + blen p) with true by (symmetry; apply Nat.leb_le; lia).
    replace (width c + blen p - width c) with (blen p) by lia. exact IH.
Qed.

Lemma take_bytes_app p q : take_bytes (p ++ q) (blen p) = Some p.
Proof.
  induction p as [|c p IH]; simpl.
  - destruct q; reflexivity.
  - pose proof (width_pos c). destruct (width c + blen p) eqn:E; [lia|].
    rewrite <- E. replace (width c <=? width c + blen p) with true by (symmetry; apply Nat.leb_le; lia).
    replace (width c + blen p - width c) with (blen p) by lia. rewrite IH. reflexivity.
Qed.

(* two boundaries a <= b split s as p ++ m ++ q *)
Lemma bnd_split s a b : bnd s a -> bnd s b -> a <= b ->
  exists p m q, s = p ++ m ++ q /\ blen p = a /\ blen m = b - a.
Proof.
  intros (p1 & q1 & E1 & L1) (p2 & q2 & E2 & L2) Hab. subst a b.
  revert p2 q2 s q1 E1 E2 Hab. induction p1 as [|c p1 IH]; intros p2 q2 s q1 E1 E2 Hab.
  - exists [], p2, q2. simpl in *. subst. repeat split; auto; lia.
  - destruct p2 as [|c2 p2].
    + simpl in Hab. pose proof (width_pos c). lia.
    + simpl in E1, E2. subst s. injection E2 as Ec Et. subst c2.
      simpl in Hab. destruct (IH p2 q2 (p1 ++ q1) q1 eq_refl Et) as (p & m & q & Es & Lp & Lm); [lia|].
      exists (c :: p), m, q. simpl. rewrite Es. repeat split; simpl; lia.
Qed.

Lemma slice_some s a b : bnd s a -> bnd s b -> a <= b -> exists t, slice s a b = Some t /\ List.length t <= List.length s.
Proof.
  intros Ha Hb Hab. destruct (bnd_split s a b Ha Hb Hab) as (p & m & q & Es & Lp & Lm).
  unfold slice. replace (a <=? b) with true by (symmetry; apply Nat.leb_le; lia).
  subst s a. rewrite drop_bytes_app. rewrite <- Lm. rewrite take_bytes_app.
  exists m. split; auto. rewrite !app_length. lia.
Qed.

Lemma blen_0 p : blen p = 0 -> p = [].
Proof. destruct p as [|c p]; auto. simpl. pose proof (width_pos c). lia. Qed.

Lemma slice_some_lt s a b : bnd s a -> bnd s b -> 1 <= a -> a <= b -> exists t, slice s a b = Some t /\ List.length t < List.length s.
Proof.
  intros Ha Hb H1 Hab. destruct (bnd_split s a b Ha Hb Hab) as (p & m & q & Es & Lp & Lm).
  unfold slice. replace (a <=? b) with true by (symmetry; apply Nat.leb_le; lia).
  subst s a. rewrite drop_bytes_app. rewrite <- Lm. rewrite take_bytes_app.
  exists m. split; auto. rewrite !app_length.
  destruct p as [|c p]; [simpl in H1; lia|]. simpl. lia.
Qed.

Section Safety.
Variables (uni_numeric : char -> bool) (has_elem : str -> bool) (has_iso : str -> N -> bool).
Variable s : str.
Notation B := (bnd s).

Definition iso_clean (c : cfg) := ie c = is_ c.

Definition Inv (c : cfg) (i : nat) : Prop :=
  match fstate c with
  | New => iso_clean c
  | Element => iso_clean c /\ B (es c) /\ es c <= i
  | Isotope => B (es c) /\ B (ee c) /\ es c <= ee c /\ B (is_ c) /\ is_ c <= i
  | IsotopeToCount => B (es c) /\ B (ee c) /\ es c <= ee c /\ B (is_ c) /\ B (ie c) /\ is_ c <= ie c /\ ie c <= i
  | Count => B (es c) /\ B (ee c) /\ es c <= ee c /\ B (cs c) /\ cs c <= i /\
             (ie c = is_ c \/ (B (is_ c) /\ B (ie c) /\ is_ c <= ie c))
  | Group => iso_clean c /\ B (gs c) /\ gs c <= i /\ 1 <= gs c
  | GroupToGroupCount => iso_clean c /\ B (gs c) /\ B (ge c) /\ gs c <= ge c /\ 1 <= gs c
  | GroupCount => iso_clean c /\ B (gs c) /\ B (ge c) /\ gs c <= ge c /\ 1 <= gs c /\ B (gcs c) /\ gcs c <= i
  end.

Variable parse_rec : str -> fres ents.
Hypothesis rec_safe : forall t, List.length t < List.length s -> parse_rec t <> FPanic.

Lemma sl_ok_lt a b : B a -> B b -> 1 <= a -> a <= b -> exists t, sl s a b = FOk t /\ List.length t < List.length s.
Proof.
  intros Ha Hb H1 Hab. destruct (slice_some_lt s a b Ha Hb H1 Hab) as (t & E & L).
  exists t. unfold sl. rewrite E. auto.
Qed.

Ltac use_sl_lt :=
  match goal with
  | |- context [sl s ?a ?b] =>
      let t := fresh "t" in let E := fresh "E" in let L := fresh "L" in
      destruct (sl_ok_lt a b) as (t & E & L); [ (simpl; intuition (auto; try lia)) .. | rewrite E; simpl ]
  end.

Lemma sl_ok a b : B a -> B b -> a <= b -> exists t, sl s a b = FOk t /\ List.length t <= List.length s.
Proof.
  intros Ha Hb Hab. destruct (slice_some s a b Ha Hb Hab) as (t & E & L).
  exists t. unfold sl. rewrite E. auto.
Qed.

Ltac use_sl :=
  match goal with
  | |- context [sl s ?a ?b] =>
      let t := fresh "t" in let E := fresh "E" in let L := fresh "L" in
      destruct (sl_ok a b) as (t & E & L); [ (simpl; intuition (auto; try lia)) .. | rewrite E; simpl ]
  end.

Definition good (r : fres (ents * cfg)) (i' : nat) : Prop :=
  match r with FPanic => False | FErr _ => True | FOk (_, c') => Inv c' i' end.

Ltac fin := unfold good, Inv, iso_clean in *; simpl in *; try match goal with H : fstate _ = _ |- _ => rewrite ?H in * end; simpl in *; intuition (auto; try lia).
Ltac ascii_w P := apply N.eqb_eq in P; subst; change (width LP) with 1 in *; change (width LB) with 1 in *; change (width RB) with 1 in *; change (width RP) with 1 in *.

Lemma step_safe acc c i ch :
  Inv c i -> B i -> B (i + width ch) ->
  good (step uni_numeric has_elem has_iso parse_rec s acc c i ch) (i + width ch).
Proof.
  intros HI Bi Bi'. pose proof (width_pos ch) as Hw.
  unfold step. destruct (fstate c) eqn:St; unfold Inv in HI; rewrite St in HI.
  - (* New *)
    destruct (is_upper ch) eqn:U; [fin|].
    destruct (ch =? LP)%N eqn:P; [|exact I]. ascii_w P. fin.
  - (* Element *)
    destruct (is_alpha ch) eqn:A.
    + destruct (is_upper ch) eqn:U; [|fin].
      unfold get_elem; simpl. use_sl. destruct (has_elem t); simpl; fin.
    + destruct (is_numeric uni_numeric ch) eqn:Nm; [fin|].
      destruct (ch =? LB)%N eqn:P1; [ascii_w P1; fin|].
      destruct (ch =? LP)%N eqn:P2; [|fin].
      ascii_w P2. unfold get_elem; simpl. use_sl. destruct (has_elem t); simpl; fin.
  - (* Isotope *)
    destruct (ch =? RB)%N eqn:P; [ascii_w P; fin|].
    destruct (negb (is_numeric uni_numeric ch)); fin.
  - (* IsotopeToCount *)
    destruct (is_numeric uni_numeric ch) eqn:Nm; [fin|].
    unfold get_elem; simpl. use_sl. destruct (has_elem t); simpl; [|fin].
    unfold parse_isotope_slice; simpl. use_sl.
    destruct (parse_u16 t0); simpl; [|fin].
    unfold check_iso. destruct (_ || _); simpl; [|fin].
    unfold start_item; simpl.
    destruct (ch =? LP)%N eqn:P; [ascii_w P; fin|].
    destruct (is_upper ch); fin.
  - (* Count *)
    destruct (negb (is_numeric uni_numeric ch)) eqn:Nm; [|fin].
    unfold take_count; simpl. use_sl.
    destruct (parse_i32 t); simpl; [|fin].
    destruct (Nat.eqb (ie c) (is_ c)) eqn:EQ; simpl.
    + unfold get_elem; simpl. use_sl. destruct (has_elem t0); simpl; [|fin].
      unfold start_item; simpl.
      destruct (ch =? LP)%N eqn:P; [ascii_w P; fin|]. destruct (is_upper ch); fin.
    + apply Nat.eqb_neq in EQ. unfold parse_isotope_slice; simpl. use_sl.
      destruct (parse_u16 t0); simpl; [|fin].
      unfold get_elem; simpl. use_sl. destruct (has_elem t1); simpl; [|fin].
      unfold check_iso. destruct (_ || _); simpl; [|fin].
      unfold start_item; simpl.
      destruct (ch =? LP)%N eqn:P; [ascii_w P; fin|]. destruct (is_upper ch); fin.
  - (* Group *)
    destruct (ch =? RP)%N eqn:P.
    + ascii_w P. simpl. destruct (_ =? 0)%Z; fin.
    + destruct (ch =? LP)%N; fin.
  - (* GroupToGroupCount *)
    destruct (negb (is_numeric uni_numeric ch)) eqn:Nm; [|fin].
    unfold take_group; simpl. use_sl_lt.
    pose proof (rec_safe t L) as RS. destruct (parse_rec t); simpl; [|fin|congruence].
    unfold start_item; simpl.
    destruct (ch =? LP)%N eqn:P; [ascii_w P; fin|]. destruct (is_upper ch); fin.
  - (* GroupCount *)
    destruct (negb (is_numeric uni_numeric ch)) eqn:Nm; [|fin].
    unfold take_group; simpl. use_sl_lt.
    pose proof (rec_safe t L) as RS. destruct (parse_rec t); simpl; [|fin|congruence].
    unfold take_gcount; simpl. use_sl.
    destruct (parse_i32 t0); simpl; [|fin].
    unfold start_item; simpl.
    destruct (ch =? LP)%N eqn:P; [ascii_w P; fin|]. destruct (is_upper ch); fin.
Qed.

Lemma bnd_end : B (blen s).
Proof. exists s, []. rewrite app_nil_r. auto. Qed.

Lemma finish_safe acc c : Inv c (blen s) ->
  finish has_elem has_iso parse_rec s acc c <> FPanic.
Proof.
  intros HI. pose proof bnd_end as Be.
  unfold finish. destruct (fstate c) eqn:St; unfold Inv in HI; rewrite St in HI; try discriminate.
  - (* Element *)
    unfold get_elem; simpl. use_sl. destruct (has_elem t); simpl; discriminate.
  - (* IsotopeToCount *)
    unfold get_elem; simpl. use_sl. destruct (has_elem t); simpl; [|discriminate].
    unfold parse_isotope_slice; simpl. use_sl. destruct (parse_u16 t0); simpl; [|discriminate].
    unfold check_iso. destruct (_ || _); simpl; discriminate.
  - (* Count *)
    unfold take_count; simpl. use_sl. destruct (parse_i32 t); simpl; [|discriminate].
    destruct (Nat.eqb (ie c) (is_ c)) eqn:EQ; simpl.
    + unfold get_elem; simpl. use_sl. destruct (has_elem t0); simpl; discriminate.
    + apply Nat.eqb_neq in EQ. unfold parse_isotope_slice; simpl. use_sl.
      destruct (parse_u16 t0); simpl; [|discriminate].
      unfold get_elem; simpl. use_sl. destruct (has_elem t1); simpl; [|discriminate].
      unfold check_iso. destruct (_ || _); simpl; discriminate.
  - (* GroupToGroupCount *)
    unfold take_group; simpl. use_sl_lt.
    pose proof (rec_safe t L) as RS. destruct (parse_rec t); simpl; [discriminate|discriminate|congruence].
  - (* GroupCount *)
    unfold take_group; simpl. use_sl_lt.
    pose proof (rec_safe t L) as RS. destruct (parse_rec t); simpl; [|discriminate|congruence].
    unfold take_gcount; simpl. use_sl. destruct (parse_i32 t0); simpl; discriminate.
Qed.

Lemma run_safe suf : forall pre acc c, s = pre ++ suf -> Inv c (blen pre) ->
  run uni_numeric has_elem has_iso parse_rec s acc c (indices suf (blen pre)) <> FPanic.
Proof.
  induction suf as [|ch suf IH]; intros pre acc c Es HI; simpl.
  - rewrite app_nil_r in Es. subst pre. apply finish_safe; auto.
  - assert (Bi : B (blen pre)) by (exists pre, (ch :: suf); auto).
    assert (Bi' : B (blen pre + width ch)).
    { exists (pre ++ [ch]), suf. split. rewrite <- app_assoc; auto. rewrite blen_app; simpl; lia. }
    pose proof (step_safe acc c (blen pre) ch HI Bi Bi') as G.
    destruct (step uni_numeric has_elem has_iso parse_rec s acc c (blen pre) ch) as [[acc' c']|e|]; simpl in *; try discriminate; [|contradiction].
    replace (blen pre + width ch) with (blen (pre ++ [ch])) in * by (rewrite blen_app; simpl; lia).
    apply IH; auto. rewrite <- app_assoc; auto.
Qed.
End Safety.

Theorem parse_safe uni_numeric has_elem has_iso : forall fuel s, List.length s < fuel ->
  parse uni_numeric has_elem has_iso fuel s <> FPanic.
Proof.
  induction fuel as [|f IH]; intros s L; [lia|]. simpl.
  apply (run_safe uni_numeric has_elem has_iso s (parse uni_numeric has_elem has_iso f)) with (pre := []) (suf := s); auto.
  - intros t Lt. apply IH. lia.
  - unfold Inv, cfg0, iso_clean; simpl. auto.
Qed.

Corollary parse_formula_no_panic uni_numeric has_elem has_iso s :
  parse_formula uni_numeric has_elem has_iso s <> FPanic.
Proof. unfold parse_formula. apply parse_safe. lia. Qed.

(* ================================================================== *)
(* Soundness: a returned composition comes from a well-formed AST      *)
(* ================================================================== *)

(* ---- keys ---- *)
Lemma str_eqb_eq a b : str_eqb a b = true <-> a = b.
Proof. unfold str_eqb. destruct (list_eq_dec N.eq_dec a b); split; intros; auto; discriminate. Qed.

Lemma key_eqb_eq a b : key_eqb a b = true <-> a = b.
Proof.
  unfold key_eqb. destruct a as [a1 a2], b as [b1 b2]; cbn [fst snd].
  rewrite andb_true_iff, str_eqb_eq, N.eqb_eq. split.
  - intros [H1 H2]; subst; reflexivity.
  - intros H; injection H as H1 H2; auto.
Qed.

Lemma key_eqb_refl a : key_eqb a a = true.
Proof. apply key_eqb_eq; reflexivity. Qed.

(* ---- the accumulator operations, seen through e_get ---- *)
Lemma e_get_set k' k n l : e_get k' (e_set k n l) = if key_eqb k' k then n else e_get k' l.
Proof.
  induction l as [|[k1 v] r IH]; cbn [e_set e_get].
  - destruct (key_eqb k' k); reflexivity.
  - destruct (key_eqb k k1) eqn:E1; cbn [e_get].
    + apply key_eqb_eq in E1; subst k1. destruct (key_eqb k' k); reflexivity.
    + rewrite IH. destruct (key_eqb k' k1) eqn:E2; [|reflexivity].
      destruct (key_eqb k' k) eqn:E3; [|reflexivity].
      apply key_eqb_eq in E2, E3. subst. rewrite key_eqb_refl in E1. discriminate.
Qed.

Lemma e_get_inc k' k n l : e_get k' (e_inc k n l) = (e_get k' l + (if key_eqb k' k then n else 0))%Z.
Proof.
  unfold e_inc. rewrite e_get_set. destruct (key_eqb k' k) eqn:E.
  - apply key_eqb_eq in E; subst; reflexivity.
  - lia.
Qed.

Lemma in_keys_set x k n l : In x (map fst (e_set k n l)) -> x = k \/ In x (map fst l).
Proof.
  induction l as [|[k1 v] r IH]; cbn [e_set map fst In].
  - intros [H|[]]; auto.
  - destruct (key_eqb k k1); cbn [map fst In]; intros [H|H]; auto.
    destruct (IH H); auto.
Qed.

Lemma nodup_set k n l : NoDup (map fst l) -> NoDup (map fst (e_set k n l)).
Proof.
  induction l as [|[k1 v] r IH]; cbn [e_set map fst]; intros ND.
  - constructor; [intros []|constructor].
  - destruct (key_eqb k k1) eqn:E; cbn [map fst]; [exact ND|].
    inversion ND as [|? ? Hn ND']; subst. constructor; [|auto].
    intros Hin. apply in_keys_set in Hin as [->|Hin]; [|auto].
    rewrite key_eqb_refl in E; discriminate.
Qed.

Lemma nodup_inc k n l : NoDup (map fst l) -> NoDup (map fst (e_inc k n l)).
Proof. apply nodup_set. Qed.

Lemma nodup_add b : forall a, NoDup (map fst a) -> NoDup (map fst (e_add a b)).
Proof.
  unfold e_add. induction b as [|x b IH]; intros a ND; cbn [fold_left]; auto.
  apply IH. apply nodup_inc; auto.
Qed.

Lemma e_get_notin k l : ~ In k (map fst l) -> e_get k l = 0%Z.
Proof.
  induction l as [|[k1 v] r IH]; cbn [e_get map fst In]; intros H; auto.
  destruct (key_eqb k k1) eqn:E.
  - apply key_eqb_eq in E; subst. exfalso; auto.
  - apply IH; auto.
Qed.

Lemma e_get_add k b : forall a, NoDup (map fst b) -> e_get k (e_add a b) = (e_get k a + e_get k b)%Z.
Proof.
  unfold e_add. induction b as [|[k1 v] b IH]; intros a ND; cbn [fold_left e_get fst snd map] in *.
  - lia.
  - inversion ND as [|? ? Hn ND']; subst. rewrite IH by auto. rewrite e_get_inc.
    destruct (key_eqb k k1) eqn:E; [|lia].
    apply key_eqb_eq in E; subst. rewrite (e_get_notin k1 b) by auto. lia.
Qed.

Lemma e_get_mul k n g : e_get k (e_mul g n) = (e_get k g * n)%Z.
Proof.
  unfold e_mul. induction g as [|[k1 v] g IH]; cbn [map e_get fst snd]; auto.
  destruct (key_eqb k k1); auto.
Qed.

Lemma keys_mul n g : map fst (e_mul g n) = map fst g.
Proof. unfold e_mul. rewrite map_map. reflexivity. Qed.

(* ---- numbers ---- *)
Lemma digits_val_digits d : forall a v, digits_val d a = Some v -> forallb is_digit d = true.
Proof.
  induction d as [|c d IH]; intros a v H; cbn [digits_val forallb] in *; auto.
  destruct (is_digit c); [|discriminate]. cbn [andb]. eauto.
Qed.

Lemma parse_uint_some bound d n : parse_uint bound d = Some n ->
  digits_ok d = true /\ digits_val d 0 = Some n.
Proof.
  unfold parse_uint, digits_ok. destruct d as [|c d]; [discriminate|].
  destruct (digits_val (c :: d) 0) as [v|] eqn:E; [|discriminate].
  destruct (v <=? bound)%N; [|discriminate]. intros H; injection H as ->.
  split; auto. rewrite (digits_val_digits _ _ _ E). reflexivity.
Qed.

Lemma cnt_ok_some d n : parse_i32 d = Some n -> cnt_ok (Some d) = true /\ cnt_val (Some d) = Z.of_N n.
Proof.
  intros H. destruct (parse_uint_some _ _ _ H) as [H1 H2].
  unfold cnt_ok, cnt_val. rewrite H1, H, H2. auto.
Qed.

(* ---- the specification side ---- *)
Definition iso_text (i : option str) : str := match i with Some d => [LB] ++ d ++ [RB] | None => [] end.

Lemma render_item_El sy i c : render_item (El sy i c) = sy ++ iso_text i ++ opt_text c.
Proof. reflexivity. Qed.

Lemma render_item_Gr b c : render_item (Gr b c) = [LP] ++ render b ++ [RP] ++ opt_text c.
Proof.
  cbn [render_item]. do 2 f_equal. unfold render.
  induction b as [|x b IH]; cbn [map concat]; [reflexivity|]. rewrite IH. reflexivity.
Qed.

Lemma render_snoc f it : render (f ++ [it]) = render f ++ render_item it.
Proof. unfold render. rewrite map_app, concat_app. cbn [map concat]. rewrite app_nil_r. reflexivity. Qed.

Lemma denote_item_Gr b c k : denote_item (Gr b c) k = (cnt_val c * denote b k)%Z.
Proof.
  cbn [denote_item]. apply (f_equal (Z.mul (cnt_val c))). unfold denote.
  induction b as [|x b IH]; [reflexivity|]. cbn [fold_right]. rewrite <- IH. reflexivity.
Qed.

Lemma denote_snoc f it k : denote (f ++ [it]) k = (denote f k + denote_item it k)%Z.
Proof. unfold denote. induction f as [|x f IH]; cbn [app fold_right]; [lia|]. rewrite IH. lia. Qed.

Lemma forallb_and {A} (p q : A -> bool) l :
  forallb p l = true -> forallb q l = true -> forallb (fun x => p x && q x) l = true.
Proof.
  induction l as [|x l IH]; cbn [forallb]; auto.
  rewrite !andb_true_iff. intros [H1 H2] [H3 H4]. rewrite H1, H3. auto.
Qed.

Lemma width_LP : width LP = 1. Proof. reflexivity. Qed.
Lemma width_RP : width RP = 1. Proof. reflexivity. Qed.
Lemma width_LB : width LB = 1. Proof. reflexivity. Qed.
Lemma width_RB : width RB = 1. Proof. reflexivity. Qed.

Lemma slice_mid P m Q : slice (P ++ m ++ Q) (blen P) (blen P + blen m) = Some m.
Proof.
  unfold slice. replace (blen P <=? blen P + blen m) with true by (symmetry; apply Nat.leb_le; lia).
  rewrite drop_bytes_app. replace (blen P + blen m - blen P) with (blen m) by lia.
  apply take_bytes_app.
Qed.

Lemma sl_mid s P m Q a b : s = P ++ m ++ Q -> a = blen P -> b = a + blen m -> sl s a b = FOk m.
Proof. intros -> -> ->. unfold sl. rewrite slice_mid. reflexivity. Qed.

(* the accumulator holds what the completed items denote, under distinct keys *)
Definition acc_ok (f : list item) (acc : ents) : Prop :=
  NoDup (map fst acc) /\ forall k, e_get k acc = denote f k.

Lemma acc_ok_nil : acc_ok [] [].
Proof. split; [constructor|reflexivity]. Qed.

Lemma acc_ok_el f acc sy i c :
  acc_ok f acc -> acc_ok (f ++ [El sy i c]) (e_inc (sy, iso_val i) (cnt_val c) acc).
Proof.
  intros [ND G]. split; [apply nodup_inc; auto|].
  intros k. rewrite e_get_inc, denote_snoc, G. reflexivity.
Qed.

Lemma acc_ok_gr f acc fb g c g' :
  acc_ok f acc -> acc_ok fb g ->
  NoDup (map fst g') -> (forall k, e_get k g' = (e_get k g * cnt_val c)%Z) ->
  acc_ok (f ++ [Gr fb c]) (e_add acc g').
Proof.
  intros [ND G] [NDb Gb] ND' G'. split; [apply nodup_add; auto|].
  intros k. rewrite e_get_add by auto. rewrite denote_snoc, denote_item_Gr, G, G', Gb. lia.
Qed.

Lemma acc_ok_gr1 f acc fb g : acc_ok f acc -> acc_ok fb g -> acc_ok (f ++ [Gr fb None]) (e_add acc g).
Proof.
  intros H Hb. apply (acc_ok_gr f acc fb g None g H Hb); [apply Hb|].
  intros k. cbn [cnt_val]. lia.
Qed.

Lemma acc_ok_grn f acc fb g d n : parse_i32 d = Some n ->
  acc_ok f acc -> acc_ok fb g -> acc_ok (f ++ [Gr fb (Some d)]) (e_add acc (e_mul g (Z.of_N n))).
Proof.
  intros Hp H Hb. apply (acc_ok_gr f acc fb g (Some d) _ H Hb).
  - rewrite keys_mul. apply Hb.
  - intros k. rewrite e_get_mul. destruct (cnt_ok_some _ _ Hp) as [_ ->]. reflexivity.
Qed.

Section Sound.
Variables (uni_numeric : char -> bool) (has_elem : str -> bool) (has_iso : str -> N -> bool).
Hypothesis no_rp : forall sy, has_elem sy = true -> forallb (fun x => negb (x =? RP)%N) sy = true.

Notation wfi := (wf_item uni_numeric has_elem has_iso true).
Notation stop := (sym_stop uni_numeric).

(* a symbol as the machine scans it (a closing parenthesis is only excluded by the table) *)
Definition sym_shape0 (sy : str) : bool :=
  match sy with c :: r => is_upper c && forallb (fun x => negb (stop x)) r | [] => false end.

Lemma sym_shape0_one ch : is_upper ch = true -> sym_shape0 [ch] = true.
Proof. intros H. cbn [sym_shape0 forallb]. rewrite H. reflexivity. Qed.

Lemma sym_shape0_snoc sy ch : sym_shape0 sy = true -> stop ch = false -> sym_shape0 (sy ++ [ch]) = true.
Proof.
  destruct sy as [|c r]; [discriminate|]. cbn [sym_shape0 app].
  rewrite !andb_true_iff. intros [H1 H2] H3. split; auto.
  rewrite forallb_app, H2. cbn [forallb]. rewrite H3. reflexivity.
Qed.

Lemma sym_shape_of sy : sym_shape0 sy = true -> has_elem sy = true -> sym_shape uni_numeric sy = true.
Proof.
  intros H0 HE. pose proof (no_rp sy HE) as HR.
  destruct sy as [|c r]; [discriminate|]. cbn [sym_shape0 sym_shape forallb] in *.
  apply andb_true_iff in H0 as [H1 H2]. apply andb_true_iff in HR as [_ H3].
  rewrite H1. cbn [andb]. apply forallb_and; auto.
Qed.

Lemma lower_not_stop ch : is_alpha ch = true -> is_upper ch = false -> stop ch = false.
Proof.
  unfold is_alpha. intros HA HU. rewrite HU in HA. cbn [orb] in HA.
  unfold is_lower in HA. apply andb_true_iff in HA as [H1 H2]. apply N.leb_le in H1, H2.
  unfold sym_stop. rewrite HU. cbn [orb]. unfold is_num, is_digit, LB, LP.
  replace (ch <? 128)%N with true by (symmetry; apply N.ltb_lt; lia).
  replace (ch <=? 57)%N with false by (symmetry; apply N.leb_gt; lia).
  replace (ch =? 91)%N with false by (symmetry; apply N.eqb_neq; lia).
  replace (ch =? 40)%N with false by (symmetry; apply N.eqb_neq; lia).
  rewrite andb_false_r. reflexivity.
Qed.

Lemma other_not_stop ch : is_alpha ch = false -> is_numeric uni_numeric ch = false ->
  (ch =? LB)%N = false -> (ch =? LP)%N = false -> stop ch = false.
Proof.
  unfold is_alpha. intros HA HN H1 H2. apply orb_false_iff in HA as [HU _].
  unfold sym_stop. rewrite HU, H1, H2. change (is_num uni_numeric ch) with (is_numeric uni_numeric ch).
  rewrite HN. reflexivity.
Qed.

Lemma wf_el sy i c : sym_shape0 sy = true -> has_elem sy = true -> cnt_ok c = true ->
  iso_ok_lenient has_iso sy i c = true -> wfi (El sy i c) = true.
Proof.
  intros H1 H2 H3 H4. cbn [wf_item]. rewrite (sym_shape_of sy H1 H2), H2, H3, H4. reflexivity.
Qed.

Lemma wf_item_Gr b c : wfi (Gr b c) = cnt_ok c && negb (Nat.eqb (List.length b) 0) && forallb wfi b.
Proof.
  cbn [wf_item]. apply f_equal. induction b as [|x b IH]; [reflexivity|]. cbn [forallb]. rewrite <- IH. reflexivity.
Qed.

Lemma wf_gr b c : wf uni_numeric has_elem has_iso true b = true -> cnt_ok c = true -> wfi (Gr b c) = true.
Proof.
  unfold wf. intros H Hc. rewrite wf_item_Gr, Hc. exact H.
Qed.

(* an isotope bracket that passed the parser's checks is (leniently) well-formed, and denotes its number *)
Lemma iso_ok_some sy d n c : parse_u16 d = Some n -> ((n =? 0)%N || has_iso sy n) = true ->
  iso_ok_lenient has_iso sy (Some d) c = true /\ iso_val (Some d) = n.
Proof.
  intros Hp Hc. destruct (parse_uint_some _ _ _ Hp) as [H1 H2].
  unfold iso_ok_lenient, iso_val. rewrite H2. split; [|reflexivity].
  destruct d as [|x d]; [discriminate|]. rewrite H1, Hp, Hc. reflexivity.
Qed.

(* ---- the ghost state: completed items and the text of the item under construction ---- *)
Inductive pend :=
| PNew
| PElem (sy : str)
| PIso (sy d : str)
| PIsoC (sy d : str)
| PCount (sy : str) (io : option str) (d : str)
| PGroup (body : str)
| PGroupC (body : str)
| PGroupN (body d : str).

Definition ptext (p : pend) : str :=
  match p with
  | PNew => []
  | PElem sy => sy
  | PIso sy d => sy ++ [LB] ++ d
  | PIsoC sy d => sy ++ [LB] ++ d ++ [RB]
  | PCount sy io d => sy ++ iso_text io ++ d
  | PGroup body => [LP] ++ body
  | PGroupC body => [LP] ++ body ++ [RP]
  | PGroupN body d => [LP] ++ body ++ [RP] ++ d
  end.

(* b is the byte offset where the item under construction starts *)
Definition PInv (b : nat) (p : pend) (c : cfg) : Prop :=
  match p with
  | PNew => fstate c = New /\ ie c = is_ c
  | PElem sy => fstate c = Element /\ ie c = is_ c /\ es c = b /\ sym_shape0 sy = true
  | PIso sy d => fstate c = Isotope /\ es c = b /\ ee c = b + blen sy /\ is_ c = b + blen sy + 1 /\ sym_shape0 sy = true
  | PIsoC sy d => fstate c = IsotopeToCount /\ es c = b /\ ee c = b + blen sy /\ is_ c = b + blen sy + 1 /\
                  ie c = b + blen sy + 1 + blen d /\ sym_shape0 sy = true
  | PCount sy io d => fstate c = Count /\ es c = b /\ ee c = b + blen sy /\ cs c = b + blen sy + blen (iso_text io) /\
                      sym_shape0 sy = true /\
                      match io with
                      | None => ie c = is_ c
                      | Some dd => is_ c = b + blen sy + 1 /\ ie c = b + blen sy + 1 + blen dd
                      end
  | PGroup body => fstate c = Group /\ ie c = is_ c /\ gs c = b + 1
  | PGroupC body => fstate c = GroupToGroupCount /\ ie c = is_ c /\ gs c = b + 1 /\ ge c = b + 1 + blen body
  | PGroupN body d => fstate c = GroupCount /\ ie c = is_ c /\ gs c = b + 1 /\ ge c = b + 1 + blen body /\
                      gcs c = b + 1 + blen body + 1
  end.

Definition SInv (pre : str) (acc : ents) (c : cfg) : Prop :=
  exists done p, pre = render done ++ ptext p /\ forallb wfi done = true /\ acc_ok done acc /\
                 PInv (blen (render done)) p c.

Definition Final (t : str) (r : ents) : Prop :=
  exists f, wf uni_numeric has_elem has_iso true f = true /\ render f = t /\ acc_ok f r.

Lemma Final_intro t r done it : forallb wfi done = true -> wfi it = true ->
  t = render done ++ render_item it -> acc_ok (done ++ [it]) r -> Final t r.
Proof.
  intros H1 H2 H3 H4. exists (done ++ [it]). split; [|split; auto].
  - unfold wf. rewrite app_length, forallb_app, H1. cbn [List.length forallb]. rewrite H2.
    replace (List.length done + 1) with (S (List.length done)) by lia. reflexivity.
  - rewrite render_snoc. auto.
Qed.

(* a completed item followed by the first character of the next one *)
Lemma SInv_next pre ch acc' c' done it p' :
  forallb wfi done = true -> wfi it = true -> pre = render done ++ render_item it ->
  acc_ok (done ++ [it]) acc' -> ptext p' = [ch] -> PInv (blen pre) p' c' ->
  SInv (pre ++ [ch]) acc' c'.
Proof.
  intros H1 H2 H3 H4 H5 H6. exists (done ++ [it]), p'. rewrite render_snoc, <- H3, H5.
  split; [reflexivity|]. split; [|split; auto].
  rewrite forallb_app, H1. cbn [forallb]. rewrite H2. reflexivity.
Qed.

Lemma start_item_sound pa e c i ch c' :
  start_item pa e c i ch = FOk c' -> ie c = is_ c -> exists p', ptext p' = [ch] /\ PInv i p' c'.
Proof.
  unfold start_item. intros H Hc. destruct (ch =? LP)%N eqn:P.
  - apply N.eqb_eq in P; subst ch. injection H as <-. exists (PGroup []). split; [reflexivity|].
    cbn. auto.
  - destruct (is_upper ch) eqn:U; [|discriminate]. injection H as <-. exists (PElem [ch]).
    split; [reflexivity|]. cbn. rewrite U. auto.
Qed.

Section Run.
Variable s : str.
Variable parse_rec : str -> fres ents.
Hypothesis rec_sound : forall t g, parse_rec t = FOk g -> Final t g.

Ltac cfgs H := cbn [bind of_opt es ee is_ ie cs ce pstack gs ge gcs gce fstate set_es set_ee set_is set_ie
                    set_cs set_ce set_ps set_gs set_ge set_gcs set_gce set_st] in H.
Ltac cfgg := cbn [PInv ptext es ee is_ ie cs ce pstack gs ge gcs gce fstate set_es set_ee set_is set_ie
                    set_cs set_ce set_ps set_gs set_ge set_gcs set_gce set_st].
Ltac seq Hs := unfold id in Hs; rewrite Hs; cbn [iso_text opt_text]; repeat rewrite <- app_assoc; cbn [app]; reflexivity.
Ltac len := rewrite ?render_snoc, ?render_item_El, ?render_item_Gr;
            repeat first [rewrite blen_app | progress cbn [blen app opt_text iso_text]];
            rewrite ?width_LP, ?width_RP, ?width_LB, ?width_RB; lia.
Ltac txt := rewrite ?render_item_El, ?render_item_Gr; cbn [ptext iso_text opt_text];
            repeat rewrite <- app_assoc; cbn [app]; rewrite ?app_nil_r; reflexivity.

Lemma SInv_stay pre ch acc c' done p' :
  forallb wfi done = true -> acc_ok done acc -> pre ++ [ch] = render done ++ ptext p' ->
  PInv (blen (render done)) p' c' -> SInv (pre ++ [ch]) acc c'.
Proof. intros H1 H2 H3 H4. exists done, p'. auto. Qed.

Lemma step_sound pre ch suf acc c acc' c' :
  s = pre ++ ch :: suf -> SInv pre acc c ->
  step uni_numeric has_elem has_iso parse_rec s acc c (blen pre) ch = FOk (acc', c') ->
  SInv (pre ++ [ch]) acc' c'.
Proof.
  intros Hs (done & p & Hpre & Hwf & Hacc & HP) Hstep.
  destruct c as [ces cee cis cie ccs cce cps cgs cge cgcs cgce cst].
  change (id (s = pre ++ ch :: suf)) in Hs.
  unfold step in Hstep.
  destruct p as [|sy|sy d|sy d|sy io d|body|body|body d];
    cbn [PInv ptext es ee is_ ie cs ce pstack gs ge gcs gce fstate] in HP, Hpre.
  - (* New *)
    destruct HP as (Hst & Hiso). subst. cfgs Hstep.
    destruct (is_upper ch) eqn:U.
    + injection Hstep as <- <-. apply SInv_stay with (done := done) (p' := PElem [ch]); auto; [txt|].
      cfgg. rewrite sym_shape0_one by auto. repeat split; len.
    + destruct (ch =? LP)%N eqn:P; [|discriminate]. apply N.eqb_eq in P; subst ch.
      injection Hstep as <- <-. apply SInv_stay with (done := done) (p' := PGroup []); auto; [txt|].
      cfgg. repeat split; len.
  - (* Element *)
    destruct HP as (Hst & Hiso & Hes & Hsh). subst. cfgs Hstep.
    destruct (is_alpha ch) eqn:A.
    + destruct (is_upper ch) eqn:U.
      * unfold get_elem in Hstep. cfgs Hstep.
        rewrite (sl_mid s (render done) sy (ch :: suf)) in Hstep; [|seq Hs|reflexivity|len]. cfgs Hstep.
        destruct (has_elem sy) eqn:HE; cfgs Hstep; [|discriminate]. injection Hstep as <- <-.
        apply SInv_next with (done := done) (it := El sy None None) (p' := PElem [ch]); [exact Hwf| | | |reflexivity| ].
        -- apply wf_el; auto.
        -- txt.
        -- exact (acc_ok_el done acc sy None None Hacc).
        -- cfgg. rewrite sym_shape0_one by auto. auto.
      * injection Hstep as <- <-. apply SInv_stay with (done := done) (p' := PElem (sy ++ [ch])); auto; [txt|].
        cfgg. rewrite sym_shape0_snoc; auto using lower_not_stop.
    + destruct (is_numeric uni_numeric ch) eqn:Nm.
      { injection Hstep as <- <-. apply SInv_stay with (done := done) (p' := PCount sy None [ch]); auto; [txt|].
        cfgg. repeat split; auto; len. }
      destruct (ch =? LB)%N eqn:P1.
      { apply N.eqb_eq in P1; subst ch. injection Hstep as <- <-.
        apply SInv_stay with (done := done) (p' := PIso sy []); auto; [txt|].
        cfgg. repeat split; auto; len. }
      destruct (ch =? LP)%N eqn:P2.
      { apply N.eqb_eq in P2; subst ch. unfold get_elem in Hstep. cfgs Hstep.
        rewrite (sl_mid s (render done) sy (LP :: suf)) in Hstep; [|seq Hs|reflexivity|len]. cfgs Hstep.
        destruct (has_elem sy) eqn:HE; cfgs Hstep; [|discriminate]. injection Hstep as <- <-.
        apply SInv_next with (done := done) (it := El sy None None) (p' := PGroup []); [exact Hwf| | | |reflexivity| ].
        -- apply wf_el; auto.
        -- txt.
        -- exact (acc_ok_el done acc sy None None Hacc).
        -- cfgg. auto. }
      injection Hstep as <- <-. apply SInv_stay with (done := done) (p' := PElem (sy ++ [ch])); auto; [txt|].
      cfgg. rewrite sym_shape0_snoc; auto using other_not_stop.
  - (* Isotope *)
    destruct HP as (Hst & Hes & Hee & His & Hsh). subst. cfgs Hstep.
    destruct (ch =? RB)%N eqn:P.
    + apply N.eqb_eq in P; subst ch. injection Hstep as <- <-.
      apply SInv_stay with (done := done) (p' := PIsoC sy d); auto; [txt|].
      cfgg. repeat split; auto; len.
    + destruct (negb (is_numeric uni_numeric ch)); [discriminate|]. injection Hstep as <- <-.
      apply SInv_stay with (done := done) (p' := PIso sy (d ++ [ch])); auto; [txt|].
      cfgg. repeat split; auto; len.
  - (* IsotopeToCount *)
    destruct HP as (Hst & Hes & Hee & His & Hie & Hsh). subst. cfgs Hstep.
    destruct (is_numeric uni_numeric ch) eqn:Nm.
    + injection Hstep as <- <-. apply SInv_stay with (done := done) (p' := PCount sy (Some d) [ch]); auto; [txt|].
      cfgg. repeat split; auto; len.
    + unfold get_elem in Hstep. cfgs Hstep.
      rewrite (sl_mid s (render done) sy ([LB] ++ d ++ [RB] ++ ch :: suf)) in Hstep; [|seq Hs|reflexivity|len].
      cfgs Hstep. destruct (has_elem sy) eqn:HE; cfgs Hstep; [|discriminate].
      unfold parse_isotope_slice in Hstep. cfgs Hstep.
      rewrite (sl_mid s (render done ++ sy ++ [LB]) d ([RB] ++ ch :: suf)) in Hstep; [|seq Hs|len|len].
      cfgs Hstep. destruct (parse_u16 d) as [n|] eqn:PU; cfgs Hstep; [|discriminate].
      unfold check_iso in Hstep. destruct ((n =? 0)%N || has_iso sy n) eqn:CI; cfgs Hstep; [|discriminate].
      destruct (iso_ok_some sy d n None PU CI) as [Hi1 Hi2].
      match type of Hstep with context [start_item ?a ?b ?c ?d ?e] => destruct (start_item a b c d e) as [c1| |] eqn:SI end;
        cfgs Hstep; [|discriminate..]. injection Hstep as <- <-.
      destruct (start_item_sound _ _ _ _ _ _ SI eq_refl) as (p' & Hp' & HP').
      apply SInv_next with (done := done) (it := El sy (Some d) None) (p' := p'); [exact Hwf| | | |exact Hp'|exact HP'].
      * apply wf_el; auto.
      * txt.
      * rewrite <- Hi2. exact (acc_ok_el done acc sy (Some d) None Hacc).
  - (* Count *)
    destruct HP as (Hst & Hes & Hee & Hcs & Hsh & Hio). subst. cfgs Hstep.
    destruct (negb (is_numeric uni_numeric ch)) eqn:Nm.
    + unfold take_count in Hstep. cfgs Hstep.
      rewrite (sl_mid s (render done ++ sy ++ iso_text io) d (ch :: suf)) in Hstep; [|seq Hs|len|len].
      cfgs Hstep. destruct (parse_i32 d) as [cnt|] eqn:PC; cfgs Hstep; [|discriminate].
      destruct (cnt_ok_some _ _ PC) as [Hc1 Hc2].
      destruct io as [dd|].
      * destruct Hio as [-> ->]. destruct dd as [|x dd].
        -- cbn [blen] in Hstep. rewrite Nat.add_0_r, Nat.eqb_refl in Hstep.
           unfold get_elem in Hstep. cfgs Hstep.
           rewrite (sl_mid s (render done) sy (iso_text (Some []) ++ d ++ ch :: suf)) in Hstep; [|seq Hs|reflexivity|len].
           cfgs Hstep. destruct (has_elem sy) eqn:HE; cfgs Hstep; [|discriminate].
           unfold check_iso in Hstep. cbn [N.eqb orb] in Hstep. cfgs Hstep.
           match type of Hstep with context [start_item ?a ?b ?c ?d ?e] => destruct (start_item a b c d e) as [c1| |] eqn:SI end;
             cfgs Hstep; [|discriminate..]. injection Hstep as <- <-.
           destruct (start_item_sound _ _ _ _ _ _ SI eq_refl) as (p' & Hp' & HP').
           apply SInv_next with (done := done) (it := El sy (Some []) (Some d)) (p' := p'); [exact Hwf| | | |exact Hp'|exact HP'].
           ++ apply wf_el; auto.
           ++ txt.
           ++ rewrite <- Hc2. exact (acc_ok_el done acc sy (Some []) (Some d) Hacc).
        -- replace (Nat.eqb _ _) with false in Hstep
             by (symmetry; apply Nat.eqb_neq; cbn [blen]; pose proof (width_pos x); lia).
           unfold parse_isotope_slice in Hstep. cfgs Hstep.
           rewrite (sl_mid s (render done ++ sy ++ [LB]) (x :: dd) ([RB] ++ d ++ ch :: suf)) in Hstep; [|seq Hs|len|len].
           cfgs Hstep. destruct (parse_u16 (x :: dd)) as [n|] eqn:PU; cfgs Hstep; [|discriminate].
           unfold get_elem in Hstep. cfgs Hstep.
           rewrite (sl_mid s (render done) sy (iso_text (Some (x :: dd)) ++ d ++ ch :: suf)) in Hstep; [|seq Hs|reflexivity|len].
           cfgs Hstep. destruct (has_elem sy) eqn:HE; cfgs Hstep; [|discriminate].
           unfold check_iso in Hstep. destruct ((n =? 0)%N || has_iso sy n) eqn:CI; cfgs Hstep; [|discriminate].
           destruct (iso_ok_some sy (x :: dd) n (Some d) PU CI) as [Hi1 Hi2].
           match type of Hstep with context [start_item ?a ?b ?c ?d ?e] => destruct (start_item a b c d e) as [c1| |] eqn:SI end;
             cfgs Hstep; [|discriminate..]. injection Hstep as <- <-.
           destruct (start_item_sound _ _ _ _ _ _ SI eq_refl) as (p' & Hp' & HP').
           apply SInv_next with (done := done) (it := El sy (Some (x :: dd)) (Some d)) (p' := p'); [exact Hwf| | | |exact Hp'|exact HP'].
           ++ apply wf_el; auto.
           ++ txt.
           ++ rewrite <- Hc2, <- Hi2. exact (acc_ok_el done acc sy (Some (x :: dd)) (Some d) Hacc).
      * subst cie. rewrite Nat.eqb_refl in Hstep. cfgs Hstep.
        unfold get_elem in Hstep. cfgs Hstep.
        rewrite (sl_mid s (render done) sy (d ++ ch :: suf)) in Hstep; [|seq Hs|reflexivity|len].
        cfgs Hstep. destruct (has_elem sy) eqn:HE; cfgs Hstep; [|discriminate].
        unfold check_iso in Hstep. cbn [N.eqb orb] in Hstep. cfgs Hstep.
        match type of Hstep with context [start_item ?a ?b ?c ?d ?e] => destruct (start_item a b c d e) as [c1| |] eqn:SI end;
          cfgs Hstep; [|discriminate..]. injection Hstep as <- <-.
        destruct (start_item_sound _ _ _ _ _ _ SI eq_refl) as (p' & Hp' & HP').
        apply SInv_next with (done := done) (it := El sy None (Some d)) (p' := p'); [exact Hwf| | | |exact Hp'|exact HP'].
        -- apply wf_el; auto.
        -- txt.
        -- rewrite <- Hc2. exact (acc_ok_el done acc sy None (Some d) Hacc).
    + injection Hstep as <- <-. apply SInv_stay with (done := done) (p' := PCount sy io (d ++ [ch])); auto; [txt|].
      cfgg. repeat split; auto.
  - (* Group *)
    destruct HP as (Hst & Hiso & Hgs). subst. cfgs Hstep.
    destruct (ch =? RP)%N eqn:P.
    + apply N.eqb_eq in P; subst ch. destruct (cps - 1 =? 0)%Z; injection Hstep as <- <-.
      * apply SInv_stay with (done := done) (p' := PGroupC body); auto; [txt|].
        cfgg. repeat split; auto; len.
      * apply SInv_stay with (done := done) (p' := PGroup (body ++ [RP])); auto; [txt|].
        cfgg. repeat split; auto.
    + destruct (ch =? LP)%N; injection Hstep as <- <-;
        (apply SInv_stay with (done := done) (p' := PGroup (body ++ [ch])); auto; [txt|]; cfgg; repeat split; auto).
  - (* GroupToGroupCount *)
    destruct HP as (Hst & Hiso & Hgs & Hge). subst. cfgs Hstep.
    destruct (negb (is_numeric uni_numeric ch)) eqn:Nm.
    + unfold take_group in Hstep. cfgs Hstep.
      rewrite (sl_mid s (render done ++ [LP]) body ([RP] ++ ch :: suf)) in Hstep; [|seq Hs|len|len].
      cfgs Hstep. destruct (parse_rec body) as [g| |] eqn:PR; cfgs Hstep; [|discriminate..].
      destruct (rec_sound body g PR) as (fb & Hfb1 & Hfb2 & Hfb3).
      match type of Hstep with context [start_item ?a ?b ?c ?d ?e] => destruct (start_item a b c d e) as [c1| |] eqn:SI end;
        cfgs Hstep; [|discriminate..]. injection Hstep as <- <-.
      destruct (start_item_sound _ _ _ _ _ _ SI eq_refl) as (p' & Hp' & HP').
      apply SInv_next with (done := done) (it := Gr fb None) (p' := p'); [exact Hwf| | | |exact Hp'|exact HP'].
      * apply wf_gr; auto.
      * rewrite render_item_Gr, Hfb2. txt.
      * apply acc_ok_gr1; auto.
    + injection Hstep as <- <-. apply SInv_stay with (done := done) (p' := PGroupN body [ch]); auto; [txt|].
      cfgg. repeat split; auto; len.
  - (* GroupCount *)
    destruct HP as (Hst & Hiso & Hgs & Hge & Hgcs). subst. cfgs Hstep.
    destruct (negb (is_numeric uni_numeric ch)) eqn:Nm.
    + unfold take_group in Hstep. cfgs Hstep.
      rewrite (sl_mid s (render done ++ [LP]) body ([RP] ++ d ++ ch :: suf)) in Hstep; [|seq Hs|len|len].
      cfgs Hstep. destruct (parse_rec body) as [g| |] eqn:PR; cfgs Hstep; [|discriminate..].
      destruct (rec_sound body g PR) as (fb & Hfb1 & Hfb2 & Hfb3).
      unfold take_gcount in Hstep. cfgs Hstep.
      rewrite (sl_mid s (render done ++ [LP] ++ body ++ [RP]) d (ch :: suf)) in Hstep; [|seq Hs|len|len].
      cfgs Hstep. destruct (parse_i32 d) as [cnt|] eqn:PC; cfgs Hstep; [|discriminate].
      destruct (cnt_ok_some _ _ PC) as [Hc1 Hc2].
      match type of Hstep with context [start_item ?a ?b ?c ?d ?e] => destruct (start_item a b c d e) as [c1| |] eqn:SI end;
        cfgs Hstep; [|discriminate..]. injection Hstep as <- <-.
      destruct (start_item_sound _ _ _ _ _ _ SI eq_refl) as (p' & Hp' & HP').
      apply SInv_next with (done := done) (it := Gr fb (Some d)) (p' := p'); [exact Hwf| | | |exact Hp'|exact HP'].
      * apply wf_gr; auto.
      * rewrite render_item_Gr, Hfb2. txt.
      * apply acc_ok_grn; auto.
    + injection Hstep as <- <-. apply SInv_stay with (done := done) (p' := PGroupN body (d ++ [ch])); auto; [txt|].
      cfgg. repeat split; auto.
Qed.

Lemma finish_sound acc c r :
  SInv s acc c -> finish has_elem has_iso parse_rec s acc c = FOk r -> Final s r.
Proof.
  intros (done & p & Hs & Hwf & Hacc & HP) Hfin.
  destruct c as [ces cee cis cie ccs cce cps cgs cge cgcs cgce cst].
  unfold finish in Hfin.
  assert (Hn : blen s = blen (render done ++ ptext p)) by (rewrite <- Hs; reflexivity).
  rewrite Hn in Hfin. clear Hn.
  change (id (s = render done ++ ptext p)) in Hs.
  destruct p as [|sy|sy d|sy d|sy io d|body|body|body d];
    cbn [PInv ptext es ee is_ ie cs ce pstack gs ge gcs gce fstate] in HP, Hs, Hfin.
  - destruct HP as (Hst & Hiso). subst. discriminate.
  - (* Element *)
    destruct HP as (Hst & Hiso & Hes & Hsh). subst. cfgs Hfin.
    unfold get_elem in Hfin. cfgs Hfin.
    rewrite (sl_mid s (render done) sy []) in Hfin; [|rewrite app_nil_r; seq Hs|reflexivity|len]. cfgs Hfin.
    destruct (has_elem sy) eqn:HE; cfgs Hfin; [|discriminate]. injection Hfin as <-.
    apply Final_intro with (done := done) (it := El sy None None); [exact Hwf| | | ].
    + apply wf_el; auto.
    + rewrite render_item_El. cbn [iso_text opt_text]. rewrite ?app_nil_r. exact Hs.
    + exact (acc_ok_el done acc sy None None Hacc).
  - destruct HP as (Hst & _). subst. discriminate.
  - (* IsotopeToCount *)
    destruct HP as (Hst & Hes & Hee & His & Hie & Hsh). subst. cfgs Hfin.
    unfold get_elem in Hfin. cfgs Hfin.
    rewrite (sl_mid s (render done) sy ([LB] ++ d ++ [RB])) in Hfin; [|seq Hs|reflexivity|len].
    cfgs Hfin. destruct (has_elem sy) eqn:HE; cfgs Hfin; [|discriminate].
    unfold parse_isotope_slice in Hfin. cfgs Hfin.
    rewrite (sl_mid s (render done ++ sy ++ [LB]) d [RB]) in Hfin; [|seq Hs|len|len].
    cfgs Hfin. destruct (parse_u16 d) as [n|] eqn:PU; cfgs Hfin; [|discriminate].
    unfold check_iso in Hfin. destruct ((n =? 0)%N || has_iso sy n) eqn:CI; cfgs Hfin; [|discriminate].
    destruct (iso_ok_some sy d n None PU CI) as [Hi1 Hi2]. injection Hfin as <-.
    apply Final_intro with (done := done) (it := El sy (Some d) None); [exact Hwf| | | ].
    + apply wf_el; auto.
    + rewrite render_item_El. seq Hs.
    + rewrite <- Hi2. exact (acc_ok_el done acc sy (Some d) None Hacc).
  - (* Count *)
    destruct HP as (Hst & Hes & Hee & Hcs & Hsh & Hio). subst. cfgs Hfin.
    unfold take_count in Hfin. cfgs Hfin.
    rewrite (sl_mid s (render done ++ sy ++ iso_text io) d []) in Hfin; [|rewrite app_nil_r; seq Hs|len|len].
    cfgs Hfin. destruct (parse_i32 d) as [cnt|] eqn:PC; cfgs Hfin; [|discriminate].
    destruct (cnt_ok_some _ _ PC) as [Hc1 Hc2].
    destruct io as [dd|].
    + destruct Hio as [-> ->]. destruct dd as [|x dd].
      * cbn [blen] in Hfin. rewrite Nat.add_0_r, Nat.eqb_refl in Hfin.
        unfold get_elem in Hfin. cfgs Hfin.
        rewrite (sl_mid s (render done) sy (iso_text (Some []) ++ d)) in Hfin; [|seq Hs|reflexivity|len].
        cfgs Hfin. destruct (has_elem sy) eqn:HE; cfgs Hfin; [|discriminate].
        unfold check_iso in Hfin. cbn [N.eqb orb] in Hfin. cfgs Hfin. injection Hfin as <-.
        apply Final_intro with (done := done) (it := El sy (Some []) (Some d)); [exact Hwf| | | ].
        -- apply wf_el; auto.
        -- rewrite render_item_El. seq Hs.
        -- rewrite <- Hc2. exact (acc_ok_el done acc sy (Some []) (Some d) Hacc).
      * replace (Nat.eqb _ _) with false in Hfin
          by (symmetry; apply Nat.eqb_neq; cbn [blen]; pose proof (width_pos x); lia).
        unfold parse_isotope_slice in Hfin. cfgs Hfin.
        rewrite (sl_mid s (render done ++ sy ++ [LB]) (x :: dd) ([RB] ++ d)) in Hfin; [|seq Hs|len|len].
        cfgs Hfin. destruct (parse_u16 (x :: dd)) as [n|] eqn:PU; cfgs Hfin; [|discriminate].
        unfold get_elem in Hfin. cfgs Hfin.
        rewrite (sl_mid s (render done) sy (iso_text (Some (x :: dd)) ++ d)) in Hfin; [|seq Hs|reflexivity|len].
        cfgs Hfin. destruct (has_elem sy) eqn:HE; cfgs Hfin; [|discriminate].
        unfold check_iso in Hfin. destruct ((n =? 0)%N || has_iso sy n) eqn:CI; cfgs Hfin; [|discriminate].
        destruct (iso_ok_some sy (x :: dd) n (Some d) PU CI) as [Hi1 Hi2]. injection Hfin as <-.
        apply Final_intro with (done := done) (it := El sy (Some (x :: dd)) (Some d)); [exact Hwf| | | ].
        -- apply wf_el; auto.
        -- rewrite render_item_El. seq Hs.
        -- rewrite <- Hc2, <- Hi2. exact (acc_ok_el done acc sy (Some (x :: dd)) (Some d) Hacc).
    + subst cie. rewrite Nat.eqb_refl in Hfin. cfgs Hfin.
      unfold get_elem in Hfin. cfgs Hfin.
      rewrite (sl_mid s (render done) sy d) in Hfin; [|seq Hs|reflexivity|len].
      cfgs Hfin. destruct (has_elem sy) eqn:HE; cfgs Hfin; [|discriminate].
      unfold check_iso in Hfin. cbn [N.eqb orb] in Hfin. cfgs Hfin. injection Hfin as <-.
      apply Final_intro with (done := done) (it := El sy None (Some d)); [exact Hwf| | | ].
      * apply wf_el; auto.
      * rewrite render_item_El. seq Hs.
      * rewrite <- Hc2. exact (acc_ok_el done acc sy None (Some d) Hacc).
  - destruct HP as (Hst & _). subst. discriminate.
  - (* GroupToGroupCount *)
    destruct HP as (Hst & Hiso & Hgs & Hge). subst. cfgs Hfin.
    unfold take_group in Hfin. cfgs Hfin.
    rewrite (sl_mid s (render done ++ [LP]) body [RP]) in Hfin; [|seq Hs|len|len].
    cfgs Hfin. destruct (parse_rec body) as [g| |] eqn:PR; cfgs Hfin; [|discriminate..].
    destruct (rec_sound body g PR) as (fb & Hfb1 & Hfb2 & Hfb3). injection Hfin as <-.
    apply Final_intro with (done := done) (it := Gr fb None); [exact Hwf| | | ].
    + apply wf_gr; auto.
    + rewrite render_item_Gr, Hfb2. seq Hs.
    + apply acc_ok_gr1; auto.
  - (* GroupCount *)
    destruct HP as (Hst & Hiso & Hgs & Hge & Hgcs). subst. cfgs Hfin.
    unfold take_group in Hfin. cfgs Hfin.
    rewrite (sl_mid s (render done ++ [LP]) body ([RP] ++ d)) in Hfin; [|seq Hs|len|len].
    cfgs Hfin. destruct (parse_rec body) as [g| |] eqn:PR; cfgs Hfin; [|discriminate..].
    destruct (rec_sound body g PR) as (fb & Hfb1 & Hfb2 & Hfb3).
    unfold take_gcount in Hfin. cfgs Hfin.
    rewrite (sl_mid s (render done ++ [LP] ++ body ++ [RP]) d []) in Hfin; [|rewrite app_nil_r; seq Hs|len|len].
    cfgs Hfin. destruct (parse_i32 d) as [cnt|] eqn:PC; cfgs Hfin; [|discriminate].
    destruct (cnt_ok_some _ _ PC) as [Hc1 Hc2]. injection Hfin as <-.
    apply Final_intro with (done := done) (it := Gr fb (Some d)); [exact Hwf| | | ].
    + apply wf_gr; auto.
    + rewrite render_item_Gr, Hfb2. seq Hs.
    + apply acc_ok_grn; auto.
Qed.

Lemma run_sound suf : forall pre acc c r, s = pre ++ suf -> SInv pre acc c ->
  run uni_numeric has_elem has_iso parse_rec s acc c (indices suf (blen pre)) = FOk r -> Final s r.
Proof.
  induction suf as [|ch suf IH]; intros pre acc c r Es HI Hrun; cbn [indices run] in Hrun.
  - rewrite app_nil_r in Es. subst pre. eapply finish_sound; eauto.
  - destruct (step uni_numeric has_elem has_iso parse_rec s acc c (blen pre) ch) as [[acc' c']| |] eqn:St;
      cbn [bind] in Hrun; [|discriminate..].
    pose proof (step_sound pre ch suf acc c acc' c' Es HI St) as HI'.
    replace (blen pre + width ch) with (blen (pre ++ [ch])) in Hrun by (rewrite blen_app; cbn [blen]; lia).
    apply (IH (pre ++ [ch]) acc' c' r); auto. rewrite <- app_assoc. exact Es.
Qed.
End Run.

Lemma SInv0 : SInv [] [] (cfg0).
Proof.
  exists [], PNew. split; [reflexivity|]. split; [reflexivity|]. split; [apply acc_ok_nil|].
  cbn. auto.
Qed.

Theorem parse_sound : forall fuel s c, parse uni_numeric has_elem has_iso fuel s = FOk c -> Final s c.
Proof.
  induction fuel as [|f IH]; intros s c H; cbn [parse] in H; [discriminate|].
  apply (run_sound s (parse uni_numeric has_elem has_iso f) (IH) s [] [] cfg0 c); auto.
  apply SInv0.
Qed.
End Sound.

Theorem parse_formula_sound : forall uni_numeric has_elem has_iso,
  (forall s, has_elem s = true -> forallb (fun x => negb (x =? RP)%N) s = true) ->
  forall s c, parse_formula uni_numeric has_elem has_iso s = FOk c ->
  exists f, wf uni_numeric has_elem has_iso true f = true /\ render f = s /\ (forall k, e_get k c = denote f k).
Proof.
  intros un he hi Hrp s c H. unfold parse_formula in H.
  destruct (parse_sound un he hi Hrp _ s c H) as (f & H1 & H2 & _ & H3).
  exists f. auto.
Qed.
Print Assumptions parse_formula_no_panic.
Print Assumptions parse_formula_sound.
