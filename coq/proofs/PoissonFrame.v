(* The Poisson m/z ladder does not depend on how many peaks are requested: asking for fewer peaks gives a prefix of the
   m/z values (intensities differ: each request is normalised on its own). Generic in the numeric interpretation. *)
From Coq Require Import List ZArith NArith Bool Arith Lia.
From CE Require Import Num OField Mz Peak Poisson PoissonProofs.
Import ListNotations.

Section PoissonFrame.
  Context {F : Type} (N : Num F).

  Lemma nth_firstn_lt {A} : forall (l : list A) n i d, i < n -> nth i (firstn n l) d = nth i l d.
  Proof.
    induction l as [|a l IH]; intros n i d Hi; [destruct n; destruct i; reflexivity|].
    destruct n as [|n]; [lia|]. destruct i as [|i]; cbn [firstn nth]; [reflexivity|]. apply IH. lia.
  Qed.

  Lemma pois_mz_prefix : forall mass n m z lf, n <= m ->
    map mz (poisson_approximation_impl N mass n z lf) = firstn n (map mz (poisson_approximation_impl N mass m z lf)).
  Proof.
    intros mass n m z lf Hnm.
    apply (nth_ext _ _ (zero N) (zero N)).
    - rewrite firstn_length, !map_length, !(pois_length N). lia.
    - intros i Hi. rewrite map_length, (pois_length N) in Hi.
      rewrite (nth_firstn_lt _ n i (zero N) Hi).
      change (zero N) with (mz (mkPeak (zero N) (zero N))).
      rewrite !map_nth.
      rewrite (pois_ladder N mass n z lf i Hi), (pois_ladder N mass m z lf i); [reflexivity|lia].
  Qed.

  (* the ladder is independent of lambda_factor as well: only intensities depend on it *)
  Lemma pois_mz_lambda_free : forall mass n z lf lf',
    map mz (poisson_approximation_impl N mass n z lf) = map mz (poisson_approximation_impl N mass n z lf').
  Proof.
    intros mass n z lf lf'.
    apply (nth_ext _ _ (zero N) (zero N)).
    - rewrite !map_length, !(pois_length N). reflexivity.
    - intros i Hi. rewrite map_length, (pois_length N) in Hi.
      change (zero N) with (mz (mkPeak (zero N) (zero N))).
      rewrite !map_nth, !(pois_ladder N) by assumption. reflexivity.
  Qed.
End PoissonFrame.
