(* C01: every strictly well-formed formula AST parses, to exactly the atoms it denotes. *)
From Coq Require Import List ZArith NArith Bool Arith String Lia.
From CE Require Import Str Comp Formula FormulaSpec.
Import ListNotations.

Local Open Scope nat_scope.

(* ------------------------------------------------------------------ *)
(* strings: byte lengths, indices, slices                              *)
(* ------------------------------------------------------------------ *)

Lemma width_pos : forall c, 1 <= width c.
Proof. intro c. unfold width. destruct (c <? 128)%N; [lia|]. destruct (c <? 2048)%N; [lia|]. destruct (c <? 65536)%N; lia. Qed.

Lemma blen_app : forall p q, blen (p ++ q) = blen p + blen q.
Proof. induction p as [|c p IH]; intro q; cbn [blen app]; [reflexivity|]. rewrite IH. lia. Qed.

Lemma indices_app : forall p q i, indices (p ++ q) i = indices p i ++ indices q (i + blen p).
Proof.
  induction p as [|c p IH]; intros q i.
  - cbn [indices blen app]. replace (i + 0) with i by lia. reflexivity.
  - cbn [indices blen app]. rewrite IH. replace (i + width c + blen p) with (i + (width c + blen p)) by lia. reflexivity.
Qed.

Lemma drop_bytes_app : forall p q, drop_bytes (p ++ q) (blen p) = Some q.
Proof.
  induction p as [|c p IH]; intro q; cbn [blen app].
  - destruct q; reflexivity.
  - pose proof (width_pos c) as Hw.
    cbn [drop_bytes].
    destruct (width c + blen p) as [|m] eqn:E; [lia|].
    rewrite <- E.
    replace (width c <=? width c + blen p) with true by (symmetry; apply Nat.leb_le; lia).
    replace (width c + blen p - width c) with (blen p) by lia.
    apply IH.
Qed.

Lemma take_bytes_app : forall m q, take_bytes (m ++ q) (blen m) = Some m.
Proof.
  induction m as [|c m IH]; intro q; cbn [blen app].
  - destruct q; reflexivity.
  - pose proof (width_pos c) as Hw.
    cbn [take_bytes].
    destruct (width c + blen m) as [|k] eqn:E; [lia|].
    rewrite <- E.
    replace (width c <=? width c + blen m) with true by (symmetry; apply Nat.leb_le; lia).
    replace (width c + blen m - width c) with (blen m) by lia.
    rewrite IH. reflexivity.
Qed.

Lemma slice_eq : forall s p m q a b,
  s = p ++ m ++ q -> a = blen p -> b = a + blen m -> slice s a b = Some m.
Proof.
  intros s p m q a b -> -> ->. unfold slice.
  replace (blen p <=? blen p + blen m) with true by (symmetry; apply Nat.leb_le; lia).
  rewrite drop_bytes_app.
  replace (blen p + blen m - blen p) with (blen m) by lia.
  apply take_bytes_app.
Qed.

(* ------------------------------------------------------------------ *)
(* the accumulator                                                     *)
(* ------------------------------------------------------------------ *)

Lemma str_eqb_spec : forall a b, reflect (a = b) (str_eqb a b).
Proof. intros a b. unfold str_eqb. destruct (list_eq_dec N.eq_dec a b); constructor; assumption. Qed.

Lemma key_eqb_spec : forall a b : key, reflect (a = b) (key_eqb a b).
Proof.
  intros [a1 a2] [b1 b2]. unfold key_eqb. cbn [fst snd].
  destruct (str_eqb_spec a1 b1) as [E1|E1]; cbn [andb].
  - destruct (N.eqb_spec a2 b2) as [E2|E2]; constructor; congruence.
  - constructor; congruence.
Qed.

Lemma key_eqb_refl : forall k, key_eqb k k = true.
Proof. intro k. destruct (key_eqb_spec k k); congruence. Qed.

Lemma key_eqb_sym : forall a b, key_eqb a b = key_eqb b a.
Proof. intros a b. destruct (key_eqb_spec a b), (key_eqb_spec b a); congruence. Qed.

Local Open Scope Z_scope.

Fixpoint tot (k : key) (l : ents) : Z :=
  match l with [] => 0 | (k', v) :: r => (if key_eqb k k' then v else 0) + tot k r end.

Fixpoint nd (l : ents) : Prop :=
  match l with [] => True | (k, _) :: r => e_mem k r = false /\ nd r end.

Lemma e_get_set : forall k k' v l, e_get k (e_set k' v l) = if key_eqb k k' then v else e_get k l.
Proof.
  intros k k' v l. induction l as [|[k0 v0] r IH]; cbn [e_set e_get].
  - reflexivity.
  - destruct (key_eqb_spec k' k0) as [E|E]; cbn [e_get].
    + subst k0. destruct (key_eqb k k'); reflexivity.
    + rewrite IH. destruct (key_eqb_spec k k0) as [E0|E0]; [|reflexivity].
      subst k0. destruct (key_eqb_spec k k'); congruence.
Qed.

Lemma e_mem_set : forall k k' v l, e_mem k (e_set k' v l) = key_eqb k k' || e_mem k l.
Proof.
  intros k k' v l. induction l as [|[k0 v0] r IH]; cbn [e_set e_mem].
  - reflexivity.
  - destruct (key_eqb_spec k' k0) as [E|E]; cbn [e_mem].
    + subst k0. destruct (key_eqb k k'); reflexivity.
    + rewrite IH. destruct (key_eqb k k0), (key_eqb k k'); reflexivity.
Qed.

Lemma nd_set : forall k v l, nd l -> nd (e_set k v l).
Proof.
  intros k v l. induction l as [|[k0 v0] r IH]; cbn [e_set nd]; intro H.
  - split; [reflexivity|exact I].
  - destruct H as [H1 H2]. destruct (key_eqb_spec k k0) as [E|E]; cbn [nd].
    + split; assumption.
    + split; [|apply IH; assumption].
      rewrite e_mem_set, H1. destruct (key_eqb_spec k0 k); [congruence|reflexivity].
Qed.

Lemma e_get_inc : forall k k' n l, e_get k (e_inc k' n l) = e_get k l + (if key_eqb k k' then n else 0).
Proof.
  intros k k' n l. unfold e_inc. rewrite e_get_set.
  destruct (key_eqb_spec k k') as [E|E]; [subst; reflexivity|lia].
Qed.

Lemma e_mem_inc : forall k k' n l, e_mem k (e_inc k' n l) = key_eqb k k' || e_mem k l.
Proof. intros. unfold e_inc. apply e_mem_set. Qed.

Lemma nd_inc : forall k n l, nd l -> nd (e_inc k n l).
Proof. intros. unfold e_inc. apply nd_set. assumption. Qed.

Lemma tot_notmem : forall k l, e_mem k l = false -> tot k l = 0.
Proof.
  intros k l. induction l as [|[k0 v0] r IH]; cbn [e_mem tot]; intro H; [reflexivity|].
  apply orb_false_iff in H. destruct H as [H1 H2]. rewrite H1, IH by assumption. reflexivity.
Qed.

Lemma e_get_tot : forall k l, nd l -> e_get k l = tot k l.
Proof.
  intros k l. induction l as [|[k0 v0] r IH]; cbn [nd e_get tot]; intro H; [reflexivity|].
  destruct H as [H1 H2]. destruct (key_eqb_spec k k0) as [E|E].
  - subst k0. rewrite tot_notmem by assumption. lia.
  - rewrite IH by assumption. lia.
Qed.

Lemma e_get_add : forall k b a, e_get k (e_add a b) = e_get k a + tot k b.
Proof.
  intros k b. unfold e_add. induction b as [|[k0 v0] r IH]; intro a; cbn [fold_left tot fst snd].
  - lia.
  - rewrite IH, e_get_inc. lia.
Qed.

Lemma e_mem_add : forall k b a, e_mem k (e_add a b) = e_mem k a || e_mem k b.
Proof.
  intros k b. unfold e_add. induction b as [|[k0 v0] r IH]; intro a; cbn [fold_left e_mem fst snd].
  - rewrite orb_false_r. reflexivity.
  - rewrite IH, e_mem_inc. destruct (key_eqb k k0), (e_mem k a); reflexivity.
Qed.

Lemma nd_add : forall b a, nd a -> nd (e_add a b).
Proof.
  intros b. unfold e_add. induction b as [|[k0 v0] r IH]; intros a H; cbn [fold_left]; [assumption|].
  apply IH. apply nd_inc. assumption.
Qed.

Lemma tot_mul : forall k g n, tot k (e_mul g n) = tot k g * n.
Proof.
  intros k g n. unfold e_mul. induction g as [|[k0 v0] r IH]; cbn [map tot fst snd]; [reflexivity|].
  rewrite IH. destruct (key_eqb k k0); lia.
Qed.

Lemma e_mem_mul : forall k g n, e_mem k (e_mul g n) = e_mem k g.
Proof.
  intros k g n. unfold e_mul. induction g as [|[k0 v0] r IH]; cbn [map e_mem fst snd]; [reflexivity|].
  rewrite IH. reflexivity.
Qed.

Local Close Scope Z_scope.

(* ------------------------------------------------------------------ *)
(* characters                                                          *)
(* ------------------------------------------------------------------ *)

Ltac ncases :=
  repeat match goal with
  | |- context[N.leb ?a ?b] => destruct (N.leb_spec a b)
  | |- context[N.ltb ?a ?b] => destruct (N.ltb_spec a b)
  | |- context[N.eqb ?a ?b] => destruct (N.eqb_spec a b)
  end; cbn [andb orb negb]; try reflexivity; try discriminate; try lia.

Lemma upper_range : forall ch, is_upper ch = true -> (65 <= ch <= 90)%N.
Proof. intros ch H. unfold is_upper in H. apply andb_true_iff in H. rewrite !N.leb_le in H. exact H. Qed.
Lemma digit_range : forall ch, is_digit ch = true -> (48 <= ch <= 57)%N.
Proof. intros ch H. unfold is_digit in H. apply andb_true_iff in H. rewrite !N.leb_le in H. exact H. Qed.

Lemma wLB : width LB = 1. Proof. reflexivity. Qed.
Lemma wRB : width RB = 1. Proof. reflexivity. Qed.
Lemma wLP : width LP = 1. Proof. reflexivity. Qed.
Lemma wRP : width RP = 1. Proof. reflexivity. Qed.

Lemma upper_alpha : forall ch, is_upper ch = true -> is_alpha ch = true.
Proof. intros ch H. unfold is_alpha. rewrite H. reflexivity. Qed.
Lemma upper_not_LP : forall ch, is_upper ch = true -> (ch =? LP)%N = false.
Proof. intros ch H. apply upper_range in H. unfold LP. ncases. Qed.
Lemma upper_not_num : forall un ch, is_upper ch = true -> is_numeric un ch = false.
Proof. intros un ch H. apply upper_range in H. unfold is_numeric, is_digit. ncases. Qed.
Lemma LP_not_upper : is_upper LP = false. Proof. reflexivity. Qed.
Lemma LP_not_alpha : is_alpha LP = false. Proof. reflexivity. Qed.
Lemma LP_not_num : forall un, is_numeric un LP = false. Proof. reflexivity. Qed.

Lemma digit_num : forall un ch, is_digit ch = true -> is_numeric un ch = true.
Proof. intros un ch H. unfold is_numeric. rewrite H. apply digit_range in H. ncases. Qed.
Lemma digit_not_alpha : forall ch, is_digit ch = true -> is_alpha ch = false.
Proof. intros ch H. apply digit_range in H. unfold is_alpha, is_upper, is_lower. ncases. Qed.
Lemma digit_not_RB : forall ch, is_digit ch = true -> (ch =? RB)%N = false.
Proof. intros ch H. apply digit_range in H. unfold RB. ncases. Qed.
Lemma digit_not_LP : forall ch, is_digit ch = true -> (ch =? LP)%N = false.
Proof. intros ch H. apply digit_range in H. unfold LP. ncases. Qed.
Lemma digit_not_RP : forall ch, is_digit ch = true -> (ch =? RP)%N = false.
Proof. intros ch H. apply digit_range in H. unfold RP. ncases. Qed.

Lemma start_not_num : forall un ch, is_upper ch = true \/ ch = LP -> is_numeric un ch = false.
Proof. intros un ch [H| ->]; [apply upper_not_num; assumption|reflexivity]. Qed.

Lemma parse_uint_val : forall b d n, parse_uint b d = Some n -> digits_val d 0 = Some n.
Proof.
  intros b d n H. unfold parse_uint in H. destruct d as [|c r]; [discriminate|].
  destruct (digits_val (c :: r) 0) as [v|]; [|discriminate].
  destruct (v <=? b)%N; congruence.
Qed.

(* ------------------------------------------------------------------ *)
(* the specification side, unfolded                                    *)
(* ------------------------------------------------------------------ *)

Definition iso_text (i : option str) : str := match i with Some d => [LB] ++ d ++ [RB] | None => [] end.

Lemma render_cons : forall it f, render (it :: f) = render_item it ++ render f.
Proof. reflexivity. Qed.
Lemma render_item_El : forall s i c, render_item (El s i c) = s ++ iso_text i ++ opt_text c.
Proof. reflexivity. Qed.
Lemma render_item_Gr : forall b c, render_item (Gr b c) = [LP] ++ render b ++ [RP] ++ opt_text c.
Proof.
  intros b c. cbn [render_item]. do 2 f_equal.
  induction b as [|x r IH]; [reflexivity|]. rewrite render_cons, IH. reflexivity.
Qed.

Lemma denote_cons : forall it f k, denote (it :: f) k = (denote_item it k + denote f k)%Z.
Proof. reflexivity. Qed.
Lemma denote_item_Gr : forall b c k, denote_item (Gr b c) k = (cnt_val c * denote b k)%Z.
Proof.
  intros b c k. cbn [denote_item]. f_equal.
Qed.

Lemma named_cons : forall it f k, named (it :: f) k = named_item it k || named f k.
Proof. reflexivity. Qed.
Lemma named_item_Gr : forall b c k, named_item (Gr b c) k = named b k.
Proof.
  intros b c k. cbn [named_item].
  induction b as [|x r IH]; [reflexivity|]. rewrite named_cons, IH. reflexivity.
Qed.

Lemma wf_item_Gr : forall un he hi l b c,
  wf_item un he hi l (Gr b c) = cnt_ok c && negb (Nat.eqb (List.length b) 0) && forallb (wf_item un he hi l) b.
Proof.
  intros. cbn [wf_item]. f_equal.
Qed.

Fixpoint item_ind' (P : item -> Prop)
  (HEl : forall s i c, P (El s i c))
  (HGr : forall b c, Forall P b -> P (Gr b c)) (it : item) : P it :=
  match it with
  | El s i c => HEl s i c
  | Gr b c => HGr b c ((fix go (l : list item) : Forall P l :=
                          match l with [] => Forall_nil _ | x :: r => Forall_cons _ (item_ind' P HEl HGr x) (go r) end) b)
  end.

(* ------------------------------------------------------------------ *)
(* the machine                                                         *)
(* ------------------------------------------------------------------ *)

Ltac proj := cbn [es ee is_ ie cs ce pstack gs ge gcs gce fstate
                  set_es set_ee set_is set_ie set_cs set_ce set_ps set_gs set_ge set_gcs set_gce set_st] in *.

Section FC.
Variable uni_numeric : char -> bool.
Variable has_elem : str -> bool.
Variable has_iso : str -> N -> bool.

Notation isnum := (is_numeric uni_numeric).
Notation wfi := (wf_item uni_numeric has_elem has_iso false).
Notation wff := (wf uni_numeric has_elem has_iso false).

Definition Good (f : list item) (g : ents) : Prop :=
  nd g /\ (forall k, e_get k g = denote f k) /\ (forall k, e_mem k g = true -> named f k = true).

Section WithRec.
Variable prec : str -> fres ents.
Notation stepR := (step uni_numeric has_elem has_iso prec).
Notation finishR := (finish has_elem has_iso prec).
Notation runR := (run uni_numeric has_elem has_iso prec).

Fixpoint steps (s : str) (acc : ents) (c : cfg) (l : list (nat * char)) : fres (ents * cfg) :=
  match l with
  | [] => FOk (acc, c)
  | (i, ch) :: t => match stepR s acc c i ch with FOk (a, c') => steps s a c' t | FErr e => FErr e | FPanic => FPanic end
  end.

Lemma run_steps : forall l1 l2 s acc c a' c',
  steps s acc c l1 = FOk (a', c') -> runR s acc c (l1 ++ l2) = runR s a' c' l2.
Proof.
  induction l1 as [|[i ch] t IH]; intros l2 s acc c a' c' H; cbn [steps app run] in *.
  - inversion H. reflexivity.
  - destruct (stepR s acc c i ch) as [[a1 c1]| |]; try discriminate. cbn [bind]. apply IH. assumption.
Qed.

Lemma steps_app : forall l1 l2 s acc c a' c',
  steps s acc c l1 = FOk (a', c') -> steps s acc c (l1 ++ l2) = steps s a' c' l2.
Proof.
  induction l1 as [|[i ch] t IH]; intros l2 s acc c a' c' H; cbn [steps app] in *.
  - inversion H. reflexivity.
  - destruct (stepR s acc c i ch) as [[a1 c1]| |]; try discriminate. apply IH. assumption.
Qed.

Lemma steps_stay : forall (p : char -> bool) s acc c,
  (forall i ch, p ch = true -> stepR s acc c i ch = FOk (acc, c)) ->
  forall t off, forallb p t = true -> steps s acc c (indices t off) = FOk (acc, c).
Proof.
  intros p s acc c Hp. induction t as [|x r IH]; intros off H; cbn [indices steps forallb] in *; [reflexivity|].
  apply andb_true_iff in H. destruct H as [H1 H2]. rewrite (Hp _ _ H1). apply IH. assumption.
Qed.

(* absorbing steps *)
Lemma step_element_tail : forall s acc c i x, fstate c = Element ->
  negb (sym_stop uni_numeric x) && negb (x =? RP)%N = true -> stepR s acc c i x = FOk (acc, c).
Proof.
  intros s acc c i x Hst H. unfold sym_stop in H.
  apply andb_true_iff in H. destruct H as [H _]. apply negb_true_iff in H.
  apply orb_false_iff in H. destruct H as [H HLP]. apply orb_false_iff in H. destruct H as [H HLB].
  apply orb_false_iff in H. destruct H as [Hup Hnum]. change (isnum x = false) in Hnum.
  unfold step. rewrite Hst. rewrite Hup, Hnum, HLB, HLP. destruct (is_alpha x); reflexivity.
Qed.

Lemma step_isotope_digit : forall s acc c i x, fstate c = Isotope -> is_digit x = true -> stepR s acc c i x = FOk (acc, c).
Proof.
  intros s acc c i x Hst H. unfold step. rewrite Hst, (digit_not_RB _ H), (digit_num _ _ H). reflexivity.
Qed.
Lemma step_count_digit : forall s acc c i x, fstate c = Count -> is_digit x = true -> stepR s acc c i x = FOk (acc, c).
Proof.
  intros s acc c i x Hst H. unfold step. rewrite Hst, (digit_num _ _ H). reflexivity.
Qed.
Lemma step_gcount_digit : forall s acc c i x, fstate c = GroupCount -> is_digit x = true -> stepR s acc c i x = FOk (acc, c).
Proof.
  intros s acc c i x Hst H. unfold step. rewrite Hst, (digit_num _ _ H). reflexivity.
Qed.

(* transitions inside an item *)
Lemma step_element_digit : forall s acc c i x, fstate c = Element -> is_digit x = true ->
  stepR s acc c i x = FOk (acc, set_st (set_cs (set_ee c i) i) Count).
Proof.
  intros s acc c i x Hst H. unfold step. rewrite Hst, (digit_not_alpha _ H), (digit_num _ _ H). reflexivity.
Qed.
Lemma step_element_LB : forall s acc c i, fstate c = Element ->
  stepR s acc c i LB = FOk (acc, set_st (set_is (set_ee c i) (i + 1)) Isotope).
Proof. intros s acc c i Hst. unfold step. rewrite Hst. reflexivity. Qed.
Lemma step_isotope_RB : forall s acc c i, fstate c = Isotope ->
  stepR s acc c i RB = FOk (acc, set_st (set_ie c i) IsotopeToCount).
Proof. intros s acc c i Hst. unfold step. rewrite Hst. reflexivity. Qed.
Lemma step_itc_digit : forall s acc c i x, fstate c = IsotopeToCount -> is_digit x = true ->
  stepR s acc c i x = FOk (acc, set_st (set_cs c i) Count).
Proof. intros s acc c i x Hst H. unfold step. rewrite Hst, (digit_num _ _ H). reflexivity. Qed.
Lemma step_gtgc_digit : forall s acc c i x, fstate c = GroupToGroupCount -> is_digit x = true ->
  stepR s acc c i x = FOk (acc, set_st (set_gcs c i) GroupCount).
Proof. intros s acc c i x Hst H. unfold step. rewrite Hst, (digit_num _ _ H). reflexivity. Qed.

(* an item has just been started at byte offset off by character ch *)
Definition Started (c : cfg) (off : nat) (ch : char) : Prop :=
  is_ c = ie c /\
  ((is_upper ch = true /\ fstate c = Element /\ es c = off /\ pstack c = 0%Z)
   \/ (ch = LP /\ fstate c = Group /\ gs c = off + 1 /\ pstack c = 1%Z)).

(* a complete item is pending in c; it ends at byte offset e; flushing it applies F to the accumulator *)
Definition Pend (s : str) (c : cfg) (e : nat) (F : ents -> ents) : Prop :=
  forall acc,
    (forall ch, is_upper ch = true \/ ch = LP ->
       exists c', stepR s acc c e ch = FOk (F acc, c') /\ Started c' e ch)
    /\ (e = blen s -> finishR s acc c = FOk (F acc)).

Lemma pend_element : forall s c e sym,
  fstate c = Element -> pstack c = 0%Z -> is_ c = ie c ->
  slice s (es c) e = Some sym -> has_elem sym = true ->
  Pend s c e (e_inc (sym, 0%N) 1).
Proof.
  intros s c e sym Hst Hps Hiso Hsl Hel acc.
  destruct c as [es0 ee0 is0 ie0 cs0 ce0 ps0 gs0 ge0 gcs0 gce0 st0]. proj. subst. split.
  - intros ch Hch. unfold step. proj. destruct Hch as [Hu| ->].
    + rewrite (upper_alpha _ Hu), Hu. unfold get_elem, sl. proj. rewrite Hsl. cbn [bind]. rewrite Hel.
      eexists. split; [reflexivity|]. unfold Started. proj. split; [reflexivity|]. left. auto.
    + rewrite LP_not_alpha, LP_not_num. change ((LP =? LB)%N) with false. change ((LP =? LP)%N) with true.
      cbv iota. unfold get_elem, sl. proj. rewrite Hsl. cbn [bind]. rewrite Hel.
      eexists. split; [reflexivity|]. unfold Started. proj. split; [reflexivity|]. right. auto.
  - intros ->. unfold finish. proj. unfold get_elem, sl. proj. rewrite Hsl. cbn [bind]. rewrite Hel. reflexivity.
Qed.

Ltac red1 := cbn [bind of_opt]; cbv beta iota zeta.

Lemma pend_itc : forall s c e sym di n,
  fstate c = IsotopeToCount -> pstack c = 0%Z ->
  slice s (es c) (ee c) = Some sym -> has_elem sym = true ->
  slice s (is_ c) (ie c) = Some di -> parse_u16 di = Some n -> has_iso sym n = true ->
  Pend s c e (e_inc (sym, n) 1).
Proof.
  intros s c e sym di n Hst Hps Hsl Hel Hsli Hpi Hhi acc.
  destruct c as [es0 ee0 is0 ie0 cs0 ce0 ps0 gs0 ge0 gcs0 gce0 st0]. proj. subst. split.
  - intros ch Hch. unfold step. proj. rewrite (start_not_num uni_numeric _ Hch).
    unfold get_elem, sl. proj. rewrite Hsl. red1. rewrite Hel. red1.
    unfold parse_isotope_slice, sl. proj. rewrite Hsli. red1. rewrite Hpi. red1.
    unfold check_iso. rewrite Hhi, orb_true_r. red1.
    unfold start_item. destruct Hch as [Hu| ->].
    + rewrite (upper_not_LP _ Hu), Hu. red1.
      eexists. split; [reflexivity|]. unfold Started. proj. split; [reflexivity|]. left. auto.
    + change ((LP =? LP)%N) with true. red1.
      eexists. split; [reflexivity|]. unfold Started. proj. split; [reflexivity|]. right. auto.
  - intros ->. unfold finish. proj. unfold get_elem, sl. proj. rewrite Hsl. red1. rewrite Hel. red1.
    unfold parse_isotope_slice, sl. proj. rewrite Hsli. red1. rewrite Hpi. red1.
    unfold check_iso. rewrite Hhi, orb_true_r. red1. reflexivity.
Qed.

Definition IsoInfo (s : str) (c : cfg) (sym : str) (n : N) : Prop :=
  (ie c = is_ c /\ n = 0%N)
  \/ (ie c <> is_ c /\ exists di, slice s (is_ c) (ie c) = Some di /\ parse_u16 di = Some n /\ has_iso sym n = true).

Lemma pend_count : forall s c e sym d n ison,
  fstate c = Count -> pstack c = 0%Z ->
  slice s (es c) (ee c) = Some sym -> has_elem sym = true ->
  slice s (cs c) e = Some d -> parse_i32 d = Some n ->
  IsoInfo s c sym ison ->
  Pend s c e (e_inc (sym, ison) (Z.of_N n)).
Proof.
  intros s c e sym d n ison Hst Hps Hsl Hel Hsld Hpd Hiso acc.
  destruct c as [es0 ee0 is0 ie0 cs0 ce0 ps0 gs0 ge0 gcs0 gce0 st0]. unfold IsoInfo in Hiso. proj. subst.
  assert (Hisoev : forall c', is_ c' = is0 -> ie c' = ie0 ->
            exists n', (if Nat.eqb (ie c') (is_ c') then FOk 0%N else parse_isotope_slice s c') = FOk n'
                       /\ check_iso has_iso sym n' = FOk ison).
  { intros c' E1 E2. rewrite E1, E2. destruct Hiso as [[E ->]|[E [di [Hsli [Hpi Hhi]]]]].
    - subst. rewrite Nat.eqb_refl. exists 0%N. split; reflexivity.
    - apply Nat.eqb_neq in E. rewrite E. exists ison. unfold parse_isotope_slice, sl. rewrite E1, E2, Hsli. red1.
      rewrite Hpi. split; [reflexivity|]. unfold check_iso. rewrite Hhi, orb_true_r. reflexivity. }
  split.
  - intros ch Hch. unfold step. proj. rewrite (start_not_num uni_numeric _ Hch). cbn [negb].
    unfold take_count, sl. proj. rewrite Hsld. red1. rewrite Hpd. red1.
    match goal with |- context[if Nat.eqb (ie ?c') (is_ ?c') then _ else _] =>
      destruct (Hisoev c' eq_refl eq_refl) as [n' [Hn1 Hn2]] end.
    rewrite Hn1. red1.
    unfold get_elem, sl. proj. rewrite Hsl. red1. rewrite Hel. red1. rewrite Hn2. red1.
    unfold start_item. destruct Hch as [Hu| ->].
    + rewrite (upper_not_LP _ Hu), Hu. red1.
      eexists. split; [reflexivity|]. unfold Started. proj. split; [reflexivity|]. left. auto.
    + change ((LP =? LP)%N) with true. red1.
      eexists. split; [reflexivity|]. unfold Started. proj. split; [reflexivity|]. right. auto.
  - intros ->. unfold finish. proj.
    unfold take_count, sl. proj. rewrite Hsld. red1. rewrite Hpd. red1.
    match goal with |- context[if Nat.eqb (ie ?c') (is_ ?c') then _ else _] =>
      destruct (Hisoev c' eq_refl eq_refl) as [n' [Hn1 Hn2]] end.
    rewrite Hn1. red1.
    unfold get_elem, sl. proj. rewrite Hsl. red1. rewrite Hel. red1. rewrite Hn2. red1. reflexivity.
Qed.

Lemma pend_gtgc : forall s c e body g,
  fstate c = GroupToGroupCount -> pstack c = 0%Z -> is_ c = ie c ->
  slice s (gs c) (ge c) = Some body -> prec body = FOk g ->
  Pend s c e (fun acc => e_add acc g).
Proof.
  intros s c e body g Hst Hps Hiso Hsl Hg acc.
  destruct c as [es0 ee0 is0 ie0 cs0 ce0 ps0 gs0 ge0 gcs0 gce0 st0]. proj. subst. split.
  - intros ch Hch. unfold step. proj. rewrite (start_not_num uni_numeric _ Hch). cbn [negb].
    unfold take_group, sl. proj. rewrite Hsl. red1. rewrite Hg. red1.
    unfold start_item. destruct Hch as [Hu| ->].
    + rewrite (upper_not_LP _ Hu), Hu. red1.
      eexists. split; [reflexivity|]. unfold Started. proj. split; [reflexivity|]. left. auto.
    + change ((LP =? LP)%N) with true. red1.
      eexists. split; [reflexivity|]. unfold Started. proj. split; [reflexivity|]. right. auto.
  - intros ->. unfold finish. proj. unfold take_group, sl. proj. rewrite Hsl. red1. rewrite Hg. red1. reflexivity.
Qed.

Lemma pend_gcount : forall s c e body g d n,
  fstate c = GroupCount -> pstack c = 0%Z -> is_ c = ie c ->
  slice s (gs c) (ge c) = Some body -> prec body = FOk g ->
  slice s (gcs c) e = Some d -> parse_i32 d = Some n ->
  Pend s c e (fun acc => e_add acc (e_mul g (Z.of_N n))).
Proof.
  intros s c e body g d n Hst Hps Hiso Hsl Hg Hsld Hpd acc.
  destruct c as [es0 ee0 is0 ie0 cs0 ce0 ps0 gs0 ge0 gcs0 gce0 st0]. proj. subst. split.
  - intros ch Hch. unfold step. proj. rewrite (start_not_num uni_numeric _ Hch). cbn [negb].
    unfold take_group, sl. proj. rewrite Hsl. red1. rewrite Hg. red1.
    unfold take_gcount, sl. proj. rewrite Hsld. red1. rewrite Hpd. red1.
    unfold start_item. destruct Hch as [Hu| ->].
    + rewrite (upper_not_LP _ Hu), Hu. red1.
      eexists. split; [reflexivity|]. unfold Started. proj. split; [reflexivity|]. left. auto.
    + change ((LP =? LP)%N) with true. red1.
      eexists. split; [reflexivity|]. unfold Started. proj. split; [reflexivity|]. right. auto.
  - intros ->. unfold finish. proj. unfold take_group, sl. proj. rewrite Hsl. red1. rewrite Hg. red1.
    unfold take_gcount, sl. proj. rewrite Hsld. red1. rewrite Hpd. red1. reflexivity.
Qed.

(* ---- scanning a group body ---- *)
Definition GScan (t : str) : Prop :=
  forall s acc c off, fstate c = Group -> (1 <= pstack c)%Z -> steps s acc c (indices t off) = FOk (acc, c).

Definition np (t : str) : bool := forallb (fun x => negb (x =? LP)%N && negb (x =? RP)%N) t.

Lemma gscan_np : forall t, np t = true -> GScan t.
Proof.
  intros t H s acc c off Hst Hps.
  apply steps_stay with (p := fun x => negb (x =? LP)%N && negb (x =? RP)%N); [|exact H].
  intros i ch Hch. apply andb_true_iff in Hch. destruct Hch as [H1 H2].
  apply negb_true_iff in H1. apply negb_true_iff in H2.
  unfold step. rewrite Hst, H1, H2. reflexivity.
Qed.

Lemma gscan_app : forall a b, GScan a -> GScan b -> GScan (a ++ b).
Proof.
  intros a b Ha Hb s acc c off Hst Hps. rewrite indices_app.
  rewrite (steps_app _ _ _ _ _ _ _ (Ha s acc c off Hst Hps)). apply Hb; assumption.
Qed.

Lemma gscan_paren : forall t, GScan t -> GScan ([LP] ++ t ++ [RP]).
Proof.
  intros t Ht s acc c off Hst Hps. cbn [app indices steps].
  assert (E1 : stepR s acc c off LP = FOk (acc, set_ps c (pstack c + 1)%Z)).
  { unfold step. rewrite Hst. reflexivity. }
  rewrite E1. rewrite indices_app.
  assert (Hst1 : fstate (set_ps c (pstack c + 1)%Z) = Group) by (proj; assumption).
  assert (Hps1 : (1 <= pstack (set_ps c (pstack c + 1)%Z))%Z) by (proj; lia).
  rewrite (steps_app _ _ _ _ _ _ _ (Ht s acc _ _ Hst1 Hps1)).
  cbn [indices steps]. unfold step. rewrite Hst1. change ((RP =? RP)%N) with true. cbv iota. proj.
  destruct (Z.eqb_spec (pstack c + 1 - 1) 0) as [E|E]; [lia|].
  do 2 f_equal. destruct c as [es0 ee0 is0 ie0 cs0 ce0 ps0 gs0 ge0 gcs0 gce0 st0]. unfold set_ps. proj. f_equal. lia.
Qed.

Lemma np_app : forall a b, np (a ++ b) = np a && np b.
Proof. intros. unfold np. apply forallb_app. Qed.

Lemma np_digits : forall d, forallb is_digit d = true -> np d = true.
Proof.
  intros d H. unfold np. rewrite forallb_forall in *. intros x Hx. specialize (H x Hx).
  rewrite (digit_not_LP _ H), (digit_not_RP _ H). reflexivity.
Qed.

Lemma digits_ok_inv : forall d, digits_ok d = true -> exists d0 dt, d = d0 :: dt /\ is_digit d0 = true /\ forallb is_digit dt = true.
Proof.
  intros d H. unfold digits_ok in H. apply andb_true_iff in H. destruct H as [H1 H2].
  destruct d as [|d0 dt]; [discriminate|]. cbn [forallb] in H2. apply andb_true_iff in H2.
  exists d0, dt. tauto.
Qed.

Lemma digits_ok_all : forall d, digits_ok d = true -> forallb is_digit d = true.
Proof. intros d H. unfold digits_ok in H. apply andb_true_iff in H. tauto. Qed.

Lemma cnt_ok_inv : forall cn, cnt_ok cn = true ->
  match cn with Some d => digits_ok d = true /\ exists n, parse_i32 d = Some n /\ cnt_val cn = Z.of_N n | None => True end.
Proof.
  intros [d|] H; [|exact I]. cbn [cnt_ok] in H. apply andb_true_iff in H. destruct H as [H1 H2].
  split; [assumption|]. destruct (parse_i32 d) as [n|] eqn:E; [|discriminate].
  exists n. split; [reflexivity|]. unfold cnt_val. rewrite (parse_uint_val _ _ _ E). reflexivity.
Qed.

Lemma np_cnt : forall cn, cnt_ok cn = true -> np (opt_text cn) = true.
Proof.
  intros [d|] H; [|reflexivity]. apply cnt_ok_inv in H. destruct H as [H _].
  cbn [opt_text]. apply np_digits, digits_ok_all. assumption.
Qed.

Lemma upper_not_RP : forall ch, is_upper ch = true -> (ch =? RP)%N = false.
Proof. intros ch H. apply upper_range in H. unfold RP. ncases. Qed.

Lemma np_El : forall sy i cn, wfi (El sy i cn) = true -> np (render_item (El sy i cn)) = true.
Proof.
  intros sy i cn H. cbn [wf_item] in H.
  apply andb_true_iff in H. destruct H as [H Hio]. apply andb_true_iff in H. destruct H as [H Hcn].
  apply andb_true_iff in H. destruct H as [Hsh _].
  rewrite render_item_El, !np_app. rewrite (np_cnt _ Hcn), andb_true_r. apply andb_true_iff. split.
  - unfold sym_shape in Hsh. destruct sy as [|ch t]; [discriminate|]. apply andb_true_iff in Hsh. destruct Hsh as [Hu Ht].
    unfold np. cbn [forallb]. rewrite (upper_not_LP _ Hu), (upper_not_RP _ Hu). cbn [negb andb].
    rewrite forallb_forall in *. intros x Hx. specialize (Ht x Hx).
    apply andb_true_iff in Ht. destruct Ht as [Ht1 Ht2]. rewrite Ht2, andb_true_r.
    unfold sym_stop in Ht1. apply negb_true_iff in Ht1. apply orb_false_iff in Ht1. destruct Ht1 as [_ Ht1].
    rewrite Ht1. reflexivity.
  - destruct i as [di|]; [|reflexivity]. cbn [iso_ok] in Hio. apply andb_true_iff in Hio. destruct Hio as [Hd _].
    cbn [iso_text]. rewrite !np_app. rewrite (np_digits _ (digits_ok_all _ Hd)). reflexivity.
Qed.

Lemma gscan_items : forall b, Forall (fun it => wfi it = true -> GScan (render_item it)) b ->
  forallb wfi b = true -> GScan (render b).
Proof.
  induction b as [|x r IH]; intros HF Hwf.
  - apply gscan_np. reflexivity.
  - inversion HF as [|? ? Hx Hr]; subst. cbn [forallb] in Hwf. apply andb_true_iff in Hwf. destruct Hwf as [W1 W2].
    rewrite render_cons. apply gscan_app; [apply Hx; assumption|apply IH; assumption].
Qed.

Lemma gscan_item : forall it, wfi it = true -> GScan (render_item it).
Proof.
  induction it as [sy i cn|b cn IH] using item_ind'; intro Hwf.
  - apply gscan_np, np_El. assumption.
  - rewrite wf_item_Gr in Hwf. apply andb_true_iff in Hwf. destruct Hwf as [Hwf Hb].
    apply andb_true_iff in Hwf. destruct Hwf as [Hcn _].
    rewrite render_item_Gr.
    change ([LP] ++ render b ++ [RP] ++ opt_text cn) with ([LP] ++ render b ++ ([RP] ++ opt_text cn)).
    replace ([LP] ++ render b ++ [RP] ++ opt_text cn) with (([LP] ++ render b ++ [RP]) ++ opt_text cn)
      by (rewrite <- !app_assoc; reflexivity).
    apply gscan_app.
    + apply gscan_paren. apply gscan_items; assumption.
    + apply gscan_np, np_cnt. assumption.
Qed.

Lemma gscan_render : forall b, forallb wfi b = true -> GScan (render b).
Proof.
  intros b H. apply gscan_items; [|assumption]. apply Forall_forall. intros x _. apply gscan_item.
Qed.

(* ---- scanning one item ---- *)
Ltac str_norm := rewrite ?app_nil_r; repeat (progress (rewrite <- ?app_assoc; cbn [app])).
Ltac blen_tac := repeat rewrite blen_app; cbn [blen]; rewrite ?wLB, ?wRB, ?wLP, ?wRP; lia.

Lemma blen_pos : forall c t, 1 <= blen (c :: t).
Proof. intros c t. cbn [blen]. pose proof (width_pos c). lia. Qed.

Lemma scan_El : forall s pre ch t i cn rest c acc,
  s = pre ++ render_item (El (ch :: t) i cn) ++ rest ->
  wfi (El (ch :: t) i cn) = true ->
  fstate c = Element -> es c = blen pre -> pstack c = 0%Z -> is_ c = ie c ->
  exists cP, steps s acc c (indices (t ++ iso_text i ++ opt_text cn) (blen pre + width ch)) = FOk (acc, cP)
     /\ Pend s cP (blen pre + blen (render_item (El (ch :: t) i cn))) (e_inc (ch :: t, iso_val i) (cnt_val cn)).
Proof.
  intros s pre ch t i cn rest c acc Hs Hwf Hst Hes Hps Hiso.
  cbn [wf_item] in Hwf.
  apply andb_true_iff in Hwf. destruct Hwf as [Hwf Hio]. apply andb_true_iff in Hwf. destruct Hwf as [Hwf Hcn].
  apply andb_true_iff in Hwf. destruct Hwf as [Hsh Hel].
  unfold sym_shape in Hsh. apply andb_true_iff in Hsh. destruct Hsh as [Hup Htl].
  rewrite render_item_El in *.
  assert (Habs : steps s acc c (indices t (blen pre + width ch)) = FOk (acc, c)).
  { apply steps_stay with (p := fun x => negb (sym_stop uni_numeric x) && negb (x =? RP)%N); [|exact Htl].
    intros; apply step_element_tail; assumption. }
  apply cnt_ok_inv in Hcn.
  destruct i as [di|]; destruct cn as [d|]; cbn [iso_text opt_text iso_val] in *.
  - (* isotope and count *)
    destruct Hcn as [Hdok [n [Hpn Hcv]]]. rewrite Hcv.
    apply digits_ok_inv in Hdok. destruct Hdok as [d0 [dt [-> [Hd0 Hdt]]]].
    cbn [iso_ok] in Hio. apply andb_true_iff in Hio. destruct Hio as [Hdi Hpi].
    destruct (parse_u16 di) as [ni|] eqn:Epi; [|discriminate].
    replace (match digits_val di 0 with Some n0 => n0 | None => 0%N end) with ni
      by (rewrite (parse_uint_val _ _ _ Epi); reflexivity).
    pose proof (digits_ok_all _ Hdi) as Hdall.
    apply digits_ok_inv in Hdi. destruct Hdi as [i0 [it [Edi _]]].
    eexists. split.
    + str_norm. rewrite indices_app. rewrite (steps_app _ _ _ _ _ _ _ Habs).
      cbn [app indices steps]. rewrite step_element_LB by assumption. rewrite wLB.
      rewrite indices_app.
      erewrite steps_app; [| apply steps_stay with (p := is_digit); [|exact Hdall];
                             intros; apply step_isotope_digit; [reflexivity|assumption] ].
      cbn [app indices steps]. rewrite step_isotope_RB by reflexivity.
      rewrite step_itc_digit by (reflexivity || assumption).
      apply steps_stay with (p := is_digit); [|exact Hdt].
      intros; apply step_count_digit; [reflexivity|assumption].
    + apply pend_count with (d := d0 :: dt); proj; try assumption; try reflexivity.
      * rewrite Hes. apply (slice_eq s pre (ch :: t) (([LB] ++ di ++ [RB]) ++ (d0 :: dt) ++ rest));
          [subst s; str_norm; reflexivity | blen_tac | blen_tac].
      * apply (slice_eq s (pre ++ (ch :: t) ++ [LB] ++ di ++ [RB]) (d0 :: dt) rest);
          [subst s; str_norm; reflexivity | blen_tac | blen_tac].
      * right. proj. split.
        { subst di. pose proof (blen_pos i0 it). lia. }
        exists di. split; [|split; assumption].
        apply (slice_eq s (pre ++ (ch :: t) ++ [LB]) di ([RB] ++ (d0 :: dt) ++ rest));
          [subst s; str_norm; reflexivity | blen_tac | blen_tac].
  - (* isotope, no count *)
    cbn [cnt_val].
    cbn [iso_ok] in Hio. apply andb_true_iff in Hio. destruct Hio as [Hdi Hpi].
    destruct (parse_u16 di) as [ni|] eqn:Epi; [|discriminate].
    replace (match digits_val di 0 with Some n0 => n0 | None => 0%N end) with ni
      by (rewrite (parse_uint_val _ _ _ Epi); reflexivity).
    pose proof (digits_ok_all _ Hdi) as Hdall.
    eexists. split.
    + str_norm. rewrite indices_app. rewrite (steps_app _ _ _ _ _ _ _ Habs).
      cbn [app indices steps]. rewrite step_element_LB by assumption. rewrite wLB.
      rewrite indices_app.
      erewrite steps_app; [| apply steps_stay with (p := is_digit); [|exact Hdall];
                             intros; apply step_isotope_digit; [reflexivity|assumption] ].
      cbn [app indices steps]. rewrite step_isotope_RB by reflexivity. reflexivity.
    + apply pend_itc with (di := di); proj; try assumption; try reflexivity.
      * rewrite Hes. apply (slice_eq s pre (ch :: t) (([LB] ++ di ++ [RB]) ++ rest));
          [subst s; str_norm; reflexivity | blen_tac | blen_tac].
      * apply (slice_eq s (pre ++ (ch :: t) ++ [LB]) di ([RB] ++ rest));
          [subst s; str_norm; reflexivity | blen_tac | blen_tac].
  - (* count, no isotope *)
    destruct Hcn as [Hdok [n [Hpn Hcv]]]. rewrite Hcv.
    apply digits_ok_inv in Hdok. destruct Hdok as [d0 [dt [-> [Hd0 Hdt]]]].
    eexists. split.
    + str_norm. rewrite indices_app. rewrite (steps_app _ _ _ _ _ _ _ Habs).
      cbn [app indices steps]. rewrite step_element_digit by assumption.
      apply steps_stay with (p := is_digit); [|exact Hdt].
      intros; apply step_count_digit; [reflexivity|assumption].
    + apply pend_count with (d := d0 :: dt); proj; try assumption; try reflexivity.
      * rewrite Hes. apply (slice_eq s pre (ch :: t) ((d0 :: dt) ++ rest));
          [subst s; str_norm; reflexivity | blen_tac | blen_tac].
      * apply (slice_eq s (pre ++ (ch :: t)) (d0 :: dt) rest);
          [subst s; str_norm; reflexivity | blen_tac | blen_tac].
      * left. proj. split; [symmetry; assumption|reflexivity].
  - (* bare symbol *)
    cbn [cnt_val]. exists c. split.
    + rewrite !app_nil_r. exact Habs.
    + apply pend_element; try assumption.
      rewrite Hes. apply (slice_eq s pre (ch :: t) rest);
          [subst s; str_norm; reflexivity | blen_tac | blen_tac].
Qed.

Lemma e_mul_1 : forall g, e_mul g 1 = g.
Proof.
  intro g. unfold e_mul. induction g as [|[k v] r IH]; cbn [map fst snd]; [reflexivity|].
  rewrite IH, Z.mul_1_r. reflexivity.
Qed.

Lemma scan_Gr : forall s pre b cn rest c acc g,
  s = pre ++ render_item (Gr b cn) ++ rest ->
  wfi (Gr b cn) = true ->
  fstate c = Group -> gs c = blen pre + 1 -> pstack c = 1%Z -> is_ c = ie c ->
  prec (render b) = FOk g ->
  exists cP, steps s acc c (indices (render b ++ [RP] ++ opt_text cn) (blen pre + width LP)) = FOk (acc, cP)
     /\ Pend s cP (blen pre + blen (render_item (Gr b cn))) (fun a => e_add a (e_mul g (cnt_val cn))).
Proof.
  intros s pre b cn rest c acc g Hs Hwf Hst Hgs Hps Hiso Hg.
  rewrite wf_item_Gr in Hwf. apply andb_true_iff in Hwf. destruct Hwf as [Hwf Hb].
  apply andb_true_iff in Hwf. destruct Hwf as [Hcn _].
  rewrite render_item_Gr in *.
  assert (Habs : steps s acc c (indices (render b) (blen pre + width LP)) = FOk (acc, c)).
  { apply gscan_render; [assumption|assumption|lia]. }
  assert (ERP : forall i, stepR s acc c i RP = FOk (acc, set_st (set_ge (set_ps c 0%Z) i) GroupToGroupCount)).
  { intro i. unfold step. rewrite Hst. change ((RP =? RP)%N) with true. cbv iota. proj. rewrite Hps. reflexivity. }
  apply cnt_ok_inv in Hcn.
  destruct cn as [d|]; cbn [opt_text] in *.
  - destruct Hcn as [Hdok [n [Hpn Hcv]]]. rewrite Hcv.
    apply digits_ok_inv in Hdok. destruct Hdok as [d0 [dt [-> [Hd0 Hdt]]]].
    eexists. split.
    + str_norm. rewrite indices_app. rewrite (steps_app _ _ _ _ _ _ _ Habs).
      cbn [app indices steps]. rewrite ERP.
      rewrite step_gtgc_digit by (reflexivity || assumption).
      apply steps_stay with (p := is_digit); [|exact Hdt].
      intros; apply step_gcount_digit; [reflexivity|assumption].
    + apply pend_gcount with (body := render b) (d := d0 :: dt); proj; try assumption; try reflexivity.
      * rewrite Hgs. apply (slice_eq s (pre ++ [LP]) (render b) ([RP] ++ (d0 :: dt) ++ rest));
          [subst s; str_norm; reflexivity | blen_tac | blen_tac].
      * apply (slice_eq s (pre ++ [LP] ++ render b ++ [RP]) (d0 :: dt) rest);
          [subst s; str_norm; reflexivity | blen_tac | blen_tac].
  - cbn [cnt_val]. rewrite e_mul_1.
    eexists. split.
    + str_norm. rewrite indices_app. rewrite (steps_app _ _ _ _ _ _ _ Habs).
      cbn [app indices steps]. rewrite ERP. reflexivity.
    + apply pend_gtgc with (body := render b); proj; try assumption; try reflexivity.
      rewrite Hgs. apply (slice_eq s (pre ++ [LP]) (render b) ([RP] ++ rest));
          [subst s; str_norm; reflexivity | blen_tac | blen_tac].
Qed.

(* what flushing an item must do to the accumulator *)
Definition RelF (it : item) (F : ents -> ents) : Prop :=
  forall acc, nd acc ->
    nd (F acc) /\ (forall k, e_get k (F acc) = e_get k acc + denote_item it k)%Z
    /\ (forall k, e_mem k (F acc) = true -> e_mem k acc = true \/ named_item it k = true).

Definition Hrec (s : str) : Prop :=
  forall b, wff b = true -> List.length (render b) + 2 <= List.length s ->
    exists g, prec (render b) = FOk g /\ Good b g.

Lemma wf_head : forall it, wfi it = true ->
  exists ch tl, render_item it = ch :: tl /\ (is_upper ch = true \/ ch = LP).
Proof.
  intros [sy i cn|b cn] H.
  - cbn [wf_item] in H. apply andb_true_iff in H. destruct H as [H _]. apply andb_true_iff in H. destruct H as [H _].
    apply andb_true_iff in H. destruct H as [H _]. unfold sym_shape in H.
    destruct sy as [|ch t]; [discriminate|]. apply andb_true_iff in H. destruct H as [H _].
    rewrite render_item_El. exists ch, (t ++ iso_text i ++ opt_text cn). split; [reflexivity|left; assumption].
  - rewrite render_item_Gr. exists LP, (render b ++ [RP] ++ opt_text cn). split; [reflexivity|right; reflexivity].
Qed.

Lemma item_scan : forall s pre it rest ch tl c acc,
  s = pre ++ render_item it ++ rest -> wfi it = true -> render_item it = ch :: tl ->
  Started c (blen pre) ch -> Hrec s ->
  exists cP F, steps s acc c (indices tl (blen pre + width ch)) = FOk (acc, cP)
     /\ Pend s cP (blen pre + blen (render_item it)) F /\ RelF it F.
Proof.
  intros s pre it rest ch tl c acc Hs Hwf Hr [Hiso Hstart] Hrc.
  destruct it as [sy i cn|b cn].
  - assert (Hsy : exists t, sy = ch :: t /\ is_upper ch = true).
    { pose proof Hwf as H. cbn [wf_item] in H. apply andb_true_iff in H. destruct H as [H _]. apply andb_true_iff in H. destruct H as [H _].
      apply andb_true_iff in H. destruct H as [H _]. unfold sym_shape in H.
      destruct sy as [|ch0 t]; [discriminate|]. apply andb_true_iff in H. destruct H as [H _].
      rewrite render_item_El in Hr. cbn [app] in Hr. inversion Hr; subst. exists t. split; [reflexivity|assumption]. }
    destruct Hsy as [t [-> Hup]].
    assert (Etl : tl = t ++ iso_text i ++ opt_text cn).
    { rewrite render_item_El in Hr. cbn [app] in Hr. inversion Hr. reflexivity. }
    destruct Hstart as [[_ [Hst [Hes Hps]]]|[E _]]; [|subst ch; discriminate].
    destruct (scan_El s pre ch t i cn rest c acc Hs Hwf Hst Hes Hps Hiso) as [cP [H1 H2]].
    exists cP, (e_inc (ch :: t, iso_val i) (cnt_val cn)). split; [rewrite Etl; exact H1|]. split; [exact H2|].
    intros a Ha. split; [apply nd_inc; assumption|]. split.
    + intro k. rewrite e_get_inc. cbn [denote_item]. reflexivity.
    + intros k Hk. rewrite e_mem_inc in Hk. cbn [named_item]. apply orb_true_iff in Hk. tauto.
  - assert (Ech : ch = LP /\ tl = render b ++ [RP] ++ opt_text cn).
    { rewrite render_item_Gr in Hr. cbn [app] in Hr. inversion Hr. split; reflexivity. }
    destruct Ech as [-> ->].
    destruct Hstart as [[Hup _]|[_ [Hst [Hgs Hps]]]]; [discriminate|].
    pose proof Hwf as Hwf'. rewrite wf_item_Gr in Hwf'. apply andb_true_iff in Hwf'. destruct Hwf' as [Hwf' Hb].
    apply andb_true_iff in Hwf'. destruct Hwf' as [Hcn Hne].
    destruct (Hrc b) as [g [Hg [Hnd [Hget Hmem]]]].
    { unfold wf. rewrite Hne, Hb. reflexivity. }
    { subst s. rewrite render_item_Gr. rewrite !app_length. cbn [List.length]. lia. }
    destruct (scan_Gr s pre b cn rest c acc g Hs Hwf Hst Hgs Hps Hiso Hg) as [cP [H1 H2]].
    exists cP, (fun a => e_add a (e_mul g (cnt_val cn))). split; [exact H1|]. split; [exact H2|].
    intros a Ha. split; [apply nd_add; assumption|]. split.
    + intro k. rewrite e_get_add, tot_mul, <- (e_get_tot k g Hnd), Hget, denote_item_Gr. lia.
    + intros k Hk. rewrite e_mem_add, e_mem_mul in Hk. rewrite named_item_Gr. apply orb_true_iff in Hk.
      destruct Hk as [Hk|Hk]; [left; assumption|right; apply Hmem; assumption].
Qed.

Lemma list_scan : forall s, Hrec s -> forall f' it pre ch tl c acc,
  s = pre ++ render (it :: f') -> forallb wfi (it :: f') = true -> render_item it = ch :: tl ->
  Started c (blen pre) ch -> nd acc ->
  exists acc', runR s acc c (indices (tl ++ render f') (blen pre + width ch)) = FOk acc'
    /\ nd acc' /\ (forall k, e_get k acc' = e_get k acc + denote (it :: f') k)%Z
    /\ (forall k, e_mem k acc' = true -> e_mem k acc = true \/ named (it :: f') k = true).
Proof.
  intros s Hrc. induction f' as [|it' f'' IH]; intros it pre ch tl c acc Hs Hwf Hr Hstart Hnd;
    cbn [forallb] in Hwf; apply andb_true_iff in Hwf; destruct Hwf as [Hw1 Hw2].
  - rewrite render_cons in Hs.
    destruct (item_scan s pre it (render []) ch tl c acc Hs Hw1 Hr Hstart Hrc) as [cP [F [H1 [H2 H3]]]].
    change (render []) with (@nil char) in *. rewrite app_nil_r in *.
    rewrite <- (app_nil_r (indices tl _)). rewrite (run_steps _ _ _ _ _ _ _ H1). cbn [run].
    destruct (H2 acc) as [_ Hfin]. rewrite Hfin by (subst s; blen_tac).
    destruct (H3 acc Hnd) as [R1 [R2 R3]].
    exists (F acc). split; [reflexivity|]. split; [assumption|]. split.
    + intro k. rewrite R2, denote_cons. cbn [denote fold_right]. lia.
    + intros k Hk. rewrite named_cons. destruct (R3 k Hk) as [E|E]; [left; assumption|right; rewrite E; reflexivity].
  - rewrite render_cons in Hs.
    destruct (item_scan s pre it (render (it' :: f'')) ch tl c acc Hs Hw1 Hr Hstart Hrc) as [cP [F [H1 [H2 H3]]]].
    pose proof Hw2 as Hw2'. cbn [forallb] in Hw2'. apply andb_true_iff in Hw2'. destruct Hw2' as [Hw21 _].
    destruct (wf_head it' Hw21) as [ch' [tl' [Hr' Hch']]].
    rewrite (render_cons it' f''), Hr'. cbn [app]. rewrite indices_app.
    rewrite (run_steps _ _ _ _ _ _ _ H1). cbn [indices run].
    destruct (H2 acc) as [Hstep _]. 
    replace (blen pre + width ch + blen tl) with (blen pre + blen (render_item it)) by (rewrite Hr; blen_tac).
    destruct (Hstep ch' Hch') as [c' [Hs1 Hs2]]. rewrite Hs1. cbn [bind]. cbv beta iota.
    destruct (H3 acc Hnd) as [R1 [R2 R3]].
    replace (blen pre + blen (render_item it)) with (blen (pre ++ render_item it)) in * by blen_tac.
    destruct (IH it' (pre ++ render_item it) ch' tl' c' (F acc)) as [acc' [I1 [I2 [I3 I4]]]]; try assumption.
    { subst s. rewrite <- app_assoc. reflexivity. }
    exists acc'. split; [exact I1|]. split; [assumption|]. split.
    + intro k. rewrite I3, R2. rewrite (denote_cons it). lia.
    + intros k Hk. rewrite (named_cons it). destruct (I4 k Hk) as [E|E].
      * destruct (R3 k E) as [E'|E']; [left; assumption|right; rewrite E'; reflexivity].
      * right. rewrite E. apply orb_true_r.
Qed.
End WithRec.

Lemma parse_fuel : forall fuel f, wff f = true -> List.length (render f) < fuel ->
  exists g, parse uni_numeric has_elem has_iso fuel (render f) = FOk g /\ Good f g.
Proof.
  induction fuel as [|fuel IH]; intros f Hwf Hlen; [lia|].
  cbn [parse].
  pose proof Hwf as Hwf0. unfold wf in Hwf. apply andb_true_iff in Hwf. destruct Hwf as [Hne Hall].
  destruct f as [|it f']; [discriminate|].
  pose proof Hall as Hall'. cbn [forallb] in Hall'. apply andb_true_iff in Hall'. destruct Hall' as [Hw1 _].
  destruct (wf_head it Hw1) as [ch [tl [Hr Hch]]].
  assert (Hrc : Hrec (parse uni_numeric has_elem has_iso fuel) (render (it :: f'))).
  { intros b Hb Hl. apply IH; [assumption|lia]. }
  set (s := render (it :: f')) in *.
  assert (Es : s = [] ++ render (it :: f')) by reflexivity.
  assert (Hinit : exists c, step uni_numeric has_elem has_iso (parse uni_numeric has_elem has_iso fuel) s [] cfg0 0 ch = FOk ([], c)
                            /\ Started c (blen []) ch).
  { unfold step. cbn [fstate cfg0]. destruct Hch as [Hu| ->].
    - rewrite Hu. eexists. split; [reflexivity|]. unfold Started. proj. split; [reflexivity|]. left. auto.
    - change (is_upper LP) with false. change ((LP =? LP)%N) with true. cbv iota.
      eexists. split; [reflexivity|]. unfold Started. proj. split; [reflexivity|]. right. auto. }
  destruct Hinit as [c [Hc1 Hc2]].
  destruct (list_scan _ s Hrc f' it [] ch tl c [] Es Hall Hr Hc2 I) as [acc' [I1 [I2 [I3 I4]]]].
  exists acc'. split.
  - unfold s at 2. rewrite render_cons, Hr. cbn [app indices run]. rewrite Hc1. cbn [bind]. cbv beta iota.
    cbn [blen] in I1. exact I1.
  - split; [assumption|]. split.
    + intro k. rewrite I3. cbn [e_get]. lia.
    + intros k Hk. destruct (I4 k Hk) as [E|E]; [discriminate|assumption].
Qed.

End FC.

Theorem parse_complete : forall uni_numeric has_elem has_iso f,
  wf uni_numeric has_elem has_iso false f = true ->
  exists c, parse_formula uni_numeric has_elem has_iso (render f) = FOk c
            /\ (forall k, e_get k c = denote f k)
            /\ (forall k, e_mem k c = true -> named f k = true).
Proof.
  intros un he hi f Hwf. unfold parse_formula.
  destruct (parse_fuel un he hi (S (List.length (render f))) f Hwf (Nat.lt_succ_diag_r _)) as [g [H1 [_ [H2 H3]]]].
  exists g. split; [exact H1|]. split; assumption.
Qed.
