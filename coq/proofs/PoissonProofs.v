(* Proofs for C15 (isotopic_pattern/poisson.rs). *)
From Coq Require Import ZArith List Bool Lia Field Ring Field_theory Ring_theory.
From CE Require Import Num OField Mz Peak Poisson PoissonSpec NumQc OFieldQc.
Import ListNotations.

(* ---------- list plumbing ---------- *)

Lemma nth_map_combine_seq {A B : Type} (g : nat * A -> B) (dA : A) (dB : B) :
  forall (l : list A) n s i, length l = n -> i < n ->
  nth i (map g (combine (seq s n) l)) dB = g (s + i, nth i l dA).
Proof.
  induction l as [|x l IH]; intros n s i Hl Hi.
  - cbn in Hl. lia.
  - destruct n as [|n]; [lia|]. cbn [length] in Hl.
    destruct i as [|i].
    + cbn. rewrite Nat.add_0_r. reflexivity.
    + cbn [seq combine map nth]. rewrite (IH n (S s) i) by lia.
      f_equal. f_equal. lia.
Qed.

Lemma length_map_combine_seq {A B : Type} (g : nat * A -> B) :
  forall (l : list A) n s, length l = n -> length (map g (combine (seq s n) l)) = n.
Proof.
  intros l n s Hl. rewrite map_length, combine_length, seq_length. lia.
Qed.

Lemma nth_map_seq {B : Type} (f : nat -> B) (d : B) :
  forall m s j, j < m -> nth j (map f (seq s m)) d = f (s + j).
Proof.
  induction m as [|m IH]; intros s j Hj; [lia|].
  destruct j as [|j].
  - cbn. rewrite Nat.add_0_r. reflexivity.
  - cbn [seq map nth]. rewrite IH by lia. f_equal. lia.
Qed.

Section PoissonProofs.
  Context {F : Type} (N : Num F).

  Notation peakF := (peak (F:=F)).

  (* ---------- pois_terms ---------- *)

  Definition fin_term (lambda : F) (i : nat) : F :=
    if is_finite N (term N lambda i) then term N lambda i else zero N.

  Lemma pois_terms_S lambda i m p f tot :
    pois_terms N lambda i (S m) p f tot =
    let p' := mul N p lambda in
    let f' := mul N f (of_Z N i) in
    let cur := div N p' f' in
    let tot' := if is_finite N cur then add N tot cur else tot in
    ((if is_finite N cur then cur else zero N) :: fst (pois_terms N lambda (i + 1) m p' f' tot'),
     snd (pois_terms N lambda (i + 1) m p' f' tot')).
  Proof.
    cbn [pois_terms]. cbv zeta.
    destruct (is_finite N (div N (mul N p lambda) (mul N f (of_Z N i)))).
    - destruct (pois_terms N lambda (i + 1) m (mul N p lambda) (mul N f (of_Z N i))
                  (add N tot (div N (mul N p lambda) (mul N f (of_Z N i))))); reflexivity.
    - destruct (pois_terms N lambda (i + 1) m (mul N p lambda) (mul N f (of_Z N i)) tot); reflexivity.
  Qed.

  Lemma pois_terms_fst lambda : forall m k tot,
    fst (pois_terms N lambda (Z.of_nat (S k)) m (pw N lambda k) (fact N k) tot)
    = map (fin_term lambda) (seq (S k) m).
  Proof.
    induction m as [|m IH]; intros k tot; [reflexivity|].
    rewrite pois_terms_S. cbv zeta. cbn [fst seq map].
    replace (Z.of_nat (S k) + 1)%Z with (Z.of_nat (S (S k))) by lia.
    change (mul N (pw N lambda k) lambda) with (pw N lambda (S k)).
    change (mul N (fact N k) (of_Z N (Z.of_nat (S k)))) with (fact N (S k)).
    change (div N (pw N lambda (S k)) (fact N (S k))) with (term N lambda (S k)).
    rewrite IH. reflexivity.
  Qed.

  Lemma pois_terms_length lambda : forall m i p f tot,
    length (fst (pois_terms N lambda i m p f tot)) = m.
  Proof.
    induction m as [|m IH]; intros i p f tot; [reflexivity|].
    rewrite pois_terms_S. cbv zeta. cbn [fst length]. rewrite IH. reflexivity.
  Qed.

  (* the implementation with the [let '(tl, total)] opened *)
  Definition pa_tl (mass lf : F) (m : nat) : list F :=
    fst (pois_terms N (div N mass lf) 1 m (one N) (one N) (one N)).
  Definition pa_total (mass lf : F) (m : nat) : F :=
    snd (pois_terms N (div N mass lf) 1 m (one N) (one N) (one N)).
  Definition pa_peak (mass : F) (z : Z) (total : F) (ix : nat * F) : peakF :=
    let '(i, x) := ix in
    mkPeak (charged N (add N mass (mul N (of_Z N (Z.of_nat i)) (NEUTRON_SHIFT N))) z (PROTON N))
           (div N x total).

  Lemma pa_unfold mass m z lf :
    poisson_approximation_impl N mass (S m) z lf
    = map (pa_peak mass z (pa_total mass lf m)) (combine (seq 0 (S m)) (one N :: pa_tl mass lf m)).
  Proof.
    unfold poisson_approximation_impl, pa_tl, pa_total, pa_peak.
    destruct (pois_terms N (div N mass lf) 1 m (one N) (one N) (one N)) as [tl total].
    reflexivity.
  Qed.

  Lemma pa_tl_length mass lf m : length (one N :: pa_tl mass lf m) = S m.
  Proof. unfold pa_tl. cbn [length]. rewrite pois_terms_length. reflexivity. Qed.

  Lemma pa_nth mass m z lf i : i < S m ->
    nth i (poisson_approximation_impl N mass (S m) z lf) (mkPeak (zero N) (zero N))
    = pa_peak mass z (pa_total mass lf m) (i, nth i (one N :: pa_tl mass lf m) (zero N)).
  Proof.
    intros Hi. rewrite pa_unfold.
    rewrite (nth_map_combine_seq _ (zero N)) with (n := S m) by (auto using pa_tl_length).
    reflexivity.
  Qed.

  Lemma pois_length : forall mass n z lf, length (poisson_approximation_impl N mass n z lf) = n.
  Proof.
    intros mass [|m] z lf; [reflexivity|].
    rewrite pa_unfold. apply length_map_combine_seq. apply pa_tl_length.
  Qed.

  Lemma pois_ladder : forall mass n z lf i, i < n ->
    mz (nth i (poisson_approximation_impl N mass n z lf) (mkPeak (zero N) (zero N)))
    = charged N (add N mass (mul N (of_Z N (Z.of_nat i)) (NEUTRON_SHIFT N))) z (PROTON N).
  Proof.
    intros mass [|m] z lf i Hi; [lia|].
    rewrite pa_nth by exact Hi. reflexivity.
  Qed.

  (* ---------- npeaks_loop ---------- *)

  Lemma npeaks_bounds lambda target mx : forall fuel i p f acc,
    (i + Z.of_nat fuel <= mx)%Z ->
    (i <= npeaks_loop N lambda target i fuel p f acc mx <= mx)%Z.
  Proof.
    induction fuel as [|fuel IH]; intros i p f acc H.
    - cbn [npeaks_loop]. lia.
    - cbn [npeaks_loop]. cbv zeta.
      destruct (is_infinite N _); [lia|].
      destruct (ltb N _ target); [lia|].
      match goal with |- (_ <= npeaks_loop N _ _ _ _ ?p' ?f' ?a' _ <= _)%Z =>
        specialize (IH (i + 1)%Z p' f' a') end.
      lia.
  Qed.

  Lemma pois_n_range : forall mass lf t max_iter, 1 <= max_iter ->
    (1 <= poisson_n_impl N mass lf t max_iter <= Z.of_nat max_iter)%Z.
  Proof.
    intros mass lf t max_iter H. unfold poisson_n_impl. apply npeaks_bounds. lia.
  Qed.

  Lemma npeaks_step lambda target k fuel mx :
    npeaks_loop N lambda target (Z.of_nat (S k)) (S fuel)
                (pw N lambda k) (fact N k) (accum N lambda k) mx
    = if exits N lambda target (S k) then Z.of_nat (S k)
      else npeaks_loop N lambda target (Z.of_nat (S (S k))) fuel
                       (pw N lambda (S k)) (fact N (S k)) (accum N lambda (S k)) mx.
  Proof.
    cbn [npeaks_loop]. cbv zeta.
    replace (Z.of_nat (S k) + 1)%Z with (Z.of_nat (S (S k))) by lia.
    unfold exits.
    change (mul N (pw N lambda k) lambda) with (pw N lambda (S k)).
    change (mul N (fact N k) (of_Z N (Z.of_nat (S k)))) with (fact N (S k)).
    change (div N (pw N lambda (S k)) (fact N (S k))) with (term N lambda (S k)).
    change (add N (accum N lambda k) (term N lambda (S k))) with (accum N lambda (S k)).
    destruct (is_infinite N (term N lambda (S k))); [reflexivity|].
    cbn [orb].
    destruct (ltb N (div N (term N lambda (S k)) (accum N lambda (S k))) target); reflexivity.
  Qed.

  Lemma npeaks_spec lambda target mx : forall fuel k,
    let r := npeaks_loop N lambda target (Z.of_nat (S k)) fuel
                         (pw N lambda k) (fact N k) (accum N lambda k) mx in
    (r = mx /\ forall j, S k <= j < S k + fuel -> exits N lambda target j = false)
    \/ (exists j, r = Z.of_nat j /\ S k <= j < S k + fuel /\ exits N lambda target j = true
                  /\ forall j', S k <= j' < j -> exits N lambda target j' = false).
  Proof.
    induction fuel as [|fuel IH]; intros k r.
    - left. split; [reflexivity|]. intros j Hj. lia.
    - subst r. rewrite npeaks_step.
      destruct (exits N lambda target (S k)) eqn:E.
      + right. exists (S k). repeat split; try lia. exact E.
      + destruct (IH (S k)) as [[Hr Hall]|[j [Hr [Hj [Hex Hall]]]]].
        * left. split; [exact Hr|]. intros j Hj.
          destruct (Nat.eq_dec j (S k)) as [->|Hne]; [exact E|]. apply Hall. lia.
        * right. exists j. repeat split; try lia; try assumption.
          intros j' Hj'. destruct (Nat.eq_dec j' (S k)) as [->|Hne]; [exact E|]. apply Hall. lia.
  Qed.

  Lemma pois_n_least : forall mass lf t max_iter, 1 <= max_iter ->
    let lambda := div N mass lf in
    let target := sub N (one N) t in
    let r := Z.to_nat (poisson_n_impl N mass lf t max_iter) in
    (forall j, 1 <= j < r -> exits N lambda target j = false)
    /\ (r < max_iter -> exits N lambda target r = true).
  Proof.
    intros mass lf t max_iter Hm lambda target r.
    unfold poisson_n_impl in r. fold lambda in r. fold target in r.
    pose proof (npeaks_spec lambda target (Z.of_nat max_iter) (Nat.pred max_iter) 0) as H.
    cbv zeta in H. change (Z.of_nat 1) with 1%Z in H.
    change (pw N lambda 0) with (one N) in H. change (fact N 0) with (one N) in H.
    change (accum N lambda 0) with (one N) in H.
    destruct H as [[Hr Hall]|[j [Hr [Hj [Hex Hall]]]]].
    - assert (r = max_iter) as -> by (subst r; rewrite Hr; apply Nat2Z.id).
      split; [|lia]. intros j Hj. apply Hall. lia.
    - assert (r = j) as -> by (subst r; rewrite Hr; apply Nat2Z.id).
      split; [|intros _; exact Hex]. exact Hall.
  Qed.

  Lemma npeaks_mono lambda tg tg' mx :
    (forall x, ltb N x tg' = true -> ltb N x tg = true) ->
    forall fuel i p f acc, (i + Z.of_nat fuel <= mx)%Z ->
    (npeaks_loop N lambda tg i fuel p f acc mx <= npeaks_loop N lambda tg' i fuel p f acc mx)%Z.
  Proof.
    intros Hlt. induction fuel as [|fuel IH]; intros i p f acc H.
    - cbn [npeaks_loop]. lia.
    - cbn [npeaks_loop]. cbv zeta.
      destruct (is_infinite N _); [lia|].
      match goal with |- context [ltb N ?x tg'] => pose proof (Hlt x) as Hx; destruct (ltb N x tg') end.
      + rewrite Hx by reflexivity. lia.
      + match goal with |- context [ltb N ?x tg] => destruct (ltb N x tg) end.
        * match goal with |- (_ <= npeaks_loop N _ _ ?i' ?fu ?p' ?f' ?a' _)%Z =>
            pose proof (npeaks_bounds lambda tg' mx fu i' p' f' a') end. lia.
        * apply IH. lia.
  Qed.

  Lemma pois_n_monotone :
    (forall t t', leb N t t' = true -> leb N (sub N (one N) t') (sub N (one N) t) = true) ->
    (forall x a b, ltb N x a = true -> leb N a b = true -> ltb N x b = true) ->
    forall mass lf t t' max_iter, 1 <= max_iter -> leb N t t' = true ->
    (poisson_n_impl N mass lf t max_iter <= poisson_n_impl N mass lf t' max_iter)%Z.
  Proof.
    intros H1 H2 mass lf t t' max_iter Hm Ht. unfold poisson_n_impl.
    apply npeaks_mono; [|lia].
    intros x Hx. apply (H2 x _ _ Hx). apply H1. exact Ht.
  Qed.

  (* ================= exact arithmetic ================= *)
  Section WithField.
    Hypothesis OF : OField N.
    Add Field Ff : (of_field N OF).

    Local Notation "0" := (zero N).
    Local Notation "1" := (one N).
    Local Infix "+!" := (add N) (at level 50, left associativity).
    Local Infix "*!" := (mul N) (at level 40, left associativity).
    Local Infix "/!" := (div N) (at level 40, left associativity).
    Local Infix "<=!" := (fle N) (at level 70).

    Lemma fle_eq a b : a = b -> a <=! b.
    Proof. intros ->. apply (of_le_refl N OF). Qed.

    Lemma opp_nonneg a : a <=! 0 -> 0 <=! opp N a.
    Proof.
      intros H. pose proof (of_add_le N OF a 0 (opp N a) H) as H'.
      replace (a +! opp N a) with 0 in H' by ring.
      replace (0 +! opp N a) with (opp N a) in H' by ring. exact H'.
    Qed.

    Lemma sq_nonneg a : 0 <=! a *! a.
    Proof.
      destruct (of_le_total N OF 0 a) as [H|H].
      - apply (of_mul_nonneg N OF); exact H.
      - replace (a *! a) with (opp N a *! opp N a) by ring.
        apply (of_mul_nonneg N OF); apply opp_nonneg; exact H.
    Qed.

    Lemma le_0_1 : 0 <=! 1.
    Proof. replace 1 with (1 *! 1) by ring. apply sq_nonneg. Qed.

    Lemma one_neq_0 : 1 <> 0.
    Proof. exact (F_1_neq_0 (of_field N OF)). Qed.

    Lemma not_1_le_0 : ~ (1 <=! 0).
    Proof. intros H. apply one_neq_0. apply (of_le_antisym N OF); [exact H | exact le_0_1]. Qed.

    Lemma le_add_r a x : 0 <=! x -> a <=! a +! x.
    Proof.
      intros H. pose proof (of_add_le N OF 0 x a H) as H'.
      replace (0 +! a) with a in H' by ring.
      replace (x +! a) with (a +! x) in H' by ring. exact H'.
    Qed.

    Lemma add_nonneg a b : 0 <=! a -> 0 <=! b -> 0 <=! a +! b.
    Proof. intros Ha Hb. apply (of_le_trans N OF 0 a); [exact Ha | apply le_add_r; exact Hb]. Qed.

    Lemma ge1_neq0 a : 1 <=! a -> a <> 0.
    Proof. intros H E. subst a. exact (not_1_le_0 H). Qed.

    Lemma ofnat_S k : of_Z N (Z.of_nat (S k)) = of_Z N (Z.of_nat k) +! 1.
    Proof.
      rewrite Nat2Z.inj_succ, <- Z.add_1_r, (of_Z_add N OF), (of_Z_1 N OF). reflexivity.
    Qed.

    Lemma ofnat_nonneg : forall k, 0 <=! of_Z N (Z.of_nat k).
    Proof.
      induction k as [|k IH].
      - cbn [Z.of_nat]. rewrite (of_Z_0 N OF). apply (of_le_refl N OF).
      - rewrite ofnat_S. apply add_nonneg; [exact IH | exact le_0_1].
    Qed.

    Lemma ofnat_S_ge1 k : 1 <=! of_Z N (Z.of_nat (S k)).
    Proof.
      rewrite ofnat_S.
      pose proof (of_add_le N OF 0 (of_Z N (Z.of_nat k)) 1 (ofnat_nonneg k)) as H.
      replace (0 +! 1) with 1 in H by ring. exact H.
    Qed.

    Lemma ofnat_S_neq0 k : of_Z N (Z.of_nat (S k)) <> 0.
    Proof. apply ge1_neq0. apply ofnat_S_ge1. Qed.

    Lemma opp_neq0 a : a <> 0 -> opp N a <> 0.
    Proof. intros H E. apply H. replace a with (opp N (opp N a)) by ring. rewrite E. ring. Qed.

    Lemma ofZ_neq0 z : z <> 0%Z -> of_Z N z <> 0.
    Proof.
      intros Hz. destruct z as [|p|p]; [congruence| |].
      - rewrite <- (positive_nat_Z p). destruct (Pos2Nat.is_succ p) as [k ->]. apply ofnat_S_neq0.
      - change (Z.neg p) with (- Z.pos p)%Z. rewrite (of_Z_opp N OF). apply opp_neq0.
        rewrite <- (positive_nat_Z p). destruct (Pos2Nat.is_succ p) as [k ->]. apply ofnat_S_neq0.
    Qed.

    Lemma abs_neq0 a : a <> 0 -> abs N a <> 0.
    Proof.
      intros H. rewrite (of_abs_def N OF). destruct (leb N 0 a); [exact H | apply opp_neq0; exact H].
    Qed.

    Lemma mul_neq0 a b : a <> 0 -> b <> 0 -> a *! b <> 0.
    Proof.
      intros Ha Hb E. apply Hb.
      replace b with (finv N a *! (a *! b)) by (field; exact Ha). rewrite E. ring.
    Qed.

    Lemma inv_nonneg a : 0 <=! a -> a <> 0 -> 0 <=! finv N a.
    Proof.
      intros H Ha. replace (finv N a) with (a *! (finv N a *! finv N a)) by (field; exact Ha).
      apply (of_mul_nonneg N OF); [exact H | apply sq_nonneg].
    Qed.

    Lemma div_nonneg a b : 0 <=! a -> 0 <=! b -> b <> 0 -> 0 <=! a /! b.
    Proof.
      intros Ha Hb Hb0. rewrite (Fdiv_def (of_field N OF)).
      apply (of_mul_nonneg N OF); [exact Ha | apply inv_nonneg; assumption].
    Qed.

    (* order facts behind monotonicity *)
    Lemma sub_antitone t t' : leb N t t' = true -> leb N (sub N 1 t') (sub N 1 t) = true.
    Proof.
      intros H. pose proof (of_add_le N OF t t' (sub N (sub N 1 t) t') H) as H'.
      replace (t +! sub N (sub N 1 t) t') with (sub N 1 t') in H' by ring.
      replace (t' +! sub N (sub N 1 t) t') with (sub N 1 t) in H' by ring. exact H'.
    Qed.

    Lemma lt_le_trans x a b : ltb N x a = true -> leb N a b = true -> ltb N x b = true.
    Proof.
      intros H1 H2. rewrite (of_ltb_def N OF) in *.
      destruct (leb N b x) eqn:E; [|reflexivity].
      rewrite (of_le_trans N OF a b x H2 E) in H1. discriminate H1.
    Qed.

    Lemma pois_n_monotone_field :
      forall mass lf t t' max_iter, 1 <= max_iter -> leb N t t' = true ->
      (poisson_n_impl N mass lf t max_iter <= poisson_n_impl N mass lf t' max_iter)%Z.
    Proof. apply pois_n_monotone; [exact sub_antitone | exact lt_le_trans]. Qed.

    (* the Poisson terms *)
    Lemma pw_nonneg lambda : 0 <=! lambda -> forall k, 0 <=! pw N lambda k.
    Proof.
      intros Hl. induction k as [|k IH]; cbn [pw]; [exact le_0_1|].
      apply (of_mul_nonneg N OF); assumption.
    Qed.

    Lemma fact_nonneg : forall k, 0 <=! fact N k.
    Proof.
      induction k as [|k IH]; cbn [fact]; [exact le_0_1|].
      apply (of_mul_nonneg N OF); [exact IH | apply ofnat_nonneg].
    Qed.

    Lemma fact_neq0 : forall k, fact N k <> 0.
    Proof.
      induction k as [|k IH]; cbn [fact]; [exact one_neq_0|].
      apply mul_neq0; [exact IH | apply ofnat_S_neq0].
    Qed.

    Lemma term_nonneg lambda : 0 <=! lambda -> forall k, 0 <=! term N lambda k.
    Proof.
      intros Hl k. unfold term. apply div_nonneg; [apply pw_nonneg; exact Hl | apply fact_nonneg | apply fact_neq0].
    Qed.

    Lemma term_0 lambda : term N lambda 0 = 1.
    Proof. unfold term. cbn [pw fact]. field. exact one_neq_0. Qed.

    Lemma term_ratio lambda k :
      term N lambda (S k) *! of_Z N (Z.of_nat (S k)) = term N lambda k *! lambda.
    Proof.
      unfold term. cbn [pw fact]. field.
      split; first [apply ofnat_S_neq0 | apply fact_neq0].
    Qed.

    Lemma fin_term_eq lambda i : fin_term lambda i = term N lambda i.
    Proof. unfold fin_term. rewrite (of_finite N OF). reflexivity. Qed.

    Lemma pois_terms_snd lambda : forall m i p f tot,
      snd (pois_terms N lambda i m p f tot) = fold_left (add N) (fst (pois_terms N lambda i m p f tot)) tot.
    Proof.
      induction m as [|m IH]; intros i p f tot; [reflexivity|].
      rewrite pois_terms_S. cbv zeta. rewrite (of_finite N OF). cbn [fst snd fold_left].
      apply IH.
    Qed.

    Lemma pa_tl_eq mass lf m : pa_tl mass lf m = map (term N (div N mass lf)) (seq 1 m).
    Proof.
      unfold pa_tl.
      pose proof (pois_terms_fst (div N mass lf) m 0 1) as H.
      change (Z.of_nat 1) with 1%Z in H. change (pw N (mass /! lf) 0) with 1 in H.
      change (fact N 0) with 1 in H. rewrite H.
      apply map_ext. intros a. apply fin_term_eq.
    Qed.

    Lemma pa_total_eq mass lf m : pa_total mass lf m = fold_left (add N) (pa_tl mass lf m) 1.
    Proof. unfold pa_total, pa_tl. apply pois_terms_snd. Qed.

    Lemma fold_ge : forall l a, (forall x, In x l -> 0 <=! x) -> a <=! fold_left (add N) l a.
    Proof.
      induction l as [|x l IH]; intros a H; cbn [fold_left].
      - apply (of_le_refl N OF).
      - apply (of_le_trans N OF a (a +! x)).
        + apply le_add_r. apply H. left. reflexivity.
        + apply IH. intros y Hy. apply H. right. exact Hy.
    Qed.

    Lemma ints_nonneg mass lf m : 0 <=! mass /! lf ->
      forall x, In x (1 :: pa_tl mass lf m) -> 0 <=! x.
    Proof.
      intros Hl x [<-|Hx]; [exact le_0_1|].
      rewrite pa_tl_eq in Hx. apply in_map_iff in Hx. destruct Hx as [k [<- _]].
      apply term_nonneg. exact Hl.
    Qed.

    Lemma pa_total_ge1 mass lf m : 0 <=! mass /! lf -> 1 <=! pa_total mass lf m.
    Proof.
      intros Hl. rewrite pa_total_eq. apply fold_ge.
      intros x Hx. apply (ints_nonneg mass lf m Hl). right. exact Hx.
    Qed.

    Lemma pa_total_neq0 mass lf m : 0 <=! mass /! lf -> pa_total mass lf m <> 0.
    Proof. intros Hl. apply ge1_neq0. apply pa_total_ge1. exact Hl. Qed.

    Lemma pa_total_nonneg mass lf m : 0 <=! mass /! lf -> 0 <=! pa_total mass lf m.
    Proof. intros Hl. apply (of_le_trans N OF 0 1); [exact le_0_1 | apply pa_total_ge1; exact Hl]. Qed.

    Lemma ints_nth mass lf m j : j <= m ->
      nth j (1 :: pa_tl mass lf m) 0 = term N (div N mass lf) j.
    Proof.
      intros Hj. destruct j as [|j]; cbn [nth].
      - symmetry. apply term_0.
      - rewrite pa_tl_eq. rewrite nth_map_seq by lia. reflexivity.
    Qed.

    Lemma pois_ratio : forall mass lf n z i,
      fle N 0 (div N mass lf) -> 1 <= i < n ->
      let ps := poisson_approximation_impl N mass n z lf in
      let d := mkPeak 0 0 in
      mul N (inten (nth i ps d)) (of_Z N (Z.of_nat i)) = mul N (inten (nth (i - 1) ps d)) (div N mass lf).
    Proof.
      intros mass lf [|m] z i Hl Hi ps d; [lia|]. subst ps d.
      rewrite !pa_nth by lia. unfold pa_peak. cbn [inten].
      rewrite !ints_nth by lia.
      destruct i as [|k]; [lia|]. replace (S k - 1) with k by lia.
      pose proof (pa_total_neq0 mass lf m Hl) as HT.
      pose proof (term_ratio (mass /! lf) k) as HR.
      set (T := pa_total mass lf m) in *. clearbody T.
      set (lam := mass /! lf) in *. clearbody lam.
      transitivity ((term N lam (S k) *! of_Z N (Z.of_nat (S k))) /! T).
      - field. exact HT.
      - rewrite HR. field. exact HT.
    Qed.

    Lemma map_inten_pa mass z T : forall (l : list F) n s, length l = n ->
      map inten (map (pa_peak mass z T) (combine (seq s n) l)) = map (fun x => x /! T) l.
    Proof.
      induction l as [|x l IH]; intros n s Hl.
      - destruct n; reflexivity.
      - destruct n as [|n]; [cbn in Hl; lia|]. cbn [length] in Hl.
        cbn [seq combine map pa_peak inten]. rewrite IH by lia. reflexivity.
    Qed.

    Lemma fold_div T : T <> 0 -> forall l a,
      fold_left (add N) (map (fun x => x /! T) l) (a /! T) = fold_left (add N) l a /! T.
    Proof.
      intros HT. induction l as [|x l IH]; intros a; cbn [map fold_left]; [reflexivity|].
      replace (a /! T +! x /! T) with ((a +! x) /! T) by (field; exact HT).
      apply IH.
    Qed.

    Lemma pois_nonneg_sum : forall mass lf n z,
      fle N 0 (div N mass lf) -> 1 <= n ->
      let ps := poisson_approximation_impl N mass n z lf in
      (forall q, In q ps -> fle N 0 (inten q)) /\ fsum N (map inten ps) = 1.
    Proof.
      intros mass lf [|m] z Hl Hn ps; [lia|]. subst ps.
      pose proof (pa_total_neq0 mass lf m Hl) as HT.
      rewrite pa_unfold. split.
      - intros q Hq. apply in_map_iff in Hq. destruct Hq as [[i x] [<- Hin]].
        apply in_combine_r in Hin. unfold pa_peak. cbn [inten].
        apply div_nonneg; [apply (ints_nonneg mass lf m Hl); exact Hin | apply pa_total_nonneg; exact Hl | exact HT].
      - rewrite map_inten_pa by apply pa_tl_length.
        unfold fsum. rewrite (of_sum0 N OF).
        replace 0 with (0 /! pa_total mass lf m) at 1 by (field; exact HT).
        rewrite fold_div by exact HT. cbn [fold_left].
        replace (0 +! 1) with 1 by ring. rewrite <- pa_total_eq. field. exact HT.
    Qed.

    Lemma pois_spacing : forall mass lf n z i, z <> 0%Z -> i + 1 < n ->
      let ps := poisson_approximation_impl N mass n z lf in
      let d := mkPeak 0 0 in
      sub N (mz (nth (i + 1) ps d)) (mz (nth i ps d)) = div N (NEUTRON_SHIFT N) (abs N (of_Z N z)).
    Proof.
      intros mass lf n z i Hz Hi ps d. subst ps d.
      rewrite !pois_ladder by lia. unfold charged.
      destruct (Z.eqb_spec z 0) as [E|_]; [contradiction|].
      unfold mass_charge_ratio. cbv zeta.
      replace (Z.of_nat (i + 1)) with (Z.of_nat i + 1)%Z by lia.
      rewrite (of_Z_add N OF), (of_Z_1 N OF).
      field. apply abs_neq0. apply ofZ_neq0. exact Hz.
    Qed.

  End WithField.

End PoissonProofs.

Lemma C15_example :
  OField NumQc /\ fle NumQc (zero NumQc) (div NumQc (Qc_of_Z 750) (LAMBDA_FACTOR NumQc))
  /\ poisson_n NumQc (Qc_of_Z 750) (of_dec NumQc 95 2) = 3%Z.
Proof.
  split; [exact NumQc_OField|]. split; vm_compute; reflexivity.
Qed.
