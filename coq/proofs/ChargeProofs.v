(* Proofs for C10: charge only rescales m/z. *)
From Coq Require Import ZArith List Bool Lia Field Ring Field_theory Ring_theory.
From CE Require Import Num OField Mz Peak Poisson Conv Brain PoissonProofs NumQc OFieldQc.
Import ListNotations.

Section ChargeProofs.
  Context {F : Type} (N : Num F).

  Notation peakF := (peak (F:=F)).

  (* re-labelling the m/z of a peak, intensities untouched *)
  Definition remz (g : F -> F) (p : peakF) : peakF := mkPeak (g (mz p)) (inten p).

  Lemma charged_zero : forall m carrier, charged N m 0 carrier = m.
  Proof. intros m carrier. reflexivity. Qed.

  Lemma charged_nonzero m z carrier : z <> 0%Z -> charged N m z carrier = mass_charge_ratio N m z carrier.
  Proof.
    intros Hz. unfold charged. destruct (Z.eqb_spec z 0) as [E|_]; [contradiction|reflexivity].
  Qed.

  (* ---------- Poisson ---------- *)
  Lemma poisson_charge : forall mass n z lf,
    poisson_approximation_impl N mass n z lf
    = map (fun p => mkPeak (charged N (mz p) z (PROTON N)) (inten p)) (poisson_approximation_impl N mass n 0 lf).
  Proof.
    intros mass [|m] z lf; [reflexivity|].
    rewrite !pa_unfold. rewrite map_map. apply map_ext.
    intros [i x]. reflexivity.
  Qed.

  (* ---------- convolution ---------- *)
  Lemma map_inten_remz g (l : list peakF) : map inten (map (remz g) l) = map inten l.
  Proof. rewrite map_map. apply map_ext. intros q. reflexivity. Qed.

  Lemma filter_remz g (f : F -> bool) : forall l : list peakF,
    filter (fun q => f (inten q)) (map (remz g) l) = map (remz g) (filter (fun q => f (inten q)) l).
  Proof.
    induction l as [|q l IH]; [reflexivity|].
    cbn [map filter]. change (inten (remz g q)) with (inten q).
    destruct (f (inten q)); cbn [map]; rewrite IH; reflexivity.
  Qed.

  Lemma peaks_normalize (l : list peakF) o :
    peaks (normalize N (mkTip l o))
    = map (fun q => mkPeak (mz q) (mul N (inten q) (div N (one N) (fsum N (map inten l))))) l.
  Proof. reflexivity. Qed.

  Lemma peaks_normalize_remz g (l : list peakF) o o' :
    peaks (normalize N (mkTip (map (remz g) l) o)) = map (remz g) (peaks (normalize N (mkTip l o'))).
  Proof.
    rewrite !peaks_normalize. rewrite map_inten_remz. rewrite !map_map.
    apply map_ext. intros q. reflexivity.
  Qed.

  Lemma peaks_ignore_below (p : tip (F:=F)) t :
    peaks (ignore_below N p t)
    = peaks (normalize N (mkTip (filter (fun q => geb N (inten q) t) (peaks p)) (origin p))).
  Proof. reflexivity. Qed.

  Lemma pipeline_remz g (l : list peakF) o o' thr :
    peaks (ignore_below N (normalize N (mkTip (map (remz g) l) o)) thr)
    = map (remz g) (peaks (ignore_below N (normalize N (mkTip l o')) thr)).
  Proof.
    rewrite !peaks_ignore_below.
    rewrite (peaks_normalize_remz g l o o').
    rewrite (filter_remz g (fun x => geb N x thr)).
    apply peaks_normalize_remz.
  Qed.

  Lemma convolution_charge : forall c z carrier thr,
    isotopic_convolution N c z carrier thr
    = map (fun p => mkPeak (charged N (mz p) z carrier) (inten p)) (isotopic_convolution N c 0 carrier thr).
  Proof.
    intros c z carrier thr. unfold isotopic_convolution. cbv zeta.
    set (sorted := sort_mass N (conv_all N c thr)).
    set (pk0 := map (fun mi : F * F => mkPeak (charged N (fst mi) 0 carrier) (snd mi)) sorted).
    assert (Hpk : map (fun mi : F * F => mkPeak (charged N (fst mi) z carrier) (snd mi)) sorted
                  = map (remz (fun m => charged N m z carrier)) pk0).
    { unfold pk0. rewrite map_map. apply map_ext. intros mi. reflexivity. }
    rewrite Hpk.
    apply (pipeline_remz (fun m => charged N m z carrier) pk0).
  Qed.

  (* ---------- the coarse generator: keep_real and the stable sort ---------- *)
  Definition on_fst (g : F -> F) (mp : F * F) : F * F := (g (fst mp), snd mp).

  Lemma keep_real_on_fst g : forall l b,
    keep_real N (map (on_fst g) l) b = map (on_fst g) (keep_real N l b).
  Proof.
    induction l as [|[m p] l IH]; intros b; [reflexivity|].
    cbn [map on_fst fst snd keep_real].
    destruct (ltb N p (tiny10 N)).
    - destruct b.
      + apply IH.
      + cbn [map on_fst fst snd]. rewrite IH. reflexivity.
    - cbn [map on_fst fst snd]. rewrite IH. reflexivity.
  Qed.

  Lemma ins_mz_on_fst g :
    (forall a b, ltb N (g a) (g b) = ltb N a b) ->
    forall x l, ins_mz N (on_fst g x) (map (on_fst g) l) = map (on_fst g) (ins_mz N x l).
  Proof.
    intros Hg x. induction l as [|y l IH]; [reflexivity|].
    cbn [map ins_mz]. change (fst (on_fst g x)) with (g (fst x)).
    change (fst (on_fst g y)) with (g (fst y)). rewrite Hg.
    destruct (ltb N (fst x) (fst y)); cbn [map]; [reflexivity|].
    rewrite IH. reflexivity.
  Qed.

  Lemma sort_mz_on_fst g :
    (forall a b, ltb N (g a) (g b) = ltb N a b) ->
    forall l, sort_mz N (map (on_fst g) l) = map (on_fst g) (sort_mz N l).
  Proof.
    intros Hg l. unfold sort_mz.
    change (@nil (F * F)) with (map (on_fst g) []) at 1.
    generalize (@nil (F * F)) as acc.
    induction l as [|x l IH]; intros acc; [reflexivity|].
    cbn [map fold_left]. rewrite (ins_mz_on_fst g Hg). apply IH.
  Qed.

  Lemma finish_on_fst (g : F -> F) pv cv o z carrier :
    (forall a b, ltb N (g a) (g b) = ltb N a b) ->
    (forall m, charged N m z carrier = g m) ->
    finish N pv cv o z carrier = map (on_fst g) (finish N pv cv o 0 carrier).
  Proof.
    intros Hg Hc. unfold finish. cbv zeta.
    set (L := firstn (o + 1) (combine cv pv)).
    assert (Hraw : map (fun cp : F * F => (charged N (fst cp) z carrier, div N (snd cp) (fsum N pv))) L
                   = map (on_fst g)
                       (map (fun cp : F * F => (charged N (fst cp) 0 carrier, div N (snd cp) (fsum N pv))) L)).
    { rewrite map_map. apply map_ext. intros cp. unfold on_fst. cbn [fst snd]. rewrite Hc. reflexivity. }
    rewrite Hraw. rewrite keep_real_on_fst. apply (sort_mz_on_fst g Hg).
  Qed.

  (* ================= exact arithmetic ================= *)
  Section WithField.
    Hypothesis OF : OField N.
    Add Field Fc : (of_field N OF).

    Local Notation "0" := (zero N).
    Local Notation "1" := (one N).
    Local Infix "+!" := (add N) (at level 50, left associativity).
    Local Infix "*!" := (mul N) (at level 40, left associativity).
    Local Infix "/!" := (div N) (at level 40, left associativity).
    Local Infix "<=!" := (fle N) (at level 70).

    Lemma abs_nonneg a : 0 <=! abs N a.
    Proof.
      rewrite (of_abs_def N OF). destruct (leb N 0 a) eqn:E; [exact E|].
      apply (opp_nonneg N OF).
      destruct (of_le_total N OF 0 a) as [H|H]; [unfold fle in H; congruence | exact H].
    Qed.

    Lemma mul_le_r x y c : x <=! y -> 0 <=! c -> x *! c <=! y *! c.
    Proof.
      intros Hxy Hc.
      pose proof (of_add_le N OF x y (opp N x) Hxy) as H1.
      replace (x +! opp N x) with 0 in H1 by ring.
      pose proof (of_mul_nonneg N OF _ _ H1 Hc) as H2.
      pose proof (of_add_le N OF _ _ (x *! c) H2) as H3.
      replace (0 +! x *! c) with (x *! c) in H3 by ring.
      replace ((y +! opp N x) *! c +! x *! c) with (y *! c) in H3 by ring.
      exact H3.
    Qed.

    Lemma leb_iff_eq a b a' b' : (a <=! b <-> a' <=! b') -> leb N a b = leb N a' b'.
    Proof.
      unfold fle. intros [H1 H2].
      destruct (leb N a b) eqn:E1, (leb N a' b') eqn:E2; try reflexivity.
      - specialize (H1 eq_refl). discriminate H1.
      - specialize (H2 eq_refl). discriminate H2.
    Qed.

    (* x |-> (x + k) / d with d > 0 is strictly increasing *)
    Lemma affine_le k d a b : 0 <=! d -> d <> 0 ->
      ((a +! k) /! d <=! (b +! k) /! d <-> a <=! b).
    Proof.
      intros Hd Hd0. split; intros H.
      - pose proof (mul_le_r _ _ d H Hd) as H1.
        pose proof (of_add_le N OF _ _ (opp N k) H1) as H2.
        replace ((a +! k) /! d *! d +! opp N k) with a in H2 by (field; exact Hd0).
        replace ((b +! k) /! d *! d +! opp N k) with b in H2 by (field; exact Hd0).
        exact H2.
      - pose proof (of_add_le N OF _ _ k H) as H1.
        pose proof (mul_le_r _ _ (finv N d) H1 (inv_nonneg N OF d Hd Hd0)) as H2.
        replace ((a +! k) *! finv N d) with ((a +! k) /! d) in H2 by (field; exact Hd0).
        replace ((b +! k) *! finv N d) with ((b +! k) /! d) in H2 by (field; exact Hd0).
        exact H2.
    Qed.

    Lemma mcr_ltb z carrier : z <> 0%Z -> forall a b,
      ltb N (mass_charge_ratio N a z carrier) (mass_charge_ratio N b z carrier) = ltb N a b.
    Proof.
      intros Hz a b. rewrite !(of_ltb_def N OF). f_equal.
      unfold mass_charge_ratio. cbv zeta.
      apply leb_iff_eq. apply affine_le.
      - apply abs_nonneg.
      - apply (abs_neq0 N OF). apply (ofZ_neq0 N OF). exact Hz.
    Qed.

    Lemma brain_charge : forall pv cv o z carrier,
      z <> 0%Z ->
      finish N pv cv o z carrier
      = map (fun mp => (charged N (fst mp) z carrier, snd mp)) (finish N pv cv o 0 carrier).
    Proof.
      intros pv cv o z carrier Hz.
      rewrite (finish_on_fst (fun m => mass_charge_ratio N m z carrier) pv cv o z carrier).
      - apply map_ext. intros mp. unfold on_fst. rewrite (charged_nonzero _ _ _ Hz). reflexivity.
      - apply mcr_ltb. exact Hz.
      - intros m. apply charged_nonzero. exact Hz.
    Qed.

    Lemma neutral_inverts : forall m z carrier,
      z <> 0%Z -> neutral_mass N (mass_charge_ratio N m z carrier) z carrier = m.
    Proof.
      intros m z carrier Hz. unfold neutral_mass, mass_charge_ratio. cbv zeta.
      field. apply (abs_neq0 N OF). apply (ofZ_neq0 N OF). exact Hz.
    Qed.

  End WithField.

  (* holds for every [Num]; the [OField] premise is only there to match the statement in C10 *)
  Lemma charged_formula : OField N -> forall m z carrier,
    z <> 0%Z -> charged N m z carrier = div N (add N m (mul N (of_Z N z) carrier)) (abs N (of_Z N z)).
  Proof. intros _ m z carrier Hz. rewrite (charged_nonzero _ _ _ Hz). reflexivity. Qed.
End ChargeProofs.

Lemma C10_example :
  OField NumQc /\ neutral_mass NumQc (mass_charge_ratio NumQc (Qc_of_Z 1000) (-3) (PROTON NumQc)) (-3) (PROTON NumQc) = Qc_of_Z 1000.
Proof.
  split; [exact NumQc_OField|].
  apply (neutral_inverts NumQc NumQc_OField). discriminate.
Qed.

Print Assumptions poisson_charge. Print Assumptions convolution_charge. Print Assumptions charged_zero.
Print Assumptions brain_charge. Print Assumptions neutral_inverts. Print Assumptions charged_formula.
Print Assumptions C10_example.
