(* Coq's primitive binary64 floats with Flocq's Bfma satisfy the standard model of rounding for the fused multiply-add,
   and the instance of mass_rounded at binary64. *)
From Coq Require Import ZArith List Bool Reals Floats Lra Lia.
From Flocq Require Import Core.Core IEEE754.BinarySingleNaN IEEE754.PrimFloat Relative.
From CE Require Import Num OField Rounded RoundedExt RoundedFma NumFloat NumFloat64 Float64Std RoundedProofs FloatStd
  FloatStdExt MassRounded.
Import ListNotations.

Local Open Scope R_scope.

(* ---------- the fused multiply-add ---------- *)

Lemma binary64_fma : forall a b c, fin64 a = true -> fin64 b = true -> fin64 c = true -> nrm64 (f_fma a b c) = true ->
  within NumRR u64 (v64 a * v64 b + v64 c) (v64 (f_fma a b c)).
Proof.
  intros a b c Fa Fb Fc Hn. apply nrm64_spec in Hn. destruct Hn as (Fr & Hn).
  rewrite fin64_is_finite in Fa, Fb, Fc, Fr. unfold v64 in *. unfold f_fma in *. rewrite Prim2B_B2Prim in *.
  generalize (Bfma_correct prec emax prec_ok emax_ok mode_NE (Prim2B a) (Prim2B b) (Prim2B c) Fa Fb Fc). cbn zeta.
  case Rlt_bool.
  - intros (E & _). rewrite E in *. apply rel_err_normal. now apply round_above_min_normal.
  - intros E. apply overflow_not_finite in E. congruence.
Qed.

Lemma binary64_std_model_fma : StdModelFma NumF NumRR v64 u64 fin64 nrm64.
Proof.
  constructor; simpl.
  - exact binary64_std_model_ext.
  - reflexivity.
  - exact binary64_fma.
Qed.

(* ---------- calc_mass at binary64 ---------- *)

Lemma exact_mass_RR : forall {F} (v : F -> R) (l : list (F * Z)),
  exact_mass NumRR v l = fold_right Rplus 0 (map (fun mc => v (fst mc) * IZR (snd mc)) l).
Proof. reflexivity. Qed.

Lemma exact_abs_mass_RR : forall {F} (v : F -> R) (l : list (F * Z)),
  exact_abs_mass NumRR v l = fold_right Rplus 0 (map (fun mc => Rabs (v (fst mc) * IZR (snd mc))) l).
Proof. reflexivity. Qed.

Lemma mass_binary64 :
  forall (l : list (PrimFloat.float * Z)), fma_chain_safe NumF fin64 nrm64 l 0%float = true ->
  let n := List.length l in
  (Rabs (v64 (fma_chain NumF l 0%float) - fold_right Rplus 0 (map (fun mc => v64 (fst mc) * IZR (snd mc)) l))
   <= ((1 + u64) ^ n - 1) * fold_right Rplus 0 (map (fun mc => Rabs (v64 (fst mc) * IZR (snd mc))) l))%R.
Proof.
  intros l Hs n.
  pose proof (mass_rounded NumF NumRR v64 u64 fin64 nrm64 OField_RR binary64_std_model_fma l Hs) as H.
  cbn zeta in H. apply fle_RR in H. rewrite kpow_RR, exact_mass_RR, exact_abs_mass_RR in H. exact H.
Qed.

Print Assumptions binary64_std_model_fma.
Print Assumptions mass_binary64.
