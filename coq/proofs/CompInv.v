(* Proofs for C02: the mass cache invariant of the composition register machine, and the
   exact-arithmetic laws of the mass (sum form, order independence, additivity, linearity). *)
From Coq Require Import List ZArith NArith Bool Arith String Permutation Lia Field Ring Field_theory Ring_theory.
From CE Require Import Num OField Str TableTypes TableModel Comp ESpec CompOps CompSpec.
Import ListNotations.
Local Close Scope Z_scope.

(* ------------------------------------------------------------------------------------------ *)
(* Keys: the boolean comparison decides Leibniz equality.                                       *)
Lemma str_eqb_eq : forall a b : str, str_eqb a b = true -> a = b.
Proof.
  intros a b. unfold str_eqb. destruct (list_eq_dec N.eq_dec a b) as [E|E].
  - intros _. exact E.
  - intros H. discriminate H.
Qed.

Lemma key_eqb_eq : forall a b : key, key_eqb a b = true -> a = b.
Proof.
  intros [a1 a2] [b1 b2]. unfold key_eqb. cbn [fst snd]. intros H.
  apply andb_true_iff in H. destruct H as [H1 H2].
  apply str_eqb_eq in H1. apply N.eqb_eq in H2. subst. reflexivity.
Qed.

(* ------------------------------------------------------------------------------------------ *)
(* The cache invariant: holds for every numeric interpretation and every iteration order.       *)
Section Inv.
  Context {F : Type} (N : Num F).
  Variable tbl : list (string * elem).
  Variable shuffle : ents -> ents.
  Notation comp := (comp F).
  Notation reg := (reg (F:=F)).
  Notation dflt := (mkReg FVecDirect (empty_comp (F:=F))).

  Lemma cache_ok_none : forall l, cache_ok N tbl (mkComp l None).
  Proof. intros l. unfold cache_ok. cbn [c_cache]. exact I. Qed.

  Lemma cache_ok_dirty : forall f l, cache_ok N tbl (dirty shuffle f l).
  Proof. intros f l. unfold dirty. apply cache_ok_none. Qed.

  Lemma cache_ok_empty : cache_ok N tbl empty_comp.
  Proof. unfold empty_comp. apply cache_ok_none. Qed.

  Lemma cache_ok_fmass : forall a : comp,
    cache_ok N tbl a -> cache_ok N tbl (fst (c_fmass N tbl a)).
  Proof.
    intros a Ha. unfold c_fmass.
    destruct (c_cache a) as [v|] eqn:Ec.
    - cbn [fst]. exact Ha.
    - destruct (calc_mass N tbl (c_ents a)) as [v|] eqn:Em.
      + cbn [fst]. unfold cache_ok. cbn [c_cache c_ents]. exact Em.
      + cbn [fst]. exact Ha.
  Qed.

  Lemma cache_ok_bin : forall f g (a b : comp),
    cache_ok N tbl a -> cache_ok N tbl (bin shuffle f g a b).
  Proof.
    intros f g a b Ha. unfold bin. destruct (c_ents b) as [|x r].
    - exact Ha.
    - apply cache_ok_dirty.
  Qed.

  (* every operation returns a comp with an empty cache, one of its inputs, or fmass of its input *)
  Lemma apply_cache_ok : forall f o (a b : comp),
    cache_ok N tbl a -> cache_ok N tbl b ->
    cache_ok N tbl (fst (apply N tbl shuffle f o a b)).
  Proof.
    intros f o a b Ha Hb.
    destruct o; cbn [apply];
      repeat (match goal with
              | |- cache_ok _ _ (fst (match ?x with _ => _ end)) => destruct x
              end);
      cbn [fst];
      first [ exact Ha | exact Hb | apply cache_ok_none | apply cache_ok_dirty
            | apply cache_ok_bin; exact Ha | apply cache_ok_fmass; exact Ha ].
  Qed.

  Lemma In_set_nth : forall (A : Type) n (x : A) l y,
    In y (set_nth n x l) -> y = x \/ In y l.
  Proof.
    intros A n x l. revert n. induction l as [|z r IH]; intros n y H.
    - destruct n; cbn [set_nth] in H; destruct H.
    - destruct n as [|n'].
      + cbn [set_nth] in H. destruct H as [H|H].
        * left. symmetry. exact H.
        * right. right. exact H.
      + cbn [set_nth] in H. destruct H as [H|H].
        * right. left. exact H.
        * destruct (IH n' y H) as [E|E]; [left; exact E|right; right; exact E].
  Qed.

  Lemma length_set_nth : forall (A : Type) n (x : A) l, List.length (set_nth n x l) = List.length l.
  Proof.
    intros A n x l. revert n. induction l as [|z r IH]; intros n.
    - destruct n; reflexivity.
    - destruct n as [|n']; cbn [set_nth List.length]; [reflexivity|rewrite IH; reflexivity].
  Qed.

  Lemma nth_cache_ok : forall regs, regs_ok N tbl regs ->
    forall n, cache_ok N tbl (r_comp (nth n regs dflt)).
  Proof.
    intros regs Hok n. destruct (nth_in_or_default n regs dflt) as [H|H].
    - apply Hok. exact H.
    - rewrite H. cbn [r_comp]. apply cache_ok_empty.
  Qed.

  Lemma step_inv : forall regs ro,
    regs_ok N tbl regs -> regs_ok N tbl (fst (step N tbl shuffle regs ro)).
  Proof.
    intros regs [r o] Hok.
    assert (Ha := nth_cache_ok regs Hok r).
    destruct o; cbv beta iota zeta delta [step operand];
      (match goal with
       | |- context [apply N tbl shuffle ?f ?o ?a ?b] =>
           assert (Hc : cache_ok N tbl (fst (apply N tbl shuffle f o a b)))
             by (apply apply_cache_ok;
                 [exact Ha | first [apply cache_ok_empty | apply nth_cache_ok; exact Hok]]);
           destruct (apply N tbl shuffle f o a b) as [c out]
       end);
      cbn [fst] in Hc |- *;
      intros x Hx; apply In_set_nth in Hx;
      (destruct Hx as [Hx|Hx];
       [rewrite Hx; cbn [r_comp]; exact Hc | apply Hok; exact Hx]).
  Qed.

  Lemma run_ops_ok : forall ops regs,
    regs_ok N tbl regs -> regs_ok N tbl (run_ops N tbl shuffle regs ops).
  Proof.
    intros ops. unfold run_ops. induction ops as [|ro ops IH]; intros regs Hok.
    - cbn [fold_left]. exact Hok.
    - cbn [fold_left]. apply IH. apply step_inv. exact Hok.
  Qed.

  Lemma init_regs_ok : forall f n, regs_ok N tbl (init_regs f n).
  Proof.
    intros f n r Hr. unfold init_regs in Hr. apply repeat_spec in Hr. rewrite Hr.
    cbn [r_comp]. apply cache_ok_empty.
  Qed.

  Lemma cache_ok_coherent : forall c : comp, cache_ok N tbl c ->
    c_mass N tbl c = calc_mass N tbl (c_ents c)
    /\ snd (c_fmass N tbl c) = calc_mass N tbl (c_ents c)
    /\ cache_ok N tbl (fst (c_fmass N tbl c)).
  Proof.
    intros c Hc. split; [|split].
    - unfold c_mass. unfold cache_ok in Hc. destruct (c_cache c) as [v|].
      + symmetry. exact Hc.
      + reflexivity.
    - unfold c_fmass. unfold cache_ok in Hc. destruct (c_cache c) as [v|].
      + cbn [snd]. symmetry. exact Hc.
      + destruct (calc_mass N tbl (c_ents c)) as [v|]; reflexivity.
    - apply cache_ok_fmass. exact Hc.
  Qed.

  Lemma mass_coherent : forall f n ops r,
    In r (run_ops N tbl shuffle (init_regs f n) ops) ->
    c_mass N tbl (r_comp r) = calc_mass N tbl (c_ents (r_comp r))
    /\ snd (c_fmass N tbl (r_comp r)) = calc_mass N tbl (c_ents (r_comp r))
    /\ cache_ok N tbl (fst (c_fmass N tbl (r_comp r))).
  Proof.
    intros f n ops r Hr. apply cache_ok_coherent.
    apply (run_ops_ok ops (init_regs f n) (init_regs_ok f n)). exact Hr.
  Qed.
End Inv.


(* ------------------------------------------------------------------------------------------ *)
(* Exact arithmetic: the mass is the sum over entries of count * mass(key).                     *)
Section Exact.
  Context {F : Type} (N : Num F).
  Variable tbl : list (string * elem).
  Hypothesis OF : OField N.

  Add Field FfComp : (of_field N OF).

  Lemma keys_ok_cons : forall k c r,
    keys_ok N tbl ((k, c) :: r) = key_ok N tbl k && keys_ok N tbl r.
  Proof. intros k c r. reflexivity. Qed.

  Lemma key_ok_km : forall k, key_ok N tbl k = true -> key_mass N tbl k = Some (km N tbl k).
  Proof.
    intros k H. unfold key_ok in H. unfold km.
    destruct (key_mass N tbl k) as [m|]; [reflexivity|discriminate H].
  Qed.

  Lemma calc_mass_from_sum : forall l tot,
    keys_ok N tbl l = true ->
    calc_mass_from N tbl l tot = Some (add N tot (mass_sum N tbl l)).
  Proof.
    intros l. induction l as [|[k c] r IH]; intros tot H.
    - cbn [calc_mass_from mass_sum]. f_equal. ring.
    - rewrite keys_ok_cons in H. apply andb_true_iff in H. destruct H as [Hk Hr].
      cbn [calc_mass_from mass_sum]. rewrite (key_ok_km k Hk).
      rewrite (IH _ Hr). rewrite (of_fma N OF). f_equal. ring.
  Qed.

  Lemma mass_is_sum : forall l,
    keys_ok N tbl l = true -> calc_mass N tbl l = Some (mass_sum N tbl l).
  Proof.
    intros l H. unfold calc_mass. rewrite (calc_mass_from_sum l (zero N) H). f_equal. ring.
  Qed.

  Lemma mass_sum_app : forall l l',
    mass_sum N tbl (l ++ l') = add N (mass_sum N tbl l) (mass_sum N tbl l').
  Proof.
    intros l l'. induction l as [|[k c] r IH].
    - cbn [app mass_sum]. ring.
    - cbn [app mass_sum]. rewrite IH. ring.
  Qed.

  Lemma mass_perm : forall l l',
    Permutation l l' -> mass_sum N tbl l = mass_sum N tbl l'.
  Proof.
    intros l l' P. induction P as [|[k c] l l' P IH|[k c] [k' c'] l|l l' l'' P1 IH1 P2 IH2].
    - reflexivity.
    - cbn [mass_sum]. rewrite IH. reflexivity.
    - cbn [mass_sum]. ring.
    - rewrite IH1. exact IH2.
  Qed.

  (* set replaces the count of the first entry for k, or appends (k, n) *)
  Lemma mass_sum_set : forall k n l,
    mass_sum N tbl (e_set k n l)
    = add N (mass_sum N tbl l) (mul N (km N tbl k) (sub N (of_Z N n) (of_Z N (e_get k l)))).
  Proof.
    intros k n l. induction l as [|[k' v] r IH].
    - cbn [e_set e_get mass_sum]. rewrite (of_Z_0 N OF). ring.
    - cbn [e_set e_get]. destruct (key_eqb k k') eqn:E.
      + apply key_eqb_eq in E. subst k'. cbn [mass_sum]. ring.
      + cbn [mass_sum]. rewrite IH. ring.
  Qed.

  Lemma mass_sum_inc : forall k n l,
    mass_sum N tbl (e_inc k n l) = add N (mass_sum N tbl l) (mul N (km N tbl k) (of_Z N n)).
  Proof.
    intros k n l. unfold e_inc. rewrite mass_sum_set. rewrite (of_Z_add N OF). ring.
  Qed.

  Lemma mass_sum_add : forall b a,
    mass_sum N tbl (e_add a b) = add N (mass_sum N tbl a) (mass_sum N tbl b).
  Proof.
    unfold e_add. intros b. induction b as [|[k v] r IH]; intros a.
    - cbn [fold_left mass_sum]. ring.
    - cbn [fold_left fst snd mass_sum]. rewrite IH. rewrite mass_sum_inc. ring.
  Qed.

  Lemma mass_sum_sub : forall b a,
    mass_sum N tbl (e_sub a b) = sub N (mass_sum N tbl a) (mass_sum N tbl b).
  Proof.
    unfold e_sub. intros b. induction b as [|[k v] r IH]; intros a.
    - cbn [fold_left mass_sum]. ring.
    - cbn [fold_left fst snd mass_sum]. rewrite IH. rewrite mass_sum_inc.
      rewrite (of_Z_opp N OF). ring.
  Qed.

  Lemma mass_additive : forall a b,
    mass_sum N tbl (e_add a b) = add N (mass_sum N tbl a) (mass_sum N tbl b)
    /\ mass_sum N tbl (e_sub a b) = sub N (mass_sum N tbl a) (mass_sum N tbl b).
  Proof. intros a b. split; [apply mass_sum_add|apply mass_sum_sub]. Qed.

  Lemma mass_linear : forall a n,
    mass_sum N tbl (e_mul a n) = mul N (of_Z N n) (mass_sum N tbl a).
  Proof.
    unfold e_mul. intros a n. induction a as [|[k v] r IH].
    - cbn [map mass_sum]. ring.
    - cbn [map fst snd mass_sum]. rewrite IH. rewrite (of_Z_mul N OF). ring.
  Qed.

  (* corollaries for the other entry-store operations *)
  Lemma mass_neg : forall a, mass_sum N tbl (e_neg a) = opp N (mass_sum N tbl a).
  Proof.
    intros a. unfold e_neg. rewrite mass_linear.
    change (-1)%Z with (- (1))%Z. rewrite (of_Z_opp N OF), (of_Z_1 N OF). ring.
  Qed.

  Lemma mass_collect : forall l, mass_sum N tbl (e_collect l) = mass_sum N tbl l.
  Proof. intros l. unfold e_collect. rewrite mass_sum_add. cbn [mass_sum]. ring. Qed.
End Exact.


(* ------------------------------------------------------------------------------------------ *)
(* Non-vacuity on the regenerated table over the canonical rationals: a history that fills the  *)
(* cache, mutates through three different paths and fills it again.                             *)
From CE Require Import NumQc OFieldQc Table.

Lemma C02_example :
  OField NumQc /\
  let T := build_table table_src in
  let H := (codes "H", 0%N) in let O := (codes "O", 0%N) in
  let regs := run_ops NumQc T (fun l => l) (init_regs FMapDirect 2%nat)
                [(0%nat, OSet H 2%Z); (0%nat, OSet O 1%Z); (0%nat, OFmass); (0%nat, OMulAssign 2%Z);
                 (1%nat, OClone 0%nat); (1%nat, OFmass); (1%nat, OAddAssign 0%nat)] in
  regs_ok NumQc T regs /\ List.length regs = 2%nat
  /\ c_mass NumQc T (r_comp (nth 1%nat regs (mkReg FMapDirect (empty_comp (F:=Qcanon.Qc)))))
     = Some (mass_sum NumQc T [(H, 8%Z); (O, 4%Z)]).
Proof.
  split; [exact NumQc_OField|].
  intros T H O regs.
  assert (E : regs = [mkReg FMapDirect (mkComp [(H, 4%Z); (O, 2%Z)] None);
                      mkReg FMapDirect (mkComp [(H, 8%Z); (O, 4%Z)] None)]).
  { vm_compute. reflexivity. }
  clearbody regs. subst regs.
  split; [|split].
  - intros r [Hr|[Hr|[]]]; rewrite <- Hr; cbn [r_comp]; apply cache_ok_none.
  - reflexivity.
  - cbn [nth r_comp]. unfold c_mass. cbn [c_cache c_ents].
    apply (mass_is_sum NumQc T NumQc_OField).
    vm_compute. reflexivity.
Qed.

(* the same history stopped after the second fmass: register 1 then holds a populated cache, and it is
   the exact mass of its (mutated) contents -- the invariant is exercised on a Some, not only on None *)
Lemma C02_example_cache_filled :
  let T := build_table table_src in
  let H := (codes "H", 0%N) in let O := (codes "O", 0%N) in
  let regs := run_ops NumQc T (fun l => l) (init_regs FMapDirect 2%nat)
                [(0%nat, OSet H 2%Z); (0%nat, OSet O 1%Z); (0%nat, OFmass); (0%nat, OMulAssign 2%Z);
                 (1%nat, OClone 0%nat); (1%nat, OFmass)] in
  let c := r_comp (nth 1%nat regs (mkReg FMapDirect (empty_comp (F:=Qcanon.Qc)))) in
  c_ents c = [(H, 4%Z); (O, 2%Z)]
  /\ c_cache c = Some (mass_sum NumQc T [(H, 4%Z); (O, 2%Z)])
  /\ mass_sum NumQc T [(H, 4%Z); (O, 2%Z)] <> zero NumQc.
Proof.
  intros T H O regs c.
  assert (Hm : calc_mass NumQc T [(H, 4%Z); (O, 2%Z)] = Some (mass_sum NumQc T [(H, 4%Z); (O, 2%Z)])).
  { apply (mass_is_sum NumQc T NumQc_OField). vm_compute. reflexivity. }
  assert (E : regs = fst (step NumQc T (fun l => l)
                            [mkReg FMapDirect (mkComp [(H, 4%Z); (O, 2%Z)] None);
                             mkReg FMapDirect (mkComp [(H, 4%Z); (O, 2%Z)] None)] (1%nat, OFmass))).
  { unfold regs, run_ops.
    change [(0%nat, OSet H 2%Z); (0%nat, OSet O 1%Z); (0%nat, OFmass); (0%nat, OMulAssign 2%Z);
            (1%nat, OClone 0%nat); (1%nat, OFmass)]
      with ([(0%nat, OSet H 2%Z); (0%nat, OSet O 1%Z); (0%nat, OFmass); (0%nat, OMulAssign 2%Z);
             (1%nat, OClone 0%nat)] ++ [(1%nat, OFmass)])%list.
    rewrite fold_left_app. cbn [fold_left].
    apply (f_equal (fun x => fst (step NumQc T (fun l => l) x (1%nat, OFmass)))). vm_compute. reflexivity. }
  assert (Ec : c = mkComp [(H, 4%Z); (O, 2%Z)] (Some (mass_sum NumQc T [(H, 4%Z); (O, 2%Z)]))).
  { unfold c. rewrite E.
    cbv beta iota zeta delta [step operand nth apply fst r_fam r_comp c_fmass c_cache c_ents set_nth fam_after].
    rewrite Hm. reflexivity. }
  rewrite Ec. cbn [c_ents c_cache]. split; [reflexivity|split; [reflexivity|]].
  intros Hz. apply (f_equal Qcanon.this) in Hz. vm_compute in Hz. discriminate Hz.
Qed.


Print Assumptions step_inv. Print Assumptions mass_coherent. Print Assumptions mass_is_sum.
Print Assumptions mass_perm. Print Assumptions mass_additive. Print Assumptions mass_linear.
Print Assumptions C02_example. Print Assumptions C02_example_cache_filled.
