(* Floating-point level theorem for the fused operation truncate_after_ignore_below_shift_normalize ([Peak.fused]):
   the one renormalising operation that does not end in `normalize` of a sub-list.  Its divisor is obtained by n
   additions (the prefix reaching t1) followed by m subtractions (one per dropped peak), so the rounded bound depends
   on how much was dropped.  With P, D, S = P - D the exact sums of the prefix, the dropped and the kept intensities:

     P (1-u)^(n+m) - D (1+u)^m  <=  v total'  <=  P (1+u)^(n+m) - D (1-u)^m          (fused_total_interval)
     | v total' - S |  <=  E,   E := ((1+u)^(n+m) - 1) (P + D)                      (fused_total_rounded)
     E < S  ->  S (1-u) / (S + E)  <=  sum of the returned intensities  <=  S (1+u) / (S - E)   (fused_sum_rounded)
     nothing dropped  ->  sum_within (fused ...) n, the bound of normalize           (fused_nodrop)

   Every returned intensity is kept_i / total' with ONE rounding (the Rust code divides, it does not multiply by a
   reciprocal), hence (1 +- u)^1 where normalize has (1 +- u)^2.
   Generic in the numeric interpretation (extended standard model of rounding into an ordered field); axiom-free. *)
From Coq Require Import ZArith List Bool Arith Lia Field Ring Field_theory Ring_theory.
From CE Require Import Num OField Peak PeakSpec Rounded RoundedExt RoundedProofs PeakProofs PoissonRounded RenormRounded.
Import ListNotations.

(* ------------------------------------------------------------------------------------------ *)
(* What the fused operation goes through, named.  No proofs in this section.                   *)
Section FusedDefs.
  Context {F K : Type} (N : Num F) (NK : Num K) (v : F -> K) (u : K) (fin nrm : F -> bool).
  Notation tip := (tip (F:=F)).
  Notation peak := (peak (F:=F)).

  (* the first loop: (stop_index, total at exit) *)
  Definition fused_scan (p : tip) (t1 : F) : nat * F :=
    trunc_scan N t1 (peaks p) 0 (zero N) (Nat.pred (length (peaks p))).
  (* self.peaks.truncate(stop_index + 1) *)
  Definition fused_prefix (p : tip) (t1 : F) : list peak := firstn (S (fst (fused_scan p t1))) (peaks p).
  (* ignore_below_threshold * total *)
  Definition fused_thr (p : tip) (t1 t2 : F) : F := mul N t2 (snd (fused_scan p t1)).
  Definition fused_kept (p : tip) (t1 t2 : F) : list peak :=
    filter (fun q => geb N (inten q) (fused_thr p t1 t2)) (fused_prefix p t1).
  Definition fused_dropped (p : tip) (t1 t2 : F) : list peak :=
    filter (fun q => negb (geb N (inten q) (fused_thr p t1 t2))) (fused_prefix p t1).

  (* total after the first loop (additions from +0.0), and after the second (one subtraction per dropped peak) *)
  Definition fused_sum (p : tip) (t1 : F) : F := fold_left (add N) (map inten (fused_prefix p t1)) (zero N).
  Definition fused_total (p : tip) (t1 t2 : F) : F :=
    fold_left (sub N) (map inten (fused_dropped p t1 t2)) (fused_sum p t1).

  (* the running totals of the second loop *)
  Fixpoint sub_partials (l : list F) (acc : F) : list F :=
    match l with [] => [] | x :: r => let a := sub N acc x in a :: sub_partials r a end.

  (* the fused operation meets no overflow and no underflow on this pattern: every intensity of the prefix and every
     running total of either loop is finite, every final quotient is of normal magnitude.  (The product t2 * total and
     the shifted m/z need nothing: whatever the threshold is, the theorem is about the peaks it keeps and drops.) *)
  Definition fused_safe (p : tip) (t1 t2 : F) : bool :=
    let xs := map inten (fused_prefix p t1) in
    let ds := map inten (fused_dropped p t1 t2) in
    fin (zero N) && forallb fin xs && forallb fin (partials N xs (zero N))
    && forallb fin (sub_partials ds (fused_sum p t1))
    && forallb (fun x => nrm (div N x (fused_total p t1 t2))) (map inten (fused_kept p t1 t2)).

  (* exact sum of the intensities of a list of peaks *)
  Definition xsum (l : list peak) : K := ksum NK (map (fun q => v (inten q)) l).
  Definition fused_P (p : tip) (t1 : F) : K := xsum (fused_prefix p t1).
  Definition fused_D (p : tip) (t1 t2 : F) : K := xsum (fused_dropped p t1 t2).
  Definition fused_S (p : tip) (t1 t2 : F) : K := xsum (fused_kept p t1 t2).

  Definition fused_good (p : tip) (t1 t2 : F) : Prop :=
    peaks p <> [] /\ (forall q, In q (fused_prefix p t1) -> flt NK (zero NK) (v (inten q)))
    /\ fused_safe p t1 t2 = true.

  (* E = ((1+u)^(n+m) - 1) (P + D),  n = length of the prefix, m = number of dropped peaks *)
  Definition fused_err (p : tip) (t1 t2 : F) : K :=
    mul NK (sub NK (kpow NK (add NK (one NK) u) (length (fused_prefix p t1) + length (fused_dropped p t1 t2))) (one NK))
           (add NK (fused_P p t1) (fused_D p t1 t2)).
End FusedDefs.

(* ------------------------------------------------------------------------------------------ *)
(* Structure of [fused]: holds for every numeric interpretation.                                *)
Section FusedStruct.
  Context {F : Type} (N : Num F).
  Notation tip := (tip (F:=F)).
  Notation peak := (peak (F:=F)).

  Lemma fused_scan_sum : forall (p : tip) t1, snd (fused_scan N p t1) = fused_sum N p t1.
  Proof.
    intros p t1. unfold fused_sum, fused_prefix, fused_scan.
    destruct (trunc_scan N t1 (peaks p) 0 (zero N) (Nat.pred (length (peaks p)))) as [stop tot] eqn:E.
    cbn [fst snd]. apply trunc_scan_tot in E. destruct E as [[H1 H2]|[k [H1 [_ H3]]]].
    - subst stop. rewrite firstn_S_pred_all. exact H2.
    - cbn [Nat.add] in H1. subst k. exact H3.
  Qed.

  Lemma fused_filter_fold : forall thr sh (l : list peak) tot,
    fused_filter N thr sh l tot
    = (map (fun q => mkPeak (add N (mz q) sh) (inten q)) (filter (fun q => geb N (inten q) thr) l),
       fold_left (sub N) (map inten (filter (fun q => negb (geb N (inten q) thr)) l)) tot).
  Proof.
    intros thr sh l. induction l as [|q r IH]; intros tot.
    - reflexivity.
    - cbn [fused_filter filter]. destruct (geb N (inten q) thr); cbn [negb].
      + rewrite IH. reflexivity.
      + rewrite IH. reflexivity.
  Qed.

  (* the peaks [fused] returns: the kept ones, m/z shifted, intensity divided by the final total *)
  Lemma fused_unfold : forall (p : tip) t1 t2 sh,
    fused N p t1 t2 sh
    = mkTip (map (fun q => mkPeak (add N (mz q) sh) (div N (inten q) (fused_total N p t1 t2))) (fused_kept N p t1 t2))
            (origin p).
  Proof.
    intros p t1 t2 sh. unfold fused_total, fused_kept, fused_dropped, fused_thr.
    rewrite <- (fused_scan_sum p t1). unfold fused_prefix, fused_scan, fused.
    destruct (trunc_scan N t1 (peaks p) 0 (zero N) (Nat.pred (length (peaks p)))) as [stop tot].
    cbn [fst snd]. rewrite fused_filter_fold. rewrite map_map. reflexivity.
  Qed.

  Lemma fused_prefix_nonempty : forall (p : tip) t1, peaks p <> [] -> fused_prefix N p t1 <> [].
  Proof.
    intros p t1 Hne. unfold fused_prefix. destruct (peaks p) as [|q r]; [exfalso; apply Hne; reflexivity|].
    cbn [firstn]. discriminate.
  Qed.

  Lemma filter_all : forall (f : peak -> bool) (l : list peak),
    filter (fun q => negb (f q)) l = [] -> filter f l = l.
  Proof.
    intros f l. induction l as [|q r IH]; intros H; [reflexivity|].
    cbn [filter] in *. destruct (f q); cbn [negb] in H; [|discriminate H].
    rewrite (IH H). reflexivity.
  Qed.
End FusedStruct.

(* ------------------------------------------------------------------------------------------ *)
(* Powers and sums over an arbitrary ordered field.                                             *)
Section PowK.
  Context {K : Type} (NK : Num K).
  Hypothesis OF : OField NK.
  Add Field FkP : (of_field NK OF).

  Local Notation k0 := (zero NK).
  Local Notation k1 := (one NK).
  Local Infix "+!" := (add NK) (at level 50, left associativity).
  Local Infix "-!" := (sub NK) (at level 50, left associativity).
  Local Infix "*!" := (mul NK) (at level 40, left associativity).
  Local Infix "/!" := (div NK) (at level 40, left associativity).
  Local Infix "<=!" := (fle NK) (at level 70).
  Local Infix "<!" := (flt NK) (at level 70).

  Lemma kpow_add x n m : kpow NK x (n + m) = kpow NK x n *! kpow NK x m.
  Proof. induction n as [|n IH]; cbn [Nat.add kpow]; [ring|rewrite IH; ring]. Qed.

  Lemma kpow_nonneg x : k0 <=! x -> forall n, k0 <=! kpow NK x n.
  Proof.
    intros Hx n. induction n as [|n IH]; cbn [kpow].
    - apply (klt_le NK OF). apply (k01 NK OF).
    - apply (kmul_nonneg NK OF); assumption.
  Qed.

  Lemma kpow_ge1 x : k1 <=! x -> forall n, k1 <=! kpow NK x n.
  Proof.
    intros Hx n. induction n as [|n IH]; cbn [kpow].
    - apply (kle_refl NK OF).
    - apply (kle_trans NK OF _ (k1 *! kpow NK x n)).
      + replace (k1 *! kpow NK x n) with (kpow NK x n) by ring. exact IH.
      + apply (kle_mul_r NK OF); [exact Hx|].
        apply (kle_trans NK OF _ k1); [apply (klt_le NK OF); apply (k01 NK OF)|exact IH].
  Qed.

  Lemma kpow_le1 x : k0 <=! x -> x <=! k1 -> forall n, kpow NK x n <=! k1.
  Proof.
    intros H0 H1 n. induction n as [|n IH]; cbn [kpow].
    - apply (kle_refl NK OF).
    - apply (kle_trans NK OF _ (k1 *! kpow NK x n)).
      + apply (kle_mul_r NK OF); [exact H1|apply kpow_nonneg; exact H0].
      + replace (k1 *! kpow NK x n) with (kpow NK x n) by ring. exact IH.
  Qed.

  (* x >= 1: x^m <= x^(n+m) *)
  Lemma kpow_le_add x : k1 <=! x -> forall n m, kpow NK x m <=! kpow NK x (n + m).
  Proof.
    intros Hx n m. rewrite kpow_add.
    apply (kle_trans NK OF _ (k1 *! kpow NK x m)).
    - apply (kle_eq NK OF). ring.
    - apply (kle_mul_r NK OF); [apply kpow_ge1; exact Hx|].
      apply (kle_trans NK OF _ k1); [apply (klt_le NK OF); apply (k01 NK OF)|apply kpow_ge1; exact Hx].
  Qed.

  (* 0 <= u <= 1: (1-u)^k + (1+u)^k >= 2, written 1 - (1-u)^k <= (1+u)^k - 1 *)
  Lemma kpow_sym u : k0 <=! u -> u <=! k1 -> forall k,
    k1 -! kpow NK (k1 -! u) k <=! kpow NK (k1 +! u) k -! k1.
  Proof.
    intros H0 H1.
    assert (Hom0 : k0 <=! k1 -! u) by (apply (ksub_of_le NK OF); exact H1).
    assert (Hom1 : k1 -! u <=! k1).
    { apply (kle_of_sub NK OF). replace (k1 -! (k1 -! u)) with u by ring. exact H0. }
    assert (Hop1 : k1 <=! k1 +! u).
    { apply (kle_of_sub NK OF). replace (k1 +! u -! k1) with u by ring. exact H0. }
    intros k. induction k as [|k IH]; cbn [kpow].
    - apply (kle_eq NK OF). ring.
    - set (a := kpow NK (k1 -! u) k) in *. set (b := kpow NK (k1 +! u) k) in *.
      assert (Hab : a <=! b).
      { apply (kle_trans NK OF _ k1); [apply kpow_le1; assumption|apply kpow_ge1; exact Hop1]. }
      apply (kle_of_sub NK OF).
      replace ((k1 +! u) *! b -! k1 -! (k1 -! (k1 -! u) *! a))
        with ((b -! k1 -! (k1 -! a)) +! u *! (b -! a)) by ring.
      apply (kadd_nonneg NK OF).
      + apply (ksub_of_le NK OF). exact IH.
      + apply (kmul_nonneg NK OF); [exact H0|apply (ksub_of_le NK OF); exact Hab].
  Qed.

  Lemma ksum_filter_split {A : Type} (g : A -> K) (f : A -> bool) (l : list A) :
    ksum NK (map g l) = ksum NK (map g (filter f l)) +! ksum NK (map g (filter (fun q => negb (f q)) l)).
  Proof.
    induction l as [|q r IH].
    - cbn [filter map ksum fold_right]. ring.
    - cbn [filter map]. destruct (f q); cbn [negb map];
        change (ksum NK (?a :: ?b)) with (a +! ksum NK b); rewrite IH; ring.
  Qed.

  (* lo <= x <= hi, 0 < lo, s >= 0:  s/hi <= s/x <= s/lo *)
  Lemma kdiv_between s lo x hi : k0 <=! s -> k0 <! lo -> lo <=! x -> x <=! hi ->
    s /! hi <=! s /! x /\ s /! x <=! s /! lo.
  Proof.
    intros Hs Hlo H1 H2.
    pose proof (klt_le_trans NK OF _ _ _ Hlo H1) as Hx.
    pose proof (klt_le_trans NK OF _ _ _ Hx H2) as Hhi.
    pose proof (klt_neq NK OF _ _ Hlo) as Hlon. pose proof (klt_neq NK OF _ _ Hx) as Hxn.
    pose proof (klt_neq NK OF _ _ Hhi) as Hhin.
    replace (s /! hi) with (s *! (k1 /! hi)) by (field; exact Hhin).
    replace (s /! x) with (s *! (k1 /! x)) by (field; exact Hxn).
    replace (s /! lo) with (s *! (k1 /! lo)) by (field; exact Hlon).
    split; apply (kle_mul_l NK OF); try exact Hs; apply (kinv_anti NK OF); assumption.
  Qed.
End PowK.

(* ------------------------------------------------------------------------------------------ *)
Section FusedRounded.
  Context {F K : Type} (N : Num F) (NK : Num K) (v : F -> K) (u : K) (fin nrm : F -> bool).
  Hypothesis OF : OField NK.
  Hypothesis SMX : StdModelExt N NK v u fin nrm.
  Add Field FkF : (of_field NK OF).
  Notation tip := (tip (F:=F)).
  Notation peak := (peak (F:=F)).

  Local Notation k0 := (zero NK).
  Local Notation k1 := (one NK).
  Local Infix "+!" := (add NK) (at level 50, left associativity).
  Local Infix "-!" := (sub NK) (at level 50, left associativity).
  Local Infix "*!" := (mul NK) (at level 40, left associativity).
  Local Infix "/!" := (div NK) (at level 40, left associativity).
  Local Infix "<=!" := (fle NK) (at level 70).
  Local Infix "<!" := (flt NK) (at level 70).
  Local Notation om := (k1 -! u).
  Local Notation op := (k1 +! u).
  Local Notation "x ^! n" := (kpow NK x n) (at level 30, right associativity).

  Let SM : StdModel N NK v u fin nrm := sx_base _ _ _ _ _ _ SMX.
  Let Hom : k0 <! om := om_pos N NK v u fin nrm OF SM.
  Let Hop : k0 <! op := op_pos N NK v u fin nrm OF SM.
  Let Hu : k0 <=! u := u_nonneg N NK v u fin nrm SM.

  Lemma u_le_1 : u <=! k1.
  Proof. apply (klt_le NK OF). exact (sm_u_small _ _ _ _ _ _ SM). Qed.

  Lemma om_le_1 : om <=! k1.
  Proof. apply (kle_of_sub NK OF). replace (k1 -! om) with u by ring. exact Hu. Qed.

  Lemma op_ge_1' : k1 <=! op.
  Proof. apply (kle_of_sub NK OF). replace (op -! k1) with u by ring. exact Hu. Qed.

  Lemma om_nonneg : k0 <=! om.
  Proof. apply (klt_le NK OF). exact Hom. Qed.

  Lemma op_nonneg' : k0 <=! op.
  Proof. apply (klt_le NK OF). exact Hop. Qed.

  (* ---------- the second loop: m subtractions ---------- *)

  (* the running total is carried as A - B, A the (rounded) sum so far, B the (rounded) amount subtracted so far;
     the m factors 1 + d_j multiply both *)
  Lemma sub_bound : forall (ds : list F) acc A0 B0,
    v acc = A0 -! B0 -> k0 <=! A0 -> k0 <=! B0 -> fin acc = true ->
    forallb fin ds = true -> forallb fin (sub_partials N ds acc) = true ->
    (forall x, In x ds -> k0 <! v x) ->
    let m := length ds in
    let D := ksum NK (map v ds) in
    exists A B, v (fold_left (sub N) ds acc) = A -! B
      /\ fin (fold_left (sub N) ds acc) = true
      /\ A0 *! om ^! m <=! A /\ A <=! A0 *! op ^! m
      /\ (B0 +! D) *! om ^! m <=! B /\ B <=! (B0 +! D) *! op ^! m.
  Proof.
    induction ds as [|x r IH]; intros acc A0 B0 Hv HA HB Hfa Hfx Hfp Hpos; cbv zeta.
    - cbn [fold_left map ksum fold_right length kpow]. exists A0, B0.
      split; [exact Hv|]. split; [exact Hfa|].
      repeat split; apply (kle_eq NK OF); ring.
    - cbn [forallb sub_partials] in Hfx, Hfp.
      apply andb_true_iff in Hfx. destruct Hfx as [Hfx Hfr].
      apply andb_true_iff in Hfp. destruct Hfp as [Hfa' Hfp].
      assert (Hx : k0 <! v x) by (apply Hpos; left; reflexivity).
      assert (Hr : forall y, In y r -> k0 <! v y) by (intros y Hy; apply Hpos; right; exact Hy).
      pose proof (sx_sub _ _ _ _ _ _ SMX acc x Hfa Hfx Hfa') as W.
      destruct (within_fac NK u OF _ _ W) as [t [[Ht1 Ht2] Et]].
      assert (Ht0 : k0 <=! t) by (apply (kle_trans NK OF _ om); [exact om_nonneg|exact Ht1]).
      assert (HBx : k0 <=! B0 +! v x).
      { apply (kadd_nonneg NK OF); [exact HB|apply (klt_le NK OF); exact Hx]. }
      assert (Hv' : v (sub N acc x) = A0 *! t -! (B0 +! v x) *! t) by (rewrite Et, Hv; ring).
      assert (HA' : k0 <=! A0 *! t) by (apply (kmul_nonneg NK OF); assumption).
      assert (HB' : k0 <=! (B0 +! v x) *! t) by (apply (kmul_nonneg NK OF); assumption).
      destruct (IH (sub N acc x) _ _ Hv' HA' HB' Hfa' Hfr Hfp Hr) as (A & B & EAB & Hfin & A1 & A2 & B1 & B2).
      cbv zeta in A1, A2, B1, B2.
      assert (HDr : k0 <=! ksum NK (map v r)).
      { apply (ksum_nonneg NK OF). intros y Hy. apply in_map_iff in Hy. destruct Hy as [z [<- Hz]]. apply Hr. exact Hz. }
      cbn [fold_left map length kpow].
      change (ksum NK (v x :: map v r)) with (v x +! ksum NK (map v r)).
      set (Dr := ksum NK (map v r)) in *. set (m := length r) in *. set (vx := v x) in *.
      assert (Pm : k0 <=! om ^! m) by (apply (kpow_nonneg NK OF); exact om_nonneg).
      assert (Pp : k0 <=! op ^! m) by (apply (kpow_nonneg NK OF); exact op_nonneg').
      exists A, B. split; [exact EAB|]. split; [exact Hfin|]. repeat split.
      + eapply (kle_trans NK OF); [|exact A1]. apply (kle_of_sub NK OF).
        replace (A0 *! t *! om ^! m -! A0 *! (om *! om ^! m)) with (A0 *! (t -! om) *! om ^! m) by ring.
        apply (kmul_nonneg NK OF); [|exact Pm].
        apply (kmul_nonneg NK OF); [exact HA|apply (ksub_of_le NK OF); exact Ht1].
      + eapply (kle_trans NK OF); [exact A2|]. apply (kle_of_sub NK OF).
        replace (A0 *! (op *! op ^! m) -! A0 *! t *! op ^! m) with (A0 *! (op -! t) *! op ^! m) by ring.
        apply (kmul_nonneg NK OF); [|exact Pp].
        apply (kmul_nonneg NK OF); [exact HA|apply (ksub_of_le NK OF); exact Ht2].
      + eapply (kle_trans NK OF); [|exact B1]. apply (kle_of_sub NK OF).
        replace (((B0 +! vx) *! t +! Dr) *! om ^! m -! (B0 +! (vx +! Dr)) *! (om *! om ^! m))
          with (((B0 +! vx) *! (t -! om) +! Dr *! u) *! om ^! m) by ring.
        apply (kmul_nonneg NK OF); [|exact Pm].
        apply (kadd_nonneg NK OF).
        * apply (kmul_nonneg NK OF); [exact HBx|apply (ksub_of_le NK OF); exact Ht1].
        * apply (kmul_nonneg NK OF); [exact HDr|exact Hu].
      + eapply (kle_trans NK OF); [exact B2|]. apply (kle_of_sub NK OF).
        replace ((B0 +! (vx +! Dr)) *! (op *! op ^! m) -! ((B0 +! vx) *! t +! Dr) *! op ^! m)
          with (((B0 +! vx) *! (op -! t) +! Dr *! u) *! op ^! m) by ring.
        apply (kmul_nonneg NK OF); [|exact Pp].
        apply (kadd_nonneg NK OF).
        * apply (kmul_nonneg NK OF); [exact HBx|apply (ksub_of_le NK OF); exact Ht2].
        * apply (kmul_nonneg NK OF); [exact HDr|exact Hu].
  Qed.

  (* ---------- what [fused_good] provides ---------- *)

  Section OnePattern.
    Variables (p : tip) (t1 t2 : F).
    Hypothesis G : fused_good N NK v fin nrm p t1 t2.

    Let pre := fused_prefix N p t1.
    Let kept := fused_kept N p t1 t2.
    Let drp := fused_dropped N p t1 t2.
    Let n := length pre.
    Let m := length drp.
    Let P := fused_P N NK v p t1.
    Let D := fused_D N NK v p t1 t2.
    Let S := fused_S N NK v p t1 t2.
    Let T := v (fused_total N p t1 t2).
    Let E := fused_err N NK v u p t1 t2.

    Lemma good_pos_pre : forall q, In q pre -> k0 <! v (inten q).
    Proof. exact (proj1 (proj2 G)). Qed.

    Lemma good_pos_kept : forall q, In q kept -> k0 <! v (inten q).
    Proof. intros q Hq. apply good_pos_pre. apply filter_In in Hq. apply Hq. Qed.

    Lemma good_pos_drp : forall q, In q drp -> k0 <! v (inten q).
    Proof. intros q Hq. apply good_pos_pre. apply filter_In in Hq. apply Hq. Qed.

    Lemma xsum_nonneg : forall l : list peak, (forall q, In q l -> k0 <! v (inten q)) -> k0 <=! xsum NK v l.
    Proof.
      intros l H. apply (ksum_nonneg NK OF). intros x Hx. apply in_map_iff in Hx.
      destruct Hx as [q [<- Hq]]. apply H. exact Hq.
    Qed.

    Lemma P_split : P = S +! D.
    Proof. apply (ksum_filter_split NK OF). Qed.

    Lemma P_pos : k0 <! P.
    Proof.
      apply (ksum_pos NK OF).
      - pose proof (fused_prefix_nonempty N p t1 (proj1 G)) as Hne. fold pre in Hne.
        intros E0. apply Hne. apply map_eq_nil in E0. exact E0.
      - intros x Hx. apply in_map_iff in Hx. destruct Hx as [q [<- Hq]]. apply good_pos_pre. exact Hq.
    Qed.

    Lemma D_nonneg : k0 <=! D.
    Proof. apply xsum_nonneg. exact good_pos_drp. Qed.

    Lemma S_nonneg : k0 <=! S.
    Proof. apply xsum_nonneg. exact good_pos_kept. Qed.

    Lemma safe_parts :
      fin (zero N) = true /\ forallb fin (map inten pre) = true
      /\ forallb fin (partials N (map inten pre) (zero N)) = true
      /\ forallb fin (sub_partials N (map inten drp) (fused_sum N p t1)) = true
      /\ forallb (fun x => nrm (div N x (fused_total N p t1 t2))) (map inten kept) = true.
    Proof.
      pose proof (proj2 (proj2 G)) as H. unfold fused_safe in H. cbv zeta in H.
      apply andb_true_iff in H. destruct H as [H H5].
      apply andb_true_iff in H. destruct H as [H H4].
      apply andb_true_iff in H. destruct H as [H H3].
      apply andb_true_iff in H. destruct H as [H1 H2].
      repeat split; assumption.
    Qed.

    Lemma forallb_filter_fin : forall (f : peak -> bool) (l : list peak),
      forallb fin (map inten l) = true -> forallb fin (map inten (filter f l)) = true.
    Proof.
      intros f l. induction l as [|q r IH]; intros H; [reflexivity|].
      cbn [map forallb] in H. apply andb_true_iff in H. destruct H as [H1 H2].
      cbn [filter]. destruct (f q); [cbn [map forallb]; rewrite H1; exact (IH H2)|exact (IH H2)].
    Qed.

    (* after the first loop: n additions *)
    Lemma first_loop :
      fin (fused_sum N p t1) = true
      /\ P *! om ^! n <=! v (fused_sum N p t1) /\ v (fused_sum N p t1) <=! P *! op ^! n.
    Proof.
      destruct safe_parts as (F0 & Fx & Fp & _ & _).
      assert (H00 : k0 <=! v (zero N)).
      { rewrite (sm_zero _ _ _ _ _ _ SM). apply (kle_refl NK OF). }
      assert (Hposx : forall x, In x (map inten pre) -> k0 <! v x).
      { intros x Hx. apply in_map_iff in Hx. destruct Hx as [q [<- Hq]]. apply good_pos_pre. exact Hq. }
      destruct (sum_bound N NK v u fin nrm OF SM (map inten pre) (zero N) F0 H00 Fx Fp Hposx) as [Hf [Lo Hi]].
      rewrite (sm_zero _ _ _ _ _ _ SM) in Lo, Hi. rewrite map_map, map_length in Lo, Hi.
      fold n in Lo, Hi. change (ksum NK (map (fun q => v (inten q)) pre)) with P in Lo, Hi.
      replace ((k0 +! P) *! om ^! n) with (P *! om ^! n) in Lo by ring.
      replace ((k0 +! P) *! op ^! n) with (P *! op ^! n) in Hi by ring.
      split; [exact Hf|]. split; [exact Lo|exact Hi].
    Qed.

    (* (a), sharp form: total' = A - B with A in P (1 +- u)^(n+m) and B in D (1 +- u)^m *)
    Lemma total_decomp :
      fin (fused_total N p t1 t2) = true
      /\ exists A B, T = A -! B
         /\ P *! om ^! (n + m) <=! A /\ A <=! P *! op ^! (n + m)
         /\ D *! om ^! m <=! B /\ B <=! D *! op ^! m.
    Proof.
      destruct safe_parts as (_ & Fx & _ & Fs & _).
      destruct first_loop as (Ff & Lo & Hi).
      set (T0 := v (fused_sum N p t1)) in *.
      assert (HT0 : k0 <=! T0).
      { apply (kle_trans NK OF _ (P *! om ^! n)); [|exact Lo].
        apply (kmul_nonneg NK OF); [apply (klt_le NK OF); exact P_pos|apply (kpow_nonneg NK OF); exact om_nonneg]. }
      assert (Hv : T0 = T0 -! k0) by ring.
      assert (Fd : forallb fin (map inten drp) = true) by (apply forallb_filter_fin; exact Fx).
      assert (Hposd : forall x, In x (map inten drp) -> k0 <! v x).
      { intros x Hx. apply in_map_iff in Hx. destruct Hx as [q [<- Hq]]. apply good_pos_drp. exact Hq. }
      destruct (sub_bound (map inten drp) (fused_sum N p t1) T0 k0 Hv HT0 (kle_refl NK OF k0) Ff Fd Fs Hposd)
        as (A & B & EAB & Hfin & A1 & A2 & B1 & B2).
      cbv zeta in A1, A2, B1, B2. rewrite map_map, map_length in *. fold m in A1, A2, B1, B2.
      change (ksum NK (map (fun q => v (inten q)) drp)) with D in B1, B2.
      replace ((k0 +! D) *! om ^! m) with (D *! om ^! m) in B1 by ring.
      replace ((k0 +! D) *! op ^! m) with (D *! op ^! m) in B2 by ring.
      split; [exact Hfin|]. exists A, B. split; [exact EAB|].
      rewrite !(kpow_add NK OF).
      assert (Pm : k0 <=! om ^! m) by (apply (kpow_nonneg NK OF); exact om_nonneg).
      assert (Pp : k0 <=! op ^! m) by (apply (kpow_nonneg NK OF); exact op_nonneg').
      repeat split.
      - eapply (kle_trans NK OF); [|exact A1].
        replace (P *! (om ^! n *! om ^! m)) with (P *! om ^! n *! om ^! m) by ring.
        apply (kle_mul_r NK OF); assumption.
      - eapply (kle_trans NK OF); [exact A2|].
        replace (P *! (op ^! n *! op ^! m)) with (P *! op ^! n *! op ^! m) by ring.
        apply (kle_mul_r NK OF); assumption.
      - exact B1.
      - exact B2.
    Qed.

    Lemma total_interval :
      P *! om ^! (n + m) -! D *! op ^! m <=! T /\ T <=! P *! op ^! (n + m) -! D *! om ^! m.
    Proof.
      destruct total_decomp as (_ & A & B & -> & A1 & A2 & B1 & B2). split; apply (kle_of_sub NK OF).
      - replace (A -! B -! (P *! om ^! (n + m) -! D *! op ^! m))
          with ((A -! P *! om ^! (n + m)) +! (D *! op ^! m -! B)) by ring.
        apply (kadd_nonneg NK OF); apply (ksub_of_le NK OF); assumption.
      - replace (P *! op ^! (n + m) -! D *! om ^! m -! (A -! B))
          with ((P *! op ^! (n + m) -! A) +! (B -! D *! om ^! m)) by ring.
        apply (kadd_nonneg NK OF); apply (ksub_of_le NK OF); assumption.
    Qed.

    (* the sharp interval lies inside S +- E *)
    Lemma interval_in_err :
      S -! E <=! P *! om ^! (n + m) -! D *! op ^! m /\ P *! op ^! (n + m) -! D *! om ^! m <=! S +! E.
    Proof.
      pose proof (kpow_sym NK OF u Hu u_le_1 (n + m)) as Y1.
      pose proof (kpow_sym NK OF u Hu u_le_1 m) as Y2.
      pose proof (kpow_le_add NK OF op op_ge_1' n m) as Y3.
      pose proof (klt_le NK OF _ _ P_pos) as HP. pose proof D_nonneg as HD.
      unfold E, fused_err. fold pre drp n m P D.
      assert (ES : S = P -! D) by (rewrite P_split; ring). rewrite ES.
      set (a := om ^! (n + m)) in *. set (b := op ^! (n + m)) in *.
      set (c := om ^! m) in *. set (d := op ^! m) in *.
      split; apply (kle_of_sub NK OF).
      - replace (P *! a -! D *! d -! (P -! D -! (b -! k1) *! (P +! D)))
          with (P *! ((b -! k1) -! (k1 -! a)) +! D *! (b -! d)) by ring.
        apply (kadd_nonneg NK OF); (apply (kmul_nonneg NK OF); [assumption|apply (ksub_of_le NK OF); assumption]).
      - replace (P -! D +! (b -! k1) *! (P +! D) -! (P *! b -! D *! c))
          with (D *! (((d -! k1) -! (k1 -! c)) +! (b -! d))) by ring.
        apply (kmul_nonneg NK OF); [exact HD|].
        apply (kadd_nonneg NK OF); apply (ksub_of_le NK OF); assumption.
    Qed.

    Lemma E_nonneg : k0 <=! E.
    Proof.
      unfold E, fused_err. fold pre drp n m P D. apply (kmul_nonneg NK OF).
      - apply (ksub_of_le NK OF). apply (kpow_ge1 NK OF). exact op_ge_1'.
      - apply (kadd_nonneg NK OF); [apply (klt_le NK OF); exact P_pos|exact D_nonneg].
    Qed.

    (* (a) *)
    Lemma total_err : S -! E <=! T /\ T <=! S +! E /\ abs NK (T -! S) <=! E.
    Proof.
      destruct total_interval as [I1 I2]. destruct interval_in_err as [J1 J2].
      pose proof (kle_trans NK OF _ _ _ J1 I1) as L1. pose proof (kle_trans NK OF _ _ _ I2 J2) as L2.
      split; [exact L1|]. split; [exact L2|].
      rewrite (of_abs_def NK OF). destruct (leb NK k0 (T -! S)).
      - apply (kle_of_sub NK OF). replace (E -! (T -! S)) with (S +! E -! T) by ring.
        apply (ksub_of_le NK OF). exact L2.
      - apply (kle_of_sub NK OF). replace (E -! opp NK (T -! S)) with (T -! (S -! E)) by ring.
        apply (ksub_of_le NK OF). exact L1.
    Qed.

    (* the returned intensities: sum = (S / total') (1 +- u) as soon as total' > 0 *)
    Lemma out_sum sh : k0 <! T ->
      let s := exact_total NK v (fused N p t1 t2 sh) in
      S /! T *! om <=! s /\ s <=! S /! T *! op.
    Proof.
      intros HT. cbv zeta. rewrite fused_unfold. unfold exact_total. cbn [peaks]. rewrite map_map. cbn [inten].
      destruct safe_parts as (_ & Fx & _ & _ & Fq). destruct total_decomp as (Ff & _).
      assert (Fk : forallb fin (map inten kept) = true) by (apply forallb_filter_fin; exact Fx).
      rewrite forallb_forall in Fk, Fq.
      assert (Hl : forall x, In x (map inten kept) ->
                fin x = true /\ k0 <! v x /\ nrm (div N x (fused_total N p t1 t2)) = true).
      { intros x Hx. split; [apply Fk; exact Hx|]. split; [|apply Fq; exact Hx].
        apply in_map_iff in Hx. destruct Hx as [q [<- Hq]]. apply good_pos_kept. exact Hq. }
      pose proof (quot_sum N NK v u fin nrm OF SMX (fused_total N p t1 t2) Ff HT (map inten kept) Hl) as Q.
      cbv zeta in Q. rewrite !map_map in Q. exact Q.
    Qed.

    (* (b), sharp form *)
    Lemma sum_sharp sh : k0 <! P *! om ^! (n + m) -! D *! op ^! m ->
      let s := exact_total NK v (fused N p t1 t2 sh) in
      S *! om /! (P *! op ^! (n + m) -! D *! om ^! m) <=! s
      /\ s <=! S *! op /! (P *! om ^! (n + m) -! D *! op ^! m).
    Proof.
      intros Hlo. cbv zeta. destruct total_interval as [I1 I2].
      set (lo := P *! om ^! (n + m) -! D *! op ^! m) in *.
      set (hi := P *! op ^! (n + m) -! D *! om ^! m) in *.
      pose proof (klt_le_trans NK OF _ _ _ Hlo I1) as HT.
      pose proof (klt_le_trans NK OF _ _ _ HT I2) as Hhi.
      destruct (out_sum sh HT) as [O1 O2]. cbv zeta in O1, O2.
      destruct (kdiv_between NK OF S lo T hi S_nonneg Hlo I1 I2) as [Q1 Q2].
      pose proof (klt_neq NK OF _ _ Hlo) as Hlon. pose proof (klt_neq NK OF _ _ Hhi) as Hhin.
      split.
      - eapply (kle_trans NK OF); [|exact O1].
        replace (S *! om /! hi) with (S /! hi *! om) by (field; exact Hhin).
        apply (kle_mul_r NK OF); [exact Q1|exact om_nonneg].
      - eapply (kle_trans NK OF); [exact O2|].
        replace (S *! op /! lo) with (S /! lo *! op) by (field; exact Hlon).
        apply (kle_mul_r NK OF); [exact Q2|exact op_nonneg'].
    Qed.

    (* (b) *)
    Lemma sum_err sh : E <! S ->
      let s := exact_total NK v (fused N p t1 t2 sh) in
      S *! om /! (S +! E) <=! s /\ s <=! S *! op /! (S -! E).
    Proof.
      intros HES. cbv zeta. destruct total_err as (L1 & L2 & _).
      assert (Hlo : k0 <! S -! E).
      { apply (klt_iff NK OF). split.
        - apply (ksub_of_le NK OF). apply (klt_le NK OF). exact HES.
        - intros E0. apply (klt_neq NK OF _ _ HES). replace S with ((S -! E) +! E) by ring. rewrite <- E0. ring. }
      pose proof (klt_le_trans NK OF _ _ _ Hlo L1) as HT.
      pose proof (klt_le_trans NK OF _ _ _ HT L2) as Hhi.
      destruct (out_sum sh HT) as [O1 O2]. cbv zeta in O1, O2.
      destruct (kdiv_between NK OF S (S -! E) T (S +! E) S_nonneg Hlo L1 L2) as [Q1 Q2].
      pose proof (klt_neq NK OF _ _ Hlo) as Hlon. pose proof (klt_neq NK OF _ _ Hhi) as Hhin.
      split.
      - eapply (kle_trans NK OF); [|exact O1].
        replace (S *! om /! (S +! E)) with (S /! (S +! E) *! om) by (field; exact Hhin).
        apply (kle_mul_r NK OF); [exact Q1|exact om_nonneg].
      - eapply (kle_trans NK OF); [exact O2|].
        replace (S *! op /! (S -! E)) with (S /! (S -! E) *! op) by (field; exact Hlon).
        apply (kle_mul_r NK OF); [exact Q2|exact op_nonneg'].
    Qed.

    (* (c): nothing dropped *)
    Lemma nodrop sh : drp = [] -> sum_within NK v u (fused N p t1 t2 sh) n.
    Proof.
      intros Hd.
      assert (Em : m = 0) by (unfold m; rewrite Hd; reflexivity).
      assert (ED : D = k0) by (unfold D, fused_D; fold drp; rewrite Hd; reflexivity).
      assert (ESP : S = P) by (rewrite P_split, ED; ring).
      pose proof P_pos as HP. pose proof (klt_neq NK OF _ _ HP) as HPn.
      assert (Ha : k0 <! om ^! n) by (apply (kpow_pos NK OF); exact Hom).
      assert (Hb : k0 <! op ^! n) by (apply (kpow_pos NK OF); exact Hop).
      pose proof (klt_neq NK OF _ _ Ha) as Han. pose proof (klt_neq NK OF _ _ Hb) as Hbn.
      assert (Hlo : k0 <! P *! om ^! (n + m) -! D *! op ^! m).
      { rewrite Em, ED, Nat.add_0_r. cbn [kpow]. replace (P *! om ^! n -! k0 *! k1) with (P *! om ^! n) by ring.
        apply (kmul_pos NK OF); assumption. }
      destruct (sum_sharp sh Hlo) as [Q1 Q2]. cbv zeta in Q1, Q2.
      rewrite Em, ED, ESP, Nat.add_0_r in Q1, Q2. cbn [kpow] in Q1, Q2.
      unfold sum_within. cbn [kpow]. split.
      - eapply (kle_trans NK OF); [|exact Q1].
        replace (P *! om /! (P *! op ^! n -! k0 *! k1)) with (om /! op ^! n) by (field; split; assumption).
        replace (om *! (om *! k1) /! op ^! n) with (om *! (om /! op ^! n)) by (field; exact Hbn).
        apply (kle_trans NK OF _ (k1 *! (om /! op ^! n))); [|apply (kle_eq NK OF); ring].
        apply (kle_mul_r NK OF); [exact om_le_1|].
        apply (klt_le NK OF). apply (kdiv_pos NK OF); assumption.
      - eapply (kle_trans NK OF); [exact Q2|].
        replace (P *! op /! (P *! om ^! n -! k0 *! k1)) with (op /! om ^! n) by (field; split; assumption).
        replace (op *! (op *! k1) /! om ^! n) with (op *! (op /! om ^! n)) by (field; exact Han).
        apply (kle_trans NK OF _ (k1 *! (op /! om ^! n))); [apply (kle_eq NK OF); ring|].
        apply (kle_mul_r NK OF); [exact op_ge_1'|].
        apply (klt_le NK OF). apply (kdiv_pos NK OF); assumption.
    Qed.

    (* at least one kept peak: S > 0 *)
    Lemma S_pos : kept <> [] -> k0 <! S.
    Proof.
      intros Hne. apply (ksum_pos NK OF).
      - intros E0. apply Hne. apply map_eq_nil in E0. exact E0.
      - intros x Hx. apply in_map_iff in Hx. destruct Hx as [q [<- Hq]]. apply good_pos_kept. exact Hq.
    Qed.
  End OnePattern.
End FusedRounded.

(* ------------------------------------------------------------------------------------------ *)
Section Statements.
  Context {F K : Type} (N : Num F) (NK : Num K) (v : F -> K) (u : K) (fin nrm : F -> bool).
  Notation good := (fused_good N NK v fin nrm).

  (* shape: which peaks come back *)
  Theorem fused_shape : forall (p : tip (F:=F)) t1 t2 sh,
    fused N p t1 t2 sh
    = mkTip (map (fun q => mkPeak (add N (mz q) sh) (div N (inten q) (fused_total N p t1 t2))) (fused_kept N p t1 t2))
            (origin p).
  Proof. exact (fused_unfold N). Qed.

  (* (a) sharp: n additions then m subtractions *)
  Theorem fused_total_interval :
    OField NK -> StdModelExt N NK v u fin nrm -> forall (p : tip (F:=F)) t1 t2, good p t1 t2 ->
    let n := length (fused_prefix N p t1) in
    let m := length (fused_dropped N p t1 t2) in
    let P := fused_P N NK v p t1 in
    let D := fused_D N NK v p t1 t2 in
    let T := v (fused_total N p t1 t2) in
    fle NK (sub NK (mul NK P (kpow NK (sub NK (one NK) u) (n + m))) (mul NK D (kpow NK (add NK (one NK) u) m))) T
    /\ fle NK T (sub NK (mul NK P (kpow NK (add NK (one NK) u) (n + m))) (mul NK D (kpow NK (sub NK (one NK) u) m))).
  Proof. intros OF SMX p t1 t2 G. exact (total_interval N NK v u fin nrm OF SMX p t1 t2 G). Qed.

  (* (a) *)
  Theorem fused_total_rounded :
    OField NK -> StdModelExt N NK v u fin nrm -> forall (p : tip (F:=F)) t1 t2, good p t1 t2 ->
    let S := fused_S N NK v p t1 t2 in
    let E := fused_err N NK v u p t1 t2 in
    let T := v (fused_total N p t1 t2) in
    fused_P N NK v p t1 = add NK S (fused_D N NK v p t1 t2)
    /\ fle NK (sub NK S E) T /\ fle NK T (add NK S E) /\ fle NK (abs NK (sub NK T S)) E.
  Proof.
    intros OF SMX p t1 t2 G. cbv zeta. split.
    - exact (P_split N NK v OF p t1 t2).
    - exact (total_err N NK v u fin nrm OF SMX p t1 t2 G).
  Qed.

  (* (b) *)
  Theorem fused_sum_rounded :
    OField NK -> StdModelExt N NK v u fin nrm -> forall (p : tip (F:=F)) t1 t2 sh, good p t1 t2 ->
    let S := fused_S N NK v p t1 t2 in
    let E := fused_err N NK v u p t1 t2 in
    flt NK E S ->
    let s := exact_total NK v (fused N p t1 t2 sh) in
    fle NK (div NK (mul NK S (sub NK (one NK) u)) (add NK S E)) s
    /\ fle NK s (div NK (mul NK S (add NK (one NK) u)) (sub NK S E)).
  Proof. intros OF SMX p t1 t2 sh G. exact (sum_err N NK v u fin nrm OF SMX p t1 t2 G sh). Qed.

  (* (b) sharp *)
  Theorem fused_sum_sharp :
    OField NK -> StdModelExt N NK v u fin nrm -> forall (p : tip (F:=F)) t1 t2 sh, good p t1 t2 ->
    let n := length (fused_prefix N p t1) in
    let m := length (fused_dropped N p t1 t2) in
    let P := fused_P N NK v p t1 in
    let D := fused_D N NK v p t1 t2 in
    let S := fused_S N NK v p t1 t2 in
    let lo := sub NK (mul NK P (kpow NK (sub NK (one NK) u) (n + m))) (mul NK D (kpow NK (add NK (one NK) u) m)) in
    let hi := sub NK (mul NK P (kpow NK (add NK (one NK) u) (n + m))) (mul NK D (kpow NK (sub NK (one NK) u) m)) in
    flt NK (zero NK) lo ->
    let s := exact_total NK v (fused N p t1 t2 sh) in
    fle NK (div NK (mul NK S (sub NK (one NK) u)) hi) s /\ fle NK s (div NK (mul NK S (add NK (one NK) u)) lo).
  Proof. intros OF SMX p t1 t2 sh G. exact (sum_sharp N NK v u fin nrm OF SMX p t1 t2 G sh). Qed.

  (* (c) *)
  Theorem fused_nodrop :
    OField NK -> StdModelExt N NK v u fin nrm -> forall (p : tip (F:=F)) t1 t2 sh, good p t1 t2 ->
    fused_dropped N p t1 t2 = [] ->
    sum_within NK v u (fused N p t1 t2 sh) (length (fused_prefix N p t1)).
  Proof. intros OF SMX p t1 t2 sh G. exact (nodrop N NK v u fin nrm OF SMX p t1 t2 G sh). Qed.

  (* one kept peak suffices for S > 0 *)
  Theorem fused_S_pos :
    OField NK -> forall (p : tip (F:=F)) t1 t2, good p t1 t2 -> fused_kept N p t1 t2 <> [] ->
    flt NK (zero NK) (fused_S N NK v p t1 t2).
  Proof. intros OF p t1 t2 G. exact (S_pos N NK v fin nrm OF p t1 t2 G). Qed.
End Statements.

Print Assumptions fused_shape.
Print Assumptions fused_total_interval. Print Assumptions fused_total_rounded.
Print Assumptions fused_sum_rounded. Print Assumptions fused_sum_sharp.
Print Assumptions fused_nodrop. Print Assumptions fused_S_pos.
