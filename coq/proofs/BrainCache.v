(* C08: the generator's constants cache never changes a result.
   Purely structural: no law of the numeric interface is used anywhere. *)
From Coq Require Import List ZArith NArith Bool Arith String Lia.
From CE Require Import Num Str TableTypes TableModel Comp Mz Peak Poisson Brain BrainSpec.
Import ListNotations.
Local Open Scope nat_scope.

(* ---- generic list facts ---- *)
Lemma fold_left_ext_in {A B} (f g : A -> B -> A) (l : list B) :
  (forall a x, In x l -> f a x = g a x) -> forall a, fold_left f l a = fold_left g l a.
Proof.
  induction l as [|x l IH]; intros H a; cbn [fold_left]; [reflexivity|].
  rewrite (H a x (or_introl eq_refl)). apply IH. intros a' y Hy. apply H. right. exact Hy.
Qed.

(* ---- the shape of the coefficient vector does not depend on the numeric interpretation ---- *)
Section Shape.
Context {F : Type} (N : Num F) {G : Type} (M : Num G).

Lemma coeffs_loop_shape : forall e wm is_ (acc : list F) (acc' : list G),
  List.length acc = List.length acc' ->
  option_map (@List.length F) (coeffs_loop N e wm is_ acc)
  = option_map (@List.length G) (coeffs_loop M e wm is_ acc').
Proof.
  intros e wm is_. induction is_ as [|i rest IH]; intros acc acc' Hl; cbn [coeffs_loop].
  - cbn [option_map]. f_equal. exact Hl.
  - destruct (Z.of_nat (List.length (isos e)) + Z.of_N (number e) - Z.of_nat i - 1 <? 0)%Z; [reflexivity|].
    destruct (assoc_get _ (isos e)) as [iso|]; [|apply IH; exact Hl].
    destruct (max_shift e - TableModel.shift iso <? 0)%Z; [reflexivity|].
    rewrite <- Hl.
    destruct (Nat.compare (Z.to_nat (max_shift e - TableModel.shift iso)) (List.length acc)).
    + apply IH. rewrite !app_length. cbn [List.length]. lia.
    + reflexivity.
    + apply IH. rewrite !app_length, !repeat_length. cbn [List.length]. lia.
Qed.

Lemma coeffs_shape e wm :
  option_map (@List.length F) (coeffs N e wm) = option_map (@List.length G) (coeffs M e wm).
Proof. unfold coeffs. apply coeffs_loop_shape. reflexivity. Qed.
End Shape.

Section Cache.
Context {F : Type} (N : Num F).
Local Notation len := (@List.length F).

(* ---- prefix stability of the power sums ---- *)
Lemma nthF_pad (base : list F) m j : nthF N (base ++ repeat (zero N) m) j = nthF N base j.
Proof.
  unfold nthF. destruct (lt_dec j (len base)) as [Hlt|Hge].
  - apply app_nth1. exact Hlt.
  - rewrite app_nth2 by lia. rewrite nth_repeat. rewrite nth_overflow by lia. reflexivity.
Qed.

Lemma ps_next_ext (esp esp' ps ps' : list F) k :
  (forall j, nthF N esp j = nthF N esp' j) ->
  (forall i, i < k -> nthF N ps i = nthF N ps' i) ->
  ps_next N esp ps k = ps_next N esp' ps' k.
Proof.
  intros He Hp. destruct k as [|k]; [reflexivity|]. unfold ps_next.
  match goal with |- ?L = ?R =>
    match L with context [fold_left ?f ?l ?a] =>
      match R with context [fold_left ?g l a] =>
        replace (fold_left f l a) with (fold_left g l a) end end end.
  - destruct (fold_left _ _ _) as [tmp sign]. rewrite He. reflexivity.
  - apply fold_left_ext_in. intros [t s] j Hj. apply in_seq in Hj.
    rewrite He. rewrite (Hp (S k - j)) by lia. reflexivity.
Qed.

Fixpoint cps (base : list F) (n : nat) : list F :=
  match n with
  | O => []
  | S n' => cps base n' ++ [ps_next N base (cps base n') n']
  end.

Lemma cps_length base n : len (cps base n) = n.
Proof. induction n as [|n IH]; cbn [cps]; [reflexivity|]. rewrite app_length, IH. cbn [List.length]. lia. Qed.

Lemma extend_cps base m : forall fuel n,
  n <= len (base ++ repeat (zero N) m) -> len (base ++ repeat (zero N) m) - n <= fuel ->
  extend_ps N fuel (base ++ repeat (zero N) m) (cps base n) = cps base (len (base ++ repeat (zero N) m)).
Proof.
  set (esp := base ++ repeat (zero N) m).
  induction fuel as [|fuel IH]; intros n Hle Hf; cbn [extend_ps].
  - replace n with (len esp) by lia. reflexivity.
  - rewrite cps_length. destruct (Nat.ltb_spec n (len esp)) as [Hlt|Hge].
    + replace (cps base n ++ [ps_next N esp (cps base n) n]) with (cps base (S n)).
      * apply IH; lia.
      * cbn [cps]. f_equal. f_equal. apply ps_next_ext.
        -- intro j. symmetry. apply nthF_pad.
        -- reflexivity.
    + replace n with (len esp) by lia. reflexivity.
Qed.

Lemma update_cps base m n :
  n <= len (base ++ repeat (zero N) m) ->
  update_ps N (base ++ repeat (zero N) m) (cps base n) = cps base (len (base ++ repeat (zero N) m)).
Proof. intro H. unfold update_ps. apply extend_cps; lia. Qed.

Lemma cps_prefix base n n' : n <= n' -> exists t, cps base n' = cps base n ++ t.
Proof.
  induction 1 as [|n' Hle [t IH]].
  - exists []. rewrite app_nil_r. reflexivity.
  - cbn [cps]. rewrite IH. rewrite <- app_assoc. eexists. reflexivity.
Qed.

Lemma cps_nth base n n' k : k < n -> n <= n' -> nthF N (cps base n) k = nthF N (cps base n') k.
Proof.
  intros Hk Hle. destruct (cps_prefix base n n' Hle) as [t Ht]. rewrite Ht. unfold nthF.
  rewrite app_nth1; [reflexivity|]. rewrite cps_length. exact Hk.
Qed.

Lemma cps_nth2 base n n' k : k < n -> k < n' -> nthF N (cps base n) k = nthF N (cps base n') k.
Proof.
  intros H1 H2. destruct (le_ge_dec n n') as [Hle|Hge].
  - apply cps_nth; assumption.
  - symmetry. apply cps_nth; [assumption|lia].
Qed.

(* ---- canonical parameters ---- *)
Definition pvalid (base : list F) (m : nat) (p : params (F:=F)) : Prop :=
  p_esp p = base ++ repeat (zero N) m /\ p_ps p = cps base (len base + m).

Lemma newton_pvalid base m p o n :
  pvalid base m p -> pvalid base (m + n) (newton N o (push_zeros N n p)).
Proof.
  intros [He Hp]. unfold newton, push_zeros. cbn [p_esp p_ps].
  rewrite He, Hp, <- app_assoc, <- repeat_app.
  rewrite cps_length.
  destruct (Nat.compare_spec (len base + m) (len (base ++ repeat (zero N) (m + n)))) as [E|L|G].
  - split; cbn [p_esp p_ps]; [reflexivity|].
    rewrite app_length, repeat_length in E. f_equal. lia.
  - split; cbn [p_esp p_ps]; [reflexivity|].
    rewrite update_cps by lia. f_equal. rewrite app_length, repeat_length. lia.
  - rewrite app_length, repeat_length in G. lia.
Qed.

Lemma vietes_length (c : list F) : len (vietes N c) = len c.
Proof. unfold vietes. rewrite map_length, seq_length. reflexivity. Qed.

Lemma fresh_pvalid (c : list F) o : c <> [] ->
  pvalid (vietes N c) 0 (newton N o (mkParams (vietes N c) [])).
Proof.
  intro Hne. unfold newton. cbn [p_esp p_ps List.length].
  destruct (Nat.compare_spec 0 (len (vietes N c))) as [E|L|G].
  - rewrite vietes_length in E. destruct c; [congruence|discriminate].
  - split; cbn [p_esp p_ps]; [rewrite app_nil_r; reflexivity|].
    pose proof (update_cps (vietes N c) 0 0) as H. cbn [repeat cps] in H. rewrite app_nil_r in H.
    rewrite H by lia. f_equal. lia.
  - lia.
Qed.

(* ---- canonical per-element constants ---- *)
Definition valid (e : elem) (p : phi (F:=F)) : Prop :=
  exists ca cm m,
    coeffs N e false = Some ca /\ coeffs N e true = Some cm /\
    len ca = len cm /\ (max_shift e < Z.of_nat (len ca))%Z /\
    pvalid (vietes N ca) m (ph_el p) /\ pvalid (vietes N cm) m (ph_mass p) /\
    ph_sym p = sym e /\
    ((ph_order p = max_shift e /\ m = 0) \/ ph_order p = Z.of_nat (len ca + m)).

Lemma fresh_valid e : brain_elem_ok e = true ->
  exists p, phi_from_element N e = Some p /\ valid e p.
Proof.
  unfold brain_elem_ok. intro H.
  pose proof (coeffs_shape N NumUnit e false) as Sa. pose proof (coeffs_shape N NumUnit e true) as Sm.
  destruct (coeffs NumUnit e false) as [ua|]; [|discriminate].
  destruct (coeffs NumUnit e true) as [um|]; [|discriminate].
  destruct (coeffs N e false) as [ca|] eqn:Ea; [|discriminate].
  destruct (coeffs N e true) as [cm|] eqn:Em; [|discriminate].
  cbn [option_map] in Sa, Sm. injection Sa as Sa. injection Sm as Sm.
  apply andb_prop in H. destruct H as [H H3]. apply andb_prop in H. destruct H as [H1 H2].
  apply Nat.ltb_lt in H1. apply Nat.eqb_eq in H2. apply Z.leb_le in H3.
  assert (Hna : ca <> []) by (intro X; subst ca; cbn in Sa; lia).
  assert (Hnm : cm <> []) by (intro X; subst cm; cbn in Sm; lia).
  unfold phi_from_element, params_from_element. rewrite Ea, Em.
  destruct ca as [|a0 ca']; [congruence|]. destruct cm as [|m0 cm']; [congruence|].
  eexists. split; [reflexivity|].
  exists (a0 :: ca'), (m0 :: cm'), 0.
  split; [exact Ea|]. split; [exact Em|]. split; [lia|]. split; [lia|].
  cbn [ph_el ph_mass ph_sym ph_order].
  split; [apply fresh_pvalid; exact Hna|]. split; [apply fresh_pvalid; exact Hnm|].
  split; [reflexivity|]. left. split; reflexivity.
Qed.

Lemma pvalid_ps_len base m p : pvalid base m p -> len (p_ps p) = len base + m.
Proof. intros [_ Hp]. rewrite Hp. apply cps_length. Qed.
Lemma pvalid_esp_len base m p : pvalid base m p -> len (p_esp p) = len base + m.
Proof. intros [He _]. rewrite He, app_length, repeat_length. reflexivity. Qed.

Lemma valid_order_le e p : valid e p ->
  (ph_order p <= Z.of_nat (len (p_ps (ph_el p))))%Z /\ (ph_order p <= Z.of_nat (len (p_ps (ph_mass p))))%Z.
Proof.
  intros (ca & cm & m & _ & _ & Hl & Hms & Va & Vm & _ & Ho).
  rewrite (pvalid_ps_len _ _ _ Va), (pvalid_ps_len _ _ _ Vm), !vietes_length.
  destruct Ho as [[Ho Hm]|Ho]; lia.
Qed.

Lemma update_valid e p o : valid e p -> valid e (phi_update N o p).
Proof.
  intros V. unfold phi_update. destruct (o <? ph_order p)%Z eqn:Eo; [exact V|].
  apply Z.ltb_ge in Eo.
  destruct V as (ca & cm & m & Ea & Em & Hl & Hms & Va & Vm & Hs & Ho).
  set (n := Z.to_nat (o + 1 - ph_order p)).
  exists ca, cm, (m + n). cbn [ph_el ph_mass ph_sym ph_order].
  split; [exact Ea|]. split; [exact Em|]. split; [exact Hl|]. split; [exact Hms|].
  split; [apply newton_pvalid; exact Va|]. split; [apply newton_pvalid; exact Vm|].
  split; [exact Hs|]. right.
  unfold push_zeros. cbn [p_esp]. rewrite app_length, repeat_length.
  rewrite (pvalid_esp_len _ _ _ Va), vietes_length. lia.
Qed.

Lemma update_order e p o : valid e p -> (o < ph_order (phi_update N o p))%Z.
Proof.
  intros V. unfold phi_update. destruct (o <? ph_order p)%Z eqn:Eo; [apply Z.ltb_lt; exact Eo|].
  apply Z.ltb_ge in Eo. cbn [ph_order]. unfold push_zeros. cbn [p_esp].
  rewrite app_length, repeat_length.
  destruct V as (ca & cm & m & _ & _ & Hl & Hms & Va & _ & _ & Ho).
  rewrite (pvalid_esp_len _ _ _ Va), vietes_length.
  destruct Ho as [[Ho Hm]|Ho]; lia.
Qed.

Lemma update_sym o p : ph_sym (phi_update N o p) = ph_sym p.
Proof. unfold phi_update. destruct (o <? ph_order p)%Z; reflexivity. Qed.

(* two canonical constants of one element agree wherever both are defined *)
Lemma valid_agree e p p' k : valid e p -> valid e p' ->
  k < len (p_ps (ph_el p)) -> k < len (p_ps (ph_el p')) ->
  k < len (p_ps (ph_mass p)) -> k < len (p_ps (ph_mass p')) ->
  nthF N (p_ps (ph_el p)) k = nthF N (p_ps (ph_el p')) k /\
  nthF N (p_ps (ph_mass p)) k = nthF N (p_ps (ph_mass p')) k.
Proof.
  intros (ca & cm & m & Ea & Em & _ & _ & Va & Vm & _ & _)
         (ca' & cm' & m' & Ea' & Em' & _ & _ & Va' & Vm' & _ & _).
  rewrite Ea in Ea'. injection Ea' as <-. rewrite Em in Em'. injection Em' as <-.
  rewrite (pvalid_ps_len _ _ _ Va), (pvalid_ps_len _ _ _ Va'), (pvalid_ps_len _ _ _ Vm), (pvalid_ps_len _ _ _ Vm').
  destruct Va as [_ ->], Va' as [_ ->], Vm as [_ ->], Vm' as [_ ->].
  intros. split; apply cps_nth2; assumption.
Qed.

(* ---- lookups ---- *)
Lemma get_phi_map o (cs : list (phi (F:=F))) s :
  get_phi (map (phi_update N o) cs) s = option_map (phi_update N o) (get_phi cs s).
Proof.
  unfold get_phi. induction cs as [|c cs IH]; cbn [map find]; [reflexivity|].
  rewrite update_sym. destruct (String.eqb (ph_sym c) s); [reflexivity|exact IH].
Qed.

Lemma get_phi_app (l l2 : list (phi (F:=F))) s :
  get_phi (l ++ l2) s = match get_phi l s with Some x => Some x | None => get_phi l2 s end.
Proof.
  unfold get_phi. induction l as [|c l IH]; cbn [app find]; [reflexivity|].
  destruct (String.eqb (ph_sym c) s); [reflexivity|exact IH].
Qed.

Lemma get_phi_some (l : list (phi (F:=F))) s p : get_phi l s = Some p -> In p l /\ ph_sym p = s.
Proof.
  unfold get_phi. intro H. apply find_some in H. destruct H as [H1 H2].
  split; [exact H1|]. apply String.eqb_eq. exact H2.
Qed.

Lemma psum_agree (cs cs' : list (phi (F:=F))) s e p p' o k :
  get_phi cs s = Some p -> get_phi cs' s = Some p' -> valid e p -> valid e p' ->
  (Z.of_nat k <= o)%Z ->
  psum N (map (phi_update N o) cs) s k = psum N (map (phi_update N o) cs') s k /\
  psum_mass N (map (phi_update N o) cs) s k = psum_mass N (map (phi_update N o) cs') s k.
Proof.
  intros G G' V V' Hk. unfold psum, psum_mass. rewrite !get_phi_map, G, G'. cbn [option_map].
  pose proof (update_valid e p o V) as W. pose proof (update_valid e p' o V') as W'.
  pose proof (update_order e p o V) as O. pose proof (update_order e p' o V') as O'.
  destruct (valid_order_le _ _ W) as [A B]. destruct (valid_order_le _ _ W') as [A' B'].
  set (q := phi_update N o p) in *. set (q' := phi_update N o p') in *.
  assert (K1 : k < len (p_ps (ph_el q))) by lia.
  assert (K2 : k < len (p_ps (ph_el q'))) by lia.
  assert (K3 : k < len (p_ps (ph_mass q))) by lia.
  assert (K4 : k < len (p_ps (ph_mass q'))) by lia.
  destruct (valid_agree e q q' k W W' K1 K2 K3 K4) as [E1 E2].
  apply Nat.ltb_lt in K1, K2, K3, K4. rewrite K1, K2, K3, K4, E1, E2. split; reflexivity.
Qed.

(* ---- everything downstream reads the constants through psum / psum_mass at 1..order only ---- *)
Definition agree (cs cs' : list (phi (F:=F))) (c : bcomp) (o : nat) : Prop :=
  forall en k, In en c -> 1 <= k <= o ->
    psum N cs (sym (fst en)) k = psum N cs' (sym (fst en)) k /\
    psum_mass N cs (sym (fst en)) k = psum_mass N cs' (sym (fst en)) k.

Lemma phi_for_ext cs cs' c o k : agree cs cs' c o -> 1 <= k <= o ->
  phi_for N cs c k = phi_for N cs' c k.
Proof.
  intros H Hk. unfold phi_for. apply fold_left_ext_in. intros a en Hin.
  rewrite (proj1 (H en k Hin Hk)). reflexivity.
Qed.

Lemma phi_mass_for_ext cs cs' c o el k : agree cs cs' c o -> In el c -> 1 <= k <= o ->
  phi_mass_for N cs c (fst el) k = phi_mass_for N cs' c (fst el) k.
Proof.
  intros H Hel Hk. unfold phi_mass_for. rewrite (proj2 (H el k Hel Hk)).
  match goal with |- ?L = ?R =>
    match L with context [fold_left ?f ?l ?a] =>
      match R with context [fold_left ?g l a] =>
        replace (fold_left f l a) with (fold_left g l a) end end end.
  - reflexivity.
  - apply fold_left_ext_in. intros a en Hin. rewrite (proj1 (H en k Hin Hk)). reflexivity.
Qed.

Lemma prob_vector_ext cs cs' c o mv base : agree cs cs' c o ->
  prob_vector N cs c o mv base = prob_vector N cs' c o mv base.
Proof.
  intro H. unfold prob_vector.
  rewrite (map_ext_in (phi_for N cs c) (phi_for N cs' c) (seq 1 o)); [reflexivity|].
  intros k Hk. apply in_seq in Hk. apply (phi_for_ext cs cs' c o k H). lia.
Qed.

Lemma center_vector_ext cs cs' c o mv base pv : agree cs cs' c o ->
  center_vector N cs c o mv base pv = center_vector N cs' c o mv base pv.
Proof.
  intro H. unfold center_vector.
  match goal with |- ?L = ?R =>
    match L with context [all_some (map ?f c)] =>
      match R with context [all_some (map ?g c)] =>
        replace (map f c) with (map g c) end end end.
  - reflexivity.
  - apply map_ext_in. intros en Hin.
    rewrite (map_ext_in (phi_mass_for N cs c (fst en)) (phi_mass_for N cs' c (fst en)) (seq 1 o)); [reflexivity|].
    intros k Hk. apply in_seq in Hk. apply (phi_mass_for_ext cs cs' c o en k H Hin). lia.
Qed.

Lemma brain_with_ext cs0 cs0' c oreq base charge carrier :
  (forall o, (0 <= o)%Z -> agree (map (phi_update N o) cs0) (map (phi_update N o) cs0') c (Z.to_nat o)) ->
  option_map fst (brain_with N cs0 c oreq base charge carrier)
  = option_map fst (brain_with N cs0' c oreq base charge carrier).
Proof.
  intro H. unfold brain_with.
  destruct (resolve_order oreq (max_variants c) <? 0)%Z eqn:Eo; [reflexivity|].
  apply Z.ltb_ge in Eo. specialize (H _ Eo).
  rewrite (prob_vector_ext _ _ c _ (max_variants c) base H).
  destruct (prob_vector N _ c _ (max_variants c) base) as [pv|]; [|reflexivity].
  rewrite (center_vector_ext _ _ c _ (max_variants c) base pv H).
  destruct (center_vector N _ c _ (max_variants c) base pv) as [cv|]; reflexivity.
Qed.

Lemma valid_sym e p : valid e p -> ph_sym p = sym e.
Proof. intros (ca & cm & m & _ & _ & _ & _ & _ & _ & Hs & _). exact Hs. Qed.

Lemma brain_with_cs l c oreq base charge carrier peaks cs :
  brain_with N l c oreq base charge carrier = Some (peaks, cs) -> exists o, cs = map (phi_update N o) l.
Proof.
  unfold brain_with. destruct (resolve_order oreq (max_variants c) <? 0)%Z; [discriminate|].
  destruct (prob_vector N _ c _ (max_variants c) base) as [pv|]; [|discriminate].
  destruct (center_vector N _ c _ (max_variants c) base pv) as [cv|]; [|discriminate].
  intro H. injection H as _ H. eexists. symmetry. exact H.
Qed.

(* the step of populate_constants_from_cache *)
Definition co_step (st : option (list (phi (F:=F))) * cache (F:=F)) (en : elem * Z) :=
  let '(cs, ch) := st in
  match cs with
  | None => (None, ch)
  | Some l =>
      let '(o, ch') := cache_remove (sym (fst en)) ch in
      match o with
      | Some p => (Some (l ++ [p]), ch')
      | None => (add_const N (Some l) (fst en), ch')
      end
  end.
Lemma checkout_all_eq c ch : checkout_all N c ch = fold_left co_step c (Some [], ch).
Proof. reflexivity. Qed.

(* with an empty cache, checking out is building from scratch *)
Lemma fresh_eq : forall c st, snd st = [] ->
  fold_left co_step c st = (fold_left (fun a en => add_const N a (fst en)) c (fst st), []).
Proof.
  induction c as [|en c IH]; intros [cs ch] H; cbn [snd] in H; subst ch; cbn [fold_left fst].
  - reflexivity.
  - rewrite IH.
    + f_equal. f_equal. unfold co_step. destruct cs as [l|]; reflexivity.
    + unfold co_step. destruct cs as [l|]; reflexivity.
Qed.

(* ---- invariants relative to a universe of elements in which a symbol names one element ---- *)
Section Univ.
Variable U : elem -> Prop.
Hypothesis U_ok : forall e, U e -> brain_elem_ok e = true.
Hypothesis U_inj : forall e e', U e -> U e' -> sym e = sym e' -> e = e'.

Definition lst_ok (l : list (phi (F:=F))) : Prop := Forall (fun p => exists e, U e /\ valid e p) l.
Definition cache_ok (ch : cache (F:=F)) : Prop :=
  Forall (fun sp => exists e, U e /\ fst sp = sym e /\ valid e (snd sp)) ch.

Lemma lookup_valid l (en : elem * Z) : lst_ok l -> U (fst en) -> get_phi l (sym (fst en)) <> None ->
  exists p, get_phi l (sym (fst en)) = Some p /\ valid (fst en) p.
Proof.
  intros L Uen G. destruct (get_phi l (sym (fst en))) as [p|] eqn:E; [|congruence].
  exists p. split; [reflexivity|]. apply get_phi_some in E. destruct E as [Hin Hs].
  unfold lst_ok in L. rewrite Forall_forall in L. destruct (L p Hin) as (e & Ue & V).
  assert (X : e = fst en). { apply U_inj; [exact Ue|exact Uen|]. rewrite <- (valid_sym e p V). exact Hs. }
  subst e. exact V.
Qed.

Lemma lists_agree l l' (c : bcomp) : lst_ok l -> lst_ok l' ->
  (forall en, In en c -> U (fst en)) ->
  (forall en, In en c -> get_phi l (sym (fst en)) <> None) ->
  (forall en, In en c -> get_phi l' (sym (fst en)) <> None) ->
  forall o, (0 <= o)%Z -> agree (map (phi_update N o) l) (map (phi_update N o) l') c (Z.to_nat o).
Proof.
  intros L L' HU Cv Cv' o Ho en k Hin Hk.
  destruct (lookup_valid l en L (HU en Hin) (Cv en Hin)) as (p & G & V).
  destruct (lookup_valid l' en L' (HU en Hin) (Cv' en Hin)) as (p' & G' & V').
  apply (psum_agree l l' _ (fst en) p p' o k G G' V V'). lia.
Qed.

Lemma cache_remove_ok s : forall ch, cache_ok ch ->
  cache_ok (snd (cache_remove s ch)) /\
  (forall p, fst (cache_remove s ch) = Some p -> exists e, U e /\ s = sym e /\ valid e p).
Proof.
  induction ch as [|[k v] r IH]; intro H; cbn [cache_remove].
  - split; [constructor|]. intros p X. discriminate.
  - inversion H as [|? ? Hkv Hr]; subst. destruct (String.eqb k s) eqn:E.
    + cbn [fst snd]. split; [exact Hr|]. intros p X. injection X as <-.
      apply String.eqb_eq in E. subst k. destruct Hkv as (e & Ue & Hs & V). cbn [fst snd] in Hs, V.
      exists e. split; [exact Ue|]. split; [exact Hs|exact V].
    + destruct (IH Hr) as [I1 I2]. destruct (cache_remove s r) as [o r']. cbn [fst snd] in *.
      split; [constructor; assumption|exact I2].
Qed.

Lemma cache_receive_ok e p : U e -> valid e p ->
  forall ch, cache_ok ch -> cache_ok (cache_receive (sym e) p ch).
Proof.
  intros Ue V. induction ch as [|[k v] r IH]; intro H; cbn [cache_receive].
  - constructor; [|constructor]. exists e. cbn [fst snd]. split; [exact Ue|]. split; [reflexivity|exact V].
  - inversion H as [|? ? Hkv Hr]; subst. destruct (String.eqb k (sym e)) eqn:E.
    + destruct (ph_order p <? ph_order v)%Z; [exact H|].
      constructor; [|exact Hr]. exists e. cbn [fst snd]. split; [exact Ue|].
      split; [apply String.eqb_eq; exact E|exact V].
    + constructor; [exact Hkv|apply IH; exact Hr].
Qed.

Lemma receive_all_ok : forall cs ch, lst_ok cs -> cache_ok ch ->
  cache_ok (fold_left (fun a p => cache_receive (ph_sym p) p a) cs ch).
Proof.
  induction cs as [|p cs IH]; intros ch L C; cbn [fold_left]; [exact C|].
  inversion L as [|? ? (e & Ue & V) Lr]; subst. apply IH; [exact Lr|].
  rewrite (valid_sym e p V). apply cache_receive_ok; assumption.
Qed.

Lemma update_all_ok o l : lst_ok l -> lst_ok (map (phi_update N o) l).
Proof.
  unfold lst_ok. intro L. apply Forall_map. revert L. apply Forall_impl.
  intros p (e & Ue & V). exists e. split; [exact Ue|apply update_valid; exact V].
Qed.

Lemma snoc_ok l e p : lst_ok l -> U e -> valid e p ->
  lst_ok (l ++ [p]) /\
  (forall s, get_phi l s <> None -> get_phi (l ++ [p]) s <> None) /\
  get_phi (l ++ [p]) (sym e) <> None.
Proof.
  intros L Ue V. split; [|split].
  - apply Forall_app. split; [exact L|]. constructor; [|constructor]. exists e. split; assumption.
  - intros s G. rewrite get_phi_app. destruct (get_phi l s); congruence.
  - rewrite get_phi_app. destruct (get_phi l (sym e)); [congruence|].
    unfold get_phi. cbn [find]. rewrite (valid_sym e p V), String.eqb_refl. congruence.
Qed.

Lemma co_step_ok l ch en : lst_ok l -> cache_ok ch -> U (fst en) ->
  exists l1 ch1, co_step (Some l, ch) en = (Some l1, ch1) /\ lst_ok l1 /\ cache_ok ch1 /\
    (forall s, get_phi l s <> None -> get_phi l1 s <> None) /\
    get_phi l1 (sym (fst en)) <> None.
Proof.
  intros L C Uen. unfold co_step.
  destruct (cache_remove_ok (sym (fst en)) ch C) as [R1 R2].
  destruct (cache_remove (sym (fst en)) ch) as [o ch1]. cbn [fst snd] in R1, R2.
  destruct o as [p|].
  - destruct (R2 p eq_refl) as (e & Ue & Hs & V).
    destruct (snoc_ok l e p L Ue V) as (S1 & S2 & S3).
    exists (l ++ [p]), ch1. split; [reflexivity|]. split; [exact S1|]. split; [exact R1|].
    split; [exact S2|]. rewrite Hs. exact S3.
  - unfold add_const. destruct (get_phi l (sym (fst en))) as [q|] eqn:G.
    + exists l, ch1. split; [reflexivity|]. split; [exact L|]. split; [exact R1|].
      split; [intros s X; exact X|]. rewrite G. congruence.
    + destruct (fresh_valid (fst en) (U_ok _ Uen)) as (p & Ep & V). rewrite Ep.
      destruct (snoc_ok l (fst en) p L Uen V) as (S1 & S2 & S3).
      exists (l ++ [p]), ch1. split; [reflexivity|]. split; [exact S1|]. split; [exact R1|].
      split; [exact S2|exact S3].
Qed.

Lemma checkout_ok : forall (c : bcomp) l ch, (forall en, In en c -> U (fst en)) -> lst_ok l -> cache_ok ch ->
  exists l' ch', fold_left co_step c (Some l, ch) = (Some l', ch') /\ lst_ok l' /\ cache_ok ch' /\
    (forall s, get_phi l s <> None -> get_phi l' s <> None) /\
    (forall en, In en c -> get_phi l' (sym (fst en)) <> None).
Proof.
  induction c as [|en c IH]; intros l ch HU L C; cbn [fold_left].
  - exists l, ch. split; [reflexivity|]. split; [exact L|]. split; [exact C|].
    split; [intros s X; exact X|]. intros en [].
  - destruct (co_step_ok l ch en L C (HU en (or_introl eq_refl))) as (l1 & ch1 & E1 & L1 & C1 & M1 & G1).
    rewrite E1.
    destruct (IH l1 ch1 (fun en' H => HU en' (or_intror H)) L1 C1) as (l' & ch' & E & L' & C' & M & G).
    exists l', ch'. split; [exact E|]. split; [exact L'|]. split; [exact C'|].
    split; [intros s X; apply M, M1, X|].
    intros en' [<-|Hin]; [apply M, G1|apply G, Hin].
Qed.

(* one call: same result as the stateless function, and the cache stays canonical *)
Lemma call_ok ch r : cache_ok ch -> (forall en, In en (rq_comp r) -> U (fst en)) ->
  fst (gen_call N ch r) = stateless N r /\ cache_ok (snd (gen_call N ch r)).
Proof.
  intros C HU. unfold gen_call, gen_step, stateless, brain.
  destruct r as [c oreq base charge carrier]. cbn [rq_comp rq_order rq_base rq_charge rq_carrier] in *.
  rewrite checkout_all_eq.
  destruct (checkout_ok c [] ch HU (Forall_nil _) C) as (l & ch1 & E & L & C1 & _ & Cov).
  destruct (checkout_ok c [] [] HU (Forall_nil _) (Forall_nil _)) as (l0 & ch0 & E0 & L0 & _ & _ & Cov0).
  rewrite fresh_eq in E0 by reflexivity. cbn [fst] in E0. injection E0 as E0 _.
  unfold constants_fresh. rewrite E0, E.
  rewrite <- (brain_with_ext l l0 c oreq base charge carrier (lists_agree l l0 c L L0 HU Cov Cov0)).
  destruct (brain_with N l c oreq base charge carrier) as [[peaks cs]|] eqn:EB; cbn [fst snd option_map].
  - split; [reflexivity|]. destruct (brain_with_cs _ _ _ _ _ _ _ _ EB) as [o ->].
    apply receive_all_ok; [apply update_all_ok; exact L|exact C1].
  - split; [reflexivity|exact C1].
Qed.

Lemma run_ok : forall (reqs : list (request (F:=F))) ch, cache_ok ch ->
  (forall r en, In r reqs -> In en (rq_comp r) -> U (fst en)) ->
  cache_ok (fold_left (fun ch r => snd (gen_call N ch r)) reqs ch).
Proof.
  induction reqs as [|r reqs IH]; intros ch C HU; cbn [fold_left]; [exact C|].
  apply IH.
  - apply call_ok; [exact C|]. intros en Hen. apply (HU r en (or_introl eq_refl) Hen).
  - intros r' en Hr Hen. apply (HU r' en (or_intror Hr) Hen).
Qed.
End Univ.

(* ---- C08 ---- *)
Definition univ (rs : list (request (F:=F))) (e : elem) : Prop :=
  exists r en, In r rs /\ In en (rq_comp r) /\ fst en = e.

Theorem generator_pure : forall (reqs : list (request (F:=F))) r,
  reqs_ok (r :: reqs) -> fst (gen_call N (gen_run N reqs) r) = stateless N r.
Proof.
  intros reqs r [H1 H2]. set (U := univ (r :: reqs)).
  assert (U_ok : forall e, U e -> brain_elem_ok e = true).
  { intros e (r' & en & Hr & Hen & <-). apply (H1 r' en Hr Hen). }
  assert (U_inj : forall e e', U e -> U e' -> sym e = sym e' -> e = e').
  { intros e e' (r1 & en1 & Hr1 & Hen1 & <-) (r2 & en2 & Hr2 & Hen2 & <-) Hs.
    apply (H2 r1 r2 en1 en2 Hr1 Hr2 Hen1 Hen2 Hs). }
  assert (C : cache_ok U (gen_run N reqs)).
  { unfold gen_run. apply (run_ok U U_ok U_inj); [constructor|].
    intros r' en Hr Hen. exists r', en. split; [right; exact Hr|]. split; [exact Hen|reflexivity]. }
  apply (call_ok U U_ok U_inj _ r C).
  intros en Hen. exists r, en. split; [left; reflexivity|]. split; [exact Hen|reflexivity].
Qed.

Corollary history_independent : forall (reqs reqs' : list (request (F:=F))) r,
  reqs_ok (r :: reqs) -> reqs_ok (r :: reqs') ->
  fst (gen_call N (gen_run N reqs) r) = fst (gen_call N (gen_run N reqs') r).
Proof.
  intros reqs reqs' r H H'. rewrite (generator_pure reqs r H), (generator_pure reqs' r H'). reflexivity.
Qed.

End Cache.

