(* Proofs for C11 (isotopic_pattern/convolution.rs). *)
From Coq Require Import ZArith List Bool Lia Field Ring Field_theory Ring_theory Permutation.
From CE Require Import Num OField Mz Peak Conv ConvSpec.
Import ListNotations.

(* ---------- list plumbing ---------- *)

Lemma flat_map_nil_fun {A B : Type} (l : list A) : flat_map (fun _ : A => @nil B) l = [].
Proof. induction l as [|a l IH]; [reflexivity|]. cbn [flat_map]. exact IH. Qed.

Lemma Permutation_flat_map_ext {A B : Type} (f g : A -> list B) (l : list A) :
  (forall x, Permutation (f x) (g x)) -> Permutation (flat_map f l) (flat_map g l).
Proof.
  intros H. induction l as [|a l IH]; [constructor|].
  cbn [flat_map]. apply Permutation_app; [apply H | exact IH].
Qed.

Lemma flat_map_cons_split {A B : Type} (g : A -> B) (h : A -> list B) (l : list A) :
  Permutation (flat_map (fun a => g a :: h a) l) (map g l ++ flat_map h l).
Proof.
  induction l as [|a l IH]; [constructor|].
  cbn [flat_map map app]. apply perm_skip.
  eapply Permutation_trans; [apply Permutation_app_head; exact IH|].
  apply Permutation_app_swap_app.
Qed.

Lemma flat_map_swap {X Y Z : Type} (f : X -> Y -> Z) (A : list X) (B : list Y) :
  Permutation (flat_map (fun b => map (fun a => f a b) A) B)
              (flat_map (fun a => map (fun b => f a b) B) A).
Proof.
  induction B as [|b B IH].
  - cbn [flat_map map]. rewrite flat_map_nil_fun. constructor.
  - cbn [flat_map map].
    eapply Permutation_trans; [apply Permutation_app_head; exact IH|].
    apply Permutation_sym.
    apply (flat_map_cons_split (fun a => f a b) (fun a => map (fun b0 => f a b0) B) A).
Qed.

Lemma Permutation_filter {A : Type} (p : A -> bool) (l l' : list A) :
  Permutation l l' -> Permutation (filter p l) (filter p l').
Proof.
  induction 1 as [|x l l' H IH|x y l|l l' l'' H1 IH1 H2 IH2].
  - constructor.
  - cbn [filter]. destruct (p x); [apply perm_skip|]; exact IH.
  - cbn [filter]. destruct (p x), (p y); try apply Permutation_refl. apply perm_swap.
  - eapply Permutation_trans; eassumption.
Qed.

Lemma filter_flat_map {A B : Type} (p : B -> bool) (f : A -> list B) (l : list A) :
  filter p (flat_map f l) = flat_map (fun x => filter p (f x)) l.
Proof.
  induction l as [|a l IH]; [reflexivity|].
  cbn [flat_map]. rewrite filter_app, IH. reflexivity.
Qed.

Lemma filter_idem {A : Type} (p : A -> bool) (l : list A) : filter p (filter p l) = filter p l.
Proof.
  induction l as [|a l IH]; [reflexivity|].
  cbn [filter]. destruct (p a) eqn:E; [cbn [filter]; rewrite E, IH; reflexivity | exact IH].
Qed.

Lemma filter_all {A : Type} (p : A -> bool) (l : list A) :
  (forall x, In x l -> p x = true) -> filter p l = l.
Proof.
  induction l as [|a l IH]; intros H; [reflexivity|].
  cbn [filter]. rewrite (H a (or_introl eq_refl)), IH; [reflexivity|].
  intros x Hx. apply H. right. exact Hx.
Qed.

Section ConvProofs.
  Context {F : Type} (N : Num F).

  Notation distF := (dist (F:=F)).

  (* ---------- the tail of the public function (every Num) ---------- *)

  Lemma empty_result : forall c z carrier thr,
    conv_all N c thr = [] -> isotopic_convolution N c z carrier thr = [].
  Proof.
    intros c z carrier thr H. unfold isotopic_convolution. rewrite H. reflexivity.
  Qed.

  (* ---------- cross_all / convolve_with, structurally (every Num) ---------- *)

  (* one product entry: (mass sum, probability product); [ie] from the element, [de] from the distribution *)
  Definition pr (ie de : F * F) : F * F := (add N (fst de) (fst ie), mul N (snd de) (snd ie)).

  Lemma cross_all_eq (d e : distF) : cross_all N d e = flat_map (fun ie => map (pr ie) d) e.
  Proof. reflexivity. Qed.

  Lemma cross_nil_r (d : distF) : cross_all N d [] = [].
  Proof. reflexivity. Qed.

  Lemma cross_cons_r (d : distF) b e : cross_all N d (b :: e) = map (pr b) d ++ cross_all N d e.
  Proof. reflexivity. Qed.

  Lemma cross_app_r (d e1 e2 : distF) : cross_all N d (e1 ++ e2) = cross_all N d e1 ++ cross_all N d e2.
  Proof. unfold cross_all. apply flat_map_app. Qed.

  Lemma conv_noprune (d e : distF) thr :
    (forall x, ltb N x thr = false) -> convolve_with N d e thr = cross_all N d e.
  Proof.
    intros Hnp. unfold convolve_with, cross_all. apply flat_map_ext. intros ie.
    induction d as [|de d IH]; [reflexivity|].
    cbn [flat_map map]. rewrite Hnp, IH. reflexivity.
  Qed.

  Lemma cross_in (d e : distF) x :
    In x (cross_all N d e) <-> exists a b, In a d /\ In b e /\ x = pr b a.
  Proof.
    rewrite cross_all_eq, in_flat_map. split.
    - intros [b [Hb Hx]]. apply in_map_iff in Hx. destruct Hx as [a [Hx Ha]].
      exists a, b. auto.
    - intros [a [b [Ha [Hb Hx]]]]. exists b. split; [exact Hb|].
      apply in_map_iff. exists a. auto.
  Qed.

  Lemma conv_in (d e : distF) thr x :
    In x (convolve_with N d e thr) <->
    exists a b, In a d /\ In b e /\ x = pr b a /\ ltb N (mul N (snd a) (snd b)) thr = false.
  Proof.
    unfold convolve_with. rewrite in_flat_map. split.
    - intros [b [Hb Hx]]. apply in_flat_map in Hx. destruct Hx as [a [Ha Hx]].
      destruct (ltb N (mul N (snd a) (snd b)) thr) eqn:E; [destruct Hx|].
      destruct Hx as [Hx|[]]. exists a, b. auto.
    - intros [a [b [Ha [Hb [Hx E]]]]]. exists b. split; [exact Hb|].
      apply in_flat_map. exists a. split; [exact Ha|].
      rewrite E. left. symmetry. exact Hx.
  Qed.

  Lemma conv_incl (A A' B B' : distF) thr :
    incl A A' -> incl B B' -> incl (convolve_with N A B thr) (cross_all N A' B').
  Proof.
    intros HA HB x Hx. apply conv_in in Hx. destruct Hx as [a [b [Ha [Hb [Hx _]]]]].
    apply cross_in. exists a, b. auto.
  Qed.

  Lemma cross_perm_l (A A' B : distF) :
    Permutation A A' -> Permutation (cross_all N A B) (cross_all N A' B).
  Proof.
    intros H. rewrite !cross_all_eq. apply Permutation_flat_map_ext.
    intros ie. apply Permutation_map. exact H.
  Qed.

  Lemma cross_perm_r (A B B' : distF) :
    Permutation B B' -> Permutation (cross_all N A B) (cross_all N A B').
  Proof. intros H. rewrite !cross_all_eq. apply Permutation_flat_map. exact H. Qed.

  Lemma cross_perm (A A' B B' : distF) :
    Permutation A A' -> Permutation B B' -> Permutation (cross_all N A B) (cross_all N A' B').
  Proof.
    intros HA HB. eapply Permutation_trans; [apply cross_perm_l; exact HA | apply cross_perm_r; exact HB].
  Qed.

  (* powers of two as fuel bounds *)
  Definition p2 (f : nat) : Z := (2 ^ Z.of_nat f)%Z.
  Lemma p2_0 : p2 0 = 1%Z. Proof. reflexivity. Qed.
  Lemma p2_S f : p2 (S f) = (2 * p2 f)%Z.
  Proof. unfold p2. rewrite Nat2Z.inj_succ, Z.pow_succ_r by lia. reflexivity. Qed.
  Lemma p2_pos f : (0 < p2 f)%Z.
  Proof. unfold p2. apply Z.pow_pos_nonneg; lia. Qed.
  Lemma p2_mono a b : (a <= b)%nat -> (p2 a <= p2 b)%Z.
  Proof. intros H. unfold p2. apply Z.pow_le_mono_r; lia. Qed.

  Section WithField.
    Hypothesis OF : OField N.
    Add Field Fc : (of_field N OF).

    Local Notation "0" := (zero N).
    Local Notation "1" := (one N).
    Local Infix "+!" := (add N) (at level 50, left associativity).
    Local Infix "*!" := (mul N) (at level 40, left associativity).
    Local Infix "<=!" := (fle N) (at level 70).
    Local Infix "<!" := (flt N) (at level 70).

    (* ---------- cross_all is a commutative monoid up to Permutation ---------- *)

    Lemma pr_eq (a b : F * F) m p : m = fst a +! fst b -> p = snd a *! snd b -> (m, p) = pr b a.
    Proof. intros -> ->. reflexivity. Qed.

    Lemma cross_unit_r (A : distF) : cross_all N A [(0, 1)] = A.
    Proof.
      rewrite cross_cons_r, cross_nil_r, app_nil_r.
      induction A as [|[m p] A IH]; [reflexivity|].
      cbn [map]. rewrite IH. f_equal. unfold pr. cbn [fst snd]. f_equal; ring.
    Qed.

    Lemma cross_unit_l (E : distF) : cross_all N [(0, 1)] E = E.
    Proof.
      induction E as [|[m p] E IH]; [reflexivity|].
      rewrite cross_cons_r, IH. cbn [map app]. f_equal. unfold pr. cbn [fst snd]. f_equal; ring.
    Qed.

    Lemma map_pr_cross c (A B : distF) : map (pr c) (cross_all N A B) = cross_all N A (map (pr c) B).
    Proof.
      induction B as [|b B IH]; [reflexivity|].
      cbn [map]. rewrite !cross_cons_r, map_app, IH. f_equal.
      rewrite map_map. apply map_ext. intros a. unfold pr. cbn [fst snd]. f_equal; ring.
    Qed.

    Lemma cross_assoc (A B C : distF) :
      cross_all N (cross_all N A B) C = cross_all N A (cross_all N B C).
    Proof.
      induction C as [|c C IH]; [reflexivity|].
      rewrite !cross_cons_r, cross_app_r, IH. f_equal. apply map_pr_cross.
    Qed.

    Lemma cross_comm (A B : distF) : Permutation (cross_all N A B) (cross_all N B A).
    Proof.
      rewrite !cross_all_eq.
      eapply Permutation_trans; [apply (flat_map_swap (fun a b => pr b a) A B)|].
      apply Permutation_flat_map_ext. intros a.
      erewrite map_ext; [apply Permutation_refl|].
      intros b. unfold pr. cbn [fst snd]. f_equal; ring.
    Qed.

    Lemma np_1 (d : distF) : naive_pow N d 1 = d.
    Proof. cbn [naive_pow]. apply cross_unit_l. Qed.

    Lemma np_add (d : distF) a : forall b,
      Permutation (naive_pow N d (a + b)) (cross_all N (naive_pow N d a) (naive_pow N d b)).
    Proof.
      induction b as [|b IH].
      - rewrite Nat.add_0_r. cbn [naive_pow]. rewrite cross_unit_r. apply Permutation_refl.
      - rewrite Nat.add_succ_r. cbn [naive_pow]. rewrite <- cross_assoc.
        apply cross_perm_l. exact IH.
    Qed.

    (* ---------- the computation, generically in the relation between result and expansion ---------- *)

    Section Generic.
      Variable thr : F.
      Variable R : distF -> distF -> Prop.
      Hypothesis R_unit : R [(0, 1)] [(0, 1)].
      Hypothesis R_conv : forall A A' B B', R A A' -> R B B' ->
        R (convolve_with N A B thr) (cross_all N A' B').
      Hypothesis R_perm : forall P U U', R P U -> Permutation U U' -> R P U'.

      Lemma doubling_gen (d : distF) (n : Z) : forall fuel buffer power,
        (0 < power)%Z -> (power mod 2 = 0)%Z -> (power / 2 <= n)%Z -> (n < power * p2 fuel)%Z ->
        R buffer (naive_pow N d (Z.to_nat (power / 2))) ->
        let r := doubling N fuel buffer power n thr in
        R (fst r) (naive_pow N d (Z.to_nat (snd r / 2))) /\ (snd r / 2 <= n < snd r)%Z.
      Proof.
        induction fuel as [|fuel IH]; intros buffer power Hpos Hev Hlo Hhi HR; cbv zeta.
        - cbn [doubling fst snd]. rewrite p2_0 in Hhi. split; [exact HR | lia].
        - cbn [doubling]. destruct (power <=? n)%Z eqn:E.
          + apply Z.leb_le in E. rewrite p2_S in Hhi.
            assert (Hh : (power * 2 / 2 = power)%Z) by (apply Z.div_mul; lia).
            apply IH.
            * lia.
            * apply Z.mod_mul. lia.
            * rewrite Hh. exact E.
            * lia.
            * rewrite Hh.
              assert (Hp : power = (power / 2 + power / 2)%Z).
              { pose proof (Z.div_mod power 2 ltac:(lia)) as Hdm. lia. }
              assert (H0 : (0 <= power / 2)%Z) by (apply Z.div_pos; lia).
              eapply R_perm; [apply R_conv; exact HR|].
              apply Permutation_sym.
              rewrite Hp at 1. rewrite Z2Nat.inj_add by assumption. apply np_add.
          + apply Z.leb_gt in E. cbn [fst snd]. split; [exact HR | lia].
      Qed.

      Lemma pow_gen_fuel (d : distF) (HRd : R d d) : forall f, (f <= 64)%nat -> forall n,
        (0 <= n < p2 f)%Z -> R (convolve_pow N (S f) d n thr) (naive_pow N d (Z.to_nat n)).
      Proof.
        induction f as [|f IH]; intros Hf n Hn.
        - rewrite p2_0 in Hn. assert (n = 0%Z) as -> by lia. cbn. exact R_unit.
        - remember (S f) as f1 eqn:Ef1. cbn [convolve_pow].
          destruct (n =? 0)%Z eqn:E0.
          { apply Z.eqb_eq in E0. subst n. cbn. exact R_unit. }
          destruct (n =? 1)%Z eqn:E1.
          { apply Z.eqb_eq in E1. subst n. change (Z.to_nat 1) with 1%nat. rewrite np_1. exact HRd. }
          apply Z.eqb_neq in E0. apply Z.eqb_neq in E1.
          pose proof (doubling_gen d n 64 d 2%Z) as HD. cbv zeta in HD.
          destruct (doubling N 64 d 2 n thr) as [buffer power] eqn:ED. cbn [fst snd] in HD.
          destruct HD as [HRb Hpw].
          + lia.
          + reflexivity.
          + change (2 / 2)%Z with 1%Z. lia.
          + pose proof (p2_mono f1 64 Hf) as Hle. lia.
          + change (2 / 2)%Z with 1%Z. change (Z.to_nat 1) with 1%nat. rewrite np_1. exact HRd.
          + destruct (power / 2 <? n)%Z eqn:EL.
            * apply Z.ltb_lt in EL.
              assert (Hrem : (0 <= n - power / 2 < p2 f)%Z).
              { subst f1. rewrite p2_S in Hn. Z.div_mod_to_equations. lia. }
              eapply R_perm; [apply R_conv; [exact HRb | subst f1; apply IH; [lia | exact Hrem]]|].
              apply Permutation_sym.
              assert (H0 : (0 <= power / 2)%Z) by (Z.div_mod_to_equations; lia).
              replace (Z.to_nat n) with (Z.to_nat (power / 2) + Z.to_nat (n - power / 2))%nat by lia.
              apply np_add.
            * apply Z.ltb_ge in EL. assert (power / 2 = n)%Z as <- by lia. exact HRb.
      Qed.

      Lemma pow_gen (d : distF) n : R d d -> (0 <= n < 2 ^ 31)%Z ->
        R (convolve_pow N 64 d n thr) (naive_pow N d (Z.to_nat n)).
      Proof.
        intros HRd Hn. apply (pow_gen_fuel d HRd 63); [lia|].
        pose proof (p2_mono 31 63 ltac:(lia)) as Hm. change (p2 31) with (2 ^ 31)%Z in Hm. lia.
      Qed.

      (* the per-element driver *)
      Definition good (c : list (distF * Z)) : Prop :=
        forall ec, In ec c -> R (fst ec) (fst ec) /\ (0 <= snd ec < 2 ^ 31)%Z.

      Lemma all_gen_tail : forall (c : list (distF * Z)) out acc, good c -> R out acc ->
        R (snd (fold_left (fun st ec =>
                  let '(first, out) := st in
                  let tmp := convolve_pow N 64 (fst ec) (snd ec) thr in
                  if (first : bool) then (false, tmp) else (false, convolve_with N tmp out thr))
                c (false, out)))
          (fold_left (fun acc ec => cross_all N acc (naive_pow N (fst ec) (Z.to_nat (snd ec)))) c acc).
      Proof.
        induction c as [|ec c IH]; intros out acc Hg HR.
        - exact HR.
        - cbn [fold_left]. cbv beta iota zeta. apply IH.
          + intros ec' Hin. apply Hg. right. exact Hin.
          + destruct (Hg ec (or_introl eq_refl)) as [HRd Hb].
            eapply R_perm; [apply R_conv; [apply pow_gen; [exact HRd | exact Hb] | exact HR]|].
            apply cross_comm.
      Qed.

      Lemma all_gen (c : list (distF * Z)) : c <> [] -> good c -> R (conv_all N c thr) (naive_all N c).
      Proof.
        intros Hne Hg. destruct c as [|ec c]; [congruence|].
        unfold conv_all, naive_all. cbn [fold_left]. cbv beta iota zeta.
        apply all_gen_tail.
        - intros ec' Hin. apply Hg. right. exact Hin.
        - destruct (Hg ec (or_introl eq_refl)) as [HRd Hb].
          rewrite cross_unit_l. apply pow_gen; assumption.
      Qed.
    End Generic.

    (* ---------- instance 1: nothing pruned, R = Permutation ---------- *)

    Lemma pow_expansion : forall d n thr,
      (0 <= n < 2 ^ 31)%Z -> (forall x, ltb N x thr = false) ->
      Permutation (convolve_pow N 64 d n thr) (naive_pow N d (Z.to_nat n)).
    Proof.
      intros d n thr Hn Hnp.
      apply (pow_gen thr (@Permutation (F * F))).
      - apply Permutation_refl.
      - intros A A' B B' HA HB. rewrite conv_noprune by exact Hnp. apply cross_perm; assumption.
      - intros P U U' H1 H2. eapply Permutation_trans; eassumption.
      - apply Permutation_refl.
      - exact Hn.
    Qed.

    Lemma all_expansion : forall c thr,
      c <> [] -> (forall ec, In ec c -> (0 <= snd ec < 2 ^ 31)%Z) -> (forall x, ltb N x thr = false) ->
      Permutation (conv_all N c thr) (naive_all N c).
    Proof.
      intros c thr Hne Hb Hnp.
      apply (all_gen thr (@Permutation (F * F))).
      - apply Permutation_refl.
      - intros A A' B B' HA HB. rewrite conv_noprune by exact Hnp. apply cross_perm; assumption.
      - intros P U U' H1 H2. eapply Permutation_trans; eassumption.
      - exact Hne.
      - intros ec Hin. split; [apply Permutation_refl | apply Hb; exact Hin].
    Qed.

    (* ---------- instance 2: nothing is invented, R = incl ---------- *)

    Lemma no_junk : forall c thr x,
      c <> [] -> (forall ec, In ec c -> (0 <= snd ec < 2 ^ 31)%Z) ->
      In x (conv_all N c thr) -> In x (naive_all N c).
    Proof.
      intros c thr x Hne Hb.
      revert x. change (incl (conv_all N c thr) (naive_all N c)).
      apply (all_gen thr (@incl (F * F))).
      - apply incl_refl.
      - intros A A' B B' HA HB. apply conv_incl; assumption.
      - intros P U U' H1 H2 y Hy. apply (Permutation_in y H2). apply H1. exact Hy.
      - exact Hne.
      - intros ec Hin. split; [apply incl_refl | apply Hb; exact Hin].
    Qed.

    Lemma pow_no_junk : forall d n thr x,
      (0 <= n < 2 ^ 31)%Z -> In x (convolve_pow N 64 d n thr) -> In x (naive_pow N d (Z.to_nat n)).
    Proof.
      intros d n thr x Hn.
      revert x. change (incl (convolve_pow N 64 d n thr) (naive_pow N d (Z.to_nat n))).
      apply (pow_gen thr (@incl (F * F))).
      - apply incl_refl.
      - intros A A' B B' HA HB. apply conv_incl; assumption.
      - intros P U U' H1 H2 y Hy. apply (Permutation_in y H2). apply H1. exact Hy.
      - apply incl_refl.
      - exact Hn.
    Qed.

    (* ---------- ordered-field facts (from the OField record only) ---------- *)

    Lemma le_add_r a x : 0 <=! x -> a <=! a +! x.
    Proof.
      intros H. pose proof (of_add_le N OF 0 x a H) as H'.
      replace (0 +! a) with a in H' by ring.
      replace (x +! a) with (a +! x) in H' by ring. exact H'.
    Qed.

    Lemma lt_le a b : a <! b -> a <=! b.
    Proof.
      unfold flt, fle. rewrite (of_ltb_def N OF). intros H.
      destruct (of_le_total N OF a b) as [H1|H1]; [exact H1|].
      unfold fle in H1. rewrite H1 in H. discriminate H.
    Qed.

    Lemma pos_neq0 a : 0 <! a -> a <> 0.
    Proof.
      unfold flt. rewrite (of_ltb_def N OF). intros H E. subst a.
      rewrite (of_le_refl N OF 0) in H. discriminate H.
    Qed.

    Lemma mul_neq0 a b : a <> 0 -> b <> 0 -> a *! b <> 0.
    Proof.
      intros Ha Hb E. apply Hb.
      replace b with (finv N a *! (a *! b)) by (field; exact Ha). rewrite E. ring.
    Qed.

    Lemma mul_pos a b : 0 <! a -> 0 <! b -> 0 <! a *! b.
    Proof.
      intros Ha Hb. unfold flt. rewrite (of_ltb_def N OF).
      destruct (leb N (a *! b) 0) eqn:E; [exfalso|reflexivity].
      apply (mul_neq0 a b (pos_neq0 a Ha) (pos_neq0 b Hb)).
      apply (of_le_antisym N OF); [exact E|].
      apply (of_mul_nonneg N OF); apply lt_le; assumption.
    Qed.

    Lemma sub_nonneg b : b <=! 1 -> 0 <=! sub N 1 b.
    Proof.
      intros H. pose proof (of_add_le N OF b 1 (opp N b) H) as H'.
      replace (b +! opp N b) with 0 in H' by ring.
      replace (1 +! opp N b) with (sub N 1 b) in H' by ring. exact H'.
    Qed.

    Lemma mul_le_l a b : 0 <=! a -> b <=! 1 -> a *! b <=! a.
    Proof.
      intros Ha Hb.
      pose proof (le_add_r (a *! b) (a *! sub N 1 b)
                    (of_mul_nonneg N OF _ _ Ha (sub_nonneg b Hb))) as H.
      replace (a *! b +! a *! sub N 1 b) with a in H by ring. exact H.
    Qed.

    Lemma mul_le_r a b : 0 <=! b -> a <=! 1 -> a *! b <=! b.
    Proof. intros Hb Ha. replace (a *! b) with (b *! a) by ring. apply mul_le_l; assumption. Qed.

    Lemma lt_0_1 : 0 <! 1.
    Proof.
      unfold flt. rewrite (of_ltb_def N OF).
      destruct (leb N 1 0) eqn:E; [exfalso|reflexivity].
      apply (F_1_neq_0 (of_field N OF)).
      apply (of_le_antisym N OF); [exact E|].
      replace 1 with (1 *! 1) by ring.
      destruct (of_le_total N OF 0 1) as [H|H]; [apply (of_mul_nonneg N OF); exact H|].
      (* 1 <= 0 is the case at hand; then 0 <= -1 and 1 = (-1)(-1) *)
      assert (Hm : 0 <=! opp N 1).
      { pose proof (of_add_le N OF 1 0 (opp N 1) H) as H'.
        replace (1 +! opp N 1) with 0 in H' by ring.
        replace (0 +! opp N 1) with (opp N 1) in H' by ring. exact H'. }
      replace (1 *! 1) with (opp N 1 *! opp N 1) by ring.
      apply (of_mul_nonneg N OF); exact Hm.
    Qed.

    Lemma not_pruned t p : leb N t p = true -> ltb N p t = false.
    Proof. intros H. rewrite (of_ltb_def N OF), H. reflexivity. Qed.

    (* the hypothesis of the no-pruning theorems cannot be met in an ordered field: it says [thr] is a
       lower bound of the whole field *)
    Lemma noprune_unsatisfiable thr : ~ (forall x, ltb N x thr = false).
    Proof.
      intros H. specialize (H (sub N thr 1)). rewrite (of_ltb_def N OF) in H.
      destruct (leb N thr (sub N thr 1)) eqn:E; [|discriminate H].
      pose proof (of_add_le N OF _ _ (sub N 1 thr) E) as H'.
      replace (thr +! sub N 1 thr) with 1 in H' by ring.
      replace (sub N thr 1 +! sub N 1 thr) with 0 in H' by ring.
      pose proof lt_0_1 as H1. unfold flt in H1. rewrite (of_ltb_def N OF) in H1.
      unfold fle in H'. rewrite H' in H1. discriminate H1.
    Qed.

    (* ---------- instance 3: survivors ---------- *)

    (* every probability lies in (0, 1] *)
    Definition okd (U : distF) : Prop := forall x, In x U -> 0 <! snd x /\ snd x <=! 1.
    (* every entry of U at or above the threshold is in P *)
    Definition keeps (thr : F) (P U : distF) : Prop :=
      forall x, In x U -> leb N thr (snd x) = true -> In x P.

    Lemma okd_unit : okd [(0, 1)].
    Proof.
      intros x [<-|[]]. cbn [snd]. split; [exact lt_0_1 | apply (of_le_refl N OF)].
    Qed.

    Lemma okd_cross (A B : distF) : okd A -> okd B -> okd (cross_all N A B).
    Proof.
      intros HA HB x Hx. apply cross_in in Hx. destruct Hx as [a [b [Ha [Hb ->]]]].
      unfold pr. cbn [snd].
      destruct (HA a Ha) as [Ha0 Ha1]. destruct (HB b Hb) as [Hb0 Hb1].
      split; [apply mul_pos; assumption|].
      apply (of_le_trans N OF _ (snd a)); [|exact Ha1].
      apply mul_le_l; [apply lt_le; exact Ha0 | exact Hb1].
    Qed.

    Lemma keeps_conv thr (A A' B B' : distF) :
      okd A' -> okd B' -> keeps thr A A' -> keeps thr B B' ->
      keeps thr (convolve_with N A B thr) (cross_all N A' B').
    Proof.
      intros HoA HoB HA HB x Hx Hthr. apply cross_in in Hx. destruct Hx as [a [b [Ha [Hb ->]]]].
      unfold pr in Hthr. cbn [snd] in Hthr.
      destruct (HoA a Ha) as [Ha0 Ha1]. destruct (HoB b Hb) as [Hb0 Hb1].
      apply conv_in. exists a, b. repeat split.
      - apply HA; [exact Ha|].
        apply (of_le_trans N OF _ (snd a *! snd b)); [exact Hthr|].
        apply mul_le_l; [apply lt_le; exact Ha0 | exact Hb1].
      - apply HB; [exact Hb|].
        apply (of_le_trans N OF _ (snd a *! snd b)); [exact Hthr|].
        apply mul_le_r; [apply lt_le; exact Hb0 | exact Ha1].
      - apply not_pruned. exact Hthr.
    Qed.

    Definition Rsurv (thr : F) (P U : distF) : Prop := okd U /\ keeps thr P U.

    Lemma Rsurv_unit thr : Rsurv thr [(0, 1)] [(0, 1)].
    Proof. split; [exact okd_unit | intros x Hx _; exact Hx]. Qed.

    Lemma Rsurv_conv thr (A A' B B' : distF) :
      Rsurv thr A A' -> Rsurv thr B B' -> Rsurv thr (convolve_with N A B thr) (cross_all N A' B').
    Proof.
      intros [HoA HA] [HoB HB]. split; [apply okd_cross; assumption | apply keeps_conv; assumption].
    Qed.

    Lemma Rsurv_perm thr (P U U' : distF) : Rsurv thr P U -> Permutation U U' -> Rsurv thr P U'.
    Proof.
      intros [Ho Hk] HP. apply Permutation_sym in HP. split.
      - intros x Hx. apply Ho. exact (Permutation_in x HP Hx).
      - intros x Hx Ht. apply Hk; [exact (Permutation_in x HP Hx) | exact Ht].
    Qed.

    Lemma Rsurv_refl thr (d : distF) : okd d -> Rsurv thr d d.
    Proof. intros Ho. split; [exact Ho | intros x Hx _; exact Hx]. Qed.

    Lemma survivors : forall c thr x,
      c <> [] -> (forall ec, In ec c -> (0 <= snd ec < 2 ^ 31)%Z) -> abundances_ok N c ->
      In x (naive_all N c) -> leb N thr (snd x) = true -> In x (conv_all N c thr).
    Proof.
      intros c thr x Hne Hb Hab Hx Ht.
      assert (HR : Rsurv thr (conv_all N c thr) (naive_all N c)).
      { apply (all_gen thr (Rsurv thr)).
        - apply Rsurv_unit.
        - apply Rsurv_conv.
        - apply Rsurv_perm.
        - exact Hne.
        - intros ec Hin. split; [|apply Hb; exact Hin].
          apply Rsurv_refl. intros ma Hma. exact (Hab ec ma Hin Hma). }
      destruct HR as [_ Hk]. apply Hk; assumption.
    Qed.

    Lemma pow_survivors : forall d n thr x,
      (0 <= n < 2 ^ 31)%Z -> okd d ->
      In x (naive_pow N d (Z.to_nat n)) -> leb N thr (snd x) = true -> In x (convolve_pow N 64 d n thr).
    Proof.
      intros d n thr x Hn Ho Hx Ht.
      assert (HR : Rsurv thr (convolve_pow N 64 d n thr) (naive_pow N d (Z.to_nat n))).
      { apply (pow_gen thr (Rsurv thr)).
        - apply Rsurv_unit.
        - apply Rsurv_conv.
        - apply Rsurv_perm.
        - apply Rsurv_refl. exact Ho.
        - exact Hn. }
      destruct HR as [_ Hk]. apply Hk; assumption.
    Qed.

    (* all probabilities of the expansion lie in (0, 1] *)
    Lemma naive_all_okd : forall c,
      c <> [] -> (forall ec, In ec c -> (0 <= snd ec < 2 ^ 31)%Z) -> abundances_ok N c ->
      okd (naive_all N c).
    Proof.
      intros c Hne Hb Hab.
      assert (HR : Rsurv 0 (conv_all N c 0) (naive_all N c)).
      { apply (all_gen 0 (Rsurv 0)).
        - apply Rsurv_unit.
        - apply Rsurv_conv.
        - apply Rsurv_perm.
        - exact Hne.
        - intros ec Hin. split; [|apply Hb; exact Hin].
          apply Rsurv_refl. intros ma Hma. exact (Hab ec ma Hin Hma). }
      exact (proj1 HR).
    Qed.

    (* ---------- instance 4: with multiplicities; the satisfiable form of the no-pruning theorems ---------- *)

    Definition keep (thr : F) (x : F * F) : bool := leb N thr (snd x).

    (* exact arithmetic: pruning is filtering the full cross product *)
    Lemma conv_filter thr (A B : distF) :
      convolve_with N A B thr = filter (keep thr) (cross_all N A B).
    Proof.
      rewrite cross_all_eq, filter_flat_map. unfold convolve_with. apply flat_map_ext. intros b.
      induction A as [|a A IH]; [reflexivity|].
      cbn [flat_map map filter]. rewrite IH.
      change (keep thr (pr b a)) with (leb N thr (snd a *! snd b)).
      rewrite (of_ltb_def N OF). destruct (leb N thr (snd a *! snd b)); reflexivity.
    Qed.

    Lemma keep_factors thr a b :
      (0 <! snd a /\ snd a <=! 1) -> (0 <! snd b /\ snd b <=! 1) ->
      keep thr (pr b a) = true -> keep thr a = true /\ keep thr b = true.
    Proof.
      intros [Ha0 Ha1] [Hb0 Hb1] H. unfold keep, pr in *. cbn [snd] in H. split.
      - apply (of_le_trans N OF _ (snd a *! snd b)); [exact H|].
        apply mul_le_l; [apply lt_le; exact Ha0 | exact Hb1].
      - apply (of_le_trans N OF _ (snd a *! snd b)); [exact H|].
        apply mul_le_r; [apply lt_le; exact Hb0 | exact Ha1].
    Qed.

    Lemma filter_cross_l thr b (A : distF) : okd A -> (0 <! snd b /\ snd b <=! 1) ->
      filter (keep thr) (map (pr b) (filter (keep thr) A)) = filter (keep thr) (map (pr b) A).
    Proof.
      intros Ho Hb. induction A as [|a A IH]; [reflexivity|].
      assert (IH' := IH (fun x Hx => Ho x (or_intror Hx))).
      cbn [filter map]. destruct (keep thr a) eqn:Ea.
      - cbn [map filter]. rewrite IH'. reflexivity.
      - rewrite IH'. destruct (keep thr (pr b a)) eqn:E; [|reflexivity].
        destruct (keep_factors thr a b (Ho a (or_introl eq_refl)) Hb E) as [Ha' _]. congruence.
    Qed.

    Lemma filter_cross_dead thr b (A : distF) : okd A -> (0 <! snd b /\ snd b <=! 1) ->
      keep thr b = false -> filter (keep thr) (map (pr b) A) = [].
    Proof.
      intros Ho Hb Eb. induction A as [|a A IH]; [reflexivity|].
      cbn [map filter]. rewrite (IH (fun x Hx => Ho x (or_intror Hx))).
      destruct (keep thr (pr b a)) eqn:E; [|reflexivity].
      destruct (keep_factors thr a b (Ho a (or_introl eq_refl)) Hb E) as [_ Hb']. congruence.
    Qed.

    Lemma filter_cross thr (A B : distF) : okd A -> okd B ->
      filter (keep thr) (cross_all N (filter (keep thr) A) (filter (keep thr) B))
      = filter (keep thr) (cross_all N A B).
    Proof.
      intros HoA HoB. induction B as [|b B IH]; [reflexivity|].
      assert (IH' := IH (fun x Hx => HoB x (or_intror Hx))).
      pose proof (HoB b (or_introl eq_refl)) as Hb.
      rewrite cross_cons_r, filter_app. cbn [filter]. destruct (keep thr b) eqn:Eb.
      - rewrite cross_cons_r, filter_app, IH', filter_cross_l by assumption. reflexivity.
      - rewrite IH', (filter_cross_dead thr b A HoA Hb Eb). reflexivity.
    Qed.

    Definition Rms (thr : F) (P U : distF) : Prop :=
      okd U /\ incl P U /\ Permutation (filter (keep thr) P) (filter (keep thr) U).

    Lemma okd_incl (P U : distF) : incl P U -> okd U -> okd P.
    Proof. intros Hi Ho x Hx. apply Ho, Hi, Hx. Qed.

    Lemma Rms_unit thr : Rms thr [(0, 1)] [(0, 1)].
    Proof. split; [exact okd_unit|]. split; [apply incl_refl | apply Permutation_refl]. Qed.

    Lemma Rms_refl thr (d : distF) : okd d -> Rms thr d d.
    Proof. intros Ho. split; [exact Ho|]. split; [apply incl_refl | apply Permutation_refl]. Qed.

    Lemma Rms_conv thr (A A' B B' : distF) :
      Rms thr A A' -> Rms thr B B' -> Rms thr (convolve_with N A B thr) (cross_all N A' B').
    Proof.
      intros [HoA [HiA HpA]] [HoB [HiB HpB]].
      split; [apply okd_cross; assumption|]. split; [apply conv_incl; assumption|].
      rewrite conv_filter, filter_idem.
      rewrite <- (filter_cross thr A B) by (eapply okd_incl; eassumption).
      rewrite <- (filter_cross thr A' B') by assumption.
      apply Permutation_filter. apply cross_perm; assumption.
    Qed.

    Lemma Rms_perm thr (P U U' : distF) : Rms thr P U -> Permutation U U' -> Rms thr P U'.
    Proof.
      intros [Ho [Hi Hp]] HP. split; [|split].
      - intros x Hx. apply Ho. exact (Permutation_in x (Permutation_sym HP) Hx).
      - intros x Hx. exact (Permutation_in x HP (Hi x Hx)).
      - eapply Permutation_trans; [exact Hp | apply Permutation_filter; exact HP].
    Qed.

    (* the entries at or above the threshold are exactly, with multiplicity, the arrangements at or above it *)
    Lemma all_multiset : forall c thr,
      c <> [] -> (forall ec, In ec c -> (0 <= snd ec < 2 ^ 31)%Z) -> abundances_ok N c ->
      Permutation (filter (keep thr) (conv_all N c thr)) (filter (keep thr) (naive_all N c)).
    Proof.
      intros c thr Hne Hb Hab.
      assert (HR : Rms thr (conv_all N c thr) (naive_all N c)).
      { apply (all_gen thr (Rms thr)).
        - apply Rms_unit.
        - apply Rms_conv.
        - apply Rms_perm.
        - exact Hne.
        - intros ec Hin. split; [|apply Hb; exact Hin].
          apply Rms_refl. intros ma Hma. exact (Hab ec ma Hin Hma). }
      exact (proj2 (proj2 HR)).
    Qed.

    Lemma pow_multiset : forall d n thr,
      (0 <= n < 2 ^ 31)%Z -> okd d ->
      Permutation (filter (keep thr) (convolve_pow N 64 d n thr))
                  (filter (keep thr) (naive_pow N d (Z.to_nat n))).
    Proof.
      intros d n thr Hn Ho.
      assert (HR : Rms thr (convolve_pow N 64 d n thr) (naive_pow N d (Z.to_nat n))).
      { apply (pow_gen thr (Rms thr)).
        - apply Rms_unit.
        - apply Rms_conv.
        - apply Rms_perm.
        - apply Rms_refl. exact Ho.
        - exact Hn. }
      exact (proj2 (proj2 HR)).
    Qed.

    (* satisfiable replacements for the hypothesis [forall x, ltb N x thr = false]: the threshold is at or
       below every probability of the expansion *)
    Lemma all_expansion_below : forall c thr,
      c <> [] -> (forall ec, In ec c -> (0 <= snd ec < 2 ^ 31)%Z) -> abundances_ok N c ->
      (forall x, In x (naive_all N c) -> leb N thr (snd x) = true) ->
      Permutation (conv_all N c thr) (naive_all N c).
    Proof.
      intros c thr Hne Hb Hab Hall.
      pose proof (all_multiset c thr Hne Hb Hab) as H.
      rewrite (filter_all (keep thr) (naive_all N c)) in H by exact Hall.
      rewrite (filter_all (keep thr) (conv_all N c thr)) in H; [exact H|].
      intros x Hx. apply Hall. exact (no_junk c thr x Hne Hb Hx).
    Qed.

    Lemma pow_expansion_below : forall d n thr,
      (0 <= n < 2 ^ 31)%Z -> okd d ->
      (forall x, In x (naive_pow N d (Z.to_nat n)) -> leb N thr (snd x) = true) ->
      Permutation (convolve_pow N 64 d n thr) (naive_pow N d (Z.to_nat n)).
    Proof.
      intros d n thr Hn Ho Hall.
      pose proof (pow_multiset d n thr Hn Ho) as H.
      rewrite (filter_all (keep thr) (naive_pow N d (Z.to_nat n))) in H by exact Hall.
      rewrite (filter_all (keep thr) (convolve_pow N 64 d n thr)) in H; [exact H|].
      intros x Hx. apply Hall. exact (pow_no_junk d n thr x Hn Hx).
    Qed.

    (* in particular a threshold <= 0 prunes nothing *)
    Lemma all_expansion_nonpos : forall c thr,
      c <> [] -> (forall ec, In ec c -> (0 <= snd ec < 2 ^ 31)%Z) -> abundances_ok N c ->
      leb N thr 0 = true -> Permutation (conv_all N c thr) (naive_all N c).
    Proof.
      intros c thr Hne Hb Hab Ht. apply all_expansion_below; try assumption.
      intros x Hx. apply (of_le_trans N OF _ 0); [exact Ht|].
      apply lt_le. exact (proj1 (naive_all_okd c Hne Hb Hab x Hx)).
    Qed.
  End WithField.
End ConvProofs.
