(* Proofs for C13 / C14: the peak-pattern transformations. *)
From Coq Require Import ZArith List Bool Arith Lia Field Ring Field_theory Ring_theory QArith Qcanon.
From CE Require Import Num OField Peak PeakSpec NumQc OFieldQc.
Import ListNotations.
Close Scope Qc_scope. Close Scope Q_scope.

(* ------------------------------------------------------------------------------------------ *)
(* Structural facts: hold for every numeric interpretation.                                     *)
Section GenericProofs.
  Context {F : Type} (N : Num F).
  Notation tip := (tip (F:=F)).
  Notation peak := (peak (F:=F)).

  Lemma shift_spec : forall (p : tip) off,
    peaks (shift N p off) = map (fun q => mkPeak (add N (mz q) off) (inten q)) (peaks p)
    /\ origin (shift N p off) = add N (origin p) off
    /\ clone_shifted N p off = shift N p off.
  Proof. intros p off. repeat split. Qed.

  Lemma scale_by_spec : forall (p : tip) f,
    peaks (scale_by N p f) = map (fun q => mkPeak (mz q) (mul N (inten q) f)) (peaks p)
    /\ origin (scale_by N p f) = origin p.
  Proof. intros p f. split; reflexivity. Qed.

  Lemma normalize_shape : forall (p : tip),
    map mz (peaks (normalize N p)) = map mz (peaks p) /\ origin (normalize N p) = origin p
    /\ map inten (peaks (normalize N p))
       = map (fun x => mul N x (div N (one N) (total N p))) (map inten (peaks p)).
  Proof.
    intros p. unfold normalize, scale_by. cbn [peaks origin].
    repeat split.
    - rewrite map_map. apply map_ext. intros q. reflexivity.
    - rewrite !map_map. apply map_ext. intros q. reflexivity.
  Qed.

  (* ---- truncate_after ---- *)
  Lemma trunc_scan_hit : forall t (l : list peak) i tot dflt k,
    k < length l ->
    geb N (nth k (run_sums N (map inten l) tot) (zero N)) t = true ->
    (forall j, j < k -> geb N (nth j (run_sums N (map inten l) tot) (zero N)) t = false) ->
    fst (trunc_scan N t l i tot dflt) = i + k.
  Proof.
    intros t l. induction l as [|q r IH]; intros i tot dflt k Hk Hhit Hmiss.
    - cbn in Hk. lia.
    - cbn [trunc_scan map run_sums] in *.
      destruct k as [|k'].
      + cbn [nth] in Hhit. rewrite Hhit. cbn [fst]. lia.
      + assert (H0 : geb N (add N tot (inten q)) t = false).
        { apply (Hmiss 0). lia. }
        rewrite H0. rewrite (IH (S i) (add N tot (inten q)) dflt k').
        * lia.
        * cbn [length] in Hk. lia.
        * exact Hhit.
        * intros j Hj. apply (Hmiss (S j)). lia.
  Qed.

  Lemma trunc_scan_miss : forall t (l : list peak) i tot dflt,
    (forall j, j < length l -> geb N (nth j (run_sums N (map inten l) tot) (zero N)) t = false) ->
    fst (trunc_scan N t l i tot dflt) = dflt.
  Proof.
    intros t l. induction l as [|q r IH]; intros i tot dflt Hmiss.
    - reflexivity.
    - cbn [trunc_scan map run_sums] in *.
      assert (H0 : geb N (add N tot (inten q)) t = false).
      { apply (Hmiss 0). cbn [length]. lia. }
      rewrite H0. apply IH. intros j Hj. apply (Hmiss (S j)). cbn [length]. lia.
  Qed.

  Lemma firstn_S_pred_all : forall (A : Type) (l : list A), firstn (S (Nat.pred (length l))) l = l.
  Proof.
    intros A l. destruct l as [|a r].
    - reflexivity.
    - cbn [length Nat.pred]. change (a :: r) with ([a] ++ r) at 1.
      cbn [firstn app]. f_equal. apply firstn_all.
  Qed.

  Lemma truncate_after_spec : forall (p : tip) t,
    (forall k, k < length (peaks p) -> reaches N p t k = true -> (forall j, j < k -> reaches N p t j = false) ->
       truncate_after N p t = normalize N (mkTip (firstn (S k) (peaks p)) (origin p)))
    /\ ((forall j, j < length (peaks p) -> reaches N p t j = false) ->
       truncate_after N p t = normalize N (mkTip (peaks p) (origin p))).
  Proof.
    intros p t. unfold reaches, cums. split.
    - intros k Hk Hhit Hmiss. unfold truncate_after.
      pose proof (trunc_scan_hit t (peaks p) 0 (zero N) (Nat.pred (length (peaks p))) k Hk Hhit Hmiss) as H.
      destruct (trunc_scan N t (peaks p) 0 (zero N) (Nat.pred (length (peaks p)))) as [stop tot].
      cbn [fst] in H. subst stop. reflexivity.
    - intros Hmiss. unfold truncate_after.
      pose proof (trunc_scan_miss t (peaks p) 0 (zero N) (Nat.pred (length (peaks p))) Hmiss) as H.
      destruct (trunc_scan N t (peaks p) 0 (zero N) (Nat.pred (length (peaks p)))) as [stop tot].
      cbn [fst] in H. subst stop. rewrite firstn_S_pred_all. reflexivity.
  Qed.

  Lemma ignore_below_spec : forall (p : tip) t,
    ignore_below N p t = normalize N (mkTip (filter (fun q => leb N t (inten q)) (peaks p)) (origin p))
    /\ (forall q, In q (filter (fun q => leb N t (inten q)) (peaks p)) <-> In q (peaks p) /\ leb N t (inten q) = true).
  Proof.
    intros p t. split.
    - reflexivity.
    - intros q. apply filter_In.
  Qed.

  (* ---- C14 structural ---- *)
  Lemma drop_last_spec : forall (p : tip),
    clone_drop_last N p = normalize N (mkTip (removelast (peaks p)) (origin p)).
  Proof. reflexivity. Qed.

  Lemma slice_spec : forall (p : tip) a b,
    (a <= b <= length (peaks p) ->
       slice_normalized N p a b = Ok (normalize N (mkTip (firstn (b - a) (skipn a (peaks p))) (origin p))))
    /\ (~ (a <= b <= length (peaks p)) -> slice_normalized N p a b = Panic).
  Proof.
    intros p a b. unfold slice_normalized. split.
    - intros [H1 H2]. apply Nat.leb_le in H1, H2. rewrite H1, H2. reflexivity.
    - intros H. destruct (Nat.leb a b) eqn:E1; [|reflexivity].
      destruct (Nat.leb b (length (peaks p))) eqn:E2; [|reflexivity].
      exfalso. apply H. apply Nat.leb_le in E1, E2. split; assumption.
  Qed.

  Lemma incr_iter_spec : forall (tmpl : tip) cum thr index,
    exists m, m <= index /\
      incr_iter N tmpl cum thr index
        = map (fun k => normalize N (mkTip (firstn k (peaks tmpl)) (origin tmpl))) (down_from (S index) m)
      /\ (forall k, In k (down_from (S index) m) -> 2 <= k /\ gtb N (nth (k - 1) cum (zero N)) thr = true)
      /\ (S index - m < 2 \/ gtb N (nth (S index - m - 1) cum (zero N)) thr = false).
  Proof.
    intros tmpl cum thr index. induction index as [|i IH].
    - exists 0. cbn [incr_iter down_from map]. split; [lia|]. split; [reflexivity|]. split.
      + intros k Hk. destruct Hk.
      + left. lia.
    - destruct IH as [m [Hm [Heq [Hin Hend]]]].
      cbn [incr_iter].
      destruct (gtb N (nth (S i) cum (zero N)) thr) eqn:E.
      + exists (S m). split; [lia|]. split; [|split].
        * cbn [down_from map Nat.pred]. rewrite Heq. reflexivity.
        * intros k Hk. cbn [down_from Nat.pred] in Hk. destruct Hk as [Hk|Hk].
          -- subst k. split; [lia|]. replace (S (S i) - 1) with (S i) by lia. exact E.
          -- apply Hin. exact Hk.
        * replace (S (S i) - S m) with (S i - m) by lia. exact Hend.
      + exists 0. split; [lia|]. split; [|split].
        * reflexivity.
        * intros k Hk. destruct Hk.
        * right. replace (S (S i) - 0 - 1) with (S i) by lia. exact E.
  Qed.

  Lemma incremental_spec : forall (p : tip) t,
    let np := normalize N p in
    let n := length (peaks np) in
    exists m, m <= n /\
      incremental_truncation N p t
        = map (fun k => normalize N (mkTip (firstn k (peaks np)) (origin np))) (down_from n m)
      /\ (forall k, In k (down_from n m) -> 2 <= k /\ gtb N (nth (k - 1) (cums_iter N np) (zero N)) t = true)
      /\ (n - m < 2 \/ gtb N (nth (n - m - 1) (cums_iter N np) (zero N)) t = false).
  Proof.
    intros p t np n. unfold incremental_truncation, cums_iter. fold np. fold n.
    destruct n as [|n'] eqn:En.
    - exists 0. cbn [Nat.pred incr_iter down_from map]. split; [lia|]. split; [reflexivity|]. split.
      + intros k Hk. destruct Hk.
      + left. lia.
    - cbn [Nat.pred].
      destruct (incr_iter_spec np (cumul N (peaks np) None) t n') as [m [Hm H]].
      exists m. split; [lia|]. exact H.
  Qed.

  Lemma zip_all_spec : forall (l1 l2 : list peak), length l1 = length l2 ->
    (zip_all N l1 l2 = true <-> Forall2 (fun x y => peak_eq N x y = true) l1 l2).
  Proof.
    intros l1. induction l1 as [|a r1 IH]; intros l2 Hlen; destruct l2 as [|b r2]; cbn [length] in Hlen; try discriminate.
    - cbn [zip_all]. split; [intros _; constructor|reflexivity].
    - cbn [zip_all]. rewrite andb_true_iff. split.
      + intros [H1 H2]. constructor; [exact H1|]. apply IH; [lia|exact H2].
      + intros H. inversion H as [|x y l l' H1 H2]; subst. split; [exact H1|]. apply IH; [lia|exact H2].
  Qed.

  Lemma tip_eq_spec : forall (a b : tip),
    tip_eq N a b = true <->
    length (peaks a) = length (peaks b) /\ Forall2 (fun x y => peak_eq N x y = true) (peaks a) (peaks b).
  Proof.
    intros a b. unfold tip_eq. rewrite andb_true_iff, Nat.eqb_eq. split.
    - intros [H1 H2]. split; [exact H1|]. apply zip_all_spec; assumption.
    - intros [H1 H2]. split; [exact H1|]. apply zip_all_spec; assumption.
  Qed.
End GenericProofs.

(* ------------------------------------------------------------------------------------------ *)
(* Exact arithmetic: the laws that need an ordered field.                                       *)
Section ExactProofs.
  Context {F : Type} (N : Num F).
  Hypothesis OF : OField N.
  Notation tip := (tip (F:=F)).
  Notation peak := (peak (F:=F)).

  Add Field Ff : (of_field N OF).

  (* ---- sums ---- *)
  Lemma fold_add_acc : forall (l : list F) a,
    fold_left (add N) l a = add N a (fold_left (add N) l (zero N)).
  Proof.
    intros l. induction l as [|x r IH]; intros a.
    - cbn [fold_left]. ring.
    - cbn [fold_left]. rewrite (IH (add N a x)). rewrite (IH (add N (zero N) x)). ring.
  Qed.

  Lemma fsum_nil : fsum N [] = zero N.
  Proof. unfold fsum. cbn [fold_left]. apply (of_sum0 N OF). Qed.

  Lemma fsum_cons : forall x (r : list F), fsum N (x :: r) = add N x (fsum N r).
  Proof.
    intros x r. unfold fsum. rewrite (of_sum0 N OF). cbn [fold_left].
    rewrite fold_add_acc. ring.
  Qed.

  Lemma fsum_fold : forall (l : list F), fold_left (add N) l (zero N) = fsum N l.
  Proof. intros l. unfold fsum. rewrite (of_sum0 N OF). reflexivity. Qed.

  Lemma fsum_scale : forall c (l : list F),
    fsum N (map (fun x => mul N x c) l) = mul N (fsum N l) c.
  Proof.
    intros c l. induction l as [|x r IH].
    - cbn [map]. rewrite fsum_nil. ring.
    - cbn [map]. rewrite !fsum_cons. rewrite IH. ring.
  Qed.

  Lemma nth_scale : forall c (l : list F) i,
    nth i (map (fun x => mul N x c) l) (zero N) = mul N (nth i l (zero N)) c.
  Proof.
    intros c l. induction l as [|x r IH]; intros i.
    - destruct i; cbn [map nth]; ring.
    - destruct i as [|i']; cbn [map nth]; [reflexivity|apply IH].
  Qed.

  Lemma ints_normalize : forall (p : tip),
    map inten (peaks (normalize N p))
    = map (fun x => mul N x (div N (one N) (total N p))) (map inten (peaks p)).
  Proof. intros p. apply (normalize_shape N p). Qed.

  Lemma normalize_sum : forall (p : tip),
    total N p <> zero N -> total N (normalize N p) = one N.
  Proof.
    intros p Hp. unfold total at 1. rewrite ints_normalize. rewrite fsum_scale.
    fold (total N p). field. exact Hp.
  Qed.

  Lemma normalize_ratio : forall (p : tip) i j,
    total N p <> zero N ->
    mul N (nth i (map inten (peaks (normalize N p))) (zero N)) (nth j (map inten (peaks p)) (zero N))
    = mul N (nth j (map inten (peaks (normalize N p))) (zero N)) (nth i (map inten (peaks p)) (zero N)).
  Proof.
    intros p i j _. rewrite ints_normalize. rewrite !nth_scale. ring.
  Qed.

  (* ---- order ---- *)
  Lemma flt_leb_false : forall a b, flt N a b -> leb N b a = false.
  Proof.
    intros a b H. unfold flt in H. rewrite (of_ltb_def N OF) in H.
    destruct (leb N b a); [discriminate H|reflexivity].
  Qed.

  Lemma leb_false_flt : forall a b, leb N b a = false -> flt N a b.
  Proof. intros a b H. unfold flt. rewrite (of_ltb_def N OF). rewrite H. reflexivity. Qed.

  Lemma flt_fle : forall a b, flt N a b -> fle N a b.
  Proof.
    intros a b H. apply flt_leb_false in H.
    destruct (of_le_total N OF a b) as [H1|H1]; [exact H1|].
    unfold fle in H1. rewrite H1 in H. discriminate H.
  Qed.

  Lemma flt_neq : forall a b, flt N a b -> b <> a.
  Proof.
    intros a b H E. apply flt_leb_false in H. subst b.
    pose proof (of_le_refl N OF a) as R. unfold fle in R. rewrite R in H. discriminate H.
  Qed.

  Lemma add_pos : forall x acc, flt N (zero N) x -> fle N (zero N) acc -> flt N (zero N) (add N x acc).
  Proof.
    intros x acc Hx Hacc. apply leb_false_flt.
    destruct (leb N (add N x acc) (zero N)) eqn:E; [|reflexivity].
    exfalso. apply flt_leb_false in Hx.
    assert (H1 : fle N (add N (zero N) x) (add N acc x)) by (apply (of_add_le N OF); exact Hacc).
    replace (add N (zero N) x) with x in H1 by ring.
    replace (add N acc x) with (add N x acc) in H1 by ring.
    assert (H2 : fle N x (zero N)) by (eapply (of_le_trans N OF); [exact H1|exact E]).
    unfold fle in H2. rewrite H2 in Hx. discriminate Hx.
  Qed.

  Lemma fle_mul_r : forall a b c, fle N a b -> fle N (zero N) c -> fle N (mul N a c) (mul N b c).
  Proof.
    intros a b c Hab Hc.
    assert (H1 : fle N (add N a (opp N a)) (add N b (opp N a))) by (apply (of_add_le N OF); exact Hab).
    replace (add N a (opp N a)) with (zero N) in H1 by ring.
    assert (H2 : fle N (zero N) (mul N (add N b (opp N a)) c)) by (apply (of_mul_nonneg N OF); assumption).
    assert (H3 : fle N (add N (zero N) (mul N a c)) (add N (mul N (add N b (opp N a)) c) (mul N a c)))
      by (apply (of_add_le N OF); exact H2).
    replace (add N (zero N) (mul N a c)) with (mul N a c) in H3 by ring.
    replace (add N (mul N (add N b (opp N a)) c) (mul N a c)) with (mul N b c) in H3 by ring.
    exact H3.
  Qed.

  Lemma leb_mul_pos : forall a b T, flt N (zero N) T -> leb N a b = leb N (mul N a T) (mul N b T).
  Proof.
    intros a b T HT.
    pose proof (flt_fle _ _ HT) as HT0. pose proof (flt_neq _ _ HT) as HTn.
    destruct (leb N a b) eqn:E.
    - symmetry. apply fle_mul_r; assumption.
    - destruct (leb N (mul N a T) (mul N b T)) eqn:E2; [|reflexivity].
      exfalso.
      assert (Hba : fle N b a).
      { destruct (of_le_total N OF a b) as [H|H]; [unfold fle in H; rewrite H in E; discriminate E|exact H]. }
      assert (H3 : fle N (mul N b T) (mul N a T)) by (apply fle_mul_r; assumption).
      assert (H4 : mul N a T = mul N b T) by (apply (of_le_antisym N OF); assumption).
      assert (H5 : a = b).
      { replace a with (mul N (mul N a T) (div N (one N) T)) by (field; exact HTn).
        rewrite H4. field. exact HTn. }
      subst b. pose proof (of_le_refl N OF a) as R. unfold fle in R. rewrite R in E. discriminate E.
  Qed.

  Lemma fsum_nonneg : forall (l : list F), (forall x, In x l -> flt N (zero N) x) -> fle N (zero N) (fsum N l).
  Proof.
    intros l. induction l as [|x r IH]; intros H.
    - rewrite fsum_nil. apply (of_le_refl N OF).
    - rewrite fsum_cons. apply flt_fle. apply add_pos.
      + apply H. left. reflexivity.
      + apply IH. intros y Hy. apply H. right. exact Hy.
  Qed.

  Lemma fsum_pos : forall (l : list F), l <> [] -> (forall x, In x l -> flt N (zero N) x) -> flt N (zero N) (fsum N l).
  Proof.
    intros l Hne H. destruct l as [|x r]; [exfalso; apply Hne; reflexivity|].
    rewrite fsum_cons. apply add_pos.
    - apply H. left. reflexivity.
    - apply fsum_nonneg. intros y Hy. apply H. right. exact Hy.
  Qed.

  Lemma total_pos : forall (l : list peak) o, l <> [] -> (forall q, In q l -> flt N (zero N) (inten q)) ->
    flt N (zero N) (total N (mkTip l o)).
  Proof.
    intros l o Hne H. unfold total. cbn [peaks]. apply fsum_pos.
    - destruct l; [exfalso; apply Hne; reflexivity|discriminate].
    - intros x Hx. apply in_map_iff in Hx. destruct Hx as [q [Hq1 Hq2]]. subst x. apply H. exact Hq2.
  Qed.

  Lemma In_firstn : forall (A : Type) n (l : list A) x, In x (firstn n l) -> In x l.
  Proof.
    intros A n. induction n as [|n IH]; intros l x H.
    - destruct H.
    - destruct l as [|a r]; [destruct H|]. cbn [firstn] in H. destruct H as [H|H]; [left; exact H|right; apply IH; exact H].
  Qed.

  Lemma truncate_sum : forall (p : tip) t,
    positive N p -> peaks p <> [] -> total N (truncate_after N p t) = one N.
  Proof.
    intros p t Hpos Hne. unfold truncate_after.
    destruct (trunc_scan N t (peaks p) 0 (zero N) (Nat.pred (length (peaks p)))) as [stop tot].
    apply normalize_sum. apply flt_neq. apply total_pos.
    - destruct (peaks p) as [|q r]; [exfalso; apply Hne; reflexivity|]. cbn [firstn]. discriminate.
    - intros q Hq. apply Hpos. eapply In_firstn. exact Hq.
  Qed.

  Lemma ignore_sum : forall (p : tip) t,
    positive N p -> (exists q, In q (peaks p) /\ leb N t (inten q) = true) -> total N (ignore_below N p t) = one N.
  Proof.
    intros p t Hpos [q [Hq1 Hq2]]. unfold ignore_below.
    apply normalize_sum. apply flt_neq. apply total_pos.
    - intros E. assert (Hin : In q (filter (fun q => geb N (inten q) t) (peaks p))).
      { apply filter_In. split; [exact Hq1|exact Hq2]. }
      rewrite E in Hin. destruct Hin.
    - intros q' Hq'. apply filter_In in Hq'. apply Hpos. apply Hq'.
  Qed.

  Lemma peak_eq_spec : forall (x y : peak),
    peak_eq N x y = true <->
    fle N (abs N (sub N (mz x) (mz y))) (tol N) /\ fle N (abs N (sub N (inten x) (inten y))) (tol N).
  Proof.
    intros x y. unfold peak_eq, gtb, fle. rewrite !(of_ltb_def N OF).
    destruct (leb N (abs N (sub N (mz x) (mz y))) (tol N));
      destruct (leb N (abs N (sub N (inten x) (inten y))) (tol N)); cbn [negb orb]; split; intros H.
    - split; reflexivity.
    - reflexivity.
    - discriminate H.
    - destruct H as [_ H]. discriminate H.
    - discriminate H.
    - destruct H as [H _]. discriminate H.
    - discriminate H.
    - destruct H as [H _]. discriminate H.
  Qed.
  (* ---- the fused operation ---- *)
  Definition scl (c : F) (q : peak) : peak := mkPeak (mz q) (mul N (inten q) c).
  Definition shf (sh : F) (q : peak) : peak := mkPeak (add N (mz q) sh) (inten q).

  Lemma trunc_scan_tot : forall t (l : list peak) i tot dflt stop tot',
    trunc_scan N t l i tot dflt = (stop, tot') ->
    (stop = dflt /\ tot' = fold_left (add N) (map inten l) tot)
    \/ (exists k, stop = i + k /\ k < length l /\ tot' = fold_left (add N) (map inten (firstn (S k) l)) tot).
  Proof.
    intros t l. induction l as [|q r IH]; intros i tot dflt stop tot' H.
    - cbn [trunc_scan] in H. inversion H; subst. left. split; reflexivity.
    - cbn [trunc_scan] in H. destruct (geb N (add N tot (inten q)) t).
      + inversion H; subst. right. exists 0. split; [lia|]. split; [cbn [length]; lia|]. reflexivity.
      + apply IH in H. destruct H as [[H1 H2]|[k [H1 [H2 H3]]]].
        * left. split; [exact H1|]. exact H2.
        * right. exists (S k). split; [lia|]. split; [cbn [length]; lia|]. exact H3.
  Qed.

  Lemma trunc_scan_total : forall t (l : list peak) stop tot,
    trunc_scan N t l 0 (zero N) (Nat.pred (length l)) = (stop, tot) ->
    tot = fsum N (map inten (firstn (S stop) l)).
  Proof.
    intros t l stop tot H. apply trunc_scan_tot in H.
    destruct H as [[H1 H2]|[k [H1 [H2 H3]]]].
    - subst stop. rewrite (firstn_S_pred_all peak l). rewrite <- fsum_fold. exact H2.
    - cbn [Nat.add] in H1. subst k. rewrite <- fsum_fold. exact H3.
  Qed.

  Lemma fused_filter_spec : forall thr sh (l : list peak) tot,
    fused_filter N thr sh l tot
    = (map (shf sh) (filter (fun q => geb N (inten q) thr) l),
       sub N tot (fsum N (map inten (filter (fun q => negb (geb N (inten q) thr)) l)))).
  Proof.
    intros thr sh l. induction l as [|q r IH]; intros tot.
    - cbn [fused_filter filter map]. rewrite fsum_nil. f_equal. ring.
    - cbn [fused_filter filter]. destruct (geb N (inten q) thr); cbn [negb].
      + rewrite IH. reflexivity.
      + rewrite IH. cbn [map]. rewrite fsum_cons. f_equal. ring.
  Qed.

  Lemma fsum_filter_split : forall (f : peak -> bool) (l : list peak),
    fsum N (map inten l)
    = add N (fsum N (map inten (filter f l))) (fsum N (map inten (filter (fun q => negb (f q)) l))).
  Proof.
    intros f l. induction l as [|q r IH].
    - cbn [filter map]. rewrite fsum_nil. ring.
    - cbn [filter map]. destruct (f q); cbn [negb map]; rewrite !fsum_cons; rewrite IH; ring.
  Qed.

  Lemma filter_scl : forall (g f : peak -> bool) c (l : list peak),
    (forall q, In q l -> g (scl c q) = f q) ->
    filter g (map (scl c) l) = map (scl c) (filter f l).
  Proof.
    intros g f c l. induction l as [|q r IH]; intros H.
    - reflexivity.
    - cbn [map filter]. rewrite (H q (or_introl eq_refl)).
      rewrite IH by (intros q' Hq'; apply H; right; exact Hq').
      destruct (f q); reflexivity.
  Qed.

  Lemma fsum_scl : forall c (l : list peak),
    fsum N (map inten (map (scl c) l)) = mul N (fsum N (map inten l)) c.
  Proof.
    intros c l. rewrite map_map. rewrite <- fsum_scale. rewrite map_map. reflexivity.
  Qed.

  Lemma fused_core : forall (K : list peak) o t2 sh,
    K <> [] -> (forall q, In q K -> flt N (zero N) (inten q)) ->
    peaks (let '(acc, tot') := fused_filter N (mul N t2 (fsum N (map inten K))) sh K (fsum N (map inten K)) in
           mkTip (map (fun q => mkPeak (mz q) (div N (inten q) tot')) acc) o)
    = peaks (shift N (ignore_below N (normalize N (mkTip K o)) t2) sh).
  Proof.
    intros K o t2 sh Hne Hpos.
    rewrite fused_filter_spec. cbn [peaks].
    unfold shift, ignore_below, normalize, scale_by, total. cbn [peaks origin].
    set (T := fsum N (map inten K)).
    assert (HT : flt N (zero N) T).
    { apply (total_pos K o Hne Hpos). }
    pose proof (flt_neq _ _ HT) as HTn.
    set (c := div N (one N) T).
    change (fun q : peak => mkPeak (mz q) (mul N (inten q) c)) with (scl c).
    set (f := fun q : peak => geb N (inten q) (mul N t2 T)).
    rewrite (filter_scl (fun q => geb N (inten q) t2) f c K).
    2:{ intros q _. unfold f, scl, geb. cbn [inten].
        rewrite (leb_mul_pos t2 (mul N (inten q) c) T HT).
        f_equal. unfold c. field. exact HTn. }
    rewrite fsum_scl.
    assert (Htot : sub N T (fsum N (map inten (filter (fun q => negb (f q)) K))) = fsum N (map inten (filter f K))).
    { unfold T. rewrite (fsum_filter_split f K) at 1. ring. }
    change (fun q : peak => negb (geb N (inten q) (mul N t2 T))) with (fun q => negb (f q)).
    rewrite Htot.
    assert (HKK : forall q, In q (filter f K) -> flt N (zero N) (inten q)).
    { intros q Hq. apply filter_In in Hq. apply Hpos. apply Hq. }
    destruct (filter f K) as [|q0 r0] eqn:EK.
    - reflexivity.
    - set (S := fsum N (map inten (q0 :: r0))).
      assert (HS : flt N (zero N) S).
      { apply (total_pos (q0 :: r0) o); [discriminate|exact HKK]. }
      pose proof (flt_neq _ _ HS) as HSn.
      rewrite !map_map. apply map_ext. intros q.
      unfold shf, scl. cbn [mz inten]. f_equal.
      unfold c. field. split; assumption.
  Qed.

  Lemma fused_stepwise : forall (p : tip) t1 t2 sh,
    positive N p -> peaks p <> [] ->
    peaks (fused N p t1 t2 sh) = peaks (shift N (ignore_below N (truncate_after N p t1) t2) sh).
  Proof.
    intros p t1 t2 sh Hpos Hne. unfold fused, truncate_after.
    destruct (trunc_scan N t1 (peaks p) 0 (zero N) (Nat.pred (length (peaks p)))) as [stop tot] eqn:E.
    apply trunc_scan_total in E. subst tot.
    apply fused_core.
    - destruct (peaks p) as [|q r]; [exfalso; apply Hne; reflexivity|]. cbn [firstn]. discriminate.
    - intros q Hq. apply Hpos. eapply In_firstn. exact Hq.
  Qed.
End ExactProofs.

(* ------------------------------------------------------------------------------------------ *)
(* Non-vacuity witnesses over the canonical rationals.                                          *)
Definition ex_tip : tip (F:=Qc) :=
  mkTip [mkPeak (Qc_of_Z 100) (Qc_of_Z 3); mkPeak (Qc_of_Z 101) (Qc_of_Z 2); mkPeak (Qc_of_Z 102) (Qc_of_Z 1)] (Qc_of_Z 100).

Lemma ex_tip_positive : positive NumQc ex_tip.
Proof.
  intros q Hq. cbn [ex_tip peaks In] in Hq.
  destruct Hq as [<-|[<-|[<-|[]]]]; vm_compute; reflexivity.
Qed.

Lemma C13_example :
  OField NumQc /\
  let p := mkTip [mkPeak (Qc_of_Z 100) (Qc_of_Z 3); mkPeak (Qc_of_Z 101) (Qc_of_Z 2); mkPeak (Qc_of_Z 102) (Qc_of_Z 1)] (Qc_of_Z 100) in
  positive NumQc p /\ length (peaks (truncate_after NumQc p (Qc_of_Z 4))) = 2 /\ total NumQc (truncate_after NumQc p (Qc_of_Z 4)) = one NumQc.
Proof.
  split; [exact NumQc_OField|]. fold ex_tip. cbv zeta. split; [exact ex_tip_positive|]. split.
  - vm_compute. reflexivity.
  - apply (truncate_sum NumQc NumQc_OField); [exact ex_tip_positive|discriminate].
Qed.

Lemma C14_example :
  OField NumQc /\
  let p := mkTip [mkPeak (Qc_of_Z 100) (Qc_of_Z 3); mkPeak (Qc_of_Z 101) (Qc_of_Z 2); mkPeak (Qc_of_Z 102) (Qc_of_Z 1)] (Qc_of_Z 100) in
  positive NumQc p /\ length (incremental_truncation NumQc p (Qc_of_Z 0)) = 2
  /\ length (peaks (fused NumQc p (Qc_of_Z 4) (Qc_of_Z 0) (Qc_of_Z 1))) = 2.
Proof.
  split; [exact NumQc_OField|]. fold ex_tip. cbv zeta. split; [exact ex_tip_positive|]. split.
  - vm_compute. reflexivity.
  - vm_compute. reflexivity.
Qed.
