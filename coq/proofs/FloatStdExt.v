(* Coq's primitive binary64 floats satisfy the extended standard model of rounding (subtraction, exact conversion of
   integers up to 2^53 in magnitude, exact absolute value and negation), and the instance of inverse_rounded at binary64. *)
From Coq Require Import ZArith List Bool Reals Floats Uint63 Lra Lia.
From Flocq Require Import Core.Core IEEE754.BinarySingleNaN IEEE754.PrimFloat Relative Plus_error.
From CE Require Import Num OField Mz Rounded RoundedExt NumFloat NumFloat64 Float64Std MzRoundedSpec RoundedProofs FloatStd
  MzRounded.
Import ListNotations.

Local Open Scope R_scope.

Notation fexp64 := (FLT_exp (-1074) 53) (only parsing).

(* ---------- subtraction ---------- *)

Lemma binary64_sub : forall a b, fin64 a = true -> fin64 b = true -> fin64 (a - b)%float = true ->
  within NumRR u64 (v64 a - v64 b) (v64 (a - b)%float).
Proof.
  intros a b Fa Fb Fr. rewrite fin64_is_finite in Fa, Fb, Fr.
  assert (Ga := v64_format a). assert (Gb := generic_format_opp _ _ _ (v64_format b)).
  unfold v64 in *. rewrite sub_equiv in *.
  generalize (Bminus_correct prec emax Hprec Hmax mode_NE (Prim2B a) (Prim2B b) Fa Fb).
  case Rlt_bool.
  - intros (E & _). rewrite E. apply within_RR. unfold Rminus.
    destruct (@FLT_plus_error_N_ex radix2 (-1074) 53 (eq_refl _) (fun x => negb (Z.even x)) _ _ Ga Gb) as (d & Hd & Ed).
    exists d. split; [| exact Ed].
    apply (Rle_trans _ _ _ Hd). rewrite u64_u_ro. apply u_rod1pu_ro_le_u_ro.
  - intros (E & _). apply overflow_not_finite in E. congruence.
Qed.

(* ---------- negation and absolute value ---------- *)

Lemma v64_opp : forall x, v64 (- x)%float = - v64 x.
Proof. intros x. unfold v64. rewrite opp_equiv. apply B2R_Bopp. Qed.

Lemma fin64_opp : forall x, fin64 (- x)%float = fin64 x.
Proof. intros x. rewrite !fin64_is_finite, opp_equiv. apply is_finite_Bopp. Qed.

(* ---------- integers of magnitude at most 2^53 convert exactly ---------- *)

Lemma IZR_format64 : forall z : Z, (0 <= z <= 2 ^ 53)%Z -> generic_format radix2 fexp64 (IZR z).
Proof.
  intros z Hz. destruct (Z.eq_dec z (2 ^ 53)) as [->|Hn].
  - change (IZR (2 ^ 53)) with (IZR (Zpower radix2 53)). rewrite IZR_Zpower by lia.
    apply generic_format_FLT_bpow; [easy | lia].
  - apply generic_format_FLT. apply (FLT_spec _ _ _ _ (Float radix2 z 0)).
    + unfold F2R. simpl. lra.
    + simpl Fnum. change (Zpower radix2 53) with (2 ^ 53)%Z. lia.
    + simpl. lia.
Qed.

Lemma of_uint63_exact : forall z : Z, (0 <= z <= 2 ^ 53)%Z ->
  v64 (of_uint63 (Uint63.of_Z z)) = IZR z /\ fin64 (of_uint63 (Uint63.of_Z z)) = true.
Proof.
  intros z Hz. rewrite fin64_is_finite. unfold v64. rewrite of_int63_equiv.
  assert (Ez : Uint63.to_Z (Uint63.of_Z z) = z).
  { rewrite Uint63.of_Z_spec. apply Z.mod_small. change Uint63.wB with (2 ^ 63)%Z. lia. }
  rewrite Ez.
  assert (Er : round radix2 fexp64 (round_mode mode_NE) (F2R (Float radix2 z 0)) = IZR z).
  { replace (F2R (Float radix2 z 0)) with (IZR z) by (unfold F2R; simpl; lra).
    apply round_generic; [apply valid_rnd_N | now apply IZR_format64]. }
  generalize (binary_normalize_correct prec emax Hprec Hmax mode_NE z 0 false). cbn zeta.
  change (SpecFloat.fexp prec emax) with fexp64.
  rewrite Er. rewrite Rlt_bool_true.
  - intros (E1 & E2 & _). split; assumption.
  - rewrite Rabs_pos_eq by (apply IZR_le; lia).
    apply (Rle_lt_trans _ (IZR (2 ^ 53))); [apply IZR_le; lia|].
    change (IZR (2 ^ 53)) with (IZR (Zpower radix2 53)). rewrite IZR_Zpower by lia.
    apply bpow_lt. reflexivity.
Qed.

Lemma f_of_Z_exact : forall z : Z, (Z.abs z <= 2 ^ 53)%Z ->
  v64 (f_of_Z z) = IZR z /\ fin64 (f_of_Z z) = true.
Proof.
  intros z Hz. unfold f_of_Z. destruct (Z.ltb_spec z 0) as [Hn|Hp].
  - destruct (of_uint63_exact (- z)) as [E1 E2]; [lia|].
    rewrite v64_opp, fin64_opp, E1, opp_IZR. split; [lra | exact E2].
  - apply of_uint63_exact. lia.
Qed.

(* ---------- the extended standard model ---------- *)

Lemma binary64_std_model_ext : StdModelExt NumF NumRR v64 u64 fin64 nrm64.
Proof.
  constructor; simpl.
  - exact binary64_std_model.
  - exact binary64_sub.
  - exact f_of_Z_exact.
  - intros a Fa. split; [apply v64_abs | now rewrite fin64_abs].
  - intros a Fa. split; [apply v64_opp | now rewrite fin64_opp].
  - reflexivity.
Qed.

(* ---------- inverse at binary64 ---------- *)

Lemma inverse_binary64 :
  forall (m : PrimFloat.float) (z : Z) (c : PrimFloat.float), z <> 0%Z -> (Z.abs z <= 2 ^ 53)%Z ->
  mz_safe NumF fin64 nrm64 m z c = true ->
  let r := neutral_mass NumF (mass_charge_ratio NumF m z c) z c in
  (Rabs (v64 r - v64 m) <= ((1 + u64) ^ 4 - 1) * (Rabs (v64 m) + (1 + u64) * Rabs (IZR z * v64 c)))%R.
Proof.
  intros m z c Hz Hzb Hs r.
  pose proof (inverse_rounded NumF NumRR v64 u64 fin64 nrm64 OField_RR binary64_std_model_ext m z c Hz Hzb Hs) as H.
  cbn zeta in H. apply fle_RR in H. rewrite kpow_RR in H. exact H.
Qed.

Print Assumptions binary64_std_model_ext.
Print Assumptions inverse_binary64.
