(* Algebraic laws of composition arithmetic, observed through [e_get]: corollaries of the pointwise theorems in CompArith.v.
   Compositions with distinct keys form, up to observation by [get] on every key, a Z-module. *)
From Coq Require Import List ZArith NArith Bool Arith String Lia.
From CE Require Import Num Str TableTypes TableModel Comp ESpec CompOps CompSpec CompArith.
Import ListNotations.
Local Open Scope Z_scope.

Lemma nodup_add a b : nodup_keys a = true -> nodup_keys (e_add a b) = true.
Proof. intros Ha. exact (proj1 (proj2 (proj2 (nodup_invariant a b (codes "H", 0%N) 0 Ha)))). Qed.
Lemma nodup_sub a b : nodup_keys a = true -> nodup_keys (e_sub a b) = true.
Proof. intros Ha. exact (proj1 (proj2 (proj2 (proj2 (nodup_invariant a b (codes "H", 0%N) 0 Ha))))). Qed.

Lemma law_add_comm : forall a b k, nodup_keys a = true -> nodup_keys b = true ->
  e_get k (e_add a b) = e_get k (e_add b a).
Proof. intros a b k Ha Hb. rewrite !get_add by assumption. lia. Qed.

Lemma law_add_assoc : forall a b c k, nodup_keys b = true -> nodup_keys c = true ->
  e_get k (e_add (e_add a b) c) = e_get k (e_add a (e_add b c)).
Proof.
  intros a b c k Hb Hc. rewrite (get_add (e_add a b) c k Hc), (get_add a b k Hb).
  rewrite (get_add a (e_add b c) k (nodup_add b c Hb)), (get_add b c k Hc). lia.
Qed.

Lemma law_add_sub_cancel : forall a b k, nodup_keys b = true ->
  e_get k (e_sub (e_add a b) b) = e_get k a /\ e_get k (e_add (e_sub a b) b) = e_get k a.
Proof. intros a b k Hb. rewrite get_sub, get_add, get_add, get_sub by assumption. lia. Qed.

Lemma law_sub_self : forall a k, nodup_keys a = true -> e_get k (e_sub a a) = 0.
Proof. intros a k Ha. rewrite get_sub by assumption. lia. Qed.

Lemma law_sub_as_add_neg : forall a b k, nodup_keys b = true ->
  e_get k (e_sub a b) = e_get k (e_add a (e_neg b)).
Proof.
  intros a b k Hb. rewrite get_sub by assumption.
  rewrite get_add, get_neg; [lia|].
  exact (proj1 (proj2 (proj2 (proj2 (proj2 (proj2 (nodup_invariant b b (codes "H", 0%N) 0 Hb))))))).
Qed.

Lemma law_neg_involutive : forall a k, e_get k (e_neg (e_neg a)) = e_get k a.
Proof. intros a k. rewrite !get_neg. lia. Qed.

Lemma law_neg_is_mul : forall a k, e_get k (e_neg a) = e_get k (e_mul a (-1)).
Proof. intros a k. rewrite get_neg, get_mul. lia. Qed.

Lemma law_mul_one_zero : forall a k, e_get k (e_mul a 1) = e_get k a /\ e_get k (e_mul a 0) = 0.
Proof. intros a k. rewrite !get_mul. lia. Qed.

Lemma law_mul_mul : forall a n m k, e_get k (e_mul (e_mul a n) m) = e_get k (e_mul a (n * m)).
Proof. intros a n m k. rewrite !get_mul. lia. Qed.

Lemma law_mul_distr_add : forall a b n k, nodup_keys a = true -> nodup_keys b = true ->
  e_get k (e_mul (e_add a b) n) = e_get k (e_add (e_mul a n) (e_mul b n)).
Proof.
  intros a b n k Ha Hb. rewrite get_mul, get_add by assumption.
  rewrite get_add, !get_mul; [lia|].
  exact (proj1 (proj2 (proj2 (proj2 (proj2 (nodup_invariant b b (codes "H", 0%N) n Hb)))))).
Qed.

Lemma law_mul_distr_scalar : forall a n m k, nodup_keys a = true ->
  e_get k (e_mul a (n + m)) = e_get k (e_add (e_mul a n) (e_mul a m)).
Proof.
  intros a n m k Ha. rewrite get_mul.
  rewrite get_add, !get_mul; [lia|].
  exact (proj1 (proj2 (proj2 (proj2 (proj2 (nodup_invariant a a (codes "H", 0%N) m Ha)))))).
Qed.

Lemma law_repeated_add : forall a k, nodup_keys a = true ->
  e_get k (e_add (e_add a a) a) = e_get k (e_mul a 3).
Proof.
  intros a k Ha. rewrite get_add, get_add, get_mul by assumption. lia.
Qed.

Example law_example :
  let H := (codes "H", 0%N) in let O := (codes "O", 0%N) in let C := (codes "C", 13%N) in
  let a := e_collect [(H, 2%Z); (O, 1%Z)] in let b := e_collect [(C, 6%Z); (H, 12%Z); (O, 6%Z)] in
  nodup_keys a = true /\ nodup_keys b = true
  /\ e_get H (e_add a b) = 14 /\ e_get H (e_add b a) = 14 /\ e_get C (e_sub (e_add a b) b) = 0
  /\ e_get O (e_mul (e_add a b) (-2)) = -14 /\ e_get O (e_add (e_mul a (-2)) (e_mul b (-2))) = -14.
Proof. vm_compute. repeat split; reflexivity. Qed.
