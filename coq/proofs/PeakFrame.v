(* Frame laws for the pattern operations: what each operation leaves unchanged.  Generic in the numeric interpretation,
   hence true of IEEE doubles as computed. *)
From Coq Require Import ZArith List Bool Lia.
From CE Require Import Num Peak PeakSpec.
Import ListNotations.

Section Frame.
  Context {F : Type} (N : Num F).
  Notation tip := (tip (F:=F)).
  Notation peak := (peak (F:=F)).

  Lemma filter_len_le : forall (f : peak -> bool) l, length (filter f l) <= length l.
  Proof. induction l as [|q l IH]; cbn [filter]; [apply le_n|]. destruct (f q); cbn [length]; lia. Qed.

  Lemma frame_shift : forall (p : tip) off,
    ints (shift N p off) = ints p /\ length (peaks (shift N p off)) = length (peaks p).
  Proof.
    intros p off. unfold ints, shift. cbn [peaks]. rewrite map_map, map_length. split; reflexivity.
  Qed.

  Lemma frame_scale_by : forall (p : tip) f,
    map mz (peaks (scale_by N p f)) = map mz (peaks p) /\ length (peaks (scale_by N p f)) = length (peaks p)
    /\ origin (scale_by N p f) = origin p.
  Proof.
    intros p f. unfold scale_by. cbn [peaks origin]. rewrite map_map, map_length. repeat split.
  Qed.

  Lemma frame_normalize : forall (p : tip),
    map mz (peaks (normalize N p)) = map mz (peaks p) /\ length (peaks (normalize N p)) = length (peaks p)
    /\ origin (normalize N p) = origin p.
  Proof. intros p. unfold normalize. apply frame_scale_by. Qed.

  (* ignore_below: the surviving m/z values are, in order, those of the peaks at or above the threshold; never more
     peaks than before; origin untouched *)
  Lemma frame_ignore_below : forall (p : tip) t,
    map mz (peaks (ignore_below N p t)) = map mz (filter (fun q => geb N (inten q) t) (peaks p))
    /\ length (peaks (ignore_below N p t)) <= length (peaks p)
    /\ origin (ignore_below N p t) = origin p.
  Proof.
    intros p t. unfold ignore_below.
    destruct (frame_normalize (mkTip (filter (fun q => geb N (inten q) t) (peaks p)) (origin p))) as (H1 & H2 & H3).
    cbn [peaks origin] in H1, H2, H3. rewrite H1, H2, H3. repeat split.
    apply filter_len_le.
  Qed.

  (* truncate_after: the surviving m/z values are a non-empty-if-possible prefix of the original ones; origin untouched *)
  Lemma frame_truncate_after : forall (p : tip) t,
    exists k, map mz (peaks (truncate_after N p t)) = firstn (S k) (map mz (peaks p))
              /\ k <= Nat.pred (length (peaks p))
              /\ length (peaks (truncate_after N p t)) <= length (peaks p)
              /\ (peaks p <> [] -> peaks (truncate_after N p t) <> [])
              /\ origin (truncate_after N p t) = origin p.
  Proof.
    intros p t. unfold truncate_after.
    assert (Hscan : forall l i tot d, fst (trunc_scan N t l i tot d) = d
                                      \/ (i <= fst (trunc_scan N t l i tot d) < i + length l)).
    { induction l as [|q r IH]; intros i tot d; cbn [trunc_scan]; [left; reflexivity|].
      destruct (geb N (add N tot (inten q)) t); cbn [fst length]; [right; lia|].
      destruct (IH (S i) (add N tot (inten q)) d) as [H|H]; [left; exact H|right; lia]. }
    destruct (trunc_scan N t (peaks p) 0 (zero N) (Nat.pred (length (peaks p)))) as [stop tot] eqn:E.
    specialize (Hscan (peaks p) 0 (zero N) (Nat.pred (length (peaks p)))). rewrite E in Hscan. cbn [fst] in Hscan.
    exists stop.
    destruct (frame_normalize (mkTip (firstn (S stop) (peaks p)) (origin p))) as (H1 & H2 & H3).
    cbn [peaks origin] in H1, H2, H3. rewrite H1, H2, H3. rewrite firstn_map.
    split; [reflexivity|]. split; [lia|]. split; [rewrite firstn_length; lia|]. split; [|reflexivity].
    intros Hne Hnil. destruct (peaks p) as [|q l]; [apply Hne; reflexivity|].
    rewrite <- (map_length mz) in H2. cbn [firstn] in *. rewrite Hnil in H1. discriminate H1.
  Qed.
End Frame.
