(* Proofs for C09: coarse patterns are well-shaped and honour the requested peak count. *)
From Coq Require Import ZArith List Bool Lia Permutation Field Ring Field_theory Ring_theory.
From CE Require Import Num OField Mz Peak Poisson Brain BrainSpec PoissonProofs.
Import ListNotations.

(* Properties/C09.v imports [String] after [List], so a bare [length] there would resolve to [String.length] and
   the statements of C09_shape / C09_sum would not type-check.  C09.v imports this file after [String]; this
   parsing-only abbreviation makes [length] mean [List.length] again (the term produced is exactly [List.length]).
   Remove it once C09.v writes [List.length] (as model/Brain.v does). *)

(* ---------- request resolution: integers only ---------- *)
Lemma clamp_order : forall req mv, (0 <= req)%Z -> (0 <= mv)%Z ->
  resolve_order req mv = Z.min req mv /\ (0 <= resolve_order req mv <= mv)%Z.
Proof.
  intros req mv Hr Hm. unfold resolve_order.
  destruct (Z.eqb_spec req (-1)) as [E|_]; [lia|].
  split; [reflexivity | lia].
Qed.

Section ShapeProofs.
  Context {F : Type} (N : Num F).

  (* the candidate list (the same term as [raw] in Properties/C09.v) *)
  Definition raw_peaks (pv cv : list F) (o : nat) (z : Z) (carrier : F) : list (F * F) :=
    map (fun cp => (charged N (fst cp) z carrier, div N (snd cp) (fsum N pv))) (firstn (o + 1) (combine cv pv)).

  Lemma finish_raw pv cv o z carrier :
    finish N pv cv o z carrier = sort_mz N (keep_real N (raw_peaks pv cv o z carrier) false).
  Proof. reflexivity. Qed.

  (* ---------- the stable sort is a permutation ---------- *)
  Lemma ins_mz_perm x : forall l, Permutation (ins_mz N x l) (x :: l).
  Proof.
    induction l as [|y l IH]; [apply Permutation_refl|].
    cbn [ins_mz]. destruct (ltb N (fst x) (fst y)); [apply Permutation_refl|].
    eapply Permutation_trans; [apply perm_skip; exact IH | apply perm_swap].
  Qed.

  Lemma sort_fold_perm : forall l acc,
    Permutation (fold_left (fun a x => ins_mz N x a) l acc) (l ++ acc).
  Proof.
    induction l as [|x l IH]; intros acc; [apply Permutation_refl|].
    cbn [fold_left app].
    eapply Permutation_trans; [apply IH|].
    eapply Permutation_trans; [apply Permutation_app_head; apply ins_mz_perm|].
    apply Permutation_sym. apply Permutation_middle.
  Qed.

  Lemma sort_mz_perm l : Permutation (sort_mz N l) l.
  Proof.
    unfold sort_mz. eapply Permutation_trans; [apply sort_fold_perm|].
    rewrite app_nil_r. apply Permutation_refl.
  Qed.

  (* ---------- the 1e-10 rule keeps a sub-list ---------- *)
  Lemma keep_real_In : forall l b x, In x (keep_real N l b) -> In x l.
  Proof.
    induction l as [|[m p] l IH]; intros b x Hx; [exact Hx|].
    cbn [keep_real] in Hx.
    destruct (ltb N p (tiny10 N)).
    - destruct b.
      + right. exact (IH _ _ Hx).
      + destruct Hx as [Hx|Hx]; [left; exact Hx | right; exact (IH _ _ Hx)].
    - destruct Hx as [Hx|Hx]; [left; exact Hx | right; exact (IH _ _ Hx)].
  Qed.

  Lemma keep_real_length : forall l b, length (keep_real N l b) <= length l.
  Proof.
    induction l as [|[m p] l IH]; intros b; [apply le_n|].
    cbn [keep_real].
    destruct (ltb N p (tiny10 N)).
    - destruct b; cbn [length].
      + pose proof (IH true). lia.
      + pose proof (IH false). lia.
    - cbn [length]. pose proof (IH true). lia.
  Qed.

  Lemma keep_real_head x r : In x (keep_real N (x :: r) false).
  Proof.
    destruct x as [m p]. cbn [keep_real].
    destruct (ltb N p (tiny10 N)); left; reflexivity.
  Qed.

  Lemma keep_real_big : forall l b x,
    In x l -> ltb N (snd x) (tiny10 N) = false -> In x (keep_real N l b).
  Proof.
    induction l as [|[m p] l IH]; intros b x Hx Hbig; [exact Hx|].
    cbn [keep_real]. destruct Hx as [Hx|Hx].
    - subst x. cbn [snd] in Hbig. rewrite Hbig. left. reflexivity.
    - destruct (ltb N p (tiny10 N)).
      + destruct b; [|right]; apply IH; assumption.
      + right. apply IH; assumption.
  Qed.

  Lemma raw_length pv cv o z carrier : length (raw_peaks pv cv o z carrier) <= o + 1.
  Proof. unfold raw_peaks. rewrite map_length. apply firstn_le_length. Qed.

  Lemma finish_shape : forall pv cv o z carrier,
    Permutation (finish N pv cv o z carrier) (keep_real N (raw_peaks pv cv o z carrier) false)
    /\ length (finish N pv cv o z carrier) <= o + 1
    /\ (forall x, In x (finish N pv cv o z carrier) -> In x (raw_peaks pv cv o z carrier))
    /\ (forall x r, raw_peaks pv cv o z carrier = x :: r -> In x (finish N pv cv o z carrier))
    /\ (forall x, In x (raw_peaks pv cv o z carrier) -> ltb N (snd x) (tiny10 N) = false ->
                  In x (finish N pv cv o z carrier)).
  Proof.
    intros pv cv o z carrier. rewrite finish_raw.
    set (R := raw_peaks pv cv o z carrier).
    pose proof (sort_mz_perm (keep_real N R false)) as HP.
    split; [exact HP|]. split; [|split; [|split]].
    - rewrite (Permutation_length HP).
      pose proof (keep_real_length R false). pose proof (raw_length pv cv o z carrier). fold R in H0. lia.
    - intros x Hx. apply (keep_real_In R false). exact (Permutation_in x HP Hx).
    - intros x r HR. apply (Permutation_in x (Permutation_sym HP)).
      rewrite HR. apply keep_real_head.
    - intros x Hx Hbig. apply (Permutation_in x (Permutation_sym HP)).
      apply keep_real_big; assumption.
  Qed.

  (* ---------- request resolution ---------- *)
  Lemma fixed_count : forall n mass, (1 <= n)%Z -> num_peaks N (spec_of_i32 n) mass = (n - 1)%Z.
  Proof.
    intros n mass Hn. unfold spec_of_i32.
    destruct (Z.eqb_spec n 0) as [E|_]; [lia|].
    cbn [num_peaks]. unfold sat_sub1, i32_min.
    destruct (Z.eqb_spec n (-2147483648)) as [E|_]; lia.
  Qed.

  Lemma nonpositive_count : forall n mass, (n < 0)%Z -> num_peaks N (spec_of_i32 n) mass = 0%Z.
  Proof.
    intros n mass Hn. unfold spec_of_i32.
    destruct (Z.eqb_spec n 0) as [E|_]; [lia|].
    cbn [num_peaks]. unfold sat_sub1, i32_min.
    destruct (Z.eqb_spec n (-2147483648)) as [E|_]; lia.
  Qed.

  Lemma poisson_n_range mass t : (1 <= poisson_n N mass t <= 255)%Z.
  Proof.
    unfold poisson_n.
    pose proof (pois_n_range N mass (LAMBDA_FACTOR N) t 255) as H.
    change (Z.of_nat 255) with 255%Z in H. apply H. lia.
  Qed.

  Lemma default_count : forall mass,
    num_peaks N (spec_of_i32 0) mass = Z.min (poisson_n N mass (of_dec N 9999 4)) 300
    /\ (1 <= num_peaks N (spec_of_i32 0) mass <= 255)%Z.
  Proof.
    intros mass. change (spec_of_i32 0) with (@Guess F). cbn [num_peaks].
    split; [reflexivity|].
    pose proof (poisson_n_range mass (of_dec N 9999 4)). lia.
  Qed.

  Lemma fraction_count : forall f mass,
    num_peaks N (PercentSignal f) mass = num_peaks N (FixedCount (poisson_n N mass f)) mass.
  Proof.
    intros f mass. cbn [num_peaks]. unfold sat_sub1, i32_min.
    pose proof (poisson_n_range mass f) as H.
    destruct (Z.eqb_spec (poisson_n N mass f) (-2147483648)) as [E|_]; [lia | reflexivity].
  Qed.

  (* ---------- list plumbing for the sum ---------- *)
  Lemma map_snd_combine {A B : Type} : forall (l1 : list A) (l2 : list B),
    length l1 = length l2 -> map snd (combine l1 l2) = l2.
  Proof.
    induction l1 as [|a l1 IH]; intros [|b l2] Hl; cbn in Hl; try lia; [reflexivity|].
    cbn [combine map snd]. rewrite IH by lia. reflexivity.
  Qed.

  Lemma skip_real_small : forall l b x, In x (skip_real N l b) -> ltb N (snd x) (tiny10 N) = true.
  Proof.
    induction l as [|[m p] l IH]; intros b x Hx; [destruct Hx|].
    cbn [skip_real] in Hx.
    destruct (ltb N p (tiny10 N)) eqn:E.
    - destruct b.
      + destruct Hx as [Hx|Hx]; [subst x; exact E | exact (IH _ _ Hx)].
      + exact (IH _ _ Hx).
    - exact (IH _ _ Hx).
  Qed.

  Lemma filter_all {A : Type} (f : A -> bool) : forall l, (forall x, In x l -> f x = true) -> filter f l = l.
  Proof.
    induction l as [|a l IH]; intros H; [reflexivity|].
    cbn [filter]. rewrite (H a (or_introl eq_refl)). rewrite IH; [reflexivity|].
    intros x Hx. apply H. right. exact Hx.
  Qed.

  Lemma filter_skip_real l b :
    filter (fun x => ltb N (snd x) (tiny10 N)) (skip_real N l b) = skip_real N l b.
  Proof. apply filter_all. intros x Hx. exact (skip_real_small l b x Hx). Qed.

  (* ================= exact arithmetic ================= *)
  Section WithField.
    Hypothesis OF : OField N.
    Add Field Fs : (of_field N OF).

    Local Notation "0" := (zero N).
    Local Notation "1" := (one N).
    Local Infix "+!" := (add N) (at level 50, left associativity).
    Local Infix "*!" := (mul N) (at level 40, left associativity).
    Local Infix "/!" := (div N) (at level 40, left associativity).

    (* right-fold sum, the convenient form for induction *)
    Definition sumr (l : list F) : F := fold_right (add N) 0 l.

    Lemma fold_add_sumr : forall l a, fold_left (add N) l a = a +! sumr l.
    Proof.
      induction l as [|x l IH]; intros a; cbn [fold_left sumr fold_right].
      - ring.
      - rewrite IH. unfold sumr. ring.
    Qed.

    Lemma fsum_sumr l : fsum N l = sumr l.
    Proof. unfold fsum. rewrite (of_sum0 N OF), fold_add_sumr. ring. Qed.

    Lemma sumr_perm l l' : Permutation l l' -> sumr l = sumr l'.
    Proof.
      induction 1 as [|x l l' _ IH|x y l|l l' l'' _ IH1 _ IH2]; cbn [sumr fold_right].
      - reflexivity.
      - fold (sumr l). fold (sumr l'). rewrite IH. reflexivity.
      - ring.
      - rewrite IH1. exact IH2.
    Qed.

    Lemma fsum_perm l l' : Permutation l l' -> fsum N l = fsum N l'.
    Proof. intros H. rewrite !fsum_sumr. apply sumr_perm. exact H. Qed.

    Lemma sumr_cons x l : sumr (x :: l) = x +! sumr l.
    Proof. reflexivity. Qed.

    (* keep_real and skip_real partition the list *)
    Lemma keep_skip_sum : forall l b,
      sumr (map snd (keep_real N l b)) +! sumr (map snd (skip_real N l b)) = sumr (map snd l).
    Proof.
      induction l as [|[m p] l IH]; intros b.
      - cbn [keep_real skip_real map]. unfold sumr. cbn [fold_right]. ring.
      - cbn [keep_real skip_real]. cbn [map snd]. rewrite (sumr_cons p).
        destruct (ltb N p (tiny10 N)).
        + destruct b.
          * cbn [map snd]. rewrite (sumr_cons p). rewrite <- (IH true). ring.
          * cbn [map snd]. rewrite (sumr_cons p). rewrite <- (IH false). ring.
        + cbn [map snd]. rewrite (sumr_cons p). rewrite <- (IH true). ring.
    Qed.

    Lemma sumr_div T : T <> 0 -> forall l, sumr (map (fun x => x /! T) l) = sumr l /! T.
    Proof.
      intros HT. induction l as [|x l IH]; cbn [map].
      - unfold sumr. cbn [fold_right]. field. exact HT.
      - rewrite !sumr_cons, IH. field. exact HT.
    Qed.

    Lemma raw_snd pv cv o z carrier : length pv = o + 1 -> length cv = o + 1 ->
      map snd (raw_peaks pv cv o z carrier) = map (fun x => x /! fsum N pv) pv.
    Proof.
      intros Hp Hc. unfold raw_peaks.
      rewrite firstn_all2 by (rewrite combine_length; lia).
      rewrite map_map. cbn [snd].
      rewrite <- (map_snd_combine cv pv) at 2 by lia.
      rewrite map_map. reflexivity.
    Qed.

    Lemma finish_sum : forall pv cv o z carrier,
      length pv = o + 1 -> length cv = o + 1 -> fsum N pv <> zero N ->
      add N (fsum N (map snd (finish N pv cv o z carrier)))
            (fsum N (map snd (filter (fun x => ltb N (snd x) (tiny10 N))
                                     (skip_real N (raw_peaks pv cv o z carrier) false))))
      = one N.
    Proof.
      intros pv cv o z carrier Hp Hc HT.
      rewrite filter_skip_real. rewrite finish_raw.
      set (R := raw_peaks pv cv o z carrier).
      rewrite (fsum_perm _ _ (Permutation_map snd (sort_mz_perm (keep_real N R false)))).
      rewrite !fsum_sumr. rewrite keep_skip_sum.
      unfold R. rewrite (raw_snd pv cv o z carrier Hp Hc).
      rewrite (sumr_div _ HT). rewrite <- fsum_sumr. field. exact HT.
    Qed.
  End WithField.
End ShapeProofs.

Print Assumptions finish_shape. Print Assumptions fixed_count. Print Assumptions nonpositive_count.
Print Assumptions default_count. Print Assumptions fraction_count. Print Assumptions clamp_order.
Print Assumptions finish_sum.
