(* Proofs for C13f: normalize in rounded arithmetic (standard model of floating point into an ordered field). *)
From Coq Require Import ZArith List Bool Arith Lia Field Ring Field_theory Ring_theory.
From CE Require Import Num OField Peak Rounded.
Import ListNotations.

(* ------------------------------------------------------------------------------------------ *)
(* Order lemmas over an arbitrary ordered field.                                                *)
Section OrdK.
  Context {K : Type} (NK : Num K).
  Hypothesis OF : OField NK.
  Add Field Fk : (of_field NK OF).

  Local Notation k0 := (zero NK).
  Local Notation k1 := (one NK).
  Local Infix "+!" := (add NK) (at level 50, left associativity).
  Local Infix "-!" := (sub NK) (at level 50, left associativity).
  Local Infix "*!" := (mul NK) (at level 40, left associativity).
  Local Infix "/!" := (div NK) (at level 40, left associativity).
  Local Infix "<=!" := (fle NK) (at level 70).
  Local Infix "<!" := (flt NK) (at level 70).

  Lemma kle_refl a : a <=! a.
  Proof. apply (of_le_refl NK OF). Qed.

  Lemma kle_trans a b c : a <=! b -> b <=! c -> a <=! c.
  Proof. apply (of_le_trans NK OF). Qed.

  Lemma kle_eq a b : a = b -> a <=! b.
  Proof. intros ->. apply kle_refl. Qed.

  Lemma kle_of_sub a b : k0 <=! b -! a -> a <=! b.
  Proof.
    intros H. pose proof (of_add_le NK OF _ _ a H) as H'.
    replace (k0 +! a) with a in H' by ring.
    replace (b -! a +! a) with b in H' by ring. exact H'.
  Qed.

  Lemma ksub_of_le a b : a <=! b -> k0 <=! b -! a.
  Proof.
    intros H. pose proof (of_add_le NK OF _ _ (opp NK a) H) as H'.
    replace (a +! opp NK a) with k0 in H' by ring.
    replace (b +! opp NK a) with (b -! a) in H' by ring. exact H'.
  Qed.

  Lemma kmul_nonneg a b : k0 <=! a -> k0 <=! b -> k0 <=! a *! b.
  Proof. apply (of_mul_nonneg NK OF). Qed.

  Lemma kadd_nonneg a b : k0 <=! a -> k0 <=! b -> k0 <=! a +! b.
  Proof.
    intros Ha Hb. apply (kle_trans _ a); [exact Ha|].
    apply kle_of_sub. replace (a +! b -! a) with b by ring. exact Hb.
  Qed.

  Lemma kle_add a b c d : a <=! b -> c <=! d -> a +! c <=! b +! d.
  Proof.
    intros H1 H2. apply kle_of_sub.
    replace (b +! d -! (a +! c)) with ((b -! a) +! (d -! c)) by ring.
    apply kadd_nonneg; apply ksub_of_le; assumption.
  Qed.

  Lemma kle_mul_r a b c : a <=! b -> k0 <=! c -> a *! c <=! b *! c.
  Proof.
    intros H1 H2. apply kle_of_sub.
    replace (b *! c -! a *! c) with ((b -! a) *! c) by ring.
    apply kmul_nonneg; [apply ksub_of_le; exact H1|exact H2].
  Qed.

  Lemma kle_mul_l a b c : a <=! b -> k0 <=! c -> c *! a <=! c *! b.
  Proof.
    intros H1 H2. apply kle_of_sub.
    replace (c *! b -! c *! a) with (c *! (b -! a)) by ring.
    apply kmul_nonneg; [exact H2|apply ksub_of_le; exact H1].
  Qed.

  Lemma ksq_nonneg a : k0 <=! a *! a.
  Proof.
    destruct (of_le_total NK OF k0 a) as [H|H].
    - apply kmul_nonneg; exact H.
    - replace (a *! a) with ((k0 -! a) *! (k0 -! a)) by ring.
      apply kmul_nonneg; apply ksub_of_le; exact H.
  Qed.

  Lemma klt_iff a b : a <! b <-> (a <=! b /\ a <> b).
  Proof.
    unfold flt. rewrite (of_ltb_def NK OF). split.
    - intros H. assert (E : leb NK b a = false) by (destruct (leb NK b a); [discriminate H|reflexivity]).
      split.
      + destruct (of_le_total NK OF a b) as [H1|H1]; [exact H1|].
        unfold fle in H1. rewrite H1 in E. discriminate E.
      + intros ->. pose proof (kle_refl b) as R. unfold fle in R. rewrite R in E. discriminate E.
    - intros [H1 H2]. destruct (leb NK b a) eqn:E; [|reflexivity].
      exfalso. apply H2. apply (of_le_antisym NK OF); assumption.
  Qed.

  Lemma klt_le a b : a <! b -> a <=! b.
  Proof. intros H. apply klt_iff in H. apply H. Qed.

  Lemma klt_neq a b : a <! b -> b <> a.
  Proof. intros H E. apply klt_iff in H. apply (proj2 H). symmetry. exact E. Qed.

  Lemma kle_lt_trans a b c : a <=! b -> b <! c -> a <! c.
  Proof.
    intros H1 H2. apply klt_iff in H2. destruct H2 as [H2 H3]. apply klt_iff. split.
    - apply (kle_trans _ b); assumption.
    - intros ->. apply H3. apply (of_le_antisym NK OF); assumption.
  Qed.

  Lemma klt_le_trans a b c : a <! b -> b <=! c -> a <! c.
  Proof.
    intros H1 H2. apply klt_iff in H1. destruct H1 as [H1 H3]. apply klt_iff. split.
    - apply (kle_trans _ b); assumption.
    - intros ->. apply H3. apply (of_le_antisym NK OF); assumption.
  Qed.

  Lemma k1_neq_0 : k1 <> k0.
  Proof. exact (F_1_neq_0 (of_field NK OF)). Qed.

  Lemma k01 : k0 <! k1.
  Proof.
    apply klt_iff. split.
    - replace k1 with (k1 *! k1) by ring. apply ksq_nonneg.
    - intros E. apply k1_neq_0. symmetry. exact E.
  Qed.

  Lemma kmul_neq0 a b : a <> k0 -> b <> k0 -> a *! b <> k0.
  Proof.
    intros Ha Hb E. apply Hb.
    replace b with ((k1 /! a) *! (a *! b)) by (field; exact Ha). rewrite E. ring.
  Qed.

  Lemma kmul_pos a b : k0 <! a -> k0 <! b -> k0 <! a *! b.
  Proof.
    intros Ha Hb. apply klt_iff. split.
    - apply kmul_nonneg; apply klt_le; assumption.
    - intros E. symmetry in E. revert E. apply kmul_neq0; apply klt_neq; assumption.
  Qed.

  Lemma kinv_pos a : k0 <! a -> k0 <! k1 /! a.
  Proof.
    intros Ha. pose proof (klt_neq _ _ Ha) as Hn. apply klt_iff. split.
    - replace (k1 /! a) with (a *! ((k1 /! a) *! (k1 /! a))) by (field; exact Hn).
      apply kmul_nonneg; [apply klt_le; exact Ha|apply ksq_nonneg].
    - intros E. apply k1_neq_0.
      replace k1 with (a *! (k1 /! a)) by (field; exact Hn). rewrite <- E. ring.
  Qed.

  Lemma kinv_anti a b : k0 <! a -> a <=! b -> k1 /! b <=! k1 /! a.
  Proof.
    intros Ha Hab. pose proof (klt_le_trans _ _ _ Ha Hab) as Hb.
    pose proof (klt_neq _ _ Ha) as Han. pose proof (klt_neq _ _ Hb) as Hbn.
    apply kle_of_sub.
    replace (k1 /! a -! k1 /! b) with ((b -! a) *! ((k1 /! a) *! (k1 /! b))) by (field; split; assumption).
    apply kmul_nonneg; [apply ksub_of_le; exact Hab|].
    apply kmul_nonneg; apply klt_le; apply kinv_pos; assumption.
  Qed.

  Lemma kpow_pos x : k0 <! x -> forall n, k0 <! kpow NK x n.
  Proof.
    intros Hx n. induction n as [|n IH]; cbn [kpow].
    - exact k01.
    - apply kmul_pos; assumption.
  Qed.

  Lemma ksum_nonneg : forall l : list K, (forall x, In x l -> k0 <! x) -> k0 <=! ksum NK l.
  Proof.
    induction l as [|x r IH]; intros H; cbn [ksum fold_right].
    - apply kle_refl.
    - apply kadd_nonneg.
      + apply klt_le. apply H. left. reflexivity.
      + apply IH. intros y Hy. apply H. right. exact Hy.
  Qed.

  Lemma ksum_pos : forall l : list K, l <> [] -> (forall x, In x l -> k0 <! x) -> k0 <! ksum NK l.
  Proof.
    intros l Hne H. destruct l as [|x r]; [exfalso; apply Hne; reflexivity|].
    change (ksum NK (x :: r)) with (x +! ksum NK r).
    apply (klt_le_trans _ x).
    - apply H. left. reflexivity.
    - apply kle_of_sub. replace (x +! ksum NK r -! x) with (ksum NK r) by ring.
      apply ksum_nonneg. intros y Hy. apply H. right. exact Hy.
  Qed.

  (* got = exact * (1 + d), |d| <= u, exact >= 0: got lies in exact * [1 - u, 1 + u] *)
  Lemma within_bounds u e g : k0 <=! e -> within NK u e g ->
    e *! (k1 -! u) <=! g /\ g <=! e *! (k1 +! u).
  Proof.
    intros He [d [H1 [H2 ->]]]. split; apply kle_of_sub.
    - replace (e *! (k1 +! d) -! e *! (k1 -! u)) with (e *! (d -! opp NK u)) by ring.
      apply kmul_nonneg; [exact He|apply ksub_of_le; exact H1].
    - replace (e *! (k1 +! u) -! e *! (k1 +! d)) with (e *! (u -! d)) by ring.
      apply kmul_nonneg; [exact He|apply ksub_of_le; exact H2].
  Qed.
End OrdK.

(* ------------------------------------------------------------------------------------------ *)
Section RoundedLemmas.
  Context {F K : Type} (N : Num F) (NK : Num K) (v : F -> K) (u : K) (fin nrm : F -> bool).
  Hypothesis OF : OField NK.
  Hypothesis SM : StdModel N NK v u fin nrm.
  Add Field Fk2 : (of_field NK OF).

  Local Notation k0 := (zero NK).
  Local Notation k1 := (one NK).
  Local Infix "+!" := (add NK) (at level 50, left associativity).
  Local Infix "-!" := (sub NK) (at level 50, left associativity).
  Local Infix "*!" := (mul NK) (at level 40, left associativity).
  Local Infix "/!" := (div NK) (at level 40, left associativity).
  Local Infix "<=!" := (fle NK) (at level 70).
  Local Infix "<!" := (flt NK) (at level 70).
  Local Notation om := (k1 -! u).
  Local Notation op := (k1 +! u).

  Lemma u_nonneg : k0 <=! u.
  Proof. exact (sm_u_nonneg _ _ _ _ _ _ SM). Qed.

  Lemma om_pos : k0 <! om.
  Proof.
    pose proof (sm_u_small _ _ _ _ _ _ SM) as H. apply (klt_iff NK OF) in H. destruct H as [H1 H2].
    apply (klt_iff NK OF). split.
    - apply (ksub_of_le NK OF). exact H1.
    - intros E. apply H2. replace u with (k1 -! om) by ring. rewrite <- E. ring.
  Qed.

  Lemma op_pos : k0 <! op.
  Proof.
    apply (klt_le_trans NK OF _ k1); [apply (k01 NK OF)|].
    apply (kle_of_sub NK OF). replace (op -! k1) with u by ring. exact u_nonneg.
  Qed.

  (* Iterator::sum in rounded arithmetic: n additions of positive terms lose at most (1 +- u)^n *)
  Lemma sum_bound : forall xs acc, fin acc = true -> k0 <=! v acc ->
    forallb fin xs = true -> forallb fin (partials N xs acc) = true ->
    (forall x, In x xs -> k0 <! v x) ->
    fin (fold_left (add N) xs acc) = true /\
    (v acc +! ksum NK (map v xs)) *! kpow NK om (length xs) <=! v (fold_left (add N) xs acc) /\
    v (fold_left (add N) xs acc) <=! (v acc +! ksum NK (map v xs)) *! kpow NK op (length xs).
  Proof.
    induction xs as [|x r IH]; intros acc Hfa Ha Hfx Hfp Hpos.
    - cbn [fold_left map ksum fold_right length kpow]. split; [exact Hfa|].
      split; apply (kle_eq NK OF); ring.
    - cbn [forallb partials] in Hfx, Hfp.
      apply andb_true_iff in Hfx. destruct Hfx as [Hfx Hfr].
      apply andb_true_iff in Hfp. destruct Hfp as [Hfa' Hfp].
      assert (Hx : k0 <! v x) by (apply Hpos; left; reflexivity).
      assert (Hr : forall y, In y r -> k0 <! v y) by (intros y Hy; apply Hpos; right; exact Hy).
      pose proof (sm_add _ _ _ _ _ _ SM acc x Hfa Hfx Hfa') as W.
      assert (He : k0 <=! v acc +! v x).
      { apply (kadd_nonneg NK OF); [exact Ha|apply (klt_le NK OF); exact Hx]. }
      destruct (within_bounds NK OF u _ _ He W) as [Wlo Whi].
      assert (Ha' : k0 <=! v (add N acc x)).
      { apply (kle_trans NK OF _ ((v acc +! v x) *! om)); [|exact Wlo].
        apply (kmul_nonneg NK OF); [exact He|apply (klt_le NK OF); exact om_pos]. }
      destruct (IH (add N acc x) Hfa' Ha' Hfr Hfp Hr) as [IHf [IHlo IHhi]].
      assert (HS : k0 <=! ksum NK (map v r)).
      { apply (ksum_nonneg NK OF). intros y Hy. apply in_map_iff in Hy. destruct Hy as [z [<- Hz]]. apply Hr. exact Hz. }
      cbn [fold_left map length kpow].
      change (ksum NK (v x :: map v r)) with (v x +! ksum NK (map v r)).
      set (Sr := ksum NK (map v r)) in *.
      set (va := v acc) in *. set (vx := v x) in *. set (va' := v (add N acc x)) in *.
      split; [exact IHf|]. split.
      + eapply (kle_trans NK OF); [|exact IHlo].
        set (P := kpow NK om (length r)).
        assert (HP : k0 <=! P) by (apply (klt_le NK OF); apply (kpow_pos NK OF); exact om_pos).
        apply (kle_of_sub NK OF).
        replace ((va' +! Sr) *! P -! (va +! (vx +! Sr)) *! (om *! P))
          with (((va' -! (va +! vx) *! om) +! Sr *! u) *! P) by ring.
        apply (kmul_nonneg NK OF); [|exact HP].
        apply (kadd_nonneg NK OF).
        * apply (ksub_of_le NK OF). exact Wlo.
        * apply (kmul_nonneg NK OF); [exact HS|exact u_nonneg].
      + eapply (kle_trans NK OF); [exact IHhi|].
        set (P := kpow NK op (length r)).
        assert (HP : k0 <=! P) by (apply (klt_le NK OF); apply (kpow_pos NK OF); exact op_pos).
        apply (kle_of_sub NK OF).
        replace ((va +! (vx +! Sr)) *! (op *! P) -! (va' +! Sr) *! P)
          with ((((va +! vx) *! op -! va') +! Sr *! u) *! P) by ring.
        apply (kmul_nonneg NK OF); [|exact HP].
        apply (kadd_nonneg NK OF).
        * apply (ksub_of_le NK OF). exact Whi.
        * apply (kmul_nonneg NK OF); [exact HS|exact u_nonneg].
  Qed.

  (* scale_by in rounded arithmetic *)
  Lemma scaled_bound r : fin r = true -> k0 <=! v r -> forall l : list (peak (F:=F)),
    (forall q, In q l -> k0 <! v (inten q)) ->
    forallb fin (map inten l) = true ->
    forallb (fun x => nrm (mul N x r)) (map inten l) = true ->
    let l' := map (fun q => mkPeak (mz q) (mul N (inten q) r)) l in
    let S := ksum NK (map (fun q => v (inten q)) l) in
    let S' := ksum NK (map (fun q => v (inten q)) l') in
    S *! v r *! om <=! S' /\ S' <=! S *! v r *! op /\
    Forall2 (fun q q' => within NK u (v (inten q) *! v r) (v (inten q'))) l l'.
  Proof.
    intros Hfr Hr. induction l as [|q t IH]; intros Hpos Hf Hn; cbn zeta.
    - cbn [map ksum fold_right]. split; [|split].
      + apply (kle_eq NK OF). ring.
      + apply (kle_eq NK OF). ring.
      + constructor.
    - cbn [map forallb] in Hf, Hn.
      apply andb_true_iff in Hf. destruct Hf as [Hfq Hft].
      apply andb_true_iff in Hn. destruct Hn as [Hnq Hnt].
      assert (Hq : k0 <! v (inten q)) by (apply Hpos; left; reflexivity).
      assert (Ht : forall y, In y t -> k0 <! v (inten y)) by (intros y Hy; apply Hpos; right; exact Hy).
      pose proof (sm_mul _ _ _ _ _ _ SM (inten q) r Hfq Hfr Hnq) as W.
      assert (He : k0 <=! v (inten q) *! v r).
      { apply (kmul_nonneg NK OF); [apply (klt_le NK OF); exact Hq|exact Hr]. }
      destruct (within_bounds NK OF u _ _ He W) as [Wlo Whi].
      destruct (IH Ht Hft Hnt) as [IHlo [IHhi IHF]]. cbn zeta in IHlo, IHhi, IHF.
      cbn [map inten].
      change (ksum NK (?a :: ?b)) with (a +! ksum NK b).
      split; [|split].
      + eapply (kle_trans NK OF); [|apply (kle_add NK OF); [exact Wlo|exact IHlo]].
        apply (kle_eq NK OF). ring.
      + eapply (kle_trans NK OF); [apply (kle_add NK OF); [exact Whi|exact IHhi]|].
        apply (kle_eq NK OF). ring.
      + constructor; [exact W|exact IHF].
  Qed.

  Theorem normalize_rounded_aux :
    forall p : tip (F:=F), peaks p <> [] -> positive NK v p -> normalize_safe N fin nrm p = true ->
    let n := length (peaks p) in
    let s := exact_total NK v (normalize N p) in
    map mz (peaks (normalize N p)) = map mz (peaks p) /\ origin (normalize N p) = origin p
    /\ fle NK (div NK (kpow NK (sub NK (one NK) u) 2) (kpow NK (add NK (one NK) u) n)) s
    /\ fle NK s (div NK (kpow NK (add NK (one NK) u) 2) (kpow NK (sub NK (one NK) u) n))
    /\ exists r, flt NK (zero NK) r
         /\ Forall2 (fun q q' => within NK u (mul NK (v (inten q)) r) (v (inten q'))) (peaks p) (peaks (normalize N p)).
  Proof.
    intros p Hne Hpos Hsafe n s.
    split; [|split].
    { unfold normalize, scale_by. cbn [peaks]. rewrite map_map. apply map_ext. intros q. reflexivity. }
    { reflexivity. }
    unfold normalize_safe in Hsafe. cbn zeta in Hsafe.
    apply andb_true_iff in Hsafe. destruct Hsafe as [Hsafe Hny].
    apply andb_true_iff in Hsafe. destruct Hsafe as [Hsafe Hnr].
    apply andb_true_iff in Hsafe. destruct Hsafe as [Hfx Hfp].
    assert (Hposx : forall x, In x (map inten (peaks p)) -> k0 <! v x).
    { intros x Hx. apply in_map_iff in Hx. destruct Hx as [q [<- Hq]]. apply Hpos. exact Hq. }
    assert (H00 : k0 <=! v (sum0 N)).
    { rewrite (sm_sum0 _ _ _ _ _ _ SM). apply (kle_refl NK OF). }
    destruct (sum_bound (map inten (peaks p)) (sum0 N) (sm_fin_sum0 _ _ _ _ _ _ SM) H00 Hfx Hfp Hposx)
      as [HfT [Tlo Thi]].
    rewrite (sm_sum0 _ _ _ _ _ _ SM) in Tlo, Thi. rewrite map_map, map_length in Tlo, Thi.
    fold n in Tlo, Thi.
    change (fold_left (add N) (map inten (peaks p)) (sum0 N)) with (total N p) in HfT, Tlo, Thi.
    set (S := ksum NK (map (fun q => v (inten q)) (peaks p))) in *.
    assert (HS : k0 <! S).
    { apply (ksum_pos NK OF).
      - intros E. apply Hne. destruct (peaks p); [reflexivity|discriminate E].
      - intros x Hx. apply in_map_iff in Hx. destruct Hx as [q [<- Hq]]. apply Hpos. exact Hq. }
    set (A := kpow NK op n) in *. set (B := kpow NK om n) in *.
    assert (HA : k0 <! A) by (apply (kpow_pos NK OF); exact op_pos).
    assert (HB : k0 <! B) by (apply (kpow_pos NK OF); exact om_pos).
    replace ((k0 +! S) *! B) with (S *! B) in Tlo by ring.
    replace ((k0 +! S) *! A) with (S *! A) in Thi by ring.
    set (T := v (total N p)) in *.
    assert (HSB : k0 <! S *! B) by (apply (kmul_pos NK OF); assumption).
    assert (HSA : k0 <! S *! A) by (apply (kmul_pos NK OF); assumption).
    assert (HT : k0 <! T) by (apply (klt_le_trans NK OF _ (S *! B)); assumption).
    pose proof (klt_neq NK OF _ _ HT) as HTn.
    set (r := div N (one N) (total N p)) in *.
    pose proof (sm_div _ _ _ _ _ _ SM (one N) (total N p) (sm_fin_one _ _ _ _ _ _ SM) HfT HTn Hnr) as W0.
    rewrite (sm_one _ _ _ _ _ _ SM) in W0. fold T in W0. fold r in W0.
    pose proof (kinv_pos NK OF _ HT) as HiT.
    destruct (within_bounds NK OF u _ _ (klt_le NK OF _ _ HiT) W0) as [Rlo Rhi].
    assert (Hr : k0 <! v r).
    { apply (klt_le_trans NK OF _ ((k1 /! T) *! om)); [|exact Rlo]. apply (kmul_pos NK OF); [exact HiT|exact om_pos]. }
    pose proof (sm_nrm_fin _ _ _ _ _ _ SM r Hnr) as Hfr.
    destruct (scaled_bound r Hfr (klt_le NK OF _ _ Hr) (peaks p) Hpos Hfx Hny) as [Slo [Shi SF]].
    cbn zeta in Slo, Shi, SF. fold S in Slo, Shi.
    change (ksum NK (map (fun q' => v (inten q')) (map (fun q => mkPeak (mz q) (mul N (inten q) r)) (peaks p))))
      with s in Slo, Shi.
    pose proof (klt_le NK OF _ _ om_pos) as Hom. pose proof (klt_le NK OF _ _ op_pos) as Hop.
    pose proof (klt_le NK OF _ _ HS) as HS0.
    pose proof (klt_neq NK OF _ _ HS) as HSn.
    pose proof (klt_neq NK OF _ _ HA) as HAn. pose proof (klt_neq NK OF _ _ HB) as HBn.
    pose proof (kinv_anti NK OF _ _ HT Thi) as I1.    (* 1/(S A) <= 1/T *)
    pose proof (kinv_anti NK OF _ _ HSB Tlo) as I2.   (* 1/T <= 1/(S B) *)
    split; [|split].
    - (* lower bound *)
      cbn [kpow].
      apply (kle_trans NK OF _ (S *! v r *! om)); [|exact Slo].
      apply (kle_trans NK OF _ (S *! ((k1 /! T) *! om) *! om)).
      2:{ apply (kle_mul_r NK OF); [|exact Hom]. apply (kle_mul_l NK OF); [exact Rlo|exact HS0]. }
      apply (kle_trans NK OF _ (S *! ((k1 /! (S *! A)) *! om) *! om)).
      { apply (kle_eq NK OF). field. split; assumption. }
      apply (kle_mul_r NK OF); [|exact Hom]. apply (kle_mul_l NK OF); [|exact HS0].
      apply (kle_mul_r NK OF); [exact I1|exact Hom].
    - (* upper bound *)
      cbn [kpow].
      apply (kle_trans NK OF _ (S *! v r *! op)); [exact Shi|].
      apply (kle_trans NK OF _ (S *! ((k1 /! T) *! op) *! op)).
      { apply (kle_mul_r NK OF); [|exact Hop]. apply (kle_mul_l NK OF); [exact Rhi|exact HS0]. }
      apply (kle_trans NK OF _ (S *! ((k1 /! (S *! B)) *! op) *! op)).
      2:{ apply (kle_eq NK OF). field. split; assumption. }
      apply (kle_mul_r NK OF); [|exact Hop]. apply (kle_mul_l NK OF); [|exact HS0].
      apply (kle_mul_r NK OF); [exact I2|exact Hop].
    - exists (v r). split; [exact Hr|exact SF].
  Qed.
End RoundedLemmas.

Section RoundedProofs.
  Context {F K : Type} (N : Num F) (NK : Num K) (v : F -> K) (u : K) (fin nrm : F -> bool).
  Theorem normalize_rounded :
    OField NK -> StdModel N NK v u fin nrm ->
    forall p : tip (F:=F), peaks p <> [] -> positive NK v p -> normalize_safe N fin nrm p = true ->
    let n := length (peaks p) in
    let s := exact_total NK v (normalize N p) in
    map mz (peaks (normalize N p)) = map mz (peaks p) /\ origin (normalize N p) = origin p
    /\ fle NK (div NK (kpow NK (sub NK (one NK) u) 2) (kpow NK (add NK (one NK) u) n)) s
    /\ fle NK s (div NK (kpow NK (add NK (one NK) u) 2) (kpow NK (sub NK (one NK) u) n))
    /\ exists r, flt NK (zero NK) r
         /\ Forall2 (fun q q' => within NK u (mul NK (v (inten q)) r) (v (inten q'))) (peaks p) (peaks (normalize N p)).
  Proof. intros OF SM. exact (normalize_rounded_aux N NK v u fin nrm OF SM). Qed.
End RoundedProofs.

Print Assumptions normalize_rounded.
