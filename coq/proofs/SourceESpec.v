(* Source-level corollaries (SourceESpec): property theorems restated about the generated definitions, through the tie lemmas. *)
From Coq Require Import List ZArith NArith Bool Arith String Lia Permutation Sorted.
From CE Require Import Num Str TableTypes TableModel Comp ESpec CompSpec Formula FormulaSpec Render CBind.
From CE Require Import ImpS ImpE.
From CE Require Import ESpecGen.
From CE Require Import ESpecTie.
From CE Require Import ESpecProofs.
From CE Require Import Table.
Import ListNotations.
Local Open Scope nat_scope.

(* ====================================================================================================== *)
(* C16: the translated element-specification parser and Display (gen/ESpecGen.v)                            *)
(* ====================================================================================================== *)
Section ESpecSource.
  Variable tbl : ptable.            (* the global PERIODIC_TABLE *)
  Variable ua : char -> bool.

  (* what a successful parse_with returned, in the model's terms: no side condition *)
  Lemma src_espec_parse_with_ok : forall s t sp, ESpecGen.parse_with_gen tbl ua s t = EOk sp ->
    exists k, espec_parse t s = EOk k /\ tbl_find (fst k) t = Some (sp_element sp) /\ sp_isotope sp = snd k.
  Proof.
    intros s t sp H. rewrite ESpecTie.parse_with_tie in H.
    destruct (espec_parse t s) as [k|e|]; [|discriminate H|discriminate H].
    exists k. split; [reflexivity|]. unfold resolve in H.
    destruct (tbl_find (fst k) t) as [e|]; [|discriminate H].
    inversion H. split; reflexivity.
  Qed.

  (* ---- C16_parse_total ---- *)
  Lemma src_espec_parse_total : forall s t,
    ESpecGen.parse_with_gen tbl ua s t <> EPanic
    /\ ESpecGen.parse_gen tbl ua s <> EPanic
    /\ ESpecGen.from_str_gen tbl ua s <> EPanic.
  Proof.
    assert (R : forall t s, resolve t (espec_parse t s) <> EPanic).
    { intros t s. pose proof (ESpecProofs.parse_total t s) as P.
      destruct (espec_parse t s) as [k|e|] eqn:E; [|discriminate|congruence].
      destruct (parse_ok_has t s k E) as [e He]. unfold resolve. rewrite He. discriminate. }
    intros s t. rewrite ESpecTie.parse_with_tie, ESpecTie.parse_tie, ESpecTie.from_str_tie.
    repeat split; apply R.
  Qed.

  (* ---- C16_parse_sound ---- *)
  (* [keys_ok t]: the key of the returned specification is read through its element's symbol *)
  Lemma src_espec_parse_with_sound : forall t, keys_ok t -> forall s sp,
    ESpecGen.parse_with_gen tbl ua s t = EOk sp ->
    let k := spec_key sp in
    tbl_find (fst k) t = Some (sp_element sp) /\
    ESpec.has_elem t (fst k) = true /\
    ((s = fst k /\ snd k = 0%N /\ split_lb s = None) \/
     (exists ds, s = (fst k ++ [LB] ++ ds ++ [RB])%list /\ ds <> [] /\ forallb is_digit ds = true
                 /\ parse_u16 ds = Some (snd k) /\ ESpec.has_iso t (fst k) (snd k) = true)).
  Proof.
    intros t Hk s sp H k.
    assert (E : espec_parse t s = EOk k).
    { rewrite <- (parse_with_key_tie tbl ua s t Hk), H. reflexivity. }
    split.
    - destruct (src_espec_parse_with_ok s t sp H) as [k' [E' [Hf _]]].
      rewrite E in E'. inversion E' as [E'']. rewrite E''. exact Hf.
    - exact (ESpecProofs.parse_sound t s k E).
  Qed.

  Lemma src_espec_parse_sound : keys_ok tbl -> forall s sp,
    ESpecGen.parse_gen tbl ua s = EOk sp \/ ESpecGen.from_str_gen tbl ua s = EOk sp ->
    let k := spec_key sp in
    tbl_find (fst k) tbl = Some (sp_element sp) /\
    ESpec.has_elem tbl (fst k) = true /\
    ((s = fst k /\ snd k = 0%N /\ split_lb s = None) \/
     (exists ds, s = (fst k ++ [LB] ++ ds ++ [RB])%list /\ ds <> [] /\ forallb is_digit ds = true
                 /\ parse_u16 ds = Some (snd k) /\ ESpec.has_iso tbl (fst k) (snd k) = true)).
  Proof.
    intros Hk s sp H. apply (src_espec_parse_with_sound tbl Hk s sp).
    rewrite ESpecTie.from_str_tie, ESpecTie.parse_tie in H. rewrite ESpecTie.parse_with_tie. tauto.
  Qed.

  (* ---- C16_roundtrip: generated Display, then generated FromStr ---- *)
  (* the specification's element is the table's entry for its symbol (in the source: a reference into the table) *)
  Lemma src_espec_roundtrip : table_syms_ok tbl = true -> forall sp,
    tbl_find (codes (sym (sp_element sp))) tbl = Some (sp_element sp) ->
    (sp_isotope sp = 0%N \/ ESpec.has_iso tbl (codes (sym (sp_element sp))) (sp_isotope sp) = true) ->
    (sp_isotope sp < 65536)%N ->
    ESpecGen.parse_gen tbl ua (ESpecGen.display_gen tbl ua sp []) = EOk sp
    /\ ESpecGen.from_str_gen tbl ua (ESpecGen.display_gen tbl ua sp []) = EOk sp
    /\ ESpecGen.parse_with_gen tbl ua (ESpecGen.display_gen tbl ua sp []) tbl = EOk sp.
  Proof.
    intros Ht sp Hf Hi Hlt.
    rewrite ESpecTie.from_str_tie, ESpecTie.parse_tie, ESpecTie.parse_with_tie, ESpecTie.display_tie. cbn [app].
    assert (He : ESpec.has_elem tbl (fst (spec_key sp)) = true).
    { unfold ESpec.has_elem, spec_key. cbn [fst]. rewrite Hf. reflexivity. }
    rewrite (ESpecProofs.roundtrip tbl Ht (spec_key sp) He Hi Hlt).
    unfold resolve, spec_key. cbn [fst snd]. rewrite Hf. destruct sp; auto.
  Qed.
End ESpecSource.

(* the table the crate builds has [keys_ok] *)
Lemma src_espec_parse_sound_built : forall src ua s sp,
  let tbl := build_table src in
  ESpecGen.parse_gen tbl ua s = EOk sp \/ ESpecGen.from_str_gen tbl ua s = EOk sp ->
  let k := spec_key sp in
  tbl_find (fst k) tbl = Some (sp_element sp) /\
  ESpec.has_elem tbl (fst k) = true /\
  ((s = fst k /\ snd k = 0%N /\ split_lb s = None) \/
   (exists ds, s = (fst k ++ [LB] ++ ds ++ [RB])%list /\ ds <> [] /\ forallb is_digit ds = true
               /\ parse_u16 ds = Some (snd k) /\ ESpec.has_iso tbl (fst k) (snd k) = true)).
Proof. intros src ua s sp tbl. apply src_espec_parse_sound, build_table_keys_ok. Qed.

