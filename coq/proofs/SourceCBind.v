(* Source-level corollaries (SourceCBind): property theorems restated about the generated definitions, through the tie lemmas. *)
From Coq Require Import List ZArith NArith Bool Arith String Lia Permutation Sorted.
From CE Require Import Num Str TableTypes TableModel Comp ESpec CompSpec Formula FormulaSpec Render CBind.
From CE Require Import ImpE ImpX.
From CE Require Import CBindGen.
From CE Require Import CBindTie.
From CE Require Import CBindProofs.
From CE Require Import Table.
Import ListNotations.
Local Open Scope nat_scope.

(* ====================================================================================================== *)
(* C17: the translated `extern "C"` functions (gen/CBindGen.v), assembled into one step function            *)
(* ====================================================================================================== *)

(* a call of the C API, with the arguments the C caller passes: raw C strings (decoded by [lossy] inside the
   generated functions), handles, and for free_chemical_composition a pointer that may be null *)
Inductive xcall :=
| XNew | XParse (formula : cstring) | XCopy (h : nat) | XGet (h : nat) (spec : cstring)
| XSet (h : nat) (spec : cstring) (n : Z) | XInc (h : nat) (spec : cstring) (n : Z)
| XAdd (h g : nat) | XSub (h g : nat) | XScale (h : nat) (n : Z) | XMass (h : nat) | XFree (p : ptr).

(* what the C caller sees: the out cell and the return code / the value / the mass *)
Inductive xout (M : Type) := OAlloc (out : cell) (code : Z) | OCode (code : Z) | OValue (v : Z) | OMass (m : M).
Arguments OAlloc {M}. Arguments OCode {M}. Arguments OValue {M}. Arguments OMass {M}.

Definition xmap {A B} (f : A -> B) (r : xres A) : xres B :=
  match r with XOk a => XOk (f a) | XUB => XUB | XAbort => XAbort end.

(* the handles a call dereferences *)
Definition xuses (c : xcall) (h : nat) : bool :=
  match c with
  | XCopy x | XGet x _ | XSet x _ _ | XInc x _ _ | XScale x _ | XMass x | XFree (Some x) => Nat.eqb x h
  | XAdd x y | XSub x y => Nat.eqb x h || Nat.eqb y h
  | XNew | XParse _ | XFree None => false
  end.

Section CBindSource.
  Variable tbl : ptable.
  Variable un ua : char -> bool.
  Variable lossy : list N -> str.
  Context {M : Type} (mass_of : ents -> M).

  Definition as_alloc (r : handles * cell * Z) : handles * xout M := (fst (fst r), OAlloc (snd (fst r)) (snd r)).
  Definition as_code (r : handles * Z) : handles * xout M := (fst r, OCode (snd r)).
  Definition as_value (r : handles * Z) : handles * xout M := (fst r, OValue (snd r)).
  Definition as_mass (r : handles * M) : handles * xout M := (fst r, OMass (snd r)).

  (* the step function of the C API: every arm is a GENERATED function *)
  Definition src_cstep (hs : handles) (c : xcall) : xres (handles * xout M) :=
    match c with
    | XNew => xmap as_alloc (CBindGen.new_gen tbl un ua lossy hs)
    | XParse f => xmap as_alloc (CBindGen.parse_formula_gen tbl un ua lossy hs f)
    | XCopy h => xmap as_alloc (copy_gen tbl un ua lossy hs h)
    | XGet h s => xmap as_value (get_gen tbl un ua lossy hs h s)
    | XSet h s n => xmap as_code (set_gen tbl un ua lossy hs h s n)
    | XInc h s n => xmap as_code (increment_gen tbl un ua lossy hs h s n)
    | XAdd h g => xmap as_code (add_gen tbl un ua lossy hs h g)
    | XSub h g => xmap as_code (subtract_gen tbl un ua lossy hs h g)
    | XScale h n => xmap as_code (scale_gen tbl un ua lossy hs h n)
    | XMass h => xmap as_mass (CBindGen.mass_gen tbl un ua lossy mass_of hs h)
    | XFree p => xmap as_code (free_chemical_composition_gen tbl un ua lossy hs p)
    end.

  Ltac via_ties :=
    rewrite ?CBindTie.new_tie, ?CBindTie.parse_formula_tie, ?copy_tie, ?get_tie, ?set_tie, ?increment_tie,
            ?add_tie, ?subtract_tie, ?scale_tie, ?CBindTie.mass_tie, ?free_chemical_composition_tie,
            ?free_chemical_composition_null.
  Ltac via_ties_in H :=
    rewrite ?CBindTie.new_tie, ?CBindTie.parse_formula_tie, ?copy_tie, ?get_tie, ?set_tie, ?increment_tie,
            ?add_tie, ?subtract_tie, ?scale_tie, ?CBindTie.mass_tie, ?free_chemical_composition_tie,
            ?free_chemical_composition_null in H.

  (* ---- C17_no_abort ---- *)
  Lemma src_cstep_no_abort : forall hs c, src_cstep hs c <> XAbort.
  Proof.
    intros hs c. destruct c as [|f|h|h s|h s n|h s n|h g|h g|h n|h|[h|]]; cbn [src_cstep]; via_ties;
      try (cbn; discriminate);
      match goal with
      | |- context [cstep tbl un ua hs ?cc] =>
          pose proof (no_abort tbl un ua hs cc) as P; destruct (cstep tbl un ua hs cc) as [hs' r]; cbn [snd] in P
      end;
      destruct r; try congruence; try (cbn; discriminate);
      unfold of_mass; destruct (option_map mass_of (live hs h)); cbn; discriminate.
  Qed.

  (* ---- C17_errors_change_nothing ---- *)
  Lemma src_cstep_errors_change_nothing : forall hs c hs',
    (forall out code, src_cstep hs c = XOk (hs', OAlloc out code) -> code <> 0%Z -> hs' = hs /\ out = Written None)
    /\ (forall code, src_cstep hs c = XOk (hs', OCode code) -> code <> 0%Z -> hs' = hs)
    /\ (forall v, src_cstep hs c = XOk (hs', OValue v) -> hs' = hs)
    /\ (forall m, src_cstep hs c = XOk (hs', OMass m) -> hs' = hs).
  Proof.
    intros hs c hs'.
    assert (T : forall o, src_cstep hs c = XOk (hs', o) ->
              match o with
              | OAlloc out code => code <> 0%Z -> hs' = hs /\ out = Written None
              | OCode code => code <> 0%Z -> hs' = hs
              | OValue _ | OMass _ => hs' = hs
              end).
    { intros o H.
      destruct c as [|f|h|h s|h s n|h s n|h g|h g|h n|h|[h|]]; cbn [src_cstep] in H; via_ties_in H;
        try (cbn in H; discriminate H);
        match type of H with
        | context [cstep tbl un ua hs ?cc] =>
            destruct (errors_change_nothing tbl un ua hs cc) as (E1 & E2 & E3 & E4 & _);
            destruct (cstep tbl un ua hs cc) as [hs1 r]; cbn [fst snd] in E1, E2, E3, E4
        end;
        destruct r; try (cbn in H; discriminate H);
        try (unfold of_mass in H; destruct (option_map mass_of (live hs h)); [|cbn in H; discriminate H]);
        cbn in H; inversion H; subst; clear H.
      all: try (intros Hne; destruct (E1 _ _ eq_refl Hne) as [-> ->]; split; reflexivity).
      all: try (intros Hne; exact (E2 _ eq_refl Hne)).
      all: try (exact (E3 _ eq_refl)).
      all: try (exact (E4 eq_refl)). }
    split; [intros out code H; exact (T _ H)|].
    split; [intros code H; exact (T _ H)|].
    split; [intros v H; exact (T _ H)|intros m H; exact (T _ H)].
  Qed.

  (* ---- C17_no_use_after_free: a call that names a handle that is not live is undefined behaviour in the source,
     the model's RContract -- never a normal return ---- *)
  Lemma src_cstep_no_use_after_free : forall hs h c,
    live hs h = None -> xuses c h = true -> src_cstep hs c = XUB.
  Proof.
    intros hs h c L U.
    destruct c as [|f|x|x s|x s n|x s n|x g|x g|x n|x|[x|]]; cbn [xuses] in U; try discriminate U;
      cbn [src_cstep]; via_ties;
      match goal with
      | |- context [cstep tbl un ua hs ?cc] =>
          pose proof (no_use_after_free tbl un ua hs h cc L U) as P;
          destruct (cstep tbl un ua hs cc) as [hs1 r]; cbn [snd] in P; subst r
      end;
      reflexivity.
  Qed.
End CBindSource.

