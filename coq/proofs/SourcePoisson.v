(* Source-level corollaries (SourcePoisson): property theorems restated about the generated definitions, through the tie lemmas. *)
From Coq Require Import String ZArith NArith Arith List Bool Permutation Sorted Lia.
From CE Require Import Num OField Mz Peak PeakSpec PeakProofs Poisson PoissonSpec PoissonProofs.
From CE Require Import SrcGen SrcTie PoissonGen PoissonTie.
Import ListNotations.
Local Open Scope nat_scope.


(* ======================================================================================================== *)
(* C15: isotopic_pattern/poisson.rs                                                                          *)
(* ======================================================================================================== *)
Section PoissonSrc.
  Context {F : Type} (N : Num F).

  (* the m/z of a neutral mass at charge z as the SOURCE computes it: the `charge != 0` guard of the generators around
     mz.rs's mass_charge_ratio *)
  Definition charged_src (m : F) (z : Z) (carrier : F) : F :=
    if Z.eqb z 0 then m else mass_charge_ratio_gen N m z carrier.

  Lemma charged_src_model : forall m z carrier, charged_src m z carrier = charged N m z carrier.
  Proof. intros m z carrier. unfold charged_src, charged. rewrite <- mass_charge_ratio_is_source. reflexivity. Qed.

  Lemma pois_length_src : forall mass n z lf, length (poisson_approximation_impl_gen N mass n z lf) = n.
  Proof. intros mass n z lf. rewrite poisson_approximation_impl_tie. exact (pois_length N mass n z lf). Qed.

  Lemma pois_ladder_src : forall mass n z lf i, i < n ->
    mz (nth i (poisson_approximation_impl_gen N mass n z lf) (mkPeak (zero N) (zero N)))
    = charged_src (add N mass (mul N (of_Z N (Z.of_nat i)) (NEUTRON_SHIFT_gen N))) z (PROTON_gen N).
  Proof.
    intros mass n z lf i Hi. rewrite poisson_approximation_impl_tie, charged_src_model,
      <- neutron_shift_is_source, <- proton_is_source.
    exact (pois_ladder N mass n z lf i Hi).
  Qed.

  Lemma pois_n_range_src : forall mass lf t max_iter, 1 <= max_iter ->
    1 <= poisson_approximate_n_peaks_of_impl_gen N mass lf t max_iter <= max_iter.
  Proof.
    intros mass lf t max_iter Hm. pose proof (pois_n_range N mass lf t max_iter Hm) as H.
    rewrite <- poisson_approximate_n_peaks_of_impl_tie in H. lia.
  Qed.

  Lemma pois_n_public_range_src : forall mass t, 1 <= poisson_approximate_n_peaks_of_gen N mass t <= 255.
  Proof.
    intros mass t.
    assert (H : (1 <= poisson_n N mass t <= Z.of_nat 255)%Z) by (exact (pois_n_range N mass (LAMBDA_FACTOR N) t 255 ltac:(lia))).
    rewrite <- poisson_approximate_n_peaks_of_tie in H. lia.
  Qed.

  Lemma pois_n_least_src : forall mass lf t max_iter, 1 <= max_iter ->
    let lambda := div N mass lf in
    let target := sub N (one N) t in
    let r := poisson_approximate_n_peaks_of_impl_gen N mass lf t max_iter in
    (forall j, 1 <= j < r -> exits N lambda target j = false)
    /\ (r < max_iter -> exits N lambda target r = true).
  Proof.
    intros mass lf t max_iter Hm. pose proof (pois_n_least N mass lf t max_iter Hm) as H.
    rewrite <- poisson_approximate_n_peaks_of_impl_tie, Nat2Z.id in H. exact H.
  Qed.

  Lemma pois_n_monotone_src : OField N ->
    forall mass lf t t' max_iter, 1 <= max_iter -> leb N t t' = true ->
    poisson_approximate_n_peaks_of_impl_gen N mass lf t max_iter <= poisson_approximate_n_peaks_of_impl_gen N mass lf t' max_iter.
  Proof.
    intros OF mass lf t t' max_iter Hm Ht. pose proof (pois_n_monotone_field N OF mass lf t t' max_iter Hm Ht) as H.
    rewrite <- !poisson_approximate_n_peaks_of_impl_tie in H. lia.
  Qed.

  Lemma pois_ratio_src : OField N -> forall mass lf n z i,
    fle N (zero N) (div N mass lf) -> 1 <= i < n ->
    let ps := poisson_approximation_impl_gen N mass n z lf in
    let d := mkPeak (zero N) (zero N) in
    mul N (inten (nth i ps d)) (of_Z N (Z.of_nat i)) = mul N (inten (nth (i - 1) ps d)) (div N mass lf).
  Proof. intros OF mass lf n z i. rewrite poisson_approximation_impl_tie. exact (pois_ratio N OF mass lf n z i). Qed.

  Lemma pois_nonneg_sum_src : OField N -> forall mass lf n z,
    fle N (zero N) (div N mass lf) -> 1 <= n ->
    let ps := poisson_approximation_impl_gen N mass n z lf in
    (forall q, In q ps -> fle N (zero N) (inten q)) /\ fsum N (map inten ps) = one N.
  Proof. intros OF mass lf n z. rewrite poisson_approximation_impl_tie. exact (pois_nonneg_sum N OF mass lf n z). Qed.

  Lemma pois_spacing_src : OField N -> forall mass lf n z i, z <> 0%Z -> i + 1 < n ->
    let ps := poisson_approximation_impl_gen N mass n z lf in
    let d := mkPeak (zero N) (zero N) in
    sub N (mz (nth (i + 1) ps d)) (mz (nth i ps d)) = div N (NEUTRON_SHIFT_gen N) (abs N (of_Z N z)).
  Proof.
    intros OF mass lf n z i. rewrite poisson_approximation_impl_tie, <- neutron_shift_is_source.
    exact (pois_spacing N OF mass lf n z i).
  Qed.

  (* the public function (lambda factor 1800): a normalised non-negative profile of n peaks *)
  Lemma pois_public_src : OField N -> forall mass n z,
    fle N (zero N) (div N mass (LAMBDA_FACTOR_gen N)) -> 1 <= n ->
    let ps := poisson_approximation_gen N mass n z in
    length ps = n /\ (forall q, In q ps -> fle N (zero N) (inten q)) /\ fsum N (map inten ps) = one N.
  Proof.
    intros OF mass n z. rewrite poisson_approximation_tie, <- lambda_factor_is_source. unfold poisson_approximation.
    intros Hl Hn. split; [exact (pois_length N mass n z _) | exact (pois_nonneg_sum N OF mass _ n z Hl Hn)].
  Qed.
End PoissonSrc.
